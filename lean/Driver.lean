import SynRBLModel.Driver.JsonUtil
import SynRBLModel.Driver.Ops
/-! Line-protocol driver: one JSON object per input line (`{"op": …, …}`), one JSON answer per line. -/
open Lean SynRBL SynRBL.Drv

partial def loop (h : IO.FS.Stream) (out : IO.FS.Stream) : IO Unit := do
  let line ← h.getLine
  if line.isEmpty then return ()
  let ans : Json :=
    match Json.parse line with
    | .error e => Json.mkObj [("error", Json.str s!"bad-json: {e}")]
    | .ok j =>
      match (do let op ← strF j "op"; dispatch op j : R Json) with
      | .ok r => r
      | .error e => Json.mkObj [("error", Json.str e)]
  out.putStrLn ans.compress
  loop h out

def main : IO Unit := do
  let out ← IO.getStdout
  loop (← IO.getStdin) out
  out.flush
