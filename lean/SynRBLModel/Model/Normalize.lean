import SynRBLModel.Py.Str
import SynRBLModel.Model.RuleBased
/-!
# Reaction normalisation and worst-case similarity of the benchmark
Source: `synrbl/SynUtils/chem_utils.py:155-250` (`remove_stereo_chemistry`, `count_atoms`, `normalize_smiles`,
`_get_diff_mol`, `wc_similarity`), used by `synrbl/SynCmd/cmd_benchmark.py:147-158`.

What RDKit does is an oracle (`NormOracle`): the canonical SMILES of one molecule token and the fingerprint
similarity of two (possibly multi-fragment) SMILES. Everything else — the two regexes, the recursion on `>>` and `.`,
the sort by the triple key `(count_atoms(x), sum(ord(c) for c in x), x)` with `reverse=True`, the short-circuit on
equal normal forms, the position-wise difference with `zip` truncation and the `min` of the two sides — is modelled as
it is written. `none` stands for "the Python raises".
-/
namespace SynRBL.Norm
open Str

/-! ## Python pieces -/

/-- `">>".join(ts)` -/
def joinArrow : List Str → Str
  | [] => []
  | [t] => t
  | t :: t' :: ts => t ++ '>' :: '>' :: joinArrow (t' :: ts)

/-- `[f(x) for x in xs]` where `f` may raise: the comprehension raises iff some call raises -/
def mapOpt {α β} (f : α → Option β) : List α → Option (List β)
  | [] => some []
  | x :: xs =>
    match f x, mapOpt f xs with
    | some y, some ys => some (y :: ys)
    | _, _ => none

/-- stable insertion for a *descending* sort: `x` goes after every element `y` with `x ≤ y` -/
def insertDescBy {α} (le : α → α → Bool) (x : α) : List α → List α
  | [] => [x]
  | y :: ys => if le x y then y :: insertDescBy le x ys else x :: y :: ys

/-- `xs.sort(key=…, reverse=True)`; `le a b` is `key(a) <= key(b)`. Python keeps the original order of elements with
equal keys also under `reverse=True`; so does left-to-right insertion behind the elements that are `≥`. -/
def sortDescBy {α} (le : α → α → Bool) (xs : List α) : List α :=
  xs.foldl (fun acc x => insertDescBy le x acc) []

/-- Python `a < b` on `str`: lexicographic by code point, a proper prefix is smaller -/
def strLt : Str → Str → Bool
  | _, [] => false
  | [], _ :: _ => true
  | a :: as, b :: bs =>
    if a.toNat < b.toNat then true else if b.toNat < a.toNat then false else strLt as bs

/-- Python `a <= b` on `str` -/
def strLe (a b : Str) : Bool := !strLt b a

/-! ## `remove_stereo_chemistry` (chem_utils.py:155-158)
`re.sub(r"\[(?P<atom>(\w+))@+\w+\]", r"[\g<atom>]", smiles)`. `\w`, `@` and `]` are disjoint character classes, so the
greedy match is deterministic: maximal `\w` run, maximal `@` run, maximal `\w` run, then `]`. (`\w` is modelled for
ASCII input: letters, digits, `_`.) -/

def isWordChar (c : Char) : Bool := c.isAlphanum || c == '_'

/-- on the text following a `[`: the `atom` group and the number of characters matched after the `[` -/
def stereoMatch (xs : Str) : Option (Str × Nat) :=
  let atom := xs.takeWhile isWordChar
  let r1 := xs.dropWhile isWordChar
  let ats := r1.takeWhile (· == '@')
  let r2 := r1.dropWhile (· == '@')
  let hs := r2.takeWhile isWordChar
  let r3 := r2.dropWhile isWordChar
  if atom.isEmpty || ats.isEmpty || hs.isEmpty then none
  else match r3 with
    | ']' :: _ => some (atom, atom.length + ats.length + hs.length + 1)
    | _ => none

/-- left-to-right, non-overlapping substitution; `skip` characters of a match are still to be consumed -/
def rmStereoGo : Nat → Str → Str
  | _, [] => []
  | skip + 1, _ :: xs => rmStereoGo skip xs
  | 0, x :: xs =>
    if x = '[' then
      match stereoMatch xs with
      | some (atom, len) => '[' :: (atom ++ ']' :: rmStereoGo len xs)
      | none => x :: rmStereoGo 0 xs
    else x :: rmStereoGo 0 xs

/-- `remove_stereo_chemistry` -/
def rmStereo (s : Str) : Str := rmStereoGo 0 s

/-! ## `count_atoms` (chem_utils.py:161-163)
`len(re.findall("(B|C|N|O|P|S|F|Cl|Br|I|c|n|o)", smiles))`: ordered alternation, leftmost match, non-overlapping.
(`Cl` and `Br` are never reached because `C` and `B` come first; the count is the same.) -/

def atomAlternatives : List Str :=
  ["B", "C", "N", "O", "P", "S", "F", "Cl", "Br", "I", "c", "n", "o"].map String.toList

def findallCountGo (alts : List Str) : Nat → Str → Nat
  | _, [] => 0
  | skip + 1, _ :: xs => findallCountGo alts skip xs
  | 0, x :: xs =>
    match alts.find? (fun a => a.isPrefixOf (x :: xs)) with
    | some a => 1 + findallCountGo alts (a.length - 1) xs
    | none => findallCountGo alts 0 xs

/-- `count_atoms` -/
def countAtomsRe (s : Str) : Nat := findallCountGo atomAlternatives 0 s

/-- `sum(ord(c) for c in x)` -/
def ordSum (s : Str) : Nat := (s.map Char.toNat).sum

/-! ## the sort key (chem_utils.py:173-176) -/

abbrev TokKey := Nat × Nat × Str

/-- `lambda x: (count_atoms(x), sum(ord(c) for c in x), x)` -/
def tokKey (x : Str) : TokKey := (countAtomsRe x, ordSum x, x)

/-- Python `a <= b` on these tuples: first differing component decides -/
def keyLe (a b : TokKey) : Bool :=
  if a.1 < b.1 then true else if b.1 < a.1 then false
  else if a.2.1 < b.2.1 then true else if b.2.1 < a.2.1 then false
  else strLe a.2.2 b.2.2

def tokLe (x y : Str) : Bool := keyLe (tokKey x) (tokKey y)

/-- `token.sort(key=lambda x: (count_atoms(x), sum(ord(c) for c in x), x), reverse=True)` -/
def sortTokens (ts : List Str) : List Str := sortDescBy tokLe ts

/-- the key **before** the repair (`(count_atoms(x), sum(ord(c) for c in x))`), kept for the witness theorem and as
the mutation the check must catch -/
def tokLe2 (x y : Str) : Bool :=
  if countAtomsRe x < countAtomsRe y then true else if countAtomsRe y < countAtomsRe x then false
  else decide (ordSum x ≤ ordSum y)

/-! ## oracle -/

inductive Method where
  | pathway | ecfp | ecfpInv
  /-- any other string: `_fp` raises `ValueError` -/
  | other
  deriving Repr, DecidableEq, Inhabited

structure NormOracle where
  /-- `canon_smiles(remove_atom_mapping(t))` for one molecule token `t` (no `.`, no `>>`); `none` = raises
  (RDKit cannot parse the token) -/
  canon : Str → Option Str
  /-- `_fp(MolFromSmiles(a), MolFromSmiles(b))` for the given method, where `""` is the empty molecule; `none` = raises
  (`MolFromSmiles` returned `None`) -/
  fpSim : Method → Str → Str → Option Rat

/-! ## `normalize_smiles` (chem_utils.py:166-180)
The Python is one recursive function; a token of `split(">>")` contains no `>>`, a token of `split(".")` contains
neither (and `remove_stereo_chemistry` creates none), so the recursion has exactly three levels. Each level applies
`remove_stereo_chemistry` again, as the code does. -/

/-- third branch: `canon_smiles(remove_atom_mapping(smiles))` -/
def molBody (O : NormOracle) (s1 : Str) : Option Str := O.canon s1

/-- `normalize_smiles(t)` for a token `t` of `split(".")` -/
def normMol (O : NormOracle) (t : Str) : Option Str := molBody O (rmStereo t)

/-- second and third branch, on the already stereo-stripped string -/
def sideBody (O : NormOracle) (s1 : Str) : Option Str :=
  if s1.contains '.' then
    (mapOpt (normMol O) (splitOn '.' s1)).map fun ts => joinWith '.' (sortTokens ts)
  else molBody O s1

/-- `normalize_smiles(t)` for a token `t` of `split(">>")` -/
def normSide (O : NormOracle) (t : Str) : Option Str := sideBody O (rmStereo t)

/-- `normalize_smiles` -/
def normalize (O : NormOracle) (s : Str) : Option Str :=
  let s1 := rmStereo s
  if hasInfix ['>', '>'] s1 then (mapOpt (normSide O) (splitArrow s1)).map joinArrow
  else sideBody O s1

/-! ## `_get_diff_mol` and `wc_similarity` (chem_utils.py:183-250) -/

/-- the position-wise differing tokens (`zip` stops at the shorter list) -/
def diffPairs (a b : List Str) : List (Str × Str) := (List.zip a b).filter fun p => p.1 != p.2

/-- `_get_diff_mol`: the two SMILES handed to `MolFromSmiles` (`""` = the empty `RWMol()` when nothing differs) -/
def diffMol (O : NormOracle) (s1 s2 : Str) : Option (Str × Str) :=
  match normalize O s1, normalize O s2 with
  | some n1, some n2 =>
    let d := diffPairs (splitOn '.' n1) (splitOn '.' n2)
    some (joinWith '.' (d.map (·.1)), joinWith '.' (d.map (·.2)))
  | _, _ => none

/-- `_fp` -/
def fp (O : NormOracle) (m : Method) (a b : Str) : Option Rat :=
  match m with
  | .other => none
  | _ => O.fpSim m a b

/-- `wc_similarity(expected_smiles, result_smiles, method)` -/
def wcSimilarity (O : NormOracle) (m : Method) (e r : Str) : Option Rat :=
  match normalize O e, normalize O r with
  | some exp, some res =>
    if exp = res then some 1
    else
      match splitArrow exp, splitArrow res with
      | [expE, expP], [resE, resP] =>
        match diffMol O expE resE, diffMol O expP resP with
        | some (ed1, ed2), some (pd1, pd2) =>
          match fp O m ed1 ed2, fp O m pd1 pd2 with
          | some x, some y => some (min x y)
          | _, _ => none
        | _, _ => none
      | _, _ => none
  | _, _ => none

end SynRBL.Norm
