import SynRBLModel.Model.Graph
/-!
# `merge(CompoundSet)` (C09)

Model of `synrbl/SynMCSImputer/merge.py`, `rules.py` (MergeRule / ExpandRule / CompoundRule, conditions, actions) and
`structure.py` (Boundary, Compound, CompoundSet) on molecular graphs (`Model/Graph.lean`).

What is model code: the whole control flow (`merge`, `_merge_one_compound`, `_merge_two_compounds`, `merge_boundaries`,
`expand_boundary`, `update_compound`), the `Property` semantics (positive / `!`negative value lists), the symbol and
neighbour-symbol conditions, the exception behaviour of `MergeRule.can_apply` (`try … except: return False`), the role
swap of `MergeRule.apply`, boundary removal, rule accumulation, `concat`, inactive compounds, `ChangeBondAction` /
`ChangeChargeAction` once the atoms are known, explicit-H fixing and `merge_two_mols`.

What is an oracle (answered by RDKit / fgutils in the real run, see `Oracle`): functional-group and pattern tests,
which atoms a `change_bond` pattern hits, `ReplaceAction` (re-parses the canonical SMILES), `SanitizeMol`,
`Compound.smiles`-based tests of the compound rules, the atom picked by `add_boundary`.
-/
namespace SynRBL.Mol

/-! ## rule tables (generated from the three JSON files) -/

/-- `rules.Property` after `__init__` (rules.py:66-100): accepted values and forbidden (`!`-prefixed) values -/
structure PropCfg (α : Type) where
  pos : List α := []
  neg : List α := []
  deriving Repr, DecidableEq, Inhabited

/-- `Property.__call__` (rules.py:105-139) for a value that is not `None` -/
def PropCfg.eval {α} (c : PropCfg α) (check : α → Bool) : Bool :=
  (c.pos.isEmpty || c.pos.any check) && !c.neg.any check

def PropCfg.isEmpty {α} (c : PropCfg α) : Bool := c.pos.isEmpty && c.neg.isEmpty

/-- `BoundaryCondition` (rules.py:457-523): atom, neighbor_atom, functional_group, pattern, src_pattern -/
structure BCond where
  atom : PropCfg String := {}
  neighbor : PropCfg String := {}
  fg : PropCfg String := {}
  pattern : PropCfg String := {}
  srcPattern : PropCfg String := {}
  deriving Repr, DecidableEq, Inhabited

/-- merge-rule actions (rules.py:177-259); `bond` of `change_bond` already as `bond_nr` (1 single, 2 double) -/
inductive Action where
  | changeBond (pattern : String) (order : Nat)
  | changeCharge (charge : Int)
  | replace (pattern value : String)
  deriving Repr, DecidableEq, Inhabited

/-- `MergeRule` (rules.py:630-691); `bond` as written in the JSON file (`none` = no `bond` key) -/
structure MergeRule where
  name : String
  cond1 : BCond := {}
  cond2 : BCond := {}
  action1 : List Action := []
  action2 : List Action := []
  bond : Option String := none
  deriving Repr, DecidableEq, Inhabited

/-- `ExpandRule` (rules.py:775-844) + RDKit's atom/bond list of `compound.smiles` -/
structure ExpandRule where
  name : String
  cond : BCond := {}
  smiles : String
  index : Nat
  g : Graph
  deriving Repr, DecidableEq, Inhabited

/-- compound-rule actions (rules.py:289-343) -/
inductive CAction where
  | addBoundary (fg : Option String) (pattern : String) (index : Nat)
  | setActive (active : Bool)
  deriving Repr, DecidableEq, Inhabited

/-- `CompoundRuleCondition` = `CompoundCondition` + `SetCondition` (rules.py:526-583) -/
structure CCond where
  nrBoundaries : PropCfg Nat := {}
  isCatalyst : PropCfg Bool := {}
  smiles : PropCfg String := {}
  fg : PropCfg String := {}
  setNrBoundaries : PropCfg Nat := {}
  setNrCompounds : PropCfg Nat := {}
  deriving Repr, DecidableEq, Inhabited

structure CompoundRule where
  name : String
  cond : CCond := {}
  actions : List CAction := []
  deriving Repr, DecidableEq, Inhabited

structure Tables where
  merge : List MergeRule
  expand : List ExpandRule
  compound : List CompoundRule
  deriving Repr, Inhabited

/-! ## compounds -/

/-- an entry of `Compound.rules` (the real list holds the rule objects; the harness compares names) -/
inductive RuleRef where
  | merge (i : Nat)
  | expand (i : Nat)
  | compound (i : Nat)
  deriving Repr, DecidableEq, Inhabited

/-- `structure.Boundary`: atom index in the compound, its symbol, index / symbol of the lost neighbour in `src_mol` -/
structure Boundary where
  index : Nat
  symbol : String
  nbrIndex : Option Nat := none
  nbrSymbol : Option String := none
  deriving Repr, DecidableEq, Inhabited

/-- `structure.Compound`.  `cid` identifies the compound for the oracle (position in the set; `1000 + k` for the k-th
expansion compound of a run), `hasSrc` = `src_mol is not None`, `inSet` = belongs to the `CompoundSet`. -/
structure Compound where
  cid : Nat
  g : Graph
  hasSrc : Bool := true
  boundaries : List Boundary := []
  rules : List RuleRef := []
  active : Bool := true
  inSet : Bool := true
  deriving Repr, DecidableEq, Inhabited

/-- answers of RDKit / fgutils that the model does not compute -/
structure Oracle where
  /-- `fgutils.is_functional_group(src_mol, value, neighbor_index)` (FunctionalGroupProperty.check) -/
  fg : Compound → Boundary → String → Bool
  /-- `fgutils.pattern_match(compound.mol, boundary.index, MolFromSmiles(value))[0]` -/
  pat : Compound → Boundary → String → Bool
  /-- the same on `(src_mol, neighbor_index)` (`src_pattern`) -/
  srcPat : Compound → Boundary → String → Bool
  /-- `ChangeBondAction`: the two atoms `(mapping[0][0], mapping[1][0])` the pattern was matched on (`none`: assert fails) -/
  changeBondAtoms : Compound → Boundary → String → Option (Nat × Nat)
  /-- `ReplaceAction`: `MolFromSmiles(compound.smiles)` — the result of `str.replace` is discarded (`none`: unparsable) -/
  reparse : Compound → Boundary → Option Graph
  /-- `rdmolops.SanitizeMol` on the merged molecule (`none`: raises) -/
  sanitize : Graph → Option Graph
  /-- `compound.smiles == compound.src_smiles` (first half of `is_catalyst`) -/
  sameAsSrc : Compound → Bool
  /-- `remove_atom_mapping(compound.smiles) == value` -/
  smilesIs : Compound → String → Bool
  /-- `FunctionalGroupCompoundProperty.check` -/
  fgCompound : Compound → String → Bool
  /-- `AddBoundaryAction.apply`: the atom that becomes a boundary (`none`: RuntimeError) -/
  addBoundaryAtom : Compound → Option String → String → Nat → Option Nat

inductive Err where
  | notImplemented (n : Nat)       -- merge.py:115 / 62
  | noMergeRule                    -- merge.py:53 / 86
  | unequalBoundaries              -- merge.py:77
  | sanitizeFailed                 -- rules.py:767
  | actionFailed (what : String)   -- assert / ValueError / RuntimeError inside an action
  | badBond (s : String)           -- parse_bond_type: NotImplementedError
  | indexError                     -- atom index out of range
  | condRaised                     -- a condition raised outside `can_apply`'s try block
  | notInSet                       -- structure.py:135
  | openBoundaries                 -- structure.py:163
  | outOfFuel                      -- cannot happen, see `mergeOne_fuel`
  deriving Repr, DecidableEq, Inhabited

abbrev M := Except Err

/-! ## conditions -/

/-- `BoundaryCondition.__call__` (rules.py:509-523): the five properties in order, first failure wins.  `none` = the
evaluation raises: `PatternProperty(use_src_mol=True).check` calls `promise_src()` / `promise_neighbor_index()`
(rules.py:368-370), which raise `ValueError` when the compound has no source molecule / the boundary no neighbour. -/
def BCond.eval (orc : Oracle) (k : BCond) (c : Compound) (b : Boundary) : Option Bool :=
  if !k.atom.eval (fun v => v == b.symbol) then some false
  else if !k.neighbor.eval (fun v => b.nbrSymbol == some v) then some false
  else if !k.fg.eval (fun v => c.hasSrc && b.nbrIndex.isSome && orc.fg c b v) then some false
  else if !k.pattern.eval (fun v => orc.pat c b v) then some false
  else if k.srcPattern.isEmpty then some true
  else if !c.hasSrc || b.nbrIndex.isNone then none
  else some (k.srcPattern.eval fun v => orc.srcPat c b v)

/-- Python `x and y` on possibly raising operands -/
def andM (x : Option Bool) (y : Unit → Option Bool) : Option Bool :=
  match x with
  | none => none
  | some false => some false
  | some true => y ()

/-- `condition1(boundary1) and condition2(boundary2)` -/
def MergeRule.direct (orc : Oracle) (r : MergeRule) (c1 : Compound) (b1 : Boundary) (c2 : Compound) (b2 : Boundary) :
    Option Bool :=
  andM (r.cond1.eval orc c1 b1) fun _ => r.cond2.eval orc c2 b2

/-- `MergeRule.can_apply` (rules.py:711-733): direct or swapped assignment; any exception makes the rule inapplicable -/
def MergeRule.canApply (orc : Oracle) (r : MergeRule) (c1 : Compound) (b1 : Boundary) (c2 : Compound) (b2 : Boundary) :
    Bool :=
  match r.direct orc c1 b1 c2 b2 with
  | none => false
  | some true => true
  | some false => (r.direct orc c2 b2 c1 b1).getD false

/-- `parse_bond_type` (rules.py:34-51): `(bond_type, bond_nr)`; only `None`, "single", "double" exist -/
def parseBond : Option String → M (Option Nat)
  | none => .ok none
  | some "single" => .ok (some 1)
  | some "double" => .ok (some 2)
  | some s => .error (.badBond s)

/-! ## actions -/

/-- one action on `boundary.compound` (rules.py:202-254) -/
def Action.apply (orc : Oracle) (a : Action) (c : Compound) (b : Boundary) : M Compound :=
  match a with
  | .changeBond pattern order =>
    match orc.changeBondAtoms c b pattern with
    | none => .error (.actionFailed "change_bond: no match")
    | some (x, y) => .ok { c with g := SynRBL.Mol.changeBond c.g x y order }
  | .changeCharge q =>
    if b.index < c.g.n then .ok { c with g := setCharge c.g b.index q } else .error .indexError
  | .replace _ _ =>
    match orc.reparse c b with
    | none => .error (.actionFailed "replace: unparsable")
    | some g' =>
      match g'.atoms[b.index]? with
      | none => .error .indexError
      | some x => if x.sym == b.symbol then .ok { c with g := g' } else .error (.actionFailed "replace: symbol changed")

def applyActions (orc : Oracle) (as : List Action) (c : Compound) (b : Boundary) : M Compound :=
  as.foldlM (fun c a => a.apply orc c b) c

/-! ## `MergeRule.apply` -/

/-- `MergeRule.apply` after the roles are fixed (rules.py:748-772) with rule index `ri`: actions, `parse_bond_type`,
`_fix_Hs`, `merge_two_mols`, `SanitizeMol`, then the role-1 compound is updated: new molecule, its merged boundary
removed (the merged boundary is always the first of its compound in `merge.py`), rules of both compounds followed by
this rule. -/
def MergeRule.applyOriented (orc : Oracle) (ri : Nat) (r : MergeRule) (c1 c2 : Compound) (b1 b2 : Boundary) :
    M Compound :=
  match applyActions orc r.action1 c1 b1 with
  | .error e => .error e
  | .ok c1' =>
    match applyActions orc r.action2 c2 b2 with
    | .error e => .error e
    | .ok c2' =>
      match parseBond r.bond with
      | .error e => .error e
      | .ok order =>
        if !(b1.index < c1'.g.n && b2.index < c2'.g.n) then .error .indexError
        else
          match orc.sanitize (mergeTwo c1'.g c2'.g b1.index b2.index order) with
          | none => .error .sanitizeFailed
          | some g =>
            .ok { c1' with g := g, boundaries := c1'.boundaries.tail,
                           rules := c1'.rules ++ c2'.rules ++ [RuleRef.merge ri] }

/-- `MergeRule.apply` (rules.py:735-772): the roles are swapped when the direct assignment does not hold
(rules.py:742-746) -/
def MergeRule.apply (orc : Oracle) (ri : Nat) (r : MergeRule) (c1 c2 : Compound) (b1 b2 : Boundary) : M Compound :=
  match r.direct orc c1 b1 c2 b2 with
  | none => .error .condRaised
  | some true => r.applyOriented orc ri c1 c2 b1 b2
  | some false => r.applyOriented orc ri c2 c1 b2 b1

/-- index and rule of the first applicable merge rule -/
def firstMergeRule (orc : Oracle) (rules : List MergeRule) (c1 : Compound) (b1 : Boundary) (c2 : Compound)
    (b2 : Boundary) : Option (Nat × MergeRule) :=
  (rules.zipIdx).findSome? fun (r, i) => if r.canApply orc c1 b1 c2 b2 then some (i, r) else none

/-- `merge_boundaries` (merge.py:21-26) on the first boundaries of the two compounds: the first applicable rule is
applied; `none` = Python `None` -/
def mergeBoundaries (orc : Oracle) (tbl : Tables) (c1 c2 : Compound) : M (Option Compound) :=
  match c1.boundaries, c2.boundaries with
  | b1 :: _, b2 :: _ =>
    match firstMergeRule orc tbl.merge c1 b1 c2 b2 with
    | none => .ok none
    | some (i, r) => (r.apply orc i c1 c2 b1 b2).map some
  | _, _ => .error .indexError

/-! ## expansion -/

/-- index of the first expand rule whose condition holds (`expand_boundary`, merge.py:10-18); `ExpandRule.can_apply` has
no `try`: a raising condition propagates -/
def firstExpandRule (orc : Oracle) (rules : List ExpandRule) (c : Compound) (b : Boundary) : M (Option Nat) :=
  let rec go : List ExpandRule → Nat → M (Option Nat)
    | [], _ => .ok none
    | e :: es, i =>
      match e.cond.eval orc c b with
      | none => .error .condRaised
      | some true => .ok (some i)
      | some false => go es (i + 1)
  go rules 0

/-- `ExpandRule.apply` (rules.py:833-844): a fresh compound outside the set, without source molecule, with one boundary
(symbol read from the molecule, no neighbour) and the expand rule as its only rule; `k` numbers the expansions -/
def expansionCompound (e : ExpandRule) (ei k : Nat) : M Compound :=
  match e.g.atoms[e.index]? with
  | none => .error .indexError
  | some x => .ok { cid := 1000 + k, g := e.g, hasSrc := false, boundaries := [{ index := e.index, symbol := x.sym }],
                    rules := [RuleRef.expand ei], active := true, inSet := false }

/-- `_merge_one_compound` (merge.py:36-54).  State: the expansion counter `k` and the current compound.  Each turn takes
the first boundary; no expand rule → the boundary is just dropped (`update(mol, boundary1)`); otherwise the expansion
compound is merged by `merge_boundaries` and *its result* becomes the current compound. -/
def mergeOne (orc : Oracle) (tbl : Tables) : Nat → Nat → Compound → M (Nat × Compound)
  | 0, k, c => if c.boundaries.isEmpty then .ok (k, c) else .error .outOfFuel
  | fuel + 1, k, c =>
    match c.boundaries with
    | [] => .ok (k, c)
    | b :: rest => do
      match ← firstExpandRule orc tbl.expand c b with
      | none => mergeOne orc tbl fuel k { c with boundaries := rest }
      | some ei =>
        let e := tbl.expand.getD ei default
        let c2 ← expansionCompound e ei k
        match ← mergeBoundaries orc tbl c c2 with
        | none => throw Err.noMergeRule
        | some m => mergeOne orc tbl fuel (k + 1) m

/-- `Compound.concat` (structure.py:160-175): the SMILES of both are joined with "." and re-parsed — on graphs the
disjoint union (atom order of the re-parsed molecule is RDKit's; the harness compares up to isomorphism) -/
def concat (self other : Compound) : M Compound :=
  if !(self.inSet && other.inSet) then .error .notInSet
  else if !self.boundaries.isEmpty then .error .openBoundaries
  else .ok { self with g := combine self.g other.g, hasSrc := self.hasSrc && other.hasSrc,
                       rules := self.rules ++ other.rules }

/-- `_merge_two_compounds` (merge.py:57-87) -/
def mergeTwoCompounds (orc : Oracle) (tbl : Tables) (c1 c2 : Compound) : M Compound := do
  if c1.boundaries.length != 1 then throw (Err.notImplemented c1.boundaries.length)
  if c1.boundaries.length != c2.boundaries.length then
    if components c1.g == 1 && components c2.g == 1 then
      let (k, m1) ← mergeOne orc tbl c1.boundaries.length 0 c1
      let (_, m2) ← mergeOne orc tbl c2.boundaries.length k c2
      concat m1 m2
    else throw Err.unequalBoundaries
  else
    match ← mergeBoundaries orc tbl c1 c2 with
    | none => throw Err.noMergeRule
    | some m => pure m

/-! ## compound rules -/

/-- `CompoundRuleCondition.__call__` (rules.py:582-583) on compound `c` of the set `cs` -/
def CCond.eval (orc : Oracle) (k : CCond) (cs : List Compound) (c : Compound) : Bool :=
  k.nrBoundaries.eval (fun v => c.boundaries.length == v)
  && k.isCatalyst.eval (fun v => (orc.sameAsSrc c && c.boundaries.isEmpty) == v)
  && k.smiles.eval (fun v => orc.smilesIs c v)
  && k.fg.eval (fun v => orc.fgCompound c v)
  && k.setNrBoundaries.eval (fun v => (cs.map (·.boundaries.length)).sum == v)
  && k.setNrCompounds.eval (fun v => cs.length == v)

def CAction.apply (orc : Oracle) (a : CAction) (c : Compound) : M Compound :=
  match a with
  | .setActive v => .ok { c with active := v }
  | .addBoundary fg pattern index =>
    match orc.addBoundaryAtom c fg pattern index with
    | none => .error (.actionFailed "add_boundary could not be applied")
    | some i =>
      match c.g.atoms[i]? with
      | none => .error .indexError
      | some x => .ok { c with boundaries := c.boundaries ++ [{ index := i, symbol := x.sym }] }

/-- `update_compound` (merge.py:29-33): the first applicable compound rule is applied and recorded -/
def updateCompound (orc : Oracle) (rules : List CompoundRule) (cs : List Compound) (c : Compound) : M Compound :=
  match (rules.zipIdx).find? fun (r, _) => r.cond.eval orc cs c with
  | none => .ok c
  | some (r, i) => do
    let c' ← r.actions.foldlM (fun c a => a.apply orc c) c
    pure { c' with rules := c'.rules ++ [RuleRef.compound i] }

/-- the loop head of `merge` (merge.py:95-96): compounds are updated one after the other, each seeing the set with the
earlier ones already updated -/
def updateAll (orc : Oracle) (rules : List CompoundRule) : List Compound → List Compound → M (List Compound)
  | done, [] => .ok done
  | done, c :: todo => do
    let c' ← updateCompound orc rules (done ++ c :: todo) c
    updateAll orc rules (done ++ [c']) todo

def concatAll (m : Compound) : List Compound → M Compound
  | [] => .ok m
  | c :: cs => do concatAll (← concat m c) cs

/-- the dispatch of `merge` on the number of open compounds (merge.py:105-117): the merged compound and the compounds
that are still to be concatenated -/
def mergeDispatch (orc : Oracle) (tbl : Tables) (withB without : List Compound) : M (Compound × List Compound) :=
  match withB with
  | [] =>
    match without.getLast? with
    | none => .error (.notImplemented 0)
    | some l => .ok (l, without.dropLast)
  | [c] =>
    match mergeOne orc tbl c.boundaries.length 0 c with
    | .error e => .error e
    | .ok km => .ok (km.2, without)
  | [c1, c2] =>
    match mergeTwoCompounds orc tbl c1 c2 with
    | .error e => .error e
    | .ok m => .ok (m, without)
  | _ => .error (.notImplemented withB.length)

/-- `merge(compound_set)` (merge.py:90-122): compound rules, inactive compounds put aside (their rules are reported
first), dispatch, concatenation of the closed compounds -/
def merge (orc : Oracle) (tbl : Tables) (cs : List Compound) : M Compound :=
  match updateAll orc tbl.compound [] cs with
  | .error e => .error e
  | .ok cs =>
    let removed := (cs.filter fun c => !c.active).flatMap (·.rules)
    let act := cs.filter (·.active)
    match mergeDispatch orc tbl (act.filter fun c => !c.boundaries.isEmpty) (act.filter (·.boundaries.isEmpty)) with
    | .error e => .error e
    | .ok (m, rest) => concatAll { m with rules := removed ++ m.rules } rest

end SynRBL.Mol
