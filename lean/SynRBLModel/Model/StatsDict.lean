import SynRBLModel.Model.Batching
/-!
# The statistics *dictionary*: `merge_stats` and the keys a pipeline invocation writes
Source: `synrbl/balancing.py:21-31` (`merge_stats`), `:192-194` (`reaction_cnt`), `synrbl/rule_based.py:141-167`,
`synrbl/SynMCSImputer/mcs_based_method.py` (`mcs_applied`, `mcs_solved`), `synrbl/confidence_prediction.py:85`.

`Model/Batching.lean` adds statistics field by field; the code merges Python dictionaries whose key sets differ from batch
to batch (a batch without a valid row reports `reaction_cnt` only).  This file models the dictionaries themselves.
-/
namespace SynRBL
open Dict

/-- `merge_stats(stats, new_stats)`: keys of `stats` that `new_stats` has are incremented in place, keys that only
`new_stats` has are appended in its order -/
def mergeStats (s n : Dict) : Dict :=
  s.map (fun kv => if n.contains kv.1 then (kv.1, kv.2 + n.val kv.1) else kv)
    ++ n.filter (fun kv => !s.contains kv.1)

/-- the dictionary one `__run_pipeline` call leaves in its `stats` argument: `reaction_cnt` always, the six stage
counters (in the order the stages write them) only when the valid pipeline ran -/
def RowStats.toDict (ranValid : Bool) (r : RowStats) : Dict :=
  if ranValid then
    [("reaction_cnt", r.reactionCnt), ("balanced_cnt", r.balancedCnt), ("rb_applied", r.rbApplied),
     ("rb_solved", r.rbSolved), ("mcs_applied", r.mcsApplied), ("mcs_solved", r.mcsSolved),
     ("confident_cnt", r.confidentCnt)]
  else [("reaction_cnt", r.reactionCnt)]

def InRow.isValid : InRow → Bool
  | .valid _ _ => true
  | .invalid _ => false

/-- statistics dictionary of one batch -/
def batchDict (cfg : Config) (rows : List InRow) : Dict :=
  (batchStats cfg rows).toDict (rows.any InRow.isValid)

/-- the caller's `stats` dictionary after `rebalance(..., batch_size=n)` (it starts empty) -/
def rebalanceDict (cfg : Config) (n : Nat) (rows : List InRow) : Dict :=
  ((batchesOf n rows).map (batchDict cfg)).foldl mergeStats []

/-- the value a record field has under its dictionary key -/
def RowStats.field (r : RowStats) (k : Key) : Int :=
  if k = "reaction_cnt" then r.reactionCnt else if k = "balanced_cnt" then r.balancedCnt
  else if k = "rb_applied" then r.rbApplied else if k = "rb_solved" then r.rbSolved
  else if k = "mcs_applied" then r.mcsApplied else if k = "mcs_solved" then r.mcsSolved
  else if k = "confident_cnt" then r.confidentCnt else 0

end SynRBL
