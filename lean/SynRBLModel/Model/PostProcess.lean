import SynRBLModel.Model.RuleBased
import SynRBLModel.Model.Decompose
import SynRBLModel.Model.Compare
/-!
# Reagent post-processing ("curation"): `PostProcess.fit` as `Balancer.__post_process` uses it
Sources: `synrbl/SynChemImputer/post_process.py:18-115` (`label_reactions`, `fit`),
`curate_oxidation.py:53-152` (`find_oxidation_pattern`, `process_ox_template`, `process_dict`),
`curate_reduction.py:34-152` (the reduction analogue), `reaction_template.json`, `compounds_template.json`
(→ `Generated/Templates.lean`) and `synrbl/balancing.py:152-170` (`__post_process`: what is written back).

Kernel-dependent answers are the fields of `PPOracle`: `find_functional_reactivity` (functional groups that only
occur on one side) and `count_radical_atoms` (isolated radical atoms of one element in the reactant side).
Everything else — labelling by substring, the component filter `x != "[O]"`, the template loop, the special
cases that return the reaction unchanged, the exceptions the code raises — is modelled as written.
-/
namespace SynRBL.PP
open Str

/-- one entry of `reaction_template.json` (for reductions: the `"ion"` or `"neutral"` variant) -/
structure Template where
  reactants : List String
  products : List String
  stoichiometric : List Nat
  deriving Repr, DecidableEq

/-- RDKit's view of one template compound: does it parse, and the atoms of the hydrogen-completed molecule -/
structure Compound where
  smiles : String
  parses : Bool
  atoms : List Atom
  deriving Repr, DecidableEq

/-- the two JSON files, in source order -/
structure Tables where
  /-- `compounds_template["oxidation"]`: pattern ↦ template names -/
  oxCompounds : List (String × List String)
  /-- `compounds_template["reduction"]` -/
  redCompounds : List (String × List String)
  /-- `reaction_templates["oxidation"]` -/
  oxTemplates : List (String × Template)
  /-- `reaction_templates["reduction"][name]["ion"]` (the pipeline never sets `neutralize`) -/
  redTemplates : List (String × Template)
  /-- `reaction_templates["reduction"][name]["neutral"]` (unused by the pipeline; kept for the balance table) -/
  redTemplatesNeutral : List (String × Template)
  /-- every compound named by a template, with RDKit's composition -/
  compounds : List Compound

/-- `find_functional_reactivity` / `count_radical_atoms`; `none` = the call raised -/
structure PPOracle where
  /-- `find_functional_reactivity(reaction)`: (groups only in the reactants, groups only in the products) -/
  fg : Str → Option (List String × List String)
  /-- `count_radical_atoms(reactant_side, Z)` -/
  count : Nat → Str → Option Nat

inductive Label | oxidation | reduction | unspecified
  deriving DecidableEq, Repr, Inhabited

def Label.toString : Label → String
  | .oxidation => "Oxidation" | .reduction => "Reduction" | .unspecified => "unspecified"

/-- what happens to one candidate row in `__post_process` -/
inductive Outcome
  /-- label `unspecified`, or the result carries no `curated_reaction`: nothing is written -/
  | skipped
  /-- `reactions[idx][reaction_col] = curated_reaction` (and `uncurated_reaction` keeps the old text) -/
  | written (c : Str)
  /-- an exception leaves `PostProcess.fit` (and with it `Balancer.__run_pipeline` for the whole batch) -/
  | raises (why : String)
  deriving DecidableEq, Repr, Inhabited

def phO : Str := str "[O]"
def phH : Str := str "[H]"
def markerO : Str := str ".[O]"
def markerH : Str := str ".[H]"

/-- `PostProcess.label_reactions` (`post_process.py:38-51`): `split(">>", 1)` — fewer than two tokens give
`("", "")` —, then the first marker of the dict `{".[O]": "Oxidation", ".[H]": "Reduction"}` that is a *substring* of the
reactant side decides -/
def labelOf (s : Str) : Label :=
  match splitArrow s with
  | r :: _ :: _ =>
    if hasInfix markerO r then .oxidation
    else if hasInfix markerH r then .reduction
    else .unspecified
  | _ => .unspecified

/-- `for _ in range(n): xs.extend(add)` -/
def extendLoop : Nat → List Str → List Str → List Str
  | 0, xs, _ => xs
  | n + 1, xs, add => extendLoop n (xs ++ add) add

def toks (xs : List String) : List Str := xs.map str

/-- `f"{'.'.join(reactant)}>>{'.'.join(product)}"` -/
def mkReaction (r p : List Str) : Str := joinWith '.' r ++ str ">>" ++ joinWith '.' p

/-- the three patterns whose template is applied once per `[O]` (`curate_oxidation.py:88-92`) -/
def perAtomPatterns : List String :=
  ["primary_alcohol>>aldehyde", "secondary_alcohol>>ketone", "aldehyde>>carboxylic_acid"]

def oncePattern : String := "primary_alcohol>>carboxylic_acid"

/-- `CurationOxidation.find_oxidation_pattern`: both lists non-empty → `"{r[0]}>>{p[0]}"` -/
def oxPattern : List String × List String → Option String
  | (r :: _, p :: _) => some (r ++ ">>" ++ p)
  | _ => none

/-- `CurationReduction.find_reduction_pattern(...)[0]` -/
def redPattern : List String × List String → Option String
  | (r :: _, _) => some r
  | _ => none

/-- `CurationOxidation.process_ox_template` followed by `process_dict(return_all=False)`
(`curate_oxidation.py:70-152`).  Quirks kept: `compounds_template["oxidation"]["other"]` is evaluated eagerly;
`count_radical_atoms` is called before the empty-template test; with `o_count == 0` the local `stoichiometry` is
never bound (UnboundLocalError); inside `for temp in temps` the names `reactant`/`product` are re-bound to strings, so a
second template raises AttributeError (`str.extend`) unless the pattern falls into the final `else`. -/
def curateOx (T : Tables) (P : PPOracle) (s : Str) : Outcome :=
  match P.fg s with
  | none => .raises "find_functional_reactivity"
  | some fgs =>
    match oxPattern fgs with
    | none => .written s                       -- IndexError → `[reaction], [None]`
    | some cp =>
      match T.oxCompounds.lookup "other" with
      | none => .raises "KeyError: other"
      | some other =>
        let temps := (T.oxCompounds.lookup cp).getD other
        match splitArrow s with
        | [reactant, product] =>
          match P.count 8 reactant with
          | none => .raises "count_radical_atoms"
          | some n =>
            let rt := (splitOn '.' reactant).filter (· ≠ phO)
            let pt := splitOn '.' product
            match temps with
            | [] => .written s
            | temp :: more =>
              if cp ∈ perAtomPatterns then
                if n = 0 then .raises "UnboundLocalError: stoichiometry"
                else match T.oxTemplates.lookup temp with
                  | none => .raises "KeyError: template"
                  | some t =>
                    if more = [] then
                      .written (mkReaction (extendLoop n rt (toks t.reactants)) (extendLoop n pt (toks t.products)))
                    else .raises "AttributeError: str.extend"
              else if cp = oncePattern then
                match T.oxTemplates.lookup temp with
                | none => .raises "KeyError: template"
                | some t =>
                  if more = [] then .written (mkReaction (rt ++ toks t.reactants) (pt ++ toks t.products))
                  else .raises "AttributeError: str.extend"
              else .written s
        | _ => .raises "ValueError: split"

/-- the part of `process_reduct_template` after the template list has been chosen (`hasPattern`: the `try` block did
not raise IndexError) -/
def curateRedCore (T : Tables) (P : PPOracle) (s : Str) (hasPattern : Bool) (temps : List String) : Outcome :=
  if hasPattern = true ∧ temps = [] then .written s else
  match splitArrow s with
  | [reactant, product] =>
    match P.count 1 reactant with
    | none => .raises "count_radical_atoms"
    | some h =>
      if h % 2 ≠ 0 then .written s else
      let rt := (splitOn '.' reactant).filter (· ≠ phH)
      let pt := splitOn '.' product
      let hh := h / 2
      if hh = 0 then .skipped else
      if temps.any (fun name => (T.redTemplates.lookup name).isNone) then .raises "KeyError: template" else
      match temps with
      | [] => .skipped
      | name :: _ =>
        match T.redTemplates.lookup name with
        | none => .raises "KeyError: template"
        | some t =>
          .written (mkReaction (extendLoop hh rt (toks t.reactants)) (extendLoop hh pt (toks t.products)))
  | _ => .raises "ValueError: split"

/-- `CurationReduction.process_reduct_template(neutralize=False)` followed by `process_dict(return_all=False)`
(`curate_reduction.py:72-152`).  Quirks kept: no pattern → the `"other"` templates; an odd hydrogen count returns
the reaction unchanged; the template is looked up only inside `range(h_count // 2)` (for every listed template, although
only the first result is used); `stoichiometry_list` stays empty for `h_count == 0`, and then `process_dict` returns the
row **without** a `curated_reaction`. -/
def curateRed (T : Tables) (P : PPOracle) (s : Str) : Outcome :=
  match P.fg s with
  | none => .raises "find_functional_reactivity"
  | some fgs =>
    match T.redCompounds.lookup "other" with
    | none => .raises "KeyError: other"
    | some other =>
      match redPattern fgs with
      | some cp => curateRedCore T P s true ((T.redCompounds.lookup cp).getD other)
      | none => curateRedCore T P s false other

/-- `PostProcess.fit` for one row followed by the test of `__post_process`
(`label != "unspecified" and "curated_reaction" in pp_result`) -/
def curateR (T : Tables) (P : PPOracle) (s : Str) : Outcome :=
  match labelOf s with
  | .unspecified => .skipped
  | .oxidation => curateOx T P s
  | .reduction => curateRed T P s

/-- what `__post_process` writes back for a reaction string (`none` = nothing written); this is the
`Oracle.curate` of the row machine -/
def curate (T : Tables) (P : PPOracle) (s : Str) : Option Str :=
  match curateR T P s with
  | .written c => some c
  | _ => none

/-! ### table-level functions (balance of a template as RDKit/`RSMIDecomposer` see it) -/

def Tables.compound? (T : Tables) (smiles : String) : Option Compound := T.compounds.find? (·.smiles = smiles)

/-- atoms of `".".join(tokens)` after `AddHs` (up to order, which neither the dictionary values nor the key sets
depend on); unknown or unparsable compounds contribute nothing (they are reported by `compoundsOk`) -/
def Tables.atomsOf (T : Tables) (tokens : List String) : List Atom :=
  tokens.flatMap fun s => ((T.compound? s).map (·.atoms)).getD []

def Tables.allTemplates (T : Tables) : List (String × Template) :=
  T.oxTemplates.map (fun nt => ("oxidation/" ++ nt.1, nt.2)) ++
  T.redTemplates.map (fun nt => ("reduction/" ++ nt.1 ++ "/ion", nt.2)) ++
  T.redTemplatesNeutral.map (fun nt => ("reduction/" ++ nt.1 ++ "/neutral", nt.2))

/-- the comparator's verdict on `reactants >> products ++ extra` (`extra` = placeholder atoms the template replaces) -/
def Tables.verdict (T : Tables) (sym : SymTable) (t : Template) (extra : List Atom) : Verdict :=
  compareDicts (decompose sym (T.atomsOf t.reactants)) (decompose sym (T.atomsOf t.products ++ extra))

def atomO : Atom := ⟨8, "O", 0⟩
def atomH : Atom := ⟨1, "H", 0⟩

/-- names of the templates that are not balanced as written (reactants vs products) -/
def Tables.unbalancedAsWritten (T : Tables) (sym : SymTable) : List (String × Verdict) :=
  (T.allTemplates.map fun nt => (nt.1, T.verdict sym nt.2 [])).filter (·.2 ≠ .balance)

/-- verdict of every template as a *replacement* of `k` placeholder atoms: reactants vs products + k·placeholder -/
def Tables.replacementVector (T : Tables) (sym : SymTable) : List (String × Nat × Verdict) :=
  T.oxTemplates.flatMap (fun nt => [1, 2].map fun k =>
    ("oxidation/" ++ nt.1, k, T.verdict sym nt.2 (List.replicate k atomO))) ++
  T.redTemplates.map (fun nt => ("reduction/" ++ nt.1 ++ "/ion", 2, T.verdict sym nt.2 [atomH, atomH])) ++
  T.redTemplatesNeutral.map (fun nt => ("reduction/" ++ nt.1 ++ "/neutral", 2, T.verdict sym nt.2 [atomH, atomH]))

/-- every compound named by a template is listed, parses, and contains neither `>` nor `.` -/
def Tables.compoundsOk (T : Tables) : Bool :=
  T.allTemplates.all fun nt => (nt.2.reactants ++ nt.2.products).all fun s =>
    match T.compound? s with
    | some c => c.parses && !(str s).contains '>' && !(str s).contains '.'
    | none => false

/-- no template token contains `>` -/
def Tables.noGt (T : Tables) : Bool :=
  (T.oxTemplates ++ T.redTemplates).all fun nt => (nt.2.reactants ++ nt.2.products).all fun s => !(str s).contains '>'

/-- no template token contains `.` (so a curated side splits back into the listed tokens) -/
def Tables.noDot (T : Tables) : Bool :=
  (T.oxTemplates ++ T.redTemplates).all fun nt => (nt.2.reactants ++ nt.2.products).all fun s => !(str s).contains '.'

/-- the tables never make `curateR` raise a KeyError/AttributeError: `"other"` exists for both kinds, every named
template exists, and no oxidation pattern names more than one template -/
def Tables.wellFormed (T : Tables) : Bool :=
  (T.oxCompounds.lookup "other").isSome && (T.redCompounds.lookup "other").isSome &&
  T.oxCompounds.all (fun kv => kv.2.length ≤ 1 && kv.2.all fun n => (T.oxTemplates.lookup n).isSome) &&
  T.redCompounds.all (fun kv => kv.2.all fun n => (T.redTemplates.lookup n).isSome)

end SynRBL.PP
