/-!
# The functional-group matcher: `pattern_match`, `check_functional_group`, `is_functional_group`
Source: `synrbl/SynUtils/functional_group_utils.py:9-49` (class `FGConfig`), `:131-146`
(`get_mapping_permutations`), `:149-226` (`pattern_match` / `_fits`), `:229-260`
(`check_functional_group`, `is_functional_group`).

What the Python compares — and therefore all that a graph carries here:
* the element **symbol** of an atom (`Atom.GetSymbol()`, so aromatic `c` and aliphatic `C` are both `"C"`;
  charge, isotope, hydrogen count and aromaticity of *atoms* are never looked at);
* the **bond type** of a bond (`Bond.GetBondType()`: SINGLE = 1, DOUBLE = 2, TRIPLE = 3, AROMATIC = 12, …), compared
  for equality — aromatic ≠ single;
* the **order of the neighbour list** (`Atom.GetNeighbors()`), which only decides which of several valid mappings is
  found first.

Pattern SMILES are parsed with `MolFromSmiles` (sanitised: `Oc1ccccc1` has six AROMATIC bonds, `[nH]` has symbol
`N`); there are no wildcards. The generated table `Generated/FGConfig.lean` holds the graphs that the module builds at
import time.

Two versions of the recursive search are given: `fitsM` follows the Python statement by statement (permutations of
*all* unvisited neighbours, prefix compared with the pattern symbols, first valid mapping wins, match list returned);
`fits` is the mathematical content (an injective assignment of the unvisited pattern neighbours to unvisited
neighbours exists). `Proofs/FGMatch.lean` proves `(fitsM …).1 = fits …`. The Python recursion has no fuel; it ends
because the visited-pattern list grows. `fits_fuel` shows that the value does not depend on the fuel once it is at
least the number of pattern atoms that are not yet visited — `patternMatch` passes the number of pattern atoms.
-/
namespace SynRBL.FG

/-- a labelled graph as the matcher sees it: symbol of an atom, neighbour list in RDKit order, bond type of a pair -/
structure LG where
  sym  : Nat → String
  nbrs : Nat → List Nat
  bond : Nat → Nat → Nat

/-- a labelled graph as data (what the harness exports and what the generated table holds): `syms[i]`,
`nbrs[i]` in `GetNeighbors()` order, one `(begin, end, int(GetBondType()))` triple per bond -/
structure GData where
  syms  : List String
  nbrs  : List (List Nat)
  bonds : List (Nat × Nat × Nat)
  deriving Repr, DecidableEq, Inhabited

namespace GData
def n (d : GData) : Nat := d.syms.length

/-- `GetBondBetweenAtoms(i, j).GetBondType()` (0 when there is no such bond) -/
def bondType (d : GData) (i j : Nat) : Nat :=
  match d.bonds.find? (fun t => (t.1 == i && t.2.1 == j) || (t.1 == j && t.2.1 == i)) with
  | some t => t.2.2
  | none => 0

def toLG (d : GData) : LG :=
  ⟨fun i => d.syms.getD i "", fun i => d.nbrs.getD i [], d.bondType⟩

/-- no element twice -/
def nodupB : List Nat → Bool
  | [] => true
  | x :: xs => !xs.contains x && nodupB xs

def nodupS : List String → Bool
  | [] => true
  | x :: xs => !xs.contains x && nodupS xs

/-- well-formedness of exported data: one neighbour list per atom, neighbours in range, no atom twice in a
neighbour list, no self-loop, every neighbour pair has a bond record, bond records name atoms in range -/
def wf (d : GData) : Bool :=
  d.nbrs.length == d.n && d.bonds.all (fun t => decide (t.1 < d.n) && decide (t.2.1 < d.n)) &&
  (List.range d.n).all (fun i =>
    let ns := d.nbrs.getD i []
    ns.all (fun j => decide (j < d.n) && j != i && d.bondType i j != 0 && (d.nbrs.getD j []).contains i) &&
    nodupB ns)
end GData

/-- executable form of the hypothesis `Renum` of the invariance theorem (`Proofs/FGMatch.lean`, `renum_of_renumB`):
`perm[i]` is the new index of old atom `i`; `g'` carries the same symbols and bond types and, per atom, a permutation
of the renumbered neighbour list -/
def renumB (perm : List Nat) (g g' : GData) : Bool :=
  let π := fun x => perm.getD x x
  g.wf && g'.wf && perm.length == g.n && g'.n == g.n &&
  (List.range g.n).all (fun x =>
    decide (π x < g.n) &&
    (List.range g.n).all (fun y => π x != π y || x == y) &&
    g'.toLG.sym (π x) == g.toLG.sym x &&
    (g'.toLG.nbrs (π x)).isPerm ((g.toLG.nbrs x).map π) &&
    (List.range g.n).all (fun y => g'.toLG.bond (π x) (π y) == g.toLG.bond x y))

/-! ### `itertools.permutations` and `get_mapping_permutations` -/

/-- every way of taking one element out of a list (in list order) together with the remaining elements in their
original order -/
def picks {α} : List α → List (α × List α)
  | [] => []
  | x :: xs => (x, xs) :: (picks xs).map (fun yr => (yr.1, x :: yr.2))

/-- `itertools.permutations(l)` in itertools' order (lexicographic in positions); called with `n = len(l)` -/
def perms {α} : Nat → List α → List (List α)
  | 0, _ => [[]]
  | n + 1, l => (picks l).flatMap (fun xr => (perms n xr.2).map (xr.1 :: ·))

/-- `get_mapping_permutations(match_symbols, sym_dict)` (lines 131-146). The Python enumerates the neighbours,
permutes `(position, symbol)` pairs and returns `(pattern position, atom position)` pairs that `_fits` uses only to
look the neighbours up again; here the neighbours themselves are permuted and paired. A permutation is kept when its
first `len(match_symbols)` symbols equal the pattern symbols (so the same prefix is returned `(k-m)!` times). -/
def getMappingPermutations {α β} (psym : β → String) (asym : α → String) (pn : List β) (an : List α) :
    List (List (β × α)) :=
  if an.length ≥ pn.length then
    (perms an.length an).filterMap fun perm =>
      let m := pn.zip perm
      if m.all (fun qb => psym qb.1 == asym qb.2) then some m else none
  else []

/-! ### `_fits` -/

/-- `_fits(atom, pattern_atom, visited_atoms, visited_pattern_atoms)` (lines 150-214): `(fits, match)`.
`match` is a list of `(atom index, pattern atom index)`; the Python collects the children's matches in a `set`, so
its order (and multiplicity) is unspecified — compare as sets. -/
def fitsM (g p : LG) : Nat → Nat → Nat → List Nat → List Nat → Bool × List (Nat × Nat)
  | 0, _, _, _, _ => (false, [])
  | fuel + 1, a, pa, va, vp =>
    let va' := va ++ [a]
    let vp' := vp ++ [pa]
    let an := (g.nbrs a).filter (fun x => !va'.contains x)
    let pn := (p.nbrs pa).filter (fun x => !vp'.contains x)
    if g.sym a == p.sym pa then
      if pn.length > 0 then
        let found := (getMappingPermutations p.sym g.sym pn an).findSome? (fun mapping =>
            mapping.foldl (fun (acc : Option (List (Nat × Nat))) qb => acc.bind fun nm =>
              if g.bond a qb.2 != p.bond pa qb.1 then none
              else
                let r := fitsM g p fuel qb.2 qb.1 va' vp'
                if r.1 then some (nm ++ r.2) else none) (some []))
        (found.isSome, (a, pa) :: found.getD [])
      else (true, [(a, pa)])
    else (false, [])

/-- is there an injective assignment of the elements of the first list to elements of the second with `Q`? -/
def existsAssign {α β} (Q : β → α → Bool) : List β → List α → Bool
  | [], _ => true
  | q :: qs, an => (picks an).any fun br => Q q br.1 && existsAssign Q qs br.2

/-- the boolean result of `_fits` as a mathematical statement -/
def fits (g p : LG) : Nat → Nat → Nat → List Nat → List Nat → Bool
  | 0, _, _, _, _ => false
  | fuel + 1, a, pa, va, vp =>
    let va' := va ++ [a]
    let vp' := vp ++ [pa]
    let an := (g.nbrs a).filter (fun x => !va'.contains x)
    let pn := (p.nbrs pa).filter (fun x => !vp'.contains x)
    g.sym a == p.sym pa &&
      existsAssign (fun q b => p.sym q == g.sym b && g.bond a b == p.bond pa q &&
        fits g p fuel b q va' vp') pn an

/-! ### `pattern_match` -/

/-- `pattern_match(mol, anchor, pattern_mol, pattern_anchor)` (lines 216-226) with its match list
(`[]` where the Python returns `[[]]`). The fuel is the number of pattern atoms (see `fits_fuel`). -/
def patternMatchM (g : LG) (p : GData) (anchor : Nat) (panchor : Option Nat) : Bool × List (Nat × Nat) :=
  match panchor with
  | none =>
    match (List.range p.n).findSome? (fun pa =>
        let r := fitsM g p.toLG p.n anchor pa [] []
        if r.1 then some r else none) with
    | some r => r
    | none => (false, [])
  | some pa => fitsM g p.toLG p.n anchor pa [] []

/-- `pattern_match(mol, anchor, pattern_mol)[0]` stated with `fits` -/
def patternMatch (g : LG) (p : GData) (anchor : Nat) : Bool :=
  (List.range p.n).any fun pa => fits g p.toLG p.n anchor pa [] []

/-! ### `FGConfig`, `check_functional_group`, `is_functional_group` -/

/-- an `FGConfig` object after `__init__` (lines 9-49): `pattern`, `groups` (the pattern itself, or the pattern with
every atom outside `group_atoms` removed), `anti_pattern` (already sorted by size, descending), `max_pattern_size` -/
structure FGConfig where
  pattern : List GData
  groups : List GData
  antiPattern : List GData
  maxPatternSize : Nat
  deriving Repr, DecidableEq, Inhabited

/-- stable insertion into a list sorted by descending key: before the first element with a strictly smaller key -/
def insertDesc {α} (key : α → Nat) (x : α) : List α → List α
  | [] => [x]
  | y :: ys => if key y ≥ key x then y :: insertDesc key x ys else x :: y :: ys

/-- `sorted(xs, key=key, reverse=True)` (stable: equal keys keep their order) -/
def sortDesc {α} (key : α → Nat) (xs : List α) : List α :=
  xs.foldl (fun acc x => insertDesc key x acc) []

/-- `check_functional_group(mol, config, index)` (lines 229-251) on top of an arbitrary pattern test `pm`:
first loop over `zip(pattern, groups)`, then the anti-patterns, largest first, stopping at the first hit
(`last_len` is dead code). -/
def checkWith (pm : GData → Bool) (cfg : FGConfig) : Bool :=
  let isFG := (cfg.pattern.zip cfg.groups).foldl
    (fun acc pg => if pm pg.1 then acc || pm pg.2 else acc) false
  (sortDesc GData.n cfg.antiPattern).foldl
    (fun acc ap => if !acc then acc else acc && !pm ap) isFG

def checkFunctionalGroupM (g : LG) (cfg : FGConfig) (idx : Nat) : Bool :=
  checkWith (fun p => (patternMatchM g p idx none).1) cfg

def checkFunctionalGroup (g : LG) (cfg : FGConfig) (idx : Nat) : Bool :=
  checkWith (fun p => patternMatch g p idx) cfg

/-- the module-level dictionary `functional_group_config` in source order -/
abbrev FGTable := List (String × FGConfig)

/-- `is_functional_group(mol, group_name, index)` (lines 254-260); `none` = `NotImplementedError` -/
def isFunctionalGroupM (tbl : FGTable) (g : LG) (name : String) (idx : Nat) : Option Bool :=
  (tbl.lookup name).map fun cfg => checkFunctionalGroupM g cfg idx

def isFG (tbl : FGTable) (g : LG) (name : String) (idx : Nat) : Option Bool :=
  (tbl.lookup name).map fun cfg => checkFunctionalGroup g cfg idx

/-! ### reference semantics: a real occurrence of the pattern (what a substructure search finds)
Not part of the model of the Python code; used to state soundness / completeness and to decide them on concrete
graphs. -/

/-- backtracking search for an injective assignment of all of `qs` (in order) to distinct elements of `an` with the
local test `Q`, followed by a test `final` on the complete list of images -/
def searchAssign {α β} (Q : β → α → Bool) (final : List α → Bool) : List β → List α → List α → Bool
  | [], _, acc => final acc.reverse
  | q :: qs, an, acc => (picks an).any fun br => Q q br.1 && searchAssign Q final qs br.2 (br.1 :: acc)

/-- `fs[x]` is the image of pattern atom `x`: every pattern bond is a bond of `g` with the same type -/
def edgesOK (g p : GData) (fs : List Nat) : Bool :=
  (List.range p.n).all fun x => (p.toLG.nbrs x).all fun y =>
    (g.toLG.nbrs (fs.getD x 0)).contains (fs.getD y 0) &&
      g.toLG.bond (fs.getD x 0) (fs.getD y 0) == p.toLG.bond x y

/-- is there an occurrence of `p` in `g` (injective, same symbols, same bond types) that contains atom `a`? -/
def occurs (g p : GData) (a : Nat) : Bool :=
  searchAssign (fun q b => p.toLG.sym q == g.toLG.sym b) (fun fs => fs.contains a && edgesOK g p fs)
    (List.range p.n) (List.range g.n) []

/-! ### hypotheses of the partial soundness theorem (`Proofs/FGSound.lean`), executable -/

/-- the atoms reached by the self-avoiding walks from `a` that avoid `va`, with fewer than `k` steps, in the order the
matcher explores them (one entry per walk) -/
def unfold (g : LG) : Nat → Nat → List Nat → List Nat
  | 0, _, _ => []
  | k + 1, a, va =>
    a :: ((g.nbrs a).filter (fun x => !(va ++ [a]).contains x)).flatMap (fun b => unfold g k b (va ++ [a]))

/-- along the exploration from `pa`, every neighbour of a reached atom is the atom it was reached from or a not yet
visited atom, and the exploration ends before the fuel does -/
def treeOK (p : LG) : Nat → Nat → List Nat → Bool
  | 0, _, _ => false
  | k + 1, pa, vp =>
    (p.nbrs pa).all (fun y => vp.getLast? == some y || !(vp ++ [pa]).contains y) &&
      ((p.nbrs pa).filter (fun x => !(vp ++ [pa]).contains x)).all (fun c => treeOK p k c (vp ++ [pa]))

/-- seen from pattern atom `pa` the pattern is a tree that contains every pattern atom -/
def patTreeFrom (p : GData) (pa : Nat) : Bool :=
  treeOK p.toLG p.n pa [] && GData.nodupB (unfold p.toLG p.n pa []) &&
    (List.range p.n).all (fun x => (unfold p.toLG p.n pa []).contains x)

/-- the pattern is a connected acyclic graph (checked from every atom, since `pattern_match` tries every anchor) -/
def isTreePattern (p : GData) : Bool := p.wf && (List.range p.n).all (patTreeFrom p)

/-- no two different self-avoiding walks from `a` with fewer than `k` steps end in the same atom: the part of the
molecule that a pattern of `k` atoms can reach from `a` contains no cycle -/
def acyclicAround (g : GData) (k a : Nat) : Bool := GData.nodupB (unfold g.toLG k a [])

end SynRBL.FG
