import SynRBLModel.Model.RuleDB
import SynRBLModel.Model.Decompose
import SynRBLModel.Generated.AtomicSymbols
/-!
# The compound rule database as a state machine: `RuleImputeManager`
Source: `synrbl/SynRuleImputer/rule_data_manager.py:32-173` (`__init__`, `add_entry`, `add_entries`, `remove_entry`,
`canonicalize_smiles`, `is_valid_smiles`); the composition is `RSMIDecomposer.decompose`
(`synrbl/SynProcessor/rsmi_decomposer.py:219-251`, modelled in `Model/Decompose.lean`).

What the Python does, and what is mirrored here:
* the database is a Python list of `{"formula", "smiles", "Composition"}` records, mutated in place;
* `add_entry` checks, **in this order**, (1) some record has the same `formula` string, (2) some record has the same `smiles`
  string, (3) `Chem.MolFromSmiles(smiles) is None`; each failing check raises `ValueError` with its own message and nothing
  has been touched; otherwise the record is appended at the end and a line is printed.  The comparison is plain string
  equality: `canonicalize_smiles` exists but is **never called** (so `CCO` and `OCC` are different SMILES for the manager);
* the composition is derived at insertion time: `decompose(smiles)`, then `Q: 0` is appended iff the key `Q` is missing;
* `add_entries` calls `add_entry` for every item in order, swallows `ValueError`, and returns the list of rejected items;
* `remove_entry` takes the first record with that formula and `list.remove`s it (a line is printed either way, nothing is
  raised when there is none).

RDKit is an oracle: `valid`, `atoms` (hydrogen-completed atom list, what `decompose` iterates over) and `canon`.
-/
namespace SynRBL.RDB

/-- one record of `RuleImputeManager.database`: `{"formula": …, "smiles": …, "Composition": {…}}` -/
structure Entry where
  formula : String
  smiles : String
  comp : Dict
  deriving DecidableEq, Repr, Inhabited

/-- `RuleImputeManager.database` (`rule_data_manager.py:42-47`) -/
abbrev State := List Entry

/-- what the manager asks RDKit -/
structure Oracle where
  /-- `is_valid_smiles` (`rule_data_manager.py:157-173`): `Chem.MolFromSmiles(s) is not None` -/
  valid : String → Bool
  /-- atoms of `Chem.AddHs(Chem.MolFromSmiles(s))` as `(Z, symbol, formal charge)`; `[]` when `s` does not parse -/
  atoms : String → List Atom
  /-- `canonicalize_smiles` (`rule_data_manager.py:138-155`).  No operation of the manager consults it. -/
  canon : String → String

/-- `composition = self.decompose(smiles); if "Q" not in composition: composition["Q"] = 0`
(`rule_data_manager.py:76-78`) given the atom list: an absent `Q` is appended at the end -/
def deriveAtoms (T : SymTable) (atoms : List Atom) : Dict :=
  let c := decompose T atoms
  if c.contains "Q" then c else c.set "Q" 0

def derive (T : SymTable) (O : Oracle) (smiles : String) : Dict := deriveAtoms T (O.atoms smiles)

/-- how one `add_entry` call ends -/
inductive AddResult
  /-- appended; prints `Entry with formula '…' and smiles '…' added to the database.` -/
  | added
  /-- `ValueError("Entry with formula '…' already exists.")` (`:67-68`) -/
  | dupFormula
  /-- `ValueError("Entry with SMILES '…' already exists.")` (`:70-71`) -/
  | dupSmiles
  /-- `ValueError("Invalid SMILES string: …")` (`:73-74`) -/
  | invalid
  deriving DecidableEq, Repr, Inhabited

/-- the text of the `ValueError`, or the printed line for `.added` -/
def AddResult.message (formula smiles : String) : AddResult → String
  | .added => s!"Entry with formula '{formula}' and smiles '{smiles}' added to the database."
  | .dupFormula => s!"Entry with formula '{formula}' already exists."
  | .dupSmiles => s!"Entry with SMILES '{smiles}' already exists."
  | .invalid => s!"Invalid SMILES string: {smiles}"

def AddResult.code : AddResult → String
  | .added => "added" | .dupFormula => "dup-formula" | .dupSmiles => "dup-smiles" | .invalid => "invalid"

/-- `add_entry` (`rule_data_manager.py:49-87`) -/
def addEntry (T : SymTable) (O : Oracle) (s : State) (formula smiles : String) : State × AddResult :=
  if s.any (fun d => d.formula == formula) then (s, .dupFormula)
  else if s.any (fun d => d.smiles == smiles) then (s, .dupSmiles)
  else if !O.valid smiles then (s, .invalid)
  else (s ++ [⟨formula, smiles, derive T O smiles⟩], .added)

/-- the loop of `add_entries` (`rule_data_manager.py:109-116`): one `add_entry` per item, in order -/
def addEntries (T : SymTable) (O : Oracle) : State → List (String × String) → State × List AddResult
  | s, [] => (s, [])
  | s, e :: rest =>
    let r := addEntry T O s e.1 e.2
    let rs := addEntries T O r.1 rest
    (rs.1, r.2 :: rs.2)

/-- `invalid_entries`: the items whose `add_entry` raised, in input order -/
def rejectedOf : List (String × String) → List AddResult → List (String × String)
  | e :: es, r :: rs => if r = .added then rejectedOf es rs else e :: rejectedOf es rs
  | _, _ => []

/-- `remove_entry` (`rule_data_manager.py:118-136`), literally: `entry = next((d for d in db if d["formula"] == formula),
None)`; `if entry: db.remove(entry)` (`list.remove` deletes the first element *equal* to `entry`; a record is a non-empty
dict, hence truthy).  `Proofs/RuleDB2.lean` shows this is the removal of the first record with that formula. -/
def removeEntry (s : State) (formula : String) : State × Bool :=
  match s.find? (fun d => d.formula == formula) with
  | some e => (s.erase e, true)
  | none => (s, false)

/-- the printed line of `remove_entry` -/
def removeMessage (formula : String) (found : Bool) : String :=
  if found then s!"Entry with formula '{formula}' removed from the database."
  else s!"No entry found with formula '{formula}'."

inductive Op
  /-- `add_entry(formula, smiles)` -/
  | add (formula smiles : String)
  /-- `add_entries([{"formula": f, "smiles": s}, …])` -/
  | addEntries (entries : List (String × String))
  /-- `remove_entry(formula)` -/
  | remove (formula : String)
  deriving DecidableEq, Repr, Inhabited

/-- what the caller observes: `add` either returns (`.added`) or raises; `bulk` returns the rejected items
(`results` is the per-item course of events); `remove` only prints -/
inductive Outcome
  | add (r : AddResult)
  | bulk (results : List AddResult) (rejected : List (String × String))
  | remove (found : Bool)
  deriving DecidableEq, Repr, Inhabited

/-- the return value of `add_entries` (`[]` for the operations that return `None`) -/
def Outcome.rejected : Outcome → List (String × String)
  | .bulk _ rej => rej
  | _ => []

def step (T : SymTable) (O : Oracle) (s : State) : Op → State × Outcome
  | .add f smi => let r := addEntry T O s f smi; (r.1, .add r.2)
  | .addEntries es => let r := addEntries T O s es; (r.1, .bulk r.2 (rejectedOf es r.2))
  | .remove f => let r := removeEntry s f; (r.1, .remove r.2)

/-- a history of edits: the final database and what each operation reported -/
def run (T : SymTable) (O : Oracle) : State → List Op → State × List Outcome
  | s, [] => (s, [])
  | s, op :: ops =>
    let r := step T O s op
    let rs := run T O r.1 ops
    (rs.1, r.2 :: rs.2)

/-- the decomposer's symbol table as it is in `/repo` now -/
def shippedTable : SymTable := ⟨Generated.atomicSymbols, Generated.symbolFallback⟩

/-! ### shipped databases as states -/

def entryOf (r : DBRecord) : Entry := ⟨r.formula, r.rule.smiles, r.rule.comp⟩

/-- the oracle that answers from the RDKit columns of a generated table (first record with that SMILES) -/
def oracleOf (recs : List DBRecord) : Oracle where
  valid s := match recs.find? (fun r => r.rule.smiles == s) with | some r => r.parses | none => false
  atoms s := match recs.find? (fun r => r.rule.smiles == s) with | some r => r.atoms | none => []
  canon s := s

/-- Python's `dict.__eq__` on well-formed dictionaries: same keys, same values, order irrelevant -/
def dictSame (a b : Dict) : Bool :=
  a.keys.all (fun k => a.get? k == b.get? k) && b.keys.all (fun k => a.get? k == b.get? k)

/-- one shipped record is consistent: parses, keys unique, recorded composition == derived composition (as dicts),
which includes the explicit `Q` key -/
def recOK (T : SymTable) (r : DBRecord) : Bool :=
  r.parses && decide r.rule.comp.WF && dictSame r.rule.comp (deriveAtoms T r.atoms)

/-- the invariant of the manager, evaluated on a table -/
def invData (T : SymTable) (recs : List DBRecord) : Bool :=
  recs.all (recOK T) && decide (recs.map (·.formula)).Nodup && decide (recs.map (·.rule.smiles)).Nodup

/-- values that occur more than once, each reported once, in order of first occurrence -/
def dups (l : List String) : List String :=
  (l.filter fun x => decide (1 < l.count x)).eraseDups

/-- keep a record iff no earlier *kept* record has its formula or its SMILES
(= what replaying the file through `add_entries` on an empty manager keeps) -/
def dedupGo : List DBRecord → List DBRecord → List DBRecord
  | acc, [] => acc
  | acc, r :: rs =>
    if acc.any (fun a => a.formula == r.formula || a.rule.smiles == r.rule.smiles) then dedupGo acc rs
    else dedupGo (acc ++ [r]) rs

def dedupRecords (recs : List DBRecord) : List DBRecord := dedupGo [] recs

end SynRBL.RDB
