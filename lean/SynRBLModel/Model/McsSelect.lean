import SynRBLModel.Model.Normalize
/-!
# The bookkeeping of the MCS search stage
Sources
* `synrbl/SynMCSImputer/SubStructure/extract_common_mcs.py:46-69, 162-234`
  (`calculate_total_number_atoms_mcs_parallel`, `get_largest_condition`),
* `synrbl/mcs_search.py:57-98` (`MCSSearch.find`),
* `synrbl/SynMCSImputer/SubStructure/mcs_process.py:17-133` (`single_mcs`, `single_mcs_safe`, `ensemble_mcs`),
* `synrbl/SynMCSImputer/SubStructure/mcs_graph_detector.py:48-190` (`IterativeMCSReactionPairs`).

What RDKit does (the common substructure of two molecules, the atoms removed from the product, the fragment analysis of
`find_graph_dict`) is an oracle; the tables, loops, index arithmetic, `None` placeholders and the id→index map are
modelled as written. A pattern enters the selection only through its atom count (`ExtractMCS.get_num_atoms`: the atom
count of the SMARTS, `0` for `""`, for an unparsable string and for `None`). `none` on the outside of a result stands
for "the Python raises".
-/
namespace SynRBL.Mcs

abbrev CondIdx := Nat

/-! ## `ExtractMCS.get_largest_condition` -/

/-- `calculate_atoms_for_dict` (l. 63-64): `sum(get_num_atoms(mcs) for mcs in d["mcs_results"])`; a failed or timed-out
search leaves `mcs_results == []` and counts `0` -/
def total (sizes : List Nat) : Nat := sizes.sum

/-- l. 209-214: `get_num_atoms(mcs_results[0] if mcs_results else "")` -/
def first (sizes : List Nat) : Nat := sizes.headD 0

/-- first pass (l. 190-202), one iteration per condition index `c` with total `t`; state = `(max_atoms, tied_conditions)`:
`if t > max_atoms: max_atoms = t; tied = [c]  elif t == max_atoms: tied.append(c)` -/
def pass1Go : CondIdx → List Nat → Nat × List CondIdx → Nat × List CondIdx
  | _, [], st => st
  | c, t :: ts, (m, tied) =>
    if t > m then pass1Go (c + 1) ts (t, [c])
    else if t = m then pass1Go (c + 1) ts (m, tied ++ [c])
    else pass1Go (c + 1) ts (m, tied)

/-- first pass from `max_atoms = 0`, `tied_conditions = []` -/
def pass1 (ts : List Nat) : Nat × List CondIdx := pass1Go 0 ts (0, [])

/-- second pass (l. 206-217) over the tied condition indices; state = `(max_first_smarts_atoms, winning_condition_idx)`
starting from `(0, -1)`; `-1` is `none` -/
def pass2 (fs : CondIdx → Nat) (tied : List CondIdx) : Nat × Option CondIdx :=
  tied.foldl (fun st c => if fs c > st.1 then (fs c, some c) else st) (0, none)

/-- one iteration of `for idx in range(min_length)` (l. 189-232) on the column of the row: `cells[c] = (total, first)`
of condition `c`. `none` = `max_condition is None` = the row is left out of the result. -/
def selectRow (cells : List (Nat × Nat)) : Option CondIdx :=
  let tied := (pass1 (cells.map (·.1))).2
  if tied.length > 1 then (pass2 (fun c => (cells.getD c (0, 0)).2) tied).2
  else tied.head?       -- `tied_conditions[0][0] if tied_conditions else -1`

/-- total of condition `c` in a column (`0` beyond the column) -/
def totAt (cells : List (Nat × Nat)) (c : CondIdx) : Nat := (cells.getD c (0, 0)).1

/-- first-pattern atom count of condition `c` in a column -/
def firstAt (cells : List (Nat × Nat)) (c : CondIdx) : Nat := (cells.getD c (0, 0)).2

/-- `min(len(total) for total in total_atoms_conditions)`; `none`: `min()` of an empty sequence raises `ValueError` -/
def minLength : List (List Nat) → Option Nat
  | [] => none
  | t :: ts => some (ts.foldl (fun m x => min m x.length) t.length)

/-- column `idx` of the two tables: per condition `(totals[c][idx], firsts[c][idx])` -/
def column (totals firsts : List (List Nat)) (idx : Nat) : List (Nat × Nat) :=
  (totals.zip firsts).map fun tf => (tf.1.getD idx 0, tf.2.getD idx 0)

/-- `get_largest_condition` on the tables of per-row totals (`total_atoms_conditions`) and per-row first-pattern atom
counts: for every row index below `min_length` the index of the retained condition or `none` (row skipped).
The Python returns `[conditions[c][idx] for the rows that are not skipped]`, see `pick`. -/
def getLargestT (totals firsts : List (List Nat)) : Option (List (Option CondIdx)) :=
  (minLength totals).map fun n => (List.range n).map fun idx => selectRow (column totals firsts idx)

/-- `get_largest_condition(*conditions)`, each entry given by the atom counts of its `mcs_results` -/
def getLargest (conds : List (List (List Nat))) : Option (List (Option CondIdx)) :=
  getLargestT (conds.map (·.map total)) (conds.map (·.map first))

/-- the atom counts of the record of condition `c` for row `idx` (`[]` outside the tables) -/
def sizesAt (conds : List (List (List Nat))) (c : CondIdx) (idx : Nat) : List Nat := (conds.getD c []).getD idx []

/-- the column of row `idx` as `get_largest_condition` reads it -/
def cellsAt (conds : List (List (List Nat))) (idx : Nat) : List (Nat × Nat) :=
  conds.map fun cond => (total (cond.getD idx []), first (cond.getD idx []))

/-- the returned list: `result.append(conditions[max_condition_idx][idx])` for the rows with a winner, in row order -/
def pick {E} (tables : List (List E)) (sel : List (Option CondIdx)) : List E :=
  sel.zipIdx.filterMap fun oi => oi.1.bind fun c => (tables[c]?).bind (·[oi.2]?)

/-! ## `MCSSearch.find` -/

abbrev Id := String

/-- the `mcs` column of a row: key absent, `None`, or the merged result dictionary -/
inductive McsCol (P : Type) where
  | absent
  | null
  | data (p : P)
  deriving DecidableEq, Repr

/-- a reaction row as `find` sees it: `α` = everything the search reads (both sides, carbon label), `P` = payload -/
structure Row (α P : Type) where
  id : Id
  solved : Bool
  inp : α
  mcs : McsCol P
  issue : Option String
  deriving DecidableEq, Repr

def noMcsIssue : String := "No MCS identified."

/-- l. 60-66, the writes to an unsolved row -/
def resetRow {α P} (r : Row α P) : Row α P :=
  if r.solved then r else { r with mcs := .null, issue := some noMcsIssue }

/-- l. 58-63: `id2idx_map[reaction[id]] = idx` for the unsolved rows, in row order. Only look-ups follow, so the
dictionary is kept as the list of assignments; a later assignment to the same key wins (`lookupIdx`). -/
def idMap {α P} (rows : List (Row α P)) : List (Id × Nat) :=
  rows.zipIdx.filterMap fun ri => if ri.1.solved then none else some (ri.1.id, ri.2)

/-- `id2idx_map[_id]`; `none` = `KeyError` -/
def lookupIdx (m : List (Id × Nat)) (id : Id) : Option Nat :=
  (m.reverse.find? fun kv => kv.1 == id).map (·.2)

/-- l. 95-96 -/
def writeBack {α P} (r : Row α P) (p : P) (issue : String) : Row α P :=
  { r with mcs := .data p, issue := some issue }

/-- l. 90-96 as a function of the id carried by each result, its payload and its issue text:
`reactions[id2idx_map[_id]][mcs] = mcs_result; reactions[...][issue] = mcs_result[issue]` -/
def attach {α P} (m : List (Id × Nat)) (rows : List (Row α P)) (results : List (Id × P × String)) :
    Option (List (Row α P)) :=
  results.foldlM (fun rows x =>
    match lookupIdx m x.1 with
    | none => none                                   -- KeyError
    | some idx =>
      match rows[idx]? with
      | none => none                                 -- IndexError (cannot happen: indices come from `rows`)
      | some r => some (rows.set idx (writeBack r x.2.1 x.2.2))) rows

/-- what one search returns apart from the id (`single_mcs_safe`): the atom counts of `mcs_results`, the record
content (`mcs_results`, `sorted_reactants`) and the issue text -/
structure Found (D : Type) where
  sizes : List Nat
  data : D
  issue : String
  deriving DecidableEq, Repr

/-- a record of a condition table; `single_mcs_safe` copies the id from the reaction it was given (l. 75-76) -/
structure Entry (D : Type) where
  id : Id
  found : Found D
  deriving DecidableEq, Repr

/-- `ensemble_mcs`: one table per condition, one record per reaction handed in, in that order -/
def ensemble {α P D} (nc : Nat) (search : CondIdx → α → Found D) (todo : List (Row α P)) : List (List (Entry D)) :=
  (List.range nc).map fun c => todo.map fun r => ⟨r.id, search c r.inp⟩

/-- the merged dictionary written to the row: the result of `find_graph_dict` overlaid with every key of the retained
record (`for k, v in largest_condition.items(): mcs_result[k] = v`, so the issue text is the record's) -/
abbrev Payload (G D : Type) := G × Entry D

/-- the tail of `find` (l. 85-98) on given condition tables -/
def findWith {α G D} (graph : Entry D → G) (rows : List (Row α (Payload G D))) (tables : List (List (Entry D))) :
    Option (List (Row α (Payload G D))) :=
  match getLargest (tables.map (·.map (·.found.sizes))) with
  | none => none
  | some sel =>
    let largest := pick tables sel
    attach (idMap rows) (rows.map resetRow) (largest.map fun e => (e.id, (graph e, e), e.found.issue))

/-- `MCSSearch.find` on given condition tables: l. 68-69 (`if len(mcs_reactions) == 0: return reactions`), then the tail -/
def findT {α G D} (graph : Entry D → G) (rows : List (Row α (Payload G D))) (tables : List (List (Entry D))) :
    Option (List (Row α (Payload G D))) :=
  if (rows.filter (!·.solved)).isEmpty then some rows else findWith graph rows tables

/-- `MCSSearch.find` with `nc` search conditions -/
def find {α G D} (nc : Nat) (search : CondIdx → α → Found D) (graph : Entry D → G)
    (rows : List (Row α (Payload G D))) : Option (List (Row α (Payload G D))) :=
  findT graph rows (ensemble nc search (rows.filter (!·.solved)))

/-- the retained condition of one reaction: what `get_largest_condition` decides on the column of its records -/
def choose {α D} (nc : Nat) (search : CondIdx → α → Found D) (inp : α) : Option CondIdx :=
  selectRow ((List.range nc).map fun c => (total (search c inp).sizes, first (search c inp).sizes))

/-- what `find` is supposed to do to one row, looking at nothing but that row -/
def findOne {α G D} (nc : Nat) (search : CondIdx → α → Found D) (graph : Entry D → G)
    (r : Row α (Payload G D)) : Row α (Payload G D) :=
  if r.solved then r
  else match choose nc search r.inp with
    | none => { r with mcs := .null, issue := some noMcsIssue }
    | some c =>
      let e : Entry D := ⟨r.id, search c r.inp⟩
      { r with mcs := .data (graph e, e), issue := some e.found.issue }

/-! ## `IterativeMCSReactionPairs`, `single_mcs` -/

/-- what happens to one reactant in the second loop (l. 127-188) -/
inductive Outcome (Pat : Type) where
  /-- the search succeeded, the pattern is appended and the product reduced -/
  | found (p : Pat)
  /-- `mcs_result.canceled` (RDKit's own time budget) / a RASCAL result without `atomMatches` -/
  | cancelled
  /-- the search itself raised: nothing was appended before the `except` -/
  | raisedBefore
  /-- the pattern was appended (l. 150) and the removal of the matched part raised afterwards -/
  | raisedAfter (p : Pat)
  deriving DecidableEq, Repr

/-- what the loop body appends to `mcs_list` (current code: l. 150, 185, 187) -/
def emit {Pat} : Outcome Pat → List (Option Pat)
  | .found p => [some p]
  | .cancelled => [none]
  | .raisedBefore => [none]
  | .raisedAfter p => [some p, none]

/-- the loop body before the repair `e7d2494`: a cancelled search appended nothing -/
def emitOld {Pat} : Outcome Pat → List (Option Pat)
  | .cancelled => []
  | o => emit o

/-- the outcomes of the second loop: `step r cur` = outcome for reactant `r` against the current product and the next
current product -/
def outcomes {M Pr Pat} (step : M → Pr → Outcome Pat × Pr) : Pr → List M → List (Outcome Pat)
  | _, [] => []
  | cur, r :: rs => (step r cur).1 :: outcomes step (step r cur).2 rs

/-- `mcs_list` of the current code -/
def mcsList {M Pr Pat} (step : M → Pr → Outcome Pat × Pr) (cur : Pr) (sorted : List M) : List (Option Pat) :=
  (outcomes step cur sorted).flatMap emit

/-- `mcs_list` before the repair -/
def mcsListOld {M Pr Pat} (step : M → Pr → Outcome Pat × Pr) (cur : Pr) (sorted : List M) : List (Option Pat) :=
  (outcomes step cur sorted).flatMap emitOld

/-- first loop (l. 84-114): `pre r = none` when the search of `r` against the whole product is cancelled (the reactant is
dropped), `some n` = atoms of the common substructure; `sorted(..., key=numAtoms, reverse=True)` -/
def firstLoop {M} (pre : M → Option Nat) (reactants : List M) : List M :=
  Norm.sortDescBy (fun a b => decide ((pre a).getD 0 ≤ (pre b).getD 0)) (reactants.filter fun r => (pre r).isSome)

/-- `[MolToSmarts(mol) for mol in mcs_list]`: raises on a `None` -/
def allSome {α} : List (Option α) → Option (List α)
  | [] => some []
  | none :: _ => none
  | some a :: xs => (allSome xs).map (a :: ·)

/-- the record `single_mcs` fills (starts as `mcs_results = [], sorted_reactants = [], issue = ""`) -/
structure McsData (M Pat : Type) where
  mcsResults : List Pat
  sortedReactants : List M
  issue : String
  deriving DecidableEq, Repr

def uncertainIssue : String := "Uncertian MCS."
def failedIssue : String := "MCS identification failed."

/-- `single_mcs` l. 60-68 on the three lists `fit` returns; the failure text continues with the exception message -/
def singleMcs {M Pat} (reactants sorted : List M) (mcs : List (Option Pat)) : McsData M Pat :=
  if reactants.length != sorted.length then ⟨[], [], uncertainIssue⟩
  else match allSome mcs with
    | some ps => ⟨ps, sorted, ""⟩
    | none => ⟨[], [], failedIssue⟩

/-- `single_mcs` ∘ `fit` ∘ `IterativeMCSReactionPairs` for one condition -/
def searchEntry {M Pr Pat} (pre : M → Option Nat) (step : M → Pr → Outcome Pat × Pr) (reactants : List M) (prod : Pr) :
    McsData M Pat :=
  let sorted := firstLoop pre reactants
  singleMcs reactants sorted (mcsList step prod sorted)

/-- the same before the repair -/
def searchEntryOld {M Pr Pat} (pre : M → Option Nat) (step : M → Pr → Outcome Pat × Pr) (reactants : List M) (prod : Pr) :
    McsData M Pat :=
  let sorted := firstLoop pre reactants
  singleMcs reactants sorted (mcsListOld step prod sorted)

end SynRBL.Mcs
