import SynRBLModel.Py.Dict
/-!
# Side comparison (`RSMIComparator`), both-side fix (`BothSideReact`) and water insertion
Sources: `synrbl/SynProcessor/rsmi_comparator.py:74-154`, `rsmi_both_side_process.py`, `rule_based.py:68-93`.
-/
namespace SynRBL

inductive Verdict | balance | products | reactants | both
  deriving DecidableEq, Repr, Inhabited

def Verdict.toString : Verdict → String
  | .balance => "Balance" | .products => "Products" | .reactants => "Reactants" | .both => "Both"

/-- `RSMIComparator.check_keys(d1, d2)`: every key of `d2` is in `d1` -/
def checkKeys (d1 d2 : Dict) : Bool := d2.keys.all fun k => d1.contains k

/-- `reactant.keys() == product.keys()` (set semantics of `dict_keys`) -/
def keysEq (r p : Dict) : Bool := checkKeys r p && checkKeys p r

/-- `RSMIComparator.compare_dicts` -/
def compareDicts (r p : Dict) : Verdict :=
  if !keysEq r p then
    if checkKeys r p && !checkKeys p r then
      if p.keys.all (fun k => decide (r.val k ≥ p.val k)) then .products else .both
    else if checkKeys p r && !checkKeys r p then
      if r.keys.all (fun k => decide (r.val k ≤ p.val k)) then .reactants else .both
    else .both
  else
    if r.keys.all (fun k => decide (r.val k = p.val k)) then .balance
    else if r.keys.all (fun k => decide (r.val k ≥ p.val k)) then .products
    else if r.keys.all (fun k => decide (r.val k ≤ p.val k)) then .reactants
    else .both

/-- `RSMIComparator.diff_dicts` -/
def diffDicts (r p : Dict) : Dict :=
  r.filterMap (fun kv =>
      if p.contains kv.1 then
        (if (kv.2 - p.val kv.1).natAbs ≠ 0 then some (kv.1, ((kv.2 - p.val kv.1).natAbs : Int)) else none)
      else (if kv.2 ≠ 0 then some kv else none))
  ++ p.filterMap (fun kv => if !r.contains kv.1 && kv.2 ≠ 0 then some kv else none)

/-- `BothSideReact.__init__`: force a `Q` key -/
def forceQ (d : Dict) : Dict := if d.contains "Q" then d else d ++ [("Q", 0)]

/-- `BothSideReact.enforce_product_side` -/
def enforceProductSide (r p : Dict) : Dict :=
  r.filterMap (fun kv => if kv.2 - p.val kv.1 ≠ 0 then some (kv.1, kv.2 - p.val kv.1) else none)
  ++ p.filterMap (fun kv => if !r.contains kv.1 then some (kv.1, -kv.2) else none)

/-- `BothSideReact.reverse_values_if_negative_except_Q` -/
def reverseIfNegative (d : Dict) : Dict × Verdict :=
  if d.length == 2 && d.contains "Q" then
    if d.any (fun kv => kv.1 != "Q" && decide (kv.2 < 0)) then
      (d.map (fun kv => (kv.1, -kv.2)), .reactants)
    else (d, .products)
  else (d, .both)

/-- the `Both` branch of `BothSideReact.fit` for one reaction -/
def bothSideFix (r p : Dict) (v : Verdict) (diff : Dict) : Dict × Verdict :=
  if v = .both then reverseIfNegative (enforceProductSide (forceQ r) (forceQ p)) else (diff, v)

/-- outcome of the water-insertion step of `RuleBasedMethod.run`: number of `.O` tokens appended to the
products (and to the reaction string), the edited formula and the new verdict -/
structure WaterOut where
  waters : Nat
  formula : Dict
  verdict : Verdict
  deriving Repr

/-- `rule_based.py:68-93` for one reaction -/
def waterStep (formula : Dict) (v : Verdict) : WaterOut :=
  if v = .both then
    match formula.get? "O" with
    | none => ⟨0, formula, v⟩
    | some ratio =>
      let f1 := formula.erase "O"
      let h := f1.val "H" - 2 * ratio
      if h ≥ 0 then ⟨ratio.toNat, f1.set "H" h, .products⟩
      else ⟨ratio.toNat, f1.set "H" (-h), .reactants⟩
  else ⟨0, formula, v⟩

/-- everything `RuleBasedMethod.run` derives from the two composition dictionaries of a reaction -/
def analyse (r p : Dict) : WaterOut :=
  let v := compareDicts r p
  let d := diffDicts r p
  let (d', v') := bothSideFix r p v d
  waterStep d' v'

end SynRBL
