import SynRBLModel.Model.Matcher
import SynRBLModel.Model.Decompose
/-!
# Records of a compound rule database as shipped (`rules_manager.json.gz`, `automated_rules.json.gz`)
plus what RDKit says about each SMILES (does it parse, its hydrogen-completed atom list).
-/
namespace SynRBL

structure DBRecord where
  rule : Rule
  formula : String
  parses : Bool
  atoms : List Atom
  deriving Repr

end SynRBL
