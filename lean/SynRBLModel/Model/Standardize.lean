/-!
# Tautomer standardisation: `MoleculeStandardizer` (enol → keto, hemiketal → carbonyl + water)
Source: `synrbl/SynChemImputer/molecule_standardizer.py:19-41` (`__call__`), `:43-99` (`standardize_enol`),
`:101-159` (`standardize_hemiketal`).

## What a graph carries
The Python works on SMILES strings: every rewrite parses the string (`Chem.MolFromSmiles`), edits bonds **by atom index**
with an `EditableMol`, sanitises, writes a new SMILES (`Chem.MolToSmiles`) — and the next rewrite parses *that* string
again, so atom indices are renumbered between two rewrites while the list of functional groups (with the indices of the
*unmodified* molecule) is kept. A `Graph` is the parsed molecule:

* per atom: `GetSymbol()`, `GetFormalCharge()`, `GetNumExplicitHs()`, `GetNoImplicit()` (true for every bracket atom
  such as `[O-]`, `[C@@]`, `[OH:3]`), and `otherH` = `GetTotalNumHs()` *as recorded*, which the model uses only for atoms
  whose hydrogen count it does not compute (everything but C and O);
* per bond: the two atom indices, the **Kekulé** bond order (1, 2, 3) and a flag `special` (aromatic, dative, or any
  bond type that is not SINGLE/DOUBLE/TRIPLE). An edit that removes a special bond or touches an atom that has one is
  outside the modelled fragment (`Rewrite.unmodelled`): sanitisation would then have to re-perceive aromaticity.

## The valence arithmetic (hydrogen count of C and O)
RDKit (`Atom::calcImplicitValence`, `calcExplicitValence`, run by `SanitizeMol`) does, for an atom of the organic subset:
`explicit valence = Σ bond orders + explicit H`; if it exceeds the permitted valence, sanitisation raises
`AtomValenceException` ("Explicit valence for atom # i S, v, is greater than permitted"); otherwise, unless the atom is
flagged `noImplicit`, `implicit H = permitted valence − explicit valence`. The permitted valence of a charged atom is that
of the isoelectronic neutral element: C has the single entry 4 (`C⁺`, `C⁻`: 3), O has the single entry 2 (`O⁺`: 3, `O⁻`: 1).
Since C and O have exactly one permitted valence there is no "next higher valence" case (unlike S or P), so
`H(a) = explicitH + (v − (Σ orders + explicitH))` — for a plain atom (`explicitH = 0`, not `noImplicit`) this is the
design's "valence − Σ bond orders". For an aromatic C/O the Kekulé orders give the same sum as RDKit's 1.5-weighted rule.
The harness checks `hCount` against `GetTotalNumHs()` on every C/O atom of every exported graph (law `valence arithmetic`).

## Oracles
`FGQuery.get` (fgutils), `MolFromSmiles ∘ MolToSmiles` after a rewrite (a renumbering that re-derives the bracket flags)
and `MolFromSmiles ∘ Chem.CanonSmiles` at the end are *recorded answers*; see `Oracle`.
-/
namespace SynRBL.Standardize

/-- one atom of `Chem.MolFromSmiles(smiles)` -/
structure Atom where
  sym : String
  charge : Int
  explicitH : Nat
  noImplicit : Bool
  otherH : Nat
  deriving Repr, DecidableEq, Inhabited

/-- one bond: atom indices, Kekulé order, `special` = aromatic / dative / not an integer order -/
structure Bond where
  a : Nat
  b : Nat
  order : Nat
  special : Bool
  deriving Repr, DecidableEq, Inhabited

structure Graph where
  atoms : List Atom
  bonds : List Bond
  deriving Repr, DecidableEq, Inhabited

/-- the bond is incident to atom `i` -/
def Bond.touches (e : Bond) (i : Nat) : Bool := e.a == i || e.b == i
/-- the bond joins `x` and `y` (either direction) -/
def Bond.joins (e : Bond) (x y : Nat) : Bool := (e.a == x && e.b == y) || (e.a == y && e.b == x)

/-- Σ bond orders at atom `i` -/
def degSumL (bs : List Bond) (i : Nat) : Nat := (bs.map fun e => if e.touches i then e.order else 0).sum
/-- order of the bond(s) between `x` and `y`, 0 if there is none (`GetBondBetweenAtoms`) -/
def orderL (bs : List Bond) (x y : Nat) : Nat := (bs.map fun e => if e.joins x y then e.order else 0).sum
/-- `EditableMol.RemoveBond(x, y)`: silently does nothing when there is no such bond (measured on RDKit 2026.03) -/
def removeBondL (bs : List Bond) (x y : Nat) : List Bond := bs.filter fun e => !e.joins x y
/-- `EditableMol.AddBond(x, y, order)`: raises on a self bond and on an existing bond (`none`); the new bond is appended -/
def addBondL (bs : List Bond) (x y order : Nat) : Option (List Bond) :=
  if x = y ∨ bs.any (fun e => e.joins x y) then none else some (bs ++ [⟨x, y, order, false⟩])

/-- permitted valence of C and O as a function of the formal charge; `none` = the model does not compute this atom -/
def valenceOf (sym : String) (q : Int) : Option Nat :=
  if sym = "C" then (if q = 0 then some 4 else if q = 1 ∨ q = -1 then some 3 else none)
  else if sym = "O" then (if q = 0 then some 2 else if q = 1 then some 3 else if q = -1 then some 1 else none)
  else none

/-- total hydrogen count of an atom whose bond orders sum to `d` (see the header) -/
def Atom.hCount (a : Atom) (d : Nat) : Nat :=
  match valenceOf a.sym a.charge with
  | some v => if a.noImplicit then a.explicitH else a.explicitH + (v - (d + a.explicitH))
  | none => a.otherH

/-- `calcExplicitValence(strict=True)` succeeds: explicit valence ≤ permitted valence (atoms the model does not compute
are not edited in the modelled fragment, so they pass as they did in the input) -/
def Atom.valenceOK (a : Atom) (d : Nat) : Bool :=
  match valenceOf a.sym a.charge with
  | some v => decide (d + a.explicitH ≤ v)
  | none => true

namespace Graph
def n (g : Graph) : Nat := g.atoms.length
def atom (g : Graph) (i : Nat) : Atom := g.atoms.getD i default
def sym (g : Graph) (i : Nat) : String := (g.atom i).sym
def degSum (g : Graph) (i : Nat) : Nat := degSumL g.bonds i
def order (g : Graph) (x y : Nat) : Nat := orderL g.bonds x y
/-- `GetTotalNumHs()` of atom `i` -/
def hCount (g : Graph) (i : Nat) : Nat := (g.atom i).hCount (g.degSum i)
/-- hydrogens that are not atoms of the graph -/
def hTotal (g : Graph) : Nat := ((List.range g.n).map g.hCount).sum
/-- number of atoms with symbol `s` (explicit `[H]` atoms have symbol `"H"`) -/
def symCount (g : Graph) (s : String) : Nat := g.atoms.countP (fun a => a.sym == s)
/-- net formal charge -/
def charge (g : Graph) : Int := (g.atoms.map (·.charge)).sum
/-- atom `i` has a special (aromatic / dative / …) bond -/
def hasSpecial (g : Graph) (i : Nat) : Bool := g.bonds.any fun e => e.touches i && e.special
/-- the model computes the hydrogens of atom `i`: C or O with a usual charge, no special bond -/
def modelled (g : Graph) (i : Nat) : Bool := (valenceOf (g.sym i) (g.atom i).charge).isSome && !g.hasSpecial i
/-- `atom.SetNumExplicitHs(h)` -/
def setExplicitH (g : Graph) (i h : Nat) : Graph :=
  ⟨g.atoms.modify i (fun a => { a with explicitH := h }), g.bonds⟩
end Graph

/-- same elemental composition (hydrogens that are atoms of the graph are counted by `symCount "H"`, all others by
`hTotal`) and same net charge -/
def SameComp (g' g : Graph) : Prop :=
  (∀ s, g'.symCount s = g.symCount s) ∧ g'.hTotal = g.hTotal ∧ g'.charge = g.charge

/-! ## the two rewrites -/

/-- a *string that is not a SMILES*, returned in place of one -/
inductive ErrMsg where
  /-- `"Invalid atom indices provided. Please check the input."` (`:79-80`, `:138-139`) -/
  | invalidIndices
  /-- `"Error in modifying molecule: …"` (`:88-89`, `:149-150`): `AddBond` on an existing bond or a self bond -/
  | modifying
  /-- `"Error in sanitizing molecule: Explicit valence for atom # i S, v, is greater than permitted"` (`:95-96`, `:156-157`) -/
  | sanitizing (atom : Nat) (sym : String) (valence : Nat)
  deriving Repr, DecidableEq

/-- an exception that is *not* caught inside the rewrite -/
inductive Exc where
  /-- `mol.GetAtomWithIdx(i)` with `i ≥ GetNumAtoms()` (RuntimeError "Range Error") -/
  | atomIndex (i : Nat)
  /-- `abs(i - o_idx)` with `o_idx = None` (TypeError): no oxygen among the indices -/
  | noOxygen
  deriving Repr, DecidableEq

/-- what `standardize_enol` / `standardize_hemiketal` return -/
inductive Rewrite where
  /-- `Chem.MolToSmiles(new_mol)`: the edited molecule, still with the atom numbering of the input -/
  | smiles (g : Graph)
  | errorString (e : ErrMsg)
  | raises (e : Exc)
  /-- the edit leaves the modelled fragment (an edited atom is not C/O or has an aromatic/dative bond) -/
  | unmodelled
  deriving Repr, DecidableEq

/-- first edited atom (lowest index, like RDKit's atom loop) whose explicit valence exceeds the permitted one -/
def firstValenceError (g : Graph) (edited : List Nat) : Option ErrMsg :=
  ((List.range g.n).filter fun i => edited.contains i && !(g.atom i).valenceOK (g.degSum i)).head?.map
    fun i => .sanitizing i (g.sym i) (g.degSum i + (g.atom i).explicitH)

/-- `new_mol = emol.GetMol(); Chem.SanitizeMol(new_mol); return Chem.MolToSmiles(new_mol)` (`:92-99`, `:153-159`)
for a molecule in which only the atoms `edited` changed -/
def sanitize (g : Graph) (edited : List Nat) : Rewrite :=
  if edited.all g.modelled then
    match firstValenceError g edited with
    | some e => .errorString e
    | none => .smiles g
  else .unmodelled

/-- `|i − o|` -/
def absDiff (i o : Nat) : Nat := if i ≤ o then o - i else i - o

/-- first loop of `standardize_enol` (`:66-69`): iterates over a *copy* of the index list, the last oxygen wins, every
oxygen index is removed from the live list (`list.remove` = first occurrence). `none` = `GetAtomWithIdx` out of range. -/
def enolScan (g : Graph) : List Nat → Option Nat × List Nat → Except Exc (Option Nat × List Nat)
  | [], st => .ok st
  | i :: is, (o, rest) =>
    if g.n ≤ i then .error (.atomIndex i)
    else if g.sym i = "O" then enolScan g is (some i, rest.erase i)
    else enolScan g is (o, rest)

/-- second loop (`:72-76`): the "carbon" whose index is next to the oxygen's index is C2, every other one C1 (last wins) -/
def enolAssign (o : Nat) : List Nat → Option Nat × Option Nat → Option Nat × Option Nat
  | [], st => st
  | i :: is, (c1, c2) => if absDiff i o = 1 then enolAssign o is (c1, some i) else enolAssign o is (some i, c2)

/-- the bond edits of `standardize_enol` (`:83-99`): C1=C2 and C2–O are removed, C1–C2 single and C2=O double are added -/
def enolEdit (g : Graph) (c1 c2 o : Nat) : Rewrite :=
  if g.bonds.any (fun e => e.special && (e.joins c1 c2 || e.joins c2 o)) then .unmodelled else
  match addBondL (removeBondL (removeBondL g.bonds c1 c2) c2 o) c1 c2 1 with
  | none => .errorString .modifying
  | some b1 =>
    match addBondL b1 c2 o 2 with
    | none => .errorString .modifying
    | some b2 => sanitize ⟨g.atoms, b2⟩ [c1, c2, o]

/-- `MoleculeStandardizer.standardize_enol(smiles, atom_indices)` (`:43-99`) -/
def enolRewrite (g : Graph) (idx : List Nat) : Rewrite :=
  match enolScan g idx (none, idx) with
  | .error e => .raises e
  | .ok (none, []) => .errorString .invalidIndices
  | .ok (none, _ :: _) => .raises .noOxygen
  | .ok (some o, rest) =>
    match enolAssign o rest (none, none) with
    | (some c1, some c2) => enolEdit g c1 c2 o
    | _ => .errorString .invalidIndices

/-- state of the loop of `standardize_hemiketal` (`:123-135`) -/
structure HkState where
  c : Option Nat
  o1 : Option Nat
  o2 : Option Nat
  g : Graph
  deriving Repr, DecidableEq

/-- the loop of `standardize_hemiketal` (`:124-135`): last carbon wins; the **first oxygen is O1** and gets
`SetNumExplicitHs(0)`, every later oxygen becomes O2 and gets `SetNumExplicitHs(2)` -/
def hemiketalScan : List Nat → HkState → Except Exc HkState
  | [], st => .ok st
  | i :: is, st =>
    if st.g.n ≤ i then .error (.atomIndex i)
    else if st.g.sym i = "C" then hemiketalScan is { st with c := some i }
    else if st.g.sym i = "O" then
      match st.o1 with
      | none => hemiketalScan is { st with o1 := some i, g := st.g.setExplicitH i 0 }
      | some _ => hemiketalScan is { st with o2 := some i, g := st.g.setExplicitH i 2 }
    else hemiketalScan is st

/-- the bond edits of `standardize_hemiketal` (`:142-159`): C–O1 and C–O2 are removed, C=O1 is added; O2 stays in the
molecule as a separate fragment -/
def hemiketalEdit (g : Graph) (c o1 o2 : Nat) : Rewrite :=
  if g.bonds.any (fun e => e.special && (e.joins c o1 || e.joins c o2)) then .unmodelled else
  match addBondL (removeBondL (removeBondL g.bonds c o1) c o2) c o1 2 with
  | none => .errorString .modifying
  | some b => sanitize ⟨g.atoms, b⟩ [c, o1, o2]

/-- `MoleculeStandardizer.standardize_hemiketal(smiles, atom_indices)` (`:101-159`) -/
def hemiketalRewrite (g : Graph) (idx : List Nat) : Rewrite :=
  match hemiketalScan idx ⟨none, none, none, g⟩ with
  | .error e => .raises e
  | .ok ⟨some c, some o1, some o2, g'⟩ => hemiketalEdit g' c o1 o2
  | .ok _ => .errorString .invalidIndices

/-! ## the driver loop `__call__` -/

/-- one entry of `FGQuery.get`: `(name, sorted atom indices)` -/
abbrev Group := String × List Nat

/-- recorded answers of fgutils and RDKit -/
structure Oracle where
  /-- `self.query.get(smiles)` for the *input* molecule (`:31`). The answers of the re-queries (`:36`, `:40`) are
  assigned to `self.fg` and never read: the `for` loop keeps iterating over the first list. -/
  findGroups : Graph → List Group
  /-- `Chem.MolFromSmiles(Chem.MolToSmiles(new_mol))` after the `k`-th successful rewrite: the same molecule with the
  atoms in SMILES output order and the bracket flags re-derived -/
  reparse : Nat → Graph → Graph
  /-- `Chem.MolFromSmiles(Chem.CanonSmiles(smiles))` (`:41`) -/
  canon : Graph → Graph

/-- why an exception escapes `__call__` -/
inductive RaiseWhy where
  /-- `FGQuery.get("")`: `np.max` of an empty node list (ValueError) -/
  | emptyMolecule
  /-- the rewrite returned an error message; the re-query `self.query.get(<message>)` raises
  `ValueError("RDKit was unable to parse SMILES '<message>'")`. (Without the re-query the message would reach
  `Chem.CanonSmiles`, which raises too: `MolToSmiles(None)`.) -/
  | requeryErrorString (e : ErrMsg)
  | exception (e : Exc)
  deriving Repr, DecidableEq

inductive Stop where
  /-- an exception escapes during the `step`-th rewrite (0-based count of successful rewrites before it) -/
  | raises (step : Nat) (why : RaiseWhy)
  | unmodelled (step : Nat)
  deriving Repr, DecidableEq

instance : DecidableEq (Except Stop Graph)
  | .ok a, .ok b => if h : a = b then isTrue (h ▸ rfl) else isFalse (fun e => h (Except.ok.inj e))
  | .error a, .error b => if h : a = b then isTrue (h ▸ rfl) else isFalse (fun e => h (Except.error.inj e))
  | .ok _, .error _ => isFalse (fun e => nomatch e)
  | .error _, .ok _ => isFalse (fun e => nomatch e)

/-- `smiles = self.standardize_…(smiles, atom_indices); self.fg = self.query.get(smiles)` -/
def applyRewrite (O : Oracle) (k : Nat) : Rewrite → Except Stop (Nat × Graph)
  | .smiles g' => .ok (k + 1, O.reparse k g')
  | .errorString e => .error (.raises k (.requeryErrorString e))
  | .raises e => .error (.raises k (.exception e))
  | .unmodelled => .error (.unmodelled k)

/-- body of the `for` loop (`:32-40`); `"hemiketal" in dict` on the tuple `(name, indices)` is `name == "hemiketal"` -/
def stepGroup (O : Oracle) (st : Nat × Graph) (grp : Group) : Except Stop (Nat × Graph) :=
  if grp.1 = "hemiketal" then applyRewrite O st.1 (hemiketalRewrite st.2 grp.2)
  else if grp.1 = "enol" then applyRewrite O st.1 (enolRewrite st.2 grp.2)
  else .ok st

/-- the loop over the group list found once -/
def loop (O : Oracle) : List Group → Nat × Graph → Except Stop (Nat × Graph)
  | [], st => .ok st
  | grp :: gs, st =>
    match stepGroup O st grp with
    | .ok st' => loop O gs st'
    | .error e => .error e

/-- `MoleculeStandardizer.__call__(smiles)` (`:19-41`) -/
def run (O : Oracle) (g : Graph) : Except Stop Graph :=
  if g.n = 0 then .error (.raises 0 .emptyMolecule)
  else match loop O (O.findGroups g) (0, g) with
    | .ok st => .ok (O.canon st.2)
    | .error e => .error e

/-- a group that `__call__` acts on -/
def isRewriteGroup (grp : Group) : Bool := grp.1 == "hemiketal" || grp.1 == "enol"

/-! ## executable forms of the oracle laws and theorem hypotheses (evaluated by the driver on recorded answers) -/

/-- composition as data: element counts (with all hydrogens under `"H"`) in first-occurrence order, and the charge -/
def compOf (g : Graph) : List (String × Nat) × Int :=
  let syms := g.atoms.foldl (fun acc a => if acc.contains a.sym then acc else acc ++ [a.sym]) ([] : List String)
  let syms := if syms.contains "H" then syms else syms ++ ["H"]
  ((syms.map fun s => (s, g.symCount s + (if s = "H" then g.hTotal else 0))).filter (fun p => p.2 != 0), g.charge)

def bondKey (e : Bond) : Nat × Nat × Nat :=
  (min e.a e.b, max e.a e.b, if e.special then 0 else e.order)

/-- `g'` is `g` with atom `order[i]` of `g` at position `i` (`_smilesAtomOutputOrder`): same symbol, charge and hydrogen
count atom by atom, same bonds (aromatic bonds compared as aromatic: the Kekulé structure may be a different one) -/
def renumberedB (order : List Nat) (g g' : Graph) : Bool :=
  let pos := fun (old : Nat) => order.idxOf old
  order.length == g.n && g'.n == g.n && (List.range g.n).all (fun old => order.contains old) &&
  (List.range g'.n).all (fun i =>
    let old := order.getD i 0
    g'.sym i == g.sym old && (g'.atom i).charge == (g.atom old).charge && g'.hCount i == g.hCount old) &&
  (let k := g.bonds.map fun e => bondKey ⟨pos e.a, pos e.b, e.order, e.special⟩
   let k' := g'.bonds.map bondKey
   k.length == k'.length && k.all k'.contains && k'.all k.contains)

/-- atom `i` is a C (`s = "C"`) or O atom without bracket flags whose valence is not exceeded: its hydrogen count is
`valence − Σ bond orders` -/
def plainB (g : Graph) (i : Nat) (s : String) : Bool :=
  decide (i < g.n) && g.sym i == s && !(g.atom i).noImplicit && (g.atom i).explicitH == 0 &&
  (valenceOf s (g.atom i).charge).isSome && (g.atom i).valenceOK (g.degSum i)

/-- the indices `(c1, c2, o)` that the two loops of `standardize_enol` assign, when all three are assigned -/
def enolIndices? (g : Graph) (idx : List Nat) : Option (Nat × Nat × Nat) :=
  match enolScan g idx (none, idx) with
  | .ok (some o, rest) =>
    match enolAssign o rest (none, none) with
    | (some c1, some c2) => some (c1, c2, o)
    | _ => none
  | _ => none

/-- `standardize_hemiketal` once its loop has assigned `c`, `o1`, `o2` (distinct): both `SetNumExplicitHs`, then the edits -/
def hemiketalApply (g : Graph) (c o1 o2 : Nat) : Rewrite :=
  hemiketalEdit ((g.setExplicitH o1 0).setExplicitH o2 2) c o1 o2

/-- the indices `(c, o1, o2)` that the loop of `standardize_hemiketal` assigns, when all three are assigned, and the
molecule after the loop's `SetNumExplicitHs` calls -/
def hemiketalIndices? (g : Graph) (idx : List Nat) : Option (Nat × Nat × Nat × Graph) :=
  match hemiketalScan idx ⟨none, none, none, g⟩ with
  | .ok ⟨some c, some o1, some o2, gs⟩ => some (c, o1, o2, gs)
  | _ => none

/-- hypotheses of `C20_enol_conserves` (all but "the rewrite returned a SMILES"): the three indices are distinct, C1=C2
is a double and C2–O a single bond, C1 is a plain carbon and O a plain oxygen -/
def enolHypB (g : Graph) (c1 c2 o : Nat) : Bool :=
  c1 != c2 && c2 != o && c1 != o && g.order c1 c2 == 2 && g.order c2 o == 1 && plainB g c1 "C" && plainB g o "O"

/-- hypotheses of `C20_hemiketal_conserves`: distinct indices, C–O1 and C–O2 single bonds, O1 and O2 plain oxygens -/
def hemiketalHypB (g : Graph) (c o1 o2 : Nat) : Bool :=
  c != o1 && c != o2 && o1 != o2 && g.order c o1 == 1 && g.order c o2 == 1 && plainB g o1 "O" && plainB g o2 "O"

/-- the hypotheses of the conservation theorem for the rewrite that `__call__` performs for `grp` on `g`. For a
hemiketal the loop must have called `SetNumExplicitHs` on O1 and O2 only (true for every three-element index list
with one carbon and two oxygens, see `hemiketalScan_three`). -/
def stepHypB (g : Graph) (grp : Group) : Bool :=
  if grp.1 = "hemiketal" then
    match hemiketalIndices? g grp.2 with
    | some (c, o1, o2, gs) => gs == (g.setExplicitH o1 0).setExplicitH o2 2 && hemiketalHypB g c o1 o2
    | none => false
  else
    match enolIndices? g grp.2 with
    | some (c1, c2, o) => enolHypB g c1 c2 o
    | none => false

/-- every rewrite that the loop performs (on the molecule as it is at that moment, with the indices of the stale group
list) satisfies the hypotheses of its conservation theorem -/
def allStepsHyp (O : Oracle) : List Group → Nat × Graph → Bool
  | [], _ => true
  | grp :: gs, st =>
    if isRewriteGroup grp then
      stepHypB st.2 grp &&
        (match stepGroup O st grp with
         | .ok st' => allStepsHyp O gs st'
         | .error _ => true)
    else allStepsHyp O gs st

/-- executable form of `SameComp` -/
def sameCompB (g' g : Graph) : Bool :=
  (g.atoms ++ g'.atoms).all (fun a => g'.symCount a.sym == g.symCount a.sym) && g'.hTotal == g.hTotal &&
    g'.charge == g.charge

/-- what is assumed of RDKit: writing a molecule as SMILES and parsing it again keeps the composition
(evaluated by the driver on every recorded answer, together with the stronger `renumberedB`) -/
structure Oracle.Laws (O : Oracle) : Prop where
  reparse_comp : ∀ k g, SameComp (O.reparse k g) g
  canon_comp : ∀ g, SameComp (O.canon g) g

/-! ## the candidate fix of `__call__` (NOTES.md "Fix A"; not the code in /repo unless the fix is applied)

```python
smiles = Chem.CanonSmiles(smiles); mol = Chem.MolFromSmiles(smiles)
if mol.GetNumAtoms() == 0: return smiles
for _ in range(mol.GetNumBonds() + 1):
    new_smiles = self._rewrite_once(smiles)      # fresh FGQuery.get(smiles); first enol/hemiketal group whose rewrite
    if new_smiles is None: break                 #   parses, keeps CalcMolFormula and changes the canonical SMILES
    smiles = new_smiles                          #   -> Chem.CanonSmiles(result)
return Chem.CanonSmiles(smiles)
```
The two rewrites themselves are unchanged. -/

structure OracleF where
  /-- `self.query.get(smiles)` — now asked for every intermediate molecule -/
  findGroups : Graph → List Group
  /-- `Chem.MolFromSmiles(Chem.CanonSmiles(·))` -/
  canon : Graph → Graph
  /-- `Chem.MolToSmiles(new_mol) != Chem.MolToSmiles(old_mol)` -/
  differs : Graph → Graph → Bool

inductive StopF where
  /-- an exception of a rewrite escapes (only `GetAtomWithIdx` out of range / no oxygen among the indices) -/
  | raises (e : Exc)
  | unmodelled
  deriving Repr, DecidableEq

/-- `_is_valid_rewrite(smiles, result)` followed by `Chem.CanonSmiles(result)`: an error message does not parse -/
def acceptF (O : OracleF) (g : Graph) : Rewrite → Except StopF (Option Graph)
  | .smiles g' => .ok (if sameCompB g' g && O.differs g' g then some (O.canon g') else none)
  | .errorString _ => .ok none
  | .raises e => .error (.raises e)
  | .unmodelled => .error .unmodelled

/-- the `for` loop of `_rewrite_once` -/
def firstRewriteF (O : OracleF) (g : Graph) : List Group → Except StopF (Option Graph)
  | [] => .ok none
  | grp :: gs =>
    if isRewriteGroup grp then
      match acceptF O g (if grp.1 = "hemiketal" then hemiketalRewrite g grp.2 else enolRewrite g grp.2) with
      | .ok (some g') => .ok (some g')
      | .ok none => firstRewriteF O g gs
      | .error e => .error e
    else firstRewriteF O g gs

def rewriteOnceF (O : OracleF) (g : Graph) : Except StopF (Option Graph) := firstRewriteF O g (O.findGroups g)

/-- the bounded loop of `__call__`; the flag says that the bound was hit (every rewrite turns at least one C–O single
bond into something else, so `GetNumBonds() + 1` rounds are never used up; the driver reports the flag) -/
def iterF (O : OracleF) : Nat → Graph → Except StopF (Graph × Bool)
  | 0, g => .ok (g, true)
  | k + 1, g =>
    match rewriteOnceF O g with
    | .ok none => .ok (g, false)
    | .ok (some g') => iterF O k g'
    | .error e => .error e

/-- the fixed `__call__`: result and "bound hit" -/
def runF (O : OracleF) (g : Graph) : Except StopF (Graph × Bool) :=
  if (O.canon g).n = 0 then .ok (O.canon g, false)
  else match iterF O ((O.canon g).bonds.length + 1) (O.canon g) with
    | .ok (r, ex) => .ok (O.canon r, ex)
    | .error e => .error e

structure OracleF.Laws (O : OracleF) : Prop where
  canon_comp : ∀ g, SameComp (O.canon g) g
  /-- the canonical SMILES of a canonical SMILES is itself -/
  canon_idem : ∀ g, O.canon (O.canon g) = O.canon g

instance : DecidableEq (Except StopF (Graph × Bool))
  | .ok a, .ok b => if h : a = b then isTrue (h ▸ rfl) else isFalse (fun e => h (Except.ok.inj e))
  | .error a, .error b => if h : a = b then isTrue (h ▸ rfl) else isFalse (fun e => h (Except.error.inj e))
  | .ok _, .error _ => isFalse (fun e => nomatch e)
  | .error _, .ok _ => isFalse (fun e => nomatch e)

end SynRBL.Standardize
