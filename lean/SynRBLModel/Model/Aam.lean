import SynRBLModel.Py.Str
/-!
# Atom-map removal (`remove_atom_mapping`, synrbl/SynUtils/chem_utils.py:146-153)

```python
def remove_atom_mapping(smiles: str) -> str:
    pattern = re.compile(r":\d+\]")
    smiles = pattern.sub("]", smiles)
    pattern = re.compile(
        r"\[(?!(?:P|S|I)H[2-9]\])(?P<atom>(B|C|N|O|P|S|F|Cl|Br|I){1,2})(?:H\d?)?\]"
    )
    smiles = pattern.sub(r"\g<atom>", smiles)
    return smiles
```

Both substitutions are modelled as backtracking-free left-to-right scanners over `List Char` that do what CPython's
`re.sub` does for these two patterns on ASCII text (`\d` = `0..9`; non-ASCII decimal digits, which `\d` also
accepts on `str` patterns, do not occur in SMILES and are outside the model).  The scanners are differentially
tested against `re` and against `remove_atom_mapping` itself by `harness/props/C15.py`.

Why no backtracking is needed.
* `:\d+\]` — `\d+` is greedy and the next pattern item `\]` is not a digit, so the only candidate is the maximal
  digit run.
* `(B|C|N|O|P|S|F|Cl|Br|I){1,2}(?:H\d?)?\]` — every alternative starts with a capital letter, `l` and `r` occur only
  as second letters of `Cl`/`Br`, and what may follow the group (`H`, `]`) starts no alternative.  Hence a body has
  at most one parse: a `C` followed by `l` must be read as `Cl` (CPython first tries `C`, fails on `l`, and
  backtracks into the `Cl` alternative; the scanner takes the longest symbol straight away), a second symbol must
  be taken whenever one is present, and the captured group `atom` is the body up to the first `H`.
* a match starts at `[` and contains no further `[`/`]` before its closing `]`, so the candidate body is the text
  up to the first `]`.
-/
namespace SynRBL.Aam

/-! ## token view of a printed SMILES -/

/-- All the structure the two regular expressions can see: bracket atoms and other characters. -/
inductive Tok where
  | bracket (body : Str)
  | plain (c : Char)
  deriving DecidableEq, Repr

def Tok.print : Tok → Str
  | .bracket b => '[' :: (b ++ [']'])
  | .plain c => [c]

def print (ts : List Tok) : Str := ts.flatMap Tok.print

/-- bodies contain no bracket, plain characters are not brackets -/
def Tok.wf : Tok → Bool
  | .bracket b => !b.contains '[' && !b.contains ']'
  | .plain c => c != '[' && c != ']'

def wfToks (ts : List Tok) : Bool := ts.all Tok.wf

/-- tokenizer (debug view of the driver, and the decidable form of "is the print of well-formed tokens"):
`cur = some b` while inside a bracket atom whose body read so far is `b` -/
def tokGo : Option Str → Str → Option (List Tok)
  | none, [] => some []
  | some _, [] => none
  | none, c :: cs =>
    if c = '[' then tokGo (some []) cs
    else if c = ']' then none
    else (tokGo none cs).map (Tok.plain c :: ·)
  | some b, c :: cs =>
    if c = ']' then (tokGo none cs).map (Tok.bracket b :: ·)
    else if c = '[' then none
    else tokGo (some (b ++ [c])) cs

def tokenize (s : Str) : Option (List Tok) := tokGo none s

/-! ## first substitution: `re.sub(r":\d+\]", "]", s)` -/

/-- `\d` on ASCII text -/
def digits : List Char := ['0', '1', '2', '3', '4', '5', '6', '7', '8', '9']

def isDig (c : Char) : Bool := digits.contains c

/-- text after some digits: `some n` = `n` further digits and then `]` -/
def closeAfterDigits : Str → Option Nat
  | [] => none
  | c :: cs =>
    if c = ']' then some 0
    else if isDig c then (closeAfterDigits cs).map (· + 1)
    else none

/-- text after a `:` — `some n` iff it starts with `n ≥ 1` digits followed by `]` (`\d+\]` matches here) -/
def classLen : Str → Option Nat
  | [] => none
  | c :: cs => if isDig c then (closeAfterDigits cs).map (· + 1) else none

/-- the scanner; `skip` characters of a match are still to be consumed.  A match `:ddd]` is replaced by `]`:
the colon and the digits are dropped, the `]` is then copied by the ordinary step. -/
def dropMapsGo : Nat → Str → Str
  | _, [] => []
  | skip + 1, _ :: xs => dropMapsGo skip xs
  | 0, x :: xs =>
    if x = ':' then
      match classLen xs with
      | some n => dropMapsGo n xs
      | none => x :: dropMapsGo 0 xs
    else x :: dropMapsGo 0 xs

def dropMaps (s : Str) : Str := dropMapsGo 0 s

/-! ## second substitution -/

/-- one-letter alternatives of `(B|C|N|O|P|S|F|Cl|Br|I)` -/
def singles : List Char := ['B', 'C', 'N', 'O', 'P', 'S', 'F', 'I']

/-- one iteration of the group `(B|C|N|O|P|S|F|Cl|Br|I)`: the symbol and the remaining text -/
def sym? : Str → Option (Str × Str)
  | [] => none
  | c :: r =>
    match r with
    | d :: r' =>
      if c = 'C' ∧ d = 'l' then some (['C', 'l'], r')
      else if c = 'B' ∧ d = 'r' then some (['B', 'r'], r')
      else if singles.contains c then some ([c], r) else none
    | [] => if singles.contains c then some ([c], r) else none

/-- `(?:H\d?)?` must consume the rest of the body -/
def hOK : Str → Bool
  | [] => true
  | ['H'] => true
  | ['H', d] => isDig d
  | _ => false

/-- the negative lookahead `(?!(?:P|S|I)H[2-9]\])` on the body -/
def blocked : Str → Bool
  | [x, 'H', d] => (x == 'P' || x == 'S' || x == 'I') && isDig d && d != '0' && d != '1'
  | _ => false

/-- does `(?!…)(?P<atom>(…){1,2})(?:H\d?)?` match the whole body?  Returns the group `atom`. -/
def matchBody (body : Str) : Option Str :=
  if blocked body then none
  else
    match sym? body with
    | none => none
    | some (a1, r1) =>
      match sym? r1 with
      | some (a2, r2) => if hOK r2 then some (a1 ++ a2) else none
      | none => if hOK r1 then some a1 else none

/-- text after a `[` — the candidate body is the text up to the first `]` (there must be one) -/
def bodyOf : Str → Option Str
  | [] => none
  | c :: cs => if c = ']' then some [] else (bodyOf cs).map (c :: ·)

/-- text after a `[`: `some (atom, n)` iff the pattern matches here, `n` = characters consumed after the `[` -/
def matchAt (xs : Str) : Option (Str × Nat) :=
  match bodyOf xs with
  | none => none
  | some b => (matchBody b).map fun a => (a, b.length + 1)

def unbracketGo : Nat → Str → Str
  | _, [] => []
  | skip + 1, _ :: xs => unbracketGo skip xs
  | 0, x :: xs =>
    if x = '[' then
      match matchAt xs with
      | some (a, n) => a ++ unbracketGo n xs
      | none => x :: unbracketGo 0 xs
    else x :: unbracketGo 0 xs

def unbracket (s : Str) : Str := unbracketGo 0 s

/-- `remove_atom_mapping` -/
def remove (s : Str) : Str := unbracket (dropMaps s)

/-! ## the same two steps on tokens -/

/-- drop a trailing `:digits` of a bracket body -/
def stripClass : Str → Str
  | [] => []
  | x :: xs => if x = ':' ∧ xs ≠ [] ∧ xs.all isDig then [] else x :: stripClass xs

def dropMapTok : Tok → Tok
  | .bracket b => .bracket (stripClass b)
  | .plain c => .plain c

def rewriteTok : Tok → List Tok
  | .bracket b =>
    match matchBody b with
    | some a => a.map Tok.plain
    | none => [.bracket b]
  | .plain c => [.plain c]

def removeToks (ts : List Tok) : List Tok := (ts.map dropMapTok).flatMap rewriteTok

/-! ## the finite shape of the bodies that are unbracketed -/

def organic1 : List Str :=
  [['B'], ['C'], ['N'], ['O'], ['P'], ['S'], ['F'], ['C', 'l'], ['B', 'r'], ['I']]

/-- `(…){1,2}`: one symbol or two -/
def organic12 : List Str := organic1 ++ organic1.flatMap fun a => organic1.map fun b => a ++ b

/-- `(?:H\d?)?` -/
def hSpellings : List Str :=
  [[], ['H']] ++ digits.map fun d => ['H', d]

/-- the bodies excluded by the lookahead: `PHn`, `SHn`, `IHn` with `n = 2..9` -/
def hyperHydride (x h : Str) : Bool :=
  (x == ['P'] || x == ['S'] || x == ['I']) &&
    (['2', '3', '4', '5', '6', '7', '8', '9'].map fun d => ['H', d]).contains h

/-- a bracket body carries a map class: it ends in `:` followed by at least one digit -/
def hasClass (b : Str) : Prop := ∃ pre ds, b = pre ++ ':' :: ds ∧ ds ≠ [] ∧ ds.all isDig = true

/-- in a SMILES bracket atom `[isotope? symbol chiral? hcount? charge? class?]` the colon occurs only as the
class separator -/
def colonOnce (b : Str) : Bool := b.count ':' ≤ 1

def Tok.colonOnce : Tok → Bool
  | .bracket b => Aam.colonOnce b
  | .plain _ => true

/-! ## the finite chemical half: valence classes (filled in by `harness/gen_valence.py` from RDKit) -/

/-- A bond environment: that many single, double and triple bonds; realised as `(F)`, `(=O)`, `(#N)` neighbours, or
as `(F)`, `(=C)`, `(#C)` when `carbon` is set. -/
structure Env where
  single : Nat
  double : Nat
  triple : Nat
  carbon : Bool
  deriving DecidableEq, Repr

def Env.order (e : Env) : Nat := e.single + 2 * e.double + 3 * e.triple

/-- every split of a bond-order sum 0..7 into single/double/triple bonds, in the hetero flavour, and in the carbon
flavour when a multiple bond is present (54 environments; same enumeration order as `gen_valence.all_envs`) -/
def allEnvs : List Env :=
  [false, true].flatMap fun cb => (List.range 8).flatMap fun s => (List.range (s / 3 + 1)).flatMap fun t =>
    (List.range ((s - 3 * t) / 2 + 1)).filterMap fun d =>
      if cb && d == 0 && t == 0 then none else some ⟨s - 3 * t - 2 * d, d, t, cb⟩

/-- One bracket atom `[X h]` of the shape the regex can unbracket, in a bond environment: what RDKit says about the
bracketed and the bare spelling. -/
structure ValenceClass where
  sym : Str
  hspell : Str
  env : Env
  /-- `[X h]env` parses and sanitizes -/
  valid : Bool
  /-- … and no atom of it carries radical electrons -/
  closedShell : Bool
  /-- `X env` parses and sanitizes -/
  bareValid : Bool
  /-- both valid, same canonical SMILES, same total hydrogen count and radical count on the atom -/
  same : Bool
  /-- sanitization of the bracketed spelling introduced formal charges (RDKit's clean-up of pentavalent-N /
  hypervalent-halogen oxo notation) -/
  normalized : Bool
  deriving Repr

/-- the generated table stores one row per body `X h`: the verdicts for the environments of `allEnvs`, in that order,
each packed as `valid + 2·closedShell + 4·bareValid + 8·same + 16·normalized` -/
def ValenceClass.ofCode (x hs : Str) (e : Env) (k : Nat) : ValenceClass :=
  ⟨x, hs, e, k % 2 == 1, k / 2 % 2 == 1, k / 4 % 2 == 1, k / 8 % 2 == 1, k / 16 % 2 == 1⟩

def expandRows (rows : List (Str × Str × List Nat)) : List ValenceClass :=
  rows.flatMap fun r => (allEnvs.zip r.2.2).map fun ek => ValenceClass.ofCode r.1 r.2.1 ek.1 ek.2

def ValenceClass.body (c : ValenceClass) : Str := c.sym ++ c.hspell

end SynRBL.Aam
