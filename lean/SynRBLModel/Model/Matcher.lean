import SynRBLModel.Py.Dict
/-!
# The rule-based solver: `SyntheticRuleMatcher` (depth-first search), ranking, `single_impute`
Sources: `synrbl/SynRuleImputer/synthetic_rule_matcher.py`, `synthetic_rule_imputer.py:61-106`,
`SynUtils/data_utils.py:find_shortest_sublists`, `SynUtils/chem_utils.py:calculate_net_charge`.
-/
namespace SynRBL

/-- one record of a rule database plus what the kernel says about its SMILES -/
structure Rule where
  smiles : String
  comp : Dict
  /-- `Σ |formal charge|` over the atoms of `smiles` (used by `calculate_net_charge`) -/
  absCharge : Nat := 0
  deriving Repr, DecidableEq, Inhabited

/-- one step of a completion: `{"smiles": …, "Ratio": …}` -/
structure Step where
  rule : Rule
  ratio : Nat
  deriving Repr, DecidableEq, Inhabited

abbrev Solution := List Step

/-- stable insertion of `x` into a list sorted by descending key: after every element with key ≥ key x -/
def insertDesc {α} (key : α → Nat) (x : α) : List α → List α
  | [] => [x]
  | y :: ys => if key y ≥ key x then y :: insertDesc key x ys else x :: y :: ys

/-- `sorted(xs, key=key, reverse=True)` (stable) -/
def sortDesc {α} (key : α → Nat) (xs : List α) : List α :=
  xs.foldl (fun acc x => insertDesc key x acc) []

/-- `__init__`: rules sorted by composition length, descending, stable -/
def sortRules (rules : List Rule) : List Rule := sortDesc (fun r => r.comp.length) rules

/-- `__init__`: force `Q`, drop zero entries except `Q` -/
def prepData (d : Dict) : Dict :=
  (if d.contains "Q" then d else d ++ [("Q", 0)]).filter fun kv => kv.2 != 0 || kv.1 == "Q"

/-- `can_match` -/
def canMatch (rule data : Dict) : Bool :=
  rule.all fun kv => kv.1 == "Q" || (data.contains kv.1 && decide (data.val kv.1 ≥ kv.2))

/-- `min(data[k] // v if v != 0 else 0 for k, v in rule if k != "Q")`; `none` = `min()` of nothing (raises) -/
def ratioOf (rule data : Dict) : Option Int :=
  let qs := (rule.filter (fun kv => kv.1 != "Q")).map
    fun kv => if kv.2 != 0 then Int.fdiv (data.val kv.1) kv.2 else 0
  match qs with
  | [] => none
  | q :: t => some (t.foldl min q)

/-- one key of the subtraction loop in `apply_rule` -/
def subStep (ratio : Int) (nd : Dict) (kv : Key × Int) : Dict :=
  if nd.contains kv.1 then
    let nv := nd.val kv.1 - kv.2 * ratio
    if nv = 0 ∧ kv.1 ≠ "Q" then nd.erase kv.1 else nd.set kv.1 nv
  else nd

def subtractRule (rule : Dict) (ratio : Int) (data : Dict) : Dict :=
  rule.foldl (subStep ratio) data

/-- `exit_strategy_solution` -/
def exitOk (data : Dict) : Bool := data.length == 1 && data.val "Q" == 0

/-- `dfs` in `select="all"` mode; the Python recursion has no fuel — see `Proofs/Matcher.lean` for why it
terminates on a good database -/
def dfs (rules : List Rule) : Nat → Dict → Solution → List Solution
  | 0, _, _ => []
  | fuel + 1, data, path =>
    if exitOk data then [path] else
    rules.flatMap fun r =>
      if canMatch r.comp data then
        match ratioOf r.comp data with
        | none => []
        | some q => dfs rules fuel (subtractRule r.comp q.natAbs data) (path ++ [⟨r, q.natAbs⟩])
      else []

def stepKey (s : Step) : String × Nat := (s.rule.smiles, s.ratio)

/-- equality of the `frozenset((smiles, Ratio) …)` of two solutions -/
def sameSet (a b : Solution) : Bool :=
  a.all (fun s => b.any fun t => stepKey s == stepKey t) && b.all (fun s => a.any fun t => stepKey s == stepKey t)

/-- `remove_overlapping_solutions`: keep the first solution of every set -/
def dedup (sols : List Solution) : List Solution :=
  sols.foldl (fun acc s => if acc.any (sameSet s) then acc else acc ++ [s]) []

/-- `find_shortest_sublists` -/
def shortest (sols : List Solution) : List Solution :=
  match sols with
  | [] => []
  | s :: t =>
    let m := t.foldl (fun m x => min m x.length) s.length
    sols.filter fun x => x.length == m

/-- `calculate_net_charge` -/
def netCharge (s : Solution) : Nat := (s.map fun st => st.rule.absCharge * st.ratio).sum

/-- `rank_solutions(…, "ion_priority")` -/
def rank (sols : List Solution) : List Solution := sortDesc netCharge (shortest sols)

/-- total element count (fuel bound for `dfs`) -/
def weight (d : Dict) : Nat := (d.map fun kv => kv.2.natAbs).sum

/-- `SyntheticRuleMatcher(rule_dict, data, select="all", ranking="ion_priority").match()` -/
def matchAll (rules : List Rule) (data : Dict) : List Solution :=
  let d := prepData data
  rank (dedup (dfs (sortRules rules) (weight d + 2) d []))

/-- `get_and_validate_smiles` (the RDKit validity check is a table obligation on the database) -/
def solutionTokens (s : Solution) : List String := s.flatMap fun st => List.replicate st.ratio st.rule.smiles

/-- `single_impute`: the tokens appended to the deficient side, if any -/
def imputeTokens (rules : List Rule) (diff : Dict) : Option (List String) :=
  match matchAll rules diff with
  | [] => none
  | s :: _ => if s.length > 0 then some (solutionTokens s) else none

end SynRBL
