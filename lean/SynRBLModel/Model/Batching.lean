import SynRBLModel.Model.Pipeline
/-!
# `DataLoader`, `Balancer.rebalance`, `merge_stats`
Source: `synrbl/SynUtils/batching.py:59-80`, `synrbl/balancing.py:18-28` and `rebalance`.
-/
namespace SynRBL

/-- `DataLoader(data, batch_size=n)`: slices of `n` items until the iterator is exhausted; when the length is a
multiple of `n` the last slice is empty (and `rebalance` skips it) -/
def chunks {α} (n : Nat) : Nat → List α → List (List α)
  | 0, _ => []
  | fuel + 1, xs =>
    if xs.length < n then [xs]          -- StopIteration inside the slice: a short (possibly empty) last batch
    else xs.take n :: chunks n fuel (xs.drop n)

/-- the batches `rebalance` actually processes (`if len(batch) == 0: continue`) -/
def batchesOf {α} (n : Nat) (xs : List α) : List (List α) :=
  (chunks n (xs.length + 1) xs).filter fun b => !b.isEmpty

def RowStats.add (a b : RowStats) : RowStats :=
  ⟨a.reactionCnt + b.reactionCnt, a.balancedCnt + b.balancedCnt, a.rbApplied + b.rbApplied,
   a.rbSolved + b.rbSolved, a.mcsApplied + b.mcsApplied, a.mcsSolved + b.mcsSolved,
   a.confidentCnt + b.confidentCnt⟩

def RowStats.zero : RowStats := ⟨0, 0, 0, 0, 0, 0, 0⟩

/-- statistics contribution of one input row (`reaction_cnt` counts malformed rows too) -/
def statsIn (cfg : Config) : InRow → RowStats
  | .valid s o => rowStats o cfg s
  | .invalid _ => { RowStats.zero with reactionCnt := 1 }

/-- statistics of one pipeline invocation -/
def batchStats (cfg : Config) (rows : List InRow) : RowStats :=
  (rows.map (statsIn cfg)).foldl RowStats.add RowStats.zero

/-- `rebalance(..., batch_size=n)`: rows of all batches concatenated, statistics merged key-wise -/
def rebalance (cfg : Config) (n : Nat) (rows : List InRow) : List Row × RowStats :=
  let bs := batchesOf n rows
  (bs.flatMap (runBatch cfg), (bs.map (batchStats cfg)).foldl RowStats.add RowStats.zero)

end SynRBL
