import SynRBLModel.Model.Batching
import SynRBLModel.Model.Aam
/-!
# From raw input strings to pipeline rows
Source: `synrbl/balancing.py` (`__is_valid_reaction`, `__run_pipeline`), `preprocess.py` (atom-map removal first).

A raw row is a reaction string (non-string values — `None`, `NaN`, numbers — are malformed rows as well; they carry no text and
are not modelled here). The kernel enters through `parse` (does RDKit parse this side?) and through the oracle that will
answer for the cleaned reaction.
-/
namespace SynRBL
open Str

/-- `Balancer.__is_valid_reaction` on the string after atom-map removal: exactly two `>>`-tokens, both parse -/
def validReaction (parse : Str → Bool) (s : Str) : Bool :=
  match splitArrow s with
  | [a, b] => parse a && parse b
  | _ => false

/-- classification of one raw row (with `remove_aam=True`, the default) -/
def classify (parse : Str → Bool) (oracleOf : Str → Oracle) (raw : Str) : InRow :=
  let s := Aam.remove raw
  if validReaction parse s then .valid s (oracleOf s) else .invalid raw

/-- `Balancer.rebalance` on raw strings -/
def rebalanceRaw (parse : Str → Bool) (oracleOf : Str → Oracle) (cfg : Config) (n : Nat) (raws : List Str) :
    List Row × RowStats :=
  rebalance cfg n (raws.map (classify parse oracleOf))

end SynRBL
