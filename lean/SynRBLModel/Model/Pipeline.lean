import SynRBLModel.Model.RuleBased
/-!
# The row state machine of `Balancer.__run_pipeline`
Source: `synrbl/balancing.py:149-260` (after the fixes that re-insert invalid rows and revert unbalanced
curations), `postprocess.py` (Validator), `rule_based.py`, `mcs_search.py`, `SynMCSImputer/mcs_based_method.py`,
`confidence_prediction.py`.

Every kernel-dependent answer is a field of `Oracle`; composition and carbon counts are functions of the side
string, the MCS search / merge / confidence answers are per-row constants (each is consulted at most once per run).
Faults, time-outs and load-dependent failures are just other oracles.
-/
namespace SynRBL
open Str

inductive Method | input | rule | mcs
  deriving DecidableEq, Repr, Inhabited

def Method.toString : Method → String
  | .input => "input-balanced" | .rule => "rule-based" | .mcs => "mcs-based"

structure Row where
  /-- `input_reaction` -/
  input : Str
  reaction : Str
  solved : Bool := false
  solvedBy : Option Method := none
  /-- `none` = the key is absent -/
  issue : Option Str := none
  carbon : CLabel := .error
  unbalance : Verdict := .both
  /-- key `mcs` present (the row went to the MCS stage) -/
  hasMcs : Bool := false
  /-- `mcs` data is not `None` (a search condition won) -/
  mcsOk : Bool := false
  rules : Option (List String) := none
  /-- confidence as an exact integer multiple of 2^-70 (the float value the row reports) -/
  conf : Option Nat := none
  uncurated : Option Str := none
  deriving Repr, DecidableEq

structure Oracle where
  /-- `RSMIDecomposer.decompose(side)` -/
  comp : Str → Dict
  /-- `CheckCarbonBalance.count_atoms(side, "C")` (0 for an unparsable side) -/
  carbonCnt : Str → Nat
  /-- did a search condition win for this row (`MCSSearch.find` attached data)? -/
  searchFound : Bool
  /-- issue text of the attached search record (`""` on success) -/
  searchIssue : Str
  /-- message of the exception raised by `build_compounds` / empty set / `merge`, if any -/
  mergeErr : Option Str
  /-- exception raised by a SMILES standardiser, if any -/
  stdErr : Option Str
  /-- merged and standardised SMILES -/
  merged : Str
  mergeRules : List String
  /-- curated reaction returned by `PostProcess.fit` for a reaction string, if any -/
  curate : Str → Option Str
  /-- `np.round(predict_proba, 3)` (a float32) as an exact integer multiple of 2^-70 -/
  conf : Nat

structure Config where
  rules : List Rule
  ban : List Str
  /-- confidence threshold (a float) as an exact integer multiple of 2^-70 -/
  threshold : Nat

variable (O : Oracle)

def sidesOf (s : Str) : Option (Str × Str) :=
  match splitArrow s with
  | r :: p :: _ => some (r, p)
  | _ => none

/-- the comparator's verdict on a reaction string -/
def verdictOf (s : Str) : Verdict :=
  match sidesOf s with
  | some (r, p) => compareDicts (O.comp r) (O.comp p)
  | none => .both

/-- `CheckCarbonBalance.process_reaction`: exactly two `>>`-tokens, else `error` -/
def labelOf (s : Str) : CLabel :=
  match splitArrow s with
  | [r, p] => carbonLabel (O.carbonCnt r) (O.carbonCnt p)
  | _ => .error

/-- `Validator.check` for one row -/
def validate (m : Method) (checkCarbon override : Bool) (msg : Option Str) (r : Row) : Row :=
  let c := if checkCarbon then labelOf O r.reaction else r.carbon
  let v := verdictOf O r.reaction
  let r1 := { r with carbon := c, unbalance := v }
  let r2 := if v = .balance ∧ c = .balanced ∧ r1.solved = false
            then { r1 with solved := true, solvedBy := some m } else r1
  if override ∧ r2.solved = false then
    let r3 := { r2 with reaction := r2.input }
    match msg, r3.issue with
    | some s, some [] => { r3 with issue := some s }
    | _, _ => r3
  else r2

/-- the rule-based stage on one row (`RbOut` carries the statistics flags) -/
def rbOut (cfg : Config) (r : Row) : Option RbOut :=
  match sidesOf r.reaction with
  | some (a, b) => rbRow cfg.rules cfg.ban r.reaction (O.comp a) (O.comp b) r.carbon
  | none => none

def rbStage (cfg : Config) (r : Row) : Row :=
  match rbOut O cfg r with
  | some o => { r with reaction := o.reaction }
  | none => r

def noMcsIssue : Str := str "No MCS identified."

/-- `MCSSearch.find` for one row -/
def searchStage (r : Row) : Row :=
  if r.solved then r else
  if O.searchFound then { r with hasMcs := true, mcsOk := true, issue := some O.searchIssue }
  else { r with hasMcs := true, mcsOk := false, issue := some noMcsIssue }

def skipPrefix : Str := str "Skip reaction because of previous issue.\n"
def reactantsImbalance : Str := str "Skipped because of reactants imbalance."
def invalidCarbon (c : CLabel) : Str := str ("Invalid value '" ++ c.toString ++ "' for carbon balance.")
def carbonMismatch : Str :=
  str "Failed to impute the correct structure. Carbon atom count in reactants and products does not match."

/-- `MCSBasedMethod.run` / `impute_reaction` for one row; second component: counted in `mcs_solved` -/
def imputeStage (r : Row) : Row × Bool :=
  if !r.hasMcs then (r, false) else
  if !r.mcsOk then (r, false) else
  let issue := r.issue.getD []
  if issue ≠ [] then ({ r with issue := some (skipPrefix ++ issue) }, false) else
  match O.mergeErr with
  | some e => ({ r with issue := some e }, false)
  | none =>
    if r.carbon = .reactants then ({ r with issue := some reactantsImbalance }, false)
    else if r.carbon = .products ∨ r.carbon = .balanced then
      match O.stdErr with
      | some e => ({ r with issue := some e }, false)
      | none =>
        let imputed := r.reaction ++ '.' :: O.merged
        match sidesOf imputed with
        | some (a, b) =>
          if O.carbonCnt a = O.carbonCnt b then
            ({ r with reaction := imputed, rules := some O.mergeRules }, true)
          else ({ r with issue := some carbonMismatch }, false)
        | none => ({ r with issue := some carbonMismatch }, false)
    else ({ r with issue := some (invalidCarbon r.carbon) }, false)

/-- `Balancer.__post_process` for one row -/
def postStage (r : Row) : Row :=
  match r.solvedBy with
  | none => r
  | some .input => r
  | some _ =>
    match O.curate r.reaction with
    | some c => { r with uncurated := some r.reaction, reaction := c }
    | none => r

/-- `Balancer.__revert_unbalanced_curation` for one row -/
def revertStage (r : Row) : Row :=
  match r.uncurated with
  | none => r
  | some u =>
    if r.unbalance = .balance ∧ r.carbon = .balanced then { r with uncurated := none }
    else { r with reaction := u, uncurated := none }

def finalMsg : Str := str "Final reaction is unbalanced."

/-! the row after each stage, named -/
def pc0 (s : Str) : Row := { input := s, reaction := s }
def pc1 (s : Str) : Row := validate O .input true false none (pc0 s)
def pc2 (cfg : Config) (s : Str) : Row := rbStage O cfg (pc1 O s)
def pc3 (cfg : Config) (s : Str) : Row := validate O .rule false true none (pc2 O cfg s)
def pc4 (cfg : Config) (s : Str) : Row := searchStage O (pc3 O cfg s)
def pc5 (cfg : Config) (s : Str) : Row := (imputeStage O (pc4 O cfg s)).1
def pc6 (cfg : Config) (s : Str) : Row := validate O .mcs true false none (pc5 O cfg s)
def pc7 (cfg : Config) (s : Str) : Row := postStage O (pc6 O cfg s)
def pc8 (cfg : Config) (s : Str) : Row := rbStage O cfg (pc7 O cfg s)
def pc9 (cfg : Config) (s : Str) : Row := validate O .mcs true true (some finalMsg) (pc8 O cfg s)

/-- everything before the confidence filter (does not mention the threshold) -/
def preConf (cfg : Config) (input : Str) : Row := revertStage (pc9 O cfg input)

/-- issue text of a demoted row: `"Confidence is below the threshold of {:.2%}."` is rendered by the harness;
the model only records that the row was demoted -/
def belowThreshold : Str := str "Confidence is below the threshold."

/-- `ConfidencePredictor.predict` for one row -/
def confStage (t : Nat) (r : Row) : Row :=
  if r.solvedBy = some .mcs then
    if O.conf ≥ t then { r with conf := some O.conf }
    else { r with conf := some O.conf, solved := false, issue := some belowThreshold }
  else r

def runRow (cfg : Config) (input : Str) : Row := confStage O cfg.threshold (preConf O cfg input)

/-- per-row contributions to the run statistics -/
structure RowStats where
  reactionCnt : Nat := 1
  balancedCnt : Nat := 0
  rbApplied : Nat := 0
  rbSolved : Nat := 0
  mcsApplied : Nat := 0
  mcsSolved : Nat := 0
  confidentCnt : Nat := 0
  deriving Repr, DecidableEq

def b2n (b : Bool) : Nat := if b then 1 else 0

def rowStats (cfg : Config) (input : Str) : RowStats :=
  { reactionCnt := 1
    balancedCnt := b2n (((rbOut O cfg (pc1 O input)).map (·.countedBalanced)).getD false)
    rbApplied := b2n (((rbOut O cfg (pc1 O input)).map (·.applied)).getD false)
    rbSolved := b2n (((rbOut O cfg (pc1 O input)).map (·.solved)).getD false)
    mcsApplied := b2n (pc4 O cfg input).hasMcs
    mcsSolved := b2n (imputeStage O (pc4 O cfg input)).2
    confidentCnt := b2n (decide ((preConf O cfg input).solvedBy = some .mcs ∧ O.conf ≥ cfg.threshold)) }

/-- an input row as the pipeline sees it: valid (with its oracle) or malformed -/
inductive InRow
  | valid (input : Str) (o : Oracle)
  | invalid (raw : Str)

def invalidIssue : Str := str "Invalid reaction SMILES."

def runIn (cfg : Config) : InRow → Row
  | .valid s o => runRow o cfg s
  | .invalid raw => { input := raw, reaction := raw, solved := false, issue := some invalidIssue }

/-- `Balancer.__run_pipeline` on a batch -/
def runBatch (cfg : Config) (rows : List InRow) : List Row := rows.map (runIn cfg)

end SynRBL
