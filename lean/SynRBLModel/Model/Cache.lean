import SynRBLModel.Py.Str
/-!
# The result cache of `Balancer.rebalance` as a state machine over the cache directory (C12)

Source (after the commits `676bf5c fix: make the cache key depend on the balancer configuration` and
`f8ec0af fix: write cache entries atomically and treat unreadable entries as a miss`):
`synrbl/SynUtils/batching.py:83-123` (`CacheManager`), `synrbl/balancing.py:280-328`
(`__try_cache`, `__init_cache`, `__rebalance_batch`) and the batch loop of `rebalance` (`balancing.py:330-364`).

What is a parameter (`Sys`) and what is modelled:

* the pipeline itself (`__run_pipeline`) is an abstract function `pipeline : Cfg → Batch → Option Result`
  (`none` = it raised; the exception is swallowed by `__rebalance_batch`), `failStats` is the partially filled
  statistics dictionary such a failed invocation leaves behind;
* `key : Cfg → Batch → Str` is `CacheManager.get_hash_key(batch, config=…)` (SHA-256 hex digest of the canonical JSON
  of the batch followed by the canonical JSON of `{reaction_col, id_col, confidence_threshold, remove_aam}`);
* `encode` is `json.dump({"stats": …, "result": …})`, `load` is `load_cache` followed by the two `.get(…, None)` of
  `__try_cache` (an unreadable file, a non-dict document, a missing or `null` member all give `none`);
* the directory, the scan in `CacheManager.__init__`, `is_cached`, `load_cache`, `write_cache` (temporary file +
  `os.replace`), the hit/miss decision, failed batches, the empty-batch skip and every point at which a run can be
  killed or a write can fail are modelled concretely.

File names are strings: the scan really is `os.path.splitext` + an extension filter, so whether a leftover
`<key>.cache.tmp` counts as an entry is decided by `splitext` below (it does not: its extension is `.tmp`).
-/
namespace SynRBL.Cache
open SynRBL

/-- `json.dump` writes ASCII (`ensure_ascii=True`), so characters are bytes -/
abbrev Bytes := Str
abbrev FileName := Str

/-! ## `os.path.splitext` on a directory entry and the scan of `CacheManager.__init__` -/

/-- `os.path.splitext(name)` for a name without `/` (what `os.walk` yields in `files`): split at the last dot unless
everything before it is dots (`genericpath._splitext`: "skip all leading dots").
`"ab.cache" ↦ ("ab", ".cache")`, `"ab.cache.tmp" ↦ ("ab.cache", ".tmp")`, `".cache" ↦ (".cache", "")`,
`"a." ↦ ("a", ".")`, `"..x" ↦ ("..x", "")`. -/
def splitext (p : Str) : Str × Str :=
  let r := p.reverse
  match r.dropWhile (· != '.') with
  | [] => (p, [])
  | _ :: stemRev =>
    if stemRev.any (· != '.') then (stemRev.reverse, '.' :: (r.takeWhile (· != '.')).reverse) else (p, [])

def cacheExt : Str := "cache".toList

/-- `batching.py:91-96`: `file_name, file_ext = os.path.splitext(file)`; `cache_key = os.path.basename(file_name)`;
registered iff `file_ext.replace(".", "") == cache_ext.lower()` (`cache_ext = "cache"`).
The registered path is `join(abspath(cache_dir), file)`; by `scanKey?_shape` (Proofs/Cache.lean) `file` is always
`cache_key ++ ".cache"`, so the dictionary `__cache_refs` is determined by its key set. -/
def scanKey? (file : FileName) : Option Str :=
  let se := splitext file
  if se.2.filter (· != '.') = cacheExt then some se.1 else none

/-- the file `write_cache` creates for a key: `"{}.{}".format(key, "cache")` -/
def entryName (k : Str) : FileName := k ++ ".cache".toList

/-- `tmp_file = "{}.tmp".format(file)` -/
def tmpName (file : FileName) : FileName := file ++ ".tmp".toList

/-! ## The directory -/

/-- The cache directory: the regular files directly inside it (distinct names) and the names of regular files
somewhere below it in sub-directories (`os.walk` descends and `__init__` registers those names too, but with the
path `cache_dir/<name>` — so they only matter as names). -/
structure Disk where
  files : List (FileName × Bytes)
  nested : List FileName
deriving DecidableEq, Repr

def Disk.empty : Disk := ⟨[], []⟩

def lookupF (f : FileName) : List (FileName × Bytes) → Option Bytes
  | [] => none
  | e :: r => if e.1 = f then some e.2 else lookupF f r

def eraseF (f : FileName) : List (FileName × Bytes) → List (FileName × Bytes)
  | [] => []
  | e :: r => if e.1 = f then eraseF f r else e :: eraseF f r

namespace Disk
/-- `open(path).read()`; `none` = `FileNotFoundError` -/
def read (d : Disk) (f : FileName) : Option Bytes := lookupF f d.files
/-- `open(path, "w")` + write + close: the file now has exactly this content -/
def write (d : Disk) (f : FileName) (c : Bytes) : Disk := { d with files := (f, c) :: eraseF f d.files }
def remove (d : Disk) (f : FileName) : Disk := { d with files := eraseF f d.files }
/-- `os.replace(src, dst)`: **one** update of the directory — there is no state in which `dst` holds part of the
content. (`src` missing: `FileNotFoundError`, nothing changes.) -/
def rename (d : Disk) (src dst : FileName) : Disk :=
  match d.read src with
  | none => d
  | some c => (d.remove src).write dst c
/-- the names `os.walk(cache_dir)` reports in its `files` lists -/
def names (d : Disk) : List FileName := d.files.map (·.1) ++ d.nested
end Disk

/-- `CacheManager.__init__`: the keys of `__cache_refs`. Taken **once** per `rebalance` call (`__init_cache`);
`write_cache` does not update it. -/
def scan (d : Disk) : List Str := d.names.filterMap scanKey?

/-! ## The system under the cache -/

structure Result (Rows Stats : Type) where
  rows : Rows
  stats : Stats
deriving DecidableEq, Repr

structure Sys (Cfg Batch Rows Stats : Type) where
  /-- `__run_pipeline(copy.deepcopy(batch), batch_stats)`; `none` = raised -/
  pipeline : Cfg → Batch → Option (Result Rows Stats)
  /-- the content of `batch_stats` when the pipeline raised -/
  failStats : Cfg → Batch → Stats
  /-- `len(batch) == 0` -/
  isEmpty : Batch → Bool
  /-- `get_hash_key(batch, config={reaction_col, id_col, confidence_threshold, remove_aam})` -/
  key : Cfg → Batch → Str
  /-- `json.dump({"stats": stats, "result": rows})` -/
  encode : Result Rows Stats → Bytes
  /-- `load_cache` then `.get("result", None)`, `.get("stats", None)` -/
  load : Bytes → Option Rows × Option Stats
  /-- `json.load` succeeds and yields a dict (only used by the pre-fix variant, where anything else raises) -/
  readable : Bytes → Bool

/-- The two halves of commit `f8ec0af`, so that the pre-fix code can be written down and shown to fail. -/
structure Variant where
  /-- write `<file>.tmp` then `os.replace` (current) / `open(file, "w")` in place (before) -/
  atomicWrite : Bool
  /-- unreadable or non-dict entry ⇒ `{}` (current) / the exception leaves `rebalance` (before) -/
  tolerantLoad : Bool
deriving DecidableEq, Repr

def Variant.current : Variant := ⟨true, true⟩
def Variant.beforeFix : Variant := ⟨false, false⟩

/-- Where inside `write_cache` the process is killed (or an exception is raised). -/
inductive CrashPoint where
  /-- before `open(tmp, "w")`: nothing on disk (also: killed while the pipeline was running) -/
  | beforeWrite
  /-- `k` bytes of the document have reached the temporary file (`0` = created and empty) -/
  | tmpPrefix (k : Nat)
  /-- the temporary file is complete and closed, `os.replace` has not happened -/
  | tmpComplete
  /-- right after `os.replace` -/
  | afterRename
deriving DecidableEq, Repr

/-- What happens to the batch with a given index. -/
inductive Fate where
  | ok
  /-- `write_cache` raises an ordinary exception at this point (disk full, unserialisable value): caught by
  `except Exception` in `__rebalance_batch`, the run goes on and keeps the computed result -/
  | fail (p : CrashPoint)
  /-- the process dies at this point -/
  | kill (p : CrashPoint)
deriving DecidableEq, Repr

/-- state of the directory when `write_cache(key, data)` is interrupted at `p` (`none` = it returns) -/
def writeEffect (v : Variant) (d : Disk) (file : FileName) (bytes : Bytes) : Option CrashPoint → Disk
  | some .beforeWrite => d
  | some (.tmpPrefix k) => if v.atomicWrite then d.write (tmpName file) (bytes.take k) else d.write file (bytes.take k)
  | some .tmpComplete => if v.atomicWrite then d.write (tmpName file) bytes else d.write file bytes
  | some .afterRename | none =>
    if v.atomicWrite then (d.write (tmpName file) bytes).rename (tmpName file) file else d.write file bytes

section
variable {Cfg Batch Rows Stats : Type}

/-- `__try_cache` (`balancing.py:280-299`): `is_cached` looks the key up in the scan taken at the start of the run,
`load_cache` reads the file **now**. Outer `none` = an exception leaves `rebalance` (pre-fix variant only).
Not cached: `result = None` (and `batch_stats = {}`, which the caller discards) — rendered `(none, none)`. -/
def tryCache (S : Sys Cfg Batch Rows Stats) (v : Variant) (refs : List Str) (d : Disk) (k : Str) :
    Option (Option Rows × Option Stats) :=
  if refs.contains k then
    match d.read (entryName k) with
    | none => if v.tolerantLoad then some (none, none) else none          -- OSError
    | some bytes => if v.tolerantLoad || S.readable bytes then some (S.load bytes) else none
  else some (none, none)

inductive BatchOut (Rows Stats : Type) where
  | killed
  | raised
  /-- `merged` = what `results.extend` / `merge_stats` receive (`none`: `result is None`, nothing is merged);
  `hit` = the pipeline was not invoked -/
  | done (merged : Option (Result Rows Stats)) (hit : Bool)
deriving DecidableEq, Repr

/-- the miss branch of `__rebalance_batch` (`balancing.py:314-326`): `batch_stats = {}`, run the pipeline, cache the
result. `stale` = the `result` member `__try_cache` returned (present only when `stats` was missing).
Quirk mirrored as it is: when the pipeline raises, the local `result` still holds those stale rows, which are then
returned together with the partial statistics. An exception inside `write_cache` is caught by the same `except`:
the computed result is kept. -/
def recompute (S : Sys Cfg Batch Rows Stats) (v : Variant) (cfg : Cfg) (d : Disk) (b : Batch) (fate : Fate)
    (stale : Option Rows) : Disk × BatchOut Rows Stats :=
  match S.pipeline cfg b with
  | none =>
    match fate with
    | .kill _ => (d, .killed)
    | _ => (d, .done (stale.map fun r => ⟨r, S.failStats cfg b⟩) false)
  | some res =>
    let file := entryName (S.key cfg b)
    match fate with
    | .ok => (writeEffect v d file (S.encode res) none, .done (some res) false)
    | .fail p => (writeEffect v d file (S.encode res) (some p), .done (some res) false)
    | .kill p => (writeEffect v d file (S.encode res) (some p), .killed)

/-- `__rebalance_batch` (`balancing.py:312-328`) for one non-empty batch.
A hit needs **both** members (`if result is None or batch_stats is None`) and then supplies rows **and**
statistics; if either is missing the batch is recomputed and the entry rewritten. -/
def processBatch (S : Sys Cfg Batch Rows Stats) (v : Variant) (cfg : Cfg) (refs : List Str) (d : Disk) (b : Batch)
    (fate : Fate) : Disk × BatchOut Rows Stats :=
  match tryCache S v refs d (S.key cfg b) with
  | none => (d, .raised)
  | some (some r, some s) =>
    match fate with
    | .kill _ => (d, .killed)
    | _ => (d, .done (some ⟨r, s⟩) true)
  | some (r?, _) => recompute S v cfg d b fate r?

inductive Outcome (Rows Stats : Type) where
  /-- the process died; nothing was returned -/
  | killed
  /-- an exception left `rebalance` -/
  | raised
  /-- `merged`: the per-batch results that were appended to `results` / merged into `stats`, in order;
  `hits`: for every non-empty batch whether it was served from the cache (ghost, compared with the real code) -/
  | completed (merged : List (Result Rows Stats)) (hits : List Bool)
  /-- not a run (an environment step) -/
  | noRun
deriving DecidableEq, Repr

def Outcome.merged? : Outcome Rows Stats → Option (List (Result Rows Stats))
  | .completed m _ => some m
  | _ => none

def Outcome.hits? : Outcome Rows Stats → Option (List Bool)
  | .completed _ h => some h
  | _ => none

/-- the batch loop of `rebalance` (`balancing.py:342-356`); `i` is the position in the loader's sequence.
`if len(batch) == 0: continue` — the trailing empty batch of `DataLoader` is never looked up, run or cached. -/
def runBatches (S : Sys Cfg Batch Rows Stats) (v : Variant) (cfg : Cfg) (refs : List Str) (fates : Nat → Fate) :
    Nat → Disk → List Batch → Disk × Outcome Rows Stats
  | _, d, [] => (d, .completed [] [])
  | i, d, b :: bs =>
    if S.isEmpty b then runBatches S v cfg refs fates (i + 1) d bs
    else
      match processBatch S v cfg refs d b (fates i) with
      | (d', .killed) => (d', .killed)
      | (d', .raised) => (d', .raised)
      | (d', .done m hit) =>
        match runBatches S v cfg refs fates (i + 1) d' bs with
        | (d'', .completed ms hs) => (d'', .completed (m.toList ++ ms) (hit :: hs))
        | other => other

/-- one `rebalance` call with `cache=True`: scan, then the loop -/
def runCached (S : Sys Cfg Batch Rows Stats) (v : Variant) (d : Disk) (cfg : Cfg) (bs : List Batch) (fates : Nat → Fate) :
    Disk × Outcome Rows Stats :=
  runBatches S v cfg (scan d) fates 0 d bs

/-- the same call with `cache=False`: every non-empty batch goes through the pipeline, a failed batch contributes
nothing -/
def uncached (S : Sys Cfg Batch Rows Stats) (cfg : Cfg) (bs : List Batch) : List (Result Rows Stats) :=
  bs.filterMap fun b => if S.isEmpty b then none else S.pipeline cfg b

/-! ## Histories -/

/-- things that happen to the directory between runs -/
inductive EnvOp where
  /-- a file is cut to its first `k` bytes (what an in-place writer leaves behind; a full disk; `truncate`) -/
  | truncate (f : FileName) (k : Nat)
  /-- somebody puts a file there -/
  | putFile (f : FileName) (c : Bytes)
  /-- … or into a sub-directory -/
  | putNested (f : FileName)
  | delete (f : FileName)
deriving DecidableEq, Repr

inductive Op (Cfg Batch : Type) where
  /-- a `rebalance` call that runs to completion -/
  | run (cfg : Cfg) (bs : List Batch)
  /-- a `rebalance` call killed while it handles batch number `atBatch` (at `point` if that batch writes an entry,
  anywhere otherwise); with `atBatch` past the end: killed after the loop, before returning -/
  | crash (cfg : Cfg) (bs : List Batch) (atBatch : Nat) (point : CrashPoint)
  /-- a `rebalance` call during which `write_cache` of batch `atBatch` raises at `point`; it completes -/
  | ioError (cfg : Cfg) (bs : List Batch) (atBatch : Nat) (point : CrashPoint)
  | env (e : EnvOp)
deriving Repr

def EnvOp.apply (d : Disk) : EnvOp → Disk
  | .truncate f k => match d.read f with
    | none => d
    | some c => d.write f (c.take k)
  | .putFile f c => d.write f c
  | .putNested f => { d with nested := f :: d.nested }
  | .delete f => d.remove f

def fatesOf (at_ : Nat) (f : Fate) : Nat → Fate := fun i => if i = at_ then f else .ok

def step (S : Sys Cfg Batch Rows Stats) (v : Variant) (d : Disk) : Op Cfg Batch → Disk × Outcome Rows Stats
  | .run cfg bs => runCached S v d cfg bs fun _ => .ok
  | .crash cfg bs i p =>
    match runCached S v d cfg bs (fatesOf i (.kill p)) with
    | (d', .raised) => (d', .raised)
    | (d', _) => (d', .killed)
  | .ioError cfg bs i p => runCached S v d cfg bs (fatesOf i (.fail p))
  | .env e => (e.apply d, .noRun)

/-- a history of operations over one cache directory: the final directory and the outcome of every operation -/
def runHistory (S : Sys Cfg Batch Rows Stats) (v : Variant) : Disk → List (Op Cfg Batch) → Disk × List (Outcome Rows Stats)
  | d, [] => (d, [])
  | d, op :: ops =>
    let r := step S v d op
    let rest := runHistory S v r.1 ops
    (rest.1, r.2 :: rest.2)

end
end SynRBL.Cache
