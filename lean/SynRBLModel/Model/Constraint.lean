import SynRBLModel.Py.Str
/-!
# `RuleConstraint`: placeholder rewriting and the ban filter
Source: `synrbl/SynRuleImputer/synthetic_rule_constraint.py` (after the fix that restricts the rewriting to the
compounds added by the imputer).
-/
namespace SynRBL
open Str

/-- an entry handed to `RuleConstraint`: `reactants`, `products`, `entry.get("added_products")` -/
structure Entry where
  reactants : Str
  products : Str
  added : Option Str
  deriving Repr, DecidableEq

/-- `RuleConstraint.split_added_products` -/
def splitAdded (e : Entry) : Str × Str :=
  match e.added with
  | none => ([], e.products)
  | some a =>
    if a.isEmpty || !(endsWith e.products ('.' :: a)) then (e.products, [])
    else (e.products.take (e.products.length - a.length - 1), '.' :: a)

/-- `check_even(part, "products", frag, ".")`: number of `.`-tokens equal to `frag` is even -/
def checkEven (s frag : Str) : Bool := ((splitOn '.' s).count frag) % 2 == 0

/-- `re.sub(r":\d+", "", s)` as a left-to-right scanner; the flag says "inside the digits of a match" -/
def dropColonDigitsGo : Bool → Str → Str
  | _, [] => []
  | inDigits, x :: xs =>
    if inDigits && x.isDigit then dropColonDigitsGo true xs
    else if x = ':' && (match xs with | d :: _ => d.isDigit | [] => false) then dropColonDigitsGo true xs
    else x :: dropColonDigitsGo false xs

/-- `RuleConstraint.remove_atom_mapping`: `re.sub(r":\d+", "", s)` -/
def dropColonDigits (s : Str) : Str := dropColonDigitsGo false s

def noConstraint : List Str := [str "[Na]", str "[K]", str "[Li]", str "[H-]"]

/-- append `count` water tokens the way the code does (`if given or part: += ".O"*n else = "O"*n`) -/
def addWater (given part : Str) (n : Nat) : Str :=
  if !given.isEmpty || !part.isEmpty then part ++ rep (str ".O") n else rep (str "O") n

/-- the hydrogen branch of `reduction_oxidation_rules_modify` on `(reactants, part)` -/
def hBranch (given : Str) (rp : Str × Str) : Str × Str :=
  let (react, part) := rp
  if hasInfix (str ".[H]") part then
    let toks := (splitOn '.' react).map dropColonDigits
    if toks.any (fun t => noConstraint.contains t) then (react, part)
    else if checkEven part (str "[H]") then
      let n := countOcc (str ".[H]") part / 2
      let part' := removeAll (str ".[H]") part
      (react ++ rep (str ".[O]") n, addWater given part' n)
    else (react, part)
  else (react, part)

/-- the oxygen / peroxide branch -/
def oBranch (given : Str) (rp : Str × Str) : Str × Str :=
  let (react, part) := rp
  if hasInfix (str ".[O]") part then
    if checkEven part (str "[O]") then (react, part)
    else
      let n := countOcc (str ".[O]") part
      let part' := removeAll (str ".[O]") part
      (react ++ rep (str ".[H].[H]") n, addWater given part' n)
  else if hasInfix (str ".OO") part then
    let part' := removeAll (str ".OO") part
    (react ++ str ".[H].[H]",
      if !given.isEmpty || !part'.isEmpty then part' ++ str ".O.O" else str "O.O")
  else (react, part)

/-- `reduction_oxidation_rules_modify` for one entry: new `(reactants, products)` -/
def modify (e : Entry) : Str × Str :=
  let (given, added) := splitAdded e
  let (react, part) := oBranch given (hBranch given (e.reactants, added))
  (react, given ++ part)

/-- `remove_banned_reactions`: is the (modified) reaction kept as certain? (no banned spelling in the products; the
components `[H]` behind the first reactant — the appended hydrogen atoms — come in pairs) -/
def certain (ban : List Str) (reactants products : Str) : Bool :=
  !(ban.any fun b => hasInfix b products) &&
    ((splitOn '.' reactants).tail.count (str "[H]")) % 2 == 0

/-- `RuleConstraint(...).fit()` for one entry: `(new_reaction, certain?)` -/
def constraintFit (ban : List Str) (e : Entry) : Str × Bool :=
  let (r, p) := modify e
  (r ++ str ">>" ++ p, certain ban r p)

end SynRBL
