import SynRBLModel.Model.Standardize
/-! Recorded RDKit / fgutils answers for the witnesses of `Properties/C20.lean` (written by
`harness/gen_std_witness.py`, static; `./check C20` compares every entry with the live answers and replays every
witness on the real `MoleculeStandardizer`). An oracle is three association lists keyed by graph. -/
namespace SynRBL.Standardize.Witness

structure Data where
  name : String
  smiles : List String                      -- input of each application (1 or 2)
  input : Graph
  groups : List (Graph × List Group)        -- FGQuery.get per application input
  reparsed : List (Graph × Graph)           -- model's edited graph ↦ MolFromSmiles(MolToSmiles(new_mol))
  orders : List (List Nat)                  -- _smilesAtomOutputOrder of the same steps
  canon : List (Graph × Graph)              -- last graph ↦ MolFromSmiles(Chem.CanonSmiles(smiles))
  canonOrders : List (List Nat)
  deriving Repr

def lookup {β} (t : List (Graph × β)) (g : Graph) (d : β) : β :=
  match t.find? (fun p => p.1 == g) with
  | some p => p.2
  | none => d

def Data.oracle (d : Data) : Oracle :=
  ⟨fun g => lookup d.groups g [], fun _ g => lookup d.reparsed g g, fun g => lookup d.canon g g⟩

/-- the recorded result of the `k`-th application: `MolFromSmiles(f(…))` -/
def Data.result (d : Data) (k : Nat) : Graph := (d.canon.getD k default).2

def enolate : Data where
  name := "enolate"
  smiles := ["C=C[O-]"]
  input := ⟨[⟨"C", 0, 0, false, 2⟩, ⟨"C", 0, 0, false, 1⟩, ⟨"O", (-1), 0, true, 0⟩], [⟨0, 1, 2, false⟩, ⟨1, 2, 1, false⟩]⟩
  groups := [(⟨[⟨"C", 0, 0, false, 2⟩, ⟨"C", 0, 0, false, 1⟩, ⟨"O", (-1), 0, true, 0⟩], [⟨0, 1, 2, false⟩, ⟨1, 2, 1, false⟩]⟩, [("enol", [0, 1, 2])])]
  reparsed := []
  orders := []
  canon := []
  canonOrders := []

def gemEnol : Data where
  name := "gemEnol"
  smiles := ["OC(O)=C"]
  input := ⟨[⟨"O", 0, 0, false, 1⟩, ⟨"C", 0, 0, false, 0⟩, ⟨"O", 0, 0, false, 1⟩, ⟨"C", 0, 0, false, 2⟩], [⟨0, 1, 1, false⟩, ⟨1, 2, 1, false⟩, ⟨1, 3, 2, false⟩]⟩
  groups := [(⟨[⟨"O", 0, 0, false, 1⟩, ⟨"C", 0, 0, false, 0⟩, ⟨"O", 0, 0, false, 1⟩, ⟨"C", 0, 0, false, 2⟩], [⟨0, 1, 1, false⟩, ⟨1, 2, 1, false⟩, ⟨1, 3, 2, false⟩]⟩, [("enol", [0, 1, 3]), ("enol", [1, 2, 3])])]
  reparsed := [(⟨[⟨"O", 0, 0, false, 1⟩, ⟨"C", 0, 0, false, 0⟩, ⟨"O", 0, 0, false, 1⟩, ⟨"C", 0, 0, false, 2⟩], [⟨1, 2, 1, false⟩, ⟨3, 1, 1, false⟩, ⟨1, 0, 2, false⟩]⟩,
     ⟨[⟨"C", 0, 0, false, 3⟩, ⟨"C", 0, 0, false, 0⟩, ⟨"O", 0, 0, false, 0⟩, ⟨"O", 0, 0, false, 1⟩], [⟨0, 1, 1, false⟩, ⟨1, 2, 2, false⟩, ⟨1, 3, 1, false⟩]⟩)]
  orders := [[3, 1, 0, 2]]
  canon := []
  canonOrders := []

def orthoAcid : Data where
  name := "orthoAcid"
  smiles := ["OC(O)(O)O"]
  input := ⟨[⟨"O", 0, 0, false, 1⟩, ⟨"C", 0, 0, false, 0⟩, ⟨"O", 0, 0, false, 1⟩, ⟨"O", 0, 0, false, 1⟩, ⟨"O", 0, 0, false, 1⟩], [⟨0, 1, 1, false⟩, ⟨1, 2, 1, false⟩, ⟨1, 3, 1, false⟩, ⟨1, 4, 1, false⟩]⟩
  groups := [(⟨[⟨"O", 0, 0, false, 1⟩, ⟨"C", 0, 0, false, 0⟩, ⟨"O", 0, 0, false, 1⟩, ⟨"O", 0, 0, false, 1⟩, ⟨"O", 0, 0, false, 1⟩], [⟨0, 1, 1, false⟩, ⟨1, 2, 1, false⟩, ⟨1, 3, 1, false⟩, ⟨1, 4, 1, false⟩]⟩, [("hemiketal", [0, 1, 3]), ("hemiketal", [1, 2, 3]), ("hemiketal", [1, 2, 4])])]
  reparsed := [(⟨[⟨"O", 0, 0, false, 1⟩, ⟨"C", 0, 0, false, 0⟩, ⟨"O", 0, 0, false, 1⟩, ⟨"O", 0, 2, false, 1⟩, ⟨"O", 0, 0, false, 1⟩], [⟨1, 2, 1, false⟩, ⟨1, 4, 1, false⟩, ⟨1, 0, 2, false⟩]⟩,
     ⟨[⟨"O", 0, 0, false, 2⟩, ⟨"O", 0, 0, false, 0⟩, ⟨"C", 0, 0, false, 0⟩, ⟨"O", 0, 0, false, 1⟩, ⟨"O", 0, 0, false, 1⟩], [⟨1, 2, 2, false⟩, ⟨2, 3, 1, false⟩, ⟨2, 4, 1, false⟩]⟩),
    (⟨[⟨"O", 0, 0, false, 2⟩, ⟨"O", 0, 0, false, 0⟩, ⟨"C", 0, 0, false, 0⟩, ⟨"O", 0, 2, false, 1⟩, ⟨"O", 0, 0, false, 1⟩], [⟨2, 4, 1, false⟩, ⟨2, 1, 2, false⟩]⟩,
     ⟨[⟨"O", 0, 0, false, 2⟩, ⟨"O", 0, 0, false, 2⟩, ⟨"O", 0, 0, false, 0⟩, ⟨"C", 0, 0, false, 1⟩, ⟨"O", 0, 0, false, 1⟩], [⟨2, 3, 2, false⟩, ⟨3, 4, 1, false⟩]⟩)]
  orders := [[3, 0, 1, 2, 4], [0, 3, 1, 2, 4]]
  canon := []
  canonOrders := []

def alkoxyHemiketal : Data where
  name := "alkoxyHemiketal"
  smiles := ["CC(O)(OC)C"]
  input := ⟨[⟨"C", 0, 0, false, 3⟩, ⟨"C", 0, 0, false, 0⟩, ⟨"O", 0, 0, false, 1⟩, ⟨"O", 0, 0, false, 0⟩, ⟨"C", 0, 0, false, 3⟩, ⟨"C", 0, 0, false, 3⟩], [⟨0, 1, 1, false⟩, ⟨1, 2, 1, false⟩, ⟨1, 3, 1, false⟩, ⟨3, 4, 1, false⟩, ⟨1, 5, 1, false⟩]⟩
  groups := [(⟨[⟨"C", 0, 0, false, 3⟩, ⟨"C", 0, 0, false, 0⟩, ⟨"O", 0, 0, false, 1⟩, ⟨"O", 0, 0, false, 0⟩, ⟨"C", 0, 0, false, 3⟩, ⟨"C", 0, 0, false, 3⟩], [⟨0, 1, 1, false⟩, ⟨1, 2, 1, false⟩, ⟨1, 3, 1, false⟩, ⟨3, 4, 1, false⟩, ⟨1, 5, 1, false⟩]⟩, [("hemiketal", [1, 2, 3])])]
  reparsed := []
  orders := []
  canon := []
  canonOrders := []

def alkoxyFirst : Data where
  name := "alkoxyFirst"
  smiles := ["CC(OC)(O)C"]
  input := ⟨[⟨"C", 0, 0, false, 3⟩, ⟨"C", 0, 0, false, 0⟩, ⟨"O", 0, 0, false, 0⟩, ⟨"C", 0, 0, false, 3⟩, ⟨"O", 0, 0, false, 1⟩, ⟨"C", 0, 0, false, 3⟩], [⟨0, 1, 1, false⟩, ⟨1, 2, 1, false⟩, ⟨2, 3, 1, false⟩, ⟨1, 4, 1, false⟩, ⟨1, 5, 1, false⟩]⟩
  groups := [(⟨[⟨"C", 0, 0, false, 3⟩, ⟨"C", 0, 0, false, 0⟩, ⟨"O", 0, 0, false, 0⟩, ⟨"C", 0, 0, false, 3⟩, ⟨"O", 0, 0, false, 1⟩, ⟨"C", 0, 0, false, 3⟩], [⟨0, 1, 1, false⟩, ⟨1, 2, 1, false⟩, ⟨2, 3, 1, false⟩, ⟨1, 4, 1, false⟩, ⟨1, 5, 1, false⟩]⟩, [("hemiketal", [1, 2, 4])])]
  reparsed := []
  orders := []
  canon := []
  canonOrders := []

def heuristic : Data where
  name := "heuristic"
  smiles := ["C(=C)O"]
  input := ⟨[⟨"C", 0, 0, false, 1⟩, ⟨"C", 0, 0, false, 2⟩, ⟨"O", 0, 0, false, 1⟩], [⟨0, 1, 2, false⟩, ⟨0, 2, 1, false⟩]⟩
  groups := [(⟨[⟨"C", 0, 0, false, 1⟩, ⟨"C", 0, 0, false, 2⟩, ⟨"O", 0, 0, false, 1⟩], [⟨0, 1, 2, false⟩, ⟨0, 2, 1, false⟩]⟩, [("enol", [0, 1, 2])])]
  reparsed := []
  orders := []
  canon := []
  canonOrders := []

def enediol : Data where
  name := "enediol"
  smiles := ["OC=CO"]
  input := ⟨[⟨"O", 0, 0, false, 1⟩, ⟨"C", 0, 0, false, 1⟩, ⟨"C", 0, 0, false, 1⟩, ⟨"O", 0, 0, false, 1⟩], [⟨0, 1, 1, false⟩, ⟨1, 2, 2, false⟩, ⟨2, 3, 1, false⟩]⟩
  groups := [(⟨[⟨"O", 0, 0, false, 1⟩, ⟨"C", 0, 0, false, 1⟩, ⟨"C", 0, 0, false, 1⟩, ⟨"O", 0, 0, false, 1⟩], [⟨0, 1, 1, false⟩, ⟨1, 2, 2, false⟩, ⟨2, 3, 1, false⟩]⟩, [("enol", [0, 1, 2]), ("enol", [1, 2, 3])])]
  reparsed := [(⟨[⟨"O", 0, 0, false, 1⟩, ⟨"C", 0, 0, false, 1⟩, ⟨"C", 0, 0, false, 1⟩, ⟨"O", 0, 0, false, 1⟩], [⟨2, 3, 1, false⟩, ⟨2, 1, 1, false⟩, ⟨1, 0, 2, false⟩]⟩,
     ⟨[⟨"O", 0, 0, false, 0⟩, ⟨"C", 0, 0, false, 1⟩, ⟨"C", 0, 0, false, 2⟩, ⟨"O", 0, 0, false, 1⟩], [⟨0, 1, 2, false⟩, ⟨1, 2, 1, false⟩, ⟨2, 3, 1, false⟩]⟩),
    (⟨[⟨"O", 0, 0, false, 0⟩, ⟨"C", 0, 0, false, 1⟩, ⟨"C", 0, 0, false, 2⟩, ⟨"O", 0, 0, false, 1⟩], [⟨0, 1, 2, false⟩, ⟨1, 2, 1, false⟩, ⟨2, 3, 2, false⟩]⟩,
     ⟨[⟨"O", 0, 0, false, 0⟩, ⟨"C", 0, 0, false, 1⟩, ⟨"C", 0, 0, false, 1⟩, ⟨"O", 0, 0, false, 0⟩], [⟨0, 1, 2, false⟩, ⟨1, 2, 1, false⟩, ⟨2, 3, 2, false⟩]⟩)]
  orders := [[0, 1, 2, 3], [0, 1, 2, 3]]
  canon := [(⟨[⟨"O", 0, 0, false, 0⟩, ⟨"C", 0, 0, false, 1⟩, ⟨"C", 0, 0, false, 1⟩, ⟨"O", 0, 0, false, 0⟩], [⟨0, 1, 2, false⟩, ⟨1, 2, 1, false⟩, ⟨2, 3, 2, false⟩]⟩,
     ⟨[⟨"O", 0, 0, false, 0⟩, ⟨"C", 0, 0, false, 1⟩, ⟨"C", 0, 0, false, 1⟩, ⟨"O", 0, 0, false, 0⟩], [⟨0, 1, 2, false⟩, ⟨1, 2, 1, false⟩, ⟨2, 3, 2, false⟩]⟩)]
  canonOrders := [[0, 1, 2, 3]]

def twoEnols : Data where
  name := "twoEnols"
  smiles := ["C=CO.C=CO", "C=CO.CC=O"]
  input := ⟨[⟨"C", 0, 0, false, 2⟩, ⟨"C", 0, 0, false, 1⟩, ⟨"O", 0, 0, false, 1⟩, ⟨"C", 0, 0, false, 2⟩, ⟨"C", 0, 0, false, 1⟩, ⟨"O", 0, 0, false, 1⟩], [⟨0, 1, 2, false⟩, ⟨1, 2, 1, false⟩, ⟨3, 4, 2, false⟩, ⟨4, 5, 1, false⟩]⟩
  groups := [(⟨[⟨"C", 0, 0, false, 2⟩, ⟨"C", 0, 0, false, 1⟩, ⟨"O", 0, 0, false, 1⟩, ⟨"C", 0, 0, false, 2⟩, ⟨"C", 0, 0, false, 1⟩, ⟨"O", 0, 0, false, 1⟩], [⟨0, 1, 2, false⟩, ⟨1, 2, 1, false⟩, ⟨3, 4, 2, false⟩, ⟨4, 5, 1, false⟩]⟩, [("enol", [0, 1, 2]), ("enol", [3, 4, 5])]),
    (⟨[⟨"C", 0, 0, false, 2⟩, ⟨"C", 0, 0, false, 1⟩, ⟨"O", 0, 0, false, 1⟩, ⟨"C", 0, 0, false, 3⟩, ⟨"C", 0, 0, false, 1⟩, ⟨"O", 0, 0, false, 0⟩], [⟨0, 1, 2, false⟩, ⟨1, 2, 1, false⟩, ⟨3, 4, 1, false⟩, ⟨4, 5, 2, false⟩]⟩, [("enol", [0, 1, 2]), ("aldehyde", [4, 5])])]
  reparsed := [(⟨[⟨"C", 0, 0, false, 2⟩, ⟨"C", 0, 0, false, 1⟩, ⟨"O", 0, 0, false, 1⟩, ⟨"C", 0, 0, false, 2⟩, ⟨"C", 0, 0, false, 1⟩, ⟨"O", 0, 0, false, 1⟩], [⟨3, 4, 2, false⟩, ⟨4, 5, 1, false⟩, ⟨0, 1, 1, false⟩, ⟨1, 2, 2, false⟩]⟩,
     ⟨[⟨"C", 0, 0, false, 2⟩, ⟨"C", 0, 0, false, 1⟩, ⟨"O", 0, 0, false, 1⟩, ⟨"C", 0, 0, false, 3⟩, ⟨"C", 0, 0, false, 1⟩, ⟨"O", 0, 0, false, 0⟩], [⟨0, 1, 2, false⟩, ⟨1, 2, 1, false⟩, ⟨3, 4, 1, false⟩, ⟨4, 5, 2, false⟩]⟩),
    (⟨[⟨"C", 0, 0, false, 2⟩, ⟨"C", 0, 0, false, 1⟩, ⟨"O", 0, 0, false, 1⟩, ⟨"C", 0, 0, false, 3⟩, ⟨"C", 0, 0, false, 1⟩, ⟨"O", 0, 0, false, 0⟩], [⟨0, 1, 2, false⟩, ⟨1, 2, 1, false⟩, ⟨3, 4, 1, false⟩, ⟨4, 5, 2, false⟩]⟩,
     ⟨[⟨"C", 0, 0, false, 2⟩, ⟨"C", 0, 0, false, 1⟩, ⟨"O", 0, 0, false, 1⟩, ⟨"C", 0, 0, false, 3⟩, ⟨"C", 0, 0, false, 1⟩, ⟨"O", 0, 0, false, 0⟩], [⟨0, 1, 2, false⟩, ⟨1, 2, 1, false⟩, ⟨3, 4, 1, false⟩, ⟨4, 5, 2, false⟩]⟩),
    (⟨[⟨"C", 0, 0, false, 2⟩, ⟨"C", 0, 0, false, 1⟩, ⟨"O", 0, 0, false, 1⟩, ⟨"C", 0, 0, false, 3⟩, ⟨"C", 0, 0, false, 1⟩, ⟨"O", 0, 0, false, 0⟩], [⟨3, 4, 1, false⟩, ⟨4, 5, 2, false⟩, ⟨0, 1, 1, false⟩, ⟨1, 2, 2, false⟩]⟩,
     ⟨[⟨"C", 0, 0, false, 3⟩, ⟨"C", 0, 0, false, 1⟩, ⟨"O", 0, 0, false, 0⟩, ⟨"C", 0, 0, false, 3⟩, ⟨"C", 0, 0, false, 1⟩, ⟨"O", 0, 0, false, 0⟩], [⟨0, 1, 1, false⟩, ⟨1, 2, 2, false⟩, ⟨3, 4, 1, false⟩, ⟨4, 5, 2, false⟩]⟩)]
  orders := [[3, 4, 5, 0, 1, 2], [0, 1, 2, 3, 4, 5], [0, 1, 2, 3, 4, 5]]
  canon := [(⟨[⟨"C", 0, 0, false, 2⟩, ⟨"C", 0, 0, false, 1⟩, ⟨"O", 0, 0, false, 1⟩, ⟨"C", 0, 0, false, 3⟩, ⟨"C", 0, 0, false, 1⟩, ⟨"O", 0, 0, false, 0⟩], [⟨0, 1, 2, false⟩, ⟨1, 2, 1, false⟩, ⟨3, 4, 1, false⟩, ⟨4, 5, 2, false⟩]⟩,
     ⟨[⟨"C", 0, 0, false, 2⟩, ⟨"C", 0, 0, false, 1⟩, ⟨"O", 0, 0, false, 1⟩, ⟨"C", 0, 0, false, 3⟩, ⟨"C", 0, 0, false, 1⟩, ⟨"O", 0, 0, false, 0⟩], [⟨0, 1, 2, false⟩, ⟨1, 2, 1, false⟩, ⟨3, 4, 1, false⟩, ⟨4, 5, 2, false⟩]⟩),
    (⟨[⟨"C", 0, 0, false, 3⟩, ⟨"C", 0, 0, false, 1⟩, ⟨"O", 0, 0, false, 0⟩, ⟨"C", 0, 0, false, 3⟩, ⟨"C", 0, 0, false, 1⟩, ⟨"O", 0, 0, false, 0⟩], [⟨0, 1, 1, false⟩, ⟨1, 2, 2, false⟩, ⟨3, 4, 1, false⟩, ⟨4, 5, 2, false⟩]⟩,
     ⟨[⟨"C", 0, 0, false, 3⟩, ⟨"C", 0, 0, false, 1⟩, ⟨"O", 0, 0, false, 0⟩, ⟨"C", 0, 0, false, 3⟩, ⟨"C", 0, 0, false, 1⟩, ⟨"O", 0, 0, false, 0⟩], [⟨0, 1, 1, false⟩, ⟨1, 2, 2, false⟩, ⟨3, 4, 1, false⟩, ⟨4, 5, 2, false⟩]⟩)]
  canonOrders := [[0, 1, 2, 3, 4, 5], [0, 1, 2, 3, 4, 5]]

def gemDiol : Data where
  name := "gemDiol"
  smiles := ["CC(O)(O)C", "CC(C)=O.O"]
  input := ⟨[⟨"C", 0, 0, false, 3⟩, ⟨"C", 0, 0, false, 0⟩, ⟨"O", 0, 0, false, 1⟩, ⟨"O", 0, 0, false, 1⟩, ⟨"C", 0, 0, false, 3⟩], [⟨0, 1, 1, false⟩, ⟨1, 2, 1, false⟩, ⟨1, 3, 1, false⟩, ⟨1, 4, 1, false⟩]⟩
  groups := [(⟨[⟨"C", 0, 0, false, 3⟩, ⟨"C", 0, 0, false, 0⟩, ⟨"O", 0, 0, false, 1⟩, ⟨"O", 0, 0, false, 1⟩, ⟨"C", 0, 0, false, 3⟩], [⟨0, 1, 1, false⟩, ⟨1, 2, 1, false⟩, ⟨1, 3, 1, false⟩, ⟨1, 4, 1, false⟩]⟩, [("hemiketal", [1, 2, 3])]),
    (⟨[⟨"C", 0, 0, false, 3⟩, ⟨"C", 0, 0, false, 0⟩, ⟨"C", 0, 0, false, 3⟩, ⟨"O", 0, 0, false, 0⟩, ⟨"O", 0, 0, false, 2⟩], [⟨0, 1, 1, false⟩, ⟨1, 2, 1, false⟩, ⟨1, 3, 2, false⟩]⟩, [("ketone", [1, 3]), ("ether", [4])])]
  reparsed := [(⟨[⟨"C", 0, 0, false, 3⟩, ⟨"C", 0, 0, false, 0⟩, ⟨"O", 0, 0, false, 1⟩, ⟨"O", 0, 2, false, 1⟩, ⟨"C", 0, 0, false, 3⟩], [⟨0, 1, 1, false⟩, ⟨1, 4, 1, false⟩, ⟨1, 2, 2, false⟩]⟩,
     ⟨[⟨"C", 0, 0, false, 3⟩, ⟨"C", 0, 0, false, 0⟩, ⟨"C", 0, 0, false, 3⟩, ⟨"O", 0, 0, false, 0⟩, ⟨"O", 0, 0, false, 2⟩], [⟨0, 1, 1, false⟩, ⟨1, 2, 1, false⟩, ⟨1, 3, 2, false⟩]⟩)]
  orders := [[0, 1, 4, 2, 3]]
  canon := [(⟨[⟨"C", 0, 0, false, 3⟩, ⟨"C", 0, 0, false, 0⟩, ⟨"C", 0, 0, false, 3⟩, ⟨"O", 0, 0, false, 0⟩, ⟨"O", 0, 0, false, 2⟩], [⟨0, 1, 1, false⟩, ⟨1, 2, 1, false⟩, ⟨1, 3, 2, false⟩]⟩,
     ⟨[⟨"C", 0, 0, false, 3⟩, ⟨"C", 0, 0, false, 0⟩, ⟨"C", 0, 0, false, 3⟩, ⟨"O", 0, 0, false, 0⟩, ⟨"O", 0, 0, false, 2⟩], [⟨0, 1, 1, false⟩, ⟨1, 2, 1, false⟩, ⟨1, 3, 2, false⟩]⟩),
    (⟨[⟨"C", 0, 0, false, 3⟩, ⟨"C", 0, 0, false, 0⟩, ⟨"C", 0, 0, false, 3⟩, ⟨"O", 0, 0, false, 0⟩, ⟨"O", 0, 0, false, 2⟩], [⟨0, 1, 1, false⟩, ⟨1, 2, 1, false⟩, ⟨1, 3, 2, false⟩]⟩,
     ⟨[⟨"C", 0, 0, false, 3⟩, ⟨"C", 0, 0, false, 0⟩, ⟨"C", 0, 0, false, 3⟩, ⟨"O", 0, 0, false, 0⟩, ⟨"O", 0, 0, false, 2⟩], [⟨0, 1, 1, false⟩, ⟨1, 2, 1, false⟩, ⟨1, 3, 2, false⟩]⟩)]
  canonOrders := [[0, 1, 2, 3, 4], [0, 1, 2, 3, 4]]

def enol : Data where
  name := "enol"
  smiles := ["C=CO", "CC=O"]
  input := ⟨[⟨"C", 0, 0, false, 2⟩, ⟨"C", 0, 0, false, 1⟩, ⟨"O", 0, 0, false, 1⟩], [⟨0, 1, 2, false⟩, ⟨1, 2, 1, false⟩]⟩
  groups := [(⟨[⟨"C", 0, 0, false, 2⟩, ⟨"C", 0, 0, false, 1⟩, ⟨"O", 0, 0, false, 1⟩], [⟨0, 1, 2, false⟩, ⟨1, 2, 1, false⟩]⟩, [("enol", [0, 1, 2])]),
    (⟨[⟨"C", 0, 0, false, 3⟩, ⟨"C", 0, 0, false, 1⟩, ⟨"O", 0, 0, false, 0⟩], [⟨0, 1, 1, false⟩, ⟨1, 2, 2, false⟩]⟩, [("aldehyde", [1, 2])])]
  reparsed := [(⟨[⟨"C", 0, 0, false, 2⟩, ⟨"C", 0, 0, false, 1⟩, ⟨"O", 0, 0, false, 1⟩], [⟨0, 1, 1, false⟩, ⟨1, 2, 2, false⟩]⟩,
     ⟨[⟨"C", 0, 0, false, 3⟩, ⟨"C", 0, 0, false, 1⟩, ⟨"O", 0, 0, false, 0⟩], [⟨0, 1, 1, false⟩, ⟨1, 2, 2, false⟩]⟩)]
  orders := [[0, 1, 2]]
  canon := [(⟨[⟨"C", 0, 0, false, 3⟩, ⟨"C", 0, 0, false, 1⟩, ⟨"O", 0, 0, false, 0⟩], [⟨0, 1, 1, false⟩, ⟨1, 2, 2, false⟩]⟩,
     ⟨[⟨"C", 0, 0, false, 3⟩, ⟨"C", 0, 0, false, 1⟩, ⟨"O", 0, 0, false, 0⟩], [⟨0, 1, 1, false⟩, ⟨1, 2, 2, false⟩]⟩),
    (⟨[⟨"C", 0, 0, false, 3⟩, ⟨"C", 0, 0, false, 1⟩, ⟨"O", 0, 0, false, 0⟩], [⟨0, 1, 1, false⟩, ⟨1, 2, 2, false⟩]⟩,
     ⟨[⟨"C", 0, 0, false, 3⟩, ⟨"C", 0, 0, false, 1⟩, ⟨"O", 0, 0, false, 0⟩], [⟨0, 1, 1, false⟩, ⟨1, 2, 2, false⟩]⟩)]
  canonOrders := [[0, 1, 2], [0, 1, 2]]

def all : List Data := [enolate, gemEnol, orthoAcid, alkoxyHemiketal, alkoxyFirst, heuristic, enediol, twoEnols, gemDiol, enol]

end SynRBL.Standardize.Witness
