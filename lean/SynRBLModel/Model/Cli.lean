/-!
# The command-line run: pass-through columns
Source: `synrbl/SynCmd/cmd_run.py:112-126` (`impute`): the rows read from the CSV go through `Balancer.rebalance`, then

    for in_r, out_r in zip(input_reactions, rbl_reactions):
        for c in passthrough_cols:
            out_r[c] = in_r[c]

A CSV record is an ordered list of (column, value) pairs; `zip` stops at the shorter list.
-/
namespace SynRBL.Cli

abbrev Rec := List (String × String)

def getCol : Rec → String → Option String
  | [], _ => none
  | (k, v) :: t, c => if k = c then some v else getCol t c

/-- `r[c] = v` on a Python dict -/
def setCol : Rec → String → String → Rec
  | [], c, v => [(c, v)]
  | (k, w) :: t, c, v => if k = c then (k, v) :: t else (k, w) :: setCol t c v

/-- `out_r[c] = in_r[c]` for every pass-through column (`check_columns` has made sure the columns exist; a missing value
is left alone here) -/
def passRow (cols : List String) (inR outR : Rec) : Rec :=
  cols.foldl (fun o c => match getCol inR c with | some v => setCol o c v | none => o) outR

/-- the rows written to the output CSV -/
def passThrough (cols : List String) (ins outs : List Rec) : List Rec :=
  List.zipWith (passRow cols) ins outs

end SynRBL.Cli
