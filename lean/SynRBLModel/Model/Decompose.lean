import SynRBLModel.Py.Dict
/-!
# `RSMIDecomposer.decompose` and carbon counting
Source: `synrbl/SynProcessor/rsmi_decomposer.py:219-251`, `check_carbon_balance.py:57-112`.

RDKit (parsing, `AddHs`) is an oracle: the model receives the atom list of the hydrogen-completed molecule,
each atom as `(Z, RDKit symbol, formal charge)`.
-/
namespace SynRBL

structure Atom where
  z : Nat
  sym : String
  charge : Int
  deriving DecidableEq, Repr, Inhabited

/-- the symbol table of the decomposer: the association list and what `.get(Z, …)` falls back to
(`none` = the atom's own RDKit symbol, `some c` = the constant `c`) -/
structure SymTable where
  entries : List (Nat × String)
  fallback : Option String

/-- `RSMIDecomposer.atomic_symbols.get(Z, <fallback>)` -/
def symbolOf (table : SymTable) (a : Atom) : String :=
  match table.entries.lookup a.z with
  | some s => s
  | none => table.fallback.getD a.sym

/-- the counting loop: `comp[symbol] += 1` on a `defaultdict(int)` -/
def countAtoms (table : SymTable) (atoms : List Atom) : Dict :=
  atoms.foldl (fun d a => d.incr (symbolOf table a) 1) []

def totalCharge (atoms : List Atom) : Int := (atoms.map (·.charge)).sum

/-- `decompose` on a parsable SMILES whose hydrogen-completed atom list is `atoms`
(`comp["Q"] = charge` is an assignment and only happens for a non-zero charge) -/
def decompose (table : SymTable) (atoms : List Atom) : Dict :=
  let d := countAtoms table atoms
  if totalCharge atoms ≠ 0 then d.set "Q" (totalCharge atoms) else d

inductive CLabel | balanced | products | reactants | error
  deriving DecidableEq, Repr, Inhabited

def CLabel.toString : CLabel → String
  | .balanced => "balanced" | .products => "products" | .reactants => "reactants" | .error => "error"

/-- `CheckCarbonBalance.process_reaction` given the two carbon counts -/
def carbonLabel (rc pc : Nat) : CLabel :=
  if rc = pc then .balanced else if rc > pc then .products else .reactants

end SynRBL
