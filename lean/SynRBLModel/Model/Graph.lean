/-!
# Molecular graphs as data (C09)

What `synrbl/SynMCSImputer/utils.py:merge_two_mols` and `rules.py:MergeRule.apply` do to an RDKit molecule, on the
part of the molecule that the property observes: the atom list (symbol, formal charge, explicit-H count, the
`NoImplicit` flag, aromatic flag) in RDKit's atom order and the bond list `(begin, end, int(GetBondType()))` in RDKit's
bond order.  Stereo marks, isotopes and atom-map numbers are not represented (the property does not claim them).
No Mathlib; everything here is executable (the driver runs it).
-/
namespace SynRBL.Mol

/-- one RDKit atom: `GetSymbol()`, `GetFormalCharge()`, `GetNumExplicitHs()`, `GetNoImplicit()`, `GetIsAromatic()` -/
structure Atom where
  sym : String
  charge : Int := 0
  explicitH : Nat := 0
  noImplicit : Bool := false
  aromatic : Bool := false
  deriving DecidableEq, Repr, Inhabited

/-- one RDKit bond: `GetBeginAtomIdx()`, `GetEndAtomIdx()`, `int(GetBondType())` (1, 2, 3, 12 = aromatic) -/
structure Bond where
  a : Nat
  b : Nat
  order : Nat
  deriving DecidableEq, Repr, Inhabited

structure Graph where
  atoms : List Atom
  bonds : List Bond
  deriving DecidableEq, Repr, Inhabited

namespace Graph

/-- `len(mol.GetAtoms())` -/
def n (g : Graph) : Nat := g.atoms.length

def empty : Graph := ⟨[], []⟩

/-- every bond joins two atoms of the graph -/
def wf (g : Graph) : Bool := g.bonds.all fun e => decide (e.a < g.n) && decide (e.b < g.n)

end Graph

/-- a bond of the second molecule after `CombineMols`: both ends moved by the size of the first molecule -/
def shiftBond (k : Nat) (e : Bond) : Bond := ⟨e.a + k, e.b + k, e.order⟩

/-- `rdmolops.CombineMols(mol1, mol2)` (utils.py:135): atoms of `mol1` then atoms of `mol2`, bonds of `mol1` then the
bonds of `mol2` with both ends offset by `len(mol1.GetAtoms())` -/
def combine (a b : Graph) : Graph := ⟨a.atoms ++ b.atoms, a.bonds ++ b.bonds.map (shiftBond a.n)⟩

/-- `_fix_Hs` (rules.py:736-740): only an atom that *has* explicit hydrogens loses `bond_nr` of them, never below 0
(`int(np.max([0, h - bond_nr]))` is truncated subtraction) -/
def fixH (nr : Nat) (x : Atom) : Atom :=
  if x.explicitH > 0 then { x with explicitH := x.explicitH - nr } else x

/-- apply `f` to atom `i` (no effect when `i` is out of range) -/
def Graph.modifyAtom (g : Graph) (i : Nat) (f : Atom → Atom) : Graph := { g with atoms := g.atoms.modify i f }

/-- `mol.AddBond(i, j, order)`: the new bond is the last one -/
def Graph.addBond (g : Graph) (i j order : Nat) : Graph := { g with bonds := g.bonds ++ [⟨i, j, order⟩] }

/-- `utils.merge_two_mols(mol1, mol2, idx1, idx2, bond_type)` (utils.py:112-151): `CombineMols`, offset
`mol2_offset = len(mol1.GetAtoms())`, and — unless `bond_type is None` — one new bond `(idx1, mol2_offset + idx2)`.
(`mol.GetAtoms()[idx]` raises for an index out of range; callers of the model check the range.) -/
def mergeTwoMols (a b : Graph) (i j : Nat) (order : Option Nat) : Graph :=
  match order with
  | none => combine a b
  | some o => (combine a b).addBond i (a.n + j) o

/-- the part of `MergeRule.apply` after the actions (rules.py:753-766): `parse_bond_type`, `_fix_Hs` on both boundary
atoms when the rule has a bond, then `merge_two_mols`.  `order = some 1` is `"single"` (`bond_nr = 1`), `some 2` is
`"double"`, `none` is a rule without `bond` (the restriction rules): nothing is bonded and no hydrogen is touched. -/
def mergeTwo (a b : Graph) (i j : Nat) (order : Option Nat) : Graph :=
  match order with
  | none => mergeTwoMols a b i j none
  | some o => mergeTwoMols (a.modifyAtom i (fixH o)) (b.modifyAtom j (fixH o)) i j (some o)

/-- number of atoms whose symbol satisfies `p` (`p = (· == "C")`: carbon count; `p = (· != "H")`: heavy atoms) -/
def cntP (p : String → Bool) (g : Graph) : Nat := g.atoms.countP fun x => p x.sym

def carbons (g : Graph) : Nat := cntP (· == "C") g
def heavy (g : Graph) : Nat := cntP (· != "H") g

/-- `ChangeBondAction.apply` (rules.py:214-217) once the two atoms are known: `RemoveBond(x, y)` then
`AddBond(x, y, bond_type)` — the re-typed bond becomes the last bond -/
def changeBond (g : Graph) (x y order : Nat) : Graph :=
  { g with bonds := g.bonds.filter (fun e => !((e.a == x && e.b == y) || (e.a == y && e.b == x))) ++ [⟨x, y, order⟩] }

/-- `ChangeChargeAction.apply` (rules.py:231-233) -/
def setCharge (g : Graph) (i : Nat) (q : Int) : Graph := g.modifyAtom i fun x => { x with charge := q }

/-! ### connected components (`Compound.num_compounds` = number of `.`-separated parts of the SMILES) -/

/-- one sweep of label propagation: both ends of every bond get the smaller of their two labels -/
def relabel (bonds : List Bond) (lab : List Nat) : List Nat :=
  bonds.foldl (fun lab e =>
    let m := min (lab.getD e.a 0) (lab.getD e.b 0)
    (lab.set e.a m).set e.b m) lab

def relabelN (bonds : List Bond) : Nat → List Nat → List Nat
  | 0, lab => lab
  | k + 1, lab => relabelN bonds k (relabel bonds lab)

/-- number of connected components (atoms that keep their own index as label after `n` sweeps) -/
def components (g : Graph) : Nat :=
  let lab := relabelN g.bonds g.n (List.range g.n)
  ((List.range g.n).filter fun i => lab.getD i 0 == i).length

/-! ### cutting (the inverse bookkeeping of `mergeTwo`, used by the round-trip theorems)

`FindMissingGraphs.find_missing_parts_pairs` removes the atoms of the other side, writes the rest as SMILES, re-parses
and lets `MoleculeCurator.add_hydrogens_to_radicals` cap the open valence.  On the data the model carries the cap is
either *implicit* (the cut atom is written without brackets in the fragment SMILES: nothing changes) or *explicit* (the
atom needs brackets — `[nH]`, `[SiH]`, `[C@H]`, `[MgH+]` …: one more explicit hydrogen).  Which of the two happens is
RDKit's SMILES writer's decision and a parameter here.  (The atom order of a re-parsed fragment is RDKit's business too;
the theorems are stated for the order in which the fragments are handed to `mergeTwo`.) -/

/-- hydrogen cap of an atom that lost one single bond; `explicit` = the cap is an explicit hydrogen -/
def capH (explicit : Bool) (x : Atom) : Atom := if explicit then { x with explicitH := x.explicitH + 1 } else x

/-- fragment `a` with its cut atom `i` capped -/
def cutSide (a : Graph) (i : Nat) (explicit : Bool) : Graph := a.modifyAtom i (capH explicit)

/-- the molecule in *glued normal form*: atoms of side `a`, then atoms of side `b`, bonds of `a`, bonds of `b`
(offset), and the joining bond last.  Every molecule with a bridge bond can be renumbered into this form. -/
def glue (a b : Graph) (i j order : Nat) : Graph := (combine a b).addBond i (a.n + j) order

/-- inverse of `shiftBond` -/
def unshiftBond (k : Nat) (e : Bond) : Bond := ⟨e.a - k, e.b - k, e.order⟩

/-- cut a molecule in glued normal form (first `k` atoms = first side, last bond = the bridge) into its two capped
fragments, as pairs (fragment, boundary atom index); `ea`, `eb`: whether the two caps are explicit -/
def cutGlued (g : Graph) (k : Nat) (ea eb : Bool) : Option ((Graph × Nat) × (Graph × Nat)) :=
  match g.bonds.getLast? with
  | none => none
  | some br =>
    let rest := g.bonds.dropLast
    let a : Graph := ⟨g.atoms.take k, rest.filter fun e => decide (e.a < k)⟩
    let b : Graph := ⟨g.atoms.drop k, (rest.filter fun e => !decide (e.a < k)).map (unshiftBond k)⟩
    some ((cutSide a br.a ea, br.a), (cutSide b (br.b - k) eb, br.b - k))

/-- what a merge can be expected to restore exactly: everything but the hydrogen bookkeeping -/
def Atom.core (x : Atom) : Atom := { x with explicitH := 0, noImplicit := false }

end SynRBL.Mol
