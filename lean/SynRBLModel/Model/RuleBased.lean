import SynRBLModel.Model.Compare
import SynRBLModel.Model.Decompose
import SynRBLModel.Model.Matcher
import SynRBLModel.Model.Constraint
/-!
# `RuleBasedMethod.run` for one row
Source: `synrbl/rule_based.py:42-172` with `SyntheticRuleImputer.single_impute` and `RuleConstraint.fit`.
The only kernel input is the pair of composition dictionaries of the two sides (`RSMIDecomposer`).
-/
namespace SynRBL
open Str

/-- `s.split(">>")` -/
def splitArrow : Str → List Str
  | [] => [[]]
  | '>' :: '>' :: xs => [] :: splitArrow xs
  | x :: xs =>
    match splitArrow xs with
    | [] => [[x]]
    | t :: ts => (x :: t) :: ts

structure RbOut where
  /-- the reaction column after the stage -/
  reaction : Str
  /-- counted in `balanced_cnt` -/
  countedBalanced : Bool
  /-- member of `rule_based_reactions` (`rb_applied`) -/
  applied : Bool
  /-- member of `certain_reactions` (`rb_solved`) -/
  solved : Bool
  deriving Repr

/-- one row through `RuleBasedMethod.run`; `none` = the row has fewer than two `>>`-tokens (IndexError) -/
def rbRow (rules : List Rule) (ban : List Str) (reaction : Str) (rcomp pcomp : Dict) (carbon : CLabel) :
    Option RbOut :=
  match splitArrow reaction with
  | reactants :: products :: _ =>
    let w := analyse rcomp pcomp
    let products1 := products ++ rep (str ".O") w.waters
    let reaction1 := reaction ++ rep (str ".O") w.waters
    if carbon = .balanced then
      if w.verdict = .products ∨ w.verdict = .reactants then
        match imputeTokens rules w.formula with
        | none => some ⟨reaction1, false, true, false⟩
        | some toks =>
          let added := joinWith '.' (toks.map str)
          let e : Entry :=
            if w.verdict = .products then ⟨reactants, products1 ++ '.' :: added, some added⟩
            else ⟨reactants ++ '.' :: added, products1, some []⟩
          let (nr, ok) := constraintFit ban e
          if ok then some ⟨nr, false, true, true⟩ else some ⟨reaction1, false, true, false⟩
      else some ⟨reaction1, w.verdict = .balance, false, false⟩
    else some ⟨reaction1, false, false, false⟩
  | _ => none

end SynRBL
