import Lean.Data.Json
import SynRBLModel.Py.Dict
/-! JSON glue of the line protocol (trusted: not part of any theorem). Python dictionaries travel as arrays of
`[key, value]` pairs so that insertion order survives. -/
namespace SynRBL.Drv
open Lean

abbrev R := Except String

def field (j : Json) (k : String) : R Json := j.getObjVal? k
def strF (j : Json) (k : String) : R String := do (← field j k).getStr?
def intF (j : Json) (k : String) : R Int := do (← field j k).getInt?
def natF (j : Json) (k : String) : R Nat := do (← field j k).getNat?
def boolF (j : Json) (k : String) : R Bool := do (← field j k).getBool?
def arrF (j : Json) (k : String) : R (List Json) := do return (← (← field j k).getArr?).toList
def optF (j : Json) (k : String) : Option Json :=
  match j.getObjVal? k with
  | .ok Json.null => none
  | .ok v => some v
  | .error _ => none

def toList (j : Json) : R (List Json) := do return (← j.getArr?).toList

def parseDict (j : Json) : R Dict := do
  let xs ← toList j
  xs.mapM fun p => do
    match ← toList p with
    | [k, v] => pure (← k.getStr?, ← v.getInt?)
    | _ => throw "dict entry is not a pair"

def dictJ (d : Dict) : Json := Json.arr (d.map fun kv => Json.arr #[Json.str kv.1, Json.num (JsonNumber.fromInt kv.2)]).toArray
def intJ (i : Int) : Json := Json.num (JsonNumber.fromInt i)
def natJ (n : Nat) : Json := Json.num (JsonNumber.fromNat n)
def listJ {α} (f : α → Json) (xs : List α) : Json := Json.arr (xs.map f).toArray
def strListJ (xs : List String) : Json := listJ Json.str xs
def optJ {α} (f : α → Json) : Option α → Json
  | none => Json.null
  | some a => f a

def strList (j : Json) : R (List String) := do (← toList j).mapM (·.getStr?)
def intList (j : Json) : R (List Int) := do (← toList j).mapM (·.getInt?)
def natList (j : Json) : R (List Nat) := do (← toList j).mapM (·.getNat?)

end SynRBL.Drv
