import SynRBLModel.Driver.JsonUtil
import SynRBLModel.Model.Compare
import SynRBLModel.Model.Decompose
import SynRBLModel.Generated.AtomicSymbols
/-! Operation table of the driver. -/
namespace SynRBL.Drv
open Lean

def parseAtoms (j : Json) : R (List Atom) := do
  (← toList j).mapM fun a => do
    match ← toList a with
    | [z, s, c] => pure ⟨← z.getNat?, ← s.getStr?, ← c.getInt?⟩
    | _ => throw "atom is not a triple"

def opAnalyse (j : Json) : R Json := do
  let r ← parseDict (← field j "r")
  let p ← parseDict (← field j "p")
  let v := compareDicts r p
  let d := diffDicts r p
  let (d', v') := bothSideFix r p v d
  let w := waterStep d' v'
  return Json.mkObj [
    ("verdict", Json.str v.toString), ("diff", dictJ d),
    ("verdict2", Json.str v'.toString), ("diff2", dictJ d'),
    ("waters", natJ w.waters), ("formula", dictJ w.formula), ("verdict3", Json.str w.verdict.toString)]

def opDecompose (j : Json) : R Json := do
  let atoms ← parseAtoms (← field j "atoms")
  return Json.mkObj [("comp", dictJ (decompose ⟨Generated.atomicSymbols, Generated.symbolFallback⟩ atoms))]

def opCarbonLabel (j : Json) : R Json := do
  return Json.mkObj [("label", Json.str (carbonLabel (← natF j "rc") (← natF j "pc")).toString)]

def opTables (_ : Json) : R Json := do
  return Json.mkObj [
    ("atomicSymbols", listJ (fun (p : Nat × String) => Json.arr #[natJ p.1, Json.str p.2]) Generated.atomicSymbols),
    ("symbolFallback", optJ Json.str Generated.symbolFallback)]

def dispatch (op : String) (j : Json) : R Json :=
  match op with
  | "analyse" => opAnalyse j
  | "decompose" => opDecompose j
  | "carbonLabel" => opCarbonLabel j
  | "tables" => opTables j
  | _ => throw s!"bad-op {op}"

end SynRBL.Drv
