import SynRBLModel.Driver.JsonUtil
import SynRBLModel.Driver.Ops.Core
import SynRBLModel.Driver.Ops.Pipeline
import SynRBLModel.Driver.Ops.Aam
import SynRBLModel.Driver.Ops.FG
import SynRBLModel.Driver.Ops.Normalize
import SynRBLModel.Driver.Ops.RuleDB2
import SynRBLModel.Driver.Ops.Merge
import SynRBLModel.Driver.Ops.McsSelect
import SynRBLModel.Driver.Ops.Cache
import SynRBLModel.Driver.Ops.Standardize
import SynRBLModel.Driver.Ops.PostProcess
/-! Operation table of the driver: every layer contributes a partial dispatcher `dispatch? : String → Json → Option (R Json)`. -/
namespace SynRBL.Drv
open Lean

def dispatchers : List (String → Json → Option (R Json)) := [
  Core.dispatch?,
  Pipeline.dispatch?,
  Aam.dispatch?,
  FG.dispatch?,
  Normalize.dispatch?,
  RuleDB2.dispatch?,
  Merge.dispatch?,
  McsSelect.dispatch?,
  Cache.dispatch?,
  Standardize.dispatch?,
  PostProcess.dispatch?
]

def dispatch (op : String) (j : Json) : R Json :=
  match dispatchers.findSome? (fun d => d op j) with
  | some r => r
  | none => throw s!"bad-op {op}"

end SynRBL.Drv
