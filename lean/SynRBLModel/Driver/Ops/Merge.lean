import SynRBLModel.Driver.JsonUtil
import SynRBLModel.Model.Merge
import SynRBLModel.Generated.MergeRules
/-! Driver operations of the merge layer (C09).  Graphs travel as
`{"atoms": [[sym, charge, explicitH, noImplicit, aromatic]], "bonds": [[begin, end, type]]}`; compounds as
`{"cid", "g", "hasSrc", "boundaries": [{"index", "symbol", "nbrIndex", "nbrSymbol"}]}`; recorded oracle answers as
`[kind, cid, natoms, boundary index, neighbour index (-1 = none), value, answer]`. -/
namespace SynRBL.Drv.Merge
open Lean SynRBL.Drv SynRBL.Mol

def parseAtom (j : Json) : R Atom := do
  match ← toList j with
  | [s, q, h, ni, ar] => pure ⟨← s.getStr?, ← q.getInt?, ← h.getNat?, ← ni.getBool?, ← ar.getBool?⟩
  | _ => throw "atom is not a 5-tuple"

def parseBondJ (j : Json) : R Bond := do
  match ← natList j with
  | [a, b, o] => pure ⟨a, b, o⟩
  | _ => throw "bond is not a triple"

def parseGraph (j : Json) : R Graph := do
  return ⟨← (← arrF j "atoms").mapM parseAtom, ← (← arrF j "bonds").mapM parseBondJ⟩

def atomJ (x : Atom) : Json :=
  Json.arr #[Json.str x.sym, intJ x.charge, natJ x.explicitH, Json.bool x.noImplicit, Json.bool x.aromatic]
def bondJ (e : Bond) : Json := Json.arr #[natJ e.a, natJ e.b, natJ e.order]
def graphJ (g : Graph) : Json := Json.mkObj [("atoms", listJ atomJ g.atoms), ("bonds", listJ bondJ g.bonds)]

def optNat (j : Json) (k : String) : Option Nat := (optF j k).bind fun v => v.getNat?.toOption
def optStr (j : Json) (k : String) : Option String := (optF j k).bind fun v => v.getStr?.toOption

def parseBoundary (j : Json) : R Boundary := do
  return { index := ← natF j "index", symbol := ← strF j "symbol", nbrIndex := optNat j "nbrIndex",
           nbrSymbol := optStr j "nbrSymbol" }

def parseCompound (j : Json) : R Compound := do
  return { cid := ← natF j "cid", g := ← parseGraph (← field j "g"), hasSrc := ← boolF j "hasSrc",
           boundaries := ← (← arrF j "boundaries").mapM parseBoundary }

def boundaryJ (b : Boundary) : Json := Json.mkObj [
  ("index", natJ b.index), ("symbol", Json.str b.symbol), ("nbrIndex", optJ natJ b.nbrIndex),
  ("nbrSymbol", optJ Json.str b.nbrSymbol)]

def ruleRefJ : RuleRef → Json
  | .merge i => Json.arr #[Json.str "merge", natJ i]
  | .expand i => Json.arr #[Json.str "expand", natJ i]
  | .compound i => Json.arr #[Json.str "compound", natJ i]

def compoundJ (c : Compound) : Json := Json.mkObj [
  ("cid", natJ c.cid), ("g", graphJ c.g), ("boundaries", listJ boundaryJ c.boundaries),
  ("rules", listJ ruleRefJ c.rules), ("inSet", Json.bool c.inSet), ("active", Json.bool c.active)]

def errJ : Err → Json
  | .notImplemented n => Json.arr #[Json.str "notImplemented", natJ n]
  | .noMergeRule => Json.arr #[Json.str "noMergeRule"]
  | .unequalBoundaries => Json.arr #[Json.str "unequalBoundaries"]
  | .sanitizeFailed => Json.arr #[Json.str "sanitizeFailed"]
  | .actionFailed w => Json.arr #[Json.str "actionFailed", Json.str w]
  | .badBond s => Json.arr #[Json.str "badBond", Json.str s]
  | .indexError => Json.arr #[Json.str "indexError"]
  | .condRaised => Json.arr #[Json.str "condRaised"]
  | .notInSet => Json.arr #[Json.str "notInSet"]
  | .openBoundaries => Json.arr #[Json.str "openBoundaries"]
  | .outOfFuel => Json.arr #[Json.str "outOfFuel"]

/-- `{"a", "b", "i", "j", "order": nat | null}` → `mergeTwo` -/
def opMergeTwo (j : Json) : R Json := do
  let a ← parseGraph (← field j "a")
  let b ← parseGraph (← field j "b")
  let i ← natF j "i"
  let k ← natF j "j"
  if !(i < a.n && k < b.n) then return Json.mkObj [("raises", Json.str "index")]
  let g := mergeTwo a b i k (optNat j "order")
  return Json.mkObj [("g", graphJ g), ("heavy", natJ (heavy g)), ("carbons", natJ (carbons g)),
    ("components", natJ (components g))]

/-- `{"a", "b", "i", "j", "ea", "eb"}` → the two capped sides, the glued molecule, whether merging what `cutGlued` makes
of it gives it back (the round trip of `C09_cut_merge_roundtrip`, also for inputs outside its hypotheses) and whether the
hypotheses hold -/
def opRoundTrip (j : Json) : R Json := do
  let a ← parseGraph (← field j "a")
  let b ← parseGraph (← field j "b")
  let i ← natF j "i"
  let k ← natF j "j"
  let ea ← boolF j "ea"
  let eb ← boolF j "eb"
  let g := glue a b i k 1
  let back := match cutGlued g a.n ea eb with
    | none => none
    | some ((fa, i'), (fb, k')) => some (mergeTwo fa fb i' k' (some 1))
  let hok (g : Graph) (i : Nat) (e : Bool) : Bool := match g.atoms[i]? with
    | some x => e || x.explicitH == 0
    | none => true
  return Json.mkObj [("cutA", graphJ (cutSide a i ea)), ("cutB", graphJ (cutSide b k eb)), ("glued", graphJ g),
    ("same", Json.bool (back == some g)), ("hyp", Json.bool (a.wf && hok a i ea && hok b k eb))]

structure Rec where
  kind : String
  cid : Nat
  natoms : Nat
  bidx : Nat
  nbr : Int
  value : String
  ans : Json

def parseRec (j : Json) : R Rec := do
  match ← toList j with
  | [k, c, n, b, nb, v, a] => pure ⟨← k.getStr?, ← c.getNat?, ← n.getNat?, ← b.getNat?, ← nb.getInt?, ← v.getStr?, a⟩
  | _ => throw "oracle record is not a 7-tuple"

def nbrKey (b : Boundary) : Int :=
  match b.nbrIndex with
  | some i => i
  | none => -1

def look (rs : List Rec) (kind : String) (cid natoms bidx : Nat) (nbr : Int) (value : String) : Option Json :=
  (rs.find? fun r => r.kind == kind && r.cid == cid && r.natoms == natoms && r.bidx == bidx && r.nbr == nbr
    && r.value == value).map (·.ans)

def lookBool (rs : List Rec) (dflt : Bool) (kind : String) (cid natoms bidx : Nat) (nbr : Int) (value : String) : Bool :=
  match look rs kind cid natoms bidx nbr value with
  | some (Json.bool b) => b
  | _ => dflt

/-- bonds as unordered pairs (which end RDKit calls `begin` is not observed by the property) -/
def undirected (g : Graph) : Graph :=
  { g with bonds := g.bonds.map fun e => ⟨min e.a e.b, max e.a e.b, e.order⟩ }

/-- the oracle of one recorded run; an answer that was not recorded is `dflt` -/
def mkOracle (rs : List Rec) (san : List (Graph × Option Graph)) (dflt : Bool) : Oracle where
  fg c b v := lookBool rs dflt "fg" c.cid c.g.n b.index (nbrKey b) v
  pat c b v := lookBool rs dflt "pat" c.cid c.g.n b.index (nbrKey b) v
  srcPat c b v := lookBool rs dflt "srcpat" c.cid c.g.n b.index (nbrKey b) v
  changeBondAtoms c b v :=
    match look rs "cb" c.cid c.g.n b.index (nbrKey b) v with
    | some (Json.arr #[x, y]) => match x.getNat?, y.getNat? with
      | .ok x, .ok y => some (x, y)
      | _, _ => none
    | _ => none
  reparse c b :=
    match look rs "reparse" c.cid c.g.n b.index (nbrKey b) "" with
    | some j => (parseGraph j).toOption
    | none => none
  sanitize g :=
    match san.find? fun p => undirected p.1 == undirected g with
    | some p => p.2
    | none => some g
  sameAsSrc c := lookBool rs dflt "same" c.cid c.g.n 0 (-1) ""
  smilesIs c v := lookBool rs dflt "smiles" c.cid c.g.n 0 (-1) v
  fgCompound c v := lookBool rs dflt "fgc" c.cid c.g.n 0 (-1) v
  addBoundaryAtom c _ pattern _ :=
    match look rs "addb" c.cid c.g.n 0 (-1) pattern with
    | some j => j.getNat?.toOption
    | none => none

def sameOutcome : M Compound → M Compound → Bool
  | .ok a, .ok b => decide (a = b)
  | .error a, .error b => decide (a = b)
  | _, _ => false

def outcomeJ : M Compound → Json
  | .ok c => Json.mkObj [("ok", compoundJ c)]
  | .error e => Json.mkObj [("error", errJ e)]

/-- `{"compounds": [...], "answers": [...], "sanitize": [[pre, post | null]]}` → `merge` on the generated tables with the
recorded oracle: resulting compound (atoms, bonds, boundaries, reported rules) or the error; `sensitive` tells whether
an answer that was *not* recorded influenced the outcome -/
def opMergeFlow (j : Json) : R Json := do
  let cs ← (← arrF j "compounds").mapM parseCompound
  let rs ← (← arrF j "answers").mapM parseRec
  let san ← (← arrF j "sanitize").mapM fun p => do
    match ← toList p with
    | [pre, Json.null] => pure (← parseGraph pre, none)
    | [pre, post] => pure (← parseGraph pre, some (← parseGraph post))
    | _ => throw "sanitize record is not a pair"
  let r0 := merge (mkOracle rs san false) Generated.mergeTables cs
  let r1 := merge (mkOracle rs san true) Generated.mergeTables cs
  let o := outcomeJ r0
  return o.setObjVal! "sensitive" (Json.bool (!sameOutcome r0 r1))

def propJ {α} (f : α → Json) (c : PropCfg α) : Json := Json.mkObj [("pos", listJ f c.pos), ("neg", listJ f c.neg)]
def bcondJ (k : BCond) : Json := Json.mkObj [
  ("atom", propJ Json.str k.atom), ("neighbor_atom", propJ Json.str k.neighbor), ("functional_group", propJ Json.str k.fg),
  ("pattern", propJ Json.str k.pattern), ("src_pattern", propJ Json.str k.srcPattern)]
def actionJ : Action → Json
  | .changeBond p o => Json.arr #[Json.str "change_bond", Json.str p, natJ o]
  | .changeCharge q => Json.arr #[Json.str "change_charge", intJ q]
  | .replace p v => Json.arr #[Json.str "replace", Json.str p, Json.str v]
def cactionJ : CAction → Json
  | .addBoundary fg p i => Json.arr #[Json.str "add_boundary", optJ Json.str fg, Json.str p, natJ i]
  | .setActive v => Json.arr #[Json.str "set_active", Json.bool v]

/-- the generated tables, echoed for the round-trip check of the translator -/
def opMergeTables (_ : Json) : R Json := do
  let t := Generated.mergeTables
  return Json.mkObj [
    ("merge", listJ (fun (r : MergeRule) => Json.mkObj [("name", Json.str r.name), ("cond1", bcondJ r.cond1),
      ("cond2", bcondJ r.cond2), ("action1", listJ actionJ r.action1), ("action2", listJ actionJ r.action2),
      ("bond", optJ Json.str r.bond)]) t.merge),
    ("expand", listJ (fun (e : ExpandRule) => Json.mkObj [("name", Json.str e.name), ("cond", bcondJ e.cond),
      ("smiles", Json.str e.smiles), ("index", natJ e.index), ("g", graphJ e.g)]) t.expand),
    ("compound", listJ (fun (r : CompoundRule) => Json.mkObj [("name", Json.str r.name),
      ("nr_boundaries", propJ natJ r.cond.nrBoundaries), ("is_catalyst", propJ Json.bool r.cond.isCatalyst),
      ("smiles", propJ Json.str r.cond.smiles), ("fg", propJ Json.str r.cond.fg),
      ("set_nr_boundaries", propJ natJ r.cond.setNrBoundaries), ("set_nr_compounds", propJ natJ r.cond.setNrCompounds),
      ("actions", listJ cactionJ r.actions)]) t.compound)]

def dispatch? (op : String) (j : Json) : Option (R Json) :=
  match op with
  | "mergeTwo" => some (opMergeTwo j)
  | "mergeRoundTrip" => some (opRoundTrip j)
  | "mergeFlow" => some (opMergeFlow j)
  | "mergeTables" => some (opMergeTables j)
  | _ => none

end SynRBL.Drv.Merge
