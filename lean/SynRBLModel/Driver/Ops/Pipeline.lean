import SynRBLModel.Driver.JsonUtil
import SynRBLModel.Driver.Ops.Core
import SynRBLModel.Model.Pipeline
import SynRBLModel.Model.Batching
import SynRBLModel.Model.StatsDict
import SynRBLModel.Model.Cli
/-! Driver ops of the row state machine. Oracle answers recorded from the real run travel with the op. -/
namespace SynRBL.Drv.Pipeline
open Lean SynRBL.Drv

def lookupStr {α} (m : List (String × α)) (k : Str) : Option α := m.lookup k.toString

def parseOracle (j : Json) : R Oracle := do
  let comps ← (← arrF j "comp").mapM fun p => do
    match ← toList p with
    | [k, d] => pure (← k.getStr?, ← parseDict d)
    | _ => throw "comp entry"
  let carbons ← (← arrF j "carbon").mapM fun p => do
    match ← toList p with
    | [k, n] => pure (← k.getStr?, ← n.getNat?)
    | _ => throw "carbon entry"
  let curates ← (← arrF j "curate").mapM fun p => do
    match ← toList p with
    | [k, v] => pure (← k.getStr?, ← v.getStr?)
    | _ => throw "curate entry"
  let optStr (k : String) : Option Str := (optF j k).bind fun v => v.getStr?.toOption.map str
  return {
    comp := fun s => (lookupStr comps s).getD [("?oracle-miss", 1)]
    carbonCnt := fun s => (lookupStr carbons s).getD 0
    searchFound := (← boolF j "searchFound")
    searchIssue := str (← strF j "searchIssue")
    mergeErr := optStr "mergeErr"
    stdErr := optStr "stdErr"
    merged := str (← strF j "merged")
    mergeRules := ← strList (← field j "mergeRules")
    curate := fun s => (lookupStr curates s).map str
    conf := ← natF j "conf" }

def rowJ (r : Row) : Json := Json.mkObj [
  ("input_reaction", Json.str r.input.toString), ("reaction", Json.str r.reaction.toString),
  ("solved", Json.bool r.solved), ("solved_by", optJ (fun m : Method => Json.str m.toString) r.solvedBy),
  ("issue", optJ (fun s : Str => Json.str s.toString) r.issue),
  ("carbon", Json.str r.carbon.toString), ("unbalance", Json.str r.unbalance.toString),
  ("hasMcs", Json.bool r.hasMcs), ("mcsOk", Json.bool r.mcsOk),
  ("rules", optJ strListJ r.rules), ("confidence", optJ natJ r.conf)]

def statsJ (s : RowStats) : Json := Json.mkObj [
  ("reaction_cnt", natJ s.reactionCnt), ("balanced_cnt", natJ s.balancedCnt), ("rb_applied", natJ s.rbApplied),
  ("rb_solved", natJ s.rbSolved), ("mcs_applied", natJ s.mcsApplied), ("mcs_solved", natJ s.mcsSolved),
  ("confident_cnt", natJ s.confidentCnt)]

/-- one valid row through every stage; the answer lists the row after each stage -/
def opPipelineRow (j : Json) : R Json := do
  let O ← parseOracle j
  let rules ← Core.rulesOf j
  let cfg : Config := ⟨rules, Generated.banList.map str, ← natF j "threshold"⟩
  let input := str (← strF j "input")
  let r1 := pc1 O input
  let r2 := pc2 O cfg input
  let r3 := pc3 O cfg input
  let r4 := pc4 O cfg input
  let r5 := pc5 O cfg input
  let r6 := pc6 O cfg input
  let r7 := pc7 O cfg input
  let r8 := pc8 O cfg input
  let r9 := pc9 O cfg input
  let r10 := preConf O cfg input
  let r11 := runRow O cfg input
  return Json.mkObj [
    ("stages", Json.arr #[rowJ r1, rowJ r2, rowJ r3, rowJ r4, rowJ r5, rowJ r6, rowJ r7, rowJ r8, rowJ r9, rowJ r10,
      rowJ r11]),
    ("final", rowJ (runRow O cfg input)),
    ("stats", statsJ (rowStats O cfg input))]

/-- `DataLoader` slicing (including the trailing empty batch) -/
def opChunks (j : Json) : R Json := do
  let xs ← intList (← field j "xs")
  let n ← natF j "n"
  return Json.mkObj [("chunks", listJ (listJ intJ) (chunks n (xs.length + 1) xs)),
    ("batches", listJ (listJ intJ) (batchesOf n xs))]

/-- `merge_stats(stats, new_stats)` on two dictionaries; `"fold"`: a whole sequence of batch dictionaries merged into `{}` -/
def opMergeStats (j : Json) : R Json := do
  match optF j "fold" with
  | some f =>
    let ds ← (← toList f).mapM parseDict
    return Json.mkObj [("merged", dictJ (ds.foldl mergeStats []))]
  | none =>
    let s ← parseDict (← field j "s")
    let n ← parseDict (← field j "n")
    return Json.mkObj [("merged", dictJ (mergeStats s n))]

def parseRec (j : Json) : R Cli.Rec := do
  (← toList j).mapM fun p => do
    match ← toList p with
    | [k, v] => return (← k.getStr?, ← v.getStr?)
    | _ => throw "record entry must be a [column, value] pair"

def recJ (r : Cli.Rec) : Json := listJ (fun kv => Json.arr #[Json.str kv.1, Json.str kv.2]) r

/-- the copy loop of `cmd_run.impute` on CSV records (all values as strings) -/
def opPassThrough (j : Json) : R Json := do
  let cols ← strList (← field j "cols")
  let ins ← (← arrF j "ins").mapM parseRec
  let outs ← (← arrF j "outs").mapM parseRec
  return Json.mkObj [("rows", listJ recJ (Cli.passThrough cols ins outs))]

def dispatch? (op : String) (j : Json) : Option (R Json) :=
  match op with
  | "passThrough" => some (opPassThrough j)
  | "mergeStats" => some (opMergeStats j)
  | "pipelineRow" => some (opPipelineRow j)
  | "chunks" => some (opChunks j)
  | _ => none

end SynRBL.Drv.Pipeline
