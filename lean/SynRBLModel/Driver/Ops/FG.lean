import SynRBLModel.Driver.JsonUtil
import SynRBLModel.Model.FGMatch
import SynRBLModel.Generated.FGConfig
/-! Driver operations of the functional-group layer (C16). Graphs travel as
`{"syms": [str], "nbrs": [[nat]], "bonds": [[begin, end, type]]}`. -/
namespace SynRBL.Drv.FG
open Lean SynRBL.Drv SynRBL.FG

def parseGraph (j : Json) : R GData := do
  let syms ← strList (← field j "syms")
  let nbrs ← (← arrF j "nbrs").mapM natList
  let bonds ← (← arrF j "bonds").mapM fun b => do
    match ← natList b with
    | [i, k, t] => pure (i, k, t)
    | _ => throw "bond is not a triple"
  return ⟨syms, nbrs, bonds⟩

def graphJ (d : GData) : Json := Json.mkObj [
  ("syms", strListJ d.syms),
  ("nbrs", listJ (listJ natJ) d.nbrs),
  ("bonds", listJ (fun (t : Nat × Nat × Nat) => Json.arr #[natJ t.1, natJ t.2.1, natJ t.2.2]) d.bonds)]

def pairsJ (m : List (Nat × Nat)) : Json := listJ (fun (p : Nat × Nat) => Json.arr #[natJ p.1, natJ p.2]) m
def optBoolJ : Option Bool → Json
  | none => Json.null
  | some b => Json.bool b

/-- `{"g", "name", "idx"}` → `is_functional_group` on the generated table (`null` = NotImplementedError) -/
def opFgMatch (j : Json) : R Json := do
  let g ← parseGraph (← field j "g")
  let idx ← natF j "idx"
  if idx ≥ g.n then return Json.mkObj [("raises", Json.str "index")]
  return Json.mkObj [("fg", optBoolJ (isFunctionalGroupM Generated.fgConfig g.toLG (← strF j "name") idx)),
    ("wf", Json.bool g.wf)]

/-- `{"g", "atoms": [idx]}` → for every atom the answers for all groups of the generated table, in table order -/
def opFgAll (j : Json) : R Json := do
  let g ← parseGraph (← field j "g")
  let atoms ← natList (← field j "atoms")
  let lg := g.toLG
  return Json.mkObj [
    ("names", strListJ (Generated.fgConfig.map (·.1))),
    ("wf", Json.bool g.wf),
    ("fg", listJ (fun a => listJ (fun (e : String × FGConfig) => Json.bool (checkFunctionalGroupM lg e.2 a))
      Generated.fgConfig) (atoms.filter (· < g.n)))]

def panchorOf (j : Json) : Option Nat := (optF j "panchor").bind (fun v => v.getNat?.toOption)

/-- `{"g", "p", "idx", "panchor"?}` → `pattern_match` with an explicit pattern graph -/
def opPatternMatch (j : Json) : R Json := do
  let g ← parseGraph (← field j "g")
  let p ← parseGraph (← field j "p")
  let r := patternMatchM g.toLG p (← natF j "idx") (panchorOf j)
  return Json.mkObj [("match", Json.bool r.1), ("mapping", pairsJ r.2)]

/-- `{"g", "patterns": [p], "atoms": [idx]}` → per atom, per pattern `[match, mapping, occurs, hyp]` where `occurs` is the
reference search for a real occurrence containing the atom and `hyp` says whether the hypotheses of
`C16_sound_partial` hold -/
def opPatternAll (j : Json) : R Json := do
  let g ← parseGraph (← field j "g")
  let ps ← (← arrF j "patterns").mapM parseGraph
  let atoms ← natList (← field j "atoms")
  let lg := g.toLG
  let withOcc := (optF j "occurs").isSome
  let withHyp := (optF j "hyp").isSome
  let trees := ps.map isTreePattern
  return Json.mkObj [("res", listJ (fun a => listJ (fun (pt : GData × Bool) =>
    let p := pt.1
    let r := patternMatchM lg p a none
    Json.arr #[Json.bool r.1, pairsJ r.2, if withOcc then Json.bool (occurs g p a) else Json.null,
      if withHyp then Json.bool (pt.2 && g.wf && decide (a < g.n) && acyclicAround g p.n a) else Json.null])
    (ps.zip trees)) atoms)]

def cfgJ (c : FGConfig) : Json := Json.mkObj [
  ("pattern", listJ graphJ c.pattern), ("groups", listJ graphJ c.groups), ("anti", listJ graphJ c.antiPattern),
  ("max", natJ c.maxPatternSize)]

/-- the generated table, echoed for the round-trip check of the translator -/
def opFgConfig (_ : Json) : R Json := do
  return Json.mkObj [
    ("config", listJ (fun (e : String × FGConfig) => Json.arr #[Json.str e.1, cfgJ e.2]) Generated.fgConfig),
    ("groupAtoms", listJ (fun (e : String × Option (List Nat)) => Json.arr #[Json.str e.1, optJ (listJ natJ) e.2])
      Generated.fgGroupAtoms),
    ("witnessMols", listJ (fun (e : String × GData) => Json.arr #[Json.str e.1, graphJ e.2]) Generated.fgWitnessMols)]

/-- `{"match": [str], "syms": [str]}` → `get_mapping_permutations` as `(pattern position, atom position)` pairs;
`{"perms": n}` → `itertools.permutations(range(n))` -/
def opMappingPerms (j : Json) : R Json := do
  let ms ← strList (← field j "match")
  let ss ← strList (← field j "syms")
  let r := getMappingPermutations (fun i => ms.getD i "") (fun k => ss.getD k "") (List.range ms.length)
    (List.range ss.length)
  return Json.mkObj [("mappings", listJ pairsJ r), ("perms", listJ (listJ natJ) (perms ss.length (List.range ss.length)))]

/-- decidable form of `Renum` on exported graphs: `perm[i]` = new index of old atom `i` -/
def opRenumCheck (j : Json) : R Json := do
  let g ← parseGraph (← field j "g")
  let g' ← parseGraph (← field j "g2")
  let perm ← natList (← field j "perm")
  return Json.mkObj [("renum", Json.bool (renumB perm g g'))]

def dispatch? (op : String) (j : Json) : Option (R Json) :=
  match op with
  | "fgMatch" => some (opFgMatch j)
  | "fgAll" => some (opFgAll j)
  | "patternMatch" => some (opPatternMatch j)
  | "patternAll" => some (opPatternAll j)
  | "fgConfig" => some (opFgConfig j)
  | "mappingPerms" => some (opMappingPerms j)
  | "renumCheck" => some (opRenumCheck j)
  | _ => none

end SynRBL.Drv.FG
