import SynRBLModel.Driver.JsonUtil
import SynRBLModel.Model.Aam
/-! Driver operations of the atom-map-removal layer (C15).

* `{"op":"aam","s":…}` → `{"removed", "dropped" (after the first substitution), "tokens" (token view of the input or
  null), "tokensOut" (the token-level result printed, or null), "body" (what `matchBody` says when `s` is taken as a
  bracket body)}`
* `{"op":"aamBatch","ss":[…]}` → `{"removed":[…], "dropped":[…]}` (bulk form for the exhaustive sweeps) -/
namespace SynRBL.Drv.Aam
open Lean SynRBL.Drv SynRBL.Aam

def tokJ : Tok → Json
  | .bracket b => Json.mkObj [("bracket", Json.str (Str.toString b))]
  | .plain c => Json.mkObj [("plain", Json.str (Str.toString [c]))]

def opAam (j : Json) : R Json := do
  let s := str (← strF j "s")
  let toks := tokenize s
  return Json.mkObj [
    ("removed", Json.str (remove s).toString),
    ("dropped", Json.str (dropMaps s).toString),
    ("tokens", optJ (listJ tokJ) toks),
    ("tokensOut", optJ (fun ts => Json.str (print (removeToks ts)).toString) toks),
    ("body", optJ (fun a => Json.str (Str.toString a)) (matchBody s))]

def opAamBatch (j : Json) : R Json := do
  let ss := (← strList (← field j "ss")).map str
  return Json.mkObj [
    ("removed", strListJ (ss.map fun s => (remove s).toString)),
    ("dropped", strListJ (ss.map fun s => (dropMaps s).toString))]

def dispatch? (op : String) (j : Json) : Option (R Json) :=
  match op with
  | "aam" => some (opAam j)
  | "aamBatch" => some (opAamBatch j)
  | _ => none

end SynRBL.Drv.Aam
