import SynRBLModel.Driver.JsonUtil
import SynRBLModel.Model.Normalize
/-! Driver operations of the normalisation layer (C17): `normParts`, `normalize`, `wc`.

Oracle answers travel with every operation: `"canon": [[token, canonical | null], …]` (`null` = RDKit raised) and
`"fp": [[a, b, [num, den] | null], …]` (exact value of the Python float). A query the model makes that has no
recorded answer is reported in `"miss"` / `"miss_fp"`; the harness answers it with the real kernel and re-sends. -/
namespace SynRBL.Drv.Normalize
open Lean SynRBL SynRBL.Drv SynRBL.Norm Str

def sJ (s : Str) : Json := Json.str s.toString

def parseMethod (s : String) : Method :=
  match s with
  | "pathway" => .pathway | "ecfp" => .ecfp | "ecfp_inv" => .ecfpInv | _ => .other

/-- `[[token, canon | null], …]` -/
def parseCanon (j : Json) : R (List (Str × Option Str)) := do
  (← toList j).mapM fun p => do
    match ← toList p with
    | [k, Json.null] => pure (str (← k.getStr?), none)
    | [k, v] => pure (str (← k.getStr?), some (str (← v.getStr?)))
    | _ => throw "canon entry is not a pair"

def parseRat (j : Json) : R Rat := do
  match ← toList j with
  | [n, d] => pure (mkRat (← n.getInt?) (← d.getNat?))
  | _ => throw "rational is not [num, den]"

/-- `[[a, b, [num, den] | null], …]` -/
def parseFp (j : Json) : R (List ((Str × Str) × Option Rat)) := do
  (← toList j).mapM fun p => do
    match ← toList p with
    | [a, b, Json.null] => pure ((str (← a.getStr?), str (← b.getStr?)), none)
    | [a, b, v] => pure ((str (← a.getStr?), str (← b.getStr?)), some (← parseRat v))
    | _ => throw "fp entry is not a triple"

def oracleOf (canon : List (Str × Option Str)) (fp : List ((Str × Str) × Option Rat)) : NormOracle where
  canon t := (canon.lookup t).join
  fpSim _ a b := (fp.lookup (a, b)).join

/-! the tokens `normalize` hands to the oracle (glue: only used to report missing answers) -/
def sideBodyQueries (s1 : Str) : List Str :=
  if s1.contains '.' then (splitOn '.' s1).map rmStereo else [s1]
def normQueries (s : Str) : List Str :=
  let s1 := rmStereo s
  if hasInfix ['>', '>'] s1 then (splitArrow s1).flatMap fun t => sideBodyQueries (rmStereo t)
  else sideBodyQueries s1

def wcQueries (O : NormOracle) (e r : Str) : List Str × List (Str × Str) :=
  let q1 := normQueries e ++ normQueries r
  match normalize O e, normalize O r with
  | some exp, some res =>
    if exp = res then (q1, [])
    else match splitArrow exp, splitArrow res with
      | [ee, ep], [re, rp] =>
        let q2 := q1 ++ normQueries ee ++ normQueries re ++ normQueries ep ++ normQueries rp
        match diffMol O ee re, diffMol O ep rp with
        | some d1, some d2 => (q2, [d1, d2])
        | _, _ => (q2, [])
      | _, _ => (q1, [])
  | _, _ => (q1, [])

def ratJ (q : Rat) : Json := Json.arr #[intJ q.num, natJ q.den]

def opNormParts (j : Json) : R Json := do
  let s := str (← strF j "s")
  let toks := (← strList (← field j "toks")).map str
  return Json.mkObj [
    ("rmStereo", sJ (rmStereo s)),
    ("countAtoms", natJ (countAtomsRe s)),
    ("ordSum", natJ (ordSum s)),
    ("sorted", listJ sJ (sortTokens toks)),
    ("sorted2", listJ sJ (sortDescBy tokLe2 toks)),
    ("joined", sJ (joinArrow toks))]

def opNormalize (j : Json) : R Json := do
  let s := str (← strF j "s")
  let canon ← parseCanon (← field j "canon")
  let O := oracleOf canon []
  let miss := (normQueries s).eraseDups.filter fun q => (canon.lookup q).isNone
  return Json.mkObj [("out", optJ sJ (normalize O s)), ("miss", listJ sJ miss)]

def opWc (j : Json) : R Json := do
  let e := str (← strF j "e")
  let r := str (← strF j "r")
  let m := parseMethod (← strF j "method")
  let canon ← parseCanon (← field j "canon")
  let fp ← parseFp (← field j "fp")
  let O := oracleOf canon fp
  let (qc, qf) := wcQueries O e r
  let miss := qc.eraseDups.filter fun q => (canon.lookup q).isNone
  let missFp := if m == .other then [] else qf.eraseDups.filter fun q => (fp.lookup q).isNone
  return Json.mkObj [
    ("sim", optJ ratJ (wcSimilarity O m e r)),
    ("exp", optJ sJ (normalize O e)), ("res", optJ sJ (normalize O r)),
    ("miss", listJ sJ miss),
    ("miss_fp", listJ (fun q : Str × Str => Json.arr #[sJ q.1, sJ q.2]) missFp)]

def dispatch? (op : String) (j : Json) : Option (R Json) :=
  match op with
  | "normParts" => some (opNormParts j)
  | "normalize" => some (opNormalize j)
  | "wc" => some (opWc j)
  | _ => none

end SynRBL.Drv.Normalize
