import SynRBLModel.Driver.JsonUtil
import SynRBLModel.Model.Cache
/-! Driver operations of the cache layer (C12).

* `{"op":"cacheHistory", "keys":[[cfg,batch,hex]…], "pipeline":[[cfg,batch,doc|null]…], "failStats":[[cfg,batch,json]…],
  "empty":[batch…], "variant":{"atomic":bool,"tolerant":bool}?, "disk":{"files":[[name,content]…],"nested":[name…]}?,
  "ops":[…]}` →
  `{"outcomes":[{"status":"completed","merged":[{"rows":json-text,"stats":json-text}…],"hits":[bool…]} |
  {"status":"killed"|"raised"|"noRun"}…], "disks":[{"files":[[name,content]…],"nested":[…]}…]}` — one outcome and one
  directory listing (sorted by name) per operation.
  Configurations and batches are symbolic (numbers); `keys` are the *real* SHA-256 keys the harness recorded,
  `pipeline` gives for every (configuration, batch) the JSON document `{"stats":…,"result":…}` that the real pipeline
  result serialises to (`null` = the pipeline raises). `Rows`/`Stats` are the canonical (`Json.compress`) renderings
  of the two members; `load` is Lean's JSON parser followed by the two `.get(…, None)`.
  Operations: `{"kind":"run","cfg":c,"batches":[…]}`, `{"kind":"crash"|"ioError","cfg":c,"batches":[…],"at":i,
  "point":{"p":"beforeWrite"|"tmpPrefix"|"tmpComplete"|"afterRename","k":n}}`, `{"kind":"truncate","file":f,"k":n}`,
  `{"kind":"putFile","file":f,"content":s}`, `{"kind":"putNested","file":f}`, `{"kind":"delete","file":f}`.
* `{"op":"cacheScan","names":[…]}` → `{"splitext":[[stem,ext]…],"keys":[key|null…]}` (`os.path.splitext` and the
  registration test of `CacheManager.__init__`). -/
namespace SynRBL.Drv.Cache
open Lean SynRBL SynRBL.Drv SynRBL.Cache

abbrev RS := Result String String

/-- the two members of a document, `none` when missing or `null`; `(none, none)` when it is not a JSON object -/
def loadDoc (bytes : Bytes) : Option String × Option String :=
  match Json.parse (Str.toString bytes) with
  | .ok (Json.obj kvs) =>
    let get (k : String) : Option String :=
      match (Json.obj kvs).getObjVal? k with
      | .ok Json.null => none
      | .ok v => some v.compress
      | .error _ => none
    (get "result", get "stats")
  | _ => (none, none)

def readableDoc (bytes : Bytes) : Bool :=
  match Json.parse (Str.toString bytes) with
  | .ok (Json.obj _) => true
  | _ => false

structure Tables where
  keys : List ((Nat × Nat) × Str)
  docs : List ((Nat × Nat) × Option Str)
  failStats : List ((Nat × Nat) × String)
  empty : List Nat

def resultOfDoc (doc : Str) : Option RS :=
  match loadDoc doc with
  | (some r, some s) => some ⟨r, s⟩
  | _ => none

def sysOf (T : Tables) : Sys Nat Nat String String where
  pipeline c b := ((T.docs.lookup (c, b)).join).bind resultOfDoc
  failStats c b := (T.failStats.lookup (c, b)).getD "{}"
  isEmpty b := T.empty.contains b
  key c b := (T.keys.lookup (c, b)).getD (str s!"nokey-{c}-{b}")
  encode r :=
    -- the document whose members are `r` (the harness supplies the exact text `json.dump` produces)
    match T.docs.findSome? fun e => match e.2 with
      | some doc => if resultOfDoc doc = some r then some doc else none
      | none => none with
    | some doc => doc
    | none => str "?"
  load := loadDoc
  readable := readableDoc

def parsePoint (j : Json) : R CrashPoint := do
  match ← strF j "p" with
  | "beforeWrite" => pure .beforeWrite
  | "tmpPrefix" => pure (.tmpPrefix (← natF j "k"))
  | "tmpComplete" => pure .tmpComplete
  | "afterRename" => pure .afterRename
  | p => throw s!"bad crash point {p}"

def parseOp (j : Json) : R (Op Nat Nat) := do
  match ← strF j "kind" with
  | "run" => pure (.run (← natF j "cfg") (← natList (← field j "batches")))
  | "crash" => pure (.crash (← natF j "cfg") (← natList (← field j "batches")) (← natF j "at") (← parsePoint (← field j "point")))
  | "ioError" => pure (.ioError (← natF j "cfg") (← natList (← field j "batches")) (← natF j "at") (← parsePoint (← field j "point")))
  | "truncate" => pure (.env (.truncate (str (← strF j "file")) (← natF j "k")))
  | "putFile" => pure (.env (.putFile (str (← strF j "file")) (str (← strF j "content"))))
  | "putNested" => pure (.env (.putNested (str (← strF j "file"))))
  | "delete" => pure (.env (.delete (str (← strF j "file"))))
  | k => throw s!"bad op kind {k}"

def pairKey (p : Json) : R (Nat × Nat × Json) := do
  match ← toList p with
  | [c, b, v] => pure (← c.getNat?, ← b.getNat?, v)
  | _ => throw "table entry is not a triple"

def parseTables (j : Json) : R Tables := do
  let keys ← (← arrF j "keys").mapM fun p => do
    let (c, b, v) ← pairKey p
    pure ((c, b), str (← v.getStr?))
  let docs ← (← arrF j "pipeline").mapM fun p => do
    let (c, b, v) ← pairKey p
    match v with
    | Json.null => pure ((c, b), none)
    | v => pure ((c, b), some (str (← v.getStr?)))
  let fs ← match optF j "failStats" with
    | none => pure []
    | some a => (← toList a).mapM fun p => do
      let (c, b, v) ← pairKey p
      pure ((c, b), ← v.getStr?)
  let empty ← match optF j "empty" with
    | none => pure []
    | some a => natList a
  return ⟨keys, docs, fs, empty⟩

def parseDisk (j : Json) : R Disk := do
  let files ← (← arrF j "files").mapM fun p => do
    match ← toList p with
    | [n, c] => pure (str (← n.getStr?), str (← c.getStr?))
    | _ => throw "file entry is not a pair"
  let nested ← match optF j "nested" with
    | none => pure []
    | some a => do pure ((← strList a).map str)
  return ⟨files, nested⟩

def diskJ (d : Disk) : Json :=
  let fs := d.files.map fun e => (Str.toString e.1, Str.toString e.2)
  let sorted := fs.toArray.qsort (fun a b => a.1 < b.1)
  Json.mkObj [
    ("files", Json.arr (sorted.map fun e => Json.arr #[Json.str e.1, Json.str e.2])),
    ("nested", Json.arr ((d.nested.map fun n => Json.str (Str.toString n)).toArray.qsort
      (fun a b => a.compress < b.compress)))]

def outcomeJ : Outcome String String → Json
  | .killed => Json.mkObj [("status", "killed")]
  | .raised => Json.mkObj [("status", "raised")]
  | .noRun => Json.mkObj [("status", "noRun")]
  | .completed ms hs => Json.mkObj [
      ("status", "completed"),
      ("merged", listJ (fun (r : RS) => Json.mkObj [("rows", Json.str r.rows), ("stats", Json.str r.stats)]) ms),
      ("hits", listJ Json.bool hs)]

/-- `runHistory`, keeping the directory after every operation -/
def trace (S : Sys Nat Nat String String) (v : Variant) : Disk → List (Op Nat Nat) → List (Outcome String String × Disk)
  | _, [] => []
  | d, op :: ops =>
    let r := step S v d op
    (r.2, r.1) :: trace S v r.1 ops

def opHistory (j : Json) : R Json := do
  let T ← parseTables j
  let v : Variant ← match optF j "variant" with
    | none => pure Variant.current
    | some vj => do pure ⟨← boolF vj "atomic", ← boolF vj "tolerant"⟩
  let d0 ← match optF j "disk" with
    | none => pure Disk.empty
    | some dj => parseDisk dj
  let ops ← (← arrF j "ops").mapM parseOp
  let tr := trace (sysOf T) v d0 ops
  return Json.mkObj [
    ("outcomes", listJ (fun e => outcomeJ e.1) tr),
    ("disks", listJ (fun e => diskJ e.2) tr)]

def opScan (j : Json) : R Json := do
  let names := (← strList (← field j "names")).map str
  return Json.mkObj [
    ("splitext", listJ (fun n => let se := splitext n; Json.arr #[Json.str se.1.toString, Json.str se.2.toString]) names),
    ("keys", listJ (fun n => optJ (fun k => Json.str (Str.toString k)) (scanKey? n)) names)]

def dispatch? (op : String) (j : Json) : Option (R Json) :=
  match op with
  | "cacheHistory" => some (opHistory j)
  | "cacheScan" => some (opScan j)
  | _ => none

end SynRBL.Drv.Cache
