import SynRBLModel.Driver.JsonUtil
import SynRBLModel.Model.RuleDB2
import SynRBLModel.Generated.RulesManager
import SynRBLModel.Generated.AutomatedRules
/-! Driver operations of the rule-database state machine (`Model/RuleDB2.lean`).

`ruledb`: `{start: [{formula, smiles, comp}], oracle: {<smiles>: {valid, atoms, canon}}, ops: [...]}` (or `seqs: [[...], …]`
for several histories over the same start and oracle) → per history the outcome and the `(formula, smiles)` keys after every
operation, and the final database in full.
`ruledb_enum`: `{start, oracle, alphabet: [op…], depth}` → every history over the alphabet up to that length, as the nodes of
the depth-first traversal in pre-order (children in alphabet order): outcome of the last operation and the full database. -/
namespace SynRBL.Drv.RuleDB2
open Lean SynRBL.Drv SynRBL.RDB

def parseAtoms (j : Json) : R (List Atom) := do
  (← toList j).mapM fun a => do
    match ← toList a with
    | [z, s, c] => pure ⟨← z.getNat?, ← s.getStr?, ← c.getInt?⟩
    | _ => throw "atom is not a triple"

structure Answer where
  valid : Bool
  atoms : List Atom
  canon : String

def parseOracle (j : Json) : R (List (String × Answer)) := do
  let obj ← (← field j "oracle").getObj?
  obj.toList.mapM fun (k, v) => do
    let canon := match v.getObjVal? "canon" with
      | .ok (Json.str c) => c
      | _ => ""
    pure (k, ⟨← boolF v "valid", ← parseAtoms (← field v "atoms"), canon⟩)

def mkOracle (tbl : List (String × Answer)) : Oracle where
  valid s := match tbl.lookup s with | some a => a.valid | none => false
  atoms s := match tbl.lookup s with | some a => a.atoms | none => []
  canon s := match tbl.lookup s with | some a => a.canon | none => ""

def parseEntry (j : Json) : R Entry := do
  pure ⟨← strF j "formula", ← strF j "smiles", ← parseDict (← field j "comp")⟩

def parsePair (j : Json) : R (String × String) := do
  match ← toList j with
  | [f, s] => pure (← f.getStr?, ← s.getStr?)
  | _ => throw "entry is not a [formula, smiles] pair"

def parseOp (j : Json) : R Op := do
  match ← strF j "op" with
  | "add" => pure (.add (← strF j "formula") (← strF j "smiles"))
  | "add_entries" => pure (.addEntries (← (← arrF j "entries").mapM parsePair))
  | "remove" => pure (.remove (← strF j "formula"))
  | o => throw s!"bad database operation {o}"

def opSmiles : Op → List String
  | .add _ s => [s]
  | .addEntries es => es.map (·.2)
  | .remove _ => []

/-- every SMILES an operation can ask the oracle about must have a recorded answer -/
def checkOracle (tbl : List (String × Answer)) (ops : List Op) : R Unit := do
  for op in ops do
    for s in opSmiles op do
      if (tbl.lookup s).isNone then throw s!"oracle-miss {s}"

def pairJ (p : String × String) : Json := Json.arr #[Json.str p.1, Json.str p.2]
def entryJ (e : Entry) : Json :=
  Json.mkObj [("formula", Json.str e.formula), ("smiles", Json.str e.smiles), ("comp", dictJ e.comp)]
def keysJ (s : State) : Json := listJ (fun e : Entry => pairJ (e.formula, e.smiles)) s

def outcomeJ (op : Op) (o : Outcome) : Json :=
  match op, o with
  | .add f smi, .add r => Json.mkObj [("kind", "add"), ("result", Json.str r.code), ("message", Json.str (r.message f smi))]
  | .addEntries es, .bulk rs rej =>
    Json.mkObj [("kind", "bulk"), ("results", strListJ (rs.map (·.code))), ("rejected", listJ pairJ rej),
      ("printed", strListJ (((es.zip rs).filter fun p => p.2 = .added).map fun p => AddResult.message p.1.1 p.1.2 .added))]
  | .remove f, .remove b => Json.mkObj [("kind", "remove"), ("found", Json.bool b), ("message", Json.str (removeMessage f b))]
  | _, _ => Json.mkObj [("kind", "mismatch")]

def runTrace (O : Oracle) : State → List Op → List Json × State
  | s, [] => ([], s)
  | s, op :: ops =>
    let r := step shippedTable O s op
    let rest := runTrace O r.1 ops
    (Json.mkObj [("outcome", outcomeJ op r.2), ("keys", keysJ r.1)] :: rest.1, rest.2)

def oneHistory (tbl : List (String × Answer)) (start : State) (opsJ : Json) : R Json := do
  let ops ← (← toList opsJ).mapM parseOp
  checkOracle tbl ops
  let O := mkOracle tbl
  let (steps, final) := runTrace O start ops
  -- `run` is what the theorems speak about; the trace above must end in the same state
  let viaRun := (run shippedTable O start ops).1
  return Json.mkObj [("steps", Json.arr steps.toArray), ("final", listJ entryJ final),
    ("run_agrees", Json.bool (decide (viaRun = final)))]

def opRuleDB (j : Json) : R Json := do
  let start ← (← arrF j "start").mapM parseEntry
  let tbl ← parseOracle j
  match j.getObjVal? "seqs" with
  | .ok seqs => return Json.mkObj [("results", Json.arr ((← (← toList seqs).mapM (oneHistory tbl start)).toArray))]
  | .error _ => oneHistory tbl start (← field j "ops")

/-- pre-order traversal of all histories of length ≤ depth -/
def enum (O : Oracle) (alphabet : List Op) : Nat → State → Array Json → Array Json
  | 0, _, acc => acc
  | d + 1, s, acc =>
    alphabet.foldl (fun acc op =>
      let r := step shippedTable O s op
      enum O alphabet d r.1 (acc.push (Json.mkObj [("o", outcomeJ op r.2), ("s", listJ entryJ r.1)]))) acc

def opEnum (j : Json) : R Json := do
  let start ← (← arrF j "start").mapM parseEntry
  let tbl ← parseOracle j
  let alphabet ← (← arrF j "alphabet").mapM parseOp
  checkOracle tbl alphabet
  let depth ← natF j "depth"
  return Json.mkObj [("nodes", Json.arr (enum (mkOracle tbl) alphabet depth start #[]))]

/-- the generated tables read as manager states + the data-level duplicate report -/
def opShipped (_ : Json) : R Json := do
  let one (recs : List DBRecord) : Json := Json.mkObj [
    ("state", listJ entryJ (recs.map entryOf)),
    ("dupFormulas", strListJ (dups (recs.map (·.formula)))),
    ("dupSmiles", strListJ (dups (recs.map (·.rule.smiles)))),
    ("invData", Json.bool (invData shippedTable recs)),
    ("dedupKeys", listJ pairJ ((dedupRecords recs).map fun r => (r.formula, r.rule.smiles)))]
  return Json.mkObj [("rulesManager", one Generated.rulesManagerRecords),
    ("automatedRules", one Generated.automatedRulesRecords)]

def dispatch? (op : String) (j : Json) : Option (R Json) :=
  match op with
  | "ruledb" => some (opRuleDB j)
  | "ruledb_enum" => some (opEnum j)
  | "ruledb_shipped" => some (opShipped j)
  | _ => none

end SynRBL.Drv.RuleDB2
