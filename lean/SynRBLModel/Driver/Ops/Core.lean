import SynRBLModel.Driver.JsonUtil
import SynRBLModel.Model.Compare
import SynRBLModel.Model.Decompose
import SynRBLModel.Model.RuleBased
import SynRBLModel.Generated.AtomicSymbols
import SynRBLModel.Generated.RulesManager
import SynRBLModel.Generated.AutomatedRules
import SynRBLModel.Generated.BanLists
/-! Operation table of the driver. -/
namespace SynRBL.Drv.Core
open Lean SynRBL.Drv

def parseAtoms (j : Json) : R (List Atom) := do
  (← toList j).mapM fun a => do
    match ← toList a with
    | [z, s, c] => pure ⟨← z.getNat?, ← s.getStr?, ← c.getInt?⟩
    | _ => throw "atom is not a triple"

def opAnalyse (j : Json) : R Json := do
  let r ← parseDict (← field j "r")
  let p ← parseDict (← field j "p")
  let v := compareDicts r p
  let d := diffDicts r p
  let (d', v') := bothSideFix r p v d
  let w := waterStep d' v'
  return Json.mkObj [
    ("verdict", Json.str v.toString), ("diff", dictJ d),
    ("verdict2", Json.str v'.toString), ("diff2", dictJ d'),
    ("waters", natJ w.waters), ("formula", dictJ w.formula), ("verdict3", Json.str w.verdict.toString)]

def opDecompose (j : Json) : R Json := do
  let atoms ← parseAtoms (← field j "atoms")
  return Json.mkObj [("comp", dictJ (decompose ⟨Generated.atomicSymbols, Generated.symbolFallback⟩ atoms))]

def opCarbonLabel (j : Json) : R Json := do
  return Json.mkObj [("label", Json.str (carbonLabel (← natF j "rc") (← natF j "pc")).toString)]

def opTables (_ : Json) : R Json := do
  return Json.mkObj [
    ("atomicSymbols", listJ (fun (p : Nat × String) => Json.arr #[natJ p.1, Json.str p.2]) Generated.atomicSymbols),
    ("symbolFallback", optJ Json.str Generated.symbolFallback),
    ("banList", strListJ Generated.banList),
    ("rulesManager", listJ (fun r : Rule => Json.mkObj [("smiles", Json.str r.smiles), ("comp", dictJ r.comp),
        ("absCharge", natJ r.absCharge)]) Generated.rulesManager),
    ("automatedRules", listJ (fun r : Rule => Json.mkObj [("smiles", Json.str r.smiles), ("comp", dictJ r.comp),
        ("absCharge", natJ r.absCharge)]) Generated.automatedRules)]

def parseRules (j : Json) : R (List Rule) := do
  (← toList j).mapM fun r => do
    let absq := match r.getObjVal? "absCharge" with | .ok v => (v.getNat?.toOption.getD 0) | .error _ => 0
    pure ⟨← strF r "smiles", ← parseDict (← field r "comp"), absq⟩

/-- `"db": "rulesManager" | "automatedRules"` or an explicit `"rules"` array -/
def rulesOf (j : Json) : R (List Rule) :=
  match j.getObjVal? "rules" with
  | .ok rs => parseRules rs
  | .error _ =>
    match j.getObjVal? "db" with
    | .ok (Json.str "automatedRules") => pure Generated.automatedRules
    | _ => pure Generated.rulesManager

def solutionJ (s : Solution) : Json :=
  listJ (fun st : Step => Json.arr #[Json.str st.rule.smiles, natJ st.ratio]) s

def opMatch (j : Json) : R Json := do
  let rules ← rulesOf j
  let data ← parseDict (← field j "data")
  return Json.mkObj [("solutions", listJ solutionJ (matchAll rules data))]

def opImpute (j : Json) : R Json := do
  let rules ← rulesOf j
  let data ← parseDict (← field j "data")
  return Json.mkObj [("tokens", optJ strListJ (imputeTokens rules data))]

def opConstraint (j : Json) : R Json := do
  let e : Entry := ⟨str (← strF j "reactants"), str (← strF j "products"),
    (optF j "added").bind (fun v => v.getStr?.toOption.map str)⟩
  let ban ← match j.getObjVal? "ban" with
    | .ok b => do pure ((← strList b).map str)
    | .error _ => pure (Generated.banList.map str)
  let (nr, ok) := constraintFit ban e
  return Json.mkObj [("new_reaction", Json.str nr.toString), ("certain", Json.bool ok)]

def parseCLabel (s : String) : CLabel :=
  match s with
  | "balanced" => .balanced | "products" => .products | "reactants" => .reactants | _ => .error

def opRbRow (j : Json) : R Json := do
  let rules ← rulesOf j
  let out := rbRow rules (Generated.banList.map str) (str (← strF j "reaction"))
    (← parseDict (← field j "r")) (← parseDict (← field j "p")) (parseCLabel (← strF j "carbon"))
  match out with
  | none => return Json.mkObj [("raises", Json.bool true)]
  | some o => return Json.mkObj [("reaction", Json.str o.reaction.toString),
      ("countedBalanced", Json.bool o.countedBalanced), ("applied", Json.bool o.applied),
      ("solved", Json.bool o.solved)]

def opStr (j : Json) : R Json := do
  let s := str (← strF j "s")
  let sub := str (← strF j "sub")
  return Json.mkObj [
    ("split", strListJ ((Str.splitOn '.' s).map Str.toString)),
    ("join", Json.str (Str.joinWith '.' (Str.splitOn '.' s)).toString),
    ("has", Json.bool (Str.hasInfix sub s)),
    ("count", natJ (Str.countOcc sub s)),
    ("remove", Json.str (Str.removeAll sub s).toString),
    ("ends", Json.bool (Str.endsWith s sub)),
    ("arrow", strListJ ((splitArrow s).map Str.toString)),
    ("dropmaps", Json.str (dropColonDigits s).toString)]

def dispatch? (op : String) (j : Json) : Option (R Json) :=
  match op with
  | "analyse" => some (opAnalyse j)
  | "decompose" => some (opDecompose j)
  | "carbonLabel" => some (opCarbonLabel j)
  | "tables" => some (opTables j)
  | "match" => some (opMatch j)
  | "impute" => some (opImpute j)
  | "constraint" => some (opConstraint j)
  | "rbRow" => some (opRbRow j)
  | "str" => some (opStr j)
  | _ => none

end SynRBL.Drv.Core
