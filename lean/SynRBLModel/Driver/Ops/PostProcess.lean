import SynRBLModel.Driver.JsonUtil
import SynRBLModel.Model.PostProcess
import SynRBLModel.Generated.Templates
import SynRBLModel.Generated.AtomicSymbols
/-! Driver ops of the reagent post-processing layer. The answers of `find_functional_reactivity` and
`count_radical_atoms` recorded on the real code travel with the op (`null` = the call raised). -/
namespace SynRBL.Drv.PostProcess
open Lean SynRBL.Drv SynRBL.PP

def parseFg (j : Json) : R (Option (List String × List String)) :=
  match optF j "fg" with
  | none => pure none
  | some v => do
    match ← toList v with
    | [a, b] => pure (some (← strList a, ← strList b))
    | _ => throw "fg is not a pair"

def optNat (j : Json) (k : String) : R (Option Nat) :=
  match optF j k with
  | none => pure none
  | some v => do pure (some (← v.getNat?))

def outcomeJ : Outcome → List (String × Json)
  | .skipped => [("outcome", Json.str "skipped"), ("curated", Json.null)]
  | .written c => [("outcome", Json.str "written"), ("curated", Json.str c.toString)]
  | .raises why => [("outcome", Json.str "raises"), ("curated", Json.null), ("why", Json.str why)]

/-- `{"op":"curate","reaction":s,"fg":[[…],[…]]|null,"countO":n|null,"countH":n|null}`: the oracle answers
are the ones recorded for exactly this reaction string / its reactant side -/
def opCurate (j : Json) : R Json := do
  let s := str (← strF j "reaction")
  let fg ← parseFg j
  let cO ← optNat j "countO"
  let cH ← optNat j "countH"
  let P : PPOracle := { fg := fun _ => fg, count := fun z _ => if z = 8 then cO else if z = 1 then cH else none }
  return Json.mkObj ([("label", Json.str (labelOf s).toString),
    ("written", optJ (fun c : Str => Json.str c.toString) (curate Generated.templates P s))] ++
    outcomeJ (curateR Generated.templates P s))

def verdictJ (v : Verdict) : Json := Json.str v.toString

/-- balance of every shipped template as the model computes it from the generated atom lists -/
def opTemplateBalance (_ : Json) : R Json := do
  let T := Generated.templates
  let sym : SymTable := ⟨Generated.atomicSymbols, Generated.symbolFallback⟩
  return Json.mkObj [
    ("asWritten", listJ (fun nt : String × Template => Json.arr #[Json.str nt.1, verdictJ (T.verdict sym nt.2 [])])
      T.allTemplates),
    ("unbalancedAsWritten", listJ (fun nv : String × Verdict => Json.arr #[Json.str nv.1, verdictJ nv.2])
      (T.unbalancedAsWritten sym)),
    ("replacement", listJ (fun x : String × Nat × Verdict => Json.arr #[Json.str x.1, natJ x.2.1, verdictJ x.2.2])
      (T.replacementVector sym)),
    ("compoundsOk", Json.bool T.compoundsOk), ("noGt", Json.bool T.noGt), ("noDot", Json.bool T.noDot),
    ("wellFormed", Json.bool T.wellFormed)]

def dispatch? (op : String) (j : Json) : Option (R Json) :=
  match op with
  | "curate" => some (opCurate j)
  | "templateBalance" => some (opTemplateBalance j)
  | _ => none

end SynRBL.Drv.PostProcess
