import SynRBLModel.Driver.JsonUtil
import SynRBLModel.Model.Standardize
import SynRBLModel.Model.StandardizeWitness
/-! Driver operations of the tautomer-standardisation layer (C20). Graphs travel as
`{"atoms": [[sym, charge, explicitH, noImplicit(0/1), otherH]], "bonds": [[a, b, kekuleOrder, special(0/1)]]}`.

* `stdGraph {g}` → hydrogen count per atom (valence arithmetic), which atoms the model computes, composition, charge
* `stdRewrite {g, kind, idx}` → what `standardize_enol` / `standardize_hemiketal` return on the graph
* `standardize {g, groups, reparsed, orders, canon, canonOrder}` → `__call__` with recorded oracle answers: outcome,
  one record per rewrite (result, law `renumbered`, theorem hypotheses and conclusion), final graph and composition
* `standardizeFixed {g, groups, canon, differs, orders}` → the patched `__call__` (`runF`) with oracle tables keyed by graph
* `stdWitnesses {}` → echo of `Model/StandardizeWitness.lean` (the data the witness theorems of `Properties/C20.lean` are
  about) and the model's outcome for every recorded application -/
namespace SynRBL.Drv.Standardize
open Lean SynRBL.Drv SynRBL.Standardize

def parseAtom (j : Json) : R Atom := do
  match ← toList j with
  | [s, q, e, ni, oh] =>
    pure ⟨← s.getStr?, ← q.getInt?, ← e.getNat?, (← ni.getNat?) != 0, ← oh.getNat?⟩
  | _ => throw "atom is not a 5-tuple"

def parseBond (j : Json) : R Bond := do
  match ← natList j with
  | [a, b, o, s] => pure ⟨a, b, o, s != 0⟩
  | _ => throw "bond is not a 4-tuple"

def parseGraph (j : Json) : R Graph := do
  return ⟨← (← arrF j "atoms").mapM parseAtom, ← (← arrF j "bonds").mapM parseBond⟩

def boolN (b : Bool) : Json := natJ (if b then 1 else 0)

def graphJ (g : Graph) : Json := Json.mkObj [
  ("atoms", listJ (fun (a : Atom) => Json.arr #[Json.str a.sym, intJ a.charge, natJ a.explicitH, boolN a.noImplicit,
    natJ a.otherH]) g.atoms),
  ("bonds", listJ (fun (e : Bond) => Json.arr #[natJ e.a, natJ e.b, natJ e.order, boolN e.special]) g.bonds)]

def compJ (g : Graph) : Json :=
  let c := compOf g
  Json.mkObj [("elements", listJ (fun (p : String × Nat) => Json.arr #[Json.str p.1, natJ p.2]) c.1), ("charge", intJ c.2)]

def errJ : ErrMsg → Json
  | .invalidIndices => Json.mkObj [("kind", "invalidIndices")]
  | .modifying => Json.mkObj [("kind", "modifying")]
  | .sanitizing a s v => Json.mkObj [("kind", "sanitizing"), ("atom", natJ a), ("sym", Json.str s), ("valence", natJ v)]

def excJ : Exc → Json
  | .atomIndex i => Json.mkObj [("kind", "atomIndex"), ("index", natJ i)]
  | .noOxygen => Json.mkObj [("kind", "noOxygen")]

def rewriteJ : Rewrite → Json
  | .smiles g => Json.mkObj [("result", "smiles"), ("g", graphJ g), ("hcounts", listJ natJ ((List.range g.n).map g.hCount)),
      ("comp", compJ g)]
  | .errorString e => Json.mkObj [("result", "errorString"), ("err", errJ e)]
  | .raises e => Json.mkObj [("result", "raises"), ("exc", excJ e)]
  | .unmodelled => Json.mkObj [("result", "unmodelled")]

def whyJ : RaiseWhy → Json
  | .emptyMolecule => Json.mkObj [("kind", "empty")]
  | .requeryErrorString e => Json.mkObj [("kind", "requery"), ("err", errJ e)]
  | .exception e => Json.mkObj [("kind", "exception"), ("exc", excJ e)]

def outcomeJ : Except Stop Graph → List (String × Json)
  | .ok g => [("outcome", "ok"), ("final", graphJ g), ("comp", compJ g)]
  | .error (.raises k w) => [("outcome", "raises"), ("step", natJ k), ("why", whyJ w)]
  | .error (.unmodelled k) => [("outcome", "unmodelled"), ("step", natJ k)]

def opStdGraph (j : Json) : R Json := do
  let g ← parseGraph (← field j "g")
  return Json.mkObj [
    ("hcounts", listJ natJ ((List.range g.n).map g.hCount)),
    ("modelled", listJ Json.bool ((List.range g.n).map g.modelled)),
    ("comp", compJ g)]

def rewriteOf (g : Graph) (kind : String) (idx : List Nat) : R Rewrite :=
  if kind = "enol" then pure (enolRewrite g idx)
  else if kind = "hemiketal" then pure (hemiketalRewrite g idx)
  else throw s!"bad rewrite kind {kind}"

def opStdRewrite (j : Json) : R Json := do
  let g ← parseGraph (← field j "g")
  return rewriteJ (← rewriteOf g (← strF j "kind") (← natList (← field j "idx")))

def parseGroup (j : Json) : R Group := do
  match ← toList j with
  | [n, idx] => pure (← n.getStr?, ← natList idx)
  | _ => throw "group is not a pair"

/-- the loop once more, this time keeping what every rewrite returned (same model functions as `run`) -/
def traceLoop (reparsed : List Graph) (orders : List (List Nat)) : List Group → Nat → Graph → List Json → List Json
  | [], _, _, acc => acc.reverse
  | grp :: gs, k, g, acc =>
    if !isRewriteGroup grp then traceLoop reparsed orders gs k g acc else
    let r := if grp.1 = "hemiketal" then hemiketalRewrite g grp.2 else enolRewrite g grp.2
    let base := [("kind", Json.str grp.1), ("idx", listJ natJ grp.2), ("rewrite", rewriteJ r), ("hyp", Json.bool (stepHypB g grp))]
    match r with
    | .smiles g' =>
      let next := reparsed.getD k default
      let rec_ := Json.mkObj (base ++ [
        ("renumbered", Json.bool (renumberedB (orders.getD k []) g' next)),
        ("conserved", Json.bool (sameCompB g' g)),
        ("reparseSameComp", Json.bool (sameCompB next g'))])
      traceLoop reparsed orders gs (k + 1) next (rec_ :: acc)
    | _ => (Json.mkObj base :: acc).reverse

def opStandardize (j : Json) : R Json := do
  let g ← parseGraph (← field j "g")
  let groups ← (← arrF j "groups").mapM parseGroup
  let reparsed ← (← arrF j "reparsed").mapM parseGraph
  let orders ← (← arrF j "orders").mapM natList
  let canon ← match optF j "canon" with
    | some c => parseGraph c
    | none => pure default
  let canonOrder ← match optF j "canonOrder" with
    | some c => natList c
    | none => pure []
  let O : Oracle := ⟨fun _ => groups, fun k _ => reparsed.getD k default, fun _ => canon⟩
  let res := run O g
  let last := match loop O groups (0, g) with
    | .ok st => some st.2
    | .error _ => none
  return Json.mkObj (outcomeJ res ++ [
    ("steps", Json.arr (traceLoop reparsed orders groups 0 g []).toArray),
    ("canonRenumbered", optJ (fun l => Json.bool (renumberedB canonOrder l canon)) last),
    ("canonSameComp", optJ (fun l => Json.bool (sameCompB canon l)) last),
    ("allStepsHyp", Json.bool (allStepsHyp O groups (0, g))),
    ("sameComp", match res with
      | .ok r => Json.bool (sameCompB r g)
      | .error _ => Json.null),
    ("inputComp", compJ g)])

def groupJ (grp : Group) : Json := Json.arr #[Json.str grp.1, listJ natJ grp.2]

def opStdWitnesses (_ : Json) : R Json := do
  return listJ (fun (d : Witness.Data) =>
    let O := d.oracle
    let inputs := d.input :: (List.range (d.smiles.length - 1)).map d.result
    Json.mkObj [
      ("name", Json.str d.name),
      ("smiles", strListJ d.smiles),
      ("input", graphJ d.input),
      ("groups", listJ (fun (p : Graph × List Group) => Json.arr #[graphJ p.1, listJ groupJ p.2]) d.groups),
      ("reparsed", listJ (fun (p : Graph × Graph) => Json.arr #[graphJ p.1, graphJ p.2]) d.reparsed),
      ("orders", listJ (listJ natJ) d.orders),
      ("canon", listJ (fun (p : Graph × Graph) => Json.arr #[graphJ p.1, graphJ p.2]) d.canon),
      ("canonOrders", listJ (listJ natJ) d.canonOrders),
      ("runs", listJ (fun g => Json.mkObj (outcomeJ (run O g) ++
        [("allStepsHyp", Json.bool (allStepsHyp O (O.findGroups g) (0, g))), ("inputComp", compJ g)])) inputs)])
    Witness.all

/-! ### the candidate fix (`runF`): oracle = association lists keyed by graph -/

def lookupG {β} (t : List (Graph × β)) (g : Graph) (d : β) : β :=
  match t.find? (fun p => p.1 == g) with
  | some p => p.2
  | none => d

/-- the attempts of one `_rewrite_once`, in order, each with the rewrite's result and whether it was accepted -/
def attemptsT (O : OracleF) (orders : List (Graph × List Nat)) (g : Graph) : List Group → List Json → List Json × Option Graph
  | [], acc => (acc.reverse, none)
  | grp :: gs, acc =>
    if !isRewriteGroup grp then attemptsT O orders g gs acc else
    let r := if grp.1 = "hemiketal" then hemiketalRewrite g grp.2 else enolRewrite g grp.2
    let a := acceptF O g r
    let acc' := fun (accepted : Bool) (extra : List (String × Json)) =>
      Json.mkObj ([("kind", Json.str grp.1), ("idx", listJ natJ grp.2), ("rewrite", rewriteJ r), ("accepted", Json.bool accepted),
        ("hyp", Json.bool (stepHypB g grp))] ++ extra) :: acc
    match a, r with
    | .ok (some g2), .smiles g' =>
      ((acc' true [("renumbered", Json.bool (renumberedB (lookupG orders g' []) g' g2))]).reverse, some g2)
    | .ok (some g2), _ => ((acc' true []).reverse, some g2)
    | .ok none, .smiles g' => attemptsT O orders g gs (acc' false [("sameFormula", Json.bool (sameCompB g' g))])
    | .ok none, _ => attemptsT O orders g gs (acc' false [])
    | .error _, _ => ((acc' false []).reverse, none)

def iterT (O : OracleF) (orders : List (Graph × List Nat)) : Nat → Graph → List Json → List Json
  | 0, _, acc => acc.reverse
  | k + 1, g, acc =>
    let (att, next) := attemptsT O orders g (O.findGroups g) []
    let acc := Json.arr att.toArray :: acc
    match next with
    | some g' => iterT O orders k g' acc
    | none => acc.reverse

def opStandardizeFixed (j : Json) : R Json := do
  let g ← parseGraph (← field j "g")
  let groups ← (← arrF j "groups").mapM fun p => do
    match ← toList p with
    | [a, b] => pure (← parseGraph a, ← (← toList b).mapM parseGroup)
    | _ => throw "groups entry is not a pair"
  let canon ← (← arrF j "canon").mapM fun p => do
    match ← toList p with
    | [a, b] => pure (← parseGraph a, ← parseGraph b)
    | _ => throw "canon entry is not a pair"
  let differs ← (← arrF j "differs").mapM fun p => do
    match ← toList p with
    | [a, b, c] => pure ((← parseGraph a, ← parseGraph b), (← c.getNat?) != 0)
    | _ => throw "differs entry is not a triple"
  let orders ← (← arrF j "orders").mapM fun p => do
    match ← toList p with
    | [a, b] => pure (← parseGraph a, ← natList b)
    | _ => throw "orders entry is not a pair"
  let O : OracleF := ⟨fun x => lookupG groups x [], fun x => lookupG canon x x,
    fun a b => match differs.find? (fun p => p.1.1 == a && p.1.2 == b) with
      | some p => p.2
      | none => true⟩
  let s := O.canon g
  let out := match runF O g with
    | .ok (r, ex) => [("outcome", Json.str "ok"), ("final", graphJ r), ("comp", compJ r), ("exhausted", Json.bool ex),
        ("sameComp", Json.bool (sameCompB r g))]
    | .error (.raises e) => [("outcome", Json.str "raises"), ("exc", excJ e)]
    | .error .unmodelled => [("outcome", Json.str "unmodelled")]
  return Json.mkObj (out ++ [
    ("rounds", Json.arr (if s.n = 0 then #[] else (iterT O orders (s.bonds.length + 1) s []).toArray)),
    ("inputComp", compJ g)])

def dispatch? (op : String) (j : Json) : Option (R Json) :=
  match op with
  | "stdGraph" => some (opStdGraph j)
  | "stdRewrite" => some (opStdRewrite j)
  | "standardize" => some (opStandardize j)
  | "stdWitnesses" => some (opStdWitnesses j)
  | "standardizeFixed" => some (opStandardizeFixed j)
  | _ => none

end SynRBL.Drv.Standardize
