import SynRBLModel.Driver.JsonUtil
import SynRBLModel.Model.McsSelect
/-! Driver operations of the MCS-search bookkeeping layer (C10).

* `{"op":"mcsLargest","conds":[[[n,…],…],…]}` (per condition, per row: atom counts of `mcs_results`) →
  `{"sel":[c|null,…]}` or `{"raises":true}` (no condition)
* `{"op":"mcsLargestT","totals":[[…],…],"firsts":[[…],…]}` → the same on explicit tables of totals / first-pattern sizes
* `{"op":"mcsAttach","rows":[{"id","solved"},…],"results":[[id,tag,issue],…]}` → `{"rows":[{"mcs","issue"},…]}` or
  `{"raises":"KeyError"}`; `mcs` is `"absent"`, `null` or the tag
* `{"op":"mcsFind","rows":[{"id","solved"},…],"tables":[[{"id","sizes","tag","issue"},…],…]}` → `{"rows":[{"mcs","issue"},…]}`
  (`mcs` = `"absent"` | `null` | `{"id","tag"}`) or `{"raises":true}`
* `{"op":"mcsLoop","pre":[n|null,…],"outcomes":["found"|"cancelled"|"raisedBefore"|"raisedAfter",…]}` (reactant `i` has
  first-loop overlap `pre[i]` and second-loop outcome `outcomes[i]`; its pattern is `i`) →
  `{"sorted","mcsList","mcsListOld","entry":{…},"entryOld":{…}}` -/
namespace SynRBL.Drv.McsSelect
open Lean SynRBL.Drv SynRBL.Mcs

def natLists (j : Json) : R (List (List Nat)) := do (← toList j).mapM natList
def parseConds (j : Json) : R (List (List (List Nat))) := do (← toList j).mapM natLists

def selJ : Option (List (Option CondIdx)) → Json
  | none => Json.mkObj [("raises", Json.bool true)]
  | some sel => Json.mkObj [("sel", listJ (optJ natJ) sel)]

def opLargest (j : Json) : R Json := do
  return selJ (getLargest (← parseConds (← field j "conds")))

def opLargestT (j : Json) : R Json := do
  return selJ (getLargestT (← natLists (← field j "totals")) (← natLists (← field j "firsts")))

def parseRows {P} (j : Json) : R (List (Row Unit P)) := do
  (← toList j).mapM fun r => do
    pure { id := ← strF r "id", solved := ← boolF r "solved", inp := (), mcs := .absent, issue := none }

def mcsJ {P} (f : P → Json) : McsCol P → Json
  | .absent => Json.str "absent"
  | .null => Json.null
  | .data p => f p

def rowsJ {P} (f : P → Json) : Option (List (Row Unit P)) → Json
  | none => Json.mkObj [("raises", Json.str "KeyError")]
  | some rows => Json.mkObj [("rows", listJ (fun r : Row Unit P =>
      Json.mkObj [("mcs", mcsJ f r.mcs), ("issue", optJ Json.str r.issue)]) rows)]

def opAttach (j : Json) : R Json := do
  let rows : List (Row Unit String) ← parseRows (← field j "rows")
  let results ← (← arrF j "results").mapM fun x => do
    match ← toList x with
    | [i, t, s] => pure ((← i.getStr?), (← t.getStr?), (← s.getStr?))
    | _ => throw "result is not a triple"
  return rowsJ Json.str (attach (idMap rows) rows results)

def opFind (j : Json) : R Json := do
  let rows : List (Row Unit (Payload Unit String)) ← parseRows (← field j "rows")
  let tables ← (← arrF j "tables").mapM fun t => do
    (← toList t).mapM fun e => do
      pure ({ id := ← strF e "id", found := ⟨← natList (← field e "sizes"), ← strF e "tag", ← strF e "issue"⟩ } : Mcs.Entry String)
  return rowsJ (fun p : Payload Unit String => Json.mkObj [("id", Json.str p.2.id), ("tag", Json.str p.2.found.data)])
    (findT (fun _ => ()) rows tables)

def parseOutcome (i : Nat) (s : String) : R (Outcome Nat) :=
  match s with
  | "found" => pure (.found i)
  | "cancelled" => pure .cancelled
  | "raisedBefore" => pure .raisedBefore
  | "raisedAfter" => pure (.raisedAfter i)
  | _ => throw s!"bad outcome {s}"

def entryJ (e : McsData Nat Nat) : Json :=
  Json.mkObj [("mcsResults", listJ natJ e.mcsResults), ("sortedReactants", listJ natJ e.sortedReactants),
    ("issue", Json.str e.issue)]

def opLoop (j : Json) : R Json := do
  let pre ← (← arrF j "pre").mapM fun x => match x with
    | Json.null => pure (none : Option Nat)
    | v => do pure (some (← v.getNat?))
  let outs ← (← strList (← field j "outcomes")).zipIdx.mapM fun si => parseOutcome si.2 si.1
  let reactants := List.range pre.length
  let preF : Nat → Option Nat := fun r => (pre.getD r none)
  let step : Nat → Unit → Outcome Nat × Unit := fun r _ => (outs.getD r .cancelled, ())
  let sorted := firstLoop preF reactants
  return Json.mkObj [
    ("sorted", listJ natJ sorted),
    ("mcsList", listJ (optJ natJ) (mcsList step () sorted)),
    ("mcsListOld", listJ (optJ natJ) (mcsListOld step () sorted)),
    ("entry", entryJ (searchEntry preF step reactants ())),
    ("entryOld", entryJ (searchEntryOld preF step reactants ()))]

def dispatch? (op : String) (j : Json) : Option (R Json) :=
  match op with
  | "mcsLargest" => some (opLargest j)
  | "mcsLargestT" => some (opLargestT j)
  | "mcsAttach" => some (opAttach j)
  | "mcsFind" => some (opFind j)
  | "mcsLoop" => some (opLoop j)
  | _ => none

end SynRBL.Drv.McsSelect
