/-!
# Python `dict[str, int]` as an association list

SynRBL stores compositions (`{"C": 2, "H": 6, "Q": -1}`) in Python dictionaries and its logic depends on
*key presence* and *insertion order*, not only on values: the decomposer stores `Q` only when it is
non-zero, the comparator branches on key sets, the matcher deletes keys that reach zero.
The model therefore is an association list; a well-formed dictionary has `keys.Nodup`.
-/
namespace SynRBL

abbrev Key := String
abbrev Dict := List (Key × Int)

namespace Dict

def get? : Dict → Key → Option Int
  | [], _ => none
  | (k', v) :: t, k => if k' = k then some v else get? t k

/-- `d.get(k, 0)` -/
def val (d : Dict) (k : Key) : Int := (d.get? k).getD 0
/-- `k in d` -/
def contains (d : Dict) (k : Key) : Bool := (d.get? k).isSome
def keys (d : Dict) : List Key := d.map (·.1)

/-- `d[k] = v` (keeps the position of an existing key, appends a new one) -/
def set : Dict → Key → Int → Dict
  | [], k, v => [(k, v)]
  | (k', v') :: t, k, v => if k' = k then (k, v) :: t else (k', v') :: set t k v

/-- `del d[k]` -/
def erase : Dict → Key → Dict
  | [], _ => []
  | (k', v') :: t, k => if k' = k then t else (k', v') :: erase t k

/-- `d[k] += n` on a `defaultdict(int)` -/
def incr (d : Dict) (k : Key) (n : Int) : Dict := d.set k (d.val k + n)

/-- well-formed: what a Python dict always is -/
def WF (d : Dict) : Prop := d.keys.Nodup

instance (d : Dict) : Decidable d.WF := inferInstanceAs (Decidable (List.Nodup _))

@[simp] theorem val_nil (k : Key) : val [] k = 0 := rfl
@[simp] theorem contains_nil (k : Key) : contains [] k = false := rfl
@[simp] theorem keys_nil : keys [] = [] := rfl
@[simp] theorem keys_cons (a : Key × Int) (t : Dict) : keys (a :: t) = a.1 :: keys t := rfl

theorem val_cons (k' : Key) (v' : Int) (t : Dict) (k : Key) :
    val ((k', v') :: t) k = if k' = k then v' else val t k := by
  simp only [val, get?]; split <;> simp

theorem contains_cons (k' : Key) (v' : Int) (t : Dict) (k : Key) :
    contains ((k', v') :: t) k = (decide (k' = k) || contains t k) := by
  simp only [contains, get?]; split <;> simp_all

theorem contains_iff (d : Dict) (k : Key) : d.contains k = true ↔ k ∈ d.keys := by
  induction d with
  | nil => simp
  | cons a t ih =>
    obtain ⟨k', v'⟩ := a
    rw [contains_cons]
    simp only [keys_cons, List.mem_cons, Bool.or_eq_true, decide_eq_true_eq, ih]
    constructor
    · rintro (h | h)
      · exact Or.inl h.symm
      · exact Or.inr h
    · rintro (h | h)
      · exact Or.inl h.symm
      · exact Or.inr h

theorem contains_eq_false_iff (d : Dict) (k : Key) : d.contains k = false ↔ k ∉ d.keys := by
  rw [← contains_iff]; simp

theorem val_not_mem (d : Dict) (k : Key) (h : k ∉ d.keys) : d.val k = 0 := by
  induction d with
  | nil => rfl
  | cons a t ih =>
    obtain ⟨ka, va⟩ := a
    simp only [keys_cons, List.mem_cons, not_or] at h
    rw [val_cons]; split
    · rename_i heq; exact absurd heq.symm h.1
    · exact ih h.2

theorem val_of_not_contains (d : Dict) (k : Key) (h : d.contains k = false) : d.val k = 0 :=
  val_not_mem d k ((contains_eq_false_iff d k).1 h)

theorem val_of_mem (d : Dict) (hd : d.WF) (k : Key) (v : Int) (h : (k, v) ∈ d) : d.val k = v := by
  induction d with
  | nil => simp at h
  | cons a t ih =>
    obtain ⟨ka, va⟩ := a
    simp only [WF, keys_cons, List.nodup_cons] at hd
    rw [val_cons]
    rcases List.mem_cons.1 h with h | h
    · cases h; simp
    · split
      · rename_i heq; subst heq
        exact absurd (List.mem_map.2 ⟨(ka, v), h, rfl⟩) hd.1
      · exact ih hd.2 h

theorem val_set (d : Dict) (k k2 : Key) (v : Int) :
    (d.set k v).val k2 = if k = k2 then v else d.val k2 := by
  induction d with
  | nil => simp [set, val_cons]
  | cons h t ih =>
    obtain ⟨k', v'⟩ := h
    simp only [set]
    split
    · subst_vars; simp only [val_cons]; split <;> simp_all
    · simp only [val_cons, ih]; grind

theorem mem_keys_set (d : Dict) (k : Key) (v : Int) (k' : Key) :
    k' ∈ (d.set k v).keys ↔ k' = k ∨ k' ∈ d.keys := by
  induction d with
  | nil => simp [set]
  | cons b t ih =>
    obtain ⟨kb, vb⟩ := b
    simp only [set]; split
    · subst_vars; simp
    · simp only [keys_cons, List.mem_cons, ih]; grind

theorem mem_keys_erase (d : Dict) (k k' : Key) (h : k' ∈ (d.erase k).keys) : k' ∈ d.keys := by
  induction d with
  | nil => simp [erase] at h
  | cons b t ih =>
    obtain ⟨kb, vb⟩ := b
    simp only [erase] at h; split at h
    · simp [h]
    · simp only [keys_cons, List.mem_cons] at h ⊢
      rcases h with h | h
      · exact Or.inl h
      · exact Or.inr (ih h)

theorem wf_set (d : Dict) (k : Key) (v : Int) (h : d.WF) : (d.set k v).WF := by
  induction d with
  | nil => simp [set, WF]
  | cons a t ih =>
    obtain ⟨k', v'⟩ := a
    simp only [set]
    split
    · subst_vars; simpa [WF] using h
    · simp only [WF, keys_cons, List.nodup_cons] at h ⊢
      refine ⟨?_, ih h.2⟩
      intro hm
      rcases (mem_keys_set t k v k').1 hm with h1 | h1
      · rename_i hne; exact hne h1
      · exact h.1 h1

theorem wf_erase (d : Dict) (k : Key) (h : d.WF) : (d.erase k).WF := by
  induction d with
  | nil => simp [erase, WF]
  | cons a t ih =>
    obtain ⟨k', v'⟩ := a
    simp only [erase]
    simp only [WF, keys_cons, List.nodup_cons] at h
    split
    · exact h.2
    · simp only [WF, keys_cons, List.nodup_cons]
      exact ⟨fun hm => h.1 (mem_keys_erase t k k' hm), ih h.2⟩

/-- erasing a key in a dict with unique keys zeroes that key only -/
theorem val_erase (d : Dict) (hd : d.WF) (k k2 : Key) :
    (d.erase k).val k2 = if k = k2 then 0 else d.val k2 := by
  induction d with
  | nil => simp [erase]
  | cons h t ih =>
    obtain ⟨k', v'⟩ := h
    simp only [WF, keys_cons, List.nodup_cons] at hd
    simp only [erase]
    split
    · subst_vars
      split
      · subst_vars; exact val_not_mem t _ hd.1
      · rw [val_cons]; simp_all
    · rw [val_cons, val_cons, ih hd.2]; grind

theorem get?_erase_ne (d : Dict) (k k' : Key) (h : k ≠ k') : (d.erase k).get? k' = d.get? k' := by
  induction d with
  | nil => rfl
  | cons a t ih =>
    obtain ⟨ka, va⟩ := a
    simp only [erase]
    split
    · subst_vars; simp [get?, h]
    · simp only [get?, ih]

theorem get?_set_ne (d : Dict) (k k' : Key) (v : Int) (h : k ≠ k') :
    (d.set k v).get? k' = d.get? k' := by
  induction d with
  | nil => simp [set, get?, h]
  | cons a t ih =>
    obtain ⟨ka, va⟩ := a
    simp only [set]
    split
    · subst_vars; simp [get?, h]
    · simp only [get?, ih]

theorem contains_set_self (d : Dict) (k : Key) (v : Int) : (d.set k v).contains k = true := by
  rw [contains_iff, mem_keys_set]; exact Or.inl rfl

theorem wf_incr (d : Dict) (k : Key) (n : Int) (h : d.WF) : (d.incr k n).WF := wf_set _ _ _ h

theorem val_incr (d : Dict) (k k2 : Key) (n : Int) :
    (d.incr k n).val k2 = if k = k2 then d.val k2 + n else d.val k2 := by
  unfold incr; rw [val_set]; split <;> simp_all

/-- pointwise sum of two dictionaries read as total functions -/
def add (a b : Dict) (k : Key) : Int := a.val k + b.val k

end Dict
end SynRBL
