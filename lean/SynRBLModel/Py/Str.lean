/-!
# Python `str` operations that SynRBL's string surgery uses, on `List Char`

`split`, `join`, `in`, `count`, `replace(sub, "")`, `endswith`, all with CPython's left-to-right,
non-overlapping semantics.  The Lean re-implementations are differentially tested against CPython by the
harness (`corr_str`).
-/
namespace SynRBL

abbrev Str := List Char

namespace Str

/-- `s.split(c)` for a one-character separator (never returns the empty list) -/
def splitOn (c : Char) : Str → List Str
  | [] => [[]]
  | x :: xs =>
    if x = c then [] :: splitOn c xs
    else match splitOn c xs with
      | [] => [[x]]
      | t :: ts => (x :: t) :: ts

/-- `c.join(ts)` -/
def joinWith (c : Char) : List Str → Str
  | [] => []
  | [t] => t
  | t :: t' :: ts => t ++ c :: joinWith c (t' :: ts)

/-- `sub in s` -/
def hasInfix (sub : Str) : Str → Bool
  | [] => sub.isEmpty
  | x :: xs => sub.isPrefixOf (x :: xs) || hasInfix sub xs

/-- helper of `removeAll`/`countOcc`: `skip` characters of a match are still to be consumed -/
def removeAllGo (sub : Str) : Nat → Str → Str
  | _, [] => []
  | skip + 1, _ :: xs => removeAllGo sub skip xs
  | 0, x :: xs =>
    if sub.isPrefixOf (x :: xs) then removeAllGo sub (sub.length - 1) xs
    else x :: removeAllGo sub 0 xs

/-- `s.replace(sub, "")` for a non-empty `sub` -/
def removeAll (sub s : Str) : Str := removeAllGo sub 0 s

def countOccGo (sub : Str) : Nat → Str → Nat
  | _, [] => 0
  | skip + 1, _ :: xs => countOccGo sub skip xs
  | 0, x :: xs =>
    if sub.isPrefixOf (x :: xs) then 1 + countOccGo sub (sub.length - 1) xs
    else countOccGo sub 0 xs

/-- `s.count(sub)` for a non-empty `sub` -/
def countOcc (sub s : Str) : Nat := countOccGo sub 0 s

/-- `s.endswith(x)` -/
def endsWith (s x : Str) : Bool := x.isSuffixOf s

/-- `x * n` -/
def rep (x : Str) : Nat → Str
  | 0 => []
  | n + 1 => x ++ rep x n

end Str

def str (s : String) : Str := s.toList
def Str.toString (s : Str) : String := String.ofList s

end SynRBL
