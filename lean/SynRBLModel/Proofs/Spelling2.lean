import SynRBLModel.Proofs.Spelling
import SynRBLModel.Proofs.Matcher
/-!
# The rule-based outcome ignores the key order of the composition dictionaries (C14, second half)

`Proofs/Spelling.lean` shows that the comparator's verdict only depends on key membership and values
(`DictEquiv`).  This file carries the same invariance through the rest of the rule-based path:

* the analysis before the matcher (`diffDicts`, `forceQ`, `enforceProductSide`, `reverseIfNegative`, `waterStep`,
  `analyse`): verdict and number of waters are *equal*, the resulting formula is *equivalent* (its key order does
  depend on the key order of the inputs: `diffDicts` concatenates two `filterMap`s, `Dict.set` appends);
* the matcher (`prepData`, `canMatch`, `ratioOf`, `subStep`, `subtractRule`, `exitOk`, `dfs`, `matchAll`,
  `imputeTokens`): its result is *equal* on equivalent dictionaries — the order of the solutions is fixed by the
  order of the rule list, never by the order of the data dictionary.

Technique: for dictionaries with unique keys, `DictEquiv a b` is the same as `List.Perm a b`
(`perm_of_equiv` / `equiv_of_perm`); the list-shaped functions (`filter`, `filterMap`, `map`, `++`, `length`,
`any`, `sum`) are handled on the `Perm` side, the dictionary-shaped ones (`set`, `erase`, `get?`) on the
`DictEquiv` side.  `WF` (unique keys) is what a Python dict always satisfies; it is needed (`exitOk` and
`reverseIfNegative` look at `length`), see `dictEquiv_needs_wf` at the end.
-/
namespace SynRBL
open Dict

/-! ### `DictEquiv` basics -/

theorem DictEquiv.refl (a : Dict) : DictEquiv a a := fun _ => ⟨rfl, rfl⟩

theorem DictEquiv.trans {a b c : Dict} (h1 : DictEquiv a b) (h2 : DictEquiv b c) : DictEquiv a c :=
  fun k => ⟨(h1 k).1.trans (h2 k).1, (h1 k).2.trans (h2 k).2⟩

theorem DictEquiv.val_eq {a b : Dict} (h : DictEquiv a b) : Dict.val a = Dict.val b :=
  funext fun k => (h k).2

theorem DictEquiv.contains_eq {a b : Dict} (h : DictEquiv a b) : Dict.contains a = Dict.contains b :=
  funext fun k => (h k).1

theorem get?_eq_of_contains_val (d : Dict) (k : Key) :
    d.get? k = if d.contains k then some (d.val k) else none := by
  cases hc : d.contains k with
  | true => simpa using Dict.get?_eq_some_val d k hc
  | false => simpa using Dict.get?_eq_none d k hc

theorem get?_equiv {a b : Dict} (h : DictEquiv a b) (k : Key) : a.get? k = b.get? k := by
  rw [get?_eq_of_contains_val a, get?_eq_of_contains_val b, (h k).1, (h k).2]

/-! ### unique keys: equivalence = permutation -/

theorem mem_iff_of_wf (d : Dict) (hd : d.WF) (k : Key) (v : Int) :
    (k, v) ∈ d ↔ d.contains k = true ∧ d.val k = v := by
  constructor
  · intro h
    exact ⟨(contains_iff d k).2 (List.mem_map.2 ⟨(k, v), h, rfl⟩), val_of_mem d hd k v h⟩
  · rintro ⟨hc, hv⟩
    obtain ⟨⟨k', v'⟩, hm, hk⟩ := List.mem_map.1 ((contains_iff d k).1 hc)
    simp only at hk; subst hk
    have := val_of_mem d hd k' v' hm
    rw [← hv, this]; exact hm

theorem nodup_of_wf (d : Dict) (hd : d.WF) : d.Nodup := by
  induction d with
  | nil => simp
  | cons a t ih =>
    simp only [WF, keys_cons, List.nodup_cons] at hd
    rw [List.nodup_cons]
    exact ⟨fun h => hd.1 (List.mem_map.2 ⟨a, h, rfl⟩), ih hd.2⟩

/-- two dictionaries with unique keys, the same keys and the same values are permutations of each other -/
theorem perm_of_equiv {a b : Dict} (ha : a.WF) (hb : b.WF) (h : DictEquiv a b) : a.Perm b := by
  rw [List.perm_ext_iff_of_nodup (nodup_of_wf a ha) (nodup_of_wf b hb)]
  rintro ⟨k, v⟩
  rw [mem_iff_of_wf a ha, mem_iff_of_wf b hb, (h k).1, (h k).2]

theorem wf_of_perm {a b : Dict} (h : a.Perm b) (ha : a.WF) : b.WF :=
  (h.map (fun kv : Key × Int => kv.1)).nodup ha

theorem equiv_of_perm {a b : Dict} (h : a.Perm b) (ha : a.WF) : DictEquiv a b := by
  have hb := wf_of_perm h ha
  intro k
  have hc : a.contains k = b.contains k := by
    rw [Bool.eq_iff_iff, contains_iff, contains_iff]
    exact (h.map (·.1)).mem_iff
  refine ⟨hc, ?_⟩
  cases hk : a.contains k with
  | true =>
    have hm : (k, a.val k) ∈ a := (mem_iff_of_wf a ha k _).2 ⟨hk, rfl⟩
    exact (val_of_mem b hb k _ (h.mem_iff.1 hm)).symm
  | false =>
    rw [val_of_not_contains a k hk, val_of_not_contains b k (hc ▸ hk)]

theorem length_equiv {a b : Dict} (ha : a.WF) (hb : b.WF) (h : DictEquiv a b) : a.length = b.length :=
  (perm_of_equiv ha hb h).length_eq

/-! ### `set` and `erase` -/

theorem contains_set (d : Dict) (k k2 : Key) (v : Int) :
    (d.set k v).contains k2 = (decide (k = k2) || d.contains k2) := by
  rw [Bool.eq_iff_iff]
  simp only [contains_iff, mem_keys_set, Bool.or_eq_true, decide_eq_true_eq]
  constructor
  · rintro (h | h)
    · exact Or.inl h.symm
    · exact Or.inr h
  · rintro (h | h)
    · exact Or.inl h.symm
    · exact Or.inr h

theorem not_mem_keys_erase (d : Dict) (hd : d.WF) (k : Key) : k ∉ (d.erase k).keys := by
  induction d with
  | nil => simp [erase]
  | cons a t ih =>
    obtain ⟨k', v'⟩ := a
    simp only [WF, keys_cons, List.nodup_cons] at hd
    simp only [erase]
    split
    · subst_vars; exact hd.1
    · rename_i hne
      simp only [keys_cons, List.mem_cons, not_or]
      exact ⟨fun e => hne e.symm, ih hd.2⟩

theorem contains_erase (d : Dict) (hd : d.WF) (k k2 : Key) :
    (d.erase k).contains k2 = (!decide (k = k2) && d.contains k2) := by
  by_cases h : k = k2
  · subst h
    simp only [decide_true, Bool.not_true, Bool.false_and]
    exact (contains_eq_false_iff _ _).2 (not_mem_keys_erase d hd k)
  · simp only [h, decide_false, Bool.not_false, Bool.true_and]
    unfold contains
    rw [get?_erase_ne d k k2 h]

theorem set_equiv {a b : Dict} (k : Key) (v : Int) (h : DictEquiv a b) :
    DictEquiv (a.set k v) (b.set k v) := by
  intro k2
  rw [contains_set, contains_set, val_set, val_set, (h k2).1, (h k2).2]
  exact ⟨rfl, rfl⟩

theorem erase_equiv {a b : Dict} (k : Key) (ha : a.WF) (hb : b.WF) (h : DictEquiv a b) :
    DictEquiv (a.erase k) (b.erase k) := by
  intro k2
  rw [contains_erase a ha, contains_erase b hb, val_erase a ha, val_erase b hb, (h k2).1, (h k2).2]
  exact ⟨rfl, rfl⟩

/-! ### the matcher -/

theorem canMatch_equiv (rule : Dict) {d d' : Dict} (h : DictEquiv d d') :
    canMatch rule d = canMatch rule d' := by
  unfold canMatch
  rw [h.val_eq, h.contains_eq]

theorem ratioOf_equiv (rule : Dict) {d d' : Dict} (h : DictEquiv d d') :
    ratioOf rule d = ratioOf rule d' := by
  unfold ratioOf
  rw [h.val_eq]

/-- one subtraction step preserves equivalence (and unique keys) -/
theorem subStep_equiv (ratio : Int) (kv : Key × Int) {d d' : Dict} (hd : d.WF) (hd' : d'.WF)
    (h : DictEquiv d d') :
    DictEquiv (subStep ratio d kv) (subStep ratio d' kv) ∧
      (subStep ratio d kv).WF ∧ (subStep ratio d' kv).WF := by
  refine ⟨?_, subStep_nodup ratio d hd kv, subStep_nodup ratio d' hd' kv⟩
  unfold subStep
  rw [(h kv.1).1, (h kv.1).2]
  split
  · simp only
    split
    · exact erase_equiv _ hd hd' h
    · exact set_equiv _ _ h
  · exact h

theorem subtractRule_equiv (rule : Dict) (ratio : Int) :
    ∀ {d d' : Dict}, d.WF → d'.WF → DictEquiv d d' →
      DictEquiv (subtractRule rule ratio d) (subtractRule rule ratio d') ∧
        (subtractRule rule ratio d).WF ∧ (subtractRule rule ratio d').WF := by
  unfold subtractRule
  induction rule with
  | nil => intro d d' hd hd' h; exact ⟨h, hd, hd'⟩
  | cons kv t ih =>
    intro d d' hd hd' h
    obtain ⟨h1, h2, h3⟩ := subStep_equiv ratio kv hd hd' h
    simp only [List.foldl_cons]
    exact ih h2 h3 h1

theorem exitOk_equiv {d d' : Dict} (hd : d.WF) (hd' : d'.WF) (h : DictEquiv d d') :
    exitOk d = exitOk d' := by
  unfold exitOk
  rw [length_equiv hd hd' h, (h "Q").2]

/-- **the depth-first search returns the same list of completions (same order) for equivalent dictionaries** -/
theorem dfs_equiv (rules : List Rule) :
    ∀ fuel d d' path, d.WF → d'.WF → DictEquiv d d' → dfs rules fuel d path = dfs rules fuel d' path := by
  intro fuel
  induction fuel with
  | zero => intro d d' path _ _ _; simp only [dfs]
  | succ n ih =>
    intro d d' path hd hd' h
    simp only [dfs]
    rw [exitOk_equiv hd hd' h]
    split
    · rfl
    · congr 1
      funext r
      rw [canMatch_equiv r.comp h, ratioOf_equiv r.comp h]
      split
      · split
        · rfl
        · obtain ⟨h1, h2, h3⟩ := subtractRule_equiv r.comp _ hd hd' h
          exact ih _ _ _ h2 h3 h1
      · rfl

theorem prepData_perm {d d' : Dict} (hd : d.WF) (hd' : d'.WF) (h : DictEquiv d d') :
    (prepData d).Perm (prepData d') := by
  unfold prepData
  apply List.Perm.filter
  rw [(h "Q").1]
  split
  · exact perm_of_equiv hd hd' h
  · exact (perm_of_equiv hd hd' h).append_right _

theorem prepData_equiv {d d' : Dict} (hd : d.WF) (hd' : d'.WF) (h : DictEquiv d d') :
    DictEquiv (prepData d) (prepData d') :=
  equiv_of_perm (prepData_perm hd hd' h) (prepData_wf d hd)

theorem weight_perm {d d' : Dict} (h : d.Perm d') : weight d = weight d' := by
  unfold weight
  exact (h.map _).sum_nat

theorem weight_equiv {d d' : Dict} (hd : d.WF) (hd' : d'.WF) (h : DictEquiv d d') :
    weight (prepData d) = weight (prepData d') :=
  weight_perm (prepData_perm hd hd' h)

/-- **the matcher's ranked list of completions does not depend on the key order of the formula** -/
theorem matchAll_equiv (rules : List Rule) (d d' : Dict) (hd : d.WF) (hd' : d'.WF) (h : DictEquiv d d') :
    matchAll rules d = matchAll rules d' := by
  unfold matchAll
  simp only
  rw [weight_equiv hd hd' h,
    dfs_equiv (sortRules rules) _ _ _ [] (prepData_wf d hd) (prepData_wf d' hd') (prepData_equiv hd hd' h)]

theorem imputeTokens_equiv (rules : List Rule) (d d' : Dict) (hd : d.WF) (hd' : d'.WF) (h : DictEquiv d d') :
    imputeTokens rules d = imputeTokens rules d' := by
  unfold imputeTokens
  rw [matchAll_equiv rules d d' hd hd' h]

/-! ### the analysis before the matcher -/

theorem wf_filterMap (d : Dict) (hd : d.WF) (f : Key × Int → Option (Key × Int))
    (hf : ∀ kv kv', f kv = some kv' → kv'.1 = kv.1) : Dict.WF (d.filterMap f) := by
  induction d with
  | nil => simpa using hd
  | cons a t ih =>
    simp only [WF, keys_cons, List.nodup_cons] at hd
    simp only [List.filterMap_cons]
    cases hfa : f a with
    | none => exact ih hd.2
    | some b =>
      simp only [WF, keys_cons, List.nodup_cons]
      refine ⟨?_, ih hd.2⟩
      intro hm
      rw [hf a b hfa] at hm
      have := Dict.contains_filterMap t f hf a.1 ((contains_iff _ _).2 hm)
      exact hd.1 ((contains_iff _ _).1 this)

theorem wf_append (a b : Dict) (ha : a.WF) (hb : b.WF)
    (hab : ∀ k, a.contains k = true → b.contains k = true → False) : Dict.WF (a ++ b) := by
  simp only [WF, keys, List.map_append] at *
  rw [List.nodup_append]
  refine ⟨ha, hb, ?_⟩
  intro x hx y hy e
  subst e
  exact hab x ((contains_iff a x).2 hx) ((contains_iff b x).2 hy)

/-- a concatenation `r.filterMap f ++ p.filterMap g` with key-preserving `f`, `g` where `g` only keeps keys
absent from `r` has unique keys -/
theorem wf_two_parts (r p : Dict) (hr : r.WF) (hp : p.WF) (f g : Key × Int → Option (Key × Int))
    (hf : ∀ kv kv', f kv = some kv' → kv'.1 = kv.1)
    (hg : ∀ kv kv', g kv = some kv' → kv'.1 = kv.1 ∧ r.contains kv.1 = false) :
    Dict.WF (r.filterMap f ++ p.filterMap g) := by
  apply wf_append _ _ (wf_filterMap r hr f hf) (wf_filterMap p hp g (fun kv kv' h => (hg kv kv' h).1))
  intro k h1 h2
  have hrk := Dict.contains_filterMap r f hf k h1
  rw [contains_iff] at h2
  obtain ⟨kv', hm, hk⟩ := List.mem_map.1 h2
  obtain ⟨kv, _, hgk⟩ := List.mem_filterMap.1 hm
  have := hg kv kv' hgk
  rw [← this.1, hk, hrk] at this
  exact Bool.noConfusion this.2

theorem diffDicts_wf (r p : Dict) (hr : r.WF) (hp : p.WF) : (diffDicts r p).WF := by
  unfold diffDicts
  apply wf_two_parts r p hr hp
  · intro kv kv' h
    split at h
    · split at h
      · cases h; rfl
      · cases h
    · split at h
      · cases h; rfl
      · cases h
  · intro kv kv' h
    split at h
    · rename_i hc
      cases h
      simp only [Bool.and_eq_true, Bool.not_eq_true'] at hc
      exact ⟨rfl, hc.1⟩
    · cases h

theorem diffDicts_perm {r r' p p' : Dict} (hr : r.WF) (hr' : r'.WF) (hp : p.WF) (hp' : p'.WF)
    (er : DictEquiv r r') (ep : DictEquiv p p') : (diffDicts r p).Perm (diffDicts r' p') := by
  unfold diffDicts
  rw [ep.val_eq, ep.contains_eq, er.contains_eq]
  exact ((perm_of_equiv hr hr' er).filterMap _).append ((perm_of_equiv hp hp' ep).filterMap _)

/-- the difference formula of equivalent sides is equivalent (its key order follows the key order of the sides) -/
theorem diffDicts_equiv {r r' p p' : Dict} (hr : r.WF) (hr' : r'.WF) (hp : p.WF) (hp' : p'.WF)
    (er : DictEquiv r r') (ep : DictEquiv p p') :
    DictEquiv (diffDicts r p) (diffDicts r' p') ∧ (diffDicts r p).WF ∧ (diffDicts r' p').WF :=
  ⟨equiv_of_perm (diffDicts_perm hr hr' hp hp' er ep) (diffDicts_wf r p hr hp),
    diffDicts_wf r p hr hp, diffDicts_wf r' p' hr' hp'⟩

theorem forceQ_wf (d : Dict) (hd : d.WF) : (forceQ d).WF := by
  unfold forceQ
  split
  · exact hd
  · rename_i h; exact wf_append_single d "Q" 0 hd (by simpa using h)

theorem forceQ_equiv {d d' : Dict} (hd : d.WF) (hd' : d'.WF) (h : DictEquiv d d') :
    DictEquiv (forceQ d) (forceQ d') ∧ (forceQ d).WF ∧ (forceQ d').WF := by
  refine ⟨equiv_of_perm ?_ (forceQ_wf d hd), forceQ_wf d hd, forceQ_wf d' hd'⟩
  unfold forceQ
  rw [(h "Q").1]
  split
  · exact perm_of_equiv hd hd' h
  · exact (perm_of_equiv hd hd' h).append_right _

theorem enforceProductSide_wf (r p : Dict) (hr : r.WF) (hp : p.WF) : (enforceProductSide r p).WF := by
  unfold enforceProductSide
  apply wf_two_parts r p hr hp
  · intro kv kv' h
    split at h
    · cases h; rfl
    · cases h
  · intro kv kv' h
    split at h
    · rename_i hc
      cases h
      simp only [Bool.not_eq_true'] at hc
      exact ⟨rfl, hc⟩
    · cases h

theorem enforceProductSide_equiv {r r' p p' : Dict} (hr : r.WF) (hr' : r'.WF) (hp : p.WF) (hp' : p'.WF)
    (er : DictEquiv r r') (ep : DictEquiv p p') :
    DictEquiv (enforceProductSide r p) (enforceProductSide r' p') ∧
      (enforceProductSide r p).WF ∧ (enforceProductSide r' p').WF := by
  refine ⟨equiv_of_perm ?_ (enforceProductSide_wf r p hr hp), enforceProductSide_wf r p hr hp,
    enforceProductSide_wf r' p' hr' hp'⟩
  unfold enforceProductSide
  rw [ep.val_eq, er.contains_eq]
  exact ((perm_of_equiv hr hr' er).filterMap _).append ((perm_of_equiv hp hp' ep).filterMap _)

/-- `enforceProductSide ∘ forceQ` -/
theorem enforce_forceQ_equiv {r r' p p' : Dict} (hr : r.WF) (hr' : r'.WF) (hp : p.WF) (hp' : p'.WF)
    (er : DictEquiv r r') (ep : DictEquiv p p') :
    DictEquiv (enforceProductSide (forceQ r) (forceQ p)) (enforceProductSide (forceQ r') (forceQ p')) ∧
      (enforceProductSide (forceQ r) (forceQ p)).WF ∧ (enforceProductSide (forceQ r') (forceQ p')).WF := by
  obtain ⟨a1, a2, a3⟩ := forceQ_equiv hr hr' er
  obtain ⟨b1, b2, b3⟩ := forceQ_equiv hp hp' ep
  exact enforceProductSide_equiv a2 a3 b2 b3 a1 b1

theorem wf_map_val (d : Dict) (g : Key × Int → Int) (hd : d.WF) : Dict.WF (d.map fun kv => (kv.1, g kv)) := by
  simpa [WF, keys, List.map_map, Function.comp_def] using hd

theorem reverseIfNegative_wf (d : Dict) (hd : d.WF) : (reverseIfNegative d).1.WF := by
  unfold reverseIfNegative
  split
  · split
    · exact wf_map_val d (fun kv => -kv.2) hd
    · exact hd
  · exact hd

theorem reverseIfNegative_equiv {d d' : Dict} (hd : d.WF) (hd' : d'.WF) (h : DictEquiv d d') :
    (reverseIfNegative d).2 = (reverseIfNegative d').2 ∧
      DictEquiv (reverseIfNegative d).1 (reverseIfNegative d').1 ∧
      (reverseIfNegative d).1.WF ∧ (reverseIfNegative d').1.WF := by
  have hp := perm_of_equiv hd hd' h
  have hw := reverseIfNegative_wf d hd
  refine ⟨?_, equiv_of_perm ?_ hw, hw, reverseIfNegative_wf d' hd'⟩
  · unfold reverseIfNegative
    rw [hp.length_eq, (h "Q").1, hp.any_eq]
    split
    · split <;> rfl
    · rfl
  · unfold reverseIfNegative
    rw [hp.length_eq, (h "Q").1, hp.any_eq]
    split
    · split
      · exact hp.map _
      · exact hp
    · exact hp

theorem bothSideFix_equiv {r r' p p' diff diff' : Dict} (v : Verdict)
    (hr : r.WF) (hr' : r'.WF) (hp : p.WF) (hp' : p'.WF) (hd : diff.WF) (hd' : diff'.WF)
    (er : DictEquiv r r') (ep : DictEquiv p p') (ed : DictEquiv diff diff') :
    (bothSideFix r p v diff).2 = (bothSideFix r' p' v diff').2 ∧
      DictEquiv (bothSideFix r p v diff).1 (bothSideFix r' p' v diff').1 ∧
      (bothSideFix r p v diff).1.WF ∧ (bothSideFix r' p' v diff').1.WF := by
  unfold bothSideFix
  split
  · obtain ⟨e1, e2, e3⟩ := enforce_forceQ_equiv hr hr' hp hp' er ep
    exact reverseIfNegative_equiv e2 e3 e1
  · exact ⟨rfl, ed, hd, hd'⟩

theorem waterStep_equiv {f f' : Dict} (v : Verdict) (hf : f.WF) (hf' : f'.WF) (h : DictEquiv f f') :
    (waterStep f v).waters = (waterStep f' v).waters ∧
      (waterStep f v).verdict = (waterStep f' v).verdict ∧
      DictEquiv (waterStep f v).formula (waterStep f' v).formula ∧
      (waterStep f v).formula.WF ∧ (waterStep f' v).formula.WF := by
  have he := erase_equiv "O" hf hf' h
  have hH : (f.erase "O").val "H" = (f'.erase "O").val "H" := (he "H").2
  have we := wf_erase f "O" hf
  have we' := wf_erase f' "O" hf'
  simp only [waterStep]
  rw [get?_equiv h "O", hH]
  by_cases hv : v = .both
  · simp only [hv, if_true]
    cases f'.get? "O" with
    | none => exact ⟨rfl, rfl, h, hf, hf'⟩
    | some ratio =>
      simp only
      split
      · exact ⟨rfl, rfl, set_equiv _ _ he, wf_set _ _ _ we, wf_set _ _ _ we'⟩
      · exact ⟨rfl, rfl, set_equiv _ _ he, wf_set _ _ _ we, wf_set _ _ _ we'⟩
  · simp only [hv, if_false, true_and]
    exact ⟨h, hf, hf'⟩

theorem analyse_eq (r p : Dict) :
    analyse r p = waterStep (bothSideFix r p (compareDicts r p) (diffDicts r p)).1
      (bothSideFix r p (compareDicts r p) (diffDicts r p)).2 := rfl

/-- **everything the rule-based stage derives from the two compositions before calling the matcher**: the number
of inserted waters and the verdict are equal, the formula handed to the matcher is equivalent -/
theorem analyse_equiv {r r' p p' : Dict} (hr : r.WF) (hr' : r'.WF) (hp : p.WF) (hp' : p'.WF)
    (er : DictEquiv r r') (ep : DictEquiv p p') :
    (analyse r p).waters = (analyse r' p').waters ∧ (analyse r p).verdict = (analyse r' p').verdict ∧
      DictEquiv (analyse r p).formula (analyse r' p').formula ∧
      (analyse r p).formula.WF ∧ (analyse r' p').formula.WF := by
  obtain ⟨d1, d2, d3⟩ := diffDicts_equiv hr hr' hp hp' er ep
  obtain ⟨b1, b2, b3, b4⟩ := bothSideFix_equiv (compareDicts r p) hr hr' hp hp' d2 d3 er ep d1
  rw [analyse_eq, analyse_eq, ← compareDicts_equiv er ep, ← b1]
  exact waterStep_equiv _ b3 b4 b2

/-- **C14, rule-based path**: tokens appended by the rule-based stage, its verdict and the number of inserted
waters depend on the two composition dictionaries only through key membership and values — not through the key
order, which is the only trace of the atom order / SMILES spelling in these dictionaries -/
theorem rule_based_completion_ignores_key_order (rules : List Rule) (r r' p p' : Dict)
    (hr : r.WF) (hr' : r'.WF) (hp : p.WF) (hp' : p'.WF) (er : DictEquiv r r') (ep : DictEquiv p p') :
    imputeTokens rules (analyse r p).formula = imputeTokens rules (analyse r' p').formula ∧
      (analyse r p).verdict = (analyse r' p').verdict ∧
      (analyse r p).waters = (analyse r' p').waters := by
  obtain ⟨a1, a2, a3, a4, a5⟩ := analyse_equiv hr hr' hp hp' er ep
  exact ⟨imputeTokens_equiv rules _ _ a4 a5 a3, a2, a1⟩

/-! ### what is *not* invariant, and why `WF` is needed -/

/-- the formula itself is only equivalent, not equal: its key order follows the key order of the sides -/
theorem diffDicts_order_witness :
    diffDicts [("C", 2), ("O", 1)] [] ≠ diffDicts [("O", 1), ("C", 2)] [] := by decide

/-- without unique keys (never the case for a Python dict) `DictEquiv` does not determine `exitOk` -/
theorem dictEquiv_needs_wf :
    DictEquiv [("Q", 0), ("Q", 5)] [("Q", 0)] ∧ exitOk [("Q", 0), ("Q", 5)] ≠ exitOk [("Q", 0)] := by
  refine ⟨?_, by decide⟩
  intro k
  simp only [contains_cons, val_cons, contains_nil, val_nil]
  by_cases hk : "Q" = k <;> simp [hk]

/-- the hypotheses are satisfiable on a non-trivial pair: `CCO` written as `OCC` (composition keys in another
order); the two difference formulas are different lists, yet verdict, waters and tokens agree for every database -/
example (rules : List Rule) :
    let r : Dict := [("C", 2), ("H", 6), ("O", 1)]
    let r' : Dict := [("O", 1), ("C", 2), ("H", 6)]
    let p : Dict := [("C", 2), ("H", 4)]
    let p' : Dict := [("H", 4), ("C", 2)]
    (analyse r p).formula ≠ (analyse r' p').formula ∧
      imputeTokens rules (analyse r p).formula = imputeTokens rules (analyse r' p').formula ∧
      (analyse r p).verdict = (analyse r' p').verdict ∧ (analyse r p).waters = (analyse r' p').waters := by
  intro r r' p p'
  refine ⟨by decide, ?_⟩
  exact rule_based_completion_ignores_key_order rules r r' p p' (by decide) (by decide) (by decide) (by decide)
    (equiv_of_perm (by decide) (by decide)) (equiv_of_perm (by decide) (by decide))

end SynRBL
