import SynRBLModel.Model.Standardize
/-! Helper lemmas for C20: sums, bond-list edits, hydrogen counts under the two rewrites, the driver loop. -/
namespace SynRBL.Standardize

/-! ### sums -/

theorem sum_map_add (l : List Nat) (f g : Nat → Int) :
    (l.map (fun i => f i + g i)).sum = (l.map f).sum + (l.map g).sum := by
  induction l with
  | nil => simp
  | cons x xs ih => simp only [List.map_cons, List.sum_cons, ih]; omega

theorem sum_indicator (n a : Nat) (k : Int) (h : a < n) :
    ((List.range n).map (fun i => if i = a then k else 0)).sum = k := by
  induction n with
  | zero => omega
  | succ n ih =>
    rw [List.range_succ, List.map_append, List.sum_append]
    by_cases hn : a = n
    · subst hn
      have : ((List.range a).map (fun i => if i = a then k else 0)).sum = 0 := by
        have : ∀ m, m ≤ a → ((List.range m).map (fun i => if i = a then k else 0)).sum = 0 := by
          intro m hm
          induction m with
          | zero => simp
          | succ m ihm =>
            rw [List.range_succ, List.map_append, List.sum_append, ihm (by omega)]
            have : m ≠ a := by omega
            simp [this]
        exact this a (Nat.le_refl a)
      simp [this]
    · have : a < n := by omega
      rw [ih this]
      have : n ≠ a := fun h => hn h.symm
      simp [this]

theorem natsum_cast (l : List Nat) (f : Nat → Nat) :
    (((l.map f).sum : Nat) : Int) = (l.map (fun i => (f i : Int))).sum := by
  induction l with
  | nil => simp
  | cons x xs ih => simp only [List.map_cons, List.sum_cons, Int.natCast_add, ih]

theorem sum_congr (l : List Nat) (f g : Nat → Int) (h : ∀ i ∈ l, f i = g i) : (l.map f).sum = (l.map g).sum := by
  induction l with
  | nil => simp
  | cons x xs ih =>
    simp only [List.map_cons, List.sum_cons]
    rw [h x (by simp), ih (fun i hi => h i (by simp [hi]))]

/-! ### bond lists -/

theorem joins_touches (e : Bond) (x y i : Nat) (h : e.joins x y = true) :
    e.touches i = true ↔ (i = x ∨ i = y) := by
  unfold Bond.joins at h
  unfold Bond.touches
  simp only [Bool.or_eq_true, Bool.and_eq_true, beq_iff_eq] at h ⊢
  omega

theorem degSumL_cons (e : Bond) (bs : List Bond) (i : Nat) :
    degSumL (e :: bs) i = (if e.touches i then e.order else 0) + degSumL bs i := by
  simp [degSumL]

theorem orderL_cons (e : Bond) (bs : List Bond) (x y : Nat) :
    orderL (e :: bs) x y = (if e.joins x y then e.order else 0) + orderL bs x y := by
  simp [orderL]

theorem degSumL_append (as bs : List Bond) (i : Nat) : degSumL (as ++ bs) i = degSumL as i + degSumL bs i := by
  simp [degSumL, List.sum_append]

/-- removing the bond between `x` and `y` lowers the bond-order sum of exactly `x` and `y` by its order -/
theorem degSumL_remove (bs : List Bond) (x y i : Nat) :
    degSumL (removeBondL bs x y) i + (if i = x ∨ i = y then orderL bs x y else 0) = degSumL bs i := by
  induction bs with
  | nil => simp [degSumL, removeBondL, orderL]
  | cons e es ih =>
    rw [orderL_cons, degSumL_cons]
    unfold removeBondL at ih ⊢
    rw [List.filter_cons]
    cases hj : e.joins x y with
    | true =>
      have ht := joins_touches e x y i hj
      by_cases hc : i = x ∨ i = y
      · have h1 : e.touches i = true := ht.2 hc
        simp only [Bool.not_true, Bool.false_eq_true, ↓reduceIte, h1, hc] at ih ⊢
        omega
      · have h1 : e.touches i = false := by
          cases h : e.touches i with
          | false => rfl
          | true => exact absurd (ht.1 h) hc
        simp only [Bool.not_true, Bool.false_eq_true, ↓reduceIte, h1, hc] at ih ⊢
        omega
    | false =>
      simp only [Bool.not_false, ↓reduceIte, degSumL_cons, Bool.false_eq_true, Nat.zero_add]
      omega

theorem joins_both (e : Bond) (x y u v : Nat) (h1 : e.joins x y = true) (h2 : e.joins u v = true) :
    (u = x ∧ v = y) ∨ (u = y ∧ v = x) := by
  unfold Bond.joins at h1 h2
  simp only [Bool.or_eq_true, Bool.and_eq_true, beq_iff_eq] at h1 h2
  omega

/-- … and leaves the order of every other pair unchanged -/
theorem orderL_remove_other (bs : List Bond) (x y u v : Nat) (h : ¬((u = x ∧ v = y) ∨ (u = y ∧ v = x))) :
    orderL (removeBondL bs x y) u v = orderL bs u v := by
  induction bs with
  | nil => simp [removeBondL]
  | cons e es ih =>
    unfold removeBondL at ih ⊢
    rw [List.filter_cons, orderL_cons]
    cases hj : e.joins x y with
    | true =>
      have : e.joins u v = false := by
        cases hu : e.joins u v with
        | false => rfl
        | true => exact absurd (joins_both e x y u v hj hu) h
      simp [this, ih]
    | false => simp [orderL_cons, ih]

theorem orderL_remove_self (bs : List Bond) (x y : Nat) : orderL (removeBondL bs x y) x y = 0 := by
  induction bs with
  | nil => simp [removeBondL, orderL]
  | cons e es ih =>
    unfold removeBondL at ih ⊢
    rw [List.filter_cons]
    cases hj : e.joins x y with
    | true => simpa using ih
    | false => simp [orderL_cons, hj, ih]

/-! ### hydrogen totals -/

/-- if the hydrogen count rises by one at `a`, falls by one at `b` and is unchanged elsewhere, the total is unchanged -/
theorem hTotal_shift (g g' : Graph) (a b : Nat) (hn : g'.n = g.n) (ha : a < g.n) (hb : b < g.n)
    (h : ∀ i, i < g.n →
      (g'.hCount i : Int) = g.hCount i + (if i = a then 1 else 0) + (if i = b then -1 else 0)) :
    g'.hTotal = g.hTotal := by
  unfold Graph.hTotal
  apply Int.ofNat.inj
  show (((List.range g'.n).map g'.hCount).sum : Int) = (((List.range g.n).map g.hCount).sum : Int)
  rw [natsum_cast, natsum_cast, hn]
  rw [sum_congr (List.range g.n) _ _ (fun i hi => h i (List.mem_range.1 hi))]
  rw [sum_map_add, sum_map_add, sum_indicator g.n a 1 ha, sum_indicator g.n b (-1) hb]
  omega

theorem hTotal_same (g g' : Graph) (hn : g'.n = g.n) (h : ∀ i, i < g.n → g'.hCount i = g.hCount i) :
    g'.hTotal = g.hTotal := by
  unfold Graph.hTotal
  rw [hn]
  congr 1
  apply List.map_congr_left
  intro i hi
  exact h i (List.mem_range.1 hi)

/-! ### sanitisation -/

theorem sanitize_smiles (g g' : Graph) (ed : List Nat) (h : sanitize g ed = .smiles g') :
    g' = g ∧ ∀ i ∈ ed, i < g.n → (g.atom i).valenceOK (g.degSum i) = true := by
  unfold sanitize at h
  split at h
  · split at h
    · cases h
    · rename_i hnone
      injection h with h
      refine ⟨h.symm, ?_⟩
      intro i hi hlt
      unfold firstValenceError at hnone
      rw [Option.map_eq_none_iff, List.head?_eq_none_iff, List.filter_eq_nil_iff] at hnone
      have := hnone i (List.mem_range.2 hlt)
      simp only [Bool.and_eq_true, Bool.not_eq_true', not_and, Bool.not_eq_false] at this
      exact this (List.contains_iff_mem.2 hi)
  · cases h

theorem addBondL_some (bs : List Bond) (x y o : Nat) (r : List Bond) (h : addBondL bs x y o = some r) :
    r = bs ++ [⟨x, y, o, false⟩] ∧ x ≠ y := by
  unfold addBondL at h
  split at h
  · cases h
  · rename_i hc
    injection h with h
    exact ⟨h.symm, fun e => hc (Or.inl e)⟩

/-! ### the enol rewrite -/

theorem plainB_spec (g : Graph) (i : Nat) (s : String) (h : plainB g i s = true) :
    i < g.n ∧ (g.atom i).sym = s ∧ (g.atom i).noImplicit = false ∧ (g.atom i).explicitH = 0 ∧
      ∃ v, valenceOf s (g.atom i).charge = some v ∧ g.degSum i ≤ v := by
  unfold plainB at h
  simp only [Bool.and_eq_true, decide_eq_true_eq, beq_iff_eq, Bool.not_eq_true', Graph.sym] at h
  obtain ⟨⟨⟨⟨⟨h1, h2⟩, h3⟩, h4⟩, h5⟩, h6⟩ := h
  refine ⟨h1, h2, h3, h4, ?_⟩
  cases hv : valenceOf s (g.atom i).charge with
  | none => simp [hv] at h5
  | some v =>
    refine ⟨v, rfl, ?_⟩
    unfold Atom.valenceOK at h6
    rw [h2, hv] at h6
    simp only [decide_eq_true_eq] at h6
    omega

/-- bond-order sums after the four bond edits of `standardize_enol` -/
theorem enol_degSum (bs : List Bond) (c1 c2 o i : Nat) (h1o : c1 ≠ o) :
    degSumL (removeBondL (removeBondL bs c1 c2) c2 o ++ [⟨c1, c2, 1, false⟩] ++ [⟨c2, o, 2, false⟩]) i
        + (if i = c1 ∨ i = c2 then orderL bs c1 c2 else 0) + (if i = c2 ∨ i = o then orderL bs c2 o else 0)
      = degSumL bs i + (if i = c1 ∨ i = c2 then 1 else 0) + (if i = c2 ∨ i = o then 2 else 0) := by
  have r1 := degSumL_remove bs c1 c2 i
  have r2 := degSumL_remove (removeBondL bs c1 c2) c2 o i
  have r3 : orderL (removeBondL bs c1 c2) c2 o = orderL bs c2 o :=
    orderL_remove_other bs c1 c2 c2 o (by omega)
  rw [r3] at r2
  rw [degSumL_append, degSumL_append]
  have e1 : degSumL [⟨c1, c2, 1, false⟩] i = if i = c1 ∨ i = c2 then 1 else 0 := by
    simp only [degSumL, Bond.touches, List.map_cons, List.map_nil, List.sum_cons, List.sum_nil, Bool.or_eq_true,
      beq_iff_eq, Nat.add_zero]
    by_cases a : c1 = i <;> by_cases b : c2 = i <;> simp [a, b, eq_comm]
  have e2 : degSumL [⟨c2, o, 2, false⟩] i = if i = c2 ∨ i = o then 2 else 0 := by
    simp only [degSumL, Bond.touches, List.map_cons, List.map_nil, List.sum_cons, List.sum_nil, Bool.or_eq_true,
      beq_iff_eq, Nat.add_zero]
    by_cases a : c2 = i <;> by_cases b : o = i <;> simp [a, b, eq_comm]
  rw [e1, e2]
  omega

theorem enolEdit_smiles (g g' : Graph) (c1 c2 o : Nat) (h : enolEdit g c1 c2 o = .smiles g') :
    g' = ⟨g.atoms, removeBondL (removeBondL g.bonds c1 c2) c2 o ++ [⟨c1, c2, 1, false⟩] ++ [⟨c2, o, 2, false⟩]⟩ ∧
    ∀ i ∈ [c1, c2, o], i < g'.n → (g'.atom i).valenceOK (g'.degSum i) = true := by
  unfold enolEdit at h
  split at h
  · cases h
  · split at h
    · cases h
    · rename_i b1 hb1
      split at h
      · cases h
      · rename_i b2 hb2
        have ⟨e1, _⟩ := addBondL_some _ _ _ _ _ hb1
        have ⟨e2, _⟩ := addBondL_some _ _ _ _ _ hb2
        have ⟨e3, hv⟩ := sanitize_smiles _ _ _ h
        subst e1; subst e2
        refine ⟨e3, ?_⟩
        rw [e3]
        exact hv

theorem hCount_plain (g : Graph) (i : Nat) (s : String) (v : Nat) (hs : (g.atom i).sym = s)
    (hv : valenceOf s (g.atom i).charge = some v) (h1 : (g.atom i).noImplicit = false) (h2 : (g.atom i).explicitH = 0) :
    g.hCount i = v - g.degSum i := by
  unfold Graph.hCount Atom.hCount
  rw [hs, hv]
  simp [h1, h2]

theorem valenceOK_plain (a : Atom) (d : Nat) (s : String) (v : Nat) (hs : a.sym = s)
    (hv : valenceOf s a.charge = some v) (h : a.valenceOK d = true) : d + a.explicitH ≤ v := by
  unfold Atom.valenceOK at h
  rw [hs, hv] at h
  simpa using h

/-- **enol rewrite**: same atoms, and the hydrogen total is unchanged when C1=C2 was a double bond, C2–O a single bond,
C1 a plain carbon and O a plain oxygen -/
theorem enol_conserves (g g' : Graph) (c1 c2 o : Nat) (h : enolEdit g c1 c2 o = .smiles g')
    (hyp : enolHypB g c1 c2 o = true) : SameComp g' g := by
  unfold enolHypB at hyp
  simp only [Bool.and_eq_true, bne_iff_ne, ne_eq, beq_iff_eq] at hyp
  obtain ⟨⟨⟨⟨⟨⟨h12, h2o⟩, h1o⟩, hcc⟩, hco⟩, hp1⟩, hpo⟩ := hyp
  obtain ⟨l1, s1, n1, x1, v1, hv1, d1⟩ := plainB_spec g c1 "C" hp1
  obtain ⟨lo, so, no, xo, vo, hvo, do_⟩ := plainB_spec g o "O" hpo
  obtain ⟨e, hval⟩ := enolEdit_smiles g g' c1 c2 o h
  have hat : ∀ i, g'.atom i = g.atom i := by intro i; rw [e]; rfl
  have hn : g'.n = g.n := by rw [e]; rfl
  have hdeg : ∀ i, g'.degSum i + (if i = c1 ∨ i = c2 then 2 else 0) + (if i = c2 ∨ i = o then 1 else 0)
      = g.degSum i + (if i = c1 ∨ i = c2 then 1 else 0) + (if i = c2 ∨ i = o then 2 else 0) := by
    intro i
    have := enol_degSum g.bonds c1 c2 o i h1o
    unfold Graph.order at hcc hco
    rw [hcc, hco] at this
    rw [e]
    exact this
  refine ⟨fun s => by rw [e]; rfl, ?_, by rw [e]; rfl⟩
  apply hTotal_shift g g' c1 o hn l1 lo
  intro i hi
  have hd := hdeg i
  by_cases i1 : i = c1
  · subst i1
    have hne : ¬ (i = o) := h1o
    rw [hCount_plain g' i "C" v1 (by rw [hat]; exact s1) (by rw [hat]; exact hv1) (by rw [hat]; exact n1)
      (by rw [hat]; exact x1), hCount_plain g i "C" v1 s1 hv1 n1 x1]
    simp only [↓reduceIte, h12, h1o, or_self, or_false] at hd
    simp only [↓reduceIte, hne]
    omega
  · by_cases io : i = o
    · subst io
      have hvo' := hval i (by simp) (by rw [hn]; exact lo)
      rw [hat] at hvo'
      have := valenceOK_plain (g.atom i) (g'.degSum i) "O" vo so hvo hvo'
      rw [hCount_plain g' i "O" vo (by rw [hat]; exact so) (by rw [hat]; exact hvo) (by rw [hat]; exact no)
        (by rw [hat]; exact xo), hCount_plain g i "O" vo so hvo no xo]
      have hne : ¬ (i = c2) := fun e => h2o e.symm
      simp only [i1, hne, or_self, ↓reduceIte, or_true] at hd
      simp only [i1, ↓reduceIte]
      omega
    · have : g'.degSum i = g.degSum i := by
        by_cases i2 : i = c2
        · subst i2; simp [i1, io] at hd; omega
        · simp [i1, io, i2] at hd; omega
      unfold Graph.hCount
      rw [hat, this]
      simp [i1, io]

/-! ### the hemiketal rewrite -/

theorem getD_modify (l : List Atom) (j : Nat) (f : Atom → Atom) (i : Nat) :
    (l.modify j f).getD i default = if i = j ∧ j < l.length then f (l.getD i default) else l.getD i default := by
  simp only [List.getD_eq_getElem?_getD, List.getElem?_modify]
  by_cases h : j = i
  · subst h
    by_cases hl : j < l.length
    · simp [hl]
    · simp [hl]
  · have : ¬ (i = j) := fun e => h e.symm
    simp [h, this]

theorem atom_setExplicitH (g : Graph) (j h i : Nat) :
    (g.setExplicitH j h).atom i = if i = j ∧ j < g.n then { g.atom i with explicitH := h } else g.atom i := by
  unfold Graph.setExplicitH Graph.atom Graph.n
  exact getD_modify g.atoms j _ i

theorem n_setExplicitH (g : Graph) (j h : Nat) : (g.setExplicitH j h).n = g.n := by
  unfold Graph.setExplicitH Graph.n
  simp

theorem countP_modify (l : List Atom) (j : Nat) (f : Atom → Atom) (p : Atom → Bool) (hf : ∀ a, p (f a) = p a) :
    (l.modify j f).countP p = l.countP p := by
  induction l generalizing j with
  | nil => simp
  | cons a as ih =>
    rw [List.modify_cons]
    split
    · simp [List.countP_cons, hf]
    · simp [List.countP_cons, ih]

theorem map_modify (l : List Atom) (j : Nat) (f : Atom → Atom) (q : Atom → Int) (hf : ∀ a, q (f a) = q a) :
    (l.modify j f).map q = l.map q := by
  induction l generalizing j with
  | nil => simp
  | cons a as ih =>
    rw [List.modify_cons]
    split
    · simp [hf]
    · simp [ih]

theorem symCount_setExplicitH (g : Graph) (j h : Nat) (s : String) : (g.setExplicitH j h).symCount s = g.symCount s := by
  unfold Graph.setExplicitH Graph.symCount
  exact countP_modify _ _ _ _ (fun _ => rfl)

theorem charge_setExplicitH (g : Graph) (j h : Nat) : (g.setExplicitH j h).charge = g.charge := by
  unfold Graph.setExplicitH Graph.charge
  simp only
  exact congrArg List.sum (map_modify g.atoms j _ (fun x => x.charge) (fun _ => rfl))

/-- bond-order sums after the three bond edits of `standardize_hemiketal` -/
theorem hemiketal_degSum (bs : List Bond) (c o1 o2 i : Nat) (h12 : o1 ≠ o2) :
    degSumL (removeBondL (removeBondL bs c o1) c o2 ++ [⟨c, o1, 2, false⟩]) i
        + (if i = c ∨ i = o1 then orderL bs c o1 else 0) + (if i = c ∨ i = o2 then orderL bs c o2 else 0)
      = degSumL bs i + (if i = c ∨ i = o1 then 2 else 0) := by
  have r1 := degSumL_remove bs c o1 i
  have r2 := degSumL_remove (removeBondL bs c o1) c o2 i
  have r3 : orderL (removeBondL bs c o1) c o2 = orderL bs c o2 :=
    orderL_remove_other bs c o1 c o2 (by omega)
  rw [r3] at r2
  rw [degSumL_append]
  have e1 : degSumL [⟨c, o1, 2, false⟩] i = if i = c ∨ i = o1 then 2 else 0 := by
    simp only [degSumL, Bond.touches, List.map_cons, List.map_nil, List.sum_cons, List.sum_nil, Bool.or_eq_true,
      beq_iff_eq, Nat.add_zero]
    by_cases a : c = i <;> by_cases b : o1 = i <;> simp [a, b, eq_comm]
  rw [e1]
  omega

theorem hemiketalEdit_smiles (g g' : Graph) (c o1 o2 : Nat) (h : hemiketalEdit g c o1 o2 = .smiles g') :
    g' = ⟨g.atoms, removeBondL (removeBondL g.bonds c o1) c o2 ++ [⟨c, o1, 2, false⟩]⟩ ∧
    ∀ i ∈ [c, o1, o2], i < g'.n → (g'.atom i).valenceOK (g'.degSum i) = true := by
  unfold hemiketalEdit at h
  split at h
  · cases h
  · split at h
    · cases h
    · rename_i b hb
      have ⟨e1, _⟩ := addBondL_some _ _ _ _ _ hb
      have ⟨e3, hv⟩ := sanitize_smiles _ _ _ h
      subst e1
      refine ⟨e3, ?_⟩
      rw [e3]
      exact hv

/-- **hemiketal rewrite**: same atoms, and the hydrogen total is unchanged when C–O1 and C–O2 were single bonds and O1,
O2 plain oxygens (success of the rewrite then means that both carried a hydrogen) -/
theorem hemiketal_conserves (g g' : Graph) (c o1 o2 : Nat) (h : hemiketalApply g c o1 o2 = .smiles g')
    (hyp : hemiketalHypB g c o1 o2 = true) : SameComp g' g := by
  unfold hemiketalHypB at hyp
  simp only [Bool.and_eq_true, bne_iff_ne, ne_eq, beq_iff_eq] at hyp
  obtain ⟨⟨⟨⟨⟨⟨hc1, hc2⟩, h12⟩, ho1⟩, ho2⟩, hp1⟩, hp2⟩ := hyp
  obtain ⟨l1, s1, n1, x1, v1, hv1, d1⟩ := plainB_spec g o1 "O" hp1
  obtain ⟨l2, s2, n2, x2, v2, hv2, d2⟩ := plainB_spec g o2 "O" hp2
  unfold hemiketalApply at h
  obtain ⟨e, hval⟩ := hemiketalEdit_smiles _ g' c o1 o2 h
  have hn : g'.n = g.n := by
    rw [e]; show ((g.setExplicitH o1 0).setExplicitH o2 2).n = g.n
    rw [n_setExplicitH, n_setExplicitH]
  have hat : ∀ i, g'.atom i =
      if i = o2 then { g.atom i with explicitH := 2 } else if i = o1 then { g.atom i with explicitH := 0 } else g.atom i := by
    intro i
    rw [e]
    show ((g.setExplicitH o1 0).setExplicitH o2 2).atom i = _
    rw [atom_setExplicitH, n_setExplicitH, atom_setExplicitH]
    by_cases a : i = o2
    · subst a
      have : ¬ (i = o1) := fun e => h12 e.symm
      simp [l2, this]
    · by_cases b : i = o1
      · subst b; simp [a, l1]
      · simp [a, b]
  have hdeg : ∀ i, g'.degSum i + (if i = c ∨ i = o1 then 1 else 0) + (if i = c ∨ i = o2 then 1 else 0)
      = g.degSum i + (if i = c ∨ i = o1 then 2 else 0) := by
    intro i
    have := hemiketal_degSum g.bonds c o1 o2 i h12
    unfold Graph.order at ho1 ho2
    rw [ho1, ho2] at this
    rw [e]
    exact this
  refine ⟨fun s => ?_, ?_, ?_⟩
  · rw [e]; show ((g.setExplicitH o1 0).setExplicitH o2 2).symCount s = _
    rw [symCount_setExplicitH, symCount_setExplicitH]
  · apply hTotal_shift g g' o2 o1 hn l2 l1
    intro i hi
    have hd := hdeg i
    by_cases i2 : i = o2
    · subst i2
      have hne1 : ¬ (i = o1) := fun e => h12 e.symm
      have hnec : ¬ (i = c) := fun e => hc2 e.symm
      have hv := hval i (by simp) (by rw [hn]; exact l2)
      have ha := hat i
      simp only [↓reduceIte] at ha
      rw [ha] at hv
      have hle := valenceOK_plain _ (g'.degSum i) "O" v2 (by exact s2) (by exact hv2) hv
      simp only at hle
      simp only [hnec, hne1, or_self, ↓reduceIte, or_true] at hd
      have : g'.hCount i = 2 + (v2 - (g'.degSum i + 2)) := by
        unfold Graph.hCount Atom.hCount
        rw [ha]
        simp only
        rw [s2, hv2, n2]
        simp
      rw [this, hCount_plain g i "O" v2 s2 hv2 n2 x2]
      simp only [↓reduceIte, hne1]
      omega
    · by_cases i1 : i = o1
      · subst i1
        have hnec : ¬ (i = c) := fun e => hc1 e.symm
        have hv := hval i (by simp) (by rw [hn]; exact l1)
        have ha := hat i
        simp only [i2, ↓reduceIte] at ha
        rw [ha] at hv
        have hle := valenceOK_plain _ (g'.degSum i) "O" v1 (by exact s1) (by exact hv1) hv
        simp only at hle
        simp only [hnec, i2, or_self, ↓reduceIte, or_true] at hd
        have : g'.hCount i = v1 - g'.degSum i := by
          unfold Graph.hCount Atom.hCount
          rw [ha]
          simp only
          rw [s1, hv1, n1]
          simp
        rw [this, hCount_plain g i "O" v1 s1 hv1 n1 x1]
        simp only [i2, ↓reduceIte]
        omega
      · have hdd : g'.degSum i = g.degSum i := by
          by_cases ic : i = c
          · subst ic; simp [i1, i2] at hd; omega
          · simp [i1, i2, ic] at hd; omega
        have ha := hat i
        simp only [i2, i1, ↓reduceIte] at ha
        unfold Graph.hCount
        rw [ha, hdd]
        simp [i1, i2]
  · rw [e]; show ((g.setExplicitH o1 0).setExplicitH o2 2).charge = _
    rw [charge_setExplicitH, charge_setExplicitH]

/-! ### from index lists to edits -/

theorem enolRewrite_eq (g : Graph) (idx : List Nat) (c1 c2 o : Nat) (h : enolIndices? g idx = some (c1, c2, o)) :
    enolRewrite g idx = enolEdit g c1 c2 o := by
  unfold enolIndices? at h
  unfold enolRewrite
  split at h
  · rename_i o' rest hs
    rw [hs]
    simp only
    split at h
    · rename_i a b ha
      simp only [Option.some.injEq, Prod.mk.injEq] at h
      obtain ⟨r1, r2, r3⟩ := h
      subst r1; subst r2; subst r3
      rfl
    · cases h
  · cases h

theorem hemiketalRewrite_eq (g : Graph) (idx : List Nat) (c o1 o2 : Nat) (gs : Graph)
    (h : hemiketalIndices? g idx = some (c, o1, o2, gs)) (hs : gs = (g.setExplicitH o1 0).setExplicitH o2 2) :
    hemiketalRewrite g idx = hemiketalApply g c o1 o2 := by
  unfold hemiketalIndices? at h
  unfold hemiketalRewrite hemiketalApply
  split at h
  · rename_i c' a b gs' hsc
    rw [hsc]
    simp only [Option.some.injEq, Prod.mk.injEq] at h
    obtain ⟨r1, r2, r3, r4⟩ := h
    subst r1; subst r2; subst r3; subst r4
    rw [hs]
  · cases h

/-- a rewrite that `__call__` performs under the hypotheses of its conservation theorem conserves the composition -/
theorem stepHyp_conserves (g g' : Graph) (grp : Group) (hyp : stepHypB g grp = true)
    (h : (if grp.1 = "hemiketal" then hemiketalRewrite g grp.2 else enolRewrite g grp.2) = .smiles g') :
    SameComp g' g := by
  unfold stepHypB at hyp
  split at hyp
  · rename_i hk
    rw [if_pos hk] at h
    split at hyp
    · rename_i c o1 o2 gs hi
      simp only [Bool.and_eq_true, beq_iff_eq] at hyp
      rw [hemiketalRewrite_eq g grp.2 c o1 o2 gs hi hyp.1] at h
      exact hemiketal_conserves g g' c o1 o2 h hyp.2
    · cases hyp
  · rename_i hk
    rw [if_neg hk] at h
    split at hyp
    · rename_i c1 c2 o hi
      rw [enolRewrite_eq g grp.2 c1 c2 o hi] at h
      exact enol_conserves g g' c1 c2 o h hyp
    · cases hyp

/-! ### `SameComp` is an equivalence -/

theorem SameComp.refl (g : Graph) : SameComp g g := ⟨fun _ => rfl, rfl, rfl⟩

theorem SameComp.trans {a b c : Graph} (h1 : SameComp a b) (h2 : SameComp b c) : SameComp a c :=
  ⟨fun s => (h1.1 s).trans (h2.1 s), h1.2.1.trans h2.2.1, h1.2.2.trans h2.2.2⟩

theorem SameComp.symm {a b : Graph} (h : SameComp a b) : SameComp b a :=
  ⟨fun s => (h.1 s).symm, h.2.1.symm, h.2.2.symm⟩

/-- heavy atoms and net charge only -/
def SameHeavy (g' g : Graph) : Prop := (∀ s, g'.symCount s = g.symCount s) ∧ g'.charge = g.charge

theorem SameComp.heavy {a b : Graph} (h : SameComp a b) : SameHeavy a b := ⟨h.1, h.2.2⟩
theorem SameHeavy.refl (g : Graph) : SameHeavy g g := ⟨fun _ => rfl, rfl⟩
theorem SameHeavy.trans {a b c : Graph} (h1 : SameHeavy a b) (h2 : SameHeavy b c) : SameHeavy a c :=
  ⟨fun s => (h1.1 s).trans (h2.1 s), h1.2.trans h2.2⟩

/-! ### the rewrites never change an atom's element or charge -/

theorem sanitize_heavy (g g' : Graph) (ed : List Nat) (h : sanitize g ed = .smiles g') : g' = g :=
  (sanitize_smiles g g' ed h).1

theorem enolRewrite_heavy (g g' : Graph) (idx : List Nat) (h : enolRewrite g idx = .smiles g') : SameHeavy g' g := by
  unfold enolRewrite at h
  split at h
  · cases h
  · cases h
  · cases h
  · split at h
    · rename_i c1 c2 _
      have := (enolEdit_smiles g g' c1 c2 _ h).1
      rw [this]
      exact ⟨fun _ => rfl, rfl⟩
    · cases h

theorem hemiketalScan_heavy (idx : List Nat) (st st' : HkState) (h : hemiketalScan idx st = .ok st') :
    SameHeavy st'.g st.g := by
  induction idx generalizing st with
  | nil =>
    unfold hemiketalScan at h
    injection h with h
    rw [h]
    exact SameHeavy.refl _
  | cons i is ih =>
    unfold hemiketalScan at h
    split at h
    · cases h
    · split at h
      · have := ih { st with c := some i } h
        exact this
      · split at h
        · split at h
          · have := ih { st with o1 := some i, g := st.g.setExplicitH i 0 } h
            refine this.trans ?_
            exact ⟨fun s => symCount_setExplicitH _ _ _ s, charge_setExplicitH _ _ _⟩
          · have := ih { st with o2 := some i, g := st.g.setExplicitH i 2 } h
            refine this.trans ?_
            exact ⟨fun s => symCount_setExplicitH _ _ _ s, charge_setExplicitH _ _ _⟩
        · exact ih st h

theorem hemiketalRewrite_heavy (g g' : Graph) (idx : List Nat) (h : hemiketalRewrite g idx = .smiles g') :
    SameHeavy g' g := by
  unfold hemiketalRewrite at h
  split at h
  · cases h
  · rename_i c o1 o2 gs hs
    have := (hemiketalEdit_smiles gs g' c o1 o2 h).1
    have hh := hemiketalScan_heavy idx _ _ hs
    rw [this]
    exact ⟨fun s => hh.1 s, hh.2⟩
  · cases h

/-! ### the driver loop -/

theorem applyRewrite_ok (O : Oracle) (k : Nat) (r : Rewrite) (st' : Nat × Graph) (h : applyRewrite O k r = .ok st') :
    ∃ g', r = .smiles g' ∧ st' = (k + 1, O.reparse k g') := by
  cases r with
  | smiles g' => unfold applyRewrite at h; injection h with h; exact ⟨g', rfl, h.symm⟩
  | errorString e => cases h
  | raises e => cases h
  | unmodelled => cases h

/-- what `stepGroup` does for a group that `__call__` acts on -/
theorem stepGroup_rewrite (O : Oracle) (st : Nat × Graph) (grp : Group) (h : isRewriteGroup grp = true) :
    stepGroup O st grp =
      applyRewrite O st.1 (if grp.1 = "hemiketal" then hemiketalRewrite st.2 grp.2 else enolRewrite st.2 grp.2) := by
  unfold stepGroup
  unfold isRewriteGroup at h
  simp only [Bool.or_eq_true, beq_iff_eq] at h
  by_cases hk : grp.1 = "hemiketal"
  · simp [hk]
  · have he : grp.1 = "enol" := by
      cases h with
      | inl h => exact absurd h hk
      | inr h => exact h
    simp [he]

theorem stepGroup_other (O : Oracle) (st : Nat × Graph) (grp : Group) (h : isRewriteGroup grp = false) :
    stepGroup O st grp = .ok st := by
  unfold stepGroup
  unfold isRewriteGroup at h
  simp only [Bool.or_eq_false_iff, beq_eq_false_iff_ne, ne_eq] at h
  simp [h.1, h.2]

theorem stepGroup_heavy (O : Oracle) (hO : O.Laws) (st st' : Nat × Graph) (grp : Group)
    (h : stepGroup O st grp = .ok st') : SameHeavy st'.2 st.2 := by
  cases hr : isRewriteGroup grp with
  | false =>
    rw [stepGroup_other O st grp hr] at h
    injection h with h
    rw [← h]
    exact SameHeavy.refl _
  | true =>
    rw [stepGroup_rewrite O st grp hr] at h
    obtain ⟨g', hg, hst⟩ := applyRewrite_ok O _ _ _ h
    rw [hst]
    refine (hO.reparse_comp st.1 g').heavy.trans ?_
    by_cases hk : grp.1 = "hemiketal"
    · rw [if_pos hk] at hg
      exact hemiketalRewrite_heavy _ _ _ hg
    · rw [if_neg hk] at hg
      exact enolRewrite_heavy _ _ _ hg

theorem loop_heavy (O : Oracle) (hO : O.Laws) (gs : List Group) (st st' : Nat × Graph)
    (h : loop O gs st = .ok st') : SameHeavy st'.2 st.2 := by
  induction gs generalizing st with
  | nil => unfold loop at h; injection h with h; rw [h]; exact SameHeavy.refl _
  | cons grp gs ih =>
    unfold loop at h
    split at h
    · rename_i st1 h1
      exact (ih st1 h).trans (stepGroup_heavy O hO st st1 grp h1)
    · cases h

theorem loop_conserves (O : Oracle) (hO : O.Laws) (gs : List Group) (st st' : Nat × Graph)
    (h : loop O gs st = .ok st') (hh : allStepsHyp O gs st = true) : SameComp st'.2 st.2 := by
  induction gs generalizing st with
  | nil => unfold loop at h; injection h with h; rw [h]; exact SameComp.refl _
  | cons grp gs ih =>
    unfold loop at h
    unfold allStepsHyp at hh
    split at h
    · rename_i st1 h1
      cases hr : isRewriteGroup grp with
      | false =>
        rw [stepGroup_other O st grp hr] at h1
        injection h1 with h1
        rw [hr] at hh
        simp only [Bool.false_eq_true, ↓reduceIte] at hh
        subst h1
        exact ih st h hh
      | true =>
        rw [hr] at hh
        simp only [↓reduceIte, Bool.and_eq_true] at hh
        rw [h1] at hh
        have hstep := h1
        rw [stepGroup_rewrite O st grp hr] at hstep
        obtain ⟨g', hg, hst⟩ := applyRewrite_ok O _ _ _ hstep
        have c1 : SameComp g' st.2 := stepHyp_conserves st.2 g' grp hh.1 hg
        have c2 : SameComp st1.2 st.2 := by
          rw [hst]
          exact (hO.reparse_comp st.1 g').trans c1
        exact (ih st1 h hh.2).trans c2
    · cases h

theorem loop_noGroups (O : Oracle) (gs : List Group) (st : Nat × Graph)
    (h : ∀ grp ∈ gs, isRewriteGroup grp = false) : loop O gs st = .ok st := by
  induction gs with
  | nil => rfl
  | cons grp gs ih =>
    unfold loop
    rw [stepGroup_other O st grp (h grp (by simp))]
    exact ih (fun g hg => h g (by simp [hg]))

theorem sameCompB_iff (g' g : Graph) : sameCompB g' g = true ↔ SameComp g' g := by
  unfold sameCompB SameComp
  simp only [Bool.and_eq_true, List.all_eq_true, beq_iff_eq, List.mem_append]
  constructor
  · rintro ⟨⟨h1, h2⟩, h3⟩
    refine ⟨fun s => ?_, h2, h3⟩
    by_cases hs : ∃ a, (a ∈ g.atoms ∨ a ∈ g'.atoms) ∧ a.sym = s
    · obtain ⟨a, ha, rfl⟩ := hs
      exact h1 a ha
    · have z : ∀ (x : Graph), (∀ a, a ∈ x.atoms → (a ∈ g.atoms ∨ a ∈ g'.atoms)) → x.symCount s = 0 := by
        intro x hx
        unfold Graph.symCount
        rw [List.countP_eq_zero]
        intro a ha hb
        exact hs ⟨a, hx a ha, by simpa using hb⟩
      rw [z g' (fun a ha => Or.inr ha), z g (fun a ha => Or.inl ha)]
  · rintro ⟨h1, h2, h3⟩
    exact ⟨⟨fun a _ => h1 a.sym, h2⟩, h3⟩

/-! ### the scan of `standardize_hemiketal` on a three-element index list -/

theorem sym_setExplicitH (g : Graph) (j h i : Nat) : (g.setExplicitH j h).sym i = g.sym i := by
  unfold Graph.sym
  rw [atom_setExplicitH]
  split <;> rfl

/-- for an index list that consists of one carbon and two oxygens (O1 before O2) the loop assigns exactly these and calls
`SetNumExplicitHs(0)` on O1, `SetNumExplicitHs(2)` on O2 — whatever the position of the carbon -/
theorem hemiketalScan_three (g : Graph) (c o1 o2 : Nat) (idx : List Nat)
    (hidx : idx = [c, o1, o2] ∨ idx = [o1, c, o2] ∨ idx = [o1, o2, c])
    (hc : g.sym c = "C") (h1 : g.sym o1 = "O") (h2 : g.sym o2 = "O") (lc : c < g.n) (l1 : o1 < g.n) (l2 : o2 < g.n) :
    hemiketalIndices? g idx = some (c, o1, o2, (g.setExplicitH o1 0).setExplicitH o2 2) := by
  have nc : ¬ g.n ≤ c := by omega
  have n1 : ¬ g.n ≤ o1 := by omega
  have n2 : ¬ g.n ≤ o2 := by omega
  have oc : ¬ ("O" = "C") := by decide
  rcases hidx with rfl | rfl | rfl <;>
    simp [hemiketalIndices?, hemiketalScan, nc, n1, n2, hc, h1, h2, oc, n_setExplicitH, sym_setExplicitH]

/-! ### the rewrites return a SMILES only if the oxygens carry a hydrogen -/

theorem enol_smiles_hasH (g g' : Graph) (c1 c2 o : Nat) (h : enolEdit g c1 c2 o = .smiles g')
    (hyp : enolHypB g c1 c2 o = true) : 1 ≤ g.hCount o := by
  unfold enolHypB at hyp
  simp only [Bool.and_eq_true, bne_iff_ne, ne_eq, beq_iff_eq] at hyp
  obtain ⟨⟨⟨⟨⟨⟨h12, h2o⟩, h1o⟩, hcc⟩, hco⟩, _⟩, hpo⟩ := hyp
  obtain ⟨lo, so, no, xo, vo, hvo, _⟩ := plainB_spec g o "O" hpo
  obtain ⟨e, hval⟩ := enolEdit_smiles g g' c1 c2 o h
  have hn : g'.n = g.n := by rw [e]; rfl
  have hv := hval o (by simp) (by rw [hn]; exact lo)
  have hat : g'.atom o = g.atom o := by rw [e]; rfl
  rw [hat] at hv
  have hle := valenceOK_plain (g.atom o) (g'.degSum o) "O" vo so hvo hv
  have hd := enol_degSum g.bonds c1 c2 o o h1o
  unfold Graph.order at hcc hco
  rw [hcc, hco] at hd
  have hne1 : ¬ (o = c1) := fun e => h1o e.symm
  have hne2 : ¬ (o = c2) := fun e => h2o e.symm
  simp only [hne1, hne2, or_self, ↓reduceIte, or_true] at hd
  have : g'.degSum o = g.degSum o + 1 := by rw [e]; unfold Graph.degSum; dsimp only; omega
  rw [hCount_plain g o "O" vo so hvo no xo]
  omega

theorem hemiketal_smiles_hasH (g g' : Graph) (c o1 o2 : Nat) (h : hemiketalApply g c o1 o2 = .smiles g')
    (hyp : hemiketalHypB g c o1 o2 = true) : 1 ≤ g.hCount o1 ∧ 1 ≤ g.hCount o2 := by
  have hyp0 := hyp
  unfold hemiketalHypB at hyp
  simp only [Bool.and_eq_true, bne_iff_ne, ne_eq, beq_iff_eq] at hyp
  obtain ⟨⟨⟨⟨⟨⟨hc1, hc2⟩, h12⟩, ho1⟩, ho2⟩, hp1⟩, hp2⟩ := hyp
  obtain ⟨l1, s1, n1, x1, v1, hv1, d1⟩ := plainB_spec g o1 "O" hp1
  obtain ⟨l2, s2, n2, x2, v2, hv2, d2⟩ := plainB_spec g o2 "O" hp2
  have hc := hemiketal_conserves g g' c o1 o2 h hyp0
  unfold hemiketalApply at h
  obtain ⟨e, hval⟩ := hemiketalEdit_smiles _ g' c o1 o2 h
  have hn : g'.n = g.n := by
    rw [e]; show ((g.setExplicitH o1 0).setExplicitH o2 2).n = g.n
    rw [n_setExplicitH, n_setExplicitH]
  have hdeg : ∀ i, g'.degSum i + (if i = c ∨ i = o1 then 1 else 0) + (if i = c ∨ i = o2 then 1 else 0)
      = g.degSum i + (if i = c ∨ i = o1 then 2 else 0) := by
    intro i
    have := hemiketal_degSum g.bonds c o1 o2 i h12
    unfold Graph.order at ho1 ho2
    rw [ho1, ho2] at this
    rw [e]
    exact this
  have a1 : g'.atom o1 = { g.atom o1 with explicitH := 0 } := by
    rw [e]; show ((g.setExplicitH o1 0).setExplicitH o2 2).atom o1 = _
    rw [atom_setExplicitH, n_setExplicitH, atom_setExplicitH]
    simp [h12, l1]
  have a2 : g'.atom o2 = { g.atom o2 with explicitH := 2 } := by
    rw [e]; show ((g.setExplicitH o1 0).setExplicitH o2 2).atom o2 = _
    rw [atom_setExplicitH, n_setExplicitH, atom_setExplicitH]
    have x21 : ¬ (o2 = o1) := fun e => h12 e.symm
    simp [l2, x21]
  have w1 := hval o1 (by simp) (by rw [hn]; exact l1)
  have w2 := hval o2 (by simp) (by rw [hn]; exact l2)
  rw [a1] at w1
  rw [a2] at w2
  have q1 := valenceOK_plain _ (g'.degSum o1) "O" v1 (by exact s1) (by exact hv1) w1
  have q2 := valenceOK_plain _ (g'.degSum o2) "O" v2 (by exact s2) (by exact hv2) w2
  simp only at q1 q2
  have e1 := hdeg o1
  have e2 := hdeg o2
  have x1c : ¬ (o1 = c) := fun e => hc1 e.symm
  have x2c : ¬ (o2 = c) := fun e => hc2 e.symm
  have x21 : ¬ (o2 = o1) := fun e => h12 e.symm
  simp only [x1c, h12, or_self, ↓reduceIte, or_true] at e1
  simp only [x2c, x21, or_self, ↓reduceIte, or_true] at e2
  rw [hCount_plain g o1 "O" v1 s1 hv1 n1 x1, hCount_plain g o2 "O" v2 s2 hv2 n2 x2]
  omega

/-! ### the candidate fix -/

theorem acceptF_some (O : OracleF) (g g2 : Graph) (r : Rewrite) (h : acceptF O g r = .ok (some g2)) :
    ∃ g', r = .smiles g' ∧ sameCompB g' g = true ∧ g2 = O.canon g' := by
  cases r with
  | smiles g' =>
    unfold acceptF at h
    injection h with h
    split at h
    · rename_i hc
      injection h with h
      simp only [Bool.and_eq_true] at hc
      exact ⟨g', rfl, hc.1, h.symm⟩
    · cases h
  | errorString e => unfold acceptF at h; injection h with h; cases h
  | raises e => cases h
  | unmodelled => cases h

theorem firstRewriteF_some (O : OracleF) (g g2 : Graph) (gs : List Group) (h : firstRewriteF O g gs = .ok (some g2)) :
    ∃ g', sameCompB g' g = true ∧ g2 = O.canon g' := by
  induction gs with
  | nil => unfold firstRewriteF at h; injection h with h; cases h
  | cons grp gs ih =>
    unfold firstRewriteF at h
    split at h
    · split at h
      · rename_i g3 ha
        injection h with h
        injection h with h
        subst h
        obtain ⟨g', _, h2, h3⟩ := acceptF_some O g g3 _ ha
        exact ⟨g', h2, h3⟩
      · exact ih h
      · cases h
    · exact ih h

theorem iterF_spec (O : OracleF) (hO : O.Laws) (k : Nat) (t r : Graph) (ex : Bool) (h : iterF O k t = .ok (r, ex))
    (ht : O.canon t = t) :
    SameComp r t ∧ O.canon r = r ∧ (ex = false → rewriteOnceF O r = .ok none) := by
  induction k generalizing t with
  | zero =>
    unfold iterF at h
    injection h with h
    injection h with h1 h2
    subst h1; subst h2
    exact ⟨SameComp.refl _, ht, fun e => by cases e⟩
  | succ k ih =>
    unfold iterF at h
    split at h
    · rename_i hn
      injection h with h
      injection h with h1 h2
      subst h1
      exact ⟨SameComp.refl _, ht, fun _ => hn⟩
    · rename_i g' hs
      obtain ⟨x, hx1, hx2⟩ := firstRewriteF_some O t g' _ hs
      have hc : SameComp g' t := by
        rw [hx2]
        exact (hO.canon_comp x).trans ((sameCompB_iff x t).1 hx1)
      have := ih g' h (by rw [hx2, hO.canon_idem])
      exact ⟨this.1.trans hc, this.2⟩
    · cases h

end SynRBL.Standardize
