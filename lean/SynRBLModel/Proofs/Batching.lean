import SynRBLModel.Model.Batching
/-!
# Batching is invisible: rows and statistics do not depend on the partition
-/
namespace SynRBL

theorem chunks_flatten {α} (n : Nat) (hn : 1 ≤ n) :
    ∀ (fuel : Nat) (xs : List α), xs.length + 1 ≤ fuel → (chunks n fuel xs).flatten = xs := by
  intro fuel
  induction fuel with
  | zero => intro xs h; omega
  | succ f ih =>
    intro xs h
    unfold chunks
    split
    · simp
    · rename_i hlt
      simp only [List.flatten_cons]
      rw [ih (xs.drop n) (by simp only [List.length_drop]; omega)]
      exact List.take_append_drop n xs

theorem chunks_length_le {α} (n : Nat) :
    ∀ (fuel : Nat) (xs : List α), ∀ b ∈ chunks n fuel xs, b.length ≤ n := by
  intro fuel
  induction fuel with
  | zero => intro xs b h; simp [chunks] at h
  | succ f ih =>
    intro xs b h
    unfold chunks at h
    split at h
    · simp only [List.mem_singleton] at h; subst h; omega
    · rcases List.mem_cons.1 h with h | h
      · subst h; simp only [List.length_take]; omega
      · exact ih _ b h

theorem batchesOf_flatten {α} (n : Nat) (hn : 1 ≤ n) (xs : List α) : (batchesOf n xs).flatten = xs := by
  unfold batchesOf
  have h := chunks_flatten n hn (xs.length + 1) xs (Nat.le_refl _)
  have : ∀ l : List (List α), (l.filter fun b => !b.isEmpty).flatten = l.flatten := by
    intro l
    induction l with
    | nil => rfl
    | cons a t ih =>
      simp only [List.filter_cons]
      cases a with
      | nil => simpa using ih
      | cons x y => simp [ih]
  rw [this, h]

namespace RowStats

theorem add_zero (a : RowStats) : a.add zero = a := by cases a; simp [add, zero]
theorem zero_add (a : RowStats) : zero.add a = a := by cases a; simp [add, zero]
theorem add_assoc (a b c : RowStats) : (a.add b).add c = a.add (b.add c) := by
  cases a; cases b; cases c; simp [add, Nat.add_assoc]
theorem add_comm (a b : RowStats) : a.add b = b.add a := by
  cases a; cases b; simp [add, Nat.add_comm]

end RowStats

def sumStats (l : List RowStats) : RowStats := l.foldl RowStats.add RowStats.zero

theorem foldl_add (z : RowStats) (l : List RowStats) :
    l.foldl RowStats.add z = z.add (sumStats l) := by
  unfold sumStats
  induction l generalizing z with
  | nil => simp [RowStats.add_zero]
  | cons a t ih =>
    simp only [List.foldl_cons]
    rw [ih (z.add a), ih (RowStats.zero.add a), RowStats.zero_add, RowStats.add_assoc]

theorem sumStats_append (a b : List RowStats) : sumStats (a ++ b) = (sumStats a).add (sumStats b) := by
  unfold sumStats
  rw [List.foldl_append, foldl_add]
  rfl

theorem sumStats_flatten (ls : List (List RowStats)) :
    sumStats (ls.map sumStats) = sumStats ls.flatten := by
  induction ls with
  | nil => rfl
  | cons a t ih =>
    simp only [List.map_cons, List.flatten_cons, sumStats_append]
    rw [← ih]
    show sumStats (sumStats a :: List.map sumStats t) = _
    unfold sumStats
    simp only [List.foldl_cons]
    rw [foldl_add, RowStats.zero_add]
    rfl

/-- **any** partition into batches gives the same rows, in the same order -/
theorem rows_partition_independent (cfg : Config) (bs : List (List InRow)) :
    bs.flatMap (runBatch cfg) = runBatch cfg bs.flatten := by
  unfold runBatch
  induction bs with
  | nil => rfl
  | cons a t ih => simp [List.flatMap_cons, ih]

/-- **any** partition into batches gives the same statistics -/
theorem stats_partition_independent (cfg : Config) (bs : List (List InRow)) :
    sumStats (bs.map (batchStats cfg)) = batchStats cfg bs.flatten := by
  have e1 : bs.map (batchStats cfg) = (bs.map fun b => b.map (statsIn cfg)).map sumStats := by
    rw [List.map_map]; rfl
  have e2 : (bs.map fun b => b.map (statsIn cfg)).flatten = bs.flatten.map (statsIn cfg) := by
    induction bs with
    | nil => rfl
    | cons a t ih => simp [ih]
  rw [e1, sumStats_flatten, e2]
  rfl

/-- `rebalance` with any batch size ≥ 1 is the row-wise map, and its statistics are the row-wise sum -/
theorem rebalance_eq (cfg : Config) (n : Nat) (hn : 1 ≤ n) (rows : List InRow) :
    rebalance cfg n rows = (rows.map (runIn cfg), batchStats cfg rows) := by
  unfold rebalance
  simp only []
  rw [rows_partition_independent, batchesOf_flatten n hn]
  have := stats_partition_independent cfg (batchesOf n rows)
  unfold sumStats at this
  rw [this, batchesOf_flatten n hn]
  rfl

end SynRBL
