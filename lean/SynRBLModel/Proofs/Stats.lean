import SynRBLModel.Proofs.Pipeline4
import SynRBLModel.Proofs.Batching
import SynRBLModel.Properties.C04
import SynRBLModel.Properties.C13
/-!
# Run statistics agree with the rows (per-row facts and their lifting to sums)
-/
namespace SynRBL
open Str

variable (O : Oracle)

theorem reverseIfNegative_ne_balance (d : Dict) : (reverseIfNegative d).2 ≠ .balance := by
  unfold reverseIfNegative; repeat' split
  all_goals simp

theorem waterStep_verdict (f : Dict) (v : Verdict) (hv : v ≠ .balance) : (waterStep f v).verdict ≠ .balance := by
  unfold waterStep
  by_cases hb : v = .both
  · subst hb
    simp only [if_true]
    cases f.get? "O" with
    | none => simp
    | some ratio =>
      dsimp only
      by_cases hh : (f.erase "O").val "H" - 2 * ratio ≥ 0
      · rw [if_pos hh]; simp
      · rw [if_neg hh]; simp
  · simp only [hb, if_false]; exact hv

theorem analyse_verdict_balance_iff (r p : Dict) :
    (analyse r p).verdict = .balance ↔ compareDicts r p = .balance := by
  constructor
  · intro h
    by_cases hb : compareDicts r p = .balance
    · exact hb
    · exfalso
      have h2 : (bothSideFix r p (compareDicts r p) (diffDicts r p)).2 ≠ .balance := by
        unfold bothSideFix
        split
        · exact reverseIfNegative_ne_balance _
        · exact hb
      unfold analyse at h
      simp only [] at h
      rcases hx : bothSideFix r p (compareDicts r p) (diffDicts r p) with ⟨d', v'⟩
      rw [hx] at h h2
      exact waterStep_verdict d' v' h2 h
  · intro h; exact (analyse_balance r p h).2

/-- the statistics flags of one row of the rule-based stage -/
theorem rbRow_spec (rules : List Rule) (ban : List Str) (reaction : Str) (rc pc : Dict) (carbon : CLabel)
    (o : RbOut) (h : rbRow rules ban reaction rc pc carbon = some o) :
    (o.solved = true → o.applied = true) ∧ (o.applied = true → o.countedBalanced = false) ∧
    (o.countedBalanced = true ↔ (carbon = .balanced ∧ (analyse rc pc).verdict = .balance)) := by
  unfold rbRow at h
  cases hsp : splitArrow reaction with
  | nil => rw [hsp] at h; cases h
  | cons a t =>
    cases t with
    | nil => rw [hsp] at h; cases h
    | cons b rest =>
      rw [hsp] at h
      dsimp only at h
      by_cases hc : carbon = .balanced
      · rw [if_pos hc] at h
        by_cases hv : (analyse rc pc).verdict = .products ∨ (analyse rc pc).verdict = .reactants
        · rw [if_pos hv] at h
          have hnb : (analyse rc pc).verdict ≠ .balance := by
            intro hb; rw [hb] at hv; rcases hv with hv | hv <;> cases hv
          cases hi : imputeTokens rules (analyse rc pc).formula with
          | none =>
            rw [hi] at h; dsimp only at h; cases h
            simp [hnb]
          | some toks =>
            rw [hi] at h
            dsimp only at h
            split at h <;> (split at h <;> (cases h; simp [hnb]))
        · rw [if_neg hv] at h
          cases h
          simp [hc]
      · rw [if_neg hc] at h
        cases h
        simp [hc]

/-- the row counted in `balanced_cnt` is exactly the row the input check solves -/
theorem counted_balanced_iff (cfg : Config) (s : Str) :
    ((rbOut O cfg (pc1 O s)).map (·.countedBalanced)).getD false = true ↔
      (verdictOf O s = .balance ∧ labelOf O s = .balanced) := by
  obtain ⟨_, a2, a3, _⟩ := pc1_spec O s
  cases ho : rbOut O cfg (pc1 O s) with
  | none =>
    simp only [Option.map_none, Option.getD_none, Bool.false_eq_true, false_iff]
    intro hh
    obtain ⟨a, b, hs, _⟩ := verdictOf_balance_sides O s hh.1
    obtain ⟨rest, hsp⟩ := sidesOf_some _ _ _ hs
    unfold rbOut at ho
    rw [a2, hs] at ho
    dsimp only at ho
    unfold rbRow at ho
    rw [hsp] at ho
    dsimp only at ho
    repeat' split at ho
    all_goals cases ho
  | some o =>
    simp only [Option.map_some, Option.getD_some]
    unfold rbOut at ho
    rw [a2, a3] at ho
    cases hs : sidesOf s with
    | none => rw [hs] at ho; cases ho
    | some ab =>
      obtain ⟨a, b⟩ := ab
      rw [hs] at ho
      dsimp only at ho
      rw [(rbRow_spec _ _ _ _ _ _ _ ho).2.2, analyse_verdict_balance_iff]
      unfold verdictOf; rw [hs]
      exact ⟨fun h => ⟨h.2, h.1⟩, fun h => ⟨h.2, h.1⟩⟩

theorem rb_solved_le_applied (cfg : Config) (r : Row) :
    b2n (((rbOut O cfg r).map (·.solved)).getD false) ≤ b2n (((rbOut O cfg r).map (·.applied)).getD false) := by
  cases ho : rbOut O cfg r with
  | none => simp [b2n]
  | some o =>
    simp only [Option.map_some, Option.getD_some]
    unfold rbOut at ho
    split at ho
    · have := (rbRow_spec _ _ _ _ _ _ _ ho).1
      cases hs : o.solved with
      | false => simp [b2n]
      | true => rw [this hs]; simp [b2n]
    · cases ho

theorem mcs_solved_le_applied (r : Row) : b2n (imputeStage O r).2 ≤ b2n r.hasMcs := by
  cases h : (imputeStage O r).2 with
  | false => simp [b2n]
  | true => rw [((imputeStage_reaction O r).2 h).2.2.2.1]; simp [b2n]

theorem mcs_applied_iff (cfg : Config) (s : Str) : (pc4 O cfg s).hasMcs = true ↔ (pc3 O cfg s).solved = false := by
  unfold pc4
  cases hs : (pc3 O cfg s).solved with
  | true => rw [searchStage_of_solved O _ hs, pc3_hasMcs]; simp
  | false => simp [(searchStage_unsolved O _ hs).1]

/-- a row attributed to the MCS method had a successful imputation (given the water law) -/
theorem mcs_row_was_imputed (hW : WaterCarbonLaw O) (cfg : Config) (s : Str)
    (h : (runRow O cfg s).solvedBy = some .mcs) : (imputeStage O (pc4 O cfg s)).2 = true := by
  unfold runRow at h
  rw [(confStage_fields O _ _).2.2.1] at h
  have hs := preConf_mcs_solved O cfg s h
  rw [preConf_eq, (revertStage_fields _).2.1] at hs
  rw [preConf_eq, (revertStage_fields _).2.2.1] at h
  cases h3 : (pc3 O cfg s).solved with
  | true =>
    exfalso
    have n3 := pc3_issue_none O cfg s h3
    have n4 : NoIssue (pc4 O cfg s) := by unfold pc4; rw [searchStage_of_solved O _ h3]; exact n3
    have n5 : NoIssue (pc5 O cfg s) := by unfold pc5; rw [imputeStage_no_mcs O _ n4.noMcs]; exact n4
    have n9 : NoIssue (pc9 O cfg s) :=
      noIssue_validate O (noIssue_rbStage O (noIssue_postStage O (noIssue_validate O n5 _ _ _ _)) cfg) _ _ _ _
    exact n9.notMcs h
  | false =>
    cases hi : (imputeStage O (pc4 O cfg s)).2 with
    | true => rfl
    | false => rw [no_late_solve O hW cfg s h3 hi] at hs; cases hs

/-- oracle law: a rule-based result that was not completed by the solver is not balanced unless the input was
(water insertion alone never balances a reaction). Monitored on every traced row. -/
def RbLaw (cfg : Config) (s : Str) : Prop :=
  ∀ o, rbOut O cfg (pc1 O s) = some o → o.solved = false →
    verdictOf O o.reaction = .balance → verdictOf O s = .balance

/-- a row attributed to the rule-based method was completed by the solver (given the law above) -/
theorem rule_row_was_solved (cfg : Config) (s : Str) (hL : RbLaw O cfg s)
    (h : (runRow O cfg s).solvedBy = some .rule) :
    ((rbOut O cfg (pc1 O s)).map (·.solved)).getD false = true := by
  unfold runRow at h
  rw [(confStage_fields O _ _).2.2.1, preConf_eq, (revertStage_fields _).2.2.1] at h
  unfold pc9 at h
  have h8 := validate_solvedBy_other O _ _ _ _ _ .rule (by decide) h
  unfold pc8 pc7 at h8
  rw [(rbStage_fields O _ _).2.2.1, (postStage_fields O _).2.2.1] at h8
  unfold pc6 at h8
  have h5 := validate_solvedBy_other O _ _ _ _ _ .rule (by decide) h8
  unfold pc5 pc4 at h5
  rw [(imputeStage_fields O _).2.2.1, (searchStage_fields O _).2.2.2.1] at h5
  -- pc3.solvedBy = rule: newly solved at the rule-based check
  obtain ⟨_, a2, a3, _, _, _, a7, a8, a9⟩ := pc1_spec O s
  have hsb2 : (pc2 O cfg s).solvedBy = (pc1 O s).solvedBy := by unfold pc2; exact (rbStage_fields O _ _).2.2.1
  have h2 : (pc2 O cfg s).solved = false := by
    cases hs : (pc2 O cfg s).solved with
    | false => rfl
    | true =>
      exfalso
      have h1 : (pc1 O s).solved = true := by
        have := hs; unfold pc2 at this; rw [(rbStage_fields O _ _).2.1] at this; exact this
      unfold pc3 at h5
      rw [(validate_solved_fields O _ _ _ _ _ hs).2.2.1, hsb2, a8 h1] at h5
      cases h5
  have h1 : (pc1 O s).solved = false := by
    have := h2; unfold pc2 at this; rw [(rbStage_fields O _ _).2.1] at this; exact this
  have h3 : (pc3 O cfg s).solved = true := by
    cases hs : (pc3 O cfg s).solved with
    | true => rfl
    | false =>
      exfalso
      unfold pc3 at hs h5
      rw [(validate_unsolved O _ _ _ _ _ hs).2.1, hsb2, a9 h1] at h5; cases h5
  have hn := validate_newly_solved O .rule false true none (pc2 O cfg s) h2 h3
  have hv : verdictOf O (pc2 O cfg s).reaction = .balance := hn.1
  have hc : labelOf O s = .balanced := by
    have := hn.2.1
    simp only [Bool.false_eq_true, if_false] at this
    unfold pc2 at this; rw [(rbStage_fields O _ _).2.2.2.2.1, a3] at this; exact this
  have hnb : ¬ verdictOf O s = .balance := fun hb => by
    have := a7.2 ⟨hb, hc⟩; rw [h1] at this; cases this
  cases ho : rbOut O cfg (pc1 O s) with
  | none =>
    exfalso
    have : (pc2 O cfg s).reaction = s := by unfold pc2 rbStage; rw [ho]; exact a2
    rw [this] at hv; exact hnb hv
  | some o =>
    simp only [Option.map_some, Option.getD_some]
    cases hso : o.solved with
    | true => rfl
    | false =>
      exfalso
      have : (pc2 O cfg s).reaction = o.reaction := by unfold pc2 rbStage; rw [ho]
      rw [this] at hv
      exact hnb (hL o ho hso hv)

/-! ### lifting to sums -/

theorem sumStats_fields (l : List RowStats) :
    sumStats l = ⟨(l.map (·.reactionCnt)).sum, (l.map (·.balancedCnt)).sum, (l.map (·.rbApplied)).sum,
      (l.map (·.rbSolved)).sum, (l.map (·.mcsApplied)).sum, (l.map (·.mcsSolved)).sum,
      (l.map (·.confidentCnt)).sum⟩ := by
  induction l with
  | nil => rfl
  | cons a t ih =>
    rw [show a :: t = [a] ++ t from rfl, sumStats_append, ih]
    cases a
    simp [sumStats, RowStats.add, RowStats.zero]

theorem sum_b2n_eq_countP {α} (l : List α) (p : α → Bool) : (l.map fun x => b2n (p x)).sum = l.countP p := by
  induction l with
  | nil => rfl
  | cons a t ih =>
    simp only [List.map_cons, List.sum_cons, List.countP_cons, ih]
    cases p a <;> simp [b2n] <;> omega

theorem sum_le_sum {α} (l : List α) (f g : α → Nat) (h : ∀ x ∈ l, f x ≤ g x) :
    (l.map f).sum ≤ (l.map g).sum := by
  induction l with
  | nil => simp
  | cons a t ih =>
    simp only [List.map_cons, List.sum_cons]
    have := h a (List.mem_cons_self ..)
    have := ih (fun x hx => h x (List.mem_cons_of_mem _ hx))
    omega

end SynRBL

namespace SynRBL
open Str

/-- the fields of `rowStats` in terms of the named intermediate rows -/
theorem rowStats_fields (O : Oracle) (cfg : Config) (s : Str) :
    (rowStats O cfg s).reactionCnt = 1 ∧
    (rowStats O cfg s).balancedCnt = b2n (((rbOut O cfg (pc1 O s)).map (·.countedBalanced)).getD false) ∧
    (rowStats O cfg s).rbApplied = b2n (((rbOut O cfg (pc1 O s)).map (·.applied)).getD false) ∧
    (rowStats O cfg s).rbSolved = b2n (((rbOut O cfg (pc1 O s)).map (·.solved)).getD false) ∧
    (rowStats O cfg s).mcsApplied = b2n (pc4 O cfg s).hasMcs ∧
    (rowStats O cfg s).mcsSolved = b2n (imputeStage O (pc4 O cfg s)).2 ∧
    (rowStats O cfg s).confidentCnt =
      b2n (decide ((preConf O cfg s).solvedBy = some .mcs ∧ O.conf ≥ cfg.threshold)) := by
  refine ⟨?_, ?_, ?_, ?_, ?_, ?_, ?_⟩ <;> simp only [rowStats]

end SynRBL
