import SynRBLModel.Proofs.Pipeline2
/-!
# Declined rows (untouched, with a reason) and solved rows (method named, no issue)
-/
namespace SynRBL
open Str

variable (O : Oracle)

/-! ### `solved_by` is set exactly for solved rows, up to the confidence filter -/

theorem validate_sb (m : Method) (c o : Bool) (msg : Option Str) (r : Row)
    (h : r.solvedBy.isSome = r.solved) :
    (validate O m c o msg r).solvedBy.isSome = (validate O m c o msg r).solved := by
  cases hs : r.solved with
  | true =>
    obtain ⟨_, g2, g3, _, _, _⟩ := validate_solved_fields O m c o msg r hs
    rw [g2, g3, h, hs]
  | false =>
    cases h1 : (validate O m c o msg r).solved with
    | true => rw [(validate_newly_solved O m c o msg r hs h1).2.2.2.1]; rfl
    | false => rw [(validate_unsolved O m c o msg r h1).2.1, h, hs]

theorem pc9_sb (cfg : Config) (s : Str) : (pc9 O cfg s).solvedBy.isSome = (pc9 O cfg s).solved := by
  have h6 := (preInv_pc6 O cfg s).sb
  unfold pc9 pc8 pc7
  apply validate_sb
  rw [(rbStage_fields O _ _).2.1, (rbStage_fields O _ _).2.2.1, (postStage_fields O _).2.1,
    (postStage_fields O _).2.2.1]
  exact h6

/-! ### unsolved rows -/

/-- if the row is unsolved at stage 9 it was unsolved at every earlier stage -/
theorem unsolved_back (cfg : Config) (s : Str) (h : (pc9 O cfg s).solved = false) :
    (pc8 O cfg s).solved = false ∧ (pc6 O cfg s).solved = false ∧ (pc5 O cfg s).solved = false ∧
    (pc3 O cfg s).solved = false ∧ (pc2 O cfg s).solved = false ∧ (pc1 O s).solved = false := by
  have h8 : (pc8 O cfg s).solved = false := (validate_unsolved O _ _ _ _ _ h).1
  have h6 : (pc6 O cfg s).solved = false := by
    unfold pc8 pc7 at h8
    rw [(rbStage_fields O _ _).2.1, (postStage_fields O _).2.1] at h8; exact h8
  have h5 : (pc5 O cfg s).solved = false := (validate_unsolved O _ _ _ _ _ h6).1
  have h3 : (pc3 O cfg s).solved = false := by
    unfold pc5 pc4 at h5
    rw [(imputeStage_fields O _).2.1, (searchStage_fields O _).2.2.1] at h5; exact h5
  have h2 : (pc2 O cfg s).solved = false := (validate_unsolved O _ _ _ _ _ h3).1
  have h1 : (pc1 O s).solved = false := by
    unfold pc2 at h2; rw [(rbStage_fields O _ _).2.1] at h2; exact h2
  exact ⟨h8, h6, h5, h3, h2, h1⟩

theorem pc_input (cfg : Config) (s : Str) :
    (pc1 O s).input = s ∧ (pc2 O cfg s).input = s ∧ (pc3 O cfg s).input = s ∧ (pc4 O cfg s).input = s ∧
    (pc5 O cfg s).input = s ∧ (pc6 O cfg s).input = s ∧ (pc7 O cfg s).input = s ∧ (pc8 O cfg s).input = s ∧
    (pc9 O cfg s).input = s := by
  have e1 : (pc1 O s).input = s := by unfold pc1 pc0; rw [validate_input]
  have e2 : (pc2 O cfg s).input = s := by unfold pc2; rw [(rbStage_fields O _ _).1]; exact e1
  have e3 : (pc3 O cfg s).input = s := by unfold pc3; rw [validate_input]; exact e2
  have e4 : (pc4 O cfg s).input = s := by unfold pc4; rw [(searchStage_fields O _).1]; exact e3
  have e5 : (pc5 O cfg s).input = s := by unfold pc5; rw [(imputeStage_fields O _).1]; exact e4
  have e6 : (pc6 O cfg s).input = s := by unfold pc6; rw [validate_input]; exact e5
  have e7 : (pc7 O cfg s).input = s := by unfold pc7; rw [(postStage_fields O _).1]; exact e6
  have e8 : (pc8 O cfg s).input = s := by unfold pc8; rw [(rbStage_fields O _ _).1]; exact e7
  have e9 : (pc9 O cfg s).input = s := by unfold pc9; rw [validate_input]; exact e8
  exact ⟨e1, e2, e3, e4, e5, e6, e7, e8, e9⟩

/-- an unsolved row has an issue from the search stage on -/
theorem unsolved_has_issue (cfg : Config) (s : Str) (h : (pc9 O cfg s).solved = false) :
    (pc8 O cfg s).issue.isSome = true := by
  obtain ⟨_, h6, _, h3, _, _⟩ := unsolved_back O cfg s h
  have i4 : (pc4 O cfg s).issue.isSome = true := by
    unfold pc4; exact (searchStage_unsolved O _ h3).2.1
  have i5 : (pc5 O cfg s).issue.isSome = true := by
    unfold pc5; exact (imputeStage_fields O _).2.2.2.2.2.2.2 i4
  have i6 : (pc6 O cfg s).issue = (pc5 O cfg s).issue := by
    unfold pc6 at h6 ⊢; exact ((validate_unsolved O _ _ _ _ _ h6).2.2.2.2.1 rfl).2
  unfold pc8 pc7
  rw [(rbStage_fields O _ _).2.2.2.1, (postStage_fields O _).2.2.2.1, i6]; exact i5

/-- the final validator on an unsolved row that has an issue: input restored, issue non-empty -/
theorem validate_final_unsolved (m : Method) (c : Bool) (msg : Str) (hmsg : msg ≠ []) (r : Row)
    (h1 : (validate O m c true (some msg) r).solved = false) (hi : r.issue.isSome = true) :
    (validate O m c true (some msg) r).reaction = r.input ∧
    (validate O m c true (some msg) r).issue.isSome = true ∧
    (validate O m c true (some msg) r).issue ≠ some [] := by
  have hu := validate_unsolved O m c true (some msg) r h1
  refine ⟨hu.2.2.2.1 rfl, ?_⟩
  have hnb : ¬ (verdictOf O r.reaction = .balance ∧ (if c = true then labelOf O r.reaction else r.carbon) = .balanced ∧
      r.solved = false) := fun hb => hu.2.2.1 ⟨hb.1, hb.2.1⟩
  have hs := hu.1
  clear hu h1
  unfold validate
  simp only []
  rw [if_neg hnb]
  cases hiss : r.issue with
  | none => rw [hiss] at hi; cases hi
  | some x =>
    cases x with
    | nil => simp [hs, hiss, hmsg]
    | cons a t => simp [hs, hiss]

theorem finalMsg_ne : finalMsg ≠ [] := by decide

/-- an unsolved row was never curated -/
theorem unsolved_uncurated (cfg : Config) (s : Str) (h : (pc9 O cfg s).solved = false) :
    (pc9 O cfg s).uncurated = none := by
  obtain ⟨_, h6, _, _, _, _⟩ := unsolved_back O cfg s h
  have p6 := preInv_pc6 O cfg s
  unfold pc9 pc8 pc7
  rw [(validate_frame O _ _ _ _ _).2.2.2.2, (rbStage_fields O _ _).2.2.2.2.2.2.2.2.2.2]
  rcases postStage_cases O (pc6 O cfg s) p6.uncur with ⟨hu, _⟩ | ⟨_, hsb, _⟩
  · exact hu
  · rw [p6.sb, h6] at hsb; cases hsb

/-- **a declined row** (threshold 0) **is returned untouched and with a reason** — for every oracle -/
theorem declined_untouched (cfg : Config) (h0 : cfg.threshold = 0) (s : Str)
    (h : (runRow O cfg s).solved = false) :
    (runRow O cfg s).reaction = s ∧ (runRow O cfg s).input = s ∧
    (runRow O cfg s).issue.isSome = true ∧ (runRow O cfg s).issue ≠ some [] := by
  unfold runRow at h ⊢
  rw [h0] at h ⊢
  obtain ⟨c1, c2⟩ := confStage_zero O (preConf O cfg s)
  obtain ⟨d1, d2, _, _, _⟩ := confStage_fields O 0 (preConf O cfg s)
  rw [c1] at h
  rw [d1, d2, c2]
  rw [preConf_eq] at h ⊢
  have h9 : (pc9 O cfg s).solved = false := by rw [← (revertStage_fields _).2.1]; exact h
  rw [revertStage_none _ (unsolved_uncurated O cfg s h9)]
  have hi := unsolved_has_issue O cfg s h9
  have hf := validate_final_unsolved O .mcs true finalMsg finalMsg_ne (pc8 O cfg s) h9 hi
  refine ⟨?_, (pc_input O cfg s).2.2.2.2.2.2.2.2, hf.2.1, hf.2.2⟩
  unfold pc9; rw [hf.1]; exact (pc_input O cfg s).2.2.2.2.2.2.2.1

/-- **a solved row names its method** — for every oracle and threshold -/
theorem solved_names_method (cfg : Config) (s : Str) (h : (runRow O cfg s).solved = true) :
    (runRow O cfg s).solvedBy.isSome = true := by
  unfold runRow at h ⊢
  obtain ⟨_, _, d3, _, d5⟩ := confStage_fields O cfg.threshold (preConf O cfg s)
  rw [d3]
  have hs := d5 h
  rw [preConf_eq] at hs ⊢
  rw [(revertStage_fields _).2.1] at hs
  rw [(revertStage_fields _).2.2.1, pc9_sb]; exact hs

end SynRBL
