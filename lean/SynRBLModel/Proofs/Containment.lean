import SynRBLModel.Proofs.StrLemmas
import SynRBLModel.Proofs.Pipeline4
import SynRBLModel.Proofs.Matcher
/-!
# Rebalancing only appends: both sides of the returned reaction extend the sides of the input
-/
namespace SynRBL
open Str

/-- `r` is the reaction `a>>b` with a `>`-free suffix appended to each side -/
def Ext (a b r : Str) : Prop :=
  ∃ ra pa, r = (a ++ ra) ++ str ">>" ++ (b ++ pa) ∧ NoGt ra ∧ NoGt pa

theorem ext_refl (a b : Str) : Ext a b (a ++ str ">>" ++ b) :=
  ⟨[], [], by simp, by simp [NoGt], by simp [NoGt]⟩

theorem ext_trans {a b : Str} {ra pa r : Str} (hra : NoGt ra) (hpa : NoGt pa)
    (h : Ext (a ++ ra) (b ++ pa) r) : Ext a b r := by
  obtain ⟨ra', pa', e, h1, h2⟩ := h
  exact ⟨ra ++ ra', pa ++ pa', by rw [e]; simp, NoGt.append hra h1, NoGt.append hpa h2⟩

theorem ext_append_products {a b r : Str} (h : Ext a b r) (x : Str) (hx : NoGt x) : Ext a b (r ++ x) := by
  obtain ⟨ra, pa, e, h1, h2⟩ := h
  exact ⟨ra, pa ++ x, by rw [e]; simp, h1, NoGt.append h2 hx⟩

/-! ### the constraint only appends -/

theorem noGt_str_consts : NoGt (str ".O") ∧ NoGt (str "O") ∧ NoGt (str ".[O]") ∧ NoGt (str ".[H].[H]") ∧
    NoGt (str ".O.O") ∧ NoGt (str "O.O") := by decide

theorem addWater_noGt (given part : Str) (n : Nat) (hp : NoGt part) : NoGt (addWater given part n) := by
  unfold addWater
  split
  · exact NoGt.append hp (noGt_rep _ noGt_str_consts.1 n)
  · exact noGt_rep _ noGt_str_consts.2.1 n

theorem hBranch_spec (given : Str) (rp : Str × Str) (hp : NoGt rp.2) :
    (∃ x, (hBranch given rp).1 = rp.1 ++ x ∧ NoGt x) ∧ NoGt (hBranch given rp).2 := by
  obtain ⟨react, part⟩ := rp
  unfold hBranch
  simp only []
  split
  · split
    · exact ⟨⟨[], by simp, by simp [NoGt]⟩, hp⟩
    · split
      · exact ⟨⟨_, rfl, noGt_rep _ noGt_str_consts.2.2.1 _⟩, addWater_noGt _ _ _ (noGt_removeAll _ _ hp)⟩
      · exact ⟨⟨[], by simp, by simp [NoGt]⟩, hp⟩
  · exact ⟨⟨[], by simp, by simp [NoGt]⟩, hp⟩

theorem oBranch_spec (given : Str) (rp : Str × Str) (hp : NoGt rp.2) :
    (∃ x, (oBranch given rp).1 = rp.1 ++ x ∧ NoGt x) ∧ NoGt (oBranch given rp).2 := by
  obtain ⟨react, part⟩ := rp
  unfold oBranch
  simp only []
  split
  · split
    · exact ⟨⟨[], by simp, by simp [NoGt]⟩, hp⟩
    · exact ⟨⟨_, rfl, noGt_rep _ noGt_str_consts.2.2.2.1 _⟩, addWater_noGt _ _ _ (noGt_removeAll _ _ hp)⟩
  · split
    · refine ⟨⟨_, rfl, noGt_str_consts.2.2.2.1⟩, ?_⟩
      split
      · exact NoGt.append (noGt_removeAll _ _ hp) noGt_str_consts.2.2.2.2.1
      · exact noGt_str_consts.2.2.2.2.2
    · exact ⟨⟨[], by simp, by simp [NoGt]⟩, hp⟩

/-- `modify` appends a `>`-free string to the reactants and keeps the part of the products that
`split_added_products` calls given, followed by a `>`-free string -/
theorem modify_spec (e : Entry) (ht : NoGt (splitAdded e).2) :
    (∃ x, (modify e).1 = e.reactants ++ x ∧ NoGt x) ∧
    (∃ y, (modify e).2 = (splitAdded e).1 ++ y ∧ NoGt y) := by
  unfold modify
  rcases hs : splitAdded e with ⟨given, added⟩
  rw [hs] at ht
  simp only []
  have h1 := hBranch_spec given (e.reactants, added) ht
  have h2 := oBranch_spec given (hBranch given (e.reactants, added)) h1.2
  obtain ⟨⟨x1, e1, n1⟩, _⟩ := h1
  obtain ⟨⟨x2, e2, n2⟩, n3⟩ := h2
  rcases ho : oBranch given (hBranch given (e.reactants, added)) with ⟨react, part⟩
  rw [ho] at e2 n3
  simp only [] at e2 n3 ⊢
  refine ⟨⟨x1 ++ x2, ?_, NoGt.append n1 n2⟩, ⟨part, rfl, n3⟩⟩
  rw [e2, e1]; simp

theorem isSuffixOf_append_self (x y : Str) : y.isSuffixOf (x ++ y) = true := by
  rw [List.isSuffixOf_iff_suffix]; exact List.suffix_append x y

/-- products-side entry in pipeline form: what `split_added_products` returns -/
theorem splitAdded_products (r g ad : Str) :
    splitAdded ⟨r, g ++ '.' :: ad, some ad⟩ = (g, '.' :: ad) ∨
    splitAdded ⟨r, g ++ '.' :: ad, some ad⟩ = (g ++ '.' :: ad, []) := by
  unfold splitAdded
  simp only []
  split
  · right; rfl
  · left
    have hl : (g ++ '.' :: ad).length - ad.length - 1 = g.length := by
      simp only [List.length_append, List.length_cons]; omega
    rw [hl, List.take_left']
    rfl

theorem splitAdded_reactants (r p : Str) : splitAdded ⟨r, p, some []⟩ = (p, []) := by
  unfold splitAdded; simp

/-! ### tokens appended by the imputer are database SMILES -/

theorem dfs_rules_mem (rules : List Rule) :
    ∀ fuel data path, ∀ sol ∈ dfs rules fuel data path, ∀ st ∈ sol, st ∈ path ∨ st.rule ∈ rules := by
  intro fuel
  induction fuel with
  | zero => intro data path sol h; simp [dfs] at h
  | succ n ih =>
    intro data path sol hsol st hst
    simp only [dfs] at hsol
    split at hsol
    · simp only [List.mem_singleton] at hsol; subst hsol; exact Or.inl hst
    · simp only [List.mem_flatMap] at hsol
      obtain ⟨r, hr, hin⟩ := hsol
      split at hin
      · split at hin
        · simp at hin
        · rcases ih _ _ sol hin st hst with h | h
          · rcases List.mem_append.1 h with h | h
            · exact Or.inl h
            · simp only [List.mem_singleton] at h; subst h; exact Or.inr hr
          · exact Or.inr h
      · simp at hin

theorem imputeTokens_mem (rules : List Rule) (d : Dict) (toks : List String) (h : imputeTokens rules d = some toks) :
    ∀ t ∈ toks, ∃ r ∈ rules, t = r.smiles := by
  unfold imputeTokens at h
  split at h
  · cases h
  · rename_i s rest hs
    split at h
    · cases h
      intro t ht
      unfold solutionTokens at ht
      simp only [List.mem_flatMap] at ht
      obtain ⟨st, hst, htr⟩ := ht
      have hsm : s ∈ matchAll rules d := by rw [hs]; exact List.mem_cons_self ..
      unfold matchAll at hsm
      simp only at hsm
      have hd := mem_dedup _ _ (mem_rank _ _ hsm)
      rcases dfs_rules_mem (sortRules rules) _ _ [] s hd st hst with h0 | h0
      · simp at h0
      · exact ⟨st.rule, (mem_sortDesc _ _ _).1 h0, (List.mem_replicate.1 htr).2⟩
    · cases h

theorem noGt_joinWith_dot (ts : List Str) (h : ∀ t ∈ ts, NoGt t) : NoGt (joinWith '.' ts) := by
  induction ts with
  | nil => simp [joinWith, NoGt]
  | cons t rest ih =>
    cases rest with
    | nil => simpa [joinWith] using h t (List.mem_cons_self ..)
    | cons t' rest' =>
      simp only [joinWith]
      refine NoGt.append (h t (List.mem_cons_self ..)) (NoGt.cons (by decide) ?_)
      exact ih (fun x hx => h x (List.mem_cons_of_mem _ hx))

/-- every SMILES of the database is free of `>` (a table obligation) -/
def rulesNoGt (rules : List Rule) : Bool := rules.all fun r => decide (NoGt (str r.smiles))

/-! ### the rule-based stage -/

theorem rbRow_ext (rules : List Rule) (hr : rulesNoGt rules = true) (ban : List Str) (a b : Str)
    (ha : NoGt a) (hb : NoGt b) (rc pc : Dict) (carbon : CLabel) (o : RbOut)
    (h : rbRow rules ban (a ++ str ">>" ++ b) rc pc carbon = some o) : Ext a b o.reaction := by
  have hw : ∀ k, NoGt (rep (str ".O") k) := noGt_rep _ noGt_str_consts.1
  have h1 : ∀ k, Ext a b ((a ++ str ">>" ++ b) ++ rep (str ".O") k) :=
    fun k => ext_append_products (ext_refl a b) _ (hw k)
  unfold rbRow at h
  rw [splitArrow_mk a b ha hb] at h
  dsimp only at h
  by_cases hc : carbon = .balanced
  · rw [if_pos hc] at h
    by_cases hv : (analyse rc pc).verdict = .products ∨ (analyse rc pc).verdict = .reactants
    · rw [if_pos hv] at h
      cases hi : imputeTokens rules (analyse rc pc).formula with
      | none => rw [hi] at h; dsimp only at h; cases h; exact h1 _
      | some toks =>
        rw [hi] at h
        dsimp only at h
        have had : NoGt (joinWith '.' (toks.map str)) := by
          apply noGt_joinWith_dot
          intro t ht
          obtain ⟨tk, htk, rfl⟩ := List.mem_map.1 ht
          obtain ⟨r, hrm, rfl⟩ := imputeTokens_mem rules _ toks hi tk htk
          simp only [rulesNoGt, List.all_eq_true, decide_eq_true_eq] at hr
          exact hr r hrm
        by_cases hp : (analyse rc pc).verdict = .products
        · simp only [hp, if_true] at h
          -- products-side entry
          have hsplit := splitAdded_products a (b ++ rep (str ".O") (analyse rc pc).waters)
            (joinWith '.' (toks.map str))
          generalize he : (⟨a, b ++ rep (str ".O") (analyse rc pc).waters ++ '.' :: joinWith '.' (toks.map str),
            some (joinWith '.' (toks.map str))⟩ : Entry) = e at h hsplit
          have htail : NoGt (splitAdded e).2 := by
            rcases hsplit with hs | hs <;> rw [hs]
            · exact NoGt.cons (by decide) had
            · simp [NoGt]
          obtain ⟨⟨x, ex, nx⟩, ⟨y, ey, ny⟩⟩ := modify_spec e htail
          have hre : e.reactants = a := by rw [← he]
          unfold constraintFit at h
          rcases hm : modify e with ⟨r', p'⟩
          rw [hm] at h ex ey
          simp only [] at h ex ey
          split at h
          · cases h
            simp only []
            rw [ex, ey, hre]
            rcases hsplit with hs | hs <;> rw [hs]
            · exact ⟨x, rep (str ".O") (analyse rc pc).waters ++ y, by simp, nx, NoGt.append (hw _) ny⟩
            · exact ⟨x, rep (str ".O") (analyse rc pc).waters ++ ('.' :: joinWith '.' (toks.map str)) ++ y, by simp, nx,
                NoGt.append (NoGt.append (hw _) (NoGt.cons (by decide) had)) ny⟩
          · cases h; exact h1 _
        · simp only [hp, if_false] at h
          generalize he : (⟨a ++ '.' :: joinWith '.' (toks.map str), b ++ rep (str ".O") (analyse rc pc).waters,
            some []⟩ : Entry) = e at h
          have hs : splitAdded e = (b ++ rep (str ".O") (analyse rc pc).waters, []) := by
            rw [← he]; exact splitAdded_reactants _ _
          have htail : NoGt (splitAdded e).2 := by rw [hs]; simp [NoGt]
          obtain ⟨⟨x, ex, nx⟩, ⟨y, ey, ny⟩⟩ := modify_spec e htail
          have hre : e.reactants = a ++ '.' :: joinWith '.' (toks.map str) := by rw [← he]
          unfold constraintFit at h
          rcases hm : modify e with ⟨r', p'⟩
          rw [hm] at h ex ey
          simp only [] at h ex ey
          split at h
          · cases h
            simp only []
            rw [ex, ey, hre, hs]
            exact ⟨('.' :: joinWith '.' (toks.map str)) ++ x, rep (str ".O") (analyse rc pc).waters ++ y, by simp,
              NoGt.append (NoGt.cons (by decide) had) nx, NoGt.append (hw _) ny⟩
          · cases h; exact h1 _
    · rw [if_neg hv] at h; cases h; exact h1 _
  · rw [if_neg hc] at h; cases h; exact h1 _

theorem ext_sides {a b r : Str} (ha : NoGt a) (hb : NoGt b) (h : Ext a b r) :
    ∃ ra pa, NoGt ra ∧ NoGt pa ∧ r = (a ++ ra) ++ str ">>" ++ (b ++ pa) ∧
      sidesOf r = some (a ++ ra, b ++ pa) := by
  obtain ⟨ra, pa, e, h1, h2⟩ := h
  refine ⟨ra, pa, h1, h2, e, ?_⟩
  unfold sidesOf
  rw [e, splitArrow_mk _ _ (NoGt.append ha h1) (NoGt.append hb h2)]

theorem rbStage_ext (O : Oracle) (cfg : Config) (hr : rulesNoGt cfg.rules = true) (a b : Str)
    (ha : NoGt a) (hb : NoGt b) (r : Row) (h : Ext a b r.reaction) : Ext a b (rbStage O cfg r).reaction := by
  obtain ⟨ra, pa, h1, h2, e, hs⟩ := ext_sides ha hb h
  unfold rbStage rbOut
  rw [hs]
  simp only []
  cases ho : rbRow cfg.rules cfg.ban r.reaction (O.comp (a ++ ra)) (O.comp (b ++ pa)) r.carbon with
  | none => exact h
  | some o =>
    simp only []
    rw [e] at ho
    exact ext_trans h1 h2 (rbRow_ext cfg.rules hr cfg.ban _ _ (NoGt.append ha h1) (NoGt.append hb h2) _ _ _ o ho)

/-! ### the whole row machine -/

/-- oracle laws of the containment property (monitored on every traced row): the merged compound is `>`-free and
a curated reaction still extends the input -/
structure ContainLaws (O : Oracle) (a b : Str) : Prop where
  merged : NoGt O.merged
  curate : ∀ s c, Ext a b s → O.curate s = some c → Ext a b c

structure ExtInv (a b : Str) (r : Row) : Prop where
  reaction : Ext a b r.reaction
  input : r.input = a ++ str ">>" ++ b
  uncur : ∀ u, r.uncurated = some u → Ext a b u

theorem extInv_validate (O : Oracle) {a b : Str} {r : Row} (h : ExtInv a b r) (m : Method) (c o : Bool)
    (msg : Option Str) : ExtInv a b (validate O m c o msg r) := by
  refine ⟨?_, by rw [validate_input]; exact h.input,
    by rw [(validate_frame O m c o msg r).2.2.2.2]; exact h.uncur⟩
  cases hs : (validate O m c o msg r).solved with
  | true =>
    cases h0 : r.solved with
    | true => rw [(validate_solved_fields O m c o msg r h0).1]; exact h.reaction
    | false => rw [(validate_newly_solved O m c o msg r h0 hs).2.2.1]; exact h.reaction
  | false =>
    cases o with
    | true => rw [(validate_unsolved O m c true msg r hs).2.2.2.1 rfl, h.input]; exact ext_refl a b
    | false => rw [((validate_unsolved O m c false msg r hs).2.2.2.2.1 rfl).1]; exact h.reaction

theorem extInv_rbStage (O : Oracle) (cfg : Config) (hr : rulesNoGt cfg.rules = true) {a b : Str}
    (ha : NoGt a) (hb : NoGt b) {r : Row} (h : ExtInv a b r) : ExtInv a b (rbStage O cfg r) := by
  obtain ⟨f1, _, _, _, _, _, _, _, _, _, f11⟩ := rbStage_fields O cfg r
  exact ⟨rbStage_ext O cfg hr a b ha hb r h.reaction, by rw [f1]; exact h.input, by rw [f11]; exact h.uncur⟩

theorem extInv_searchStage (O : Oracle) {a b : Str} {r : Row} (h : ExtInv a b r) : ExtInv a b (searchStage O r) := by
  obtain ⟨f1, f2, _, _, _, f6, _⟩ := searchStage_fields O r
  exact ⟨by rw [f2]; exact h.reaction, by rw [f1]; exact h.input, by rw [f6]; exact h.uncur⟩

theorem extInv_imputeStage (O : Oracle) {a b : Str} (hm : NoGt O.merged) {r : Row} (h : ExtInv a b r) :
    ExtInv a b (imputeStage O r).1 := by
  obtain ⟨f1, _, _, _, f5, _⟩ := imputeStage_fields O r
  refine ⟨?_, by rw [f1]; exact h.input, by rw [f5]; exact h.uncur⟩
  cases hi : (imputeStage O r).2 with
  | false => rw [(imputeStage_reaction O r).1 hi]; exact h.reaction
  | true =>
    rw [((imputeStage_reaction O r).2 hi).1]
    exact ext_append_products h.reaction _ (NoGt.cons (by decide) hm)

theorem extInv_postStage (O : Oracle) {a b : Str} (hL : ContainLaws O a b) {r : Row} (h : ExtInv a b r) :
    ExtInv a b (postStage O r) := by
  refine ⟨?_, by rw [(postStage_fields O r).1]; exact h.input, ?_⟩
  · unfold postStage
    split
    · exact h.reaction
    · exact h.reaction
    · split
      · rename_i c hc; exact hL.curate _ c h.reaction hc
      · exact h.reaction
  · unfold postStage
    split
    · exact h.uncur
    · exact h.uncur
    · split
      · intro u hu; simp only [Option.some.injEq] at hu; rw [← hu]; exact h.reaction
      · exact h.uncur

theorem extInv_revert {a b : Str} {r : Row} (h : ExtInv a b r) : ExtInv a b (revertStage r) := by
  refine ⟨?_, by rw [(revertStage_fields r).1]; exact h.input,
    by rw [(revertStage_fields r).2.2.2.2.2.2.2.2.2]; intro u hu; cases hu⟩
  unfold revertStage
  split
  · exact h.reaction
  · rename_i u hu
    split
    · exact h.reaction
    · exact h.uncur u hu

/-- **both sides of the returned reaction extend the sides of the input** — whatever happened on the way -/
theorem reaction_extends_input (O : Oracle) (cfg : Config) (hr : rulesNoGt cfg.rules = true) (a b : Str)
    (ha : NoGt a) (hb : NoGt b) (hL : ContainLaws O a b) :
    Ext a b (runRow O cfg (a ++ str ">>" ++ b)).reaction := by
  have h0 : ExtInv a b (pc0 (a ++ str ">>" ++ b)) := ⟨ext_refl a b, rfl, fun u hu => by cases hu⟩
  have h9 : ExtInv a b (pc9 O cfg (a ++ str ">>" ++ b)) :=
    extInv_validate O (extInv_rbStage O cfg hr ha hb (extInv_postStage O hL (extInv_validate O
      (extInv_imputeStage O hL.merged (extInv_searchStage O (extInv_validate O
        (extInv_rbStage O cfg hr ha hb (extInv_validate O h0 _ _ _ _)) _ _ _ _))) _ _ _ _))) _ _ _ _
  unfold runRow
  rw [(confStage_fields O _ _).2.1, preConf_eq]
  exact (extInv_revert h9).reaction

end SynRBL
