import SynRBLModel.Model.RuleDB2
import SynRBLModel.Proofs.Decompose
/-!
# Helper lemmas about the rule-database state machine (`Model/RuleDB2.lean`)
-/
namespace SynRBL.RDB
open Dict

/-! ### the derived composition -/

theorem deriveAtoms_hasQ (T : SymTable) (atoms : List Atom) : (deriveAtoms T atoms).contains "Q" = true := by
  unfold deriveAtoms
  simp only
  split
  · assumption
  · exact contains_set_self _ _ _

theorem deriveAtoms_wf (T : SymTable) (atoms : List Atom) : (deriveAtoms T atoms).WF := by
  unfold deriveAtoms
  simp only
  split
  · exact decompose_wf T atoms
  · exact wf_set _ _ _ (decompose_wf T atoms)

/-- forcing `Q: 0` does not change any value -/
theorem deriveAtoms_val (T : SymTable) (atoms : List Atom) (k : Key) :
    (deriveAtoms T atoms).val k = (decompose T atoms).val k := by
  unfold deriveAtoms
  simp only
  split
  · rfl
  · rename_i h
    rw [val_set]
    split
    · subst_vars
      exact (val_of_not_contains _ _ (by simpa using h)).symm
    · rfl

theorem val_of_get?_eq (a b : Dict) (k : Key) (h : a.get? k = b.get? k) : a.val k = b.val k := by
  simp [val, h]

theorem contains_of_get?_eq (a b : Dict) (k : Key) (h : a.get? k = b.get? k) : a.contains k = b.contains k := by
  simp [contains, h]

/-! ### the invariant -/

/-- one record is consistent with the oracle: its SMILES parses, its composition is a proper dictionary and equals, as a
Python dict (same keys — among them `Q` — and same values; key order is not observable through `==`), the composition the
manager derives from that SMILES -/
structure EntryOK (T : SymTable) (O : Oracle) (e : Entry) : Prop where
  valid : O.valid e.smiles = true
  wf : e.comp.WF
  same : ∀ k, e.comp.get? k = (derive T O e.smiles).get? k

/-- **the invariant of the rule database** -/
structure Inv (T : SymTable) (O : Oracle) (s : State) : Prop where
  entries : ∀ e ∈ s, EntryOK T O e
  formulas : (s.map (·.formula)).Nodup
  smiles : (s.map (·.smiles)).Nodup

/-- the entries of `new` clash neither with an entry of `kept` nor with each other, on formula or on SMILES -/
def Fresh (kept new : List Entry) : Prop :=
  (∀ e ∈ new, ∀ d ∈ kept, e.formula ≠ d.formula ∧ e.smiles ≠ d.smiles) ∧
  new.Pairwise (fun a b => a.formula ≠ b.formula ∧ a.smiles ≠ b.smiles)

/-- a freshly inserted record: valid SMILES and exactly the derived composition (key order included) -/
def Derived (T : SymTable) (O : Oracle) (e : Entry) : Prop :=
  O.valid e.smiles = true ∧ e.comp = derive T O e.smiles

theorem Derived.ok {T : SymTable} {O : Oracle} {e : Entry} (h : Derived T O e) : EntryOK T O e :=
  ⟨h.1, by rw [h.2]; exact deriveAtoms_wf _ _, fun k => by rw [h.2]⟩

theorem inv_nil (T : SymTable) (O : Oracle) : Inv T O [] :=
  ⟨by simp, by simp, by simp⟩

/-! ### `add_entry` -/

theorem any_formula_false {s : State} {f : String} (h : s.any (fun d => d.formula == f) = false) :
    ∀ d ∈ s, d.formula ≠ f := by
  intro d hd e
  rw [List.any_eq_false] at h
  exact h d hd (by simp [e])

theorem any_smiles_false {s : State} {x : String} (h : s.any (fun d => d.smiles == x) = false) :
    ∀ d ∈ s, d.smiles ≠ x := by
  intro d hd e
  rw [List.any_eq_false] at h
  exact h d hd (by simp [e])

/-- the four ways an `add_entry` call can go, with the exact condition of each -/
theorem addEntry_spec (T : SymTable) (O : Oracle) (s : State) (f smi : String) :
    (s.any (fun d => d.formula == f) = true ∧ addEntry T O s f smi = (s, .dupFormula)) ∨
    (s.any (fun d => d.formula == f) = false ∧ s.any (fun d => d.smiles == smi) = true ∧
      addEntry T O s f smi = (s, .dupSmiles)) ∨
    (s.any (fun d => d.formula == f) = false ∧ s.any (fun d => d.smiles == smi) = false ∧ O.valid smi = false ∧
      addEntry T O s f smi = (s, .invalid)) ∨
    (s.any (fun d => d.formula == f) = false ∧ s.any (fun d => d.smiles == smi) = false ∧ O.valid smi = true ∧
      addEntry T O s f smi = (s ++ [⟨f, smi, derive T O smi⟩], .added)) := by
  unfold addEntry
  cases h1 : s.any (fun d => d.formula == f) <;> cases h2 : s.any (fun d => d.smiles == smi) <;>
    cases h3 : O.valid smi <;> simp

/-- either nothing happened, or exactly one derived, fresh record was appended -/
theorem addEntry_frame (T : SymTable) (O : Oracle) (s : State) (f smi : String) :
    ((addEntry T O s f smi).1 = s ∧ (addEntry T O s f smi).2 ≠ .added) ∨
    (∃ e, (addEntry T O s f smi).1 = s ++ [e] ∧ (addEntry T O s f smi).2 = .added ∧ e.formula = f ∧ e.smiles = smi ∧
      Derived T O e ∧ ∀ d ∈ s, e.formula ≠ d.formula ∧ e.smiles ≠ d.smiles) := by
  rcases addEntry_spec T O s f smi with h | h | h | h
  · left; rw [h.2]; simp
  · left; rw [h.2.2]; simp
  · left; rw [h.2.2.2]; simp
  · right
    refine ⟨⟨f, smi, derive T O smi⟩, by rw [h.2.2.2], by rw [h.2.2.2], rfl, rfl, ⟨h.2.2.1, rfl⟩, ?_⟩
    intro d hd
    exact ⟨fun e => any_formula_false h.1 d hd e.symm, fun e => any_smiles_false h.2.1 d hd e.symm⟩

theorem inv_append_fresh {T : SymTable} {O : Oracle} {s : State} {e : Entry} (h : Inv T O s) (he : EntryOK T O e)
    (hf : ∀ d ∈ s, e.formula ≠ d.formula ∧ e.smiles ≠ d.smiles) : Inv T O (s ++ [e]) := by
  refine ⟨?_, ?_, ?_⟩
  · intro x hx
    rcases List.mem_append.1 hx with hx | hx
    · exact h.entries x hx
    · have : x = e := by simpa using hx
      subst this; exact he
  · rw [List.map_append, List.nodup_append]
    refine ⟨h.formulas, by simp, ?_⟩
    intro a ha b hb
    obtain ⟨d, hd, rfl⟩ := List.mem_map.1 ha
    have : b = e.formula := by simpa using hb
    subst this
    exact fun e' => (hf d hd).1 e'.symm
  · rw [List.map_append, List.nodup_append]
    refine ⟨h.smiles, by simp, ?_⟩
    intro a ha b hb
    obtain ⟨d, hd, rfl⟩ := List.mem_map.1 ha
    have : b = e.smiles := by simpa using hb
    subst this
    exact fun e' => (hf d hd).2 e'.symm

theorem addEntry_inv (T : SymTable) (O : Oracle) (s : State) (f smi : String) (h : Inv T O s) :
    Inv T O (addEntry T O s f smi).1 := by
  rcases addEntry_frame T O s f smi with h1 | ⟨e, h1, _, _, _, hd, hf⟩
  · rw [h1.1]; exact h
  · rw [h1]; exact inv_append_fresh h hd.ok hf

/-! ### `add_entries` -/

theorem addEntries_nil (T : SymTable) (O : Oracle) (s : State) : addEntries T O s [] = (s, []) := rfl

theorem addEntries_cons (T : SymTable) (O : Oracle) (s : State) (e : String × String) (es : List (String × String)) :
    addEntries T O s (e :: es) =
      ((addEntries T O (addEntry T O s e.1 e.2).1 es).1,
        (addEntry T O s e.1 e.2).2 :: (addEntries T O (addEntry T O s e.1 e.2).1 es).2) := rfl

theorem addEntries_inv (T : SymTable) (O : Oracle) (es : List (String × String)) (s : State) (h : Inv T O s) :
    Inv T O (addEntries T O s es).1 := by
  induction es generalizing s with
  | nil => exact h
  | cons e es ih => rw [addEntries_cons]; exact ih _ (addEntry_inv T O s e.1 e.2 h)

/-- a bulk add appends derived, mutually fresh records and touches nothing else — from *any* state -/
theorem addEntries_frame (T : SymTable) (O : Oracle) (es : List (String × String)) (s : State) :
    ∃ new, (addEntries T O s es).1 = s ++ new ∧ (∀ e ∈ new, Derived T O e) ∧ Fresh s new := by
  induction es generalizing s with
  | nil => exact ⟨[], by simp [addEntries_nil], by simp, by simp [Fresh]⟩
  | cons e es ih =>
    rw [addEntries_cons]
    rcases addEntry_frame T O s e.1 e.2 with h1 | ⟨n, h1, _, _, _, hd, hf⟩
    · rw [h1.1]; exact ih s
    · rw [h1]
      obtain ⟨new, hs, hder, hfr⟩ := ih (s ++ [n])
      refine ⟨n :: new, by rw [hs]; simp, ?_, ?_, ?_⟩
      · intro x hx
        rcases List.mem_cons.1 hx with hx | hx
        · subst hx; exact hd
        · exact hder x hx
      · intro x hx d hd'
        rcases List.mem_cons.1 hx with hx | hx
        · subst hx; exact hf d hd'
        · exact hfr.1 x hx d (List.mem_append_left _ hd')
      · rw [List.pairwise_cons]
        refine ⟨?_, hfr.2⟩
        intro x hx
        have := hfr.1 x hx n (by simp)
        exact ⟨fun e' => this.1 e'.symm, fun e' => this.2 e'.symm⟩

/-- the course of events has one item per input item -/
theorem addEntries_length (T : SymTable) (O : Oracle) (es : List (String × String)) (s : State) :
    (addEntries T O s es).2.length = es.length := by
  induction es generalizing s with
  | nil => rfl
  | cons e es ih => rw [addEntries_cons]; simp [ih]

/-- a bulk add is the sequence of the single adds -/
theorem addEntries_state_eq_foldl (T : SymTable) (O : Oracle) (es : List (String × String)) (s : State) :
    (addEntries T O s es).1 = es.foldl (fun st e => (addEntry T O st e.1 e.2).1) s := by
  induction es generalizing s with
  | nil => rfl
  | cons e es ih => rw [addEntries_cons, List.foldl_cons]; exact ih _

theorem rejectedOf_eq_filter (es : List (String × String)) (rs : List AddResult) :
    rejectedOf es rs = ((es.zip rs).filter fun p => p.2 ≠ .added).map (·.1) := by
  induction es generalizing rs with
  | nil => simp [rejectedOf]
  | cons e es ih =>
    cases rs with
    | nil => simp [rejectedOf]
    | cons r rs =>
      simp only [rejectedOf, List.zip_cons_cons, List.filter_cons]
      by_cases hr : r = .added
      · simp [hr, ih]
      · simp [hr, ih]

/-- a bulk add and the history of the single adds: same final database, same course of events -/
theorem addEntries_eq_run (T : SymTable) (O : Oracle) (es : List (String × String)) (s : State) :
    (run T O s (es.map fun e => Op.add e.1 e.2)).1 = (addEntries T O s es).1 ∧
    (run T O s (es.map fun e => Op.add e.1 e.2)).2 = (addEntries T O s es).2.map Outcome.add := by
  induction es generalizing s with
  | nil => exact ⟨rfl, rfl⟩
  | cons e es ih =>
    have := ih (addEntry T O s e.1 e.2).1
    rw [addEntries_cons, List.map_cons]
    exact ⟨this.1, by simp [run, step, this.2]⟩

/-! ### `remove_entry` -/

/-- the literal `next(...)` + `list.remove(entry)` is the removal of the first record with that formula -/
theorem removeEntry_eq (s : State) (f : String) :
    removeEntry s f = (s.eraseP (fun d => d.formula == f), s.any (fun d => d.formula == f)) := by
  unfold removeEntry
  induction s with
  | nil => simp
  | cons d t ih =>
    by_cases hd : (d.formula == f) = true
    · simp [hd]
    · have hd' : (d.formula == f) = false := by simpa using hd
      simp only [List.find?_cons, hd', List.eraseP_cons, List.any_cons, Bool.false_or]
      cases hf : t.find? (fun d => d.formula == f) with
      | none =>
        rw [hf] at ih
        simp only at ih
        have h1 := (Prod.mk.inj ih).1
        have h2 := (Prod.mk.inj ih).2
        simp [← h1, ← h2]
      | some e =>
        rw [hf] at ih
        simp only at ih
        have h1 := (Prod.mk.inj ih).1
        have h2 := (Prod.mk.inj ih).2
        have hne : d ≠ e := by
          intro he; subst he
          have := List.find?_some hf
          rw [hd'] at this; cases this
        have : (d :: t).erase e = d :: t.erase e := by
          rw [List.erase_cons]; simp [hne]
        simp [this, h1, ← h2]

/-- exactly one record goes, the first one carrying the formula; everything else stays where it was -/
theorem eraseP_formula_split (s : State) (f : String) (h : s.any (fun d => d.formula == f) = true) :
    ∃ pre e post, s = pre ++ e :: post ∧ e.formula = f ∧ (∀ d ∈ pre, d.formula ≠ f) ∧
      s.eraseP (fun d => d.formula == f) = pre ++ post := by
  induction s with
  | nil => simp at h
  | cons d t ih =>
    by_cases hd : d.formula = f
    · exact ⟨[], d, t, rfl, hd, by simp, by simp [hd]⟩
    · have h' : t.any (fun d => d.formula == f) = true := by
        simpa [List.any_cons, hd] using h
      obtain ⟨pre, e, post, hs, he, hpre, her⟩ := ih h'
      refine ⟨d :: pre, e, post, by rw [hs]; rfl, he, ?_, ?_⟩
      · intro x hx
        rcases List.mem_cons.1 hx with hx | hx
        · subst hx; exact hd
        · exact hpre x hx
      · simp [hd, her]

theorem eraseP_of_none (s : State) (f : String) (h : s.any (fun d => d.formula == f) = false) :
    s.eraseP (fun d => d.formula == f) = s := by
  apply List.eraseP_of_forall_not
  intro d hd
  have := any_formula_false h d hd
  simpa using this

theorem inv_sublist {T : SymTable} {O : Oracle} {s t : State} (h : Inv T O s) (hs : t.Sublist s) : Inv T O t :=
  ⟨fun e he => h.entries e (hs.subset he), (hs.map _).nodup h.formulas, (hs.map _).nodup h.smiles⟩

theorem removeEntry_inv (T : SymTable) (O : Oracle) (s : State) (f : String) (h : Inv T O s) :
    Inv T O (removeEntry s f).1 := by
  rw [removeEntry_eq]
  exact inv_sublist h (List.eraseP_sublist ..)

/-! ### histories -/

theorem run_nil (T : SymTable) (O : Oracle) (s : State) : run T O s [] = (s, []) := rfl

theorem run_cons (T : SymTable) (O : Oracle) (s : State) (op : Op) (ops : List Op) :
    run T O s (op :: ops) =
      ((run T O (step T O s op).1 ops).1, (step T O s op).2 :: (run T O (step T O s op).1 ops).2) := rfl

/-! ### tables -/

theorem dictSame_get? (a b : Dict) (h : dictSame a b = true) (k : Key) : a.get? k = b.get? k := by
  simp only [dictSame, Bool.and_eq_true, List.all_eq_true, beq_iff_eq] at h
  by_cases ha : k ∈ a.keys
  · exact h.1 k ha
  · by_cases hb : k ∈ b.keys
    · exact h.2 k hb
    · have h1 : a.contains k = false := (contains_eq_false_iff a k).2 ha
      have h2 : b.contains k = false := (contains_eq_false_iff b k).2 hb
      simp only [contains, Option.isSome_eq_false_iff, Option.isNone_iff_eq_none] at h1 h2
      rw [h1, h2]

theorem find?_of_nodup_smiles (recs : List DBRecord) (h : (recs.map (·.rule.smiles)).Nodup) (r : DBRecord)
    (hr : r ∈ recs) : recs.find? (fun x => x.rule.smiles == r.rule.smiles) = some r := by
  induction recs with
  | nil => simp at hr
  | cons a t ih =>
    simp only [List.map_cons, List.nodup_cons] at h
    rcases List.mem_cons.1 hr with e | e
    · subst e; simp
    · have hne : a.rule.smiles ≠ r.rule.smiles := by
        intro e'
        exact h.1 (by rw [e']; exact List.mem_map.2 ⟨r, e, rfl⟩)
      simp only [List.find?_cons]
      have : (a.rule.smiles == r.rule.smiles) = false := by simpa using hne
      rw [this]
      exact ih h.2 e

/-- a table that passes the decidable check is a state satisfying the invariant, for the oracle that answers from
the table's RDKit columns -/
theorem invData_sound (T : SymTable) (recs : List DBRecord) (h : invData T recs = true) :
    Inv T (oracleOf recs) (recs.map entryOf) := by
  simp only [invData, Bool.and_eq_true, decide_eq_true_eq, List.all_eq_true] at h
  obtain ⟨⟨hall, hf⟩, hs⟩ := h
  refine ⟨?_, ?_, ?_⟩
  · intro e he
    obtain ⟨r, hr, rfl⟩ := List.mem_map.1 he
    have hok := hall r hr
    simp only [recOK, Bool.and_eq_true, decide_eq_true_eq] at hok
    have hfind := find?_of_nodup_smiles recs hs r hr
    refine ⟨?_, hok.1.2, ?_⟩
    · simp only [entryOf, oracleOf, hfind]; exact hok.1.1
    · intro k
      simp only [entryOf, derive, oracleOf, hfind]
      exact dictSame_get? _ _ hok.2 k
  · simpa [List.map_map, Function.comp_def, entryOf] using hf
  · simpa [List.map_map, Function.comp_def, entryOf] using hs

end SynRBL.RDB
