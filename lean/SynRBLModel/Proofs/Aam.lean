import SynRBLModel.Model.Aam
/-! Helper lemmas for C15: the two scanners act token-wise on the print of well-formed tokens. -/
namespace SynRBL.Aam

/-! ### printing -/

@[simp] theorem print_nil : print [] = [] := rfl
@[simp] theorem print_cons (t : Tok) (ts : List Tok) : print (t :: ts) = t.print ++ print ts := by
  simp [print]
theorem print_append (a b : List Tok) : print (a ++ b) = print a ++ print b := by
  simp [print]
theorem print_map_plain (a : Str) : print (a.map Tok.plain) = a := by
  induction a with
  | nil => rfl
  | cons x xs ih => simp [Tok.print, ih]

theorem wfToks_cons (t : Tok) (ts : List Tok) : wfToks (t :: ts) = (t.wf && wfToks ts) := by
  simp [wfToks]

theorem wf_bracket {b : Str} (h : (Tok.bracket b).wf = true) : '[' ∉ b ∧ ']' ∉ b := by
  simpa [Tok.wf] using h

theorem wf_plain {c : Char} (h : (Tok.plain c).wf = true) : c ≠ '[' ∧ c ≠ ']' := by
  simpa [Tok.wf] using h

/-! ### digits -/

theorem isDig_close : isDig ']' = false := by decide
theorem isDig_open : isDig '[' = false := by decide
theorem isDig_colon : isDig ':' = false := by decide

/-! ### first substitution -/

theorem dropMapsGo_skip (pre rest : Str) : dropMapsGo pre.length (pre ++ rest) = dropMapsGo 0 rest := by
  induction pre with
  | nil => rfl
  | cons x xs ih => simpa [dropMapsGo] using ih

theorem closeAfterDigits_body (xs rest : Str) (h : ']' ∉ xs) :
    closeAfterDigits (xs ++ ']' :: rest) = if xs.all isDig then some xs.length else none := by
  induction xs with
  | nil => simp [closeAfterDigits]
  | cons x xs ih =>
    have hx : x ≠ ']' := by intro e; exact h (by simp [e])
    have hxs : ']' ∉ xs := by intro e; exact h (by simp [e])
    simp only [List.cons_append, closeAfterDigits, hx, if_false, ih hxs]
    cases hd : isDig x <;> cases ha : xs.all isDig <;> simp_all

theorem classLen_body (xs rest : Str) (h : ']' ∉ xs) :
    classLen (xs ++ ']' :: rest) = if xs ≠ [] ∧ xs.all isDig then some xs.length else none := by
  cases xs with
  | nil => simp [classLen, isDig_close]
  | cons x xs =>
    have hxs : ']' ∉ xs := by intro e; exact h (by simp [e])
    simp only [List.cons_append, classLen, closeAfterDigits_body xs rest hxs]
    cases hd : isDig x <;> cases ha : xs.all isDig <;> simp_all

/-- inside a bracket atom the scanner drops exactly a trailing `:digits` -/
theorem dropMapsGo_body (b rest : Str) (h : ']' ∉ b) :
    dropMapsGo 0 (b ++ ']' :: rest) = stripClass b ++ ']' :: dropMapsGo 0 rest := by
  induction b with
  | nil => simp [dropMapsGo, stripClass]
  | cons x xs ih =>
    have hxs : ']' ∉ xs := by intro e; exact h (by simp [e])
    by_cases hx : x = ':'
    · subst hx
      simp only [List.cons_append, dropMapsGo, if_true, classLen_body xs rest hxs, stripClass]
      by_cases hc : xs ≠ [] ∧ xs.all isDig = true
      · rw [if_pos hc, if_pos (⟨trivial, hc⟩ : True ∧ _)]
        show dropMapsGo xs.length (xs ++ ']' :: rest) = _
        rw [dropMapsGo_skip xs (']' :: rest)]
        simp [dropMapsGo]
      · rw [if_neg hc, if_neg (fun h : True ∧ _ => hc h.2)]
        simp [ih hxs]
    · simp [dropMapsGo, stripClass, hx, ih hxs]

theorem closeAfterDigits_print (ts : List Tok) (h : wfToks ts = true) : closeAfterDigits (print ts) = none := by
  induction ts with
  | nil => rfl
  | cons t ts ih =>
    rw [wfToks_cons, Bool.and_eq_true] at h
    cases t with
    | bracket b => simp [Tok.print, closeAfterDigits, isDig_open]
    | plain c =>
      have := wf_plain h.1
      simp [Tok.print, closeAfterDigits, this.2, ih h.2]

/-- outside bracket atoms `:\d+\]` never matches: the `]` it needs closes a bracket atom opened later -/
theorem classLen_print (ts : List Tok) (h : wfToks ts = true) : classLen (print ts) = none := by
  cases ts with
  | nil => rfl
  | cons t ts =>
    rw [wfToks_cons, Bool.and_eq_true] at h
    cases t with
    | bracket b => simp [Tok.print, classLen, isDig_open]
    | plain c => simp [Tok.print, classLen, closeAfterDigits_print ts h.2]

theorem mem_stripClass {x : Char} {b : Str} (h : x ∈ stripClass b) : x ∈ b := by
  induction b with
  | nil => simp [stripClass] at h
  | cons y ys ih =>
    unfold stripClass at h
    split at h
    · simp at h
    · rcases List.mem_cons.1 h with rfl | h
      · simp
      · exact List.mem_cons_of_mem _ (ih h)

theorem wf_dropMapTok (t : Tok) (h : t.wf = true) : (dropMapTok t).wf = true := by
  cases t with
  | plain c => exact h
  | bracket b =>
    have := wf_bracket h
    simp only [dropMapTok, Tok.wf, Bool.and_eq_true, Bool.not_eq_true', List.contains_eq_mem,
      decide_eq_false_iff_not]
    exact ⟨fun e => this.1 (mem_stripClass e), fun e => this.2 (mem_stripClass e)⟩

theorem wfToks_map_dropMapTok (ts : List Tok) (h : wfToks ts = true) : wfToks (ts.map dropMapTok) = true := by
  simp only [wfToks, List.all_eq_true, List.mem_map, forall_exists_index, and_imp] at *
  intro t x hx e
  subst e
  exact wf_dropMapTok x (h x hx)

theorem dropMapsGo_print (ts : List Tok) (h : wfToks ts = true) :
    dropMapsGo 0 (print ts) = print (ts.map dropMapTok) := by
  induction ts with
  | nil => rfl
  | cons t ts ih =>
    rw [wfToks_cons, Bool.and_eq_true] at h
    cases t with
    | bracket b =>
      have hb := wf_bracket h.1
      have : dropMapsGo 0 ('[' :: (b ++ ']' :: print ts)) = '[' :: dropMapsGo 0 (b ++ ']' :: print ts) := by
        simp [dropMapsGo]
      simp [Tok.print, dropMapTok, this, dropMapsGo_body b (print ts) hb.2, ih h.2]
    | plain c =>
      by_cases hc : c = ':'
      · subst hc
        simp [Tok.print, dropMapTok, dropMapsGo, classLen_print ts h.2, ih h.2]
      · simp [Tok.print, dropMapTok, dropMapsGo, hc, ih h.2]

/-! ### map classes -/

theorem stripClass_class (pre ds : Str) (hne : ds ≠ []) (hd : ds.all isDig = true) :
    stripClass (pre ++ ':' :: ds) = pre := by
  induction pre with
  | nil => simp [stripClass, hne, hd]
  | cons x xs ih =>
    have : ¬ (x = ':' ∧ xs ++ ':' :: ds ≠ [] ∧ (xs ++ ':' :: ds).all isDig = true) := by
      intro ⟨_, _, h3⟩
      simp [isDig_colon] at h3
    simp only [List.cons_append, stripClass, this, if_false, ih]

theorem hasClass_tail {x : Char} {b : Str} (h : hasClass b) : hasClass (x :: b) := by
  obtain ⟨pre, ds, e, h1, h2⟩ := h
  exact ⟨x :: pre, ds, by simp [e], h1, h2⟩

theorem stripClass_noClass (b : Str) (h : ¬ hasClass b) : stripClass b = b := by
  induction b with
  | nil => rfl
  | cons x xs ih =>
    unfold stripClass
    split
    · rename_i hc
      exact absurd ⟨[], xs, by simp [hc.1], hc.2.1, hc.2.2⟩ h
    · rw [ih (fun hx => h (hasClass_tail hx))]

theorem stripClass_noColon (b : Str) (h : ':' ∉ b) : stripClass b = b := by
  apply stripClass_noClass
  intro ⟨pre, ds, e, _, _⟩
  exact h (by simp [e])

theorem not_hasClass_nil : ¬ hasClass [] := by
  intro ⟨pre, ds, e, _, _⟩
  cases pre <;> simp at e

/-- a body with at most one colon has no map class left after `stripClass` -/
theorem not_hasClass_stripClass (b : Str) (h : colonOnce b = true) : ¬ hasClass (stripClass b) := by
  by_cases hc : hasClass b
  · obtain ⟨pre, ds, e, h1, h2⟩ := hc
    subst e
    rw [stripClass_class pre ds h1 h2]
    intro ⟨pre', ds', e', _, _⟩
    have : (pre' ++ ':' :: ds' ++ ':' :: ds).count ':' ≤ 1 := by
      simpa [colonOnce, e'] using h
    simp [List.count_append] at this
    omega
  · rwa [stripClass_noClass b hc]

/-! ### second substitution -/

theorem unbracketGo_skip (pre rest : Str) : unbracketGo pre.length (pre ++ rest) = unbracketGo 0 rest := by
  induction pre with
  | nil => rfl
  | cons x xs ih => simpa [unbracketGo] using ih

theorem unbracketGo_noOpen (b rest : Str) (h : '[' ∉ b) : unbracketGo 0 (b ++ rest) = b ++ unbracketGo 0 rest := by
  induction b with
  | nil => rfl
  | cons x xs ih =>
    have hx : x ≠ '[' := by intro e; exact h (by simp [e])
    have hxs : '[' ∉ xs := by intro e; exact h (by simp [e])
    simp [unbracketGo, hx, ih hxs]

/-- a match ends at the first `]` -/
theorem bodyOf_body (b rest : Str) (h : ']' ∉ b) : bodyOf (b ++ ']' :: rest) = some b := by
  induction b with
  | nil => simp [bodyOf]
  | cons x xs ih =>
    have hx : x ≠ ']' := by intro e; exact h (by simp [e])
    have hxs : ']' ∉ xs := by intro e; exact h (by simp [e])
    simp [bodyOf, hx, ih hxs]

theorem unbracketGo_print (ts : List Tok) (h : wfToks ts = true) :
    unbracketGo 0 (print ts) = print (ts.flatMap rewriteTok) := by
  induction ts with
  | nil => rfl
  | cons t ts ih =>
    rw [wfToks_cons, Bool.and_eq_true] at h
    cases t with
    | bracket b =>
      have hb := wf_bracket h.1
      simp only [print_cons, Tok.print, List.cons_append, List.append_assoc, List.nil_append,
        List.flatMap_cons, print_append, unbracketGo, if_true, matchAt, bodyOf_body b (print ts) hb.2,
        rewriteTok]
      cases hm : matchBody b with
      | none =>
        simp [unbracketGo_noOpen b _ hb.1, unbracketGo, Tok.print, ih h.2]
      | some a =>
        have := unbracketGo_skip (b ++ [']']) (print ts)
        simp only [List.length_append, List.length_singleton, List.append_assoc, List.singleton_append] at this
        simp [this, print_map_plain, ih h.2]
    | plain c =>
      have hc := wf_plain h.1
      simp [Tok.print, unbracketGo, hc.1, rewriteTok, ih h.2]

/-! ### shape of the unbracketed bodies -/

theorem sym?_spec {s a r : Str} (h : sym? s = some (a, r)) : s = a ++ r ∧ a ∈ organic1 := by
  have single : ∀ c : Char, singles.contains c = true → [c] ∈ organic1 := by
    intro c hc
    simp only [singles, List.contains_eq_mem, decide_eq_true_eq, List.mem_cons, List.not_mem_nil, or_false] at hc
    rcases hc with rfl | rfl | rfl | rfl | rfl | rfl | rfl | rfl <;> decide
  unfold sym? at h
  split at h
  · cases h
  · split at h
    · split at h
      · rename_i hc
        cases h
        obtain ⟨rfl, rfl⟩ := hc
        exact ⟨rfl, by decide⟩
      · split at h
        · rename_i hc
          cases h
          obtain ⟨rfl, rfl⟩ := hc
          exact ⟨rfl, by decide⟩
        · split at h
          · rename_i hc
            cases h
            exact ⟨rfl, single _ hc⟩
          · cases h
    · split at h
      · rename_i hc
        cases h
        exact ⟨rfl, single _ hc⟩
      · cases h

theorem mem_digits_of_isDig {d : Char} (h : isDig d = true) : d ∈ digits := by
  simpa [isDig] using h

theorem hOK_spec {r : Str} (h : hOK r = true) : r ∈ hSpellings := by
  unfold hOK at h
  split at h
  · simp [hSpellings]
  · simp [hSpellings]
  · rename_i d
    have := mem_digits_of_isDig h
    simp only [hSpellings, List.mem_append, List.mem_map]
    exact Or.inr ⟨d, this, rfl⟩
  · cases h

theorem organic12_single {a : Str} (h : a ∈ organic1) : a ∈ organic12 := by
  simp [organic12, h]

theorem organic12_pair {a b : Str} (ha : a ∈ organic1) (hb : b ∈ organic1) : a ++ b ∈ organic12 := by
  simp only [organic12, List.mem_append, List.mem_flatMap, List.mem_map]
  exact Or.inr ⟨a, ha, b, hb, rfl⟩

/-- the lookahead, on bodies of the admissible shape, excludes exactly the hypervalent hydride spellings -/
theorem blocked_eq_hyperHydride :
    (organic12.all fun a => hSpellings.all fun h => blocked (a ++ h) == hyperHydride a h) = true := by
  decide +kernel

/-- completeness on the finite shape: every body `X ++ h` behaves as the closed formula says -/
theorem matchBody_table :
    (organic12.all fun a => hSpellings.all fun h =>
      matchBody (a ++ h) == if hyperHydride a h then none else some a) = true := by
  decide +kernel

/-- soundness: whatever `matchBody` accepts has the finite shape, and the captured group is `X` -/
theorem matchBody_shape {b a : Str} (h : matchBody b = some a) :
    a ∈ organic12 ∧ ∃ hs ∈ hSpellings, b = a ++ hs ∧ hyperHydride a hs = false := by
  have key : ∀ a hs, a ∈ organic12 → hs ∈ hSpellings → blocked (a ++ hs) = false → hyperHydride a hs = false := by
    intro a hs ha hh hb
    have := blocked_eq_hyperHydride
    simp only [List.all_eq_true, beq_iff_eq] at this
    rw [← this a ha hs hh]
    exact hb
  unfold matchBody at h
  split at h
  · cases h
  · rename_i hbl
    simp only [Bool.not_eq_true] at hbl
    split at h
    · cases h
    · rename_i a1 r1 h1
      obtain ⟨e1, m1⟩ := sym?_spec h1
      split at h
      · rename_i a2 r2 h2
        obtain ⟨e2, m2⟩ := sym?_spec h2
        split at h
        · rename_i hok
          cases h
          have hm := organic12_pair m1 m2
          have hh := hOK_spec hok
          have eb : b = (a1 ++ a2) ++ r2 := by rw [e1, e2, List.append_assoc]
          exact ⟨hm, r2, hh, eb, key _ _ hm hh (by rw [← eb]; exact hbl)⟩
        · cases h
      · split at h
        · rename_i hok
          cases h
          have hm := organic12_single m1
          have hh := hOK_spec hok
          exact ⟨hm, r1, hh, e1, key _ _ hm hh (by rw [← e1]; exact hbl)⟩
        · cases h

/-- the output tokens are well-formed again -/
theorem wfToks_removeToks (ts : List Tok) (h : wfToks ts = true) : wfToks (removeToks ts) = true := by
  have h1 := wfToks_map_dropMapTok ts h
  simp only [removeToks, wfToks, List.all_eq_true, List.mem_flatMap] at *
  rintro t ⟨t0, ht0, ht⟩
  cases t0 with
  | plain c => simp only [rewriteTok, List.mem_singleton] at ht; subst ht; exact h1 _ ht0
  | bracket b0 =>
    simp only [rewriteTok] at ht
    split at ht
    · rename_i a hm
      obtain ⟨ha, -⟩ := matchBody_shape hm
      simp only [List.mem_map] at ht
      obtain ⟨c, hca, rfl⟩ := ht
      have : ∀ x ∈ organic12, ∀ c ∈ x, (Tok.plain c).wf = true := by decide +kernel
      exact this a ha c hca
    · simp only [List.mem_singleton] at ht; subst ht; exact h1 _ ht0

/-! ### tokenizer -/

theorem tokGo_print_aux (ts : List Tok) (h : wfToks ts = true) :
    tokGo none (print ts) = some ts ∧
    ∀ (acc b : Str), '[' ∉ b → ']' ∉ b →
      tokGo (some acc) (b ++ ']' :: print ts) = some (Tok.bracket (acc ++ b) :: ts) := by
  induction ts with
  | nil =>
    refine ⟨rfl, ?_⟩
    intro acc b
    induction b generalizing acc with
    | nil => intro _ _; simp [tokGo]
    | cons x xs ih =>
      intro h1 h2
      have hx1 : x ≠ '[' := by intro e; exact h1 (by simp [e])
      have hx2 : x ≠ ']' := by intro e; exact h2 (by simp [e])
      have := ih (acc ++ [x]) (by intro e; exact h1 (by simp [e])) (by intro e; exact h2 (by simp [e]))
      simpa [tokGo, hx1, hx2] using this
  | cons t ts ih =>
    rw [wfToks_cons, Bool.and_eq_true] at h
    obtain ⟨ih1, ih2⟩ := ih h.2
    have first : tokGo none (print (t :: ts)) = some (t :: ts) := by
      cases t with
      | bracket b =>
        have hb := wf_bracket h.1
        have := ih2 [] b hb.1 hb.2
        simpa [Tok.print, tokGo] using this
      | plain c =>
        have hc := wf_plain h.1
        simp [Tok.print, tokGo, hc.1, hc.2, ih1]
    refine ⟨first, ?_⟩
    intro acc b
    induction b generalizing acc with
    | nil => intro _ _; simp only [List.nil_append, tokGo, if_true, first]; simp
    | cons x xs ihb =>
      intro h1 h2
      have hx1 : x ≠ '[' := by intro e; exact h1 (by simp [e])
      have hx2 : x ≠ ']' := by intro e; exact h2 (by simp [e])
      have := ihb (acc ++ [x]) (by intro e; exact h1 (by simp [e])) (by intro e; exact h2 (by simp [e]))
      simpa [tokGo, hx1, hx2] using this

theorem wf_bracket_of {b : Str} (h1 : '[' ∉ b) (h2 : ']' ∉ b) : (Tok.bracket b).wf = true := by
  simp [Tok.wf, h1, h2]

theorem tokGo_sound (s : Str) :
    (∀ ts, tokGo none s = some ts → print ts = s ∧ wfToks ts = true) ∧
    (∀ acc ts, tokGo (some acc) s = some ts →
      ∃ b ts', ts = Tok.bracket (acc ++ b) :: ts' ∧ s = b ++ ']' :: print ts' ∧ '[' ∉ b ∧ ']' ∉ b ∧
        wfToks ts' = true) := by
  induction s with
  | nil =>
    refine ⟨?_, ?_⟩
    · intro ts h
      simp only [tokGo, Option.some.injEq] at h
      subst h
      exact ⟨rfl, rfl⟩
    · intro acc ts h
      simp [tokGo] at h
  | cons c cs ih =>
    obtain ⟨ih1, ih2⟩ := ih
    refine ⟨?_, ?_⟩
    · intro ts h
      unfold tokGo at h
      split at h
      · rename_i hc
        obtain ⟨b, ts', rfl, e, h1, h2, hw⟩ := ih2 [] ts h
        subst hc
        refine ⟨by simp [Tok.print, e], ?_⟩
        rw [wfToks_cons, hw, List.nil_append, wf_bracket_of h1 h2]
        rfl
      · split at h
        · cases h
        · rename_i hc1 hc2
          cases h0 : tokGo none cs with
          | none => simp [h0] at h
          | some ts0 =>
            simp only [h0, Option.map_some, Option.some.injEq] at h
            subst h
            obtain ⟨e, hw⟩ := ih1 ts0 h0
            refine ⟨by simp [Tok.print, e], ?_⟩
            rw [wfToks_cons, hw]
            simp [Tok.wf, hc1, hc2]
    · intro acc ts h
      unfold tokGo at h
      split at h
      · rename_i hc
        cases h0 : tokGo none cs with
        | none => simp [h0] at h
        | some ts0 =>
          simp only [h0, Option.map_some, Option.some.injEq] at h
          subst h
          obtain ⟨e, hw⟩ := ih1 ts0 h0
          exact ⟨[], ts0, by simp, by simp [hc, e], by simp, by simp, hw⟩
      · split at h
        · cases h
        · rename_i hc1 hc2
          obtain ⟨b, ts', rfl, e, h1, h2, hw⟩ := ih2 (acc ++ [c]) ts h
          refine ⟨c :: b, ts', by simp, by simp [e], ?_, ?_, hw⟩
          · simp only [List.mem_cons, not_or]
            exact ⟨fun e => hc2 e.symm, h1⟩
          · simp only [List.mem_cons, not_or]
            exact ⟨fun e => hc1 e.symm, h2⟩

end SynRBL.Aam
