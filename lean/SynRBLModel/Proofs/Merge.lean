import SynRBLModel.Model.Merge
/-!
# Lemmas about `Model/Graph.lean` and `Model/Merge.lean` (C09)
-/
namespace SynRBL.Mol

/-! ## graph level -/

@[simp] theorem combine_atoms (a b : Graph) : (combine a b).atoms = a.atoms ++ b.atoms := rfl
@[simp] theorem combine_bonds (a b : Graph) : (combine a b).bonds = a.bonds ++ b.bonds.map (shiftBond a.n) := rfl
@[simp] theorem modifyAtom_n (g : Graph) (i : Nat) (f : Atom → Atom) : (g.modifyAtom i f).n = g.n := by
  simp [Graph.modifyAtom, Graph.n]
@[simp] theorem modifyAtom_bonds (g : Graph) (i : Nat) (f : Atom → Atom) : (g.modifyAtom i f).bonds = g.bonds := rfl
@[simp] theorem modifyAtom_atoms (g : Graph) (i : Nat) (f : Atom → Atom) :
    (g.modifyAtom i f).atoms = g.atoms.modify i f := rfl

@[simp] theorem fixH_sym (n : Nat) (x : Atom) : (fixH n x).sym = x.sym := by unfold fixH; split <;> rfl
@[simp] theorem fixH_charge (n : Nat) (x : Atom) : (fixH n x).charge = x.charge := by unfold fixH; split <;> rfl
@[simp] theorem fixH_noImplicit (n : Nat) (x : Atom) : (fixH n x).noImplicit = x.noImplicit := by
  unfold fixH; split <;> rfl
@[simp] theorem fixH_aromatic (n : Nat) (x : Atom) : (fixH n x).aromatic = x.aromatic := by unfold fixH; split <;> rfl
theorem fixH_explicitH (n : Nat) (x : Atom) : (fixH n x).explicitH = x.explicitH - n := by
  unfold fixH; split
  · rfl
  · omega

/-- mapping a function that does not see the change made by `f` over a list modified at one place -/
theorem map_modify_of_invariant {α β} (g : α → β) (f : α → α) (h : ∀ x, g (f x) = g x) (l : List α) (i : Nat) :
    (l.modify i f).map g = l.map g := by
  apply List.ext_getElem?
  intro j
  simp only [List.getElem?_map, List.getElem?_modify]
  cases l[j]? with
  | none => rfl
  | some x => by_cases hij : i = j <;> simp [hij, h]

theorem countP_modify_of_invariant {α} (p : α → Bool) (f : α → α) (h : ∀ x, p (f x) = p x) (l : List α) (i : Nat) :
    (l.modify i f).countP p = l.countP p := by
  have e : ∀ l : List α, l.countP p = (l.map p).countP id := fun l => by rw [List.countP_map]; rfl
  rw [e, e, map_modify_of_invariant p f h l i]

/-- the atom list of a merged molecule: both atom lists, the two bonded atoms with their explicit hydrogens fixed -/
theorem mergeTwo_atoms_some (a b : Graph) (i j o : Nat) :
    (mergeTwo a b i j (some o)).atoms = a.atoms.modify i (fixH o) ++ b.atoms.modify j (fixH o) := rfl

theorem mergeTwo_atoms_none (a b : Graph) (i j : Nat) : (mergeTwo a b i j none).atoms = a.atoms ++ b.atoms := rfl

theorem mergeTwo_bonds_some (a b : Graph) (i j o : Nat) :
    (mergeTwo a b i j (some o)).bonds = a.bonds ++ b.bonds.map (shiftBond a.n) ++ [⟨i, a.n + j, o⟩] := by
  simp [mergeTwo, mergeTwoMols, Graph.addBond]

theorem mergeTwo_bonds_none (a b : Graph) (i j : Nat) :
    (mergeTwo a b i j none).bonds = a.bonds ++ b.bonds.map (shiftBond a.n) := rfl

/-- whatever a function of the atoms does not read from the explicit-H field is unchanged by a merge -/
theorem mergeTwo_map (a b : Graph) (i j : Nat) (o : Option Nat) {β} (f : Atom → β)
    (hf : ∀ n x, f (fixH n x) = f x) : (mergeTwo a b i j o).atoms.map f = (a.atoms ++ b.atoms).map f := by
  cases o with
  | none => rfl
  | some o =>
    rw [mergeTwo_atoms_some, List.map_append, List.map_append, map_modify_of_invariant f _ (hf o),
      map_modify_of_invariant f _ (hf o)]

theorem cntP_def (p : String → Bool) (g : Graph) : cntP p g = (g.atoms.map (·.sym)).countP p := by
  simp [cntP, List.countP_map]; rfl

theorem cntP_of_syms (p : String → Bool) (g g' : Graph) (h : g'.atoms.map (·.sym) = g.atoms.map (·.sym)) :
    cntP p g' = cntP p g := by rw [cntP_def, cntP_def, h]

theorem cntP_combine (p : String → Bool) (a b : Graph) : cntP p (combine a b) = cntP p a + cntP p b := by
  simp [cntP, List.countP_append]

theorem cntP_mergeTwo (p : String → Bool) (a b : Graph) (i j : Nat) (o : Option Nat) :
    cntP p (mergeTwo a b i j o) = cntP p a + cntP p b := by
  rw [cntP_def, mergeTwo_map a b i j o (·.sym) (by simp), cntP_def, cntP_def, List.map_append, List.countP_append]

theorem mergeTwo_n (a b : Graph) (i j : Nat) (o : Option Nat) : (mergeTwo a b i j o).n = a.n + b.n := by
  have := congrArg List.length (mergeTwo_map a b i j o (fun _ => ()) (by simp))
  simpa [Graph.n] using this

/-- away from the two bonded atoms nothing changes -/
theorem mergeTwo_getElem? (a b : Graph) (i j : Nat) (o : Option Nat) (k : Nat) (hi : k ≠ i) (hj : k ≠ a.n + j) :
    (mergeTwo a b i j o).atoms[k]? = (a.atoms ++ b.atoms)[k]? := by
  cases o with
  | none => rfl
  | some o =>
    rw [mergeTwo_atoms_some]
    by_cases hk : k < a.n
    · have hk' : k < (a.atoms.modify i (fixH o)).length := by simpa [Graph.n] using hk
      rw [List.getElem?_append_left hk', List.getElem?_append_left (by simpa [Graph.n] using hk), List.getElem?_modify]
      cases a.atoms[k]? <;> simp [Ne.symm hi]
    · have hk1 : a.atoms.length ≤ k := by simpa [Graph.n] using hk
      have hk' : (a.atoms.modify i (fixH o)).length ≤ k := by simpa using hk1
      rw [List.getElem?_append_right hk', List.getElem?_append_right hk1, List.getElem?_modify, List.length_modify]
      have : j ≠ k - a.atoms.length := by
        intro h; apply hj; simp only [Graph.n]; omega
      cases b.atoms[k - a.atoms.length]? <;> simp [this]

@[simp] theorem changeBond_atoms (g : Graph) (x y o : Nat) : (changeBond g x y o).atoms = g.atoms := rfl
theorem cntP_changeBond (p : String → Bool) (g : Graph) (x y o : Nat) : cntP p (changeBond g x y o) = cntP p g := rfl
theorem cntP_setCharge (p : String → Bool) (g : Graph) (i : Nat) (q : Int) : cntP p (setCharge g i q) = cntP p g := by
  simp only [cntP, setCharge, modifyAtom_atoms]
  exact countP_modify_of_invariant (fun x => p x.sym) (fun x => { x with charge := q }) (fun _ => rfl) g.atoms i

/-! ### cut / glue round trip -/

/-- the hydrogen bookkeeping that makes the explicit-H count come back exactly: the cap is explicit, or the atom has no
explicit hydrogen at all (RDKit: a parsed atom carries all of its hydrogens explicitly or none) -/
def hOK (explicit : Bool) (x : Atom) : Bool := explicit || x.explicitH == 0

theorem fixH_capH (e : Bool) (x : Atom) (h : hOK e x = true) : fixH 1 (capH e x) = x := by
  unfold hOK at h
  unfold capH fixH
  cases x with
  | mk s q hx ni ar =>
    cases e
    · simp at h ⊢; omega
    · simp

theorem modify_fix_cap (e : Bool) (l : List Atom) (i : Nat) (h : ∀ x, l[i]? = some x → hOK e x = true) :
    (l.modify i (capH e)).modify i (fixH 1) = l := by
  apply List.ext_getElem?
  intro j
  simp only [List.getElem?_modify]
  cases hx : l[j]? with
  | none => rfl
  | some x =>
    by_cases hij : i = j
    · subst hij; simp [fixH_capH e x (h x hx)]
    · simp [hij]

/-- **merge ∘ cut = id** on the graph data: merging the two capped fragments with a single bond gives back the glued
molecule, explicit hydrogens included -/
theorem mergeTwo_cutSide (a b : Graph) (i j : Nat) (ea eb : Bool) (ha : ∀ x, a.atoms[i]? = some x → hOK ea x = true)
    (hb : ∀ x, b.atoms[j]? = some x → hOK eb x = true) :
    mergeTwo (cutSide a i ea) (cutSide b j eb) i j (some 1) = glue a b i j 1 := by
  simp only [mergeTwo, mergeTwoMols, cutSide, glue, Graph.addBond, combine, Graph.modifyAtom, Graph.n,
    List.length_modify]
  rw [modify_fix_cap ea a.atoms i ha, modify_fix_cap eb b.atoms j hb]

theorem unshift_shift (k : Nat) (e : Bond) : unshiftBond k (shiftBond k e) = e := by
  simp [unshiftBond, shiftBond]

/-- cutting the glued molecule gives the two capped sides and their boundary atoms -/
theorem cutGlued_glue (a b : Graph) (i j o : Nat) (ea eb : Bool) (hwa : a.wf = true) :
    cutGlued (glue a b i j o) a.n ea eb = some ((cutSide a i ea, i), (cutSide b j eb, j)) := by
  have hfa : a.bonds.filter (fun e => decide (e.a < a.n)) = a.bonds := by
    apply List.filter_eq_self.2
    intro e he
    have := (List.all_eq_true.1 hwa) e he
    simp only [Bool.and_eq_true, decide_eq_true_eq] at this
    simpa using this.1
  have hfb : (b.bonds.map (shiftBond a.n)).filter (fun e => decide (e.a < a.n)) = [] := by
    apply List.filter_eq_nil_iff.2
    intro e he
    obtain ⟨e', _, rfl⟩ := List.mem_map.1 he
    have : ¬ (e'.a + a.n < a.n) := by omega
    simp [shiftBond, this]
  have hfa' : a.bonds.filter (fun e => !decide (e.a < a.n)) = [] := by
    apply List.filter_eq_nil_iff.2
    intro e he
    have := (List.all_eq_true.1 hwa) e he
    simp only [Bool.and_eq_true, decide_eq_true_eq] at this
    simpa using this.1
  have hfb' : (b.bonds.map (shiftBond a.n)).filter (fun e => !decide (e.a < a.n)) = b.bonds.map (shiftBond a.n) := by
    apply List.filter_eq_self.2
    intro e he
    obtain ⟨e', _, rfl⟩ := List.mem_map.1 he
    have : ¬ (e'.a + a.n < a.n) := by omega
    simp [shiftBond, this]
  have hmap : (b.bonds.map (shiftBond a.n)).map (unshiftBond a.n) = b.bonds := by
    rw [List.map_map]
    have : (unshiftBond a.n ∘ shiftBond a.n) = id := by funext e; simp [unshift_shift]
    rw [this, List.map_id]
  simp only [cutGlued, glue, Graph.addBond, combine_bonds, combine_atoms, List.getLast?_append, List.getLast?_singleton,
    Option.some_or, List.dropLast_concat, List.filter_append, hfa, hfb, hfa', hfb', hmap, List.append_nil,
    List.nil_append]
  have ht : (a.atoms ++ b.atoms).take a.n = a.atoms := by simp [Graph.n]
  have hd : (a.atoms ++ b.atoms).drop a.n = b.atoms := by simp [Graph.n]
  simp [ht, hd]

/-! ## flow level -/

/-- laws of the oracle that the conservation theorems rest on (monitored on every recorded answer) -/
structure Oracle.Laws (orc : Oracle) : Prop where
  /-- `SanitizeMol` neither adds, removes, reorders nor renames atoms -/
  sanitize_syms : ∀ g g', orc.sanitize g = some g' → g'.atoms.map (·.sym) = g.atoms.map (·.sym)
  /-- re-parsing the canonical SMILES of a molecule gives the same atoms (in some order) -/
  reparse_cnt : ∀ c b g' (p : String → Bool), orc.reparse c b = some g' → cntP p g' = cntP p c.g

/-- total weight of a rule list -/
def W (w : RuleRef → Int) (rs : List RuleRef) : Int := (rs.map w).sum

@[simp] theorem W_nil (w : RuleRef → Int) : W w [] = 0 := rfl
@[simp] theorem W_append (w : RuleRef → Int) (a b : List RuleRef) : W w (a ++ b) = W w a + W w b := by
  simp [W, List.sum_append]
@[simp] theorem W_singleton (w : RuleRef → Int) (r : RuleRef) : W w [r] = w r := by simp [W]

/-- atoms (with property `p`) of a compound that its reported rules do not account for -/
def Phi (p : String → Bool) (w : RuleRef → Int) (c : Compound) : Int := (cntP p c.g : Int) - W w c.rules

theorem Action.apply_spec (orc : Oracle) (hl : orc.Laws) (a : Action) (c c' : Compound) (b : Boundary)
    (h : a.apply orc c b = .ok c') : ∃ g', c' = { c with g := g' } ∧ ∀ p, cntP p g' = cntP p c.g := by
  cases a with
  | changeBond pattern order =>
    simp only [Action.apply] at h
    split at h
    · cases h
    · cases h; exact ⟨_, rfl, fun p => cntP_changeBond p _ _ _ _⟩
  | changeCharge q =>
    simp only [Action.apply] at h
    split at h
    · cases h; exact ⟨_, rfl, fun p => cntP_setCharge p _ _ _⟩
    · cases h
  | replace pat v =>
    simp only [Action.apply] at h
    split at h
    · cases h
    · rename_i g' hg
      split at h
      · cases h
      · split at h
        · cases h; exact ⟨_, rfl, fun p => hl.reparse_cnt _ _ _ p hg⟩
        · cases h

theorem applyActions_spec (orc : Oracle) (hl : orc.Laws) (as : List Action) (c c' : Compound) (b : Boundary)
    (h : applyActions orc as c b = .ok c') : ∃ g', c' = { c with g := g' } ∧ ∀ p, cntP p g' = cntP p c.g := by
  induction as generalizing c with
  | nil => simp [applyActions, pure, Except.pure] at h; subst h; exact ⟨c.g, rfl, fun _ => rfl⟩
  | cons a as ih =>
    simp only [applyActions, List.foldlM_cons, bind, Except.bind] at h
    split at h
    · cases h
    · rename_i c1 h1
      obtain ⟨g1, rfl, hg1⟩ := Action.apply_spec orc hl a c c1 b h1
      obtain ⟨g2, rfl, hg2⟩ := ih _ h
      exact ⟨g2, rfl, fun p => by rw [hg2 p]; exact hg1 p⟩

/-- what a successful oriented rule application returns -/
theorem applyOriented_spec (orc : Oracle) (hl : orc.Laws) (ri : Nat) (r : MergeRule) (c1 c2 m : Compound)
    (b1 b2 : Boundary) (h : r.applyOriented orc ri c1 c2 b1 b2 = .ok m) :
    ∃ g, m = { c1 with g := g, boundaries := c1.boundaries.tail, rules := c1.rules ++ c2.rules ++ [RuleRef.merge ri] }
      ∧ ∀ p, cntP p g = cntP p c1.g + cntP p c2.g := by
  simp only [MergeRule.applyOriented] at h
  split at h
  · cases h
  · rename_i c1' h1
    split at h
    · cases h
    · rename_i c2' h2
      split at h
      · cases h
      · rename_i order _
        split at h
        · cases h
        · split at h
          · cases h
          · rename_i g hs
            obtain ⟨g1, rfl, hg1⟩ := applyActions_spec orc hl _ _ _ _ h1
            obtain ⟨g2, rfl, hg2⟩ := applyActions_spec orc hl _ _ _ _ h2
            cases h
            refine ⟨g, rfl, fun p => ?_⟩
            rw [cntP_of_syms p _ _ (hl.sanitize_syms _ _ hs), cntP_mergeTwo, hg1 p, hg2 p]

/-- `m` is what `MergeRule.apply` makes of `c1` (role 1 if direct) and `c2`: all atoms of both, the rules of both plus
one merge rule, and the boundary list of the role-1 compound without its first entry -/
def MergedFrom (c1 c2 m : Compound) : Prop :=
  ∃ g ri, (∀ p, cntP p g = cntP p c1.g + cntP p c2.g) ∧
    (m = { c1 with g := g, boundaries := c1.boundaries.tail, rules := c1.rules ++ c2.rules ++ [RuleRef.merge ri] } ∨
     m = { c2 with g := g, boundaries := c2.boundaries.tail, rules := c2.rules ++ c1.rules ++ [RuleRef.merge ri] })

/-- the same without role swap -/
def MergedInto (c1 c2 m : Compound) : Prop :=
  ∃ g ri, (∀ p, cntP p g = cntP p c1.g + cntP p c2.g) ∧
    m = { c1 with g := g, boundaries := c1.boundaries.tail, rules := c1.rules ++ c2.rules ++ [RuleRef.merge ri] }

theorem MergedInto.mergedFrom {c1 c2 m : Compound} (h : MergedInto c1 c2 m) : MergedFrom c1 c2 m := by
  obtain ⟨g, ri, hg, hm⟩ := h
  exact ⟨g, ri, hg, Or.inl hm⟩

theorem apply_spec (orc : Oracle) (hl : orc.Laws) (ri : Nat) (r : MergeRule) (c1 c2 m : Compound) (b1 b2 : Boundary)
    (h : r.apply orc ri c1 c2 b1 b2 = .ok m) :
    MergedFrom c1 c2 m ∧ (r.direct orc c1 b1 c2 b2 = some true → MergedInto c1 c2 m) := by
  simp only [MergeRule.apply] at h
  split at h
  · cases h
  · rename_i hd
    obtain ⟨g, hm, hg⟩ := applyOriented_spec orc hl ri r c1 c2 m b1 b2 h
    exact ⟨⟨g, ri, hg, Or.inl hm⟩, fun _ => ⟨g, ri, hg, hm⟩⟩
  · rename_i hd
    obtain ⟨g, hm, hg⟩ := applyOriented_spec orc hl ri r c2 c1 m b2 b1 h
    refine ⟨⟨g, ri, fun p => by rw [hg p, Nat.add_comm], Or.inr hm⟩, fun h' => ?_⟩
    rw [hd] at h'; cases h'

theorem firstMergeRule_spec (orc : Oracle) (rules : List MergeRule) (c1 c2 : Compound) (b1 b2 : Boundary) (i : Nat)
    (r : MergeRule) (h : firstMergeRule orc rules c1 b1 c2 b2 = some (i, r)) :
    rules[i]? = some r ∧ r.canApply orc c1 b1 c2 b2 = true := by
  unfold firstMergeRule at h
  obtain ⟨⟨r', i'⟩, hmem, hf⟩ := List.exists_of_findSome?_eq_some h
  simp only at hf
  split at hf
  · rename_i hc
    cases hf
    refine ⟨?_, hc⟩
    have := List.mem_zipIdx_iff_getElem?.1 hmem
    simpa using this
  · cases hf

theorem mergeBoundaries_spec (orc : Oracle) (hl : orc.Laws) (tbl : Tables) (c1 c2 m : Compound)
    (h : mergeBoundaries orc tbl c1 c2 = .ok (some m)) :
    MergedFrom c1 c2 m ∧
    ∃ (b1 : Boundary) (r1 : List Boundary) (b2 : Boundary) (r2 : List Boundary) (i : Nat) (r : MergeRule), c1.boundaries = b1 :: r1 ∧ c2.boundaries = b2 :: r2 ∧ tbl.merge[i]? = some r ∧
      r.canApply orc c1 b1 c2 b2 = true ∧ (r.direct orc c1 b1 c2 b2 = some true → MergedInto c1 c2 m) := by
  unfold mergeBoundaries at h
  split at h
  · rename_i b1 r1 b2 r2 hb1 hb2
    split at h
    · cases h
    · rename_i i r hf
      obtain ⟨hi, hc⟩ := firstMergeRule_spec orc _ _ _ _ _ _ _ hf
      cases ha : r.apply orc i c1 c2 b1 b2 with
      | error e => rw [ha] at h; cases h
      | ok m' =>
        rw [ha] at h
        simp only [Except.map] at h
        cases h
        obtain ⟨h1, h2⟩ := apply_spec orc hl i r c1 c2 m b1 b2 ha
        exact ⟨h1, b1, r1, b2, r2, i, r, hb1, hb2, hi, hc, h2⟩
  · cases h

theorem Phi_mergedFrom (p : String → Bool) (w : RuleRef → Int) (hwm : ∀ i, w (.merge i) = 0) {c1 c2 m : Compound}
    (h : MergedFrom c1 c2 m) : Phi p w m = Phi p w c1 + Phi p w c2 := by
  obtain ⟨g, ri, hg, hm | hm⟩ := h <;> subst hm <;> simp [Phi, hg p, hwm] <;> omega

/-! ### no role swap when an expansion compound is merged -/

/-- the condition cannot hold for a boundary with symbol `sym` that has no neighbour and whose compound has no source
molecule — whatever RDKit / fgutils answer: the symbol is refused, or a neighbour symbol / functional group is demanded
(both tests are false without neighbour / source), or a `src_pattern` is configured (which raises without source) -/
def BCond.rejectsBare (k : BCond) (sym : String) : Bool :=
  !k.atom.eval (fun v => v == sym) || !k.neighbor.pos.isEmpty || !k.fg.pos.isEmpty || !k.srcPattern.isEmpty

/-- **table obligation**: no merge rule can fire with an expansion compound in role 1 unless its two conditions are the
same (then the direct assignment holds as well and `MergeRule.apply` does not swap) -/
def noSwapOnExpansion (tbl : Tables) : Bool :=
  tbl.merge.all fun r => tbl.expand.all fun e =>
    r.cond1 == r.cond2 || r.cond1.rejectsBare ((e.g.atoms.getD e.index default).sym)

theorem any_false {α} (l : List α) : l.any (fun _ => false) = false := by induction l <;> simp_all

theorem eval_rejectsBare (orc : Oracle) (k : BCond) (c : Compound) (b : Boundary) (hs : c.hasSrc = false)
    (hn : b.nbrIndex = none) (hy : b.nbrSymbol = none) (hr : k.rejectsBare b.symbol = true) :
    k.eval orc c b ≠ some true := by
  unfold BCond.rejectsBare at hr
  unfold BCond.eval
  simp only [Bool.or_eq_true, Bool.not_eq_true'] at hr
  rcases hr with ((h | h) | h) | h
  · simp [h]
  · split
    · simp
    · have : k.neighbor.eval (fun v => b.nbrSymbol == some v) = false := by
        unfold PropCfg.eval
        have hf : (fun v => b.nbrSymbol == some v) = fun _ => false := by funext v; simp [hy]
        rw [hf, any_false]
        simp [h]
      simp [this]
  · split
    · simp
    · split
      · simp
      · have : k.fg.eval (fun v => c.hasSrc && b.nbrIndex.isSome && orc.fg c b v) = false := by
          unfold PropCfg.eval
          have hf : (fun v => c.hasSrc && b.nbrIndex.isSome && orc.fg c b v) = fun _ => false := by funext v; simp [hs]
          rw [hf, any_false]
          simp [h]
        simp [this]
  · repeat' split
    all_goals simp_all

theorem andM_eq_some_true (x : Option Bool) (y : Unit → Option Bool) (h : andM x y = some true) :
    x = some true ∧ y () = some true := by
  unfold andM at h
  split at h <;> simp_all

theorem direct_of_canApply (orc : Oracle) (r : MergeRule) (c1 c2 : Compound) (b1 b2 : Boundary)
    (hs : c2.hasSrc = false) (hn : b2.nbrIndex = none) (hy : b2.nbrSymbol = none)
    (hns : (r.cond1 == r.cond2 || r.cond1.rejectsBare b2.symbol) = true)
    (hc : r.canApply orc c1 b1 c2 b2 = true) : r.direct orc c1 b1 c2 b2 = some true := by
  unfold MergeRule.canApply at hc
  split at hc
  · cases hc
  · assumption
  · rename_i hd
    exfalso
    have hsw : r.direct orc c2 b2 c1 b1 = some true := by
      cases hx : r.direct orc c2 b2 c1 b1 with
      | none => simp [hx] at hc
      | some v => simp [hx] at hc; simp [hc]
    obtain ⟨h1, h2⟩ := andM_eq_some_true _ _ hsw
    simp only [Bool.or_eq_true, beq_iff_eq] at hns
    rcases hns with heq | hrej
    · have e1 : r.cond1.eval orc c1 b1 = some true := by rw [heq]; exact h2
      have e2 : r.cond2.eval orc c2 b2 = some true := by rw [← heq]; exact h1
      unfold MergeRule.direct at hd
      simp [andM, e1, e2] at hd
    · exact eval_rejectsBare orc r.cond1 c2 b2 hs hn hy hrej h1

theorem expansionCompound_spec (e : ExpandRule) (ei k : Nat) (c2 : Compound) (h : expansionCompound e ei k = .ok c2) :
    c2 = { cid := 1000 + k, g := e.g, hasSrc := false,
           boundaries := [{ index := e.index, symbol := (e.g.atoms.getD e.index default).sym }],
           rules := [RuleRef.expand ei], active := true, inSet := false } := by
  unfold expansionCompound at h
  split at h
  · cases h
  · rename_i x hx
    cases h
    simp [List.getD_eq_getElem?_getD, hx]

/-- one turn of the `_merge_one_compound` loop that found an expand rule -/
theorem expansion_step (orc : Oracle) (hl : orc.Laws) (tbl : Tables) (p : String → Bool) (w : RuleRef → Int)
    (hwm : ∀ i, w (.merge i) = 0) (hwe : ∀ i, w (.expand i) = (cntP p (tbl.expand.getD i default).g : Int))
    (c c2 m : Compound) (ei k : Nat) (h2 : expansionCompound (tbl.expand.getD ei default) ei k = .ok c2)
    (hm : mergeBoundaries orc tbl c c2 = .ok (some m)) :
    Phi p w m = Phi p w c ∧ m.boundaries.length ≤ c.boundaries.length - 1 := by
  have hc2 := expansionCompound_spec _ _ _ _ h2
  obtain ⟨hmf, -⟩ := mergeBoundaries_spec orc hl tbl c c2 m hm
  refine ⟨?_, ?_⟩
  · rw [Phi_mergedFrom p w hwm hmf]
    have : Phi p w c2 = 0 := by subst hc2; simp [Phi, hwe]
    omega
  · obtain ⟨g, ri, _, hm' | hm'⟩ := hmf
    · subst hm'; simp
    · subst hm'; subst hc2; simp

theorem mergeOne_spec (orc : Oracle) (hl : orc.Laws) (tbl : Tables) (p : String → Bool) (w : RuleRef → Int)
    (hwm : ∀ i, w (.merge i) = 0) (hwe : ∀ i, w (.expand i) = (cntP p (tbl.expand.getD i default).g : Int)) :
    ∀ (fuel k : Nat) (c : Compound) (k' : Nat) (m : Compound), mergeOne orc tbl fuel k c = .ok (k', m) →
      Phi p w m = Phi p w c ∧ m.boundaries = [] := by
  intro fuel
  induction fuel with
  | zero =>
    intro k c k' m h
    simp only [mergeOne] at h
    split at h
    · cases h; rename_i hb; exact ⟨rfl, by simpa using hb⟩
    · cases h
  | succ fuel ih =>
    intro k c k' m h
    unfold mergeOne at h
    split at h
    · cases h; rename_i hb; exact ⟨rfl, hb⟩
    · rename_i b rest hb
      simp only [bind, Except.bind] at h
      split at h
      · cases h
      · rename_i oe he
        split at h
        · -- no expand rule: the boundary is dropped
          obtain ⟨h1, h2⟩ := ih _ _ _ _ h
          exact ⟨by rw [h1]; rfl, h2⟩
        · rename_i ei
          split at h
          · cases h
          · rename_i c2 h2
            split at h
            · cases h
            · rename_i om hm
              split at h
              · cases h
              · rename_i m'
                obtain ⟨h1, h3⟩ := ih _ _ _ _ h
                obtain ⟨h4, -⟩ := expansion_step orc hl tbl p w hwm hwe c c2 m' ei k h2 hm
                exact ⟨by rw [h1, h4], h3⟩

/-- the fuel `len(boundaries)` is enough: the loop of `_merge_one_compound` terminates -/
theorem mergeOne_fuel (orc : Oracle) (hl : orc.Laws) (tbl : Tables) :
    ∀ (fuel k : Nat) (c : Compound), c.boundaries.length ≤ fuel → mergeOne orc tbl fuel k c ≠ .error .outOfFuel := by
  intro fuel
  induction fuel with
  | zero =>
    intro k c hle h
    have : c.boundaries = [] := by cases hb : c.boundaries <;> simp_all
    simp [mergeOne, this] at h
  | succ fuel ih =>
    intro k c hle h
    unfold mergeOne at h
    split at h
    · cases h
    · rename_i b rest hb
      simp only [bind, Except.bind] at h
      split at h
      · rename_i e he
        cases h
        -- firstExpandRule never reports outOfFuel
        exact absurd he (by
          suffices ∀ rules i, firstExpandRule.go orc c b rules i ≠ .error .outOfFuel from this _ _
          intro rules
          induction rules with
          | nil => intro i; simp [firstExpandRule.go]
          | cons e es ih' =>
            intro i
            simp only [firstExpandRule.go]
            split
            · simp
            · simp
            · exact ih' _)
      · split at h
        · exact ih _ _ (by simp [hb] at hle ⊢; omega) h
        · rename_i ei hei
          split at h
          · rename_i e he
            cases h
            unfold expansionCompound at he
            split at he <;> cases he
          · rename_i c2 h2
            split at h
            · rename_i e he
              cases h
              -- mergeBoundaries never reports outOfFuel
              unfold mergeBoundaries at he
              split at he
              · split at he
                · cases he
                · rename_i i r _
                  cases ha : r.apply orc i c c2 _ _ with
                  | ok m' => rw [ha] at he; simp [Except.map] at he
                  | error e' =>
                    rw [ha] at he; simp only [Except.map] at he
                    cases he
                    simp only [MergeRule.apply] at ha
                    have hor : ∀ ca cb ba bb, r.applyOriented orc i ca cb ba bb ≠ .error .outOfFuel := by
                      intro ca cb ba bb hx
                      simp only [MergeRule.applyOriented] at hx
                      have hact : ∀ as cc bc, applyActions orc as cc bc ≠ .error .outOfFuel := by
                        intro as
                        induction as with
                        | nil => intro cc bc; simp [applyActions, pure, Except.pure]
                        | cons a as iha =>
                          intro cc bc hy
                          simp only [applyActions, List.foldlM_cons, bind, Except.bind] at hy
                          split at hy
                          · rename_i e'' hz
                            cases hy
                            cases a <;> simp only [Action.apply] at hz <;> repeat' split at hz
                            all_goals cases hz
                          · exact iha _ _ hy
                      split at hx
                      · rename_i e'' hz; cases hx; exact hact _ _ _ hz
                      · split at hx
                        · rename_i e'' hz; cases hx; exact hact _ _ _ hz
                        · split at hx
                          · rename_i e'' hz
                            cases hx
                            unfold parseBond at hz
                            split at hz <;> cases hz
                          · split at hx
                            · cases hx
                            · split at hx <;> cases hx
                    split at ha
                    · cases ha
                    · exact hor _ _ _ _ ha
                    · exact hor _ _ _ _ ha
              · cases he
            · rename_i om hm
              split at h
              · cases h
              · rename_i m'
                have hlen := (expansion_step orc hl tbl (fun _ => false) (fun _ => 0) (by simp)
                  (by simp [cntP]) c c2 m' ei k h2 hm).2
                exact ih _ _ (by simp [hb] at hle hlen; omega) h

/-! ### under the table obligation the loop never swaps roles -/

/-- rules reported by a sequence of (expand rule, merge rule) steps -/
def stepRules (steps : List (Nat × Nat)) : List RuleRef := steps.flatMap fun s => [RuleRef.expand s.1, RuleRef.merge s.2]

theorem default_expand_atoms : (default : ExpandRule).g.atoms = [] := rfl

theorem expansion_step_noSwap (orc : Oracle) (hl : orc.Laws) (tbl : Tables) (hns : noSwapOnExpansion tbl = true)
    (c c2 m : Compound) (ei k : Nat) (h2 : expansionCompound (tbl.expand.getD ei default) ei k = .ok c2)
    (hm : mergeBoundaries orc tbl c c2 = .ok (some m)) :
    ∃ g ri, m = { c with g := g, boundaries := c.boundaries.tail,
                         rules := c.rules ++ [RuleRef.expand ei, RuleRef.merge ri] } := by
  have hc2 := expansionCompound_spec _ _ _ _ h2
  -- the expand rule index is in range, otherwise the default rule (no atoms) would have failed
  have hmem : tbl.expand.getD ei default ∈ tbl.expand := by
    cases hx : tbl.expand[ei]? with
    | none =>
      exfalso
      have hd : tbl.expand.getD ei default = default := by simp [List.getD_eq_getElem?_getD, hx]
      rw [hd] at h2
      simp [expansionCompound, default_expand_atoms] at h2
    | some e =>
      have hd : tbl.expand.getD ei default = e := by simp [List.getD_eq_getElem?_getD, hx]
      rw [hd]; exact List.mem_of_getElem? hx
  obtain ⟨-, b1, r1, b2, r2, i, r, hb1, hb2, hi, hc, hdir⟩ := mergeBoundaries_spec orc hl tbl c c2 m hm
  have hr : r ∈ tbl.merge := List.mem_of_getElem? hi
  have hb2' : b2 = { index := (tbl.expand.getD ei default).index,
                     symbol := ((tbl.expand.getD ei default).g.atoms.getD (tbl.expand.getD ei default).index default).sym } := by
    rw [hc2] at hb2; simp at hb2; exact hb2.1.symm
  have hcond := List.all_eq_true.1 (List.all_eq_true.1 hns r hr) _ hmem
  have hdirect := direct_of_canApply orc r c c2 b1 b2 (by rw [hc2]) (by rw [hb2']) (by rw [hb2'])
    (by rw [hb2']; exact hcond) hc
  obtain ⟨g, ri, -, hm'⟩ := hdir hdirect
  refine ⟨g, ri, ?_⟩
  rw [hm', hc2]; simp

theorem mergeOne_noSwap (orc : Oracle) (hl : orc.Laws) (tbl : Tables) (hns : noSwapOnExpansion tbl = true) :
    ∀ (fuel k : Nat) (c : Compound) (k' : Nat) (m : Compound), mergeOne orc tbl fuel k c = .ok (k', m) →
      m.cid = c.cid ∧ m.inSet = c.inSet ∧ m.hasSrc = c.hasSrc ∧ m.active = c.active ∧
      ∃ steps, m.rules = c.rules ++ stepRules steps ∧ k' = k + steps.length ∧ steps.length ≤ c.boundaries.length := by
  intro fuel
  induction fuel with
  | zero =>
    intro k c k' m h
    simp only [mergeOne] at h
    split at h
    · cases h; exact ⟨rfl, rfl, rfl, rfl, [], by simp [stepRules], rfl, by simp⟩
    · cases h
  | succ fuel ih =>
    intro k c k' m h
    unfold mergeOne at h
    split at h
    · cases h; exact ⟨rfl, rfl, rfl, rfl, [], by simp [stepRules], rfl, by simp⟩
    · rename_i b rest hb
      simp only [bind, Except.bind] at h
      split at h
      · cases h
      · rename_i oe he
        split at h
        · obtain ⟨h1, h2, h3, h4, steps, h5, h6, h7⟩ := ih _ _ _ _ h
          exact ⟨h1, h2, h3, h4, steps, h5, h6, by simp [hb] at h7 ⊢; omega⟩
        · rename_i ei
          split at h
          · cases h
          · rename_i c2 h2
            split at h
            · cases h
            · rename_i om hm
              split at h
              · cases h
              · rename_i m'
                obtain ⟨g, ri, hm'⟩ := expansion_step_noSwap orc hl tbl hns c c2 m' ei k h2 hm
                obtain ⟨h1, h2', h3, h4, steps, h5, h6, h7⟩ := ih _ _ _ _ h
                subst hm'
                refine ⟨h1, h2', h3, h4, (ei, ri) :: steps, ?_, ?_, ?_⟩
                · rw [h5]; simp [stepRules]
                · simp at h6 ⊢; omega
                · simp [hb] at h7 ⊢; omega

/-! ### `concat`, `_merge_two_compounds`, `merge` -/

theorem concat_spec (a b m : Compound) (h : concat a b = .ok m) :
    m = { a with g := combine a.g b.g, hasSrc := a.hasSrc && b.hasSrc, rules := a.rules ++ b.rules } ∧
      a.boundaries = [] := by
  unfold concat at h
  split at h
  · cases h
  · split at h
    · cases h
    · rename_i hb
      cases h
      exact ⟨rfl, by simpa using hb⟩

theorem Phi_concat (p : String → Bool) (w : RuleRef → Int) (a b m : Compound) (h : concat a b = .ok m) :
    Phi p w m = Phi p w a + Phi p w b ∧ m.boundaries = [] := by
  obtain ⟨hm, hb⟩ := concat_spec a b m h
  subst hm
  simp [Phi, cntP_combine, hb]; omega

theorem mergeTwoCompounds_spec (orc : Oracle) (hl : orc.Laws) (tbl : Tables) (p : String → Bool) (w : RuleRef → Int)
    (hwm : ∀ i, w (.merge i) = 0) (hwe : ∀ i, w (.expand i) = (cntP p (tbl.expand.getD i default).g : Int))
    (c1 c2 m : Compound) (h : mergeTwoCompounds orc tbl c1 c2 = .ok m) :
    Phi p w m = Phi p w c1 + Phi p w c2 ∧ m.boundaries = [] := by
  unfold mergeTwoCompounds at h
  simp only [bind, Except.bind, pure, Except.pure] at h
  split at h
  · cases h
  · rename_i hlen1
    split at h
    · -- unequal numbers of boundaries: expand both, then concat
      split at h
      · split at h
        · cases h
        · rename_i r1 h1
          split at h
          · cases h
          · rename_i r2 h2
            obtain ⟨k1, m1⟩ := r1
            obtain ⟨k2, m2⟩ := r2
            obtain ⟨e1, -⟩ := mergeOne_spec orc hl tbl p w hwm hwe _ _ _ _ _ h1
            obtain ⟨e2, -⟩ := mergeOne_spec orc hl tbl p w hwm hwe _ _ _ _ _ h2
            obtain ⟨e3, e4⟩ := Phi_concat p w m1 m2 m h
            exact ⟨by rw [e3, e1, e2], e4⟩
      · cases h
    · rename_i hlen2
      split at h
      · cases h
      · rename_i om hm
        split at h
        · cases h
        · rename_i m'
          cases h
          obtain ⟨hmf, -⟩ := mergeBoundaries_spec orc hl tbl c1 c2 m hm
          refine ⟨Phi_mergedFrom p w hwm hmf, ?_⟩
          have l1 : c1.boundaries.length = 1 := by simpa using hlen1
          have l2 : c2.boundaries.length = 1 := by
            have : c1.boundaries.length = c2.boundaries.length := by simpa using hlen2
            omega
          obtain ⟨g, ri, -, hm' | hm'⟩ := hmf <;> subst hm' <;> simp
          · cases hb : c1.boundaries with
            | nil => simp [hb] at l1
            | cons x xs => simp [hb] at l1 ⊢; exact l1
          · cases hb : c2.boundaries with
            | nil => simp [hb] at l2
            | cons x xs => simp [hb] at l2 ⊢; exact l2

/-- effect of one compound action on `Compound.active` -/
def CAction.activeAfter (a : CAction) (a0 : Bool) : Bool :=
  match a with
  | .setActive v => v
  | _ => a0

/-- net effect of a compound rule's actions on `Compound.active` -/
def netActive (as : List CAction) (a0 : Bool) : Bool := as.foldl (fun x a => a.activeAfter x) a0

/-- element-wise relation of two lists of equal length (core has no `Forall₂`) -/
inductive Forall2 {α β : Type} (R : α → β → Prop) : List α → List β → Prop
  | nil : Forall2 R [] []
  | cons {a b as bs} : R a b → Forall2 R as bs → Forall2 R (a :: as) (b :: bs)

/-- `c'` is `c` after `update_compound`: same molecule; either untouched or one compound rule recorded -/
def Upd (rules : List CompoundRule) (c c' : Compound) : Prop :=
  c'.g = c.g ∧ c'.cid = c.cid ∧
    ((c'.rules = c.rules ∧ c'.active = c.active) ∨
      ∃ (i : Nat) (r : CompoundRule), rules[i]? = some r ∧ c'.rules = c.rules ++ [RuleRef.compound i] ∧
        c'.active = netActive r.actions c.active)

theorem CAction.apply_spec (orc : Oracle) (a : CAction) (c c' : Compound) (h : a.apply orc c = .ok c') :
    c'.g = c.g ∧ c'.cid = c.cid ∧ c'.rules = c.rules ∧ c'.active = a.activeAfter c.active := by
  cases a with
  | setActive v => simp only [CAction.apply] at h; cases h; simp [CAction.activeAfter]
  | addBoundary fg pat idx =>
    simp only [CAction.apply] at h
    split at h
    · cases h
    · split at h
      · cases h
      · cases h; simp [CAction.activeAfter]

theorem cactions_spec (orc : Oracle) (as : List CAction) (c c' : Compound)
    (h : as.foldlM (fun c a => a.apply orc c) c = .ok c') :
    c'.g = c.g ∧ c'.cid = c.cid ∧ c'.rules = c.rules ∧ c'.active = netActive as c.active := by
  induction as generalizing c with
  | nil => simp [pure, Except.pure] at h; subst h; simp [netActive]
  | cons a as ih =>
    simp only [List.foldlM_cons, bind, Except.bind] at h
    split at h
    · cases h
    · rename_i c1 h1
      obtain ⟨e1, e2, e3, e4⟩ := CAction.apply_spec orc a c c1 h1
      obtain ⟨f1, f2, f3, f4⟩ := ih _ h
      refine ⟨by rw [f1, e1], by rw [f2, e2], by rw [f3, e3], ?_⟩
      rw [f4, e4]; simp [netActive]

theorem updateCompound_spec (orc : Oracle) (rules : List CompoundRule) (cs : List Compound) (c c' : Compound)
    (h : updateCompound orc rules cs c = .ok c') : Upd rules c c' := by
  unfold updateCompound at h
  split at h
  · cases h; exact ⟨rfl, rfl, Or.inl ⟨rfl, rfl⟩⟩
  · rename_i r i hf
    simp only [bind, Except.bind, pure, Except.pure] at h
    split at h
    · cases h
    · rename_i c1 h1
      cases h
      obtain ⟨e1, e2, e3, e4⟩ := cactions_spec orc _ _ _ h1
      have hmem := List.mem_of_find?_eq_some hf
      have hi : rules[i]? = some r := by simpa using List.mem_zipIdx_iff_getElem?.1 hmem
      exact ⟨e1, e2, Or.inr ⟨i, r, hi, by simp [e3], e4⟩⟩

theorem updateAll_spec (orc : Oracle) (rules : List CompoundRule) :
    ∀ (todo done out : List Compound), updateAll orc rules done todo = .ok out →
      ∃ todo', out = done ++ todo' ∧ Forall2 (Upd rules) todo todo' := by
  intro todo
  induction todo with
  | nil => intro done out h; simp [updateAll] at h; exact ⟨[], by simp [h], Forall2.nil⟩
  | cons c todo ih =>
    intro done out h
    simp only [updateAll, bind, Except.bind] at h
    split at h
    · cases h
    · rename_i c' hc
      obtain ⟨todo', ho, hf⟩ := ih _ _ h
      exact ⟨c' :: todo', by simp [ho], Forall2.cons (updateCompound_spec orc rules _ c c' hc) hf⟩

theorem concatAll_spec (p : String → Bool) (w : RuleRef → Int) :
    ∀ (rest : List Compound) (m r : Compound), concatAll m rest = .ok r →
      Phi p w r = Phi p w m + (rest.map (Phi p w)).sum ∧ (m.boundaries = [] → r.boundaries = []) := by
  intro rest
  induction rest with
  | nil => intro m r h; simp [concatAll] at h; subst h; simp
  | cons c rest ih =>
    intro m r h
    simp only [concatAll, bind, Except.bind] at h
    split at h
    · cases h
    · rename_i m1 h1
      obtain ⟨e1, e2⟩ := Phi_concat p w m c m1 h1
      obtain ⟨f1, f2⟩ := ih _ _ h
      exact ⟨by rw [f1, e1]; simp; omega, fun _ => f2 e2⟩

theorem sum_filter_split {α} (f : α → Int) (q : α → Bool) (l : List α) :
    ((l.filter q).map f).sum + ((l.filter fun x => !q x).map f).sum = (l.map f).sum := by
  induction l with
  | nil => rfl
  | cons x xs ih =>
    cases hq : q x <;> simp [hq] <;> omega

theorem W_flatMap (w : RuleRef → Int) (l : List Compound) :
    W w (l.flatMap (·.rules)) = (l.map fun c => W w c.rules).sum := by
  induction l with
  | nil => rfl
  | cons x xs ih => simp [List.flatMap_cons, ih]

theorem sum_dropLast_getLast {α} (f : α → Int) (l : List α) (x : α) (h : l.getLast? = some x) :
    (l.map f).sum = f x + (l.dropLast.map f).sum := by
  obtain ⟨ys, rfl⟩ := List.getLast?_eq_some_iff.1 h
  simp [List.sum_append]; omega

theorem mergeDispatch_spec (orc : Oracle) (hl : orc.Laws) (tbl : Tables) (p : String → Bool) (w : RuleRef → Int)
    (hwm : ∀ i, w (.merge i) = 0) (hwe : ∀ i, w (.expand i) = (cntP p (tbl.expand.getD i default).g : Int))
    (withB without rest : List Compound) (m : Compound) (hwo : ∀ c ∈ without, c.boundaries = [])
    (h : mergeDispatch orc tbl withB without = .ok (m, rest)) :
    Phi p w m + (rest.map (Phi p w)).sum = (withB.map (Phi p w)).sum + (without.map (Phi p w)).sum ∧
      m.boundaries = [] := by
  unfold mergeDispatch at h
  split at h
  · split at h
    · cases h
    · rename_i l hl'
      cases h
      refine ⟨?_, hwo _ (List.mem_of_getLast? hl')⟩
      rw [sum_dropLast_getLast (Phi p w) _ _ hl']; simp
  · rename_i c
    split at h
    · cases h
    · rename_i km hk
      cases h
      obtain ⟨f1, f2⟩ := mergeOne_spec orc hl tbl p w hwm hwe _ _ _ km.1 km.2 hk
      exact ⟨by rw [f1]; simp, f2⟩
  · rename_i c1 c2
    split at h
    · cases h
    · rename_i m2 hk
      cases h
      obtain ⟨f1, f2⟩ := mergeTwoCompounds_spec orc hl tbl p w hwm hwe _ _ _ hk
      exact ⟨by rw [f1]; simp, f2⟩
  · cases h

/-- **accounting identity of `merge`** for any atom predicate `p` and rule weight `w` that gives merge rules weight 0
and every expand rule the `p`-atoms of its compound: what the result holds beyond its reported rules is what the active
compounds held beyond theirs, minus the rules taken over from the inactive compounds -/
theorem merge_spec (orc : Oracle) (hl : orc.Laws) (tbl : Tables) (p : String → Bool) (w : RuleRef → Int)
    (hwm : ∀ i, w (.merge i) = 0) (hwe : ∀ i, w (.expand i) = (cntP p (tbl.expand.getD i default).g : Int))
    (cs : List Compound) (r : Compound) (h : merge orc tbl cs = .ok r) :
    ∃ cs', updateAll orc tbl.compound [] cs = .ok cs' ∧ Forall2 (Upd tbl.compound) cs cs' ∧
      Phi p w r = ((cs'.filter (·.active)).map (Phi p w)).sum
                    - ((cs'.filter fun c => !c.active).map fun c => W w c.rules).sum ∧
      r.boundaries = [] := by
  unfold merge at h
  split at h
  · cases h
  · rename_i cs' hu
    obtain ⟨cs'', hcs, hf⟩ := updateAll_spec orc tbl.compound cs [] cs' hu
    simp only [List.nil_append] at hcs
    subst hcs
    refine ⟨_, hu, hf, ?_⟩
    have hsplit := sum_filter_split (Phi p w) (fun c => !c.boundaries.isEmpty) (cs'.filter (·.active))
    simp only [Bool.not_not] at hsplit
    simp only at h
    split at h
    · cases h
    · rename_i m rest hd
      obtain ⟨e1, e2⟩ := concatAll_spec p w rest _ r h
      obtain ⟨k1, k2⟩ := mergeDispatch_spec orc hl tbl p w hwm hwe _ _ _ _
        (fun c hc => by simpa using (List.mem_filter.1 hc).2) hd
      refine ⟨?_, e2 k2⟩
      rw [e1, ← hsplit, ← k1]
      simp [Phi, W_flatMap]
      omega

/-! ### from the accounting identity to the statements of the property -/

theorem Forall2.exists_left {α β : Type} {R : α → β → Prop} {l : List α} {l' : List β} (h : Forall2 R l l') :
    ∀ b ∈ l', ∃ a ∈ l, R a b := by
  induction h with
  | nil => intro b hb; cases hb
  | cons hr _ ih =>
    intro b hb
    rcases List.mem_cons.1 hb with rfl | hb
    · exact ⟨_, List.mem_cons_self .., hr⟩
    · obtain ⟨a, ha, hab⟩ := ih b hb
      exact ⟨a, List.mem_cons_of_mem _ ha, hab⟩

theorem Forall2.map_eq {α β γ : Type} {R : α → β → Prop} (f : α → γ) (g : β → γ) (hfg : ∀ a b, R a b → f a = g b)
    {l : List α} {l' : List β} (h : Forall2 R l l') : l.map f = l'.map g := by
  induction h with
  | nil => rfl
  | cons hr _ ih => simp [hfg _ _ hr, ih]

/-- atoms (with property `p`) brought in by a reported rule: the compound of an expand rule, nothing otherwise -/
def explOf (p : String → Bool) (tbl : Tables) : RuleRef → Nat
  | .expand i => cntP p (tbl.expand.getD i default).g
  | _ => 0

/-- atoms brought in by all reported expand rules -/
def expl (p : String → Bool) (tbl : Tables) (rs : List RuleRef) : Nat := (rs.map (explOf p tbl)).sum

theorem W_cast (p : String → Bool) (tbl : Tables) (rs : List RuleRef) :
    W (fun r => (explOf p tbl r : Int)) rs = (expl p tbl rs : Int) := by
  induction rs with
  | nil => rfl
  | cons r rs ih =>
    have : W (fun r => (explOf p tbl r : Int)) (r :: rs) = (explOf p tbl r : Int) + W (fun r => (explOf p tbl r : Int)) rs := by
      simp [W]
    rw [this, ih]; simp [expl]

theorem sum_cast {α} (f : α → Nat) (l : List α) : (((l.map f).sum : Nat) : Int) = (l.map fun x => (f x : Int)).sum := by
  induction l with
  | nil => rfl
  | cons x xs ih => simp [ih]

/-- does this reported rule deactivate its compound (net effect of its actions on an active compound)? -/
def removalRef (tbl : Tables) : RuleRef → Bool
  | .compound i => !netActive (tbl.compound.getD i default).actions true
  | _ => false

theorem W_indicator (q : RuleRef → Bool) (rs : List RuleRef) :
    W (fun r => if q r then 1 else 0) rs = (rs.countP q : Int) := by
  induction rs with
  | nil => rfl
  | cons r rs ih =>
    have : W (fun r => if q r then (1 : Int) else 0) (r :: rs) = (if q r then 1 else 0) + W (fun r => if q r then 1 else 0) rs := by
      simp [W]
    rw [this, ih, List.countP_cons]
    cases q r <;> simp <;> omega

theorem sum_indicator {α} (q : α → Bool) (l : List α) :
    (l.map fun x => if q x then (1 : Int) else 0).sum = ((l.filter q).length : Int) := by
  induction l with
  | nil => rfl
  | cons x xs ih => cases hq : q x <;> simp [hq, ih] <;> omega

theorem expl_stepRules (p : String → Bool) (tbl : Tables) (steps : List (Nat × Nat)) :
    expl p tbl (stepRules steps) = (steps.map fun s => cntP p (tbl.expand.getD s.1 default).g).sum := by
  induction steps with
  | nil => rfl
  | cons s ss ih =>
    have : stepRules (s :: ss) = [RuleRef.expand s.1, RuleRef.merge s.2] ++ stepRules ss := by simp [stepRules]
    rw [this]
    simp only [expl, List.map_append, List.sum_append] at ih ⊢
    rw [ih]
    simp [explOf]

theorem expl_append (p : String → Bool) (tbl : Tables) (a b : List RuleRef) :
    expl p tbl (a ++ b) = expl p tbl a + expl p tbl b := by simp [expl, List.sum_append]

theorem sum_map_zero {α} (l : List α) : (l.map fun _ => (0 : Int)).sum = 0 := by
  induction l with
  | nil => rfl
  | cons x xs ih => simp [ih]

theorem sum_map_one {α} (l : List α) : (l.map fun _ => (1 : Int)).sum = (l.length : Int) := by
  induction l with
  | nil => rfl
  | cons x xs ih => simp [ih]; omega

deriving instance DecidableEq for Except

end SynRBL.Mol
