import SynRBLModel.Proofs.FGMatch
/-!
# Partial soundness of the functional-group matcher

`fits` explores the pattern and the molecule as *trees of self-avoiding walks* (`unfold`). When the walks of the pattern
from the chosen pattern atom end in pairwise distinct atoms and use every bond (`treeOK`: the pattern is a tree) and the
walks of the molecule from the anchor with fewer steps than the pattern has atoms end in pairwise distinct atoms (no
cycle within reach), a positive answer comes with a real occurrence (`fits_sound`). Both hypotheses are necessary:
`C16_witness_overlap` violates the second, `C16_witness_ring` the first.
-/
namespace SynRBL.FG

/-- neighbour lists and bond types are symmetric (an undirected graph) -/
structure GSym (g : LG) : Prop where
  nbrs : ∀ x y, y ∈ g.nbrs x → x ∈ g.nbrs y
  bond : ∀ x y, g.bond x y = g.bond y x

theorem treeOK_pos (p : LG) (k c : Nat) (vp : List Nat) (h : treeOK p k c vp = true) : ∃ k', k = k' + 1 := by
  cases k with
  | zero => simp [treeOK] at h
  | succ k' => exact ⟨k', rfl⟩

theorem mem_unfold_root (g : LG) (k a : Nat) (va : List Nat) : a ∈ unfold g (k + 1) a va := by
  simp [unfold]

/-- what is reached from `b` while avoiding `va` is outside `va` -/
theorem unfold_avoids (g : LG) : ∀ k b va x, b ∉ va → x ∈ unfold g k b va → x ∉ va := by
  intro k
  induction k with
  | zero => intro b va x _ hx; simp [unfold] at hx
  | succ k ih =>
    intro b va x hb hx
    simp only [unfold, List.mem_cons, List.mem_flatMap, List.mem_filter] at hx
    rcases hx with hx | ⟨c, ⟨_, hc⟩, hxc⟩
    · subst hx; exact hb
    · have hc' : c ∉ va ++ [b] := by simpa using hc
      have := ih c (va ++ [b]) x hc' hxc
      intro hxv; exact this (by simp [hxv])

theorem mem_unfold_child (g : LG) (k a c : Nat) (va : List Nat) (z : Nat) (h1 : c ∈ g.nbrs a)
    (h2 : c ∉ va ++ [a]) (h3 : z ∈ unfold g k c (va ++ [a])) : z ∈ unfold g (k + 1) a va := by
  show z ∈ a :: ((g.nbrs a).filter (fun x => !(va ++ [a]).contains x)).flatMap (fun b => unfold g k b (va ++ [a]))
  refine List.mem_cons_of_mem _ (List.mem_flatMap.2 ⟨c, ?_, h3⟩)
  simp only [List.mem_filter]
  exact ⟨h1, by simpa using h2⟩

/-- in a tree exploration, a bond of a reached atom leads to a reached atom or back to where the root came from -/
theorem treeOK_edge (p : LG) : ∀ k c vp, treeOK p k c vp = true → ∀ x ∈ unfold p k c vp, ∀ y ∈ p.nbrs x,
    y ∈ unfold p k c vp ∨ (x = c ∧ vp.getLast? = some y) := by
  intro k
  induction k with
  | zero => intro c vp h; simp [treeOK] at h
  | succ k ih =>
    intro c vp h x hx y hy
    simp only [treeOK, Bool.and_eq_true, List.all_eq_true, Bool.or_eq_true, beq_iff_eq, List.mem_filter] at h
    simp only [unfold, List.mem_cons, List.mem_flatMap, List.mem_filter] at hx
    rcases hx with hx | ⟨d, ⟨hd1, hd2⟩, hxd⟩
    · subst hx
      rcases h.1 y hy with hl | hu
      · exact Or.inr ⟨rfl, hl⟩
      · left
        obtain ⟨k', hk'⟩ := treeOK_pos p k y _ (h.2 y ⟨hy, hu⟩)
        subst hk'
        exact mem_unfold_child p _ x y vp y hy (by simpa using hu) (mem_unfold_root p k' y _)
    · have hd2' : d ∉ vp ++ [c] := by simpa using hd2
      rcases ih d (vp ++ [c]) (h.2 d ⟨hd1, hd2⟩) x hxd y hy with hin | ⟨_, hlast⟩
      · exact Or.inl (mem_unfold_child p k c d vp y hd1 hd2' hin)
      · left
        rw [List.getLast?_concat] at hlast
        cases hlast
        exact mem_unfold_root p k _ vp

theorem nodup_flatMap_eq {α β} [DecidableEq α] (F : α → List β) : ∀ l : List α, (l.flatMap F).Nodup →
    ∀ c ∈ l, ∀ c' ∈ l, ∀ z, z ∈ F c → z ∈ F c' → c = c' := by
  intro l
  induction l with
  | nil => intro _ c hc; simp at hc
  | cons x xs ih =>
    intro hnd c hc c' hc' z hz hz'
    rw [List.flatMap_cons, List.nodup_append] at hnd
    rcases List.mem_cons.1 hc with h1 | h1
    · rcases List.mem_cons.1 hc' with h2 | h2
      · rw [h1, h2]
      · subst h1
        exact absurd rfl (hnd.2.2 z hz z (List.mem_flatMap.2 ⟨c', h2, hz'⟩))
    · rcases List.mem_cons.1 hc' with h2 | h2
      · subst h2
        exact absurd rfl (hnd.2.2 z hz' z (List.mem_flatMap.2 ⟨c, h1, hz⟩))
      · exact ih hnd.2.1 c h1 c' h2 z hz hz'

/-- what a successful call hands back: an occurrence of the explored part of the pattern inside the explored part of
the molecule -/
structure Good (g p : LG) (k b c : Nat) (va vp : List Nat) (h : Nat → Nat) : Prop where
  root : h c = b
  lab : ∀ x ∈ unfold p k c vp, g.sym (h x) = p.sym x ∧ h x ∈ unfold g k b va
  inj : ∀ x ∈ unfold p k c vp, ∀ y ∈ unfold p k c vp, h x = h y → x = y
  adj : ∀ x ∈ unfold p k c vp, ∀ y ∈ p.nbrs x, y ∈ unfold p k c vp →
    h y ∈ g.nbrs (h x) ∧ g.bond (h x) (h y) = p.bond x y

/-- the children of one call: an assignment found by `existsAssign` glues the occurrences of the subtrees together -/
theorem assign_sound (g p : LG) (k a pa : Nat) (va' vp' : List Nat)
    (IH : ∀ b c, c ∉ vp' → fits g p k b c va' vp' = true → treeOK p k c vp' = true → (unfold p k c vp').Nodup →
      (unfold g k b va').Nodup → ∃ h, Good g p k b c va' vp' h) :
    ∀ (pn an : List Nat), (∀ c ∈ pn, c ∉ vp') →
      existsAssign (fun q b => p.sym q == g.sym b && g.bond a b == p.bond pa q && fits g p k b q va' vp') pn an = true →
      (∀ c ∈ pn, treeOK p k c vp' = true) → (pn.flatMap (fun c => unfold p k c vp')).Nodup →
      (an.flatMap (fun b => unfold g k b va')).Nodup →
      ∃ h : Nat → Nat,
        (∀ c ∈ pn, h c ∈ an ∧ g.bond a (h c) = p.bond pa c) ∧
        (∀ c ∈ pn, ∀ x ∈ unfold p k c vp', g.sym (h x) = p.sym x ∧ h x ∈ an.flatMap (fun b => unfold g k b va')) ∧
        (∀ x ∈ pn.flatMap (fun c => unfold p k c vp'), ∀ y ∈ pn.flatMap (fun c => unfold p k c vp'),
          h x = h y → x = y) ∧
        (∀ c ∈ pn, ∀ x ∈ unfold p k c vp', ∀ y ∈ p.nbrs x, y ∈ unfold p k c vp' →
          h y ∈ g.nbrs (h x) ∧ g.bond (h x) (h y) = p.bond x y) := by
  intro pn
  induction pn with
  | nil =>
    intro an _ _ _ _ _
    exact ⟨id, by simp, by simp, by simp, by simp⟩
  | cons c cs ih =>
    intro an hV hEA hT hPn hAn
    rw [existsAssign_true_iff] at hEA
    obtain ⟨b, r, hbr, hQ, hrest⟩ := hEA
    simp only [Bool.and_eq_true, beq_iff_eq] at hQ
    obtain ⟨⟨_, hbond⟩, hfit⟩ := hQ
    have hperm := mem_picks_perm hbr
    have hAn' : (unfold g k b va' ++ r.flatMap (fun b => unfold g k b va')).Nodup := by
      have := (List.Perm.flatMap_right (fun b => unfold g k b va') hperm).nodup_iff.1 hAn
      simpa [List.flatMap_cons] using this
    rw [List.nodup_append] at hAn'
    rw [List.flatMap_cons, List.nodup_append] at hPn
    obtain ⟨h₁, hg₁⟩ := IH b c (hV c (by simp)) hfit (hT c (by simp)) hPn.1 hAn'.1
    obtain ⟨h₂, h2a, h2b, h2c, h2d⟩ := ih r (fun c' hc' => hV c' (by simp [hc'])) hrest (fun c' hc' => hT c' (by simp [hc'])) hPn.2.1 hAn'.2.1
    obtain ⟨k', hk'⟩ := treeOK_pos p k c vp' (hT c (by simp))
    have hmemAn : ∀ z, z ∈ unfold g k b va' ∨ z ∈ r.flatMap (fun b => unfold g k b va') →
        z ∈ an.flatMap (fun b => unfold g k b va') := by
      intro z hz
      have := (List.Perm.flatMap_right (fun b => unfold g k b va') hperm).mem_iff (a := z)
      rw [this, List.flatMap_cons, List.mem_append]
      exact hz
    -- an atom of a later subtree is not in the first one
    have hdisj : ∀ c' ∈ cs, ∀ x ∈ unfold p k c' vp', x ∉ unfold p k c vp' := by
      intro c' hc' x hx hx1
      exact hPn.2.2 x hx1 x (List.mem_flatMap.2 ⟨c', hc', hx⟩) rfl
    refine ⟨fun q => if q ∈ unfold p k c vp' then h₁ q else h₂ q, ?_, ?_, ?_, ?_⟩
    · intro c' hc'
      rcases List.mem_cons.1 hc' with hc' | hc'
      · subst hc'
        have hroot : c' ∈ unfold p k c' vp' := by subst hk'; exact mem_unfold_root p k' c' vp'
        simp only [hroot, if_true, hg₁.root]
        exact ⟨mem_picks_fst hbr, hbond⟩
      · obtain ⟨k2, hk2⟩ := treeOK_pos p k c' vp' (hT c' (by simp [hc']))
        have hroot : c' ∈ unfold p k c' vp' := by subst hk2; exact mem_unfold_root p k2 c' vp'
        have hn := hdisj c' hc' c' hroot
        simp only [hn, if_false]
        exact ⟨mem_picks_snd hbr (h2a c' hc').1, (h2a c' hc').2⟩
    · intro c' hc' x hx
      rcases List.mem_cons.1 hc' with hc' | hc'
      · subst hc'
        simp only [hx, if_true]
        exact ⟨(hg₁.lab x hx).1, hmemAn _ (Or.inl (hg₁.lab x hx).2)⟩
      · have hn := hdisj c' hc' x hx
        simp only [hn, if_false]
        exact ⟨(h2b c' hc' x hx).1, hmemAn _ (Or.inr (h2b c' hc' x hx).2)⟩
    · intro x hx y hy hxy
      rw [List.flatMap_cons, List.mem_append] at hx hy
      have himg1 : ∀ z ∈ unfold p k c vp', h₁ z ∈ unfold g k b va' := fun z hz => (hg₁.lab z hz).2
      have himg2 : ∀ z, z ∈ cs.flatMap (fun c => unfold p k c vp') →
          z ∉ unfold p k c vp' ∧ h₂ z ∈ r.flatMap (fun b => unfold g k b va') := by
        intro z hz
        obtain ⟨c', hc', hz'⟩ := List.mem_flatMap.1 hz
        exact ⟨hdisj c' hc' z hz', (h2b c' hc' z hz').2⟩
      by_cases hx1 : x ∈ unfold p k c vp' <;> by_cases hy1 : y ∈ unfold p k c vp'
      · simp only [hx1, hy1, if_true] at hxy
        exact hg₁.inj x hx1 y hy1 hxy
      · have hy2 := himg2 y (hy.resolve_left hy1)
        simp only [hx1, hy1, if_true, if_false] at hxy
        exact absurd hxy (hAn'.2.2 _ (himg1 x hx1) _ hy2.2)
      · have hx2 := himg2 x (hx.resolve_left hx1)
        simp only [hx1, hy1, if_true, if_false] at hxy
        exact absurd hxy.symm (hAn'.2.2 _ (himg1 y hy1) _ hx2.2)
      · simp only [hx1, hy1, if_false] at hxy
        exact h2c x (hx.resolve_left hx1) y (hy.resolve_left hy1) hxy
    · intro c' hc' x hx y hy hyin
      rcases List.mem_cons.1 hc' with hc' | hc'
      · subst hc'
        simp only [hx, hyin, if_true]
        exact hg₁.adj x hx y hy hyin
      · have hnx := hdisj c' hc' x hx
        have hny := hdisj c' hc' y hyin
        simp only [hnx, hny, if_false]
        exact h2d c' hc' x hx y hy hyin

/-- **partial soundness of `_fits`** -/
theorem fits_sound_aux (g p : LG) (hg : GSym g) (hpb : ∀ x y, p.bond x y = p.bond y x) :
    ∀ k a pa va vp, pa ∉ vp → fits g p k a pa va vp = true → treeOK p k pa vp = true →
      (unfold p k pa vp).Nodup → (unfold g k a va).Nodup → ∃ h, Good g p k a pa va vp h := by
  intro k
  induction k with
  | zero => intro a pa va vp _ h; simp [fits] at h
  | succ k ih =>
    intro a pa va vp hpa hfit hT hPn hAn
    simp only [fits, Bool.and_eq_true, beq_iff_eq] at hfit
    obtain ⟨hsym, hEA⟩ := hfit
    have hT' := hT
    simp only [treeOK, Bool.and_eq_true, List.all_eq_true, Bool.or_eq_true, beq_iff_eq] at hT'
    simp only [unfold, List.nodup_cons] at hPn hAn
    generalize hpn : (p.nbrs pa).filter (fun x => !(vp ++ [pa]).contains x) = pn at hEA hT' hPn
    generalize han : (g.nbrs a).filter (fun x => !(va ++ [a]).contains x) = an at hEA hAn
    have hpnv : ∀ c ∈ pn, c ∈ p.nbrs pa ∧ c ∉ vp ++ [pa] := by
      intro c hc; rw [← hpn] at hc; simp only [List.mem_filter] at hc
      exact ⟨hc.1, by simpa using hc.2⟩
    have hanv : ∀ b ∈ an, b ∈ g.nbrs a := by
      intro b hb; rw [← han] at hb; exact (List.mem_filter.1 hb).1
    obtain ⟨h, h1, h2, h3, h4⟩ := assign_sound g p k a pa (va ++ [a]) (vp ++ [pa])
      (fun b c hc hf ht hp hn => ih b c _ _ hc hf ht hp hn)
      pn an (fun c hc => (hpnv c hc).2) hEA hT'.2 hPn.2 hAn.2
    have hPFne : ∀ x ∈ pn.flatMap (fun c => unfold p k c (vp ++ [pa])), x ≠ pa := by
      intro x hx hxe; subst hxe; exact hPn.1 hx
    refine ⟨fun q => if q = pa then a else h q, ?_, ?_, ?_, ?_⟩
    · simp
    · intro x hx
      simp only [unfold, hpn, han, List.mem_cons] at hx ⊢
      rcases hx with hx | hx
      · subst hx; simp [hsym]
      · have hne := hPFne x hx
        obtain ⟨c, hc, hxc⟩ := List.mem_flatMap.1 hx
        simp only [hne, if_false]
        exact ⟨(h2 c hc x hxc).1, Or.inr (h2 c hc x hxc).2⟩
    · intro x hx y hy hxy
      simp only [unfold, hpn, List.mem_cons] at hx hy
      have himg : ∀ z ∈ pn.flatMap (fun c => unfold p k c (vp ++ [pa])), h z ≠ a := by
        intro z hz hza
        obtain ⟨c, hc, hzc⟩ := List.mem_flatMap.1 hz
        have := (h2 c hc z hzc).2
        rw [hza] at this
        exact hAn.1 this
      rcases hx with hx | hx <;> rcases hy with hy | hy
      · rw [hx, hy]
      · subst hx
        have hne := hPFne y hy
        simp only [hne, if_true, if_false] at hxy
        exact absurd hxy.symm (himg y hy)
      · subst hy
        have hne := hPFne x hx
        simp only [hne, if_true, if_false] at hxy
        exact absurd hxy (himg x hx)
      · have hnx := hPFne x hx
        have hny := hPFne y hy
        simp only [hnx, hny, if_false] at hxy
        exact h3 x hx y hy hxy
    · intro x hx y hy hyin
      simp only [unfold, hpn, List.mem_cons] at hx hyin
      rcases hx with hx | hx
      · subst hx
        rcases hyin with hyin | hyin
        · -- a self-loop at the root is excluded by `treeOK`
          subst hyin
          rcases hT'.1 y hy with hl | hu
          · exact absurd (List.mem_of_getLast? hl) hpa
          · simp at hu
        · have hne := hPFne y hyin
          obtain ⟨c, hc, hyc⟩ := List.mem_flatMap.1 hyin
          have hyv : y ∉ vp ++ [x] := unfold_avoids p k c _ y (hpnv c hc).2 hyc
          have hypn : y ∈ pn := by
            rw [← hpn]; simp only [List.mem_filter]; exact ⟨hy, by simpa using hyv⟩
          obtain ⟨k', hk'⟩ := treeOK_pos p k y _ (hT'.2 y hypn)
          have hroot : y ∈ unfold p k y (vp ++ [x]) := by subst hk'; exact mem_unfold_root p k' y _
          have hcy : c = y := nodup_flatMap_eq _ pn hPn.2 c hc y hypn y hyc hroot
          subst hcy
          simp only [hne, if_true, if_false]
          exact ⟨hanv _ (h1 c hc).1, (h1 c hc).2⟩
      · have hnx := hPFne x hx
        obtain ⟨c, hc, hxc⟩ := List.mem_flatMap.1 hx
        rcases treeOK_edge p k c _ (hT'.2 c hc) x hxc y hy with hin | ⟨hxe, hlast⟩
        · have hyPF : y ∈ pn.flatMap (fun c => unfold p k c (vp ++ [pa])) := List.mem_flatMap.2 ⟨c, hc, hin⟩
          have hny := hPFne y hyPF
          simp only [hnx, hny, if_false]
          exact h4 c hc x hxc y hy hin
        · rw [List.getLast?_concat] at hlast
          cases hlast
          subst hxe
          simp only [hnx, if_true, if_false]
          have hb := h1 x hc
          exact ⟨hg.nbrs _ _ (hanv _ hb.1), by rw [hg.bond, hb.2, hpb]⟩

/-! ### the statement on exported graphs -/

theorem bondType_comm (d : GData) (i j : Nat) : d.bondType i j = d.bondType j i := by
  unfold GData.bondType
  have : (fun t : Nat × Nat × Nat => (t.1 == i && t.2.1 == j) || (t.1 == j && t.2.1 == i))
      = (fun t => (t.1 == j && t.2.1 == i) || (t.1 == i && t.2.1 == j)) := by
    funext t; exact Bool.or_comm _ _
  rw [this]

theorem gsym_of_wf (d : GData) (h : d.wf = true) : GSym d.toLG := by
  unfold GData.wf at h
  simp only [Bool.and_eq_true, List.all_eq_true, List.mem_range, beq_iff_eq, decide_eq_true_eq] at h
  constructor
  · intro x y hy
    by_cases hx : x < d.n
    · have := ((h.2 x hx).1 y hy).2
      simpa [GData.toLG] using this
    · have hlen : d.nbrs.length ≤ x := by rw [h.1.1]; omega
      simp [GData.toLG, List.getD, List.getElem?_eq_none hlen] at hy
  · intro x y; exact bondType_comm d x y

theorem unfold_range (g : LG) (n : Nat) (hr : ∀ x, ∀ y ∈ g.nbrs x, y < n) :
    ∀ k a va, a < n → ∀ z ∈ unfold g k a va, z < n := by
  intro k
  induction k with
  | zero => intro a va _ z hz; simp [unfold] at hz
  | succ k ih =>
    intro a va ha z hz
    simp only [unfold, List.mem_cons, List.mem_flatMap, List.mem_filter] at hz
    rcases hz with hz | ⟨c, ⟨hc, _⟩, hzc⟩
    · subst hz; exact ha
    · exact ih c _ (hr a c hc) z hzc

theorem nbrs_range_of_wf (d : GData) (h : d.wf = true) : ∀ x, ∀ y ∈ d.toLG.nbrs x, y < d.n := by
  intro x y hy
  unfold GData.wf at h
  simp only [Bool.and_eq_true, List.all_eq_true, List.mem_range, beq_iff_eq, decide_eq_true_eq] at h
  by_cases hx : x < d.n
  · exact ((((h.2 x hx).1 y hy).1).1).1
  · have hlen : d.nbrs.length ≤ x := by rw [h.1.1]; omega
    simp [GData.toLG, List.getD, List.getElem?_eq_none hlen] at hy

/-- **partial soundness of `pattern_match`**: tree pattern, no cycle of the molecule within reach of the anchor -/
theorem patternMatch_sound (g p : GData) (hg : g.wf = true) (hp : isTreePattern p = true) (a : Nat) (ha : a < g.n)
    (hcyc : acyclicAround g p.n a = true) (h : patternMatch g.toLG p a = true) : ∃ f, Occurrence g p f a := by
  unfold patternMatch at h
  rw [List.any_eq_true] at h
  obtain ⟨pa, hpa, hfit⟩ := h
  have hpa' := List.mem_range.1 hpa
  unfold isTreePattern at hp
  simp only [Bool.and_eq_true, List.all_eq_true] at hp
  have hpt := hp.2 pa hpa
  unfold patTreeFrom at hpt
  simp only [Bool.and_eq_true, List.all_eq_true, List.mem_range, List.contains_eq_mem, decide_eq_true_eq] at hpt
  obtain ⟨f, hgood⟩ := fits_sound_aux g.toLG p.toLG (gsym_of_wf g hg) (bondType_comm p) p.n a pa [] [] (by simp) hfit
    hpt.1.1 (nodupB_nodup _ hpt.1.2) (nodupB_nodup _ hcyc)
  have hcov := hpt.2
  refine ⟨f, ⟨?_, ?_, ?_⟩, ?_, ⟨pa, hpa', hgood.root⟩⟩
  · intro x y hx hy hxy; exact hgood.inj x (hcov x hx) y (hcov y hy) hxy
  · intro x hx; exact (hgood.lab x (hcov x hx)).1
  · intro x hx y hy
    have hyn := nbrs_range_of_wf p hp.1 x y hy
    exact hgood.adj x (hcov x hx) y hy (hcov y hyn)
  · intro x hx
    exact unfold_range g.toLG g.n (nbrs_range_of_wf g hg) p.n a [] ha _ (hgood.lab x (hcov x hx)).2

end SynRBL.FG
