import SynRBLModel.Proofs.Compare
import SynRBLModel.Proofs.Pipeline4
import SynRBLModel.Properties.C04
/-!
# Key order of a composition dictionary — the only way atom order reaches the rule-based path — does not matter
-/
namespace SynRBL
open Dict Str

/-- two dictionaries with the same keys and the same values (possibly in another key order) -/
def DictEquiv (a b : Dict) : Prop := ∀ k, a.contains k = b.contains k ∧ a.val k = b.val k

theorem DictEquiv.symm {a b : Dict} (h : DictEquiv a b) : DictEquiv b a :=
  fun k => ⟨(h k).1.symm, (h k).2.symm⟩

theorem checkKeys_equiv {a a' b b' : Dict} (ha : DictEquiv a a') (hb : DictEquiv b b') :
    checkKeys a b = checkKeys a' b' := by
  rw [Bool.eq_iff_iff, checkKeys_iff, checkKeys_iff]
  constructor
  · intro h k hk; rw [← (ha k).1]; exact h k (by rw [(hb k).1]; exact hk)
  · intro h k hk; rw [(ha k).1]; exact h k (by rw [← (hb k).1]; exact hk)

theorem all_keys_equiv {a a' : Dict} (ha : DictEquiv a a') (P P' : Key → Bool) (hP : ∀ k, P k = P' k) :
    a.keys.all P = a'.keys.all P' := by
  rw [Bool.eq_iff_iff, all_keys_iff, all_keys_iff]
  constructor
  · intro h k hk; rw [← hP k]; exact h k (by rw [(ha k).1]; exact hk)
  · intro h k hk; rw [hP k]; exact h k (by rw [← (ha k).1]; exact hk)

/-- the comparator's verdict does not depend on the key order of the two compositions -/
theorem compareDicts_equiv {r r' p p' : Dict} (hr : DictEquiv r r') (hp : DictEquiv p p') :
    compareDicts r p = compareDicts r' p' := by
  unfold compareDicts keysEq
  rw [checkKeys_equiv hr hp, checkKeys_equiv hp hr]
  rw [all_keys_equiv hp (fun k => decide (r.val k ≥ p.val k)) (fun k => decide (r'.val k ≥ p'.val k))
      (fun k => by rw [(hr k).2, (hp k).2]),
    all_keys_equiv hr (fun k => decide (r.val k ≤ p.val k)) (fun k => decide (r'.val k ≤ p'.val k))
      (fun k => by rw [(hr k).2, (hp k).2]),
    all_keys_equiv hr (fun k => decide (r.val k = p.val k)) (fun k => decide (r'.val k = p'.val k))
      (fun k => by rw [(hr k).2, (hp k).2]),
    all_keys_equiv hr (fun k => decide (r.val k ≥ p.val k)) (fun k => decide (r'.val k ≥ p'.val k))
      (fun k => by rw [(hr k).2, (hp k).2])]

/-- two spellings of a reaction: side-wise equivalent compositions and equal carbon counts -/
structure SameReaction (O : Oracle) (s s' : Str) : Prop where
  sides : ∃ a b a' b', sidesOf s = some (a, b) ∧ sidesOf s' = some (a', b') ∧
    DictEquiv (O.comp a) (O.comp a') ∧ DictEquiv (O.comp b) (O.comp b')
  label : labelOf O s = labelOf O s'

theorem verdictOf_same (O : Oracle) (s s' : Str) (h : SameReaction O s s') : verdictOf O s = verdictOf O s' := by
  obtain ⟨a, b, a', b', h1, h2, ha, hb⟩ := h.sides
  unfold verdictOf
  rw [h1, h2]
  exact compareDicts_equiv ha hb

/-- **the input-balanced verdict ignores how the reaction is written** -/
theorem input_balanced_spelling_independent (O : Oracle) (cfg : Config) (s s' : Str) (h : SameReaction O s s') :
    ((runRow O cfg s).solvedBy = some .input ↔ (runRow O cfg s').solvedBy = some .input) := by
  rw [C04_iff, C04_iff, verdictOf_same O s s' h, h.label]

end SynRBL
