import SynRBLModel.Model.McsSelect
import SynRBLModel.Proofs.Normalize
/-!
# Helper lemmas for C10 (selection among search conditions, re-attachment by id, alignment of `mcs_list`)
-/
namespace SynRBL.Mcs

/-! ## the two passes of `get_largest_condition` -/

/-- membership in "the positions of `t :: ts` (offset `c`) whose value is `M`" -/
theorem pos_cons (t : Nat) (ts : List Nat) (c M x : Nat) :
    (∃ j, ∃ h : j < (t :: ts).length, x = c + j ∧ (t :: ts)[j] = M) ↔
      (x = c ∧ t = M) ∨ (∃ j, ∃ h : j < ts.length, x = c + 1 + j ∧ ts[j] = M) := by
  constructor
  · rintro ⟨j, hj, hx, he⟩
    cases j with
    | zero => left; exact ⟨by omega, by simpa using he⟩
    | succ j => right; exact ⟨j, by simpa using hj, by omega, by simpa using he⟩
  · rintro (⟨hx, he⟩ | ⟨j, hj, hx, he⟩)
    · exact ⟨0, by simp, by omega, by simpa using he⟩
    · exact ⟨j + 1, by simpa using hj, by omega, by simpa using he⟩

theorem pass1Go_spec (ts : List Nat) : ∀ (c m : Nat) (tied : List Nat),
    m ≤ (pass1Go c ts (m, tied)).1 ∧ (∀ t ∈ ts, t ≤ (pass1Go c ts (m, tied)).1) ∧
    (∀ x, x ∈ (pass1Go c ts (m, tied)).2 ↔
      (x ∈ tied ∧ (pass1Go c ts (m, tied)).1 = m) ∨
      (∃ j, ∃ h : j < ts.length, x = c + j ∧ ts[j] = (pass1Go c ts (m, tied)).1)) ∧
    (tied.Pairwise (· < ·) → (∀ x ∈ tied, x < c) → (pass1Go c ts (m, tied)).2.Pairwise (· < ·)) := by
  induction ts with
  | nil => intro c m tied; simp [pass1Go]; intro h _; exact h
  | cons t ts ih =>
    intro c m tied
    simp only [pass1Go]
    split
    · rename_i hgt
      obtain ⟨h1, h2, h3, h4⟩ := ih (c + 1) t [c]
      generalize pass1Go (c + 1) ts (t, [c]) = r at *
      refine ⟨by omega, ?_, ?_, ?_⟩
      · intro t' ht'
        rcases List.mem_cons.1 ht' with rfl | h
        · exact h1
        · exact h2 _ h
      · intro x
        rw [h3, pos_cons]
        simp only [List.mem_singleton]
        constructor
        · rintro (⟨hx, he⟩ | h)
          · right; left; exact ⟨hx, he.symm⟩
          · right; right; exact h
        · rintro (⟨_, he⟩ | ⟨hx, he⟩ | h)
          · omega
          · left; exact ⟨hx, he.symm⟩
          · right; exact h
      · intro _ _
        exact h4 (by simp) (by simp)
    · split
      · rename_i hng heq
        subst heq
        obtain ⟨h1, h2, h3, h4⟩ := ih (c + 1) t (tied ++ [c])
        generalize pass1Go (c + 1) ts (t, tied ++ [c]) = r at *
        refine ⟨h1, ?_, ?_, ?_⟩
        · intro t' ht'
          rcases List.mem_cons.1 ht' with rfl | h
          · exact h1
          · exact h2 _ h
        · intro x
          rw [h3, pos_cons]
          simp only [List.mem_append, List.mem_singleton]
          constructor
          · rintro (⟨hx | hx, he⟩ | h)
            · left; exact ⟨hx, he⟩
            · right; left; exact ⟨hx, he.symm⟩
            · right; right; exact h
          · rintro (⟨hx, he⟩ | ⟨hx, he⟩ | h)
            · left; exact ⟨Or.inl hx, he⟩
            · left; exact ⟨Or.inr hx, he.symm⟩
            · right; exact h
        · intro hp hlt
          apply h4
          · rw [List.pairwise_append]
            refine ⟨hp, by simp, ?_⟩
            intro a ha b hb
            simp at hb; subst hb; exact hlt a ha
          · intro x hx
            rcases List.mem_append.1 hx with hx | hx
            · have := hlt x hx; omega
            · simp at hx; omega
      · rename_i hng hne
        obtain ⟨h1, h2, h3, h4⟩ := ih (c + 1) m tied
        generalize pass1Go (c + 1) ts (m, tied) = r at *
        refine ⟨h1, ?_, ?_, ?_⟩
        · intro t' ht'
          rcases List.mem_cons.1 ht' with rfl | h
          · omega
          · exact h2 _ h
        · intro x
          rw [h3, pos_cons]
          constructor
          · rintro (h | h)
            · left; exact h
            · right; right; exact h
          · rintro (h | ⟨hx, he⟩ | h)
            · left; exact h
            · omega
            · right; exact h
        · intro hp hlt
          exact h4 hp (fun x hx => by have := hlt x hx; omega)


theorem pass2_spec (fs : Nat → Nat) (l : List Nat) : ∀ (m : Nat) (w : Option Nat),
    let r := l.foldl (fun (st : Nat × Option Nat) c => if fs c > st.1 then (fs c, some c) else st) (m, w)
    (r = (m, w) ∧ ∀ c ∈ l, fs c ≤ m) ∨
    (∃ l1 c l2, l = l1 ++ c :: l2 ∧ r = (fs c, some c) ∧ m < fs c ∧ (∀ c' ∈ l1, fs c' < fs c) ∧
      (∀ c' ∈ l2, fs c' ≤ fs c)) := by
  induction l with
  | nil => intro m w; simp
  | cons a l ih =>
    intro m w
    simp only [List.foldl_cons]
    split
    · rename_i hgt
      rcases ih (fs a) (some a) with ⟨h1, h2⟩ | ⟨l1, c, l2, h1, h2, h3, h4, h5⟩
      · right; exact ⟨[], a, l, rfl, h1, hgt, by simp, h2⟩
      · right
        refine ⟨a :: l1, c, l2, by simp [h1], h2, by omega, ?_, h5⟩
        intro c' hc'
        rcases List.mem_cons.1 hc' with rfl | h
        · exact h3
        · exact h4 _ h
    · rename_i hng
      rcases ih m w with ⟨h1, h2⟩ | ⟨l1, c, l2, h1, h2, h3, h4, h5⟩
      · left
        refine ⟨h1, ?_⟩
        intro c hc
        rcases List.mem_cons.1 hc with rfl | h
        · omega
        · exact h2 _ h
      · right
        refine ⟨a :: l1, c, l2, by simp [h1], h2, h3, ?_, h5⟩
        intro c' hc'
        rcases List.mem_cons.1 hc' with rfl | h
        · omega
        · exact h4 _ h

theorem pass2_none (fs : Nat → Nat) (l : List Nat) : (pass2 fs l).2 = none ↔ ∀ c ∈ l, fs c = 0 := by
  unfold pass2
  rcases pass2_spec fs l 0 none with ⟨h1, h2⟩ | ⟨l1, c, l2, h1, h2, h3, h4, h5⟩
  · rw [h1]
    simp only [true_iff]
    intro c hc; have := h2 c hc; omega
  · rw [h2]
    simp only [reduceCtorEq, false_iff]
    intro h
    have := h c (by simp [h1])
    omega

theorem pass2_some (fs : Nat → Nat) (l : List Nat) (c : Nat) (h : (pass2 fs l).2 = some c) :
    0 < fs c ∧ ∃ l1 l2, l = l1 ++ c :: l2 ∧ (∀ c' ∈ l1, fs c' < fs c) ∧ (∀ c' ∈ l2, fs c' ≤ fs c) := by
  unfold pass2 at h
  rcases pass2_spec fs l 0 none with ⟨h1, h2⟩ | ⟨l1, c', l2, h1, h2, h3, h4, h5⟩
  · rw [h1] at h; cases h
  · rw [h2] at h
    simp only [Option.some.injEq] at h
    subst h
    exact ⟨h3, l1, l2, h1, h4, h5⟩

theorem pass1Go_attained (ts : List Nat) : ∀ (c m : Nat) (tied : List Nat),
    (pass1Go c ts (m, tied)).1 = m ∨ (pass1Go c ts (m, tied)).1 ∈ ts := by
  induction ts with
  | nil => intro c m tied; simp [pass1Go]
  | cons t ts ih =>
    intro c m tied
    simp only [pass1Go]
    split
    · rcases ih (c + 1) t [c] with h | h
      · right; rw [h]; simp
      · right; exact List.mem_cons_of_mem _ h
    · split
      · rcases ih (c + 1) m (tied ++ [c]) with h | h
        · left; exact h
        · right; exact List.mem_cons_of_mem _ h
      · rcases ih (c + 1) m tied with h | h
        · left; exact h
        · right; exact List.mem_cons_of_mem _ h

/-- the first pass computes the maximum of the totals and the ascending list of all positions that attain it -/
theorem pass1_facts (ts : List Nat) :
    (∀ t ∈ ts, t ≤ (pass1 ts).1) ∧
    (∀ x, x ∈ (pass1 ts).2 ↔ ∃ h : x < ts.length, ts[x] = (pass1 ts).1) ∧
    (pass1 ts).2.Pairwise (· < ·) ∧
    (ts ≠ [] → ∃ j, ∃ h : j < ts.length, ts[j] = (pass1 ts).1) := by
  obtain ⟨_, h2, h3, h4⟩ := pass1Go_spec ts 0 0 []
  refine ⟨h2, ?_, h4 (by simp) (by simp), ?_⟩
  · intro x
    unfold pass1
    rw [h3]
    constructor
    · rintro (⟨h, _⟩ | ⟨j, hj, hx, he⟩)
      · simp at h
      · have : x = j := by simpa using hx
        subst this; exact ⟨hj, he⟩
    · rintro ⟨h, he⟩
      right; exact ⟨x, h, by simp, he⟩
  · intro hne
    rcases pass1Go_attained ts 0 0 [] with h | h
    · cases ts with
      | nil => exact absurd rfl hne
      | cons t ts =>
        refine ⟨0, by simp, ?_⟩
        have := h2 t (by simp)
        unfold pass1
        simp only [List.getElem_cons_zero]
        omega
    · obtain ⟨j, hj, he⟩ := List.getElem_of_mem h
      exact ⟨j, hj, he⟩

/-! ## one row of `get_largest_condition` -/

theorem totAt_eq (cells : List (Nat × Nat)) (c : Nat) (h : c < cells.length) :
    (cells.map (·.1))[c]'(by simpa using h) = totAt cells c := by
  simp [totAt, List.getD_eq_getElem?_getD, h]

theorem two_mem_length {l : List Nat} {a b : Nat} (ha : a ∈ l) (hb : b ∈ l) (hne : a ≠ b) : 1 < l.length := by
  match l, ha, hb with
  | [], ha, _ => cases ha
  | [x], ha, hb => simp at ha hb; omega
  | _ :: _ :: _, _, _ => simp

/-- what it means that condition `c` is retained -/
theorem selectRow_some (cells : List (Nat × Nat)) (c : Nat) (h : selectRow cells = some c) :
    c < cells.length ∧ (∀ c' < cells.length, totAt cells c' ≤ totAt cells c) ∧
    (∀ c' < cells.length, totAt cells c' = totAt cells c →
      firstAt cells c' ≤ firstAt cells c ∧ (firstAt cells c' = firstAt cells c → c ≤ c')) ∧
    (2 ≤ cells.length → 0 < totAt cells c ∨ 0 < firstAt cells c) := by
  obtain ⟨hmax, hmem, hsorted, _⟩ := pass1_facts (cells.map (·.1))
  simp only [List.length_map] at hmem
  have hmemc : c ∈ (pass1 (cells.map (·.1))).2 := by
    unfold selectRow at h
    simp only at h
    split at h
    · obtain ⟨_, l1, l2, hl, _, _⟩ := pass2_some _ _ _ h
      rw [hl]; simp
    · exact List.mem_of_mem_head? h
  obtain ⟨hc, hcM⟩ := (hmem c).1 hmemc
  rw [totAt_eq cells c hc] at hcM
  have hle : ∀ c' < cells.length, totAt cells c' ≤ totAt cells c := by
    intro c' hc'
    rw [hcM, ← totAt_eq cells c' hc']
    exact hmax _ (List.getElem_mem _)
  have hin : ∀ c' < cells.length, totAt cells c' = totAt cells c → c' ∈ (pass1 (cells.map (·.1))).2 := by
    intro c' hc' he
    exact (hmem c').2 ⟨hc', by rw [totAt_eq cells c' hc', he, hcM]⟩
  refine ⟨hc, hle, ?_, ?_⟩
  · intro c' hc' he
    have hc'mem := hin c' hc' he
    unfold selectRow at h
    simp only at h
    split at h
    · obtain ⟨_, l1, l2, hl, h1, h2⟩ := pass2_some _ _ _ h
      rw [hl] at hc'mem hsorted
      rw [List.pairwise_append] at hsorted
      obtain ⟨_, hs2, hs3⟩ := hsorted
      rcases List.mem_append.1 hc'mem with hm | hm
      · have : firstAt cells c' < firstAt cells c := h1 c' hm
        simp only [firstAt] at this ⊢
        omega
      · rcases List.mem_cons.1 hm with rfl | hm
        · simp
        · have : firstAt cells c' ≤ firstAt cells c := h2 c' hm
          have hlt : c < c' := (List.pairwise_cons.1 hs2).1 c' hm
          simp only [firstAt] at this ⊢
          omega
    · rename_i hlen
      have : c' = c := by
        cases hcc : decide (c' = c) with
        | true => exact of_decide_eq_true hcc
        | false =>
          have := two_mem_length hc'mem hmemc (of_decide_eq_false hcc)
          omega
      subst this; simp
  · intro h2
    unfold selectRow at h
    simp only at h
    split at h
    · right
      exact (pass2_some _ _ _ h).1
    · rename_i hlen
      left
      cases hz : totAt cells c with
      | succ n => omega
      | zero =>
        -- every total is 0, so every position is tied: at least two of them
        have h0 : 0 ∈ (pass1 (cells.map (·.1))).2 := hin 0 (by omega) (by have := hle 0 (by omega); omega)
        have h1 : 1 ∈ (pass1 (cells.map (·.1))).2 := hin 1 (by omega) (by have := hle 1 (by omega); omega)
        have := two_mem_length h0 h1 (by omega)
        omega

/-- when a row is left out -/
theorem selectRow_none (cells : List (Nat × Nat)) :
    selectRow cells = none ↔
      cells = [] ∨ ∃ c₁ c₂, c₁ < c₂ ∧ c₂ < cells.length ∧ (∀ c' < cells.length, totAt cells c' ≤ totAt cells c₁) ∧
        totAt cells c₂ = totAt cells c₁ ∧ (∀ c' < cells.length, totAt cells c' = totAt cells c₁ → firstAt cells c' = 0) := by
  obtain ⟨hmax, hmem, hsorted, hatt⟩ := pass1_facts (cells.map (·.1))
  simp only [List.length_map] at hmem
  constructor
  · intro h
    cases hcells : cells with
    | nil => left; rfl
    | cons x xs =>
      right
      rw [← hcells]
      obtain ⟨j, hj, hje⟩ := hatt (by simp [hcells])
      simp only [List.length_map] at hj
      have hjmem := (hmem j).2 ⟨hj, hje⟩
      unfold selectRow at h
      simp only at h
      split at h
      · rename_i hlen
        have hz := (pass2_none _ _).1 h
        -- the first two tied positions
        rcases hl : (pass1 (cells.map (·.1))).2 with _ | ⟨a, _ | ⟨b, rest⟩⟩
        · rw [hl] at hlen; simp at hlen
        · rw [hl] at hlen; simp at hlen
        · rw [hl] at hsorted hz
          have hab : a < b := (List.pairwise_cons.1 hsorted).1 b (by simp)
          obtain ⟨ha, hae⟩ := (hmem a).1 (by rw [hl]; simp)
          obtain ⟨hb, hbe⟩ := (hmem b).1 (by rw [hl]; simp)
          rw [totAt_eq cells a ha] at hae
          rw [totAt_eq cells b hb] at hbe
          refine ⟨a, b, hab, hb, ?_, by omega, ?_⟩
          · intro c' hc'
            rw [hae, ← totAt_eq cells c' hc']
            exact hmax _ (List.getElem_mem _)
          · intro c' hc' he
            have : c' ∈ (pass1 (cells.map (·.1))).2 := (hmem c').2 ⟨hc', by rw [totAt_eq cells c' hc', he, hae]⟩
            rw [hl] at this
            exact hz c' this
      · rename_i hlen
        match hl : (pass1 (cells.map (·.1))).2 with
        | [] => rw [hl] at hjmem; cases hjmem
        | a :: rest => rw [hl] at h; simp at h
  · rintro (rfl | ⟨c₁, c₂, h12, h2, hmx, he, hz⟩)
    · rfl
    · have h1 : c₁ < cells.length := by omega
      obtain ⟨j, hj, hje⟩ := hatt (by intro hn; simp at hn; subst hn; simp at h2)
      simp only [List.length_map] at hj
      have hM : totAt cells c₁ = (pass1 (cells.map (·.1))).1 := by
        have a := hmx j hj
        rw [← totAt_eq cells j hj, hje] at a
        have b := hmax _ (List.getElem_mem (l := cells.map (·.1)) (n := c₁) (by simpa using h1))
        rw [totAt_eq cells c₁ h1] at b
        omega
      have m1 : c₁ ∈ (pass1 (cells.map (·.1))).2 := (hmem c₁).2 ⟨h1, by rw [totAt_eq cells c₁ h1, hM]⟩
      have m2 : c₂ ∈ (pass1 (cells.map (·.1))).2 := (hmem c₂).2 ⟨h2, by rw [totAt_eq cells c₂ h2, he, hM]⟩
      have hlen := two_mem_length m1 m2 (by omega)
      unfold selectRow
      simp only [hlen, if_true]
      rw [pass2_none]
      intro c hc
      obtain ⟨hcl, hce⟩ := (hmem c).1 hc
      rw [totAt_eq cells c hcl] at hce
      exact hz c hcl (by omega)

/-! ## the tables -/

theorem first_le_total (sizes : List Nat) : first sizes ≤ total sizes := by
  cases sizes with
  | nil => simp [first, total]
  | cons a t => simp [first, total]

theorem foldl_min_spec (ts : List (List Nat)) : ∀ m : Nat,
    ts.foldl (fun m x => min m x.length) m ≤ m ∧
    (∀ t ∈ ts, ts.foldl (fun m x => min m x.length) m ≤ t.length) ∧
    (ts.foldl (fun m x => min m x.length) m = m ∨ ∃ t ∈ ts, ts.foldl (fun m x => min m x.length) m = t.length) := by
  induction ts with
  | nil => intro m; simp
  | cons a ts ih =>
    intro m
    simp only [List.foldl_cons]
    obtain ⟨h1, h2, h3⟩ := ih (min m a.length)
    refine ⟨by omega, ?_, ?_⟩
    · intro t ht
      rcases List.mem_cons.1 ht with rfl | h
      · omega
      · exact h2 t h
    · rcases h3 with h | ⟨t, ht, he⟩
      · by_cases hm : m ≤ a.length
        · left; rw [h]; omega
        · right; exact ⟨a, by simp, by rw [h]; omega⟩
      · right; exact ⟨t, List.mem_cons_of_mem _ ht, he⟩

theorem minLength_none (ts : List (List Nat)) : minLength ts = none ↔ ts = [] := by
  cases ts <;> simp [minLength]

theorem minLength_some (ts : List (List Nat)) (n : Nat) (h : minLength ts = some n) :
    (∀ t ∈ ts, n ≤ t.length) ∧ ∃ t ∈ ts, n = t.length := by
  cases ts with
  | nil => simp [minLength] at h
  | cons a ts =>
    simp only [minLength, Option.some.injEq] at h
    subst h
    obtain ⟨h1, h2, h3⟩ := foldl_min_spec ts a.length
    refine ⟨?_, ?_⟩
    · intro t ht
      rcases List.mem_cons.1 ht with rfl | h
      · exact h1
      · exact h2 t h
    · rcases h3 with h | ⟨t, ht, he⟩
      · exact ⟨a, by simp, h⟩
      · exact ⟨t, List.mem_cons_of_mem _ ht, he⟩

theorem minLength_const (ts : List (List Nat)) (n : Nat) (hne : ts ≠ []) (h : ∀ t ∈ ts, t.length = n) :
    minLength ts = some n := by
  cases hm : minLength ts with
  | none => exact absurd ((minLength_none ts).1 hm) hne
  | some k =>
    obtain ⟨_, t, ht, he⟩ := minLength_some ts k hm
    rw [he, h t ht]

theorem column_conds (conds : List (List (List Nat))) (idx : Nat) :
    column (conds.map (·.map total)) (conds.map (·.map first)) idx = cellsAt conds idx := by
  unfold column cellsAt
  rw [List.zip_map', List.map_map]
  apply List.map_congr_left
  intro cond _
  simp only [Function.comp, List.getD_eq_getElem?_getD, List.getElem?_map]
  cases cond[idx]? <;> simp [total, first]

theorem totAt_cellsAt (conds : List (List (List Nat))) (idx c : Nat) :
    totAt (cellsAt conds idx) c = total (sizesAt conds c idx) := by
  simp only [totAt, cellsAt, sizesAt, List.getD_eq_getElem?_getD, List.getElem?_map]
  cases conds[c]? <;> simp [total]

theorem firstAt_cellsAt (conds : List (List (List Nat))) (idx c : Nat) :
    firstAt (cellsAt conds idx) c = first (sizesAt conds c idx) := by
  simp only [firstAt, cellsAt, sizesAt, List.getD_eq_getElem?_getD, List.getElem?_map]
  cases conds[c]? <;> simp [first]

/-- `get_largest_condition` row by row -/
theorem getLargest_spec (conds : List (List (List Nat))) (res : List (Option CondIdx)) (h : getLargest conds = some res) :
    conds ≠ [] ∧ (∀ cond ∈ conds, res.length ≤ cond.length) ∧ (∃ cond ∈ conds, res.length = cond.length) ∧
    ∀ idx < res.length, res[idx]? = some (selectRow (cellsAt conds idx)) := by
  unfold getLargest getLargestT at h
  cases hm : minLength (conds.map (·.map total)) with
  | none => rw [hm] at h; cases h
  | some n =>
    rw [hm] at h
    simp only [Option.map_some, Option.some.injEq] at h
    subst h
    obtain ⟨h1, t, ht, he⟩ := minLength_some _ _ hm
    refine ⟨?_, ?_, ?_, ?_⟩
    · intro hc; subst hc; simp [minLength] at hm
    · intro cond hc
      have := h1 (cond.map total) (List.mem_map.2 ⟨cond, hc, rfl⟩)
      simpa using this
    · obtain ⟨cond, hc, rfl⟩ := List.mem_map.1 ht
      exact ⟨cond, hc, by simpa using he⟩
    · intro idx hidx
      simp only [List.length_map, List.length_range] at hidx
      simp [List.getElem?_map, List.getElem?_range hidx, column_conds]

theorem getLargest_none (conds : List (List (List Nat))) : getLargest conds = none ↔ conds = [] := by
  unfold getLargest getLargestT
  cases hm : minLength (conds.map (·.map total)) with
  | none => simpa [minLength_none] using hm
  | some n =>
    simp only [Option.map_some, reduceCtorEq, false_iff]
    intro hc; subst hc; simp [minLength] at hm

/-! ## `MCSSearch.find`: generic list lemmas -/

theorem filterMap_congr' {β γ : Type} (f g : β → Option γ) (l : List β) (h : ∀ x ∈ l, f x = g x) :
    l.filterMap f = l.filterMap g := by
  induction l with
  | nil => rfl
  | cons a t ih =>
    simp only [List.filterMap_cons, h a (by simp)]
    rw [ih (fun x hx => h x (List.mem_cons_of_mem _ hx))]

theorem find?_congr' {β : Type} (p q : β → Bool) (l : List β) (h : ∀ x ∈ l, p x = q x) : l.find? p = l.find? q := by
  induction l with
  | nil => rfl
  | cons a t ih =>
    simp only [List.find?_cons, h a (by simp)]
    rw [ih (fun x hx => h x (List.mem_cons_of_mem _ hx))]

/-- a fold of overwriting updates: the last update that applies wins -/
theorem fold_last {X R : Type} (p : X → Bool) (wb : R → X → R) (hwb : ∀ r x y, wb (wb r x) y = wb r y) (l : List X) :
    ∀ r : R, l.foldl (fun r x => if p x then wb r x else r) r = ((l.reverse.find? p).map (wb r)).getD r := by
  induction l with
  | nil => intro r; rfl
  | cons a t ih =>
    intro r
    simp only [List.foldl_cons, List.reverse_cons, List.find?_append, List.find?_singleton]
    rw [ih]
    cases hf : t.reverse.find? p with
    | some x =>
      simp only [Option.some_or]
      split <;> simp [hwb]
    | none =>
      simp only [Option.none_or]
      split <;> simp_all

/-- in a list with pairwise distinct keys the records derived from `b` are found under `b`'s key -/
theorem find_filterMap_nodup {β X : Type} (key : β → Id) (g : β → Option X) (kx : X → Id)
    (hg : ∀ b x, g b = some x → kx x = key b) (l : List β) (hn : (l.map key).Nodup) (b : β) (hb : b ∈ l) :
    (l.filterMap g).reverse.find? (fun x => kx x == key b) = g b := by
  induction l with
  | nil => cases hb
  | cons a t ih =>
    simp only [List.map_cons, List.nodup_cons] at hn
    obtain ⟨hna, hnt⟩ := hn
    have hnone : ∀ k, k ∉ t.map key → (t.filterMap g).reverse.find? (fun x => kx x == k) = none := by
      intro k hk
      rw [List.find?_eq_none]
      intro x hx
      obtain ⟨b', hb', hgb⟩ := List.mem_filterMap.1 (List.mem_reverse.1 hx)
      have := hg b' x hgb
      intro he
      apply hk
      rw [← (beq_iff_eq.1 he), this]
      exact List.mem_map.2 ⟨b', hb', rfl⟩
    rcases List.mem_cons.1 hb with rfl | hbt
    · simp only [List.filterMap_cons]
      cases hga : g b with
      | none => simpa using hnone _ hna
      | some x =>
        simp only [List.reverse_cons, List.find?_append, hnone _ hna, Option.none_or, List.find?_singleton]
        simp [hg b x hga]
    · have hne : key a ≠ key b := by
        intro he; apply hna; rw [he]; exact List.mem_map.2 ⟨b, hbt, rfl⟩
      simp only [List.filterMap_cons]
      cases hga : g a with
      | none => exact ih hnt hbt
      | some x =>
        simp only [List.reverse_cons, List.find?_append, ih hnt hbt, List.find?_singleton]
        have : (kx x == key b) = false := by
          rw [hg a x hga]; exact beq_false_of_ne hne
        simp [this]

/-! ## `MCSSearch.find`: the id → index map -/

variable {α P G D : Type}

theorem mem_idMap (rows : List (Row α P)) (k : Id) (j : Nat) :
    (k, j) ∈ idMap rows ↔ ∃ h : j < rows.length, rows[j].solved = false ∧ rows[j].id = k := by
  unfold idMap
  rw [List.mem_filterMap]
  constructor
  · rintro ⟨⟨r, i⟩, hmem, hf⟩
    obtain ⟨hi, hr⟩ := List.mem_zipIdx' hmem
    simp only at hf
    split at hf
    · cases hf
    · rename_i hs
      simp only [Option.some.injEq, Prod.mk.injEq] at hf
      obtain ⟨h1, h2⟩ := hf
      subst h2
      exact ⟨hi, by rw [← hr]; simpa using hs, by rw [← hr]; exact h1⟩
  · rintro ⟨h, hs, hk⟩
    refine ⟨(rows[j], j), List.mk_mem_zipIdx_iff_getElem?.2 (List.getElem?_eq_getElem h), ?_⟩
    simp [hs, hk]

theorem lookup_sound (m : List (Id × Nat)) (id : Id) (j : Nat) (h : lookupIdx m id = some j) : (id, j) ∈ m := by
  unfold lookupIdx at h
  cases hf : m.reverse.find? (fun kv => kv.1 == id) with
  | none => rw [hf] at h; cases h
  | some kv =>
    rw [hf] at h
    simp only [Option.map_some, Option.some.injEq] at h
    have h1 := List.find?_some hf
    have h2 := List.mem_reverse.1 (List.mem_of_find?_eq_some hf)
    have : kv = (id, j) := by
      cases kv; simp only [Prod.mk.injEq]; exact ⟨beq_iff_eq.1 h1, h⟩
    rw [← this]; exact h2

theorem lookup_complete (m : List (Id × Nat)) (id : Id) (i : Nat) (h : (id, i) ∈ m) : ∃ j, lookupIdx m id = some j := by
  unfold lookupIdx
  cases hf : m.reverse.find? (fun kv => kv.1 == id) with
  | none =>
    rw [List.find?_eq_none] at hf
    exact absurd (by simp) (hf (id, i) (List.mem_reverse.2 h))
  | some kv => exact ⟨kv.2, rfl⟩

/-- distinct ids among the unsolved rows, as a statement about positions -/
theorem nodup_index (rows : List (Row α P)) (hn : ((rows.filter (!·.solved)).map (·.id)).Nodup) (i j : Nat)
    (hi : i < rows.length) (hj : j < rows.length) (si : rows[i].solved = false) (sj : rows[j].solved = false)
    (he : rows[i].id = rows[j].id) : i = j := by
  rw [List.nodup_iff_pairwise_ne, List.pairwise_map, List.pairwise_filter, List.pairwise_iff_getElem] at hn
  rcases Nat.lt_trichotomy i j with h | h | h
  · exact absurd he (hn i j hi hj h (by simp [si]) (by simp [sj]))
  · exact h
  · exact absurd he.symm (hn j i hj hi h (by simp [sj]) (by simp [si]))

theorem lookup_unique (rows : List (Row α P)) (hn : ((rows.filter (!·.solved)).map (·.id)).Nodup) (i : Nat)
    (hi : i < rows.length) (si : rows[i].solved = false) : lookupIdx (idMap rows) rows[i].id = some i := by
  obtain ⟨j, hj⟩ := lookup_complete (idMap rows) rows[i].id i ((mem_idMap rows _ _).2 ⟨hi, si, rfl⟩)
  obtain ⟨hjl, sj, he⟩ := (mem_idMap rows _ _).1 (lookup_sound _ _ _ hj)
  rw [hj, nodup_index rows hn j i hjl hi sj si he]

theorem writeBack_writeBack (r : Row α P) (p q : P) (a b : String) :
    writeBack (writeBack r p a) q b = writeBack r q b := rfl

/-- `attach` succeeds when every id is in the map, and row `i` sees exactly the updates addressed to `i` -/
theorem attach_spec (m : List (Id × Nat)) (results : List (Id × P × String)) : ∀ (rows : List (Row α P)),
    (∀ x ∈ results, ∃ i, lookupIdx m x.1 = some i ∧ i < rows.length) →
    ∃ out, attach m rows results = some out ∧ out.length = rows.length ∧
      ∀ i, out[i]? = (rows[i]?).map fun r =>
        results.foldl (fun r x => if decide (lookupIdx m x.1 = some i) then writeBack r x.2.1 x.2.2 else r) r := by
  induction results with
  | nil => intro rows _; exact ⟨rows, rfl, rfl, fun i => by cases rows[i]? <;> rfl⟩
  | cons x xs ih =>
    intro rows h
    obtain ⟨i, hl, hi⟩ := h x (by simp)
    have hstep : attach m rows (x :: xs) = attach m (rows.set i (writeBack rows[i] x.2.1 x.2.2)) xs := by
      simp only [attach, List.foldlM_cons, hl, List.getElem?_eq_getElem hi]
      rfl
    obtain ⟨out, ho, hlen, hget⟩ := ih (rows.set i (writeBack rows[i] x.2.1 x.2.2)) (by
      intro y hy
      obtain ⟨k, hk, hkl⟩ := h y (List.mem_cons_of_mem _ hy)
      exact ⟨k, hk, by simpa using hkl⟩)
    refine ⟨out, by rw [hstep, ho], by simpa using hlen, ?_⟩
    intro k
    rw [hget k, List.getElem?_set]
    simp only [List.foldl_cons]
    by_cases hik : i = k
    · subst hik
      simp [hi, hl]
    · have : ¬ (lookupIdx m x.1 = some k) := by rw [hl]; simpa using hik
      simp [hik, this]

/-! ## `MCSSearch.find`: the search tables of a batch -/

theorem cellsAt_ensemble (nc : Nat) (search : CondIdx → α → Found D) (todo : List (Row α P)) (idx : Nat)
    (h : idx < todo.length) :
    cellsAt ((ensemble nc search todo).map (·.map (·.found.sizes))) idx =
      (List.range nc).map fun c => (total (search c todo[idx].inp).sizes, first (search c todo[idx].inp).sizes) := by
  unfold cellsAt ensemble
  rw [List.map_map, List.map_map]
  apply List.map_congr_left
  intro c _
  simp [List.getD_eq_getElem?_getD, List.getElem?_map, List.getElem?_eq_getElem h]

theorem getLargest_ensemble (nc : Nat) (hnc : 0 < nc) (search : CondIdx → α → Found D) (todo : List (Row α P)) :
    getLargest ((ensemble nc search todo).map (·.map (·.found.sizes))) =
      some (todo.map fun r => choose nc search r.inp) := by
  cases hg : getLargest ((ensemble nc search todo).map (·.map (·.found.sizes))) with
  | none =>
    have := (getLargest_none _).1 hg
    simp [ensemble] at this
    omega
  | some res =>
    obtain ⟨_, hle, ⟨cond, hc, hlen⟩, hrow⟩ := getLargest_spec _ _ hg
    have hl : res.length = todo.length := by
      rw [hlen]
      simp only [ensemble, List.map_map, List.mem_map, List.mem_range] at hc
      obtain ⟨c, _, rfl⟩ := hc
      simp
    congr 1
    apply List.ext_getElem?
    intro idx
    by_cases hidx : idx < res.length
    · rw [hrow idx hidx, cellsAt_ensemble nc search todo idx (by omega)]
      simp [List.getElem?_map, List.getElem?_eq_getElem (show idx < todo.length by omega), choose]
    · rw [List.getElem?_eq_none (by omega), List.getElem?_eq_none (by simp; omega)]

theorem choose_lt (nc : Nat) (search : CondIdx → α → Found D) (inp : α) (c : Nat) (h : choose nc search inp = some c) :
    c < nc := by
  have := (selectRow_some _ c h).1
  simpa using this

theorem pick_ensemble (nc : Nat) (search : CondIdx → α → Found D) (todo : List (Row α P)) :
    pick (ensemble nc search todo) (todo.map fun r => choose nc search r.inp) =
      todo.filterMap fun r => (choose nc search r.inp).map fun c => (⟨r.id, search c r.inp⟩ : Entry D) := by
  unfold pick
  rw [List.zipIdx_map, List.filterMap_map]
  have : todo.filterMap (fun r => (choose nc search r.inp).map fun c => (⟨r.id, search c r.inp⟩ : Entry D)) =
      (todo.zipIdx.map Prod.fst).filterMap
        (fun r => (choose nc search r.inp).map fun c => (⟨r.id, search c r.inp⟩ : Entry D)) := by
    rw [List.zipIdx_map_fst]
  rw [this, List.filterMap_map]
  apply filterMap_congr'
  rintro ⟨r, i⟩ hmem
  obtain ⟨hi, hr⟩ := List.mem_zipIdx' hmem
  simp only [Function.comp, Prod.map, id]
  cases hch : choose nc search r.inp with
  | none => rfl
  | some c =>
    have hc := choose_lt nc search r.inp c hch
    simp [ensemble, List.getElem?_map, List.getElem?_range hc, List.getElem?_eq_getElem hi, ← hr]

/-! ## `MCSSearch.find` row by row -/

theorem findOne_solved (nc : Nat) (search : CondIdx → α → Found D) (graph : Entry D → G)
    (r : Row α (Payload G D)) (h : r.solved = true) : findOne nc search graph r = r := by
  simp [findOne, h]

/-- **`find` is a map.** With at least one search condition and pairwise distinct ids among the unsolved rows,
`MCSSearch.find` does to every row exactly what `findOne` does to that row alone. -/
theorem find_eq_map (nc : Nat) (hnc : 0 < nc) (search : CondIdx → α → Found D) (graph : Entry D → G)
    (rows : List (Row α (Payload G D))) (hn : ((rows.filter (!·.solved)).map (·.id)).Nodup) :
    find nc search graph rows = some (rows.map (findOne nc search graph)) := by
  unfold find findT
  split
  · rename_i hempty
    have hall : ∀ r ∈ rows, r.solved = true := by
      have := List.filter_eq_nil_iff.1 (List.isEmpty_iff.1 hempty)
      intro r hr; simpa using this r hr
    congr 1
    symm
    calc rows.map (findOne nc search graph) = rows.map id :=
          List.map_congr_left fun r hr => findOne_solved nc search graph r (hall r hr)
      _ = rows := List.map_id _
  · unfold findWith
    rw [getLargest_ensemble nc hnc search]
    simp only
    rw [pick_ensemble, List.map_filterMap]
    -- the results handed to `attach`
    let g : Row α (Payload G D) → Option (Id × Payload G D × String) := fun r =>
      (choose nc search r.inp).map fun c =>
        (r.id, (graph ⟨r.id, search c r.inp⟩, (⟨r.id, search c r.inp⟩ : Entry D)), (search c r.inp).issue)
    have hres : (rows.filter (!·.solved)).filterMap (fun r =>
        ((choose nc search r.inp).map fun c => (⟨r.id, search c r.inp⟩ : Entry D)).map
          fun e => (e.id, (graph e, e), e.found.issue)) = (rows.filter (!·.solved)).filterMap g := by
      apply filterMap_congr'
      intro r _
      simp only [g]
      cases choose nc search r.inp <;> rfl
    rw [hres]
    have hg : ∀ r x, g r = some x → x.1 = r.id := by
      intro r x hx
      simp only [g] at hx
      cases hch : choose nc search r.inp with
      | none => rw [hch] at hx; cases hx
      | some c => rw [hch] at hx; cases hx; rfl
    -- every id is in the map
    have hpre : ∀ x ∈ (rows.filter (!·.solved)).filterMap g,
        ∃ i, lookupIdx (idMap rows) x.1 = some i ∧ i < (rows.map resetRow).length := by
      intro x hx
      obtain ⟨r, hr, hgr⟩ := List.mem_filterMap.1 hx
      obtain ⟨hrr, hrs⟩ := List.mem_filter.1 hr
      obtain ⟨i, hi, rfl⟩ := List.mem_iff_getElem.1 hrr
      refine ⟨i, ?_, by simpa using hi⟩
      rw [hg _ _ hgr]
      exact lookup_unique rows hn i hi (by simpa using hrs)
    obtain ⟨out, ho, hlen, hget⟩ := attach_spec (idMap rows) _ (rows.map resetRow) hpre
    rw [ho]
    congr 1
    apply List.ext_getElem?
    intro i
    rw [hget i]
    by_cases hi : i < rows.length
    · simp only [List.getElem?_map, List.getElem?_eq_getElem hi, Option.map_some, Option.some.injEq]
      rw [fold_last (fun x => decide (lookupIdx (idMap rows) x.1 = some i))
        (fun r (x : Id × Payload G D × String) => writeBack r x.2.1 x.2.2) (fun r x y => rfl)]
      cases hs : rows[i].solved with
      | true =>
        -- no result is addressed to a solved row
        have hnone : ((rows.filter (!·.solved)).filterMap g).reverse.find?
            (fun x => decide (lookupIdx (idMap rows) x.1 = some i)) = none := by
          rw [List.find?_eq_none]
          intro x _ hx
          obtain ⟨_, sj, _⟩ := (mem_idMap rows _ _).1 (lookup_sound _ _ _ (of_decide_eq_true hx))
          rw [hs] at sj; cases sj
        rw [hnone]
        simp [resetRow, findOne, hs]
      | false =>
        have hpred : ((rows.filter (!·.solved)).filterMap g).reverse.find?
              (fun x => decide (lookupIdx (idMap rows) x.1 = some i)) =
            ((rows.filter (!·.solved)).filterMap g).reverse.find? (fun x => x.1 == rows[i].id) := by
          apply find?_congr'
          intro x hx
          obtain ⟨r, hr, hgr⟩ := List.mem_filterMap.1 (List.mem_reverse.1 hx)
          cases hb : (x.1 == rows[i].id) with
          | true =>
            rw [beq_iff_eq.1 hb]
            simpa using lookup_unique rows hn i hi hs
          | false =>
            simp only [decide_eq_false_iff_not]
            intro hl
            obtain ⟨_, _, he⟩ := (mem_idMap rows _ _).1 (lookup_sound _ _ _ hl)
            rw [he] at hb
            simp at hb
        rw [hpred, find_filterMap_nodup (·.id) g (·.1) hg _ hn rows[i]
          (List.mem_filter.2 ⟨List.getElem_mem hi, by simp [hs]⟩)]
        simp only [g, findOne, hs]
        cases choose nc search rows[i].inp with
        | none => simp [resetRow, hs]
        | some c => simp [resetRow, hs, writeBack]
    · rw [List.getElem?_eq_none (by simp; omega), List.getElem?_eq_none (by simp; omega)]
      rfl

/-- `attach` on an arbitrary list of results whose ids are ids of unsolved rows -/
theorem attach_by_id (rows : List (Row α P)) (hn : ((rows.filter (!·.solved)).map (·.id)).Nodup)
    (results : List (Id × P × String))
    (hids : ∀ x ∈ results, ∃ i, ∃ h : i < rows.length, rows[i].solved = false ∧ rows[i].id = x.1)
    (hres : (results.map (·.1)).Nodup) :
    ∃ out, attach (idMap rows) rows results = some out ∧ out.length = rows.length ∧
      (∀ i, ∀ h : i < rows.length, rows[i].solved = true → out[i]? = some rows[i]) ∧
      (∀ i, ∀ h : i < rows.length, (∀ x ∈ results, x.1 ≠ rows[i].id) → out[i]? = some rows[i]) ∧
      (∀ x ∈ results, ∀ i, ∀ h : i < rows.length, rows[i].solved = false → rows[i].id = x.1 →
        out[i]? = some (writeBack rows[i] x.2.1 x.2.2)) := by
  have hpre : ∀ x ∈ results, ∃ i, lookupIdx (idMap rows) x.1 = some i ∧ i < rows.length := by
    intro x hx
    obtain ⟨i, hi, hs, he⟩ := hids x hx
    exact ⟨i, by rw [← he]; exact lookup_unique rows hn i hi hs, hi⟩
  obtain ⟨out, ho, hlen, hget⟩ := attach_spec (idMap rows) results rows hpre
  have hfold : ∀ i, ∀ h : i < rows.length, out[i]? = some
      (((results.reverse.find? (fun x => decide (lookupIdx (idMap rows) x.1 = some i))).map
        (fun x => writeBack rows[i] x.2.1 x.2.2)).getD rows[i]) := by
    intro i hi
    rw [hget i, List.getElem?_eq_getElem hi]
    simp only [Option.map_some, Option.some.injEq]
    exact fold_last (fun x => decide (lookupIdx (idMap rows) x.1 = some i))
      (fun r (x : Id × P × String) => writeBack r x.2.1 x.2.2) (fun r x y => rfl) results rows[i]
  refine ⟨out, ho, hlen, ?_, ?_, ?_⟩
  · intro i hi hs
    rw [hfold i hi]
    have : results.reverse.find? (fun x => decide (lookupIdx (idMap rows) x.1 = some i)) = none := by
      rw [List.find?_eq_none]
      intro x _ hx
      obtain ⟨_, sj, _⟩ := (mem_idMap rows _ _).1 (lookup_sound _ _ _ (of_decide_eq_true hx))
      rw [hs] at sj; cases sj
    rw [this]; rfl
  · intro i hi hno
    rw [hfold i hi]
    have : results.reverse.find? (fun x => decide (lookupIdx (idMap rows) x.1 = some i)) = none := by
      rw [List.find?_eq_none]
      intro x hx hl
      obtain ⟨_, _, he⟩ := (mem_idMap rows _ _).1 (lookup_sound _ _ _ (of_decide_eq_true hl))
      exact hno x (List.mem_reverse.1 hx) he.symm
    rw [this]; rfl
  · intro x hx i hi hs he
    rw [hfold i hi]
    have hpred : results.reverse.find? (fun y => decide (lookupIdx (idMap rows) y.1 = some i)) =
        results.reverse.find? (fun y => y.1 == x.1) := by
      apply find?_congr'
      intro y _
      cases hb : (y.1 == x.1) with
      | true =>
        rw [beq_iff_eq.1 hb, ← he]
        simpa using lookup_unique rows hn i hi hs
      | false =>
        simp only [decide_eq_false_iff_not]
        intro hl
        obtain ⟨_, _, he'⟩ := (mem_idMap rows _ _).1 (lookup_sound _ _ _ hl)
        rw [← he', he] at hb
        simp at hb
    have := find_filterMap_nodup (fun y : Id × P × String => y.1) some (fun y => y.1)
      (fun b y hy => by cases hy; rfl) results hres x hx
    rw [List.filterMap_some] at this
    rw [hpred, this]; rfl

/-! ## `IterativeMCSReactionPairs` and `single_mcs` -/

variable {M Pr Pat : Type}

/-- the entry of `mcs_list` a well-behaved iteration contributes -/
def toOpt : Outcome Pat → Option Pat
  | .found p => some p
  | _ => none

/-- the removal of the matched part did not raise after the pattern had been appended -/
def Outcome.clean : Outcome Pat → Bool
  | .raisedAfter _ => false
  | _ => true

theorem outcomes_length (step : M → Pr → Outcome Pat × Pr) (sorted : List M) :
    ∀ cur, (outcomes step cur sorted).length = sorted.length := by
  induction sorted with
  | nil => intro cur; rfl
  | cons r rs ih => intro cur; simp [outcomes, ih]

/-- outcome `i` is the search of reactant `i` (against the product as it is at that point) -/
theorem outcomes_get (step : M → Pr → Outcome Pat × Pr) (sorted : List M) :
    ∀ cur i, ∀ h : i < sorted.length, ∃ pr, (outcomes step cur sorted)[i]? = some (step sorted[i] pr).1 := by
  induction sorted with
  | nil => intro cur i h; cases h
  | cons r rs ih =>
    intro cur i h
    cases i with
    | zero => exact ⟨cur, by simp [outcomes]⟩
    | succ i =>
      obtain ⟨pr, hp⟩ := ih (step r cur).2 i (by simpa using h)
      exact ⟨pr, by simpa [outcomes] using hp⟩

theorem flatMap_emit_clean (outs : List (Outcome Pat)) (h : ∀ o ∈ outs, o.clean = true) :
    outs.flatMap emit = outs.map toOpt := by
  induction outs with
  | nil => rfl
  | cons o os ih =>
    have ho := h o (by simp)
    rw [List.flatMap_cons, List.map_cons, ih (fun o' ho' => h o' (List.mem_cons_of_mem _ ho'))]
    cases o <;> simp_all [emit, toOpt, Outcome.clean]

theorem allSome_eq_some (l : List (Option Pat)) (ps : List Pat) : allSome l = some ps ↔ l = ps.map some := by
  induction l generalizing ps with
  | nil => cases ps <;> simp [allSome]
  | cons a t ih =>
    cases a with
    | none => cases ps <;> simp [allSome]
    | some a =>
      simp only [allSome, Option.map_eq_some_iff]
      constructor
      · rintro ⟨qs, hq, rfl⟩
        simp [(ih qs).1 hq]
      · intro h
        cases ps with
        | nil => simp at h
        | cons q qs =>
          simp only [List.map_cons, List.cons.injEq, Option.some.injEq] at h
          exact ⟨qs, (ih qs).2 h.2, by rw [h.1]⟩

/-- if no `None` is left in `mcs_list` (current code), every iteration found a pattern -/
theorem flatMap_emit_all_some (outs : List (Outcome Pat)) :
    ∀ ps : List Pat, outs.flatMap emit = ps.map some → outs = ps.map Outcome.found := by
  induction outs with
  | nil => intro ps h; cases ps <;> simp_all
  | cons o os ih =>
    intro ps h
    rw [List.flatMap_cons] at h
    cases o with
    | found p =>
      cases ps with
      | nil => simp [emit] at h
      | cons q qs =>
        simp only [emit, List.singleton_append, List.map_cons, List.cons.injEq, Option.some.injEq] at h
        simp [h.1, ih qs h.2]
    | cancelled => cases ps <;> simp [emit] at h
    | raisedBefore => cases ps <;> simp [emit] at h
    | raisedAfter p =>
      cases ps with
      | nil => simp [emit] at h
      | cons q qs => cases qs <;> simp [emit] at h

/-- what `single_mcs` records is aligned, whatever the loop returned: either an error record with empty lists, or one
pattern per sorted reactant, the `i`-th found by searching the `i`-th reactant -/
theorem searchEntry_aligned (pre : M → Option Nat) (step : M → Pr → Outcome Pat × Pr) (reactants : List M)
    (prod : Pr) :
    (searchEntry pre step reactants prod).mcsResults.length = (searchEntry pre step reactants prod).sortedReactants.length ∧
    (∀ (i : Nat) r p, (searchEntry pre step reactants prod).sortedReactants[i]? = some r →
      (searchEntry pre step reactants prod).mcsResults[i]? = some p → ∃ pr, (step r pr).1 = .found p) ∧
    ((searchEntry pre step reactants prod).issue = "" →
      (searchEntry pre step reactants prod).sortedReactants.Perm reactants) ∧
    ((searchEntry pre step reactants prod).issue ≠ "" →
      (searchEntry pre step reactants prod).mcsResults = [] ∧ (searchEntry pre step reactants prod).sortedReactants = []) := by
  unfold searchEntry singleMcs
  simp only
  split
  · simp [uncertainIssue]
  · rename_i hlen
    simp only [bne_iff_ne, ne_eq, Decidable.not_not] at hlen
    cases has : allSome (mcsList step prod (firstLoop pre reactants)) with
    | none => simp [failedIssue]
    | some ps =>
      simp only
      have hout := flatMap_emit_all_some _ ps ((allSome_eq_some _ _).1 has)
      have hl := outcomes_length step (firstLoop pre reactants) prod
      refine ⟨?_, ?_, ?_, by simp⟩
      · rw [hout] at hl; simpa using hl
      · intro i r p hr hp
        have hi : i < (firstLoop pre reactants).length := by
          rcases Nat.lt_or_ge i (firstLoop pre reactants).length with h | h
          · exact h
          · rw [List.getElem?_eq_none h] at hr; cases hr
        obtain ⟨pr, hpr⟩ := outcomes_get step (firstLoop pre reactants) prod i hi
        rw [hout, List.getElem?_map, hp] at hpr
        rw [List.getElem?_eq_getElem hi] at hr
        cases hr
        exact ⟨pr, by simpa using hpr.symm⟩
      · intro _
        unfold firstLoop at hlen ⊢
        have hp := Norm.sortDescBy_perm
          (fun a b => decide ((pre a).getD 0 ≤ (pre b).getD 0)) (reactants.filter fun r => (pre r).isSome)
        have hfl : (reactants.filter fun r => (pre r).isSome).length = reactants.length := by
          rw [← hp.length_eq]; exact hlen.symm
        have hfil := List.filter_eq_self.2 (List.length_filter_eq_length_iff.1 hfl)
        rw [hfil] at hp ⊢
        exact hp

/-! ## concrete values used by the examples and witnesses of `Properties/C10.lean` -/

/-- two unsolved rows with the same id -/
def dupRows : List (Row Nat (Payload Unit Unit)) := [⟨"0", false, 1, .absent, none⟩, ⟨"0", false, 2, .absent, none⟩]
def dupSearch : CondIdx → Nat → Found Unit := fun _ n => ⟨[n], (), ""⟩

/-- a mixed batch: row 1 is solved, nothing is found for row 2 -/
def exRows : List (Row Nat (Payload Nat Unit)) :=
  [⟨"0", false, 3, .absent, none⟩, ⟨"1", true, 9, .absent, none⟩, ⟨"2", false, 0, .absent, none⟩,
   ⟨"3", false, 5, .absent, none⟩]
def exSearch : CondIdx → Nat → Found Unit := fun c n => ⟨if n = 0 then [] else [n + c % 2, 1], (), ""⟩

end SynRBL.Mcs
