import SynRBLModel.Model.StatsDict
import SynRBLModel.Proofs.Batching
/-!
# `merge_stats` adds values key by key and adopts new keys; the dictionary agrees with the record model
-/
namespace SynRBL
open Dict

theorem Dict.val_append (a b : Dict) (k : Key) :
    Dict.val (a ++ b) k = if Dict.contains a k then Dict.val a k else Dict.val b k := by
  induction a with
  | nil => simp
  | cons h t ih =>
    obtain ⟨k', v'⟩ := h
    simp only [List.cons_append, val_cons, contains_cons]
    by_cases hk : k' = k
    · simp [hk]
    · simp [hk, ih]

theorem Dict.val_filter_key (n : Dict) (p : Key → Bool) (k : Key) :
    Dict.val (List.filter (fun kv => p kv.1) n) k = if p k then Dict.val n k else 0 := by
  induction n with
  | nil => simp
  | cons h t ih =>
    obtain ⟨k', v'⟩ := h
    simp only [List.filter_cons]
    by_cases hp : p k' = true
    · simp only [hp, if_true, val_cons]
      by_cases hk : k' = k
      · subst hk; simp [hp]
      · simp [hk, ih]
    · have hp' : p k' = false := by simpa using hp
      simp only [hp']
      rw [show (if false = true then (k', v') :: List.filter (fun kv => p kv.1) t else List.filter (fun kv => p kv.1) t)
          = List.filter (fun kv => p kv.1) t from rfl, ih, val_cons]
      by_cases hk : k' = k
      · subst hk; simp [hp']
      · simp [hk]

/-- what `merge_stats` does to one entry of `stats` -/
def bump (n : Dict) (kv : Key × Int) : Key × Int :=
  if Dict.contains n kv.1 then (kv.1, kv.2 + Dict.val n kv.1) else kv

theorem bump_fst (n : Dict) (kv : Key × Int) : (bump n kv).1 = kv.1 := by
  unfold bump; split <;> rfl

theorem contains_map_bump (s n : Dict) (k : Key) : Dict.contains (List.map (bump n) s) k = Dict.contains s k := by
  induction s with
  | nil => rfl
  | cons h t ih =>
    obtain ⟨k', v'⟩ := h
    simp only [List.map_cons]
    rw [show bump n (k', v') = ((bump n (k', v')).1, (bump n (k', v')).2) from rfl, contains_cons, contains_cons, ih, bump_fst]

theorem val_map_bump (s n : Dict) (k : Key) :
    Dict.val (List.map (bump n) s) k = if Dict.contains s k then Dict.val s k + Dict.val n k else 0 := by
  induction s with
  | nil => simp
  | cons h t ih =>
    obtain ⟨k', v'⟩ := h
    simp only [List.map_cons]
    rw [show bump n (k', v') = ((bump n (k', v')).1, (bump n (k', v')).2) from rfl, val_cons, bump_fst, contains_cons, val_cons]
    by_cases hk : k' = k
    · subst hk
      simp only [if_true, decide_true, Bool.true_or]
      unfold bump
      by_cases hc : Dict.contains n k' = true
      · simp [hc]
      · have hc' : Dict.contains n k' = false := by simpa using hc
        simp [hc', val_of_not_contains n k' hc']
    · simp [hk, ih]

theorem mergeStats_eq (s n : Dict) :
    mergeStats s n = List.map (bump n) s ++ List.filter (fun kv => !Dict.contains s kv.1) n := rfl

/-- `merge_stats` adds the two values of every key (an absent key counts 0) — no well-formedness needed -/
theorem mergeStats_val (s n : Dict) (k : Key) : Dict.val (mergeStats s n) k = Dict.val s k + Dict.val n k := by
  rw [mergeStats_eq, Dict.val_append, contains_map_bump, val_map_bump,
    Dict.val_filter_key n (fun k => !Dict.contains s k)]
  by_cases hc : Dict.contains s k = true
  · simp [hc]
  · have hc' : Dict.contains s k = false := by simpa using hc
    simp [hc', val_of_not_contains s k hc']

theorem keys_map_bump (s n : Dict) : Dict.keys (List.map (bump n) s) = Dict.keys s := by
  induction s with
  | nil => rfl
  | cons h t ih => simp only [List.map_cons, keys_cons, ih, bump_fst]

theorem keys_append (a b : Dict) : Dict.keys (a ++ b) = Dict.keys a ++ Dict.keys b := by
  unfold Dict.keys; exact List.map_append

/-- the merged dictionary has exactly the keys of both -/
theorem mem_keys_mergeStats (s n : Dict) (k : Key) :
    k ∈ Dict.keys (mergeStats s n) ↔ k ∈ Dict.keys s ∨ k ∈ Dict.keys n := by
  rw [mergeStats_eq, keys_append, List.mem_append, keys_map_bump]
  constructor
  · rintro (h | h)
    · exact Or.inl h
    · obtain ⟨kv, hkv, rfl⟩ := List.mem_map.1 h
      exact Or.inr (List.mem_map.2 ⟨kv, (List.mem_filter.1 hkv).1, rfl⟩)
  · rintro (h | h)
    · exact Or.inl h
    · by_cases hs : k ∈ Dict.keys s
      · exact Or.inl hs
      · obtain ⟨kv, hkv, rfl⟩ := List.mem_map.1 h
        refine Or.inr (List.mem_map.2 ⟨kv, List.mem_filter.2 ⟨hkv, ?_⟩, rfl⟩)
        have : Dict.contains s kv.1 = false := (contains_eq_false_iff s kv.1).2 hs
        simp [this]

/-- merging keeps dictionaries well formed -/
theorem mergeStats_wf (s n : Dict) (hs : Dict.WF s) (hn : Dict.WF n) : Dict.WF (mergeStats s n) := by
  unfold Dict.WF at *
  rw [mergeStats_eq, keys_append, keys_map_bump]
  refine List.nodup_append.2 ⟨hs, ?_, ?_⟩
  · exact (List.filter_sublist.map _).nodup hn
  · intro a ha b hb hab
    subst hab
    obtain ⟨kv, hkv, rfl⟩ := List.mem_map.1 hb
    have hf := (List.mem_filter.1 hkv).2
    have : Dict.contains s kv.1 = true := (contains_iff s kv.1).2 ha
    simp [this] at hf

theorem foldl_mergeStats_val (ds : List Dict) (init : Dict) (k : Key) :
    Dict.val (ds.foldl mergeStats init) k = Dict.val init k + (ds.map (fun d => Dict.val d k)).sum := by
  induction ds generalizing init with
  | nil => simp
  | cons d t ih => simp only [List.foldl_cons, ih, mergeStats_val, List.map_cons, List.sum_cons]; omega

theorem mem_keys_foldl_mergeStats (ds : List Dict) (init : Dict) (k : Key) :
    k ∈ Dict.keys (ds.foldl mergeStats init) ↔ k ∈ Dict.keys init ∨ ∃ d ∈ ds, k ∈ Dict.keys d := by
  induction ds generalizing init with
  | nil => simp
  | cons d t ih =>
    simp only [List.foldl_cons, ih, mem_keys_mergeStats, List.mem_cons, exists_eq_or_imp]
    constructor
    · rintro ((h | h) | h)
      · exact Or.inl h
      · exact Or.inr (Or.inl h)
      · exact Or.inr (Or.inr h)
    · rintro (h | h | h)
      · exact Or.inl (Or.inl h)
      · exact Or.inl (Or.inr h)
      · exact Or.inr h

theorem foldl_mergeStats_wf (ds : List Dict) (init : Dict) (hi : Dict.WF init) (hd : ∀ d ∈ ds, Dict.WF d) :
    Dict.WF (ds.foldl mergeStats init) := by
  induction ds generalizing init with
  | nil => exact hi
  | cons d t ih =>
    exact ih _ (mergeStats_wf _ _ hi (hd d (List.mem_cons_self ..))) (fun x hx => hd x (List.mem_cons_of_mem _ hx))

/-! ### record ↔ dictionary -/

theorem RowStats.field_add (a b : RowStats) (k : Key) : (a.add b).field k = a.field k + b.field k := by
  unfold RowStats.field RowStats.add
  repeat' split
  all_goals simp

theorem RowStats.field_zero (k : Key) : RowStats.zero.field k = 0 := by
  unfold RowStats.field RowStats.zero
  repeat' split
  all_goals rfl

theorem RowStats.field_foldl (rs : List RowStats) (init : RowStats) (k : Key) :
    (rs.foldl RowStats.add init).field k = init.field k + (rs.map (fun r => r.field k)).sum := by
  induction rs generalizing init with
  | nil => simp
  | cons r t ih => simp only [List.foldl_cons, ih, RowStats.field_add, List.map_cons, List.sum_cons]; omega

theorem toDict_wf (b : Bool) (r : RowStats) : Dict.WF (r.toDict b) := by
  unfold RowStats.toDict; cases b <;> simp [Dict.WF, Dict.keys]

theorem toDict_val_true (r : RowStats) (k : Key) : Dict.val (r.toDict true) k = r.field k := by
  unfold RowStats.toDict RowStats.field
  simp only [if_true, val_cons, val_nil]
  grind

/-- a pipeline invocation without a valid row counts nothing but the rows -/
theorem foldl_stats_no_valid (cfg : Config) (rows : List InRow) (hall : ∀ r ∈ rows, InRow.isValid r = false) (acc : RowStats) :
    (rows.map (statsIn cfg)).foldl RowStats.add acc = { acc with reactionCnt := acc.reactionCnt + rows.length } := by
  induction rows generalizing acc with
  | nil => simp
  | cons r t ih =>
    have hr := hall r (List.mem_cons_self ..)
    cases r with
    | valid s o => simp [InRow.isValid] at hr
    | invalid raw =>
      simp only [List.map_cons, List.foldl_cons, statsIn]
      rw [ih (fun x hx => hall x (List.mem_cons_of_mem _ hx))]
      simp only [RowStats.add, RowStats.zero, List.length_cons]
      congr 1
      omega

theorem batchStats_no_valid (cfg : Config) (rows : List InRow) (h : rows.any InRow.isValid = false) :
    batchStats cfg rows = { RowStats.zero with reactionCnt := rows.length } := by
  unfold batchStats
  have hall : ∀ r ∈ rows, InRow.isValid r = false := by
    intro r hr; have := List.any_eq_false.1 h r hr; simpa using this
  rw [foldl_stats_no_valid cfg rows hall RowStats.zero]; simp [RowStats.zero]

/-- every key of a batch dictionary carries the record's field (a key that was not written counts 0 and the record
has 0 there) -/
theorem batchDict_val (cfg : Config) (rows : List InRow) (k : Key) :
    Dict.val (batchDict cfg rows) k = (batchStats cfg rows).field k := by
  unfold batchDict
  cases h : rows.any InRow.isValid with
  | true => exact toDict_val_true _ k
  | false =>
    rw [batchStats_no_valid cfg rows h]
    unfold RowStats.toDict RowStats.field RowStats.zero
    by_cases hk : k = "reaction_cnt"
    · subst hk; simp [val_cons]
    · have hk' : ¬ "reaction_cnt" = k := fun e => hk e.symm
      simp [val_cons, hk, hk']

/-- the caller's dictionary agrees, key by key, with the record of the field-wise model -/
theorem rebalanceDict_val (cfg : Config) (n : Nat) (rows : List InRow) (k : Key) :
    Dict.val (rebalanceDict cfg n rows) k = (rebalance cfg n rows).2.field k := by
  unfold rebalanceDict rebalance
  simp only
  rw [foldl_mergeStats_val, RowStats.field_foldl, RowStats.field_zero, val_nil, List.map_map, List.map_map]
  congr 2
  apply List.map_congr_left
  intro b _
  exact batchDict_val cfg b k

theorem rebalanceDict_wf (cfg : Config) (n : Nat) (rows : List InRow) : Dict.WF (rebalanceDict cfg n rows) := by
  unfold rebalanceDict
  apply foldl_mergeStats_wf
  · simp [Dict.WF]
  · intro d hd
    obtain ⟨b, _, rfl⟩ := List.mem_map.1 hd
    exact toDict_wf _ _

/-- a counter is reported as soon as ANY batch wrote it, whichever batch came first -/
theorem mem_keys_rebalanceDict (cfg : Config) (n : Nat) (rows : List InRow) (k : Key) :
    k ∈ Dict.keys (rebalanceDict cfg n rows) ↔ ∃ b ∈ batchesOf n rows, k ∈ Dict.keys (batchDict cfg b) := by
  unfold rebalanceDict
  rw [mem_keys_foldl_mergeStats]
  simp only [keys_nil, List.not_mem_nil, false_or, List.mem_map]
  constructor
  · rintro ⟨d, ⟨b, hb, rfl⟩, hk⟩; exact ⟨b, hb, hk⟩
  · rintro ⟨b, hb, hk⟩; exact ⟨_, ⟨b, hb, rfl⟩, hk⟩

end SynRBL
