import SynRBLModel.Model.Matcher
import SynRBLModel.Proofs.Compare
/-!
# The depth-first matcher: every completion sums to the imbalance
-/
namespace SynRBL
open Dict

/-- one subtraction step changes exactly the key it names (when present) -/
theorem subStep_val (ratio : Int) (nd : Dict) (hn : nd.WF) (kv : Key × Int) (k2 : Key) :
    (subStep ratio nd kv).val k2 =
      if kv.1 = k2 ∧ nd.contains kv.1 then nd.val k2 - kv.2 * ratio else nd.val k2 := by
  unfold subStep
  split
  · simp only
    split
    · rw [Dict.val_erase _ hn]; grind
    · rw [Dict.val_set]; grind
  · grind

theorem subStep_nodup (ratio : Int) (nd : Dict) (hn : nd.WF) (kv : Key × Int) :
    (subStep ratio nd kv).keys.Nodup := by
  unfold subStep
  split
  · simp only; split
    · exact wf_erase _ _ hn
    · exact wf_set _ _ _ hn
  · exact hn


/-! ### the whole-rule subtraction and the DFS invariant -/




theorem subStep_contains_ne (ratio : Int) (nd : Dict) (kv : Key × Int) (k' : Key) (h : kv.1 ≠ k') :
    (subStep ratio nd kv).contains k' = nd.contains k' := by
  unfold subStep Dict.contains
  split
  · simp only; split
    · rw [Dict.get?_erase_ne _ _ _ h]
    · rw [Dict.get?_set_ne _ _ _ _ h]
  · rfl

theorem foldl_subStep_val (ratio : Int) (rule : Dict) (hr : rule.WF) :
    ∀ (nd : Dict), nd.WF → (∀ k ∈ rule.keys, nd.contains k = true) →
      ∀ k2, (rule.foldl (subStep ratio) nd).val k2 = nd.val k2 - rule.val k2 * ratio := by
  induction rule with
  | nil => intro nd _ _ k2; simp
  | cons kv t ih =>
    intro nd hn hc k2
    obtain ⟨k, v⟩ := kv
    simp only [Dict.WF, Dict.keys, List.map_cons, List.nodup_cons] at hr
    simp only [List.foldl_cons]
    have hck : nd.contains k = true := hc k (by simp [Dict.keys])
    have hstep : ∀ k' ∈ Dict.keys t, (subStep ratio nd (k, v)).contains k' = true := by
      intro k' hk'
      have hne : k ≠ k' := by
        intro h; subst h; exact hr.1 (by simpa [Dict.keys] using hk')
      rw [subStep_contains_ne ratio nd (k, v) k' hne]
      exact hc k' (by simp only [Dict.keys, List.map_cons, List.mem_cons]; right; simpa [Dict.keys] using hk')
    rw [ih hr.2 (subStep ratio nd (k, v)) (subStep_nodup ratio nd hn (k, v)) hstep k2,
        subStep_val ratio nd hn (k, v) k2, Dict.val_cons]
    simp only [hck]
    by_cases h : k = k2
    · subst h
      have hz : Dict.val t k = 0 := Dict.val_not_mem t k (by simpa [Dict.keys] using hr.1)
      simp [hz]
    · simp [h]



def pathVal (path : List Step) (k : Key) : Int :=
  (path.map fun st => (st.ratio : Int) * st.rule.comp.val k).sum

def NodupDB (rules : List Rule) : Prop := ∀ r ∈ rules, r.comp.WF

theorem canMatch_contains (rule data : Dict) (hq : data.contains "Q" = true)
    (h : canMatch rule data = true) : ∀ k ∈ rule.keys, data.contains k = true := by
  intro k hk
  simp only [canMatch, List.all_eq_true] at h
  simp only [Dict.keys, List.mem_map] at hk
  obtain ⟨kv, hkv, rfl⟩ := hk
  have := h kv hkv
  simp only [Bool.or_eq_true, beq_iff_eq, Bool.and_eq_true, decide_eq_true_eq] at this
  rcases this with h1 | h2
  · rw [h1]; exact hq
  · exact h2.1

theorem foldl_subStep_nodup (ratio : Int) (rule : Dict) :
    ∀ nd : Dict, nd.WF → (rule.foldl (subStep ratio) nd).keys.Nodup := by
  induction rule with
  | nil => intro nd h; exact h
  | cons kv t ih => intro nd h; exact ih _ (subStep_nodup ratio nd h kv)

theorem subStep_contains_Q (ratio : Int) (nd : Dict) (kv : Key × Int) (h : nd.contains "Q" = true) :
    (subStep ratio nd kv).contains "Q" = true := by
  by_cases hk : kv.1 = "Q"
  · unfold subStep
    split
    · simp only; split
      · rename_i h2; exact absurd hk h2.2
      · -- set on Q
        rw [Dict.contains_iff]
        rw [hk]
        have : ∀ (d : Dict) v, "Q" ∈ (Dict.set d "Q" v).keys := by
          intro d v
          induction d with
          | nil => simp [Dict.set, Dict.keys]
          | cons a t ih =>
            obtain ⟨ka, va⟩ := a
            simp only [Dict.set]; split
            · simp [Dict.keys]
            · simp only [Dict.keys, List.map_cons, List.mem_cons]; right; exact ih
        exact this _ _
    · exact h
  · rw [subStep_contains_ne ratio nd kv "Q" hk]; exact h

theorem foldl_subStep_contains_Q (ratio : Int) (rule : Dict) :
    ∀ nd : Dict, nd.contains "Q" = true → (rule.foldl (subStep ratio) nd).contains "Q" = true := by
  induction rule with
  | nil => intro nd h; exact h
  | cons kv t ih => intro nd h; exact ih _ (subStep_contains_Q ratio nd kv h)

theorem exit_val (data : Dict) (hq : data.contains "Q" = true) (h : exitOk data = true) :
    ∀ k, data.val k = 0 := by
  intro k
  simp only [exitOk, Bool.and_eq_true, beq_iff_eq] at h
  match data, h, hq with
  | [(k0, v0)], h, hq =>
    simp only [Dict.contains, Dict.get?] at hq
    by_cases h0 : k0 = "Q"
    · subst h0
      have hv : v0 = 0 := by simpa [Dict.val, Dict.get?] using h.2
      subst hv
      rw [Dict.val_cons]; split <;> simp
    · simp [h0] at hq

theorem pathVal_append (p : List Step) (st : Step) (k : Key) :
    pathVal (p ++ [st]) k = pathVal p k + (st.ratio : Int) * st.rule.comp.val k := by
  simp [pathVal]

/-- every completion found by the search adds up, key by key (charge included), to the imbalance -/
theorem dfs_sum (rules : List Rule) (hdb : NodupDB rules) :
    ∀ fuel data path, data.WF → data.contains "Q" = true →
      ∀ sol ∈ dfs rules fuel data path, ∀ k, pathVal sol k = pathVal path k + data.val k := by
  intro fuel
  induction fuel with
  | zero => intro data path _ _ sol h; simp [dfs] at h
  | succ n ih =>
    intro data path hn hq sol hsol k
    simp only [dfs] at hsol
    split at hsol
    · rename_i hex
      simp only [List.mem_singleton] at hsol
      subst hsol
      rw [exit_val data hq hex k]; simp
    · simp only [List.mem_flatMap] at hsol
      obtain ⟨r, hr, hin⟩ := hsol
      split at hin
      · rename_i hcm
        split at hin
        · simp at hin
        · rename_i q hq'
          have hcont := canMatch_contains r.comp data hq hcm
          have hnd := foldl_subStep_nodup (q.natAbs : Int) r.comp data hn
          have hqq := foldl_subStep_contains_Q (q.natAbs : Int) r.comp data hq
          have := ih (subtractRule r.comp q.natAbs data) (path ++ [⟨r, q.natAbs⟩]) hnd hqq sol hin k
          rw [this, pathVal_append]
          simp only [subtractRule]
          rw [foldl_subStep_val (q.natAbs : Int) r.comp (hdb r hr) data hn hcont k]
          rw [Int.mul_comm (r.comp.val k)]
          omega
      · simp at hin



end SynRBL

namespace SynRBL
open Dict

/-! ### good rules: positive ratios, membership -/

/-- a rule the matcher can use: unique keys, every element count positive, at least one element -/
def goodRule (r : Rule) : Bool :=
  decide r.comp.WF && r.comp.all (fun kv => kv.1 == "Q" || decide (0 < kv.2)) &&
    r.comp.any (fun kv => kv.1 != "Q")

def goodDB (rules : List Rule) : Bool := rules.all goodRule

theorem goodDB_nodup (rules : List Rule) (h : goodDB rules = true) : NodupDB rules := by
  intro r hr
  simp only [goodDB, List.all_eq_true] at h
  have := h r hr
  simp only [goodRule, Bool.and_eq_true, decide_eq_true_eq] at this
  exact this.1.1

theorem foldl_min_ge (c : Int) : ∀ (t : List Int) (q : Int), c ≤ q → (∀ x ∈ t, c ≤ x) → c ≤ t.foldl min q := by
  intro t
  induction t with
  | nil => intro q hq _; simpa using hq
  | cons a t ih =>
    intro q hq h
    simp only [List.foldl_cons]
    apply ih
    · have := h a (List.mem_cons_self ..); omega
    · intro x hx; exact h x (List.mem_cons_of_mem _ hx)

theorem ratio_pos (r : Rule) (data : Dict) (hg : goodRule r = true) (hc : canMatch r.comp data = true) :
    ∃ q, ratioOf r.comp data = some q ∧ 1 ≤ q := by
  simp only [goodRule, Bool.and_eq_true, decide_eq_true_eq, List.all_eq_true, List.any_eq_true] at hg
  obtain ⟨⟨_, hpos⟩, kv0, hkv0, hne0⟩ := hg
  simp only [canMatch, List.all_eq_true] at hc
  have hel : ∀ x ∈ (r.comp.filter (fun kv => kv.1 != "Q")).map
      (fun kv => if kv.2 != 0 then Int.fdiv (data.val kv.1) kv.2 else 0), (1 : Int) ≤ x := by
    intro x hx
    obtain ⟨kv, hkv, rfl⟩ := List.mem_map.1 hx
    have hkv' := List.mem_filter.1 hkv
    have hp := hpos kv hkv'.1
    have hm := hc kv hkv'.1
    have hnq : (kv.1 == "Q") = false := by simpa using hkv'.2
    simp only [hnq, Bool.false_or, Bool.and_eq_true, decide_eq_true_eq] at hp hm
    have hv : kv.2 ≠ 0 := by omega
    simp only [bne_iff_ne, ne_eq, hv, not_false_eq_true, if_true]
    rw [Int.fdiv_eq_ediv_of_nonneg _ (by omega)]
    apply Int.le_ediv_of_mul_le hp
    omega
  unfold ratioOf
  simp only
  cases hqs : (r.comp.filter (fun kv => kv.1 != "Q")).map
      (fun kv => if kv.2 != 0 then Int.fdiv (data.val kv.1) kv.2 else 0) with
  | nil =>
    exfalso
    have : kv0 ∈ r.comp.filter (fun kv => kv.1 != "Q") := List.mem_filter.2 ⟨hkv0, hne0⟩
    have hm := List.mem_map_of_mem (f := fun kv : Key × Int =>
      if kv.2 != 0 then Int.fdiv (data.val kv.1) kv.2 else 0) this
    rw [hqs] at hm; simp at hm
  | cons q t =>
    rw [hqs] at hel
    refine ⟨t.foldl min q, rfl, ?_⟩
    exact foldl_min_ge 1 t q (hel q (List.mem_cons_self ..)) (fun x hx => hel x (List.mem_cons_of_mem _ hx))

/-- every step the search appends uses a database rule with a positive multiplicity -/
theorem dfs_steps (rules : List Rule) (hdb : goodDB rules = true) :
    ∀ fuel data path, ∀ sol ∈ dfs rules fuel data path,
      ∃ ext, sol = path ++ ext ∧ ∀ st ∈ ext, st.rule ∈ rules ∧ 1 ≤ st.ratio := by
  intro fuel
  induction fuel with
  | zero => intro data path sol h; simp [dfs] at h
  | succ n ih =>
    intro data path sol hsol
    simp only [dfs] at hsol
    split at hsol
    · simp only [List.mem_singleton] at hsol
      exact ⟨[], by simp [hsol], by simp⟩
    · simp only [List.mem_flatMap] at hsol
      obtain ⟨r, hr, hin⟩ := hsol
      split at hin
      · rename_i hcm
        split at hin
        · simp at hin
        · rename_i q hq'
          have hg : goodRule r = true := by
            simp only [goodDB, List.all_eq_true] at hdb; exact hdb r hr
          obtain ⟨q', hq1, hq2⟩ := ratio_pos r data hg hcm
          rw [hq'] at hq1; cases hq1
          obtain ⟨ext, he, hall⟩ := ih _ _ sol hin
          refine ⟨⟨r, q.natAbs⟩ :: ext, by simp [he], ?_⟩
          intro st hst
          rcases List.mem_cons.1 hst with h | h
          · subst h; exact ⟨hr, by simp only; omega⟩
          · exact hall st h
      · simp at hin

/-! ### the post-processing of the solution list only selects and reorders -/

theorem mem_insertDesc {α} (key : α → Nat) (x y : α) (l : List α) :
    y ∈ insertDesc key x l ↔ y = x ∨ y ∈ l := by
  induction l with
  | nil => simp [insertDesc]
  | cons a t ih =>
    simp only [insertDesc]
    split
    · simp only [List.mem_cons, ih]; grind
    · simp only [List.mem_cons]

theorem mem_sortDesc {α} (key : α → Nat) (y : α) (l : List α) : y ∈ sortDesc key l ↔ y ∈ l := by
  unfold sortDesc
  have : ∀ (l acc : List α), y ∈ l.foldl (fun acc x => insertDesc key x acc) acc ↔ y ∈ acc ∨ y ∈ l := by
    intro l
    induction l with
    | nil => intro acc; simp
    | cons a t ih =>
      intro acc
      simp only [List.foldl_cons, ih, mem_insertDesc, List.mem_cons]; grind
  simpa using this l []

theorem mem_dedup (s : Solution) (l : List Solution) (h : s ∈ dedup l) : s ∈ l := by
  unfold dedup at h
  have : ∀ (l acc : List Solution),
      s ∈ l.foldl (fun acc s => if acc.any (sameSet s) then acc else acc ++ [s]) acc → s ∈ acc ∨ s ∈ l := by
    intro l
    induction l with
    | nil => intro acc h; simpa using h
    | cons a t ih =>
      intro acc h
      simp only [List.foldl_cons] at h
      rcases ih _ h with h1 | h1
      · split at h1
        · exact Or.inl h1
        · rcases List.mem_append.1 h1 with h2 | h2
          · exact Or.inl h2
          · simp only [List.mem_singleton] at h2; subst h2; exact Or.inr (List.mem_cons_self ..)
      · exact Or.inr (List.mem_cons_of_mem _ h1)
  simpa using this l [] h

theorem mem_shortest (s : Solution) (l : List Solution) (h : s ∈ shortest l) : s ∈ l := by
  unfold shortest at h
  cases l with
  | nil => simp at h
  | cons a t => exact (List.mem_filter.1 h).1

theorem mem_rank (s : Solution) (l : List Solution) (h : s ∈ rank l) : s ∈ l :=
  mem_shortest s l ((mem_sortDesc _ _ _).1 h)

/-! ### `prepData` -/

theorem wf_append_single (d : Dict) (k : Key) (v : Int) (hd : d.WF) (hk : d.contains k = false) :
    Dict.WF (d ++ [(k, v)]) := by
  have hk' := (contains_eq_false_iff d k).1 hk
  simp only [WF, keys, List.map_append, List.map_cons, List.map_nil] at *
  rw [List.nodup_append]
  refine ⟨hd, by simp, ?_⟩
  intro a ha b hb
  simp only [List.mem_singleton] at hb
  subst hb
  intro e; subst e; exact hk' ha

theorem wf_filter (d : Dict) (f : Key × Int → Bool) (hd : d.WF) : Dict.WF (d.filter f) := by
  induction d with
  | nil => simpa using hd
  | cons a t ih =>
    simp only [WF, keys_cons, List.nodup_cons] at hd
    simp only [List.filter_cons]
    split
    · simp only [WF, keys_cons, List.nodup_cons]
      refine ⟨?_, ih hd.2⟩
      intro hm
      obtain ⟨kv, hkv, hk⟩ := List.mem_map.1 hm
      exact hd.1 (List.mem_map.2 ⟨kv, (List.mem_filter.1 hkv).1, hk⟩)
    · exact ih hd.2

theorem val_filter_zero (d : Dict) (hd : d.WF) (f : Key × Int → Bool)
    (hf : ∀ kv ∈ d, f kv = false → kv.2 = 0) (k : Key) :
    Dict.val (d.filter f) k = d.val k := by
  induction d with
  | nil => rfl
  | cons a t ih =>
    obtain ⟨k', v'⟩ := a
    simp only [WF, keys_cons, List.nodup_cons] at hd
    have ht : ∀ kv ∈ t, f kv = false → kv.2 = 0 := fun kv hkv => hf kv (List.mem_cons_of_mem _ hkv)
    simp only [List.filter_cons]
    cases hfa : f (k', v') with
    | true => simp only [if_true, val_cons, ih hd.2 ht]
    | false =>
      have hz : v' = 0 := hf _ (List.mem_cons_self ..) hfa
      simp only [Bool.false_eq_true, if_false, val_cons, ih hd.2 ht]
      split
      · rename_i hk; subst hk; subst hz
        exact val_not_mem t _ hd.1
      · rfl

theorem prepData_wf (d : Dict) (hd : d.WF) : (prepData d).WF := by
  unfold prepData
  apply wf_filter
  split
  · exact hd
  · rename_i h; exact wf_append_single d "Q" 0 hd (by simpa using h)

theorem prepData_contains_Q (d : Dict) : (prepData d).contains "Q" = true := by
  unfold prepData
  rw [contains_iff]
  apply List.mem_map.2
  by_cases h : d.contains "Q" = true
  · simp only [h, if_true]
    obtain ⟨kv, hkv, hk⟩ := List.mem_map.1 ((contains_iff d "Q").1 h)
    exact ⟨kv, List.mem_filter.2 ⟨hkv, by simp [show kv.1 = "Q" from hk]⟩, hk⟩
  · have hq : d.contains "Q" = false := by simpa using h
    simp only [hq, Bool.false_eq_true, if_false]
    exact ⟨("Q", 0), List.mem_filter.2 ⟨by simp, by simp⟩, rfl⟩

theorem prepData_val (d : Dict) (hd : d.WF) (k : Key) : (prepData d).val k = d.val k := by
  unfold prepData
  by_cases h : d.contains "Q" = true
  · simp only [h, if_true]
    apply val_filter_zero _ hd
    intro kv _ hf
    simp only [Bool.or_eq_false_iff, bne_eq_false_iff_eq] at hf
    exact hf.1
  · have hq : d.contains "Q" = false := by simpa using h
    simp only [hq, Bool.false_eq_true, if_false]
    rw [val_filter_zero _ (wf_append_single d "Q" 0 hd hq)]
    · rw [Dict.val_append]
      by_cases hk : d.contains k = true
      · simp [hk]
      · simp only [hk, if_false]
        rw [val_of_not_contains d k (by simpa using hk), val_cons]
        split <;> simp
    · intro kv _ hf
      simp only [Bool.or_eq_false_iff, bne_eq_false_iff_eq] at hf
      exact hf.1

/-- **every completion returned by the matcher** uses database rules with positive multiplicities and adds up,
key by key (charge included), to the imbalance it was asked to fill -/
theorem matchAll_sound (rules : List Rule) (hdb : goodDB rules = true) (d : Dict) (hd : d.WF) :
    ∀ sol ∈ matchAll rules d,
      (∀ st ∈ sol, st.rule ∈ rules ∧ 1 ≤ st.ratio) ∧ ∀ k, pathVal sol k = d.val k := by
  intro sol hsol
  unfold matchAll at hsol
  simp only at hsol
  have hmem := mem_dedup _ _ (mem_rank _ _ hsol)
  have hdb' : goodDB (sortRules rules) = true := by
    simp only [goodDB, List.all_eq_true] at hdb ⊢
    intro r hr; exact hdb r ((mem_sortDesc _ _ _).1 hr)
  constructor
  · obtain ⟨ext, he, hall⟩ := dfs_steps (sortRules rules) hdb' _ _ _ sol hmem
    simp only [List.nil_append] at he; subst he
    intro st hst
    exact ⟨(mem_sortDesc _ _ _).1 (hall st hst).1, (hall st hst).2⟩
  · intro k
    have := dfs_sum (sortRules rules) (goodDB_nodup _ hdb') _ _ [] (prepData_wf d hd)
      (prepData_contains_Q d) sol hmem k
    rw [this, prepData_val d hd]
    simp [pathVal]

end SynRBL
