import SynRBLModel.Model.Cli
namespace SynRBL.Cli

theorem getCol_setCol (r : Rec) (c v c' : String) :
    getCol (setCol r c v) c' = if c = c' then some v else getCol r c' := by
  induction r with
  | nil => simp [setCol, getCol]
  | cons h t ih =>
    obtain ⟨k, w⟩ := h
    simp only [setCol]
    by_cases hk : k = c
    · subst hk; simp only [if_true, getCol]; by_cases h2 : k = c' <;> simp [h2]
    · simp only [hk, if_false, getCol, ih]
      by_cases h2 : k = c'
      · subst h2; simp [hk, Ne.symm hk]
      · simp [h2]

/-- after the copy loop every pass-through column that the input row has carries the input row's value; the other
columns of the result row are untouched -/
theorem getCol_passRow (cols : List String) (inR outR : Rec) (c : String) :
    getCol (passRow cols inR outR) c =
      if c ∈ cols ∧ (getCol inR c).isSome then getCol inR c else getCol outR c := by
  unfold passRow
  induction cols generalizing outR with
  | nil => simp
  | cons d t ih =>
    simp only [List.foldl_cons]
    rw [ih]
    by_cases hd : d = c
    · subst hd
      cases hv : getCol inR d with
      | none => simp [hv]
      | some v => simp [hv, getCol_setCol]
    · have hd' : ¬ c = d := fun e => hd e.symm
      cases hv : getCol inR d with
      | none => simp [hd']
      | some v => simp [getCol_setCol, hd, hd']

theorem length_passThrough (cols : List String) (ins outs : List Rec) :
    (passThrough cols ins outs).length = min ins.length outs.length := by
  unfold passThrough; simp

end SynRBL.Cli
