import SynRBLModel.Model.Pipeline
import SynRBLModel.Proofs.Compare
/-!
# Stage lemmas of the row state machine (for an arbitrary oracle)
-/
namespace SynRBL
open Str

variable (O : Oracle)

/-! ### the rule-based stage leaves a balanced reaction alone -/

theorem analyse_balance (r p : Dict) (h : compareDicts r p = .balance) :
    (analyse r p).waters = 0 ∧ (analyse r p).verdict = .balance := by
  simp [analyse, bothSideFix, waterStep, h]

theorem rep_zero (x : Str) : rep x 0 = [] := rfl

theorem sidesOf_some (s a b : Str) (h : sidesOf s = some (a, b)) :
    ∃ rest, splitArrow s = a :: b :: rest := by
  unfold sidesOf at h
  split at h
  · rename_i r p rest hs
    cases h
    exact ⟨rest, hs⟩
  · cases h

theorem verdictOf_balance_sides (s : Str) (h : verdictOf O s = .balance) :
    ∃ a b, sidesOf s = some (a, b) ∧ compareDicts (O.comp a) (O.comp b) = .balance := by
  unfold verdictOf at h
  cases hs : sidesOf s with
  | none => simp [hs] at h
  | some ab => obtain ⟨a, b⟩ := ab; simp only [hs] at h; exact ⟨a, b, rfl, h⟩

theorem rbStage_fields (cfg : Config) (r : Row) :
    (rbStage O cfg r).input = r.input ∧ (rbStage O cfg r).solved = r.solved ∧
    (rbStage O cfg r).solvedBy = r.solvedBy ∧ (rbStage O cfg r).issue = r.issue ∧
    (rbStage O cfg r).carbon = r.carbon ∧ (rbStage O cfg r).unbalance = r.unbalance ∧
    (rbStage O cfg r).hasMcs = r.hasMcs ∧ (rbStage O cfg r).mcsOk = r.mcsOk ∧
    (rbStage O cfg r).rules = r.rules ∧ (rbStage O cfg r).conf = r.conf ∧
    (rbStage O cfg r).uncurated = r.uncurated := by
  unfold rbStage; split <;> simp

/-- a reaction the comparator calls balanced is not edited by the rule-based stage -/
theorem rbStage_balanced (cfg : Config) (r : Row) (h : verdictOf O r.reaction = .balance) :
    (rbStage O cfg r).reaction = r.reaction := by
  obtain ⟨a, b, hs, hc⟩ := verdictOf_balance_sides O _ h
  obtain ⟨rest, hsp⟩ := sidesOf_some _ _ _ hs
  have ha := analyse_balance _ _ hc
  unfold rbStage rbOut
  simp only [hs]
  unfold rbRow
  simp only [hsp, ha.1, ha.2, rep_zero, List.append_nil]
  split
  · rename_i o ho
    split at ho
    · simp at ho
      cases ho; rfl
    · cases ho; rfl
  · rfl

/-! ### the validator -/

theorem validate_input (m : Method) (c o : Bool) (msg : Option Str) (r : Row) :
    (validate O m c o msg r).input = r.input := by
  unfold validate; simp only []; repeat' split
  all_goals rfl

theorem validate_frame (m : Method) (c o : Bool) (msg : Option Str) (r : Row) :
    (validate O m c o msg r).hasMcs = r.hasMcs ∧ (validate O m c o msg r).mcsOk = r.mcsOk ∧
    (validate O m c o msg r).rules = r.rules ∧ (validate O m c o msg r).conf = r.conf ∧
    (validate O m c o msg r).uncurated = r.uncurated := by
  unfold validate; simp only []; repeat' split
  all_goals simp

/-- a row that is already solved only has its two label columns refreshed -/
theorem validate_of_solved (m : Method) (c o : Bool) (msg : Option Str) (r : Row) (h : r.solved = true) :
    validate O m c o msg r =
      { r with carbon := (if c then labelOf O r.reaction else r.carbon), unbalance := verdictOf O r.reaction } := by
  unfold validate; simp [h]

theorem validate_solved_fields (m : Method) (c o : Bool) (msg : Option Str) (r : Row) (h : r.solved = true) :
    (validate O m c o msg r).reaction = r.reaction ∧ (validate O m c o msg r).solved = true ∧
    (validate O m c o msg r).solvedBy = r.solvedBy ∧ (validate O m c o msg r).issue = r.issue ∧
    (validate O m c o msg r).unbalance = verdictOf O r.reaction ∧
    (validate O m c o msg r).carbon = (if c then labelOf O r.reaction else r.carbon) := by
  rw [validate_of_solved O m c o msg r h]
  exact ⟨rfl, h, rfl, rfl, rfl, rfl⟩

/-- a row that becomes solved was found balanced by the comparator on its unchanged reaction -/
theorem validate_newly_solved (m : Method) (c o : Bool) (msg : Option Str) (r : Row)
    (h0 : r.solved = false) (h1 : (validate O m c o msg r).solved = true) :
    verdictOf O r.reaction = .balance ∧
    (if c then labelOf O r.reaction else r.carbon) = .balanced ∧
    (validate O m c o msg r).reaction = r.reaction ∧
    (validate O m c o msg r).solvedBy = some m ∧ (validate O m c o msg r).issue = r.issue ∧
    (validate O m c o msg r).unbalance = .balance := by
  unfold validate at h1 ⊢
  simp only [] at h1 ⊢
  by_cases hb : verdictOf O r.reaction = .balance ∧ (if c then labelOf O r.reaction else r.carbon) = .balanced
  · simp [hb, h0]
  · have : ¬ (verdictOf O r.reaction = .balance ∧ (if c = true then labelOf O r.reaction else r.carbon) = .balanced
        ∧ r.solved = false) := fun hh => hb ⟨hh.1, hh.2.1⟩
    simp only [this, if_false] at h1
    split at h1
    · split at h1 <;> simp_all
    · simp_all

/-- a row that stays unsolved: what the validator does to it -/
theorem validate_unsolved (m : Method) (c o : Bool) (msg : Option Str) (r : Row)
    (h1 : (validate O m c o msg r).solved = false) :
    r.solved = false ∧ (validate O m c o msg r).solvedBy = r.solvedBy ∧
    ¬ (verdictOf O r.reaction = .balance ∧ (if c then labelOf O r.reaction else r.carbon) = .balanced) ∧
    (o = true → (validate O m c o msg r).reaction = r.input) ∧
    (o = false → (validate O m c o msg r).reaction = r.reaction ∧ (validate O m c o msg r).issue = r.issue) ∧
    (validate O m c o msg r).carbon = (if c then labelOf O r.reaction else r.carbon) := by
  unfold validate at h1 ⊢
  simp only [] at h1 ⊢
  by_cases hb : verdictOf O r.reaction = .balance ∧ (if c then labelOf O r.reaction else r.carbon) = .balanced ∧
      r.solved = false
  · simp only [hb, and_self, if_true] at h1
    split at h1
    · rename_i hh; simp at hh
    · simp at h1
  · simp only [hb, if_false] at h1 ⊢
    have hs : r.solved = false := by
      split at h1
      · split at h1 <;> simp_all
      · simpa using h1
    refine ⟨hs, ?_, ?_, ?_, ?_, ?_⟩
    · split
      · split <;> rfl
      · rfl
    · intro hh; exact hb ⟨hh.1, hh.2, hs⟩
    · intro ho; subst ho
      simp only [hs, and_self, if_true]
      split <;> rfl
    · intro ho; subst ho; simp
    · split
      · split <;> rfl
      · rfl

/-! ### search, imputation, post-processing, revert, confidence -/

theorem searchStage_of_solved (r : Row) (h : r.solved = true) : searchStage O r = r := by
  unfold searchStage; simp [h]

theorem searchStage_fields (r : Row) :
    (searchStage O r).input = r.input ∧ (searchStage O r).reaction = r.reaction ∧
    (searchStage O r).solved = r.solved ∧ (searchStage O r).solvedBy = r.solvedBy ∧
    (searchStage O r).carbon = r.carbon ∧ (searchStage O r).uncurated = r.uncurated ∧
    (searchStage O r).rules = r.rules ∧ (searchStage O r).conf = r.conf := by
  unfold searchStage; repeat' split
  all_goals simp

theorem searchStage_unsolved (r : Row) (h : r.solved = false) :
    (searchStage O r).hasMcs = true ∧ (searchStage O r).issue.isSome = true ∧
    ((searchStage O r).mcsOk = false → (searchStage O r).issue = some noMcsIssue) := by
  unfold searchStage
  simp only [h, Bool.false_eq_true, if_false]
  split <;> simp

theorem imputeStage_fields (r : Row) :
    (imputeStage O r).1.input = r.input ∧ (imputeStage O r).1.solved = r.solved ∧
    (imputeStage O r).1.solvedBy = r.solvedBy ∧ (imputeStage O r).1.carbon = r.carbon ∧
    (imputeStage O r).1.uncurated = r.uncurated ∧ (imputeStage O r).1.hasMcs = r.hasMcs ∧
    (imputeStage O r).1.conf = r.conf ∧
    (r.issue.isSome = true → (imputeStage O r).1.issue.isSome = true) := by
  unfold imputeStage
  simp only []
  repeat' split
  all_goals simp_all

theorem imputeStage_no_mcs (r : Row) (h : r.hasMcs = false) : imputeStage O r = (r, false) := by
  unfold imputeStage; simp [h]

/-- the imputation either appends to the reaction (counted as solved by the stage) or leaves it unchanged -/
theorem imputeStage_reaction (r : Row) :
    ((imputeStage O r).2 = false → (imputeStage O r).1.reaction = r.reaction) ∧
    ((imputeStage O r).2 = true → (imputeStage O r).1.reaction = r.reaction ++ '.' :: O.merged ∧
        (imputeStage O r).1.issue = r.issue ∧ r.issue.getD [] = [] ∧ r.hasMcs = true ∧
        r.carbon ≠ .reactants) := by
  unfold imputeStage
  simp only []
  repeat' split
  all_goals simp_all

theorem postStage_fields (r : Row) :
    (postStage O r).input = r.input ∧ (postStage O r).solved = r.solved ∧
    (postStage O r).solvedBy = r.solvedBy ∧ (postStage O r).issue = r.issue ∧
    (postStage O r).carbon = r.carbon ∧ (postStage O r).hasMcs = r.hasMcs ∧
    (postStage O r).rules = r.rules ∧ (postStage O r).conf = r.conf := by
  unfold postStage; repeat' split
  all_goals simp

theorem postStage_cases (r : Row) (hu : r.uncurated = none) :
    ((postStage O r).uncurated = none ∧ (postStage O r).reaction = r.reaction) ∨
    ((postStage O r).uncurated = some r.reaction ∧ r.solvedBy.isSome = true ∧ r.solvedBy ≠ some .input) := by
  unfold postStage
  split
  · left; exact ⟨hu, rfl⟩
  · left; exact ⟨hu, rfl⟩
  · rename_i m hne1 hne2
    split
    · right
      refine ⟨rfl, by simp [hne2], ?_⟩
      intro h; rw [hne2] at h; cases h; exact hne1 rfl
    · left; exact ⟨hu, rfl⟩

theorem revertStage_fields (r : Row) :
    (revertStage r).input = r.input ∧ (revertStage r).solved = r.solved ∧
    (revertStage r).solvedBy = r.solvedBy ∧ (revertStage r).issue = r.issue ∧
    (revertStage r).carbon = r.carbon ∧ (revertStage r).unbalance = r.unbalance ∧
    (revertStage r).hasMcs = r.hasMcs ∧ (revertStage r).rules = r.rules ∧
    (revertStage r).conf = r.conf ∧ (revertStage r).uncurated = none := by
  unfold revertStage; repeat' split
  all_goals simp_all

theorem revertStage_none (r : Row) (h : r.uncurated = none) : revertStage r = r := by
  unfold revertStage; simp [h]

theorem confStage_fields (t : Nat) (r : Row) :
    (confStage O t r).input = r.input ∧ (confStage O t r).reaction = r.reaction ∧
    (confStage O t r).solvedBy = r.solvedBy ∧ (confStage O t r).rules = r.rules ∧
    ((confStage O t r).solved = true → r.solved = true) := by
  unfold confStage; repeat' split
  all_goals simp

theorem confStage_zero (r : Row) :
    (confStage O 0 r).solved = r.solved ∧ (confStage O 0 r).issue = r.issue := by
  unfold confStage; split <;> simp

/-! ### invariants of the stages before post-processing -/

/-- invariant of the row between the input check and the post-processing:
a solved row carries a reaction the comparator calls balanced, nothing was curated yet, and `solved_by` is set
exactly for solved rows -/
structure PreInv (r : Row) : Prop where
  bal : r.solved = true → verdictOf O r.reaction = .balance
  uncur : r.uncurated = none
  sb : r.solvedBy.isSome = r.solved

theorem preInv_validate {r : Row} (h : PreInv O r) (m : Method) (c o : Bool) (msg : Option Str) :
    PreInv O (validate O m c o msg r) := by
  cases hs : r.solved with
  | true =>
    obtain ⟨g1, g2, g3, _, _, _⟩ := validate_solved_fields O m c o msg r hs
    refine ⟨fun _ => by rw [g1]; exact h.bal hs, ?_, ?_⟩
    · rw [(validate_frame O m c o msg r).2.2.2.2]; exact h.uncur
    · rw [g2, g3, h.sb, hs]
  | false =>
    refine ⟨?_, ?_, ?_⟩
    · intro h1
      have := validate_newly_solved O m c o msg r hs h1
      rw [this.2.2.1]; exact this.1
    · rw [(validate_frame O m c o msg r).2.2.2.2]; exact h.uncur
    · cases h1 : (validate O m c o msg r).solved with
      | true => rw [(validate_newly_solved O m c o msg r hs h1).2.2.2.1]; rfl
      | false =>
        rw [(validate_unsolved O m c o msg r h1).2.1]
        have := h.sb; rw [hs] at this; exact this

theorem preInv_rbStage {r : Row} (h : PreInv O r) (cfg : Config) : PreInv O (rbStage O cfg r) := by
  obtain ⟨_, f2, f3, _, _, _, _, _, _, _, f11⟩ := rbStage_fields O cfg r
  refine ⟨?_, by rw [f11]; exact h.uncur, by rw [f2, f3]; exact h.sb⟩
  intro hs
  rw [f2] at hs
  rw [rbStage_balanced O cfg r (h.bal hs)]
  exact h.bal hs

theorem preInv_searchStage {r : Row} (h : PreInv O r) : PreInv O (searchStage O r) := by
  obtain ⟨_, f2, f3, f4, _, f6, _, _⟩ := searchStage_fields O r
  exact ⟨by rw [f2, f3]; exact h.bal, by rw [f6]; exact h.uncur, by rw [f3, f4]; exact h.sb⟩

theorem preInv_imputeStage {r : Row} (h : PreInv O r) (hm : r.solved = true → r.hasMcs = false) :
    PreInv O (imputeStage O r).1 := by
  obtain ⟨_, f2, f3, _, f5, _, _, _⟩ := imputeStage_fields O r
  refine ⟨?_, by rw [f5]; exact h.uncur, by rw [f2, f3]; exact h.sb⟩
  intro hs
  rw [f2] at hs
  rw [imputeStage_no_mcs O r (hm hs)]
  exact h.bal hs

/-! ### named intermediate rows of `preConf` -/

theorem preConf_eq (cfg : Config) (s : Str) : preConf O cfg s = revertStage (pc9 O cfg s) := rfl

theorem pc3_hasMcs (cfg : Config) (s : Str) : (pc3 O cfg s).hasMcs = false := by
  unfold pc3 pc2 pc1 pc0
  rw [(validate_frame O _ _ _ _ _).1, (rbStage_fields O _ _).2.2.2.2.2.2.1, (validate_frame O _ _ _ _ _).1]

theorem preInv_pc0 (s : Str) : PreInv O (pc0 s) := ⟨by simp [pc0], rfl, rfl⟩

theorem preInv_pc3 (cfg : Config) (s : Str) : PreInv O (pc3 O cfg s) :=
  preInv_validate O (preInv_rbStage O (preInv_validate O (preInv_pc0 O s) _ _ _ _) cfg) _ _ _ _

theorem pc4_solved_noMcs (cfg : Config) (s : Str) (h : (pc4 O cfg s).solved = true) :
    (pc4 O cfg s).hasMcs = false := by
  unfold pc4 at h ⊢
  have hs : (pc3 O cfg s).solved = true := by rw [← (searchStage_fields O _).2.2.1]; exact h
  rw [searchStage_of_solved O _ hs]; exact pc3_hasMcs O cfg s

theorem preInv_pc6 (cfg : Config) (s : Str) : PreInv O (pc6 O cfg s) :=
  preInv_validate O
    (preInv_imputeStage O (preInv_searchStage O (preInv_pc3 O cfg s)) (pc4_solved_noMcs O cfg s)) _ _ _ _

/-- invariant from post-processing to the end -/
structure PostInv (r : Row) : Prop where
  ub : ∀ u, r.uncurated = some u → verdictOf O u = .balance
  bal : r.solved = true → r.uncurated = none → verdictOf O r.reaction = .balance

theorem postInv_pc7 (cfg : Config) (s : Str) : PostInv O (pc7 O cfg s) := by
  have h6 := preInv_pc6 O cfg s
  unfold pc7
  rcases postStage_cases O (pc6 O cfg s) h6.uncur with ⟨hu, hr⟩ | ⟨hu, hsb, _⟩
  · refine ⟨fun u h => (by rw [hu] at h; cases h), ?_⟩
    intro hs _
    rw [hr]; rw [(postStage_fields O _).2.1] at hs; exact h6.bal hs
  · refine ⟨?_, fun _ h => (by rw [hu] at h; cases h)⟩
    intro u h
    rw [hu] at h; cases h
    exact h6.bal (by rw [← h6.sb]; exact hsb)

theorem postInv_pc8 (cfg : Config) (s : Str) : PostInv O (pc8 O cfg s) := by
  have h7 := postInv_pc7 O cfg s
  unfold pc8
  obtain ⟨_, f2, _, _, _, _, _, _, _, _, f11⟩ := rbStage_fields O cfg (pc7 O cfg s)
  refine ⟨fun u h => h7.ub u (by rw [← f11]; exact h), ?_⟩
  intro hs hu
  rw [f2] at hs; rw [f11] at hu
  rw [rbStage_balanced O cfg _ (h7.bal hs hu)]
  exact h7.bal hs hu

/-- at the final validator: the invariant, and the fresh `unbalance` column describes the reaction of a solved row -/
theorem postInv_pc9 (cfg : Config) (s : Str) :
    PostInv O (pc9 O cfg s) ∧
    ((pc9 O cfg s).solved = true → (pc9 O cfg s).unbalance = verdictOf O (pc9 O cfg s).reaction) := by
  have h8 := postInv_pc8 O cfg s
  unfold pc9
  cases hs : (pc8 O cfg s).solved with
  | true =>
    have hu : (validate O .mcs true true (some finalMsg) (pc8 O cfg s)).uncurated = (pc8 O cfg s).uncurated :=
      (validate_frame O _ _ _ _ _).2.2.2.2
    obtain ⟨g1, _, _, _, g5, _⟩ := validate_solved_fields O .mcs true true (some finalMsg) _ hs
    refine ⟨⟨fun u h => h8.ub u (by rw [← hu]; exact h), ?_⟩, ?_⟩
    · intro _ hn
      rw [g1]; exact h8.bal hs (by rw [← hu]; exact hn)
    · intro _; rw [g5, g1]
  | false =>
    have hu : (validate O .mcs true true (some finalMsg) (pc8 O cfg s)).uncurated = (pc8 O cfg s).uncurated :=
      (validate_frame O _ _ _ _ _).2.2.2.2
    refine ⟨⟨fun u h => h8.ub u (by rw [← hu]; exact h), ?_⟩, ?_⟩
    · intro h1 _
      have := validate_newly_solved O _ _ _ _ _ hs h1
      rw [this.2.2.1]; exact this.1
    · intro h1
      have := validate_newly_solved O _ _ _ _ _ hs h1
      rw [this.2.2.2.2.2, this.2.2.1, this.1]

/-- **every solved row carries a reaction the comparator calls balanced** — for every oracle -/
theorem solved_is_balanced (cfg : Config) (s : Str) (h : (runRow O cfg s).solved = true) :
    verdictOf O (runRow O cfg s).reaction = .balance := by
  unfold runRow at h ⊢
  obtain ⟨_, f2, _, _, f5⟩ := confStage_fields O cfg.threshold (preConf O cfg s)
  rw [f2]
  have hs := f5 h
  rw [preConf_eq] at hs ⊢
  obtain ⟨h9, hfin⟩ := postInv_pc9 O cfg s
  have hs9 : (pc9 O cfg s).solved = true := by rw [← (revertStage_fields _).2.1]; exact hs
  cases hu : (pc9 O cfg s).uncurated with
  | none => rw [revertStage_none _ hu]; exact h9.bal hs9 hu
  | some u =>
    unfold revertStage
    simp only [hu]
    split
    · rename_i hb
      simp only []
      rw [← hfin hs9]; exact hb.1
    · exact h9.ub u hu

end SynRBL
