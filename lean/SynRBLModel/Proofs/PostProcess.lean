import SynRBLModel.Proofs.Containment
import SynRBLModel.Model.PostProcess
/-!
# Reagent post-processing only appends: a curated reaction still extends the input
-/
namespace SynRBL.PP
open Str

/-! ### `split` / `join` -/

theorem extendLoop_eq (n : Nat) (xs add : List Str) :
    extendLoop n xs add = xs ++ (List.replicate n add).flatten := by
  induction n generalizing xs with
  | zero => simp [extendLoop]
  | succ k ih => rw [extendLoop, ih]; simp [List.replicate_succ]

theorem joinWith_cons_cons (c : Char) (t t' : Str) (ts : List Str) :
    joinWith c (t :: t' :: ts) = t ++ c :: joinWith c (t' :: ts) := rfl

theorem joinWith_cons_ne (c : Char) (t : Str) (ts : List Str) (h : ts ≠ []) :
    joinWith c (t :: ts) = t ++ c :: joinWith c ts := by
  cases ts with
  | nil => exact absurd rfl h
  | cons t' ts' => rfl

/-- `c.join(s.split(c)) == s` -/
theorem joinWith_splitOn (c : Char) (s : Str) : joinWith c (splitOn c s) = s := by
  induction s with
  | nil => rfl
  | cons x xs ih =>
    by_cases hx : x = c
    · subst hx
      rw [splitOn_cons_eq, joinWith_cons_ne _ _ _ (splitOn_ne_nil _ _), ih]; rfl
    · rw [splitOn_cons_ne c x xs hx]
      cases hs : splitOn c xs with
      | nil => exact absurd hs (splitOn_ne_nil _ _)
      | cons t ts =>
        rw [hs] at ih
        cases ts with
        | nil => simp only [consHead, joinWith] at ih ⊢; rw [ih]
        | cons t' ts' =>
          simp only [consHead, joinWith_cons_cons] at ih ⊢
          rw [← ih]; rfl

/-- what follows the given text when more tokens are joined behind it -/
def dotTail (c : Char) : List Str → Str
  | [] => []
  | t :: ts => c :: joinWith c (t :: ts)

theorem joinWith_append (c : Char) (xs ys : List Str) (hx : xs ≠ []) :
    joinWith c (xs ++ ys) = joinWith c xs ++ dotTail c ys := by
  induction xs with
  | nil => exact absurd rfl hx
  | cons x xs ih =>
    cases xs with
    | nil =>
      cases ys with
      | nil => simp [joinWith, dotTail]
      | cons y ys => simp [joinWith, dotTail]
    | cons x' xs' =>
      have := ih (by simp)
      simp only [List.cons_append, joinWith_cons_cons] at this ⊢
      rw [this]; simp

/-- joining after the last token of a list has been extended: the old text stays in front -/
theorem joinWith_snoc_ext (c : Char) (init : List Str) (last x0 : Str) (rest : List Str) :
    joinWith c (init ++ (last ++ x0) :: rest) = joinWith c (init ++ [last]) ++ (x0 ++ dotTail c rest) := by
  induction init with
  | nil =>
    cases rest with
    | nil => simp [joinWith, dotTail]
    | cons r rs => simp [joinWith, dotTail]
  | cons i is ih =>
    have h1 : is ++ (last ++ x0) :: rest ≠ [] := by simp
    have h2 : is ++ [last] ≠ [] := by simp
    rw [List.cons_append, List.cons_append, joinWith_cons_ne _ _ _ h1, joinWith_cons_ne _ _ _ h2, ih]
    simp

/-- the tokens of `a ++ x`: the last token of `a` and the first token of `x` fuse, all others are kept -/
theorem splitOn_append_form (c : Char) (a : Str) :
    ∃ init last, splitOn c a = init ++ [last] ∧
      ∀ x, ∃ x0 xs, splitOn c x = x0 :: xs ∧ splitOn c (a ++ x) = init ++ (last ++ x0) :: xs := by
  induction a with
  | nil =>
    refine ⟨[], [], rfl, fun x => ?_⟩
    cases hs : splitOn c x with
    | nil => exact absurd hs (splitOn_ne_nil _ _)
    | cons x0 xs => exact ⟨x0, xs, rfl, by simp [hs]⟩
  | cons y ys ih =>
    obtain ⟨init, last, e, hx⟩ := ih
    by_cases hy : y = c
    · subst hy
      refine ⟨[] :: init, last, by rw [splitOn_cons_eq, e]; rfl, fun x => ?_⟩
      obtain ⟨x0, xs, e1, e2⟩ := hx x
      exact ⟨x0, xs, e1, by rw [List.cons_append, splitOn_cons_eq, e2]; rfl⟩
    · cases init with
      | nil =>
        refine ⟨[], y :: last, by rw [splitOn_cons_ne c y ys hy, e]; rfl, fun x => ?_⟩
        obtain ⟨x0, xs, e1, e2⟩ := hx x
        exact ⟨x0, xs, e1, by rw [List.cons_append, splitOn_cons_ne c y _ hy, e2]; rfl⟩
      | cons i is =>
        refine ⟨(y :: i) :: is, last, by rw [splitOn_cons_ne c y ys hy, e]; rfl, fun x => ?_⟩
        obtain ⟨x0, xs, e1, e2⟩ := hx x
        exact ⟨x0, xs, e1, by rw [List.cons_append, splitOn_cons_ne c y _ hy, e2]; rfl⟩

/-- every character of a token is a character of the string -/
theorem mem_of_mem_splitOn (c : Char) (s : Str) : ∀ t ∈ splitOn c s, ∀ ch ∈ t, ch ∈ s := by
  induction s with
  | nil => intro t ht ch hch; simp [splitOn] at ht; subst ht; cases hch
  | cons x xs ih =>
    intro t ht ch hch
    by_cases hx : x = c
    · subst hx
      rw [splitOn_cons_eq] at ht
      rcases List.mem_cons.1 ht with h | h
      · subst h; cases hch
      · exact List.mem_cons_of_mem _ (ih t h ch hch)
    · rw [splitOn_cons_ne c x xs hx] at ht
      cases hs : splitOn c xs with
      | nil => exact absurd hs (splitOn_ne_nil _ _)
      | cons t0 ts =>
        rw [hs] at ht ih
        simp only [consHead, List.mem_cons] at ht
        rcases ht with h | h
        · subst h
          rcases List.mem_cons.1 hch with h' | h'
          · rw [h']; exact List.mem_cons_self ..
          · exact List.mem_cons_of_mem _ (ih t0 (List.mem_cons_self ..) ch h')
        · exact List.mem_cons_of_mem _ (ih t (List.mem_cons_of_mem _ h) ch hch)

theorem noGt_of_mem_splitOn (c : Char) (s : Str) (hs : NoGt s) (t : Str) (ht : t ∈ splitOn c s) : NoGt t :=
  fun h => hs (mem_of_mem_splitOn c s t ht _ h)

/-- a token never contains the separator -/
theorem sep_not_mem_splitOn (c : Char) (s : Str) : ∀ t ∈ splitOn c s, c ∉ t := by
  induction s with
  | nil => intro t ht; simp [splitOn] at ht; subst ht; simp
  | cons x xs ih =>
    intro t ht
    by_cases hx : x = c
    · subst hx
      rw [splitOn_cons_eq] at ht
      rcases List.mem_cons.1 ht with h | h
      · subst h; simp
      · exact ih t h
    · rw [splitOn_cons_ne c x xs hx] at ht
      cases hs : splitOn c xs with
      | nil => exact absurd hs (splitOn_ne_nil _ _)
      | cons t0 ts =>
        rw [hs] at ht ih
        simp only [consHead, List.mem_cons] at ht
        rcases ht with h | h
        · subst h
          intro hm
          rcases List.mem_cons.1 hm with h' | h'
          · exact hx h'.symm
          · exact ih t0 (List.mem_cons_self ..) h'
        · exact ih t (List.mem_cons_of_mem _ h)

/-- `c.join(ts).split(c) == ts` for a non-empty list of separator-free tokens -/
theorem splitOn_joinWith (c : Char) (ts : List Str) (hne : ts ≠ []) (h : ∀ t ∈ ts, c ∉ t) :
    splitOn c (joinWith c ts) = ts := by
  induction ts with
  | nil => exact absurd rfl hne
  | cons t ts ih =>
    have hsingle : ∀ t : Str, c ∉ t → splitOn c t = [t] := by
      intro t ht
      induction t with
      | nil => rfl
      | cons y ys ihy =>
        have hy : y ≠ c := fun e => ht (by rw [e]; exact List.mem_cons_self ..)
        rw [splitOn_cons_ne c y ys hy, ihy (fun hh => ht (List.mem_cons_of_mem _ hh))]; rfl
    cases ts with
    | nil => simpa [joinWith] using hsingle t (h t (List.mem_cons_self ..))
    | cons t' ts' =>
      rw [joinWith_cons_cons]
      have hrest := ih (by simp) (fun x hx => h x (List.mem_cons_of_mem _ hx))
      have ht := h t (List.mem_cons_self ..)
      -- split `t ++ c :: rest` with `t` free of `c`
      have key : ∀ (u : Str), c ∉ u → ∀ rest, splitOn c (u ++ c :: rest) = u :: splitOn c rest := by
        intro u hu rest
        induction u with
        | nil => exact splitOn_cons_eq c rest
        | cons y ys ihy =>
          have hy : y ≠ c := fun e => hu (by rw [e]; exact List.mem_cons_self ..)
          rw [List.cons_append, splitOn_cons_ne c y _ hy, ihy (fun hh => hu (List.mem_cons_of_mem _ hh))]; rfl
      rw [key t ht, hrest]

/-! ### the component filter keeps a safe given side in front -/

/-- no token of `a` but the last equals the placeholder, and the last token of `a` is not a prefix of it
(so no text appended behind `a` can complete it to the placeholder).  Every parsable side without a free `[O]`/`[H]`
token satisfies this: a last token `""`, `"["`, `"[O"`, `"[H"` does not parse. -/
def safeFor (ph a : Str) : Bool :=
  !((splitOn '.' a).dropLast.contains ph) && !((splitOn '.' a).getLast?.any fun l => l.isPrefixOf ph)

/-- the precondition of the containment property on the given reactant side: no free atomic placeholder -/
def safeSide (a : Str) : Bool := safeFor phO a && safeFor phH a

theorem safeFor_spec {ph a : Str} (h : safeFor ph a = true) {init : List Str} {last : Str}
    (e : splitOn '.' a = init ++ [last]) : ph ∉ init ∧ ∀ x0, last ++ x0 ≠ ph := by
  unfold safeFor at h
  rw [e] at h
  simp only [List.dropLast_concat, List.getLast?_concat, Option.any_some, Bool.and_eq_true, Bool.not_eq_true',
    List.contains_eq_mem, decide_eq_false_iff_not] at h
  refine ⟨h.1, fun x0 hx => ?_⟩
  have : last.isPrefixOf ph = true := by
    rw [List.isPrefixOf_iff_prefix]; exact ⟨x0, hx⟩
  rw [this] at h
  exact absurd h.2 (by simp)

theorem filter_ne_of_not_mem (ph : Str) (xs : List Str) (h : ph ∉ xs) :
    xs.filter (fun x => decide (x ≠ ph)) = xs := by
  rw [List.filter_eq_self]
  intro x hx
  simp only [ne_eq, decide_not, Bool.not_eq_true', decide_eq_false_iff_not]
  intro e; exact h (e ▸ hx)

/-- the filtered and extended reactant tokens, joined: the given side `a` is kept verbatim in front -/
theorem filter_join_keeps_prefix (ph a ra : Str) (hs : safeFor ph a = true) (hra : NoGt ra)
    (added : List Str) (hadd : ∀ t ∈ added, NoGt t) :
    ∃ x, joinWith '.' ((splitOn '.' (a ++ ra)).filter (fun x => decide (x ≠ ph)) ++ added) = a ++ x ∧ NoGt x := by
  obtain ⟨init, last, e, hx⟩ := splitOn_append_form '.' a
  obtain ⟨x0, xs, e1, e2⟩ := hx ra
  obtain ⟨hinit, hlast⟩ := safeFor_spec hs e
  have ha : joinWith '.' (init ++ [last]) = a := by rw [← e]; exact joinWith_splitOn '.' a
  have hx0 : NoGt x0 := noGt_of_mem_splitOn '.' ra hra x0 (by rw [e1]; exact List.mem_cons_self ..)
  have hxs : ∀ t ∈ xs, NoGt t := fun t ht => noGt_of_mem_splitOn '.' ra hra t (by rw [e1]; exact List.mem_cons_of_mem _ ht)
  rw [e2, List.filter_append, filter_ne_of_not_mem ph init hinit, List.filter_cons]
  have hk : decide (last ++ x0 ≠ ph) = true := by simpa using hlast x0
  rw [if_pos hk, List.append_assoc, List.cons_append, joinWith_snoc_ext, ha]
  refine ⟨_, rfl, NoGt.append hx0 ?_⟩
  have hrest : ∀ t ∈ xs.filter (fun x => decide (x ≠ ph)) ++ added, NoGt t := by
    intro t ht
    rcases List.mem_append.1 ht with h | h
    · exact hxs t (List.mem_filter.1 h).1
    · exact hadd t h
  cases hr : xs.filter (fun x => decide (x ≠ ph)) ++ added with
  | nil => simp [dotTail, NoGt]
  | cons r rs =>
    rw [hr] at hrest
    exact NoGt.cons (by decide) (noGt_joinWith_dot _ hrest)

/-- the extended product tokens, joined: the given side is kept verbatim in front -/
theorem join_keeps_prefix (p : Str) (added : List Str) (hadd : ∀ t ∈ added, NoGt t) :
    ∃ y, joinWith '.' (splitOn '.' p ++ added) = p ++ y ∧ NoGt y := by
  rw [joinWith_append _ _ _ (splitOn_ne_nil _ _), joinWith_splitOn]
  refine ⟨_, rfl, ?_⟩
  cases added with
  | nil => simp [dotTail, NoGt]
  | cons r rs => exact NoGt.cons (by decide) (noGt_joinWith_dot _ hadd)

/-- **the curated reaction of the template branches extends the input** -/
theorem mkReaction_ext (ph a b ra pa : Str) (hs : safeFor ph a = true) (hra : NoGt ra) (hpa : NoGt pa)
    (addR addP : List Str) (hR : ∀ t ∈ addR, NoGt t) (hP : ∀ t ∈ addP, NoGt t) :
    Ext a b (mkReaction ((splitOn '.' (a ++ ra)).filter (fun x => decide (x ≠ ph)) ++ addR)
      (splitOn '.' (b ++ pa) ++ addP)) := by
  obtain ⟨x, ex, nx⟩ := filter_join_keeps_prefix ph a ra hs hra addR hR
  obtain ⟨y, ey, ny⟩ := join_keeps_prefix (b ++ pa) addP hP
  refine ⟨x, pa ++ y, ?_, nx, NoGt.append hpa ny⟩
  unfold mkReaction
  rw [ex, ey]; simp

/-! ### template tokens -/

theorem mem_of_lookup {α} (k : String) (l : List (String × α)) (v : α) (h : l.lookup k = some v) : (k, v) ∈ l := by
  induction l with
  | nil => simp at h
  | cons kv rest ih =>
    obtain ⟨k', v'⟩ := kv
    simp only [List.lookup] at h
    split at h
    · rename_i heq
      simp only [Option.some.injEq] at h
      have : k = k' := by simpa using heq
      subst this; subst h; exact List.mem_cons_self ..
    · exact List.mem_cons_of_mem _ (ih h)

theorem noGt_of_contains (s : String) (h : (!(str s).contains '>') = true) : NoGt (str s) := by
  simpa [NoGt] using h

/-- tokens appended by a template of a `>`-free table are `>`-free -/
theorem template_tokens_noGt (T : Tables) (hT : T.noGt = true) (name : String) (t : Template)
    (hm : (name, t) ∈ T.oxTemplates ++ T.redTemplates) (n : Nat) :
    (∀ x ∈ (List.replicate n (toks t.reactants)).flatten, NoGt x) ∧
    (∀ x ∈ (List.replicate n (toks t.products)).flatten, NoGt x) := by
  unfold Tables.noGt at hT
  rw [List.all_eq_true] at hT
  have h1 := hT (name, t) hm
  rw [List.all_eq_true] at h1
  constructor <;>
  · intro x hx
    simp only [List.mem_flatten, List.mem_replicate] at hx
    obtain ⟨l, ⟨_, rfl⟩, hxl⟩ := hx
    unfold toks at hxl
    obtain ⟨s, hs, rfl⟩ := List.mem_map.1 hxl
    exact noGt_of_contains s (h1 s (by simp [hs]))

/-! ### the curation functions -/

/-- shape of a successful oxidation curation -/
theorem curateOx_written (T : Tables) (P : PPOracle) (r p c : Str) (hr : NoGt r) (hp : NoGt p)
    (h : curateOx T P (r ++ str ">>" ++ p) = .written c) :
    c = r ++ str ">>" ++ p ∨
    ∃ name t n, (name, t) ∈ T.oxTemplates ∧ 1 ≤ n ∧ (P.count 8 r = some n ∨ n = 1) ∧
      c = mkReaction ((splitOn '.' r).filter (fun x => decide (x ≠ phO)) ++ (List.replicate n (toks t.reactants)).flatten)
        (splitOn '.' p ++ (List.replicate n (toks t.products)).flatten) := by
  unfold curateOx at h
  rw [splitArrow_mk r p hr hp] at h
  split at h
  · cases h
  · split at h
    · cases h; exact Or.inl rfl
    · split at h
      · cases h
      · dsimp only at h
        split at h
        · cases h
        · rename_i n hn
          split at h
          · cases h; exact Or.inl rfl
          · rename_i temp more _
            split at h
            · split at h
              · cases h
              · rename_i hn0
                split at h
                · cases h
                · rename_i t ht
                  split at h
                  · cases h
                    refine Or.inr ⟨temp, t, n, mem_of_lookup _ _ _ ht, Nat.pos_of_ne_zero hn0, Or.inl hn, ?_⟩
                    rw [extendLoop_eq, extendLoop_eq]
                  · cases h
            · split at h
              · split at h
                · cases h
                · rename_i t ht
                  split at h
                  · cases h
                    refine Or.inr ⟨temp, t, 1, mem_of_lookup _ _ _ ht, Nat.le_refl _, Or.inr rfl, ?_⟩
                    simp [List.replicate]
                  · cases h
              · cases h; exact Or.inl rfl

theorem curateRedCore_written (T : Tables) (P : PPOracle) (r p c : Str) (hr : NoGt r) (hp : NoGt p)
    (hasPattern : Bool) (temps : List String)
    (h : curateRedCore T P (r ++ str ">>" ++ p) hasPattern temps = .written c) :
    c = r ++ str ">>" ++ p ∨
    ∃ name t n, (name, t) ∈ T.redTemplates ∧ 1 ≤ n ∧ P.count 1 r = some (2 * n) ∧
      c = mkReaction ((splitOn '.' r).filter (fun x => decide (x ≠ phH)) ++ (List.replicate n (toks t.reactants)).flatten)
        (splitOn '.' p ++ (List.replicate n (toks t.products)).flatten) := by
  unfold curateRedCore at h
  rw [splitArrow_mk r p hr hp] at h
  split at h
  · cases h; exact Or.inl rfl
  · dsimp only at h
    split at h
    · cases h
    · rename_i hcnt hh
      split at h
      · cases h; exact Or.inl rfl
      · rename_i heven
        split at h
        · cases h
        · rename_i hpos
          split at h
          · cases h
          · cases temps with
            | nil => cases h
            | cons name rest =>
              dsimp only at h
              split at h
              · cases h
              · rename_i t ht
                cases h
                refine Or.inr ⟨name, t, hcnt / 2, mem_of_lookup _ _ _ ht, Nat.pos_of_ne_zero hpos, ?_, ?_⟩
                · rw [hh]; congr 1; omega
                · rw [extendLoop_eq, extendLoop_eq]

/-- shape of a successful reduction curation -/
theorem curateRed_written (T : Tables) (P : PPOracle) (r p c : Str) (hr : NoGt r) (hp : NoGt p)
    (h : curateRed T P (r ++ str ">>" ++ p) = .written c) :
    c = r ++ str ">>" ++ p ∨
    ∃ name t n, (name, t) ∈ T.redTemplates ∧ 1 ≤ n ∧ P.count 1 r = some (2 * n) ∧
      c = mkReaction ((splitOn '.' r).filter (fun x => decide (x ≠ phH)) ++ (List.replicate n (toks t.reactants)).flatten)
        (splitOn '.' p ++ (List.replicate n (toks t.products)).flatten) := by
  unfold curateRed at h
  split at h
  · cases h
  · split at h
    · cases h
    · split at h
      · exact curateRedCore_written T P r p c hr hp _ _ h
      · exact curateRedCore_written T P r p c hr hp _ _ h

/-- shape of what `__post_process` writes back: the reaction itself, or the reactant tokens without the tokens equal to
the placeholder followed by `n` copies of a template's reactants, and the product tokens followed by `n` copies of
its products -/
theorem curate_written (T : Tables) (P : PPOracle) (r p c : Str) (hr : NoGt r) (hp : NoGt p)
    (h : curate T P (r ++ str ">>" ++ p) = some c) :
    c = r ++ str ">>" ++ p ∨
    ∃ ph name t n,
      ((ph = phO ∧ (name, t) ∈ T.oxTemplates ∧ (P.count 8 r = some n ∨ n = 1)) ∨
       (ph = phH ∧ (name, t) ∈ T.redTemplates ∧ P.count 1 r = some (2 * n))) ∧ 1 ≤ n ∧
      c = mkReaction ((splitOn '.' r).filter (fun x => decide (x ≠ ph)) ++ (List.replicate n (toks t.reactants)).flatten)
        (splitOn '.' p ++ (List.replicate n (toks t.products)).flatten) := by
  unfold curate at h
  split at h
  · rename_i c' hc
    cases h
    unfold curateR at hc
    split at hc
    · cases hc
    · rcases curateOx_written T P r p c hr hp hc with h1 | ⟨name, t, n, hm, hn, hcnt, e⟩
      · exact Or.inl h1
      · exact Or.inr ⟨phO, name, t, n, Or.inl ⟨rfl, hm, hcnt⟩, hn, e⟩
    · rcases curateRed_written T P r p c hr hp hc with h1 | ⟨name, t, n, hm, hn, hcnt, e⟩
      · exact Or.inl h1
      · exact Or.inr ⟨phH, name, t, n, Or.inr ⟨rfl, hm, hcnt⟩, hn, e⟩
  · cases h

/-- **a curated reaction still extends the input** (the former oracle law `ContainLaws.curate`) -/
theorem curate_ext (T : Tables) (hT : T.noGt = true) (P : PPOracle) (a b : Str) (ha : NoGt a) (hb : NoGt b)
    (hs : safeSide a = true) (s c : Str) (hE : Ext a b s) (h : curate T P s = some c) : Ext a b c := by
  obtain ⟨ra, pa, e, hra, hpa⟩ := hE
  subst e
  unfold safeSide at hs
  rw [Bool.and_eq_true] at hs
  rcases curate_written T P (a ++ ra) (b ++ pa) c (NoGt.append ha hra) (NoGt.append hb hpa) h with
    h1 | ⟨ph, name, t, n, hk, _, e⟩
  · rw [h1]; exact ⟨ra, pa, rfl, hra, hpa⟩
  · rw [e]
    rcases hk with ⟨rfl, hm, _⟩ | ⟨rfl, hm, _⟩
    · obtain ⟨h1, h2⟩ := template_tokens_noGt T hT name t (List.mem_append_left _ hm) n
      exact mkReaction_ext phO a b ra pa hs.1 hra hpa _ _ h1 h2
    · obtain ⟨h1, h2⟩ := template_tokens_noGt T hT name t (List.mem_append_right _ hm) n
      exact mkReaction_ext phH a b ra pa hs.2 hra hpa _ _ h1 h2

/-! ### when does the curation raise? -/

theorem wellFormed_spec (T : Tables) (hw : T.wellFormed = true) :
    (T.oxCompounds.lookup "other").isSome = true ∧ (T.redCompounds.lookup "other").isSome = true ∧
    (∀ kv ∈ T.oxCompounds, kv.2.length ≤ 1 ∧ ∀ n ∈ kv.2, (T.oxTemplates.lookup n).isSome = true) ∧
    (∀ kv ∈ T.redCompounds, ∀ n ∈ kv.2, (T.redTemplates.lookup n).isSome = true) := by
  unfold Tables.wellFormed at hw
  simp only [Bool.and_eq_true, List.all_eq_true, decide_eq_true_eq] at hw
  exact ⟨hw.1.1.1, hw.1.1.2, hw.1.2, hw.2⟩

/-- the template list chosen for a pattern is one of the table's entries -/
theorem getD_lookup_mem {α} (l : List (String × α)) (cp : String) (other : α) (ho : l.lookup "other" = some other) :
    ∃ k, (k, (l.lookup cp).getD other) ∈ l := by
  cases h : l.lookup cp with
  | none => exact ⟨"other", by simpa using mem_of_lookup _ _ _ ho⟩
  | some v => exact ⟨cp, by simpa using mem_of_lookup _ _ _ h⟩

theorem curateOx_no_raise (T : Tables) (hw : T.wellFormed = true) (P : PPOracle) (r p : Str) (hr : NoGt r) (hp : NoGt p)
    (hfg : (P.fg (r ++ str ">>" ++ p)).isSome = true) (n : Nat) (hc : P.count 8 r = some n) (hn : n ≠ 0) (why : String) :
    curateOx T P (r ++ str ">>" ++ p) ≠ .raises why := by
  obtain ⟨ho, _, hox, _⟩ := wellFormed_spec T hw
  unfold curateOx
  rw [splitArrow_mk r p hr hp]
  split
  · rename_i h; rw [h] at hfg; cases hfg
  · split
    · simp
    · split
      · rename_i h; rw [h] at ho; cases ho
      · rename_i cp _ _ other hoth
        dsimp only
        rw [hc]
        dsimp only
        obtain ⟨k, hk⟩ := getD_lookup_mem T.oxCompounds cp other hoth
        obtain ⟨hlen, hres⟩ := hox _ hk
        cases hts : (List.lookup cp T.oxCompounds).getD other with
        | nil => simp
        | cons temp more =>
          rw [hts] at hlen hres
          have hmore : more = [] := by
            cases more with
            | nil => rfl
            | cons _ _ => simp at hlen
          have hlk := hres temp (List.mem_cons_self ..)
          subst hmore
          cases hl : List.lookup temp T.oxTemplates with
          | none => rw [hl] at hlk; cases hlk
          | some t =>
            by_cases h2 : cp = oncePattern
            · subst h2
              have hnot : oncePattern ∉ perAtomPatterns := by decide
              simp [hnot, hl]
            · by_cases h1 : cp ∈ perAtomPatterns <;> simp [h1, h2, hn, hl]

theorem curateRedCore_no_raise (T : Tables) (P : PPOracle) (r p : Str) (hr : NoGt r) (hp : NoGt p)
    (hasPattern : Bool) (temps : List String) (ht : ∀ n ∈ temps, (T.redTemplates.lookup n).isSome = true)
    (hc : (P.count 1 r).isSome = true) (why : String) :
    curateRedCore T P (r ++ str ">>" ++ p) hasPattern temps ≠ .raises why := by
  unfold curateRedCore
  rw [splitArrow_mk r p hr hp]
  split
  · simp
  · dsimp only
    split
    · rename_i h; rw [h] at hc; cases hc
    · split
      · simp
      · split
        · simp
        · split
          · rename_i h
            rw [List.any_eq_true] at h
            obtain ⟨x, hx, hxn⟩ := h
            have := ht x hx
            cases hl : List.lookup x T.redTemplates with
            | none => rw [hl] at this; cases this
            | some t => rw [hl] at hxn; cases hxn
          · cases temps with
            | nil => simp
            | cons name rest =>
              dsimp only
              split
              · rename_i h
                have := ht name (List.mem_cons_self ..)
                rw [h] at this; cases this
              · simp

theorem curateRed_no_raise (T : Tables) (hw : T.wellFormed = true) (P : PPOracle) (r p : Str) (hr : NoGt r) (hp : NoGt p)
    (hfg : (P.fg (r ++ str ">>" ++ p)).isSome = true) (hc : (P.count 1 r).isSome = true) (why : String) :
    curateRed T P (r ++ str ">>" ++ p) ≠ .raises why := by
  obtain ⟨_, ho, _, hred⟩ := wellFormed_spec T hw
  unfold curateRed
  split
  · rename_i h; rw [h] at hfg; cases hfg
  · split
    · rename_i h; rw [h] at ho; cases ho
    · rename_i other hoth
      split
      · rename_i cp _
        obtain ⟨k, hk⟩ := getD_lookup_mem T.redCompounds cp other hoth
        exact curateRedCore_no_raise T P r p hr hp _ _ (hred _ hk) hc why
      · exact curateRedCore_no_raise T P r p hr hp _ _ (hred _ (mem_of_lookup _ _ _ hoth)) hc why

end SynRBL.PP
