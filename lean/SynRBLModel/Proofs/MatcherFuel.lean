import SynRBLModel.Proofs.Matcher
/-!
# The depth-first matcher terminates on a good database: the fuel of the model is irrelevant

`SyntheticRuleMatcher.dfs` (Python) has no recursion bound; the model `dfs` carries a fuel argument and `matchAll`
starts it with `weight (prepData d) + 2`.  This file shows that on a good rule database (`goodDB`) every rule application
strictly decreases the number of atoms left in the imbalance (`elemWeight`, the charge key `"Q"` not counted), hence

* the result of `dfs` does not depend on the fuel once `fuel ≥ elemWeight d + 1` (`dfs_fuel_irrelevant`),
* the fuel-free function `dfsStar` satisfies the *unfuelled* recursion equation of the Python code (`dfsStar_unfold`),
* the fuel used by `matchAll` is adequate (`matchAll_fuel_adequate`),
* the recursion depth is bounded by the number of atoms (`dfs_depth_bound`),

and that goodness is needed: with a zero-count rule the number of solutions grows with the fuel for ever
(`zeroRule_never_stabilises`), with a negative count the imbalance grows (`negRule_increases`), and a rule without an
element key makes `min()` fail (`ratioOf_onlyQ`).
-/
namespace SynRBL
open Dict

/-- number of atoms in an imbalance: `Σ |v|` over the non-charge entries -/
def elemWeight (d : Dict) : Nat := ((d.filter fun kv => kv.1 != "Q").map fun kv => kv.2.natAbs).sum

@[simp] theorem elemWeight_nil : elemWeight [] = 0 := rfl

theorem elemWeight_cons (k : Key) (v : Int) (t : Dict) :
    elemWeight ((k, v) :: t) = (if k = "Q" then 0 else v.natAbs) + elemWeight t := by
  unfold elemWeight
  by_cases h : k = "Q" <;> simp [h]

theorem elemWeight_le_weight (d : Dict) : elemWeight d ≤ weight d := by
  induction d with
  | nil => simp [weight]
  | cons a t ih =>
    obtain ⟨k, v⟩ := a
    rw [elemWeight_cons]
    simp only [weight, List.map_cons, List.sum_cons] at *
    split <;> omega

/-! ### the effect of `erase`, `set`, `subStep` on the atom count -/

theorem elemWeight_erase (d : Dict) (k : Key) (hk : k ≠ "Q") :
    elemWeight (d.erase k) + (d.val k).natAbs = elemWeight d := by
  induction d with
  | nil => simp [Dict.erase]
  | cons a t ih =>
    obtain ⟨k', v'⟩ := a
    simp only [Dict.erase]
    split
    · rename_i h; subst h
      rw [elemWeight_cons, Dict.val_cons]; simp only [hk, if_false, if_true]; omega
    · rename_i h
      rw [elemWeight_cons, elemWeight_cons, Dict.val_cons]; simp only [h, if_false]; omega

theorem elemWeight_set_Q (d : Dict) (v : Int) : elemWeight (d.set "Q" v) = elemWeight d := by
  induction d with
  | nil => simp [Dict.set, elemWeight_cons]
  | cons a t ih =>
    obtain ⟨k', v'⟩ := a
    simp only [Dict.set]
    split
    · rename_i h; subst h; simp [elemWeight_cons]
    · rw [elemWeight_cons, elemWeight_cons, ih]

theorem elemWeight_set (d : Dict) (k : Key) (v : Int) (hk : k ≠ "Q") (hc : d.contains k = true) :
    elemWeight (d.set k v) + (d.val k).natAbs = elemWeight d + v.natAbs := by
  induction d with
  | nil => simp at hc
  | cons a t ih =>
    obtain ⟨k', v'⟩ := a
    simp only [Dict.set]
    split
    · rename_i h; subst h
      rw [elemWeight_cons, elemWeight_cons, Dict.val_cons]; simp only [hk, if_false, if_true]; omega
    · rename_i h
      rw [Dict.contains_cons] at hc
      have hc' : Dict.contains t k = true := by simpa [h] using hc
      have := ih hc'
      rw [elemWeight_cons, elemWeight_cons, Dict.val_cons]; simp only [h, if_false]; omega

theorem elemWeight_subStep_Q (ratio : Int) (nd : Dict) (v : Int) :
    elemWeight (subStep ratio nd ("Q", v)) = elemWeight nd := by
  unfold subStep
  split
  · simp only; split
    · rename_i h; exact absurd rfl h.2
    · exact elemWeight_set_Q _ _
  · rfl

theorem elemWeight_subStep (ratio : Int) (nd : Dict) (k : Key) (v : Int) (hk : k ≠ "Q")
    (hc : nd.contains k = true) :
    elemWeight (subStep ratio nd (k, v)) + (nd.val k).natAbs
      = elemWeight nd + (nd.val k - v * ratio).natAbs := by
  unfold subStep
  simp only [hc, if_true]
  split
  · rename_i h
    rw [h.1]; simpa using elemWeight_erase nd k hk
  · exact elemWeight_set nd k _ hk hc

/-- subtracting `0 < v·ratio ≤ data[k]` from an element key removes at least one atom -/
theorem elemWeight_subStep_lt (ratio : Int) (nd : Dict) (k : Key) (v : Int) (hk : k ≠ "Q")
    (hc : nd.contains k = true) (hpos : 0 < v * ratio) (hle : v * ratio ≤ nd.val k) :
    elemWeight (subStep ratio nd (k, v)) + 1 ≤ elemWeight nd := by
  have := elemWeight_subStep ratio nd k v hk hc
  generalize v * ratio = m at *
  omega

/-- the whole subtraction loop removes at least one atom per element key of the rule -/
theorem foldl_subStep_elemWeight (ratio : Int) (rule : Dict) (hr : rule.WF) :
    ∀ nd : Dict, nd.WF →
      (∀ kv ∈ rule, kv.1 ≠ "Q" →
        nd.contains kv.1 = true ∧ 0 < kv.2 * ratio ∧ kv.2 * ratio ≤ nd.val kv.1) →
      elemWeight (rule.foldl (subStep ratio) nd) + (rule.filter fun kv => kv.1 != "Q").length
        ≤ elemWeight nd := by
  induction rule with
  | nil => intro nd _ _; simp
  | cons a t ih =>
    intro nd hn h
    obtain ⟨k, v⟩ := a
    simp only [Dict.WF, Dict.keys_cons, List.nodup_cons] at hr
    simp only [List.foldl_cons]
    have htail : ∀ kv ∈ t, kv.1 ≠ "Q" →
        (subStep ratio nd (k, v)).contains kv.1 = true ∧ 0 < kv.2 * ratio ∧
          kv.2 * ratio ≤ (subStep ratio nd (k, v)).val kv.1 := by
      intro kv hkv hq
      have hne : k ≠ kv.1 := by
        intro e; exact hr.1 (e ▸ List.mem_map.2 ⟨kv, hkv, rfl⟩)
      obtain ⟨h1, h2, h3⟩ := h kv (List.mem_cons_of_mem _ hkv) hq
      refine ⟨by rw [subStep_contains_ne ratio nd (k, v) kv.1 hne]; exact h1, h2, ?_⟩
      rw [subStep_val ratio nd hn (k, v) kv.1]
      simp only [hne, false_and, if_false]; exact h3
    have hih := ih hr.2 (subStep ratio nd (k, v)) (subStep_nodup ratio nd hn (k, v)) htail
    by_cases hk : k = "Q"
    · subst hk
      rw [elemWeight_subStep_Q] at hih
      simpa using hih
    · obtain ⟨h1, h2, h3⟩ := h (k, v) (List.mem_cons_self ..) hk
      have hlt := elemWeight_subStep_lt ratio nd k v hk h1 h2 h3
      have hf : ((k, v) :: t).filter (fun kv => kv.1 != "Q")
          = (k, v) :: t.filter (fun kv => kv.1 != "Q") := by simp [hk]
      rw [hf, List.length_cons]
      omega

/-! ### the ratio is below every per-element quotient -/

theorem foldl_min_le : ∀ (t : List Int) (q x : Int), x ∈ q :: t → t.foldl min q ≤ x := by
  intro t
  induction t with
  | nil => intro q x hx; simp only [List.mem_singleton] at hx; subst hx; simp
  | cons a t ih =>
    intro q x hx
    simp only [List.foldl_cons]
    rcases List.mem_cons.1 hx with h | h
    · subst h
      have := ih (min x a) (min x a) (List.mem_cons_self ..)
      omega
    · rcases List.mem_cons.1 h with h' | h'
      · subst h'
        have := ih (min q x) (min q x) (List.mem_cons_self ..)
        omega
      · exact ih _ x (List.mem_cons_of_mem _ h')

theorem ratioOf_le (rule data : Dict) (q : Int) (h : ratioOf rule data = some q) :
    ∀ kv ∈ rule, kv.1 ≠ "Q" → q ≤ (if kv.2 != 0 then Int.fdiv (data.val kv.1) kv.2 else 0) := by
  intro kv hkv hq
  unfold ratioOf at h
  simp only at h
  have hm : (if kv.2 != 0 then Int.fdiv (data.val kv.1) kv.2 else 0) ∈
      (rule.filter (fun kv => kv.1 != "Q")).map
        (fun kv => if kv.2 != 0 then Int.fdiv (data.val kv.1) kv.2 else 0) :=
    List.mem_map.2 ⟨kv, List.mem_filter.2 ⟨hkv, by simpa using hq⟩, rfl⟩
  split at h
  · rename_i he; rw [he] at hm; simp at hm
  · rename_i q0 t he
    rw [he] at hm
    cases h
    exact foldl_min_le t q0 _ hm

/-- what goodness, `canMatch` and the ratio say about one element key of the rule -/
theorem good_key_facts (r : Rule) (d : Dict) (q : Int) (hg : goodRule r = true)
    (hc : canMatch r.comp d = true) (hq : ratioOf r.comp d = some q) :
    1 ≤ q ∧ ∀ kv ∈ r.comp, kv.1 ≠ "Q" →
      d.contains kv.1 = true ∧ 0 < kv.2 * (q.natAbs : Int) ∧ kv.2 * (q.natAbs : Int) ≤ d.val kv.1 := by
  obtain ⟨q', hq1, hq2⟩ := ratio_pos r d hg hc
  rw [hq] at hq1; cases hq1
  refine ⟨hq2, ?_⟩
  intro kv hkv hnq
  have hle := ratioOf_le r.comp d q hq kv hkv hnq
  simp only [goodRule, Bool.and_eq_true, decide_eq_true_eq, List.all_eq_true] at hg
  have hp := hg.1.2 kv hkv
  simp only [canMatch, List.all_eq_true] at hc
  have hm := hc kv hkv
  have hnq' : (kv.1 == "Q") = false := by simpa using hnq
  simp only [hnq', Bool.false_or, Bool.and_eq_true, decide_eq_true_eq] at hp hm
  have hv : kv.2 ≠ 0 := by omega
  simp only [bne_iff_ne, ne_eq, hv, not_false_eq_true, if_true] at hle
  rw [Int.fdiv_eq_ediv_of_nonneg _ (by omega)] at hle
  have hmul : q * kv.2 ≤ d.val kv.1 := (Int.le_ediv_iff_mul_le hp).1 hle
  have hnat : (q.natAbs : Int) = q := by omega
  rw [hnat, Int.mul_comm]
  refine ⟨hm.1, Int.mul_pos (by omega) hp, hmul⟩

/-- **key lemma**: applying a good rule that matches removes at least one atom from the imbalance -/
theorem subtract_decreases (r : Rule) (d : Dict) (q : Int) (hg : goodRule r = true) (hd : d.WF)
    (hc : canMatch r.comp d = true) (hq : ratioOf r.comp d = some q) :
    elemWeight (subtractRule r.comp q.natAbs d) < elemWeight d := by
  obtain ⟨_, hkeys⟩ := good_key_facts r d q hg hc hq
  have hg' := hg
  simp only [goodRule, Bool.and_eq_true, decide_eq_true_eq, List.any_eq_true] at hg'
  obtain ⟨⟨hwf, _⟩, kv0, hkv0, hne0⟩ := hg'
  have hlen : 1 ≤ (r.comp.filter fun kv => kv.1 != "Q").length :=
    List.length_pos_of_mem (List.mem_filter.2 ⟨hkv0, hne0⟩)
  have := foldl_subStep_elemWeight (q.natAbs : Int) r.comp hwf d hd hkeys
  unfold subtractRule
  omega

theorem subtractRule_wf (rule : Dict) (n : Nat) (d : Dict) (hd : d.WF) : (subtractRule rule n d).WF :=
  foldl_subStep_nodup (n : Int) rule d hd

theorem subtractRule_contains_Q (rule : Dict) (n : Nat) (d : Dict) (hQ : d.contains "Q" = true) :
    (subtractRule rule n d).contains "Q" = true :=
  foldl_subStep_contains_Q (n : Int) rule d hQ

/-! ### the fuel is irrelevant -/

theorem dfs_succ (rules : List Rule) (fuel : Nat) (d : Dict) (path : Solution) :
    dfs rules (fuel + 1) d path =
      if exitOk d then [path] else
      rules.flatMap fun r =>
        if canMatch r.comp d then
          match ratioOf r.comp d with
          | none => []
          | some q => dfs rules fuel (subtractRule r.comp q.natAbs d) (path ++ [⟨r, q.natAbs⟩])
        else [] := by
  rw [dfs]; rfl

theorem flatMap_congr' {α β} (l : List α) (f g : α → List β) (h : ∀ x ∈ l, f x = g x) :
    l.flatMap f = l.flatMap g := by
  induction l with
  | nil => rfl
  | cons a t ih =>
    simp only [List.flatMap_cons]
    rw [h a (List.mem_cons_self ..), ih (fun x hx => h x (List.mem_cons_of_mem _ hx))]

theorem goodDB_mem (rules : List Rule) (hdb : goodDB rules = true) (r : Rule) (hr : r ∈ rules) :
    goodRule r = true := by
  simp only [goodDB, List.all_eq_true] at hdb; exact hdb r hr

/-- any two fuels above the atom count give the same result -/
theorem dfs_fuel_eq (rules : List Rule) (hdb : goodDB rules = true) :
    ∀ f1 f2 d path, d.WF → d.contains "Q" = true → elemWeight d + 1 ≤ f1 → elemWeight d + 1 ≤ f2 →
      dfs rules f1 d path = dfs rules f2 d path := by
  intro f1
  induction f1 with
  | zero => intro f2 d path _ _ h; omega
  | succ n ih =>
    intro f2 d path hd hQ h1 h2
    cases f2 with
    | zero => omega
    | succ m =>
      simp only [dfs]
      split
      · rfl
      · apply flatMap_congr'
        intro r hr
        split
        · rename_i hcm
          split
          · rfl
          · rename_i q hq
            have hlt := subtract_decreases r d q (goodDB_mem rules hdb r hr) hd hcm hq
            exact ih m _ _ (subtractRule_wf r.comp q.natAbs d hd)
              (subtractRule_contains_Q r.comp q.natAbs d hQ) (by omega) (by omega)
        · rfl

/-- **the fuel is irrelevant** once it exceeds the atom count of the imbalance -/
theorem dfs_fuel_irrelevant (rules : List Rule) (hdb : goodDB rules = true) :
    ∀ fuel d path, d.WF → d.contains "Q" = true → elemWeight d + 1 ≤ fuel →
      dfs rules fuel d path = dfs rules (elemWeight d + 1) d path :=
  fun fuel d path hd hQ h => dfs_fuel_eq rules hdb fuel _ d path hd hQ h (Nat.le_refl _)

/-- the fuel-free search -/
def dfsStar (rules : List Rule) (d : Dict) (path : Solution) : List Solution :=
  dfs rules (elemWeight d + 1) d path

/-- `dfsStar` satisfies the recursion equation of the Python `dfs` (which has no fuel): on a good database the
fuelled model *is* the unbounded search -/
theorem dfsStar_unfold (rules : List Rule) (hdb : goodDB rules = true) (d : Dict) (path : Solution)
    (hd : d.WF) (hQ : d.contains "Q" = true) :
    dfsStar rules d path =
      if exitOk d then [path] else
      rules.flatMap fun r =>
        if canMatch r.comp d then
          match ratioOf r.comp d with
          | none => []
          | some q => dfsStar rules (subtractRule r.comp q.natAbs d) (path ++ [⟨r, q.natAbs⟩])
        else [] := by
  rw [dfsStar, dfs_succ]
  split
  · rfl
  · apply flatMap_congr'
    intro r hr
    split
    · rename_i hcm
      split
      · rfl
      · rename_i q hq
        have hlt := subtract_decreases r d q (goodDB_mem rules hdb r hr) hd hcm hq
        exact dfs_fuel_irrelevant rules hdb _ _ _ (subtractRule_wf r.comp q.natAbs d hd)
          (subtractRule_contains_Q r.comp q.natAbs d hQ) (by omega)
    · rfl

theorem dfs_eq_dfsStar (rules : List Rule) (hdb : goodDB rules = true) (fuel : Nat) (d : Dict)
    (path : Solution) (hd : d.WF) (hQ : d.contains "Q" = true) (h : elemWeight d + 1 ≤ fuel) :
    dfs rules fuel d path = dfsStar rules d path :=
  dfs_fuel_irrelevant rules hdb fuel d path hd hQ h

theorem goodDB_sortRules (rules : List Rule) (hdb : goodDB rules = true) :
    goodDB (sortRules rules) = true := by
  simp only [goodDB, List.all_eq_true] at hdb ⊢
  intro r hr; exact hdb r ((mem_sortDesc _ _ _).1 hr)

/-- the fuel `weight (prepData d) + 2` of `matchAll` is adequate -/
theorem matchAll_fuel_bound (d : Dict) : elemWeight (prepData d) + 1 ≤ weight (prepData d) + 2 := by
  have := elemWeight_le_weight (prepData d); omega

/-- **`matchAll` is the fuel-free search**: any fuel above the atom count gives the same answer -/
theorem matchAll_fuel_adequate (rules : List Rule) (hdb : goodDB rules = true) (d : Dict) (hd : d.WF) :
    ∀ F, elemWeight (prepData d) + 1 ≤ F →
      matchAll rules d = rank (dedup (dfs (sortRules rules) F (prepData d) [])) := by
  intro F hF
  unfold matchAll
  simp only
  rw [dfs_fuel_eq (sortRules rules) (goodDB_sortRules rules hdb) _ F (prepData d) []
    (prepData_wf d hd) (prepData_contains_Q d) (matchAll_fuel_bound d) hF]

theorem matchAll_eq_dfsStar (rules : List Rule) (hdb : goodDB rules = true) (d : Dict) (hd : d.WF) :
    matchAll rules d = rank (dedup (dfsStar (sortRules rules) (prepData d) [])) :=
  matchAll_fuel_adequate rules hdb d hd _ (Nat.le_refl _)

/-! ### depth bound -/

/-- the recursion depth of the search is bounded by the number of atoms in the imbalance -/
theorem dfs_depth_bound (rules : List Rule) (hdb : goodDB rules = true) :
    ∀ fuel d path, d.WF → d.contains "Q" = true →
      ∀ sol ∈ dfs rules fuel d path, sol.length ≤ path.length + elemWeight d := by
  intro fuel
  induction fuel with
  | zero => intro d path _ _ sol h; simp [dfs] at h
  | succ n ih =>
    intro d path hd hQ sol hsol
    simp only [dfs] at hsol
    split at hsol
    · simp only [List.mem_singleton] at hsol; subst hsol; omega
    · simp only [List.mem_flatMap] at hsol
      obtain ⟨r, hr, hin⟩ := hsol
      split at hin
      · rename_i hcm
        split at hin
        · simp at hin
        · rename_i q hq
          have hlt := subtract_decreases r d q (goodDB_mem rules hdb r hr) hd hcm hq
          have := ih _ _ (subtractRule_wf r.comp q.natAbs d hd)
            (subtractRule_contains_Q r.comp q.natAbs d hQ) sol hin
          simp only [List.length_append, List.length_singleton] at this
          omega
      · simp at hin

theorem matchAll_depth_bound (rules : List Rule) (hdb : goodDB rules = true) (d : Dict) (hd : d.WF) :
    ∀ sol ∈ matchAll rules d, sol.length ≤ elemWeight (prepData d) := by
  intro sol hsol
  unfold matchAll at hsol
  simp only at hsol
  have hmem := mem_dedup _ _ (mem_rank _ _ hsol)
  have := dfs_depth_bound (sortRules rules) (goodDB_sortRules rules hdb) _ _ []
    (prepData_wf d hd) (prepData_contains_Q d) sol hmem
  simpa using this

/-! ### goodness is needed -/

/-- a rule with a zero count -/
def zeroRule : Rule := ⟨"[H]", [("H", 0)], 0⟩
/-- an ordinary rule -/
def hRule : Rule := ⟨"[HH]", [("H", 1)], 0⟩
/-- a rule with a negative count -/
def negRule : Rule := ⟨"[H-]", [("H", -1)], 0⟩
/-- a rule without element key -/
def qRule : Rule := ⟨"[e-]", [("Q", -1)], 1⟩

def oneH : Dict := [("H", 1), ("Q", 0)]

theorem zeroRule_not_good : goodRule zeroRule = false := by decide
theorem negRule_not_good : goodRule negRule = false := by decide
theorem qRule_not_good : goodRule qRule = false := by decide
theorem hRule_good : goodRule hRule = true := by decide

/-- the hypotheses of the fuel theorems are satisfiable on a non-trivial value, and the fuel-free search finds the
completion -/
example : goodDB [hRule] = true ∧ oneH.WF ∧ oneH.contains "Q" = true ∧ elemWeight oneH = 1 ∧
    dfsStar [hRule] oneH [] = [[⟨hRule, 1⟩]] ∧ dfs [hRule] 50 oneH [] = [[⟨hRule, 1⟩]] := by decide

/-- a zero-count rule matches, gets ratio 0 and leaves the imbalance unchanged: the Python recursion never ends -/
theorem zeroRule_loops :
    canMatch zeroRule.comp oneH = true ∧ ratioOf zeroRule.comp oneH = some 0 ∧
      subtractRule zeroRule.comp (0 : Nat) oneH = oneH := by decide

theorem zeroRule_fuel_3_4 : dfs [zeroRule, hRule] 3 oneH [] ≠ dfs [zeroRule, hRule] 4 oneH [] := by decide

/-- with a zero-count rule the model never stabilises: fuel `n + 1` yields exactly `n` solutions -/
theorem zeroRule_never_stabilises :
    ∀ n path, (dfs [zeroRule, hRule] (n + 1) oneH path).length = n := by
  have e0 : exitOk oneH = false := by decide
  have c0 : canMatch zeroRule.comp oneH = true := by decide
  have r0 : ratioOf zeroRule.comp oneH = some 0 := by decide
  have s0 : subtractRule zeroRule.comp (0 : Nat) oneH = oneH := by decide
  have c1 : canMatch hRule.comp oneH = true := by decide
  have r1 : ratioOf hRule.comp oneH = some 1 := by decide
  have s1 : subtractRule hRule.comp (1 : Nat) oneH = [("Q", 0)] := by decide
  have e1 : exitOk [("Q", 0)] = true := by decide
  intro n
  induction n with
  | zero => intro path; simp [dfs, e0, c0, r0, c1, r1]
  | succ n ih =>
    intro path
    rw [dfs_succ]
    simp only [e0, Bool.false_eq_true, if_false, List.flatMap_cons, List.flatMap_nil, c0, r0, c1, r1,
      if_true, Int.natAbs_zero, Int.natAbs_one, s0, s1, List.append_nil, List.length_append, ih]
    rw [dfs_succ]
    simp [e1]

/-- a negative count makes the imbalance grow -/
theorem negRule_increases :
    canMatch negRule.comp oneH = true ∧ ratioOf negRule.comp oneH = some (-1) ∧
      elemWeight oneH < elemWeight (subtractRule negRule.comp (1 : Nat) oneH) := by decide

/-- a rule without element key always "matches" and `min()` of nothing raises (`none` in the model) -/
theorem ratioOf_onlyQ (v : Int) (d : Dict) :
    canMatch [("Q", v)] d = true ∧ ratioOf [("Q", v)] d = none := by
  simp [canMatch, ratioOf]

end SynRBL
