import SynRBLModel.Proofs.Pipeline
/-!
# Consequences for rows solved at the input check, provenance of `solved_by`, threshold independence
-/
namespace SynRBL
open Str

variable (O : Oracle)

/-- what the input check makes of a fresh row -/
theorem pc1_spec (s : Str) :
    (pc1 O s).input = s ∧ (pc1 O s).reaction = s ∧ (pc1 O s).carbon = labelOf O s ∧
    (pc1 O s).issue = none ∧ (pc1 O s).hasMcs = false ∧ (pc1 O s).uncurated = none ∧
    ((pc1 O s).solved = true ↔ (verdictOf O s = .balance ∧ labelOf O s = .balanced)) ∧
    ((pc1 O s).solved = true → (pc1 O s).solvedBy = some .input) ∧
    ((pc1 O s).solved = false → (pc1 O s).solvedBy = none) := by
  unfold pc1 pc0 validate
  simp only []
  by_cases hb : verdictOf O s = .balance ∧ labelOf O s = .balanced
  · simp [hb]
  · have : ¬ (verdictOf O s = .balance ∧ labelOf O s = .balanced ∧ True) := fun h => hb ⟨h.1, h.2.1⟩
    simp [hb]

/-- a row that is solved, balanced, not sent to the MCS stage and not curated -/
structure Settled (r : Row) (s : Str) (m : Method) : Prop where
  solved : r.solved = true
  reaction : r.reaction = s
  input : r.input = s
  by_ : r.solvedBy = some m
  issue : r.issue = none
  noMcs : r.hasMcs = false
  uncur : r.uncurated = none

theorem settled_validate {r : Row} {s : Str} {m : Method} (h : Settled r s m)
    (m' : Method) (c o : Bool) (msg : Option Str) : Settled (validate O m' c o msg r) s m := by
  obtain ⟨g1, g2, g3, g4, _, _⟩ := validate_solved_fields O m' c o msg r h.solved
  obtain ⟨f1, _, _, _, f5⟩ := validate_frame O m' c o msg r
  exact ⟨g2, by rw [g1]; exact h.reaction, by rw [validate_input]; exact h.input, by rw [g3]; exact h.by_,
    by rw [g4]; exact h.issue, by rw [f1]; exact h.noMcs, by rw [f5]; exact h.uncur⟩

theorem settled_rbStage {r : Row} {s : Str} {m : Method} (h : Settled r s m)
    (hb : verdictOf O s = .balance) (cfg : Config) : Settled (rbStage O cfg r) s m := by
  obtain ⟨f1, f2, f3, f4, _, _, f7, _, _, _, f11⟩ := rbStage_fields O cfg r
  refine ⟨by rw [f2]; exact h.solved, ?_, by rw [f1]; exact h.input, by rw [f3]; exact h.by_,
    by rw [f4]; exact h.issue, by rw [f7]; exact h.noMcs, by rw [f11]; exact h.uncur⟩
  rw [rbStage_balanced O cfg r (by rw [h.reaction]; exact hb)]; exact h.reaction

theorem settled_searchStage {r : Row} {s : Str} {m : Method} (h : Settled r s m) :
    Settled (searchStage O r) s m := by
  rw [searchStage_of_solved O r h.solved]; exact h

theorem settled_imputeStage {r : Row} {s : Str} {m : Method} (h : Settled r s m) :
    Settled (imputeStage O r).1 s m := by
  rw [imputeStage_no_mcs O r h.noMcs]; exact h

theorem settled_postStage_input {r : Row} {s : Str} (h : Settled r s .input) :
    Settled (postStage O r) s .input := by
  have : postStage O r = r := by unfold postStage; simp [h.by_]
  rw [this]; exact h

theorem settled_revert {r : Row} {s : Str} {m : Method} (h : Settled r s m) : Settled (revertStage r) s m := by
  rw [revertStage_none r h.uncur]; exact h

/-- **forward**: an input the comparator and the carbon check call balanced ends as `input-balanced`, unchanged -/
theorem input_balanced_passes (cfg : Config) (s : Str)
    (hb : verdictOf O s = .balance) (hc : labelOf O s = .balanced) :
    (runRow O cfg s).solved = true ∧ (runRow O cfg s).solvedBy = some .input ∧
    (runRow O cfg s).reaction = s ∧ (runRow O cfg s).input = s ∧ (runRow O cfg s).issue = none ∧
    (runRow O cfg s).conf = none := by
  obtain ⟨a1, a2, _, a4, a5, a6, a7, a8, _⟩ := pc1_spec O s
  have hs1 : (pc1 O s).solved = true := a7.2 ⟨hb, hc⟩
  have h1 : Settled (pc1 O s) s .input := ⟨hs1, a2, a1, a8 hs1, a4, a5, a6⟩
  have h9 : Settled (pc9 O cfg s) s .input :=
    settled_validate O (settled_rbStage O (settled_postStage_input O (settled_validate O (settled_imputeStage O
      (settled_searchStage O (settled_validate O (settled_rbStage O h1 hb cfg) _ _ _ _))) _ _ _ _)) hb cfg) _ _ _ _
  have h10 := settled_revert h9
  have hconf : (pc9 O cfg s).conf = none := by
    unfold pc9 pc8 pc7 pc6 pc5 pc4 pc3 pc2 pc1 pc0
    rw [(validate_frame O _ _ _ _ _).2.2.2.1, (rbStage_fields O _ _).2.2.2.2.2.2.2.2.2.1,
      (postStage_fields O _).2.2.2.2.2.2.2, (validate_frame O _ _ _ _ _).2.2.2.1,
      (imputeStage_fields O _).2.2.2.2.2.2.1, (searchStage_fields O _).2.2.2.2.2.2.2,
      (validate_frame O _ _ _ _ _).2.2.2.1, (rbStage_fields O _ _).2.2.2.2.2.2.2.2.2.1,
      (validate_frame O _ _ _ _ _).2.2.2.1]
  unfold runRow
  rw [preConf_eq]
  have hne : (revertStage (pc9 O cfg s)).solvedBy ≠ some .mcs := by rw [h10.by_]; simp
  unfold confStage
  simp only [hne, if_false]
  exact ⟨h10.solved, h10.by_, h10.reaction, h10.input, h10.issue,
    by rw [(revertStage_fields _).2.2.2.2.2.2.2.2.1]; exact hconf⟩

/-! ### provenance of `solved_by` -/

theorem validate_solvedBy_other (m : Method) (c o : Bool) (msg : Option Str) (r : Row) (m' : Method)
    (hne : m' ≠ m) (h : (validate O m c o msg r).solvedBy = some m') : r.solvedBy = some m' := by
  cases hs : r.solved with
  | true => rw [← (validate_solved_fields O m c o msg r hs).2.2.1]; exact h
  | false =>
    cases h1 : (validate O m c o msg r).solved with
    | true =>
      rw [(validate_newly_solved O m c o msg r hs h1).2.2.2.1] at h
      cases h; exact absurd rfl hne
    | false => rw [← (validate_unsolved O m c o msg r h1).2.1]; exact h

/-- **converse**: `input-balanced` is only ever written by the input check -/
theorem input_label_only_from_input_check (cfg : Config) (s : Str)
    (h : (runRow O cfg s).solvedBy = some .input) :
    verdictOf O s = .balance ∧ labelOf O s = .balanced := by
  unfold runRow at h
  rw [(confStage_fields O _ _).2.2.1, preConf_eq, (revertStage_fields _).2.2.1] at h
  unfold pc9 at h
  have h8 := validate_solvedBy_other O _ _ _ _ _ .input (by decide) h
  unfold pc8 at h8
  rw [(rbStage_fields O _ _).2.2.1] at h8
  unfold pc7 at h8
  rw [(postStage_fields O _).2.2.1] at h8
  unfold pc6 at h8
  have h5 := validate_solvedBy_other O _ _ _ _ _ .input (by decide) h8
  unfold pc5 at h5
  rw [(imputeStage_fields O _).2.2.1] at h5
  unfold pc4 at h5
  rw [(searchStage_fields O _).2.2.2.1] at h5
  unfold pc3 at h5
  have h2 := validate_solvedBy_other O _ _ _ _ _ .input (by decide) h5
  unfold pc2 at h2
  rw [(rbStage_fields O _ _).2.2.1] at h2
  obtain ⟨_, _, _, _, _, _, a7, _, a9⟩ := pc1_spec O s
  cases hs : (pc1 O s).solved with
  | true => exact a7.1 hs
  | false => rw [a9 hs] at h2; cases h2

/-! ### the threshold only acts in the last stage -/

theorem rbStage_threshold (cfg : Config) (t : Nat) :
    rbStage O { cfg with threshold := t } = rbStage O cfg := by
  funext r; simp only [rbStage, rbOut]

theorem preConf_threshold_irrelevant (cfg : Config) (t : Nat) (s : Str) :
    preConf O { cfg with threshold := t } s = preConf O cfg s := by
  unfold preConf pc9 pc8 pc7 pc6 pc5 pc4 pc3 pc2; simp only [rbStage_threshold]

theorem runRow_threshold (cfg : Config) (t : Nat) (s : Str) :
    runRow O { cfg with threshold := t } s = confStage O t (preConf O cfg s) := by
  unfold runRow; rw [preConf_threshold_irrelevant]

end SynRBL
