import SynRBLModel.Model.FGMatch
/-!
# Lemmas about the functional-group matcher (`Model/FGMatch.lean`)
* `picks`/`perms`/`existsAssign`: the assignment search does not depend on the order of the candidates, commutes with
  relabelling, and is what the permutation enumeration of the Python computes (`perms_any`);
* `fitsM_fst`: the statement-by-statement model returns `fits`;
* `fits_renumber`: invariance under renumbering (injective relabelling + any reordering of every neighbour list);
* `fits_fuel`: the fuel is irrelevant once it is at least the number of unvisited pattern atoms;
* `fits_complete`: an embedding of the pattern is always found.
-/
namespace SynRBL.FG

/-! ### `picks` -/

theorem mem_picks_perm {α} {l : List α} {y : α} {r : List α} (h : (y, r) ∈ picks l) : l.Perm (y :: r) := by
  induction l generalizing y r with
  | nil => simp [picks] at h
  | cons x xs ih =>
    simp only [picks, List.mem_cons, List.mem_map] at h
    rcases h with h | ⟨⟨y', r'⟩, hm, he⟩
    · cases h; exact List.Perm.refl _
    · cases he
      exact ((ih hm).cons x).trans (List.Perm.swap _ _ _)

theorem exists_picks_of_mem {α} {l : List α} {y : α} (h : y ∈ l) : ∃ r, (y, r) ∈ picks l := by
  induction l with
  | nil => simp at h
  | cons x xs ih =>
    rcases List.mem_cons.1 h with h | h
    · subst h; exact ⟨xs, by simp [picks]⟩
    · obtain ⟨r, hr⟩ := ih h
      exact ⟨x :: r, by simp only [picks, List.mem_cons, List.mem_map]; exact Or.inr ⟨(y, r), hr, rfl⟩⟩

theorem picks_map {α β} (f : α → β) (l : List α) :
    picks (l.map f) = (picks l).map (fun yr => (f yr.1, yr.2.map f)) := by
  induction l with
  | nil => rfl
  | cons x xs ih => simp [picks, ih, Function.comp_def]

theorem mem_picks_length {α} {l : List α} {y : α} {r : List α} (h : (y, r) ∈ picks l) :
    r.length + 1 = l.length := by
  have := (mem_picks_perm h).length_eq
  simpa using this.symm

theorem mem_picks_fst {α} {l : List α} {y : α} {r : List α} (h : (y, r) ∈ picks l) : y ∈ l :=
  (mem_picks_perm h).mem_iff.2 (by simp)

theorem mem_picks_snd {α} {l : List α} {y : α} {r : List α} (h : (y, r) ∈ picks l) {z : α} (hz : z ∈ r) :
    z ∈ l :=
  (mem_picks_perm h).mem_iff.2 (by simp [hz])

/-- a permutation has the same picks up to permutation of the remainders -/
theorem picks_perm {α} {l l' : List α} (hp : l.Perm l') {y : α} {r : List α} (h : (y, r) ∈ picks l) :
    ∃ r', (y, r') ∈ picks l' ∧ r.Perm r' := by
  have hy : y ∈ l' := hp.mem_iff.1 (mem_picks_fst h)
  obtain ⟨r', hr'⟩ := exists_picks_of_mem hy
  refine ⟨r', hr', ?_⟩
  have h1 := mem_picks_perm h
  have h2 := mem_picks_perm hr'
  exact (h1.symm.trans (hp.trans h2)).cons_inv

/-! ### `existsAssign` -/

theorem any_congr_mem {α} (l : List α) (f f' : α → Bool) (h : ∀ x ∈ l, f x = f' x) :
    l.any f = l.any f' := by
  induction l with
  | nil => rfl
  | cons a t ih =>
    simp only [List.any_cons]
    rw [h a (by simp), ih (fun x hx => h x (by simp [hx]))]

theorem all_congr_mem {α} (l : List α) (f f' : α → Bool) (h : ∀ x ∈ l, f x = f' x) :
    l.all f = l.all f' := by
  induction l with
  | nil => rfl
  | cons a t ih =>
    simp only [List.all_cons]
    rw [h a (by simp), ih (fun x hx => h x (by simp [hx]))]

theorem existsAssign_congr {α β} (Q Q' : β → α → Bool) (pn : List β) :
    ∀ an : List α, (∀ q ∈ pn, ∀ b ∈ an, Q q b = Q' q b) → existsAssign Q pn an = existsAssign Q' pn an := by
  induction pn with
  | nil => intros; rfl
  | cons q qs ih =>
    intro an h
    simp only [existsAssign]
    apply any_congr_mem
    rintro ⟨b, r⟩ hbr
    rw [h q (by simp) b (mem_picks_fst hbr),
      ih r (fun q' hq' b' hb' => h q' (by simp [hq']) b' (mem_picks_snd hbr hb'))]

theorem existsAssign_true_iff {α β} (Q : β → α → Bool) (q : β) (qs : List β) (an : List α) :
    existsAssign Q (q :: qs) an = true ↔
      ∃ b r, (b, r) ∈ picks an ∧ Q q b = true ∧ existsAssign Q qs r = true := by
  simp only [existsAssign, List.any_eq_true, Bool.and_eq_true]
  constructor
  · rintro ⟨⟨b, r⟩, h, h1, h2⟩; exact ⟨b, r, h, h1, h2⟩
  · rintro ⟨b, r, h, h1, h2⟩; exact ⟨(b, r), h, h1, h2⟩

theorem existsAssign_perm_imp {α β} (Q : β → α → Bool) (pn : List β) :
    ∀ an an' : List α, an.Perm an' → existsAssign Q pn an = true → existsAssign Q pn an' = true := by
  induction pn with
  | nil => intros; rfl
  | cons q qs ih =>
    intro an an' hp h
    rw [existsAssign_true_iff] at h ⊢
    obtain ⟨b, r, hbr, hQ, hr⟩ := h
    obtain ⟨r', hr', hperm⟩ := picks_perm hp hbr
    exact ⟨b, r', hr', hQ, ih r r' hperm hr⟩

/-- the assignment search does not depend on the order of the candidates -/
theorem existsAssign_perm {α β} (Q : β → α → Bool) (pn : List β) (an an' : List α) (hp : an.Perm an') :
    existsAssign Q pn an = existsAssign Q pn an' := by
  rw [Bool.eq_iff_iff]
  exact ⟨existsAssign_perm_imp Q pn an an' hp, existsAssign_perm_imp Q pn an' an hp.symm⟩

theorem existsAssign_map {α α' β} (π : α → α') (Q : β → α' → Bool) (pn : List β) :
    ∀ an : List α, existsAssign Q pn (an.map π) = existsAssign (fun q b => Q q (π b)) pn an := by
  induction pn with
  | nil => intros; rfl
  | cons q qs ih =>
    intro an
    simp only [existsAssign, picks_map, List.any_map, Function.comp_def, ih]

/-- the assignment search is invariant under a relabelling of the candidates combined with any reordering -/
theorem existsAssign_relabel {β} (π : Nat → Nat) (Q Q' : β → Nat → Bool) (pn : List β) (an an' : List Nat)
    (hperm : an'.Perm (an.map π)) (hQ : ∀ q ∈ pn, ∀ b ∈ an, Q' q (π b) = Q q b) :
    existsAssign Q' pn an' = existsAssign Q pn an := by
  rw [existsAssign_perm Q' pn an' _ hperm, existsAssign_map]
  exact existsAssign_congr _ _ pn an hQ

theorem existsAssign_short {α β} (Q : β → α → Bool) (pn : List β) :
    ∀ an : List α, an.length < pn.length → existsAssign Q pn an = false := by
  induction pn with
  | nil => intro an h; simp at h
  | cons q qs ih =>
    intro an h
    simp only [existsAssign, List.any_eq_false, Bool.and_eq_true, not_and, Bool.not_eq_true]
    rintro ⟨b, r⟩ hbr _
    apply ih
    have := mem_picks_length hbr
    simp only [List.length_cons] at h
    show r.length < qs.length
    omega

theorem perms_ne_nil {α} : ∀ (n : Nat) (l : List α), l.length = n → perms n l ≠ [] := by
  intro n
  induction n with
  | zero => intro l _; simp [perms]
  | succ n ih =>
    intro l hl
    match l, hl with
    | x :: xs, hl =>
      simp only [perms, picks, List.flatMap_cons]
      intro h
      have h1 := (List.append_eq_nil_iff.1 h).1
      simp only [List.map_eq_nil_iff] at h1
      exact ih xs (by simpa using hl) h1

/-- what the permutation enumeration of `get_mapping_permutations` + the mapping loop of `_fits` computes -/
theorem perms_any {α β} (Q : β → α → Bool) (pn : List β) :
    ∀ an : List α, pn.length ≤ an.length →
      (perms an.length an).any (fun σ => (pn.zip σ).all (fun qb => Q qb.1 qb.2)) = existsAssign Q pn an := by
  induction pn with
  | nil =>
    intro an _
    simp only [List.zip_nil_left, List.all_nil, existsAssign, List.any_eq_true, and_true]
    exact List.exists_mem_of_ne_nil _ (perms_ne_nil _ _ rfl)
  | cons q qs ih =>
    intro an h
    match an, h with
    | x :: xs, h =>
      simp only [List.length_cons, perms, existsAssign, List.any_flatMap, List.any_map, Function.comp_def,
        List.zip_cons_cons, List.all_cons]
      apply any_congr_mem
      rintro ⟨b, r⟩ hbr
      have hl : r.length = xs.length := by
        have := mem_picks_length hbr
        simpa using this
      have := ih r (by simp only [List.length_cons] at h; omega)
      rw [hl] at this
      rw [← this]
      induction perms xs.length r with
      | nil => simp
      | cons s t iht => simp only [List.any_cons, iht, Bool.and_or_distrib_left]

/-- an injective choice function whose values are candidates is an assignment -/
theorem existsAssign_of_inj {α β} (Q : β → α → Bool) (f : β → α) (pn : List β) :
    ∀ an : List α, pn.Nodup → (∀ q ∈ pn, f q ∈ an) → (∀ q ∈ pn, ∀ q' ∈ pn, f q = f q' → q = q') →
      (∀ q ∈ pn, Q q (f q) = true) → existsAssign Q pn an = true := by
  induction pn with
  | nil => intros; rfl
  | cons q qs ih =>
    intro an hnd hmem hinj hQ
    rw [existsAssign_true_iff]
    obtain ⟨r, hr⟩ := exists_picks_of_mem (hmem q (by simp))
    refine ⟨f q, r, hr, hQ q (by simp), ih r (List.nodup_cons.1 hnd).2 ?_ ?_ ?_⟩
    · intro q' hq'
      have h1 : f q' ∈ f q :: r := (mem_picks_perm hr).mem_iff.1 (hmem q' (by simp [hq']))
      rcases List.mem_cons.1 h1 with h1 | h1
      · have := hinj q' (by simp [hq']) q (by simp) h1
        subst this
        exact absurd hq' (List.nodup_cons.1 hnd).1
      · exact h1
    · intro a ha b hb; exact hinj a (by simp [ha]) b (by simp [hb])
    · intro a ha; exact hQ a (by simp [ha])

/-! ### the statement-by-statement model computes `fits` -/

theorem findSome?_isSome_any {α β} (f : α → Option β) (l : List α) :
    (l.findSome? f).isSome = l.any (fun x => (f x).isSome) := by
  induction l with
  | nil => rfl
  | cons x xs ih =>
    simp only [List.findSome?_cons, List.any_cons]
    cases h : f x <;> simp [ih]

/-- the inner `for pn_i, an_i in mapping` loop with its two `break`s -/
theorem foldl_opt_isSome {γ δ} (B : γ → Bool) (F : γ → Bool × List δ) (m : List γ) :
    ∀ init : Option (List δ),
      (m.foldl (fun (acc : Option (List δ)) qb => acc.bind fun nm =>
        if B qb then none else if (F qb).1 then some (nm ++ (F qb).2) else none) init).isSome
      = (init.isSome && m.all (fun qb => !B qb && (F qb).1)) := by
  induction m with
  | nil => intro init; simp
  | cons x xs ih =>
    intro init
    simp only [List.foldl_cons, List.all_cons]
    rw [ih]
    cases init with
    | none => simp
    | some nm =>
      cases hB : B x <;> cases hF : (F x).1 <;> simp

theorem any_filterMap_ite {α β} (l : List α) (c : α → Bool) (f : α → β) (q : β → Bool) :
    (l.filterMap (fun x => if c x then some (f x) else none)).any q = l.any (fun x => c x && q (f x)) := by
  induction l with
  | nil => rfl
  | cons x xs ih =>
    cases h : c x <;> simp [h, ih]

theorem all_and {α} (l : List α) (s r : α → Bool) : l.all (fun x => s x && r x) = (l.all s && l.all r) := by
  induction l with
  | nil => rfl
  | cons x xs ih =>
    simp only [List.all_cons, ih]
    cases s x <;> cases r x <;> cases xs.all s <;> simp

theorem fitsM_fst (g p : LG) :
    ∀ fuel a pa va vp, (fitsM g p fuel a pa va vp).1 = fits g p fuel a pa va vp := by
  intro fuel
  induction fuel with
  | zero => intros; rfl
  | succ n ih =>
    intro a pa va vp
    simp only [fitsM, fits]
    by_cases hs : (g.sym a == p.sym pa) = true
    · simp only [hs, if_true, Bool.true_and]
      generalize hpn : (p.nbrs pa).filter (fun x => !(vp ++ [pa]).contains x) = pn
      generalize han : (g.nbrs a).filter (fun x => !(va ++ [a]).contains x) = an
      by_cases hl : pn.length > 0
      · simp only [hl, if_true]
        rw [findSome?_isSome_any]
        have hloop : ∀ mapping : List (Nat × Nat),
            (mapping.foldl (fun (acc : Option (List (Nat × Nat))) qb => acc.bind fun nm =>
              if g.bond a qb.2 != p.bond pa qb.1 then none
              else if (fitsM g p n qb.2 qb.1 (va ++ [a]) (vp ++ [pa])).1 then
                some (nm ++ (fitsM g p n qb.2 qb.1 (va ++ [a]) (vp ++ [pa])).2) else none) (some [])).isSome
            = mapping.all (fun qb => !(g.bond a qb.2 != p.bond pa qb.1) &&
                (fitsM g p n qb.2 qb.1 (va ++ [a]) (vp ++ [pa])).1) := by
          intro mapping
          have := foldl_opt_isSome (fun qb : Nat × Nat => g.bond a qb.2 != p.bond pa qb.1)
            (fun qb => fitsM g p n qb.2 qb.1 (va ++ [a]) (vp ++ [pa])) mapping (some [])
          simpa using this
        simp only [hloop]
        unfold getMappingPermutations
        by_cases hlen : an.length ≥ pn.length
        · simp only [hlen, if_true]
          rw [any_filterMap_ite, ← perms_any _ pn an hlen]
          apply any_congr_mem
          intro σ _
          rw [← all_and]
          apply all_congr_mem
          intro qb _
          have hb : (g.bond a qb.2 != p.bond pa qb.1) = !(g.bond a qb.2 == p.bond pa qb.1) := rfl
          rw [ih, Bool.and_assoc, hb, Bool.not_not]
        · simp only [hlen, if_false, List.any_nil]
          symm
          exact existsAssign_short _ pn an (by omega)
      · have : pn = [] := by
          cases pn with
          | nil => rfl
          | cons x xs => simp at hl
        subst this
        simp [existsAssign]
    · simp only [hs]
      simp

/-! ### invariance under renumbering -/

/-- `g'` is `g` renumbered by `π` (RDKit's `RenumberAtoms`): `π` is injective, symbols and bond types travel with the
atoms, and every neighbour list is the image of the old one **in any order** -/
structure Renum (π : Nat → Nat) (g g' : LG) : Prop where
  inj  : ∀ x y, π x = π y → x = y
  sym  : ∀ x, g'.sym (π x) = g.sym x
  nbrs : ∀ x, (g'.nbrs (π x)).Perm ((g.nbrs x).map π)
  bond : ∀ x y, g'.bond (π x) (π y) = g.bond x y

theorem filter_relabel (π : Nat → Nat) (hinj : ∀ x y, π x = π y → x = y) (l l' va : List Nat)
    (h : l'.Perm (l.map π)) :
    (l'.filter (fun x => !(va.map π).contains x)).Perm ((l.filter (fun x => !va.contains x)).map π) := by
  have h1 := List.Perm.filter (fun x => !(va.map π).contains x) h
  refine h1.trans ?_
  rw [List.filter_map]
  have : ((fun x => !(va.map π).contains x) ∘ π) = (fun x => !va.contains x) := by
    funext x
    simp only [Function.comp]
    congr 1
    rw [Bool.eq_iff_iff]
    simp only [List.contains_iff_mem, List.mem_map]
    constructor
    · rintro ⟨y, hy, hxy⟩; rw [← hinj _ _ hxy]; exact hy
    · intro hx; exact ⟨x, hx, rfl⟩
  rw [this]

theorem fits_renumber (π : Nat → Nat) (g g' p : LG) (h : Renum π g g') :
    ∀ fuel a pa va vp, fits g' p fuel (π a) pa (va.map π) vp = fits g p fuel a pa va vp := by
  intro fuel
  induction fuel with
  | zero => intros; rfl
  | succ n ih =>
    intro a pa va vp
    simp only [fits]
    rw [h.sym a]
    congr 1
    have hva : va.map π ++ [π a] = (va ++ [a]).map π := by simp
    rw [hva]
    apply existsAssign_relabel π
    · exact filter_relabel π h.inj _ _ _ (h.nbrs a)
    · intro q _ b _
      rw [h.sym b, h.bond a b, ih b q (va ++ [a]) (vp ++ [pa])]

/-! ### the fuel is irrelevant -/

/-- number of pattern atoms (indices `< n`) that are not in the visited list -/
def unvisited (n : Nat) (vp : List Nat) : Nat := ((List.range n).filter (fun x => !vp.contains x)).length

/-- the neighbour lists of the first `n` atoms stay inside `0..n-1` and list no atom twice -/
structure PatWF (p : LG) (n : Nat) : Prop where
  range : ∀ x, x < n → ∀ y ∈ p.nbrs x, y < n
  nodup : ∀ x, x < n → (p.nbrs x).Nodup

theorem unvisited_snoc (n pa : Nat) (vp : List Nat) (h1 : pa < n) (h2 : pa ∉ vp) :
    unvisited n (vp ++ [pa]) + 1 = unvisited n vp := by
  unfold unvisited
  have hnd : ((List.range n).filter (fun x => !vp.contains x)).Nodup := List.nodup_range.filter _
  have hmem : pa ∈ (List.range n).filter (fun x => !vp.contains x) := by
    simp [List.mem_filter, h1, h2]
  have he : (List.range n).filter (fun x => !(vp ++ [pa]).contains x)
      = ((List.range n).filter (fun x => !vp.contains x)).erase pa := by
    rw [hnd.erase_eq_filter, List.filter_filter]
    apply List.filter_congr
    intro x _
    by_cases hx : x = pa <;> simp [hx]
  rw [he, List.length_erase_of_mem hmem]
  have : 0 < ((List.range n).filter (fun x => !vp.contains x)).length := List.length_pos_of_mem hmem
  omega

theorem unvisited_pos (n pa : Nat) (vp : List Nat) (h1 : pa < n) (h2 : pa ∉ vp) : 0 < unvisited n vp := by
  have := unvisited_snoc n pa vp h1 h2; omega

theorem unvisited_nil (n : Nat) : unvisited n [] = n := by
  unfold unvisited
  rw [List.filter_eq_self.2 (by intro x _; rfl)]
  simp

/-- **fuel irrelevance.** The Python recursion has no counter; it stops because every call adds one pattern atom to
the visited list. With any two fuels that are at least the number of not yet visited pattern atoms the model
returns the same answer. -/
theorem fits_fuel (g p : LG) (n : Nat) (hp : ∀ x, x < n → ∀ y ∈ p.nbrs x, y < n) :
    ∀ f₁ f₂ a pa va vp, pa < n → pa ∉ vp → unvisited n vp ≤ f₁ → unvisited n vp ≤ f₂ →
      fits g p f₁ a pa va vp = fits g p f₂ a pa va vp := by
  intro f₁
  induction f₁ with
  | zero =>
    intro f₂ a pa va vp h1 h2 h3 _
    have := unvisited_pos n pa vp h1 h2; omega
  | succ k ih =>
    intro f₂ a pa va vp h1 h2 h3 h4
    have hpos := unvisited_pos n pa vp h1 h2
    cases f₂ with
    | zero => omega
    | succ k₂ =>
      simp only [fits]
      congr 1
      apply existsAssign_congr
      intro q hq b _
      simp only [List.mem_filter] at hq
      have hq2 : q ∉ vp ++ [pa] := by simpa using hq.2
      have hs := unvisited_snoc n pa vp h1 h2
      rw [ih k₂ b q (va ++ [a]) (vp ++ [pa]) (hp pa h1 q hq.1) hq2 (by omega) (by omega)]

/-! ### completeness -/

/-- `f` maps the pattern (atoms `0..n-1` of `p`) onto an occurrence in `g`: injective, same symbols, every pattern
bond is a bond of `g` of the same type (extra bonds in `g` are allowed, as in substructure search) -/
structure Embedding (g p : LG) (n : Nat) (f : Nat → Nat) : Prop where
  inj : ∀ x y, x < n → y < n → f x = f y → x = y
  sym : ∀ x, x < n → g.sym (f x) = p.sym x
  adj : ∀ x, x < n → ∀ y ∈ p.nbrs x, f y ∈ g.nbrs (f x) ∧ g.bond (f x) (f y) = p.bond x y

theorem fits_complete (g p : LG) (n : Nat) (hp : PatWF p n) (f : Nat → Nat) (he : Embedding g p n f) :
    ∀ fuel pa vp, pa < n → pa ∉ vp → (∀ x ∈ vp, x < n) → unvisited n vp ≤ fuel →
      fits g p fuel (f pa) pa (vp.map f) vp = true := by
  intro fuel
  induction fuel with
  | zero =>
    intro pa vp h1 h2 _ h4
    have := unvisited_pos n pa vp h1 h2; omega
  | succ k ih =>
    intro pa vp h1 h2 h3 h4
    simp only [fits, Bool.and_eq_true, beq_iff_eq]
    refine ⟨he.sym pa h1, ?_⟩
    have hs := unvisited_snoc n pa vp h1 h2
    have hv' : ∀ x ∈ vp ++ [pa], x < n := by
      intro x hx
      rcases List.mem_append.1 hx with hx | hx
      · exact h3 x hx
      · simp at hx; omega
    apply existsAssign_of_inj _ f
    · exact (hp.nodup pa h1).filter _
    · intro q hq
      simp only [List.mem_filter] at hq
      have hq2 : q ∉ vp ++ [pa] := by simpa using hq.2
      have hqn := hp.range pa h1 q hq.1
      simp only [List.mem_filter]
      refine ⟨(he.adj pa h1 q hq.1).1, ?_⟩
      have : f q ∉ vp.map f ++ [f pa] := by
        intro hmem
        have hmem' : f q ∈ (vp ++ [pa]).map f := by simpa using hmem
        obtain ⟨x, hx, hfx⟩ := List.mem_map.1 hmem'
        have := he.inj x q (hv' x hx) hqn hfx
        subst this
        exact hq2 hx
      simpa using this
    · intro q hq q' hq' hff
      simp only [List.mem_filter] at hq hq'
      exact he.inj q q' (hp.range pa h1 q hq.1) (hp.range pa h1 q' hq'.1) hff
    · intro q hq
      simp only [List.mem_filter] at hq
      have hq2 : q ∉ vp ++ [pa] := by simpa using hq.2
      have hqn := hp.range pa h1 q hq.1
      have hadj := he.adj pa h1 q hq.1
      have hrec := ih q (vp ++ [pa]) hqn hq2 hv' (by omega)
      have hmap : (vp ++ [pa]).map f = vp.map f ++ [f pa] := by simp
      rw [hmap] at hrec
      simp only [Bool.and_eq_true, beq_iff_eq]
      exact ⟨⟨(he.sym q hqn).symm, hadj.2⟩, hrec⟩

/-! ### lifting to `pattern_match`, `check_functional_group`, `is_functional_group` -/

theorem patternMatchM_none_fst (g : LG) (p : GData) (a : Nat) :
    (patternMatchM g p a none).1 = patternMatch g p a := by
  unfold patternMatchM patternMatch
  simp only
  induction List.range p.n with
  | nil => rfl
  | cons x xs ih =>
    simp only [List.findSome?_cons, List.any_cons]
    cases h : (fitsM g p.toLG p.n a x [] []).1
    · rw [← fitsM_fst, h]
      simpa using ih
    · rw [← fitsM_fst, h]
      simp [h]

theorem checkFunctionalGroupM_eq (g : LG) (cfg : FGConfig) (idx : Nat) :
    checkFunctionalGroupM g cfg idx = checkFunctionalGroup g cfg idx := by
  unfold checkFunctionalGroupM checkFunctionalGroup
  congr 1
  funext p
  exact patternMatchM_none_fst g p idx

theorem isFunctionalGroupM_eq (tbl : FGTable) (g : LG) (name : String) (idx : Nat) :
    isFunctionalGroupM tbl g name idx = isFG tbl g name idx := by
  unfold isFunctionalGroupM isFG
  simp only [checkFunctionalGroupM_eq]

theorem patternMatch_renumber (π : Nat → Nat) (g g' : LG) (h : Renum π g g') (p : GData) (a : Nat) :
    patternMatch g' p (π a) = patternMatch g p a := by
  unfold patternMatch
  apply any_congr_mem
  intro pa _
  exact fits_renumber π g g' p.toLG h p.n a pa [] []

theorem isFG_renumber (π : Nat → Nat) (g g' : LG) (h : Renum π g g') (tbl : FGTable) (name : String)
    (a : Nat) : isFG tbl g' name (π a) = isFG tbl g name a := by
  unfold isFG checkFunctionalGroup
  simp only [patternMatch_renumber π g g' h]

/-- the anti-pattern loop with its `break` is a conjunction -/
theorem antiLoop_eq (pm : GData → Bool) (aps : List GData) :
    ∀ init : Bool, aps.foldl (fun acc ap => if !acc then acc else acc && !pm ap) init
      = (init && aps.all (fun ap => !pm ap)) := by
  induction aps with
  | nil => intro init; simp
  | cons x xs ih =>
    intro init
    simp only [List.foldl_cons, List.all_cons, ih]
    cases init <;> simp

/-- the pattern loop is a disjunction -/
theorem patLoop_eq (pm : GData → Bool) (pgs : List (GData × GData)) :
    ∀ init : Bool, pgs.foldl (fun acc pg => if pm pg.1 then acc || pm pg.2 else acc) init
      = (init || pgs.any (fun pg => pm pg.1 && pm pg.2)) := by
  induction pgs with
  | nil => intro init; simp
  | cons x xs ih =>
    intro init
    simp only [List.foldl_cons, List.any_cons, ih]
    cases pm x.1 <;> cases init <;> simp

/-! ### exported data -/

theorem nodupB_nodup : ∀ l : List Nat, GData.nodupB l = true → l.Nodup := by
  intro l
  induction l with
  | nil => intro _; exact List.nodup_nil
  | cons x xs ih =>
    intro h
    simp only [GData.nodupB, Bool.and_eq_true, Bool.not_eq_true', List.contains_eq_mem, decide_eq_false_iff_not] at h
    exact List.nodup_cons.2 ⟨h.1, ih h.2⟩

theorem patWF_of_wf (d : GData) (h : d.wf = true) : PatWF d.toLG d.n := by
  unfold GData.wf at h
  simp only [Bool.and_eq_true, List.all_eq_true, List.mem_range, beq_iff_eq, decide_eq_true_eq] at h
  constructor
  · intro x hx y hy
    exact ((((h.2 x hx).1 y hy).1).1).1
  · intro x hx
    exact nodupB_nodup _ (h.2 x hx).2

theorem wf_fields (d : GData) (h : d.wf = true) :
    d.nbrs.length = d.n ∧ (∀ t ∈ d.bonds, t.1 < d.n ∧ t.2.1 < d.n) := by
  unfold GData.wf at h
  simp only [Bool.and_eq_true, List.all_eq_true, beq_iff_eq, decide_eq_true_eq] at h
  exact ⟨h.1.1, h.1.2⟩

theorem nbrs_nil_of_ge (d : GData) (h : d.wf = true) (x : Nat) (hx : d.n ≤ x) : d.toLG.nbrs x = [] := by
  have hlen : d.nbrs.length ≤ x := by rw [(wf_fields d h).1]; exact hx
  simp [GData.toLG, List.getD, List.getElem?_eq_none hlen]

theorem sym_of_ge (d : GData) (x : Nat) (hx : d.n ≤ x) : d.toLG.sym x = "" := by
  have hlen : d.syms.length ≤ x := hx
  simp [GData.toLG, List.getD, List.getElem?_eq_none hlen]

theorem bondType_zero (d : GData) (h : d.wf = true) (i j : Nat) (hij : d.n ≤ i ∨ d.n ≤ j) :
    d.bondType i j = 0 := by
  unfold GData.bondType
  have : d.bonds.find? (fun t => (t.1 == i && t.2.1 == j) || (t.1 == j && t.2.1 == i)) = none := by
    rw [List.find?_eq_none]
    intro t ht
    have hr := (wf_fields d h).2 t ht
    simp only [Bool.or_eq_true, Bool.and_eq_true, beq_iff_eq]
    rintro (⟨h1, h2⟩ | ⟨h1, h2⟩) <;> omega
  rw [this]

/-- the check the driver runs on every `Chem.RenumberAtoms` instance implies the hypothesis of the invariance theorem -/
theorem renum_of_renumB (perm : List Nat) (g g' : GData) (h : renumB perm g g' = true) :
    Renum (fun x => perm.getD x x) g.toLG g'.toLG := by
  unfold renumB at h
  simp only [Bool.and_eq_true, List.all_eq_true, List.mem_range, beq_iff_eq, decide_eq_true_eq, Bool.or_eq_true,
    bne_iff_ne, ne_eq, List.isPerm_iff] at h
  obtain ⟨⟨⟨⟨hg, hg'⟩, hlen⟩, hn'⟩, hall⟩ := h
  have hout : ∀ x, g.n ≤ x → perm.getD x x = x := by
    intro x hx
    have : perm.length ≤ x := by rw [hlen]; exact hx
    simp [List.getD, List.getElem?_eq_none this]
  have hin : ∀ x, x < g.n → perm.getD x x < g.n := fun x hx => (((((hall x hx).1).1).1).1)
  constructor
  · intro x y hxy
    by_cases hx : x < g.n <;> by_cases hy : y < g.n
    · rcases ((((hall x hx).1).1).1).2 y hy with hne | he
      · exact absurd hxy hne
      · exact he
    · have := hin x hx
      rw [hout y (by omega)] at hxy
      omega
    · have := hin y hy
      rw [hout x (by omega)] at hxy
      omega
    · rw [hout x (by omega), hout y (by omega)] at hxy
      exact hxy
  · intro x
    by_cases hx : x < g.n
    · exact (((hall x hx).1).1).2
    · show _ = _
      rw [hout x (by omega), sym_of_ge g x (by omega), sym_of_ge g' x (by omega)]
  · intro x
    by_cases hx : x < g.n
    · exact ((hall x hx).1).2
    · show List.Perm _ _
      rw [hout x (by omega), nbrs_nil_of_ge g hg x (by omega), nbrs_nil_of_ge g' hg' x (by omega)]
      exact List.Perm.nil
  · intro x y
    by_cases hx : x < g.n <;> by_cases hy : y < g.n
    · exact (hall x hx).2 y hy
    · show _ = _
      rw [hout y (by omega)]
      show g'.bondType _ _ = g.bondType _ _
      rw [bondType_zero g hg x y (by omega), bondType_zero g' hg' _ y (by omega)]
    · show _ = _
      rw [hout x (by omega)]
      show g'.bondType _ _ = g.bondType _ _
      rw [bondType_zero g hg x y (by omega), bondType_zero g' hg' x _ (by omega)]
    · show _ = _
      rw [hout x (by omega), hout y (by omega)]
      show g'.bondType _ _ = g.bondType _ _
      rw [bondType_zero g hg x y (by omega), bondType_zero g' hg' x y (by omega)]

/-! ### the reference search finds every occurrence -/

theorem searchAssign_complete {α β} (Q : β → α → Bool) (final : List α → Bool) (f : β → α) (qs : List β) :
    ∀ (an acc : List α), qs.Nodup → (∀ q ∈ qs, f q ∈ an) → (∀ q ∈ qs, ∀ q' ∈ qs, f q = f q' → q = q') →
      (∀ q ∈ qs, Q q (f q) = true) → final (acc.reverse ++ qs.map f) = true →
      searchAssign Q final qs an acc = true := by
  induction qs with
  | nil => intro an acc _ _ _ _ hf; simpa [searchAssign] using hf
  | cons q qs ih =>
    intro an acc hnd hmem hinj hQ hf
    simp only [searchAssign, List.any_eq_true, Bool.and_eq_true]
    obtain ⟨r, hr⟩ := exists_picks_of_mem (hmem q (by simp))
    refine ⟨(f q, r), hr, hQ q (by simp), ih r (f q :: acc) (List.nodup_cons.1 hnd).2 ?_ ?_ ?_ ?_⟩
    · intro q' hq'
      have h1 : f q' ∈ f q :: r := (mem_picks_perm hr).mem_iff.1 (hmem q' (by simp [hq']))
      rcases List.mem_cons.1 h1 with h1 | h1
      · have := hinj q' (by simp [hq']) q (by simp) h1
        subst this
        exact absurd hq' (List.nodup_cons.1 hnd).1
      · exact h1
    · intro a ha b hb; exact hinj a (by simp [ha]) b (by simp [hb])
    · intro a ha; exact hQ a (by simp [ha])
    · simpa using hf

/-- an occurrence of the pattern graph `p` in the molecule graph `g` that contains atom `a` -/
structure Occurrence (g p : GData) (f : Nat → Nat) (a : Nat) : Prop where
  emb : Embedding g.toLG p.toLG p.n f
  range : ∀ x, x < p.n → f x < g.n
  hit : ∃ pa, pa < p.n ∧ f pa = a

theorem occurs_of_occurrence (g p : GData) (hp : ∀ x, x < p.n → ∀ y ∈ p.toLG.nbrs x, y < p.n)
    (f : Nat → Nat) (a : Nat) (h : Occurrence g p f a) :
    occurs g p a = true := by
  unfold occurs
  have hget : ∀ x, x < p.n → ((List.range p.n).map f).getD x 0 = f x := by
    intro x hx
    simp [List.getD, hx]
  apply searchAssign_complete _ _ f
  · exact List.nodup_range
  · intro q hq; exact List.mem_range.2 (h.range q (List.mem_range.1 hq))
  · intro q hq q' hq'; exact h.emb.inj q q' (List.mem_range.1 hq) (List.mem_range.1 hq')
  · intro q hq
    simp only [beq_iff_eq]
    exact (h.emb.sym q (List.mem_range.1 hq)).symm
  · simp only [List.reverse_nil, List.nil_append, Bool.and_eq_true]
    constructor
    · obtain ⟨pa, hpa, hfa⟩ := h.hit
      simp only [List.contains_eq_mem, decide_eq_true_eq, List.mem_map, List.mem_range]
      exact ⟨pa, hpa, hfa⟩
    · unfold edgesOK
      simp only [List.all_eq_true, List.mem_range, Bool.and_eq_true, beq_iff_eq, List.contains_eq_mem,
        decide_eq_true_eq]
      intro x hx y hy
      have hyn : y < p.n := hp x hx y hy
      rw [hget x hx, hget y hyn]
      exact h.emb.adj x hx y hy

/-! ### decidable checks on a configuration table (discharged on `Generated.fgConfig` in `Properties/C16.lean`) -/

def allGraphs (cfg : FGConfig) : List GData := cfg.pattern ++ cfg.groups ++ cfg.antiPattern

/-- every graph is well-formed and non-empty; `zip(pattern, groups)` truncates nothing; at least one pattern -/
def cfgWF (cfg : FGConfig) : Bool :=
  (allGraphs cfg).all (fun d => d.wf && decide (0 < d.n)) &&
    cfg.pattern.length == cfg.groups.length && !cfg.pattern.isEmpty

/-- the re-sort inside `check_functional_group` finds the anti-patterns already sorted -/
def antiSorted (cfg : FGConfig) : Bool := sortDesc GData.n cfg.antiPattern == cfg.antiPattern

def maxSizeOK (cfg : FGConfig) : Bool :=
  cfg.maxPatternSize == ((cfg.pattern ++ cfg.antiPattern).map GData.n).foldl max 0

/-- what is left of a graph when every atom outside `atoms` is removed (RDKit `RemoveAtom`, highest index first:
the remaining atoms keep their relative order, neighbour lists and the bond list keep theirs) -/
def induced (p : GData) (atoms : List Nat) : GData :=
  let kept := fun i => atoms.contains i
  let rank := fun i => ((List.range i).filter kept).length
  { syms := ((List.range p.n).filter kept).map (fun i => p.syms.getD i ""),
    nbrs := ((List.range p.n).filter kept).map (fun i => ((p.nbrs.getD i []).filter kept).map rank),
    bonds := (p.bonds.filter (fun t => kept t.1 && kept t.2.1)).map (fun t => (rank t.1, rank t.2.1, t.2.2)) }

/-- `groups` is the pattern list itself when `group_atoms` is absent, otherwise each pattern cut down to
`group_atoms`, all of which are atoms of every pattern -/
def groupsOK (cfg : FGConfig) (ga : Option (List Nat)) : Bool :=
  match ga with
  | none => cfg.groups == cfg.pattern
  | some atoms =>
    cfg.pattern.all (fun p => atoms.all (fun i => decide (i < p.n))) &&
      cfg.groups == cfg.pattern.map (fun p => induced p atoms)

def tableOK (tbl : FGTable) (gas : List (String × Option (List Nat))) : Bool :=
  GData.nodupS (tbl.map (·.1)) && tbl.map (·.1) == gas.map (·.1) &&
    tbl.all (fun e => cfgWF e.2 && antiSorted e.2 && maxSizeOK e.2) &&
    (tbl.zip gas).all (fun eg => groupsOK eg.1.2 eg.2.2)

/-- a left inverse of `π` gives a renumbered copy of any graph (neighbour lists reversed, to show that their order
is free) -/
def renumbered (π πinv : Nat → Nat) (g : LG) : LG :=
  ⟨fun x => g.sym (πinv x), fun x => ((g.nbrs (πinv x)).map π).reverse, fun x y => g.bond (πinv x) (πinv y)⟩

theorem renum_renumbered (π πinv : Nat → Nat) (hinv : ∀ x, πinv (π x) = x) (g : LG) :
    Renum π g (renumbered π πinv g) := by
  constructor
  · intro x y h
    have := congrArg πinv h
    simpa [hinv] using this
  · intro x; simp [renumbered, hinv]
  · intro x; simp only [renumbered, hinv]; exact List.reverse_perm _
  · intro x y; simp [renumbered, hinv]

end SynRBL.FG
