import SynRBLModel.Model.Decompose
import SynRBLModel.Proofs.Compare
/-!
# `decompose` counts exactly
-/
namespace SynRBL
open Dict

/-- number of atoms that the table names `s` -/
def symCount (t : SymTable) (s : String) (atoms : List Atom) : Nat :=
  (atoms.filter fun a => symbolOf t a == s).length

theorem foldl_incr_val (t : SymTable) (atoms : List Atom) (d : Dict) (k : Key) :
    (atoms.foldl (fun d a => d.incr (symbolOf t a) 1) d).val k = d.val k + (symCount t k atoms : Int) := by
  induction atoms generalizing d with
  | nil => simp [symCount]
  | cons a as ih =>
    simp only [List.foldl_cons]
    rw [ih, val_incr]
    simp only [symCount, List.filter_cons]
    by_cases h : symbolOf t a = k
    · simp [h]; omega
    · simp [h]

theorem foldl_incr_wf (t : SymTable) (atoms : List Atom) (d : Dict) (h : d.WF) :
    (atoms.foldl (fun d a => d.incr (symbolOf t a) 1) d).WF := by
  induction atoms generalizing d with
  | nil => exact h
  | cons a as ih => exact ih _ (wf_incr _ _ _ h)

/-- every stored value is positive -/
def Dict.Pos (d : Dict) : Prop := ∀ kv ∈ d, 0 < kv.2

theorem Dict.pos_set (d : Dict) (k : Key) (v : Int) (hv : 0 < v) (h : d.Pos) : (d.set k v).Pos := by
  induction d with
  | nil => intro kv hkv; simp [Dict.set] at hkv; subst hkv; exact hv
  | cons a t ih =>
    obtain ⟨k', v'⟩ := a
    simp only [Dict.set]
    split
    · intro kv hkv
      rcases List.mem_cons.1 hkv with h1 | h1
      · subst h1; exact hv
      · exact h kv (List.mem_cons_of_mem _ h1)
    · intro kv hkv
      rcases List.mem_cons.1 hkv with h1 | h1
      · subst h1; exact h _ (List.mem_cons_self ..)
      · exact ih (fun kv hkv => h kv (List.mem_cons_of_mem _ hkv)) kv h1

theorem Dict.val_nonneg_of_pos (d : Dict) (h : d.Pos) (k : Key) : 0 ≤ d.val k := by
  induction d with
  | nil => simp
  | cons a t ih =>
    obtain ⟨k', v'⟩ := a
    rw [val_cons]; split
    · exact Int.le_of_lt (h _ (List.mem_cons_self ..))
    · exact ih (fun kv hkv => h kv (List.mem_cons_of_mem _ hkv))

theorem foldl_incr_pos (t : SymTable) (atoms : List Atom) (d : Dict) (h : d.Pos) :
    (atoms.foldl (fun d a => d.incr (symbolOf t a) 1) d).Pos := by
  induction atoms generalizing d with
  | nil => exact h
  | cons a as ih =>
    apply ih
    unfold Dict.incr
    apply Dict.pos_set _ _ _ _ h
    have := Dict.val_nonneg_of_pos d h (symbolOf t a)
    omega

theorem countAtoms_val (t : SymTable) (atoms : List Atom) (k : Key) :
    (countAtoms t atoms).val k = (symCount t k atoms : Int) := by
  unfold countAtoms; rw [foldl_incr_val]; simp

theorem countAtoms_wf (t : SymTable) (atoms : List Atom) : (countAtoms t atoms).WF :=
  foldl_incr_wf t atoms [] (by simp [WF])

theorem countAtoms_pos (t : SymTable) (atoms : List Atom) : (countAtoms t atoms).Pos :=
  foldl_incr_pos t atoms [] (by intro kv h; simp at h)

theorem decompose_wf (t : SymTable) (atoms : List Atom) : (decompose t atoms).WF := by
  unfold decompose; simp only
  split
  · exact wf_set _ _ _ (countAtoms_wf t atoms)
  · exact countAtoms_wf t atoms

theorem Dict.noZero_set (d : Dict) (k : Key) (v : Int) (hv : v ≠ 0) (h : d.NoZero) : (d.set k v).NoZero := by
  induction d with
  | nil => intro kv hkv; simp [Dict.set] at hkv; subst hkv; exact hv
  | cons a t ih =>
    obtain ⟨k', v'⟩ := a
    simp only [Dict.set]
    split
    · intro kv hkv
      rcases List.mem_cons.1 hkv with h1 | h1
      · subst h1; exact hv
      · exact h kv (List.mem_cons_of_mem _ h1)
    · intro kv hkv
      rcases List.mem_cons.1 hkv with h1 | h1
      · subst h1; exact h _ (List.mem_cons_self ..)
      · exact ih (fun kv hkv => h kv (List.mem_cons_of_mem _ hkv)) kv h1

theorem decompose_noZero (t : SymTable) (atoms : List Atom) : (decompose t atoms).NoZero := by
  have hp : (countAtoms t atoms).NoZero := fun kv hkv => Int.ne_of_gt (countAtoms_pos t atoms kv hkv)
  unfold decompose; simp only
  split
  · rename_i h; exact Dict.noZero_set _ _ _ h hp
  · exact hp

/-- value of `decompose` at any key -/
theorem decompose_val (t : SymTable) (atoms : List Atom) (k : Key) :
    (decompose t atoms).val k =
      if k = "Q" ∧ totalCharge atoms ≠ 0 then totalCharge atoms else (symCount t k atoms : Int) := by
  unfold decompose; simp only
  split
  · rename_i h
    rw [val_set]
    by_cases hk : "Q" = k
    · subst hk; simp [h]
    · have : ¬ (k = "Q") := fun e => hk e.symm
      simp [hk, this, countAtoms_val]
  · rename_i h
    simp only [ne_eq, Decidable.not_not] at h
    simp [h, countAtoms_val]

theorem symCount_append (t : SymTable) (s : String) (a b : List Atom) :
    symCount t s (a ++ b) = symCount t s a + symCount t s b := by
  simp [symCount, List.filter_append]

theorem totalCharge_append (a b : List Atom) : totalCharge (a ++ b) = totalCharge a + totalCharge b := by
  simp [totalCharge]

end SynRBL
