import SynRBLModel.Proofs.Pipeline3
/-!
# What needs the "water adds no carbon" law: no late solve, empty issue of solved rows, carbon deficit
-/
namespace SynRBL
open Str

variable (O : Oracle)

/-- oracle law: appending water molecules to a reaction string does not change its carbon label
(`CheckCarbonBalance.count_atoms` of `…​.O.O` equals that of `…`). Monitored by the harness on every traced
row into which the rule-based stage inserted water. -/
def WaterCarbonLaw : Prop := ∀ (s : Str) (k : Nat), labelOf O (s ++ rep (str ".O") k) = labelOf O s

theorem rbStage_congr (cfg : Config) (r r' : Row) (h1 : r.reaction = r'.reaction) (h2 : r.carbon = r'.carbon) :
    (rbStage O cfg r).reaction = (rbStage O cfg r').reaction := by
  unfold rbStage rbOut
  rw [h1, h2]
  split <;> simp_all

/-- on a row whose carbon label is not `balanced` the rule-based stage only inserts water -/
theorem rbStage_unbalanced_label (cfg : Config) (r : Row) (h : r.carbon ≠ .balanced) :
    ∃ k, (rbStage O cfg r).reaction = r.reaction ++ rep (str ".O") k := by
  unfold rbStage rbOut
  cases hs : sidesOf r.reaction with
  | none => exact ⟨0, by simp [rep]⟩
  | some ab =>
    obtain ⟨a, b⟩ := ab
    obtain ⟨rest, hsp⟩ := sidesOf_some _ _ _ hs
    simp only []
    unfold rbRow
    simp only [hsp, h, if_false]
    exact ⟨_, rfl⟩

/-- **no late solve**: a row that is unsolved after the rule-based check and whose imputation did not succeed
stays unsolved -/
theorem no_late_solve (hW : WaterCarbonLaw O) (cfg : Config) (s : Str)
    (h3 : (pc3 O cfg s).solved = false) (himp : (imputeStage O (pc4 O cfg s)).2 = false) :
    (pc9 O cfg s).solved = false := by
  obtain ⟨a1, a2, a3, _, _, _, a7, _, _⟩ := pc1_spec O s
  -- stage 3
  have u3 := validate_unsolved O .rule false true none (pc2 O cfg s) h3
  have h2 : (pc2 O cfg s).solved = false := u3.1
  have h1 : (pc1 O s).solved = false := by
    have := h2; unfold pc2 at this; rw [(rbStage_fields O _ _).2.1] at this; exact this
  have c2 : (pc2 O cfg s).carbon = labelOf O s := by
    unfold pc2; rw [(rbStage_fields O _ _).2.2.2.2.1]; exact a3
  have r3 : (pc3 O cfg s).reaction = s := by
    unfold pc3; rw [u3.2.2.2.1 rfl]; exact (pc_input O cfg s).2.1
  have c3 : (pc3 O cfg s).carbon = labelOf O s := by
    unfold pc3; rw [u3.2.2.2.2.2]; simpa using c2
  have n3 : ¬ (verdictOf O (pc2 O cfg s).reaction = .balance ∧ labelOf O s = .balanced) := by
    intro hh; apply u3.2.2.1; refine ⟨hh.1, ?_⟩; simpa [c2] using hh.2
  -- stages 4, 5
  have r5 : (pc5 O cfg s).reaction = s := by
    unfold pc5; rw [(imputeStage_reaction O _).1 himp]; unfold pc4
    rw [(searchStage_fields O _).2.1]; exact r3
  have c5 : (pc5 O cfg s).carbon = labelOf O s := by
    unfold pc5 pc4; rw [(imputeStage_fields O _).2.2.2.1, (searchStage_fields O _).2.2.2.2.1]; exact c3
  have h5 : (pc5 O cfg s).solved = false := by
    unfold pc5 pc4; rw [(imputeStage_fields O _).2.1, (searchStage_fields O _).2.2.1]; exact h3
  -- stage 6
  have h6 : (pc6 O cfg s).solved = false := by
    cases hs : (pc6 O cfg s).solved with
    | false => rfl
    | true =>
      have := validate_newly_solved O .mcs true false none (pc5 O cfg s) h5 hs
      rw [r5] at this
      have hb := a7.2 ⟨this.1, by simpa using this.2.1⟩
      rw [h1] at hb; cases hb
  have u6 := validate_unsolved O .mcs true false none (pc5 O cfg s) h6
  have r6 : (pc6 O cfg s).reaction = s := by unfold pc6; rw [(u6.2.2.2.2.1 rfl).1]; exact r5
  have c6 : (pc6 O cfg s).carbon = labelOf O s := by unfold pc6; rw [u6.2.2.2.2.2]; simp [r5]
  -- stage 7: nothing to curate
  have e7 : pc7 O cfg s = pc6 O cfg s := by
    have hsb : (pc6 O cfg s).solvedBy = none := by
      have := (preInv_pc6 O cfg s).sb
      rw [h6] at this
      cases hx : (pc6 O cfg s).solvedBy with
      | none => rfl
      | some _ => rw [hx] at this; cases this
    unfold pc7 postStage; simp [hsb]
  -- stage 8 repeats stage 2
  have r8 : (pc8 O cfg s).reaction = (pc2 O cfg s).reaction := by
    unfold pc8 pc2
    apply rbStage_congr
    · rw [e7, r6, a2]
    · rw [e7, c6, a3]
  have h8 : (pc8 O cfg s).solved = false := by
    unfold pc8; rw [(rbStage_fields O _ _).2.1, e7]; exact h6
  -- stage 9
  cases hs : (pc9 O cfg s).solved with
  | false => rfl
  | true =>
    exfalso
    have := validate_newly_solved O .mcs true true (some finalMsg) (pc8 O cfg s) h8 hs
    rw [r8] at this
    have hv := this.1
    have hl : labelOf O (pc2 O cfg s).reaction = .balanced := by simpa using this.2.1
    have hnb : labelOf O s ≠ .balanced := fun hh => n3 ⟨hv, hh⟩
    obtain ⟨k, hk⟩ := rbStage_unbalanced_label O cfg (pc1 O s) (by rw [a3]; exact hnb)
    have : (pc2 O cfg s).reaction = s ++ rep (str ".O") k := by unfold pc2; rw [hk, a2]
    rw [this, hW] at hl
    exact hnb hl

/-- rows that were solved before the MCS stage never get an issue -/
structure NoIssue (r : Row) : Prop where
  solved : r.solved = true
  issue : r.issue = none
  noMcs : r.hasMcs = false
  notMcs : r.solvedBy ≠ some .mcs

theorem noIssue_validate {r : Row} (h : NoIssue r) (m : Method) (c o : Bool) (msg : Option Str) :
    NoIssue (validate O m c o msg r) := by
  obtain ⟨_, g2, g3, g4, _, _⟩ := validate_solved_fields O m c o msg r h.solved
  exact ⟨g2, by rw [g4]; exact h.issue, by rw [(validate_frame O m c o msg r).1]; exact h.noMcs,
    by rw [g3]; exact h.notMcs⟩

theorem noIssue_rbStage {r : Row} (h : NoIssue r) (cfg : Config) : NoIssue (rbStage O cfg r) := by
  obtain ⟨_, f2, f3, f4, _, _, f7, _⟩ := rbStage_fields O cfg r
  exact ⟨by rw [f2]; exact h.solved, by rw [f4]; exact h.issue, by rw [f7]; exact h.noMcs,
    by rw [f3]; exact h.notMcs⟩

theorem noIssue_postStage {r : Row} (h : NoIssue r) : NoIssue (postStage O r) := by
  obtain ⟨_, f2, f3, f4, _, f6, _⟩ := postStage_fields O r
  exact ⟨by rw [f2]; exact h.solved, by rw [f4]; exact h.issue, by rw [f6]; exact h.noMcs,
    by rw [f3]; exact h.notMcs⟩

theorem noIssue_revert {r : Row} (h : NoIssue r) : NoIssue (revertStage r) := by
  obtain ⟨_, f2, f3, f4, _, _, f7, _⟩ := revertStage_fields r
  exact ⟨by rw [f2]; exact h.solved, by rw [f4]; exact h.issue, by rw [f7]; exact h.noMcs,
    by rw [f3]; exact h.notMcs⟩

theorem pc3_issue_none (cfg : Config) (s : Str) (h : (pc3 O cfg s).solved = true) :
    NoIssue (pc3 O cfg s) := by
  obtain ⟨_, _, _, a4, _, _, _, a8, a9⟩ := pc1_spec O s
  have i2 : (pc2 O cfg s).issue = none := by unfold pc2; rw [(rbStage_fields O _ _).2.2.2.1]; exact a4
  refine ⟨h, ?_, pc3_hasMcs O cfg s, ?_⟩
  · cases hs : (pc2 O cfg s).solved with
    | true => unfold pc3; rw [(validate_solved_fields O _ _ _ _ _ hs).2.2.2.1]; exact i2
    | false => unfold pc3 at h ⊢; rw [(validate_newly_solved O _ _ _ _ _ hs h).2.2.2.2.1]; exact i2
  · cases hs : (pc2 O cfg s).solved with
    | true =>
      unfold pc3; rw [(validate_solved_fields O _ _ _ _ _ hs).2.2.1]
      unfold pc2; rw [(rbStage_fields O _ _).2.2.1]
      have h1 : (pc1 O s).solved = true := by
        have := hs; unfold pc2 at this; rw [(rbStage_fields O _ _).2.1] at this; exact this
      rw [a8 h1]; simp
    | false => unfold pc3 at h ⊢; rw [(validate_newly_solved O _ _ _ _ _ hs h).2.2.2.1]; simp

/-- **a solved row has an empty or absent issue** (given the water law) -/
theorem solved_has_no_issue (hW : WaterCarbonLaw O) (cfg : Config) (s : Str)
    (h : (runRow O cfg s).solved = true) :
    (runRow O cfg s).issue = none ∨ (runRow O cfg s).issue = some [] := by
  cases h3 : (pc3 O cfg s).solved with
  | true =>
    left
    have n3 := pc3_issue_none O cfg s h3
    have n4 : NoIssue (pc4 O cfg s) := by unfold pc4; rw [searchStage_of_solved O _ h3]; exact n3
    have n5 : NoIssue (pc5 O cfg s) := by unfold pc5; rw [imputeStage_no_mcs O _ n4.noMcs]; exact n4
    have n10 : NoIssue (revertStage (pc9 O cfg s)) :=
      noIssue_revert (noIssue_validate O (noIssue_rbStage O (noIssue_postStage O (noIssue_validate O n5 _ _ _ _)) cfg)
        _ _ _ _)
    unfold runRow; rw [preConf_eq]; unfold confStage
    simp only [n10.notMcs, if_false]; exact n10.issue
  | false =>
    right
    have hs10 : (preConf O cfg s).solved = true := by
      unfold runRow at h; exact (confStage_fields O _ _).2.2.2.2 h
    rw [preConf_eq, (revertStage_fields _).2.1] at hs10
    have himp : (imputeStage O (pc4 O cfg s)).2 = true := by
      cases hi : (imputeStage O (pc4 O cfg s)).2 with
      | true => rfl
      | false => rw [no_late_solve O hW cfg s h3 hi] at hs10; cases hs10
    have i4 : (pc4 O cfg s).issue.isSome = true := by unfold pc4; exact (searchStage_unsolved O _ h3).2.1
    have i5 : (pc5 O cfg s).issue = some [] := by
      obtain ⟨_, e, g, _⟩ := (imputeStage_reaction O (pc4 O cfg s)).2 himp
      unfold pc5; rw [e]
      cases hx : (pc4 O cfg s).issue with
      | none => rw [hx] at i4; cases i4
      | some x => rw [hx] at g; simpa using g
    -- validators keep the issue of a row that ends solved or is not overridden
    have keep : ∀ (m : Method) (c o : Bool) (msg : Option Str) (r : Row),
        ((validate O m c o msg r).solved = true ∨ o = false) → (validate O m c o msg r).issue = r.issue := by
      intro m c o msg r hh
      cases hs : r.solved with
      | true => exact (validate_solved_fields O m c o msg r hs).2.2.2.1
      | false =>
        cases h1 : (validate O m c o msg r).solved with
        | true => exact (validate_newly_solved O m c o msg r hs h1).2.2.2.2.1
        | false =>
          rcases hh with hh | hh
          · rw [h1] at hh; cases hh
          · exact ((validate_unsolved O m c o msg r h1).2.2.2.2.1 hh).2
    have i6 : (pc6 O cfg s).issue = some [] := by unfold pc6; rw [keep _ _ _ _ _ (Or.inr rfl)]; exact i5
    have i8 : (pc8 O cfg s).issue = some [] := by
      unfold pc8 pc7; rw [(rbStage_fields O _ _).2.2.2.1, (postStage_fields O _).2.2.2.1]; exact i6
    have i9 : (pc9 O cfg s).issue = some [] := by unfold pc9; rw [keep _ _ _ _ _ (Or.inl hs10)]; exact i8
    have i10 : (preConf O cfg s).issue = some [] := by
      rw [preConf_eq, (revertStage_fields _).2.2.2.1]; exact i9
    unfold runRow at h ⊢
    unfold confStage at h ⊢
    split
    · split
      · exact i10
      · rename_i h1 h2; simp [h1, h2] at h
    · exact i10

/-- **a reaction whose products contain more carbon than its reactants is always declined** -/
theorem carbon_deficit_declined (hW : WaterCarbonLaw O) (cfg : Config) (s : Str)
    (hc : labelOf O s = .reactants) : (runRow O cfg s).solved = false := by
  obtain ⟨_, _, a3, _, _, _, a7, _, _⟩ := pc1_spec O s
  have c2 : (pc2 O cfg s).carbon = .reactants := by
    unfold pc2; rw [(rbStage_fields O _ _).2.2.2.2.1, a3]; exact hc
  have h1 : (pc1 O s).solved = false := by
    cases hs : (pc1 O s).solved with
    | false => rfl
    | true => have := (a7.1 hs).2; rw [hc] at this; cases this
  have h2 : (pc2 O cfg s).solved = false := by unfold pc2; rw [(rbStage_fields O _ _).2.1]; exact h1
  have h3 : (pc3 O cfg s).solved = false := by
    cases hs : (pc3 O cfg s).solved with
    | false => rfl
    | true =>
      have := (validate_newly_solved O .rule false true none _ h2 hs).2.1
      simp only [Bool.false_eq_true, if_false] at this
      rw [c2] at this; cases this
  have c4 : (pc4 O cfg s).carbon = .reactants := by
    unfold pc4 pc3
    rw [(searchStage_fields O _).2.2.2.2.1, (validate_unsolved O _ _ _ _ _ h3).2.2.2.2.2]
    simpa using c2
  have himp : (imputeStage O (pc4 O cfg s)).2 = false := by
    cases hi : (imputeStage O (pc4 O cfg s)).2 with
    | false => rfl
    | true => exact absurd c4 ((imputeStage_reaction O _).2 hi).2.2.2.2
  have h9 := no_late_solve O hW cfg s h3 himp
  cases hs : (runRow O cfg s).solved with
  | false => rfl
  | true =>
    unfold runRow at hs
    have := (confStage_fields O _ _).2.2.2.2 hs
    rw [preConf_eq, (revertStage_fields _).2.1, h9] at this; cases this

end SynRBL
