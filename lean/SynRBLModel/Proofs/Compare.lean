import SynRBLModel.Model.Compare
/-!
# The contract of the side comparison

`compareDicts`/`diffDicts` are what the rule-based stage relies on: a verdict `Products` promises that adding
the difference formula to the product side reproduces the reactant side, key by key, charge included.
-/
namespace SynRBL
open Dict

theorem Dict.val_append (a b : Dict) (k : Key) :
    Dict.val (a ++ b) k = if a.contains k then a.val k else b.val k := by
  induction a with
  | nil => simp
  | cons h t ih =>
    obtain ⟨k', v'⟩ := h
    simp only [List.cons_append, val_cons, contains_cons, ih]
    by_cases hk : k' = k <;> simp [hk]

theorem Dict.contains_append (a b : Dict) (k : Key) :
    Dict.contains (a ++ b) k = (a.contains k || b.contains k) := by
  induction a with
  | nil => simp
  | cons h t ih =>
    obtain ⟨k', v'⟩ := h
    simp only [List.cons_append, contains_cons, ih, Bool.or_assoc]

/-- a key-preserving `filterMap` -/
theorem Dict.get?_filterMap (d : Dict) (hd : d.WF) (f : Key × Int → Option (Key × Int))
    (hf : ∀ kv kv', f kv = some kv' → kv'.1 = kv.1) (k : Key) :
    Dict.get? (d.filterMap f) k =
      match d.get? k with
      | none => none
      | some v => (f (k, v)).map (·.2) := by
  induction d with
  | nil => simp [get?]
  | cons h t ih =>
    obtain ⟨k', v'⟩ := h
    simp only [WF, keys_cons, List.nodup_cons] at hd
    simp only [List.filterMap_cons, get?]
    by_cases hk : k' = k
    · subst hk
      simp only [if_true]
      cases hfv : f (k', v') with
      | none =>
        simp only [Option.map_none]
        rw [ih hd.2]
        have : Dict.get? t k' = none := by
          have := (contains_eq_false_iff t k').2 hd.1
          simpa [contains] using this
        rw [this]
      | some kv' =>
        have := hf _ _ hfv
        simp only [get?, Option.map_some]
        simp only at this
        simp [this]
    · simp only [hk, if_false]
      cases hfv : f (k', v') with
      | none => simpa using ih hd.2
      | some kv' =>
        have := hf _ _ hfv
        simp only at this
        simp only [get?, this, hk, if_false]
        exact ih hd.2

theorem Dict.get?_eq_some_val (d : Dict) (k : Key) (h : d.contains k = true) :
    d.get? k = some (d.val k) := by
  unfold contains at h; unfold val
  cases hg : d.get? k with
  | none => simp [hg] at h
  | some v => simp

theorem Dict.get?_eq_none (d : Dict) (k : Key) (h : d.contains k = false) : d.get? k = none := by
  unfold contains at h
  cases hg : d.get? k with
  | none => rfl
  | some v => simp [hg] at h

theorem Dict.val_filterMap (d : Dict) (hd : d.WF) (f : Key × Int → Option (Key × Int))
    (hf : ∀ kv kv', f kv = some kv' → kv'.1 = kv.1) (k : Key) :
    Dict.val (d.filterMap f) k =
      if d.contains k then (match f (k, d.val k) with | none => 0 | some kv' => kv'.2) else 0 := by
  unfold Dict.val
  rw [Dict.get?_filterMap d hd f hf k]
  cases hc : d.contains k with
  | true =>
    rw [Dict.get?_eq_some_val d k hc]
    simp only [if_true, Option.getD_some]
    cases f (k, d.val k) <;> simp
  | false => rw [Dict.get?_eq_none d k hc]; simp

theorem Dict.contains_filterMap (d : Dict) (f : Key × Int → Option (Key × Int))
    (hf : ∀ kv kv', f kv = some kv' → kv'.1 = kv.1) (k : Key)
    (h : Dict.contains (d.filterMap f) k = true) : d.contains k = true := by
  rw [contains_iff] at h ⊢
  obtain ⟨kv', hm, rfl⟩ := List.mem_map.1 h
  obtain ⟨kv, hkv, hfk⟩ := List.mem_filterMap.1 hm
  rw [hf kv kv' hfk]
  exact List.mem_map.2 ⟨kv, hkv, rfl⟩

/-- value of the difference formula at any key -/
theorem diffDicts_val (r p : Dict) (hr : r.WF) (hp : p.WF) (k : Key) :
    (diffDicts r p).val k =
      if r.contains k then
        (if p.contains k then ((r.val k - p.val k).natAbs : Int) else r.val k)
      else p.val k := by
  unfold diffDicts
  have hfA : ∀ kv kv' : Key × Int, (if p.contains kv.1 then
        (if (kv.2 - p.val kv.1).natAbs ≠ 0 then some (kv.1, ((kv.2 - p.val kv.1).natAbs : Int)) else none)
      else (if kv.2 ≠ 0 then some kv else none)) = some kv' → kv'.1 = kv.1 := by
    intro kv kv' h
    by_cases h1 : p.contains kv.1 = true
    · rw [if_pos h1] at h
      by_cases h2 : (kv.2 - p.val kv.1).natAbs ≠ 0
      · rw [if_pos h2] at h; cases h; rfl
      · rw [if_neg h2] at h; cases h
    · rw [if_neg h1] at h
      by_cases h2 : kv.2 ≠ 0
      · rw [if_pos h2] at h; cases h; rfl
      · rw [if_neg h2] at h; cases h
  have hfB : ∀ kv kv' : Key × Int,
      (if (!r.contains kv.1 && decide (kv.2 ≠ 0)) = true then some kv else none) = some kv' → kv'.1 = kv.1 := by
    intro kv kv' h
    by_cases h1 : (!r.contains kv.1 && decide (kv.2 ≠ 0)) = true
    · rw [if_pos h1] at h; cases h; rfl
    · rw [if_neg h1] at h; cases h
  rw [Dict.val_append]
  have hA := Dict.val_filterMap r hr _ hfA k
  have hB := Dict.val_filterMap p hp _ hfB k
  have hcA := Dict.contains_filterMap r _ hfA k
  cases hrk : r.contains k with
  | true =>
    simp only [hrk, if_true] at hA hB ⊢
    -- the second part contributes nothing
    have hB0 : Dict.val (p.filterMap fun kv =>
        if (!r.contains kv.1 && decide (kv.2 ≠ 0)) = true then some kv else none) k = 0 := by
      rw [hB]; split <;> simp [hrk]
    rw [hB0]
    have hAv : Dict.val (r.filterMap fun kv => if p.contains kv.1 then
        (if (kv.2 - p.val kv.1).natAbs ≠ 0 then some (kv.1, ((kv.2 - p.val kv.1).natAbs : Int)) else none)
        else (if kv.2 ≠ 0 then some kv else none)) k =
        if p.contains k then ((r.val k - p.val k).natAbs : Int) else r.val k := by
      rw [hA]
      cases hpk : p.contains k with
      | true =>
        simp only [if_true]
        by_cases h2 : (r.val k - p.val k).natAbs ≠ 0
        · simp [h2]
        · simp only [h2, if_false]; simp only [ne_eq, Decidable.not_not] at h2; simp [h2]
      | false =>
        simp only [Bool.false_eq_true, if_false]
        by_cases h2 : r.val k ≠ 0
        · simp [h2]
        · simp only [h2, if_false]; simp only [ne_eq, Decidable.not_not] at h2; simp [h2]
    split
    · exact hAv
    · rename_i hnc
      rw [← hAv]
      exact (val_of_not_contains _ k (by simpa using hnc)).symm
  | false =>
    have hnA : Dict.contains (r.filterMap fun kv => if p.contains kv.1 then
        (if (kv.2 - p.val kv.1).natAbs ≠ 0 then some (kv.1, ((kv.2 - p.val kv.1).natAbs : Int)) else none)
        else (if kv.2 ≠ 0 then some kv else none)) k = false := by
      cases hc : Dict.contains _ k with
      | false => rfl
      | true => have := hcA hc; simp_all
    rw [hnA]
    simp only [Bool.false_eq_true, if_false]
    rw [hB]
    cases hpk : p.contains k with
    | true =>
      simp only [if_true, hrk, Bool.not_false, Bool.true_and]
      by_cases h2 : p.val k ≠ 0
      · simp [h2]
      · simp only [decide_eq_true_eq, h2, if_false]; simp only [ne_eq, Decidable.not_not] at h2; simp [h2]
    | false => simp [val_of_not_contains p k hpk]

theorem checkKeys_iff (d1 d2 : Dict) : checkKeys d1 d2 = true ↔ ∀ k, d2.contains k = true → d1.contains k = true := by
  unfold checkKeys
  simp only [List.all_eq_true]
  constructor
  · intro h k hk; exact h k ((contains_iff d2 k).1 hk)
  · intro h k hk; exact h k ((contains_iff d2 k).2 hk)

theorem all_keys_iff (d : Dict) (P : Key → Bool) :
    d.keys.all P = true ↔ ∀ k, d.contains k = true → P k = true := by
  simp only [List.all_eq_true]
  constructor
  · intro h k hk; exact h k ((contains_iff d k).1 hk)
  · intro h k hk; exact h k ((contains_iff d k).2 hk)

/-- **Products contract**: `p + diff = r` at every key (charge included). -/
theorem compare_products_contract (r p : Dict) (hr : r.WF) (hp : p.WF)
    (h : compareDicts r p = .products) (k : Key) :
    p.val k + (diffDicts r p).val k = r.val k := by
  rw [diffDicts_val r p hr hp]
  unfold compareDicts at h
  -- facts from the verdict: every key of p is in r, and r ≥ p on the keys of p
  have key : (∀ k, p.contains k = true → r.contains k = true) ∧
             (∀ k, p.contains k = true → r.val k ≥ p.val k) := by
    split at h
    · split at h
      · rename_i h2
        simp only [Bool.and_eq_true, Bool.not_eq_true'] at h2
        split at h
        · rename_i h3
          refine ⟨(checkKeys_iff r p).1 h2.1, ?_⟩
          intro k hk
          have := (all_keys_iff p _).1 h3 k hk
          simpa using this
        · cases h
      · split at h
        · split at h <;> cases h
        · cases h
    · rename_i h1
      simp only [Bool.not_eq_true, Bool.not_eq_false'] at h1
      unfold keysEq at h1
      simp only [Bool.and_eq_true] at h1
      split at h
      · cases h
      · split at h
        · rename_i h3
          refine ⟨(checkKeys_iff r p).1 h1.1, ?_⟩
          intro k hk
          have hrk := (checkKeys_iff r p).1 h1.1 k hk
          have := (all_keys_iff r _).1 h3 k hrk
          simpa using this
        · split at h <;> cases h
  cases hrk : r.contains k with
  | true =>
    cases hpk : p.contains k with
    | true =>
      have := key.2 k hpk
      simp only [if_true]; omega
    | false =>
      simp only [if_true, Bool.false_eq_true, if_false, val_of_not_contains p k hpk]; omega
  | false =>
    cases hpk : p.contains k with
    | true => have := key.1 k hpk; simp_all
    | false =>
      simp [val_of_not_contains p k hpk, val_of_not_contains r k hrk]

/-- **Reactants contract**: `r + diff = p` at every key (charge included). -/
theorem compare_reactants_contract (r p : Dict) (hr : r.WF) (hp : p.WF)
    (h : compareDicts r p = .reactants) (k : Key) :
    r.val k + (diffDicts r p).val k = p.val k := by
  rw [diffDicts_val r p hr hp]
  unfold compareDicts at h
  have key : (∀ k, r.contains k = true → p.contains k = true) ∧
             (∀ k, r.contains k = true → r.val k ≤ p.val k) := by
    split at h
    · split at h
      · split at h <;> cases h
      · split at h
        · rename_i h2
          simp only [Bool.and_eq_true, Bool.not_eq_true'] at h2
          split at h
          · rename_i h3
            refine ⟨(checkKeys_iff p r).1 h2.1, ?_⟩
            intro k hk
            have := (all_keys_iff r _).1 h3 k hk
            simpa using this
          · cases h
        · cases h
    · rename_i h1
      simp only [Bool.not_eq_true, Bool.not_eq_false'] at h1
      unfold keysEq at h1
      simp only [Bool.and_eq_true] at h1
      split at h
      · cases h
      · split at h
        · cases h
        · split at h
          · rename_i h3
            refine ⟨(checkKeys_iff p r).1 h1.2, ?_⟩
            intro k hk
            have := (all_keys_iff r _).1 h3 k hk
            simpa using this
          · cases h
  cases hrk : r.contains k with
  | true =>
    have hpk := key.1 k hrk
    have := key.2 k hrk
    simp only [hpk, if_true]; omega
  | false =>
    simp [val_of_not_contains r k hrk]

/-- **Balance verdict** ⇔ same key set and same value at every key. -/
theorem compare_balance_iff (r p : Dict) :
    compareDicts r p = .balance ↔
      (∀ k, r.contains k = p.contains k) ∧ (∀ k, r.val k = p.val k) := by
  unfold compareDicts
  constructor
  · intro h
    split at h
    · split at h
      · split at h <;> cases h
      · split at h
        · split at h <;> cases h
        · cases h
    · rename_i h1
      simp only [Bool.not_eq_true, Bool.not_eq_false'] at h1
      unfold keysEq at h1
      simp only [Bool.and_eq_true] at h1
      have hk : ∀ k, r.contains k = p.contains k := by
        intro k
        have a := (checkKeys_iff r p).1 h1.1 k
        have b := (checkKeys_iff p r).1 h1.2 k
        cases hr : r.contains k <;> cases hp : p.contains k <;> simp_all
      split at h
      · rename_i h3
        refine ⟨hk, ?_⟩
        intro k
        cases hrk : r.contains k with
        | true => simpa using (all_keys_iff r _).1 h3 k hrk
        | false =>
          rw [val_of_not_contains r k hrk, val_of_not_contains p k (by rw [← hk k]; exact hrk)]
      · split at h
        · cases h
        · split at h <;> cases h
  · rintro ⟨hk, hv⟩
    have h1 : keysEq r p = true := by
      unfold keysEq
      simp only [Bool.and_eq_true]
      exact ⟨(checkKeys_iff r p).2 (fun k h => by rw [hk k]; exact h),
             (checkKeys_iff p r).2 (fun k h => by rw [← hk k]; exact h)⟩
    simp only [h1, Bool.not_true, Bool.false_eq_true, if_false]
    have : r.keys.all (fun k => decide (r.val k = p.val k)) = true :=
      (all_keys_iff r _).2 (fun k _ => by simp [hv k])
    simp [this]

/-- no stored zero: what `decompose` produces -/
def Dict.NoZero (d : Dict) : Prop := ∀ kv ∈ d, kv.2 ≠ 0

theorem Dict.contains_iff_val_ne_zero (d : Dict) (hd : d.WF) (hz : d.NoZero) (k : Key) :
    d.contains k = true ↔ d.val k ≠ 0 := by
  constructor
  · intro h
    rw [contains_iff] at h
    obtain ⟨kv, hkv, rfl⟩ := List.mem_map.1 h
    rw [val_of_mem d hd kv.1 kv.2 hkv]
    exact hz kv hkv
  · intro h
    cases hc : d.contains k with
    | true => rfl
    | false => exact absurd (val_of_not_contains d k hc) h

/-- for compositions as the decomposer produces them, `Balance` ⇔ equal as functions `Key → Int` -/
theorem compare_balance_iff_val (r p : Dict) (hr : r.WF) (hp : p.WF) (zr : r.NoZero) (zp : p.NoZero) :
    compareDicts r p = .balance ↔ ∀ k, r.val k = p.val k := by
  rw [compare_balance_iff]
  constructor
  · exact fun h => h.2
  · intro h
    refine ⟨?_, h⟩
    intro k
    have a := Dict.contains_iff_val_ne_zero r hr zr k
    have b := Dict.contains_iff_val_ne_zero p hp zp k
    rw [h k] at a
    cases h1 : r.contains k <;> cases h2 : p.contains k <;> simp_all

end SynRBL
