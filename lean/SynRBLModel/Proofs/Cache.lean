import SynRBLModel.Model.Cache
/-!
# Lemmas about the cache state machine (C12)

The refinement invariant `CacheInv`, its preservation by every operation (runs, killed runs at every crash point,
failing writes, environment steps) and the per-batch specification of `processBatch`; file-name facts
(`splitext`, which names the scan accepts).
-/
namespace SynRBL.Cache
open SynRBL

/-! ## association-list directory -/

theorem lookupF_eraseF_same (f : FileName) (l : List (FileName × Bytes)) : lookupF f (eraseF f l) = none := by
  induction l with
  | nil => rfl
  | cons e r ih => by_cases h : e.1 = f <;> simp [eraseF, lookupF, h, ih]

theorem lookupF_eraseF_ne {f g : FileName} (h : g ≠ f) (l : List (FileName × Bytes)) :
    lookupF f (eraseF g l) = lookupF f l := by
  induction l with
  | nil => rfl
  | cons e r ih =>
    obtain ⟨n, c⟩ := e
    by_cases h1 : n = g
    · subst h1
      simp [eraseF, lookupF, ih, h]
    · by_cases h2 : n = f
      · subst h2; simp [eraseF, lookupF, h1]
      · simp [eraseF, lookupF, h1, h2, ih]

namespace Disk

@[simp] theorem read_write_same (d : Disk) (f : FileName) (c : Bytes) : (d.write f c).read f = some c := by
  simp [read, write, lookupF]

theorem read_write_ne (d : Disk) {f g : FileName} (c : Bytes) (h : g ≠ f) : (d.write g c).read f = d.read f := by
  simp [read, write, lookupF, h, lookupF_eraseF_ne h]

@[simp] theorem read_remove_same (d : Disk) (f : FileName) : (d.remove f).read f = none := by
  simp [read, remove, lookupF_eraseF_same]

theorem read_remove_ne (d : Disk) {f g : FileName} (h : g ≠ f) : (d.remove g).read f = d.read f := by
  simp [read, remove, lookupF_eraseF_ne h]

/-- the net effect of "write the temporary file, then rename it": the target has the complete content, the
temporary file is gone, nothing else moved -/
theorem read_write_rename (d : Disk) {tmp file : FileName} (c : Bytes) (f : FileName) :
    ((d.write tmp c).rename tmp file).read f =
      if f = file then some c else if f = tmp then none else d.read f := by
  simp only [rename, read_write_same]
  by_cases h1 : f = file
  · subst h1; simp
  · by_cases h2 : f = tmp
    · subst h2
      rw [read_write_ne _ _ (Ne.symm h1)]; simp [h1]
    · rw [read_write_ne _ _ (Ne.symm h1), read_remove_ne _ (Ne.symm h2), read_write_ne _ _ (Ne.symm h2)]
      simp [h1, h2]

end Disk

/-! ## file names -/

theorem entryName_inj {k k' : Str} (h : entryName k = entryName k') : k = k' := by
  simpa [entryName] using h

/-- a temporary file is never an entry of any key: `….cache.tmp` ≠ `….cache` (last characters differ) -/
theorem tmpName_ne_entryName (f : FileName) (k : Str) : tmpName f ≠ entryName k := by
  intro h
  have := congrArg List.getLast? h
  simp [tmpName, entryName, List.getLast?_append] at this

/-! ## `os.path.splitext` and the scan -/

theorem dropWhile_nondot_append_dot (a b : Str) (ha : ∀ c ∈ a, c ≠ '.') :
    (a ++ '.' :: b).dropWhile (· != '.') = '.' :: b ∧ (a ++ '.' :: b).takeWhile (· != '.') = a := by
  induction a with
  | nil => simp
  | cons x xs ih =>
    have hx : x ≠ '.' := ha x (by simp)
    have := ih (fun c hc => ha c (by simp [hc]))
    simp [hx, this]

/-- the entry of a key is recognised by the scan, provided the key is not made of dots only (a hex digest is not) -/
theorem scanKey?_entryName (k : Str) (hk : k.any (· != '.') = true) : scanKey? (entryName k) = some k := by
  have h := dropWhile_nondot_append_dot "ehcac".toList k.reverse (by decide)
  have hr : (entryName k).reverse = "ehcac".toList ++ '.' :: k.reverse := by simp [entryName]
  unfold scanKey? splitext
  simp only [hr, h.1, h.2]
  simp [hk, cacheExt]

/-- a temporary file is never registered: its extension is `.tmp` -/
theorem scanKey?_tmpName (f : FileName) : scanKey? (tmpName f) = none := by
  have h := dropWhile_nondot_append_dot "pmt".toList f.reverse (by decide)
  have hr : (tmpName f).reverse = "pmt".toList ++ '.' :: f.reverse := by simp [tmpName]
  unfold scanKey? splitext
  simp only [hr, h.1, h.2]
  by_cases hf : (f.reverse.any fun x => x != '.') = true
  · simp [hf, cacheExt]
  · simp [hf, cacheExt]


theorem mem_takeWhile_sat (p : Char → Bool) (l : List Char) : ∀ a ∈ l.takeWhile p, p a = true := by
  intro a ha
  induction l with
  | nil => simp at ha
  | cons x xs ih =>
    rw [List.takeWhile_cons] at ha
    split at ha
    · simp at ha
      rcases ha with rfl | ha
      · assumption
      · exact ih ha
    · simp at ha

theorem filter_takeWhile_self (p : Char → Bool) (l : List Char) : (l.takeWhile p).filter p = l.takeWhile p := by
  rw [List.filter_eq_self]
  exact mem_takeWhile_sat p l

/-- every registered name has the form `<key>.cache`; so the path stored in `__cache_refs[key]` is the path
`write_cache` writes for that key, and `__cache_refs` is determined by its key set -/
theorem scanKey?_shape (f : FileName) (k : Str) (h : scanKey? f = some k) : f = entryName k := by
  unfold scanKey? splitext at h
  have hsplit := List.takeWhile_append_dropWhile (p := (· != '.')) (l := f.reverse)
  cases hd : f.reverse.dropWhile (· != '.') with
  | nil => simp [hd, cacheExt] at h
  | cons x stemRev =>
    have hx : x = '.' := by
      have := List.head?_dropWhile_not (· != '.') f.reverse
      simpa [hd] using this
    subst hx
    simp only [hd] at h
    by_cases hany : stemRev.any (· != '.') = true
    · simp only [hany, if_true] at h
      split at h
      · rename_i hext
        cases h
        have hext' : ((f.reverse.takeWhile (· != '.')).reverse).filter (· != '.') = cacheExt := by
          simpa [List.filter_cons] using hext
        rw [List.filter_reverse, filter_takeWhile_self] at hext'
        have : f.reverse.takeWhile (· != '.') = cacheExt.reverse := by
          rw [← hext', List.reverse_reverse]
        rw [this, hd] at hsplit
        have := congrArg List.reverse hsplit
        simp only [List.reverse_reverse, List.reverse_append, List.reverse_cons] at this
        rw [← this]
        simp [entryName, cacheExt]
      · cases h
    · simp [hany, cacheExt] at h


section
variable {Cfg Batch Rows Stats : Type}

/-! ## the invariant -/

/-- what a loaded entry may look like for a batch whose uncached result is `p`: both members present ⇒ they *are*
the uncached result; `result` without `stats` ⇒ the pipeline does not fail on this batch (see the quirk in
`processBatch`); otherwise anything (it is a miss). -/
def SafeLoad (l : Option Rows × Option Stats) (p : Option (Result Rows Stats)) : Prop :=
  match l with
  | (some r, some s) => p = some ⟨r, s⟩
  | (some _, none) => p ≠ none
  | _ => True

@[simp] theorem SafeLoad_none (s? : Option Stats) (p : Option (Result Rows Stats)) : SafeLoad (none, s?) p := by
  simp [SafeLoad]

/-- **Refinement invariant.** Whatever file sits at the place where the entry of `(cfg, b)` would be, it — and
every prefix of it — loads to something safe for `(cfg, b)`. Files with other names are unconstrained. -/
def CacheInv (S : Sys Cfg Batch Rows Stats) (d : Disk) : Prop :=
  ∀ cfg b bytes, d.read (entryName (S.key cfg b)) = some bytes →
    ∀ k, SafeLoad (S.load (bytes.take k)) (S.pipeline cfg b)

/-- the key determines everything the pipeline result depends on -/
def KeySound (S : Sys Cfg Batch Rows Stats) : Prop :=
  ∀ c b c' b', S.key c b = S.key c' b' → S.pipeline c b = S.pipeline c' b'

/-- SHA-256 over the canonical JSON of (batch, configuration) taken as injective (trusted base) -/
def KeyInjective (S : Sys Cfg Batch Rows Stats) : Prop :=
  ∀ c b c' b', S.key c b = S.key c' b' → c = c' ∧ b = b'

theorem KeyInjective.sound {S : Sys Cfg Batch Rows Stats} (h : KeyInjective S) : KeySound S := by
  intro c b c' b' hk
  obtain ⟨rfl, rfl⟩ := h c b c' b' hk
  rfl

/-- `json.load(json.dump(x)) = x` for the documents the pipeline produces -/
def LoadEncode (S : Sys Cfg Batch Rows Stats) : Prop :=
  ∀ r, S.load (S.encode r) = (some r.rows, some r.stats)

/-- a proper prefix of a JSON object document is not a JSON document (`json.load` raises `ValueError` ⇒ `{}`) -/
def PrefixGarbage (S : Sys Cfg Batch Rows Stats) : Prop :=
  ∀ r k, k < (S.encode r).length → S.load ((S.encode r).take k) = (none, none)

structure Laws (S : Sys Cfg Batch Rows Stats) : Prop where
  keySound : KeySound S
  loadEncode : LoadEncode S
  prefixGarbage : PrefixGarbage S

theorem CacheInv_empty (S : Sys Cfg Batch Rows Stats) : CacheInv S Disk.empty := by
  intro cfg b bytes h
  simp [Disk.empty, Disk.read, lookupF] at h

/-- every prefix of a freshly encoded result is safe for every batch with the same key -/
theorem safe_encode_take {S : Sys Cfg Batch Rows Stats} (L : Laws S) {cfg : Cfg} {b : Batch} {res : Result Rows Stats}
    (hp : S.pipeline cfg b = some res) (cfg' : Cfg) (b' : Batch) (hk : S.key cfg' b' = S.key cfg b) (j k : Nat) :
    SafeLoad (S.load (((S.encode res).take j).take k)) (S.pipeline cfg' b') := by
  rw [L.keySound _ _ _ _ hk, hp, List.take_take]
  by_cases h : min k j < (S.encode res).length
  · rw [L.prefixGarbage res _ h]; simp
  · rw [List.take_of_length_le (Nat.le_of_not_lt h), L.loadEncode]
    simp [SafeLoad]

/-- writing to a file that is no entry name keeps the invariant -/
theorem CacheInv_write_nonentry {S : Sys Cfg Batch Rows Stats} {d : Disk} (h : CacheInv S d) (f : FileName) (c : Bytes)
    (hf : ∀ k, f ≠ entryName k) : CacheInv S (d.write f c) := by
  intro cfg b bytes hr
  rw [Disk.read_write_ne _ _ (hf _)] at hr
  exact h cfg b bytes hr

/-- writing (a prefix of) the encoded result of `(cfg, b)` at its entry keeps the invariant -/
theorem CacheInv_write_entry {S : Sys Cfg Batch Rows Stats} (L : Laws S) {d : Disk} (h : CacheInv S d) {cfg : Cfg} {b : Batch}
    {res : Result Rows Stats} (hp : S.pipeline cfg b = some res) (j : Nat) :
    CacheInv S (d.write (entryName (S.key cfg b)) ((S.encode res).take j)) := by
  intro cfg' b' bytes hr k
  by_cases hk : S.key cfg' b' = S.key cfg b
  · rw [hk, Disk.read_write_same] at hr
    cases hr
    exact safe_encode_take L hp cfg' b' hk j k
  · rw [Disk.read_write_ne _ _ (fun e => hk (entryName_inj e).symm)] at hr
    exact h cfg' b' bytes hr k

theorem CacheInv_write_entry_full {S : Sys Cfg Batch Rows Stats} (L : Laws S) {d : Disk} (h : CacheInv S d) {cfg : Cfg}
    {b : Batch} {res : Result Rows Stats} (hp : S.pipeline cfg b = some res) :
    CacheInv S (d.write (entryName (S.key cfg b)) (S.encode res)) := by
  have := CacheInv_write_entry L h hp (S.encode res).length
  rwa [List.take_length] at this

/-- temporary file + rename of the complete document keeps the invariant -/
theorem CacheInv_write_rename {S : Sys Cfg Batch Rows Stats} (L : Laws S) {d : Disk} (h : CacheInv S d) {cfg : Cfg}
    {b : Batch} {res : Result Rows Stats} (hp : S.pipeline cfg b = some res) :
    CacheInv S ((d.write (tmpName (entryName (S.key cfg b))) (S.encode res)).rename
      (tmpName (entryName (S.key cfg b))) (entryName (S.key cfg b))) := by
  intro cfg' b' bytes hr k
  rw [Disk.read_write_rename] at hr
  by_cases hk : S.key cfg' b' = S.key cfg b
  · simp [hk] at hr
    subst hr
    have := safe_encode_take L hp cfg' b' hk (S.encode res).length k
    rwa [List.take_length] at this
  · have h1 : entryName (S.key cfg' b') ≠ entryName (S.key cfg b) := fun e => hk (entryName_inj e)
    have h2 : entryName (S.key cfg' b') ≠ tmpName (entryName (S.key cfg b)) := fun e => tmpName_ne_entryName _ _ e.symm
    simp [h1, h2] at hr
    exact h cfg' b' bytes hr k

/-- **every interruption point of `write_cache`** (and its normal return), for the current code and for the
in-place writer alike -/
theorem CacheInv_writeEffect {S : Sys Cfg Batch Rows Stats} (L : Laws S) (v : Variant) {d : Disk} (h : CacheInv S d)
    {cfg : Cfg} {b : Batch} {res : Result Rows Stats} (hp : S.pipeline cfg b = some res) (p : Option CrashPoint) :
    CacheInv S (writeEffect v d (entryName (S.key cfg b)) (S.encode res) p) := by
  have htmp : ∀ k, tmpName (entryName (S.key cfg b)) ≠ entryName k := fun k => tmpName_ne_entryName _ k
  cases hv : v.atomicWrite <;> rcases p with _ | p
  · simpa [writeEffect, hv] using CacheInv_write_entry_full L h hp
  · cases p <;> simp only [writeEffect, hv, Bool.false_eq_true, if_false]
    · exact h
    · exact CacheInv_write_entry L h hp _
    · exact CacheInv_write_entry_full L h hp
    · exact CacheInv_write_entry_full L h hp
  · simpa [writeEffect, hv] using CacheInv_write_rename L h hp
  · cases p <;> simp only [writeEffect, hv, if_true]
    · exact h
    · exact CacheInv_write_nonentry h _ _ htmp
    · exact CacheInv_write_nonentry h _ _ htmp
    · exact CacheInv_write_rename L h hp

/-! ## one batch -/

/-- what `__try_cache` returns is safe for the batch (tolerant load) -/
theorem tryCache_safe {S : Sys Cfg Batch Rows Stats} {v : Variant} (hv : v.tolerantLoad = true) {d : Disk}
    (h : CacheInv S d) (refs : List Str) (cfg : Cfg) (b : Batch) :
    ∃ l, tryCache S v refs d (S.key cfg b) = some l ∧ SafeLoad l (S.pipeline cfg b) := by
  unfold tryCache
  by_cases hc : refs.contains (S.key cfg b) = true
  · simp only [hc, if_true, hv, Bool.true_or]
    cases hr : d.read (entryName (S.key cfg b)) with
    | none => exact ⟨_, rfl, by simp⟩
    | some bytes =>
      refine ⟨_, rfl, ?_⟩
      have := h cfg b bytes hr bytes.length
      rwa [List.take_length] at this
  · simp only [hc]
    exact ⟨_, rfl, by simp⟩

/-- the miss branch: the batch contributes what the pipeline returns; the stale rows of a `result`-only entry can
only surface if the pipeline fails, which `SafeLoad` excludes -/
theorem recompute_spec {S : Sys Cfg Batch Rows Stats} (L : Laws S) (v : Variant) {d : Disk} (h : CacheInv S d) (cfg : Cfg)
    (b : Batch) (fate : Fate) (stale : Option Rows) (hs : stale ≠ none → S.pipeline cfg b ≠ none) :
    CacheInv S (recompute S v cfg d b fate stale).1 ∧
    ((∃ p, fate = .kill p) ∧ (recompute S v cfg d b fate stale).2 = .killed ∨
     (∀ p, fate ≠ .kill p) ∧ (recompute S v cfg d b fate stale).2 = .done (S.pipeline cfg b) false) := by
  unfold recompute
  cases hp : S.pipeline cfg b with
  | none =>
    have : stale = none := by
      cases stale with
      | none => rfl
      | some r => exact absurd hp (hs (by simp))
    subst this
    cases fate <;> simp [h]
  | some res =>
    cases fate <;> simp [CacheInv_writeEffect L v h hp]

/-- **Per-batch specification.** Under the invariant a batch either gets killed or contributes exactly what the
pipeline contributes without a cache (`none` for a failed batch), and the invariant holds afterwards — for every
fate, in particular for every crash point. It is killed only if its fate says so. -/
theorem processBatch_spec {S : Sys Cfg Batch Rows Stats} (L : Laws S) {v : Variant} (hv : v.tolerantLoad = true) {d : Disk}
    (h : CacheInv S d) (refs : List Str) (cfg : Cfg) (b : Batch) (fate : Fate) :
    CacheInv S (processBatch S v cfg refs d b fate).1 ∧
    ((∃ p, fate = .kill p) ∧ (processBatch S v cfg refs d b fate).2 = .killed ∨
     (∀ p, fate ≠ .kill p) ∧ ∃ hit, (processBatch S v cfg refs d b fate).2 = .done (S.pipeline cfg b) hit) := by
  obtain ⟨l, hl, hsafe⟩ := tryCache_safe hv h refs cfg b
  obtain ⟨r?, s?⟩ := l
  unfold processBatch
  rw [hl]
  have miss : ∀ stale, (stale ≠ none → S.pipeline cfg b ≠ none) →
      CacheInv S (recompute S v cfg d b fate stale).1 ∧
      ((∃ p, fate = .kill p) ∧ (recompute S v cfg d b fate stale).2 = .killed ∨
       (∀ p, fate ≠ .kill p) ∧ ∃ hit, (recompute S v cfg d b fate stale).2 = .done (S.pipeline cfg b) hit) := by
    intro stale hs
    obtain ⟨h1, h2⟩ := recompute_spec L v h cfg b fate stale hs
    exact ⟨h1, h2.imp id (fun ⟨a, e⟩ => ⟨a, false, e⟩)⟩
  rcases r? with _ | r <;> rcases s? with _ | s
  · exact miss none (by simp)
  · exact miss none (by simp)
  · exact miss (some r) (fun _ => by simpa [SafeLoad] using hsafe)
  · simp only [SafeLoad] at hsafe
    cases fate <;> simp [h, hsafe]

/-! ## the batch loop, environment steps, operations, histories -/

theorem uncached_cons (S : Sys Cfg Batch Rows Stats) (cfg : Cfg) (b : Batch) (bs : List Batch) :
    uncached S cfg (b :: bs) = (if S.isEmpty b then [] else (S.pipeline cfg b).toList) ++ uncached S cfg bs := by
  unfold uncached
  rw [List.filterMap_cons]
  cases S.isEmpty b
  · cases S.pipeline cfg b <;> simp
  · simp

/-- **The loop.** Under the invariant, a run is either killed (and then some fate said so) or completes with exactly
the per-batch results of the uncached run; the invariant holds afterwards in both cases. -/
theorem runBatches_spec {S : Sys Cfg Batch Rows Stats} (L : Laws S) {v : Variant} (hv : v.tolerantLoad = true) (cfg : Cfg)
    (refs : List Str) (fates : Nat → Fate) (bs : List Batch) (i : Nat) {d : Disk} (h : CacheInv S d) :
    CacheInv S (runBatches S v cfg refs fates i d bs).1 ∧
    ((runBatches S v cfg refs fates i d bs).2 = .killed ∧ (∃ j p, fates j = .kill p) ∨
     ∃ hs, (runBatches S v cfg refs fates i d bs).2 = .completed (uncached S cfg bs) hs) := by
  induction bs generalizing i d with
  | nil => exact ⟨h, .inr ⟨[], rfl⟩⟩
  | cons b bs ih =>
    rw [runBatches, uncached_cons]
    cases hE : S.isEmpty b with
    | true => simpa using ih (i + 1) h
    | false =>
      obtain ⟨hinv, hout⟩ := processBatch_spec L hv h refs cfg b (fates i)
      generalize processBatch S v cfg refs d b (fates i) = pb at hinv hout
      obtain ⟨d', o⟩ := pb
      rcases hout with ⟨⟨p, hp⟩, ho⟩ | ⟨_, hit, ho⟩
      · simp only at ho hinv
        subst ho
        exact ⟨hinv, .inl ⟨rfl, i, p, hp⟩⟩
      · simp only at ho hinv
        subst ho
        obtain ⟨hinv2, hrest⟩ := ih (i + 1) hinv
        simp only [Bool.false_eq_true, if_false]
        generalize runBatches S v cfg refs fates (i + 1) d' bs = rest at hinv2 hrest ⊢
        obtain ⟨d'', o'⟩ := rest
        rcases hrest with ⟨hk, hj⟩ | ⟨hs, hc⟩
        · simp only at hk hinv2
          subst hk
          exact ⟨hinv2, .inl ⟨rfl, hj⟩⟩
        · simp only at hc hinv2
          subst hc
          exact ⟨hinv2, .inr ⟨hit :: hs, by simp⟩⟩

/-- an environment step is admissible if it cannot plant a *well-formed but wrong* entry: a new file is either not
at the place of any entry, or neither it nor any prefix of it loads. Truncations, deletions and files in
sub-directories are always admissible. -/
def EnvOp.Admissible (S : Sys Cfg Batch Rows Stats) : EnvOp → Prop
  | .putFile f c => (∀ k, f ≠ entryName k) ∨ ∀ k, S.load (c.take k) = (none, none)
  | _ => True

theorem CacheInv_env {S : Sys Cfg Batch Rows Stats} {d : Disk} (h : CacheInv S d) (e : EnvOp) (ha : e.Admissible S) :
    CacheInv S (e.apply d) := by
  cases e with
  | truncate f k =>
    simp only [EnvOp.apply]
    cases hr : d.read f with
    | none => exact h
    | some c =>
      intro cfg b bytes hb j
      by_cases hf : f = entryName (S.key cfg b)
      · subst hf
        rw [Disk.read_write_same] at hb
        cases hb
        rw [List.take_take]
        exact h cfg b c hr _
      · rw [Disk.read_write_ne _ _ hf] at hb
        exact h cfg b bytes hb j
  | putFile f c =>
    rcases ha with ha | ha
    · exact CacheInv_write_nonentry h f c ha
    · intro cfg b bytes hb j
      by_cases hf : f = entryName (S.key cfg b)
      · subst hf
        rw [EnvOp.apply, Disk.read_write_same] at hb
        cases hb
        rw [ha]; simp
      · rw [EnvOp.apply, Disk.read_write_ne _ _ hf] at hb
        exact h cfg b bytes hb j
  | putNested f => exact h
  | delete f =>
    intro cfg b bytes hb j
    by_cases hf : f = entryName (S.key cfg b)
    · subst hf
      simp [EnvOp.apply] at hb
    · rw [EnvOp.apply, Disk.read_remove_ne _ hf] at hb
      exact h cfg b bytes hb j

def Op.Admissible (S : Sys Cfg Batch Rows Stats) : Op Cfg Batch → Prop
  | .env e => e.Admissible S
  | _ => True

/-- what the property demands of the outcome of an operation: a run that completes (also one whose cache write
failed with an ordinary exception) returns the per-batch results of the uncached run; a killed run returns nothing -/
def Expected (S : Sys Cfg Batch Rows Stats) : Op Cfg Batch → Outcome Rows Stats → Prop
  | .run cfg bs, o => o.merged? = some (uncached S cfg bs)
  | .ioError cfg bs _ _, o => o.merged? = some (uncached S cfg bs)
  | .crash _ _ _ _, o => o = .killed
  | .env _, o => o = .noRun

theorem fatesOf_fail_ne_kill (i : Nat) (p : CrashPoint) : ¬ ∃ j q, fatesOf i (.fail p) j = .kill q := by
  rintro ⟨j, q, h⟩
  unfold fatesOf at h
  split at h <;> cases h

theorem step_spec {S : Sys Cfg Batch Rows Stats} (L : Laws S) {v : Variant} (hv : v.tolerantLoad = true) {d : Disk}
    (h : CacheInv S d) (op : Op Cfg Batch) (ha : op.Admissible S) :
    CacheInv S (step S v d op).1 ∧ Expected S op (step S v d op).2 := by
  cases op with
  | run cfg bs =>
    obtain ⟨h1, h2⟩ := runBatches_spec L hv cfg (scan d) (fun _ => .ok) bs 0 h
    refine ⟨h1, ?_⟩
    rcases h2 with ⟨_, _, _, hk⟩ | ⟨hs, hc⟩
    · cases hk
    · simp only [Expected, step, runCached, hc, Outcome.merged?]
  | ioError cfg bs i p =>
    obtain ⟨h1, h2⟩ := runBatches_spec L hv cfg (scan d) (fatesOf i (.fail p)) bs 0 h
    refine ⟨h1, ?_⟩
    rcases h2 with ⟨_, hk⟩ | ⟨hs, hc⟩
    · exact absurd hk (fatesOf_fail_ne_kill i p)
    · simp only [Expected, step, runCached, hc, Outcome.merged?]
  | crash cfg bs i p =>
    obtain ⟨h1, h2⟩ := runBatches_spec L hv cfg (scan d) (fatesOf i (.kill p)) bs 0 h
    simp only [step, runCached, Expected]
    generalize runBatches S v cfg (scan d) (fatesOf i (.kill p)) 0 d bs = r at h1 h2
    obtain ⟨d', o⟩ := r
    rcases h2 with ⟨hk, _⟩ | ⟨hs, hc⟩
    · simp only at hk; subst hk; exact ⟨h1, rfl⟩
    · simp only at hc; subst hc; exact ⟨h1, rfl⟩
  | env e => exact ⟨CacheInv_env h e ha, rfl⟩

/-- outcome by outcome along a history -/
def AllExpected (S : Sys Cfg Batch Rows Stats) : List (Op Cfg Batch) → List (Outcome Rows Stats) → Prop
  | [], [] => True
  | op :: ops, o :: os => Expected S op o ∧ AllExpected S ops os
  | _, _ => False

theorem history_spec {S : Sys Cfg Batch Rows Stats} (L : Laws S) {v : Variant} (hv : v.tolerantLoad = true)
    (ops : List (Op Cfg Batch)) (ha : ∀ op ∈ ops, op.Admissible S) {d : Disk} (h : CacheInv S d) :
    CacheInv S (runHistory S v d ops).1 ∧ AllExpected S ops (runHistory S v d ops).2 := by
  induction ops generalizing d with
  | nil => exact ⟨h, trivial⟩
  | cons op ops ih =>
    obtain ⟨h1, h2⟩ := step_spec L hv h op (ha op (by simp))
    obtain ⟨h3, h4⟩ := ih (fun o ho => ha o (by simp [ho])) h1
    exact ⟨h3, h2, h4⟩

theorem allExpected_getElem {ops : List (Op Cfg Batch)} {os : List (Outcome Rows Stats)} (h : AllExpected S ops os)
    (i : Nat) (op : Op Cfg Batch) (hi : ops[i]? = some op) : ∃ o, os[i]? = some o ∧ Expected S op o := by
  induction ops generalizing os i with
  | nil => simp at hi
  | cons a ops ih =>
    cases os with
    | nil => exact absurd h (by simp [AllExpected])
    | cons o os =>
      cases i with
      | zero => simp at hi; subst hi; exact ⟨o, rfl, h.1⟩
      | succ i => simpa using ih h.2 i (by simpa using hi)


/-- The invariant in the shape of DESIGN.md §C12: every file at the place of an entry is either garbage (no prefix of
it loads) or a prefix of the encoded pipeline result of a `(cfg, b)` with that key. It implies `CacheInv` (which is
what the proofs carry: weaker, hence the theorems are stronger). -/
def CacheInvDesign (S : Sys Cfg Batch Rows Stats) (d : Disk) : Prop :=
  ∀ f bytes, d.read f = some bytes → (∃ k, f = entryName k) →
    (∀ k, S.load (bytes.take k) = (none, none)) ∨
    ∃ cfg b res j, f = entryName (S.key cfg b) ∧ S.pipeline cfg b = some res ∧ bytes = (S.encode res).take j


/-! ## the cache is effective: a repeated run is served from it -/

/-- a hex digest is not made of dots only (all that the scan needs to recognise `<key>.cache`) -/
def KeyShape (S : Sys Cfg Batch Rows Stats) : Prop := ∀ cfg b, (S.key cfg b).any (· != '.') = true

/-- the entry of `(cfg, b)` is present with both members -/
def Stored (S : Sys Cfg Batch Rows Stats) (d : Disk) (cfg : Cfg) (b : Batch) : Prop :=
  ∃ bytes r s, d.read (entryName (S.key cfg b)) = some bytes ∧ S.load bytes = (some r, some s)

theorem mem_map_of_lookupF {f : FileName} {l : List (FileName × Bytes)} {c : Bytes} (h : lookupF f l = some c) :
    f ∈ l.map (·.1) := by
  induction l with
  | nil => simp [lookupF] at h
  | cons e r ih =>
    unfold lookupF at h
    split at h
    · rename_i he; simp [he]
    · simp [ih h]

theorem mem_scan_of_read {d : Disk} {k : Str} {bytes : Bytes} (h : d.read (entryName k) = some bytes)
    (hk : k.any (· != '.') = true) : (scan d).contains k = true := by
  rw [List.contains_iff_mem]
  unfold scan
  rw [List.mem_filterMap]
  exact ⟨entryName k, by simp [Disk.names, mem_map_of_lookupF h], scanKey?_entryName k hk⟩

theorem tryCache_current (S : Sys Cfg Batch Rows Stats) (refs : List Str) (d : Disk) (k : Str) :
    tryCache S .current refs d k = some (if refs.contains k then
      match d.read (entryName k) with
      | none => (none, none)
      | some bytes => S.load bytes
    else (none, none)) := by
  unfold tryCache
  split
  · cases d.read (entryName k) <;> simp [Variant.current]
  · rfl

theorem writeEffect_current_read (d : Disk) (file : FileName) (bytes : Bytes) (f : FileName) :
    (writeEffect .current d file bytes none).read f =
      if f = file then some bytes else if f = tmpName file then none else d.read f := by
  simp [writeEffect, Variant.current, Disk.read_write_rename]

theorem Stored_write {S : Sys Cfg Batch Rows Stats} (hL : LoadEncode S) {d : Disk} (cfg : Cfg) (b : Batch)
    (res : Result Rows Stats) (c' : Cfg) (b' : Batch)
    (h : Stored S d c' b' ∨ S.key c' b' = S.key cfg b) :
    Stored S (writeEffect .current d (entryName (S.key cfg b)) (S.encode res) none) c' b' := by
  unfold Stored
  rw [writeEffect_current_read]
  by_cases hk : S.key c' b' = S.key cfg b
  · exact ⟨S.encode res, res.rows, res.stats, by simp [hk], hL res⟩
  · rcases h with ⟨bytes, r, s, h1, h2⟩ | h
    · refine ⟨bytes, r, s, ?_, h2⟩
      have h1' : entryName (S.key c' b') ≠ entryName (S.key cfg b) := fun e => hk (entryName_inj e)
      have h2' : entryName (S.key c' b') ≠ tmpName (entryName (S.key cfg b)) := fun e => tmpName_ne_entryName _ _ e.symm
      simp [h1', h2', h1]
    · exact absurd h hk

/-- an uninterrupted batch keeps every stored entry, stores its own unless the pipeline failed, and is never killed -/
theorem processBatch_ok_stored {S : Sys Cfg Batch Rows Stats} (hL : LoadEncode S) (refs : List Str) (d : Disk) (cfg : Cfg)
    (b : Batch) :
    (∀ c' b', Stored S d c' b' → Stored S (processBatch S .current cfg refs d b .ok).1 c' b') ∧
    (S.pipeline cfg b ≠ none → Stored S (processBatch S .current cfg refs d b .ok).1 cfg b) ∧
    (∃ m hit, (processBatch S .current cfg refs d b .ok).2 = .done m hit) := by
  unfold processBatch
  rw [tryCache_current]
  have miss : ∀ stale, (∀ c' b', Stored S d c' b' → Stored S (recompute S .current cfg d b .ok stale).1 c' b') ∧
      (S.pipeline cfg b ≠ none → Stored S (recompute S .current cfg d b .ok stale).1 cfg b) ∧
      (∃ m hit, (recompute S .current cfg d b .ok stale).2 = .done m hit) := by
    intro stale
    unfold recompute
    cases hp : S.pipeline cfg b with
    | none => simp
    | some res =>
      exact ⟨fun c' b' h => Stored_write hL cfg b res c' b' (.inl h), fun _ => Stored_write hL cfg b res cfg b (.inr rfl),
        _, _, rfl⟩
  by_cases hc : refs.contains (S.key cfg b) = true
  · simp only [hc, if_true]
    cases hr : d.read (entryName (S.key cfg b)) with
    | none => exact miss none
    | some bytes =>
      simp only
      rcases hl : S.load bytes with ⟨_ | r, _ | s⟩
      · exact miss none
      · exact miss none
      · exact miss (some r)
      · exact ⟨fun c' b' h => h, fun _ => ⟨bytes, r, s, hr, hl⟩, _, _, rfl⟩
  · simp only [hc]
    exact miss none

theorem runBatches_ok_stored {S : Sys Cfg Batch Rows Stats} (hL : LoadEncode S) (refs : List Str) (cfg : Cfg)
    (bs : List Batch) (i : Nat) (d : Disk) :
    (∀ c' b', Stored S d c' b' → Stored S (runBatches S .current cfg refs (fun _ => .ok) i d bs).1 c' b') ∧
    (∀ b ∈ bs, S.isEmpty b = false → S.pipeline cfg b ≠ none →
      Stored S (runBatches S .current cfg refs (fun _ => .ok) i d bs).1 cfg b) := by
  induction bs generalizing i d with
  | nil => exact ⟨fun _ _ h => h, by simp⟩
  | cons b bs ih =>
    rw [runBatches]
    cases hE : S.isEmpty b with
    | true =>
      refine ⟨(ih (i + 1) d).1, fun b' hb' he hp => ?_⟩
      simp only [if_true]
      rcases List.mem_cons.1 hb' with rfl | hb'
      · rw [hE] at he; cases he
      · exact (ih (i + 1) d).2 b' hb' he hp
    | false =>
      simp only [Bool.false_eq_true, if_false]
      obtain ⟨hk, hn, m, hit, hdone⟩ := processBatch_ok_stored hL refs d cfg b
      generalize processBatch S .current cfg refs d b .ok = pb at hk hn hdone
      obtain ⟨d', o⟩ := pb
      simp only at hdone hk hn
      subst hdone
      simp only
      obtain ⟨hk2, hn2⟩ := ih (i + 1) d'
      generalize runBatches S .current cfg refs (fun _ => .ok) (i + 1) d' bs = rest at hk2 hn2 ⊢
      obtain ⟨d'', o'⟩ := rest
      simp only at hk2 hn2
      have key : (∀ c' b', Stored S d c' b' → Stored S d'' c' b') ∧
          (∀ b' ∈ b :: bs, S.isEmpty b' = false → S.pipeline cfg b' ≠ none → Stored S d'' cfg b') := by
        refine ⟨fun c' b' h => hk2 c' b' (hk c' b' h), fun b' hb' he hp => ?_⟩
        rcases List.mem_cons.1 hb' with rfl | hb'
        · exact hk2 cfg b' (hn hp)
        · exact hn2 b' hb' he hp
      cases o' <;> exact key

/-- the hit/miss pattern of a repeated run: every non-empty batch is a hit unless the pipeline fails on it -/
def rerunHits (S : Sys Cfg Batch Rows Stats) (cfg : Cfg) (bs : List Batch) : List Bool :=
  (bs.filter fun b => !S.isEmpty b).map fun b => (S.pipeline cfg b).isSome

/-- a run over a directory that already stores every batch the pipeline can compute: nothing is computed except
the failing batches, nothing is written, the result is the uncached one -/
theorem runBatches_rerun {S : Sys Cfg Batch Rows Stats} (hK : KeyShape S) {d : Disk} (h : CacheInv S d) (cfg : Cfg)
    (fates : Nat → Fate) (hf : ∀ j p, fates j ≠ .kill p)
    (bs : List Batch) (i : Nat)
    (hs : ∀ b ∈ bs, S.isEmpty b = false → S.pipeline cfg b ≠ none → Stored S d cfg b) :
    runBatches S .current cfg (scan d) fates i d bs = (d, .completed (uncached S cfg bs) (rerunHits S cfg bs)) := by
  induction bs generalizing i with
  | nil => rfl
  | cons b bs ih =>
    have ih' := ih (i + 1) (fun b' hb' => hs b' (by simp [hb']))
    rw [runBatches, uncached_cons]
    cases hE : S.isEmpty b with
    | true => simpa [rerunHits, hE] using ih'
    | false =>
      simp only [Bool.false_eq_true, if_false]
      have hpb : processBatch S .current cfg (scan d) d b (fates i) =
          (d, .done (S.pipeline cfg b) (S.pipeline cfg b).isSome) := by
        unfold processBatch
        cases hp : S.pipeline cfg b with
        | some res =>
          rw [tryCache_current]
          obtain ⟨bytes, r, s, hr, hl⟩ := hs b (by simp) hE (by simp [hp])
          have hsafe := h cfg b bytes hr bytes.length
          rw [List.take_length, hl] at hsafe
          simp only [SafeLoad, hp, Option.some.injEq] at hsafe
          simp only [mem_scan_of_read hr (hK cfg b), if_true, hr, hl]
          have := hf i
          cases hfi : fates i with
          | ok => simp [hsafe]
          | fail p => simp [hsafe]
          | kill p => exact absurd hfi (this p)
        | none =>
          obtain ⟨l, hl, hsafe⟩ := tryCache_safe (v := .current) rfl h (scan d) cfg b
          rw [hp] at hsafe
          have hmiss : recompute S .current cfg d b (fates i) none = (d, .done none false) := by
            unfold recompute
            rw [hp]
            have := hf i
            cases hfi : fates i with
            | ok => simp
            | fail p => simp
            | kill p => exact absurd hfi (this p)
          rw [hl]
          obtain ⟨r?, s?⟩ := l
          rcases r? with _ | r
          · cases s? <;> simpa using hmiss
          · cases s? <;> simp [SafeLoad] at hsafe
      rw [hpb]
      simp only [ih']
      simp [rerunHits, hE]

end
end SynRBL.Cache

/-! ## a concrete system (used by the witness theorems and the satisfiability examples of `Properties/C12.lean`) -/
namespace SynRBL
open Cache
namespace C12Toy

def b2c (b : Bool) : Char := if b then '1' else '0'

/-- `{rs}` = both members, `{r}` = a document with a `result` but no `stats`, anything else does not load -/
def load : Bytes → Option Bool × Option Bool
  | ['{', x, y, '}'] => if (x = '0' ∨ x = '1') ∧ (y = '0' ∨ y = '1') then (some (x == '1'), some (y == '1')) else (none, none)
  | ['{', x, '}'] => if x = '0' ∨ x = '1' then (some (x == '1'), none) else (none, none)
  | _ => (none, none)

/-- Configurations: `false`/`true` (think threshold 0 / 0.9). Batches: `0` empty, `1`, `2`, and `3` on which the
pipeline raises. Rows depend on the configuration. -/
def sys (keyOf : Bool → Fin 4 → Str) : Sys Bool (Fin 4) Bool Bool where
  pipeline cfg b := if b = 3 then none else some ⟨cfg, b = 1⟩
  failStats _ _ := false
  isEmpty b := b = 0
  key := keyOf
  encode r := ['{', b2c r.rows, b2c r.stats, '}']
  load := load
  readable bytes := (load bytes).1.isSome

/-- the key of the current code: configuration and batch -/
def goodKey (cfg : Bool) (b : Fin 4) : Str := [if cfg then 'T' else 'F', Nat.digitChar b.val]
/-- the key before `676bf5c`: the batch only -/
def batchOnlyKey (_ : Bool) (b : Fin 4) : Str := ['K', Nat.digitChar b.val]

end C12Toy
end SynRBL
