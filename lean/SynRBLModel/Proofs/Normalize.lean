import SynRBLModel.Model.Normalize
/-!
# Helper lemmas for C17 (normalisation and worst-case similarity)
-/
namespace SynRBL.Norm
open Str

/-! ## Python string and tuple order -/

theorem char_toNat_inj {a b : Char} (h : a.toNat = b.toNat) : a = b :=
  Char.toNat_inj.mp h

theorem strLt_asymm : ∀ (a b : Str), strLt a b = true → strLt b a = false := by
  intro a
  induction a with
  | nil => intro b; cases b <;> simp [strLt]
  | cons x xs ih =>
    intro b
    cases b with
    | nil => simp [strLt]
    | cons y ys =>
      simp only [strLt]
      have := ih ys
      grind

theorem strLt_trichotomy : ∀ (a b : Str), strLt a b = false → strLt b a = false → a = b := by
  intro a
  induction a with
  | nil => intro b; cases b <;> simp [strLt]
  | cons x xs ih =>
    intro b
    cases b with
    | nil => simp [strLt]
    | cons y ys =>
      simp only [strLt]
      have := ih ys
      have := @char_toNat_inj x y
      grind

/-- negative transitivity of `<` -/
theorem strLt_negtrans : ∀ (a b c : Str), strLt a c = true → strLt a b = true ∨ strLt b c = true := by
  intro a
  induction a with
  | nil =>
    intro b c
    cases b <;> cases c <;> simp [strLt]
  | cons x xs ih =>
    intro b c
    cases b with
    | nil => cases c <;> simp [strLt]
    | cons y ys =>
      cases c with
      | nil => simp [strLt]
      | cons z zs =>
        simp only [strLt]
        have := ih ys zs
        grind

theorem strLe_total (a b : Str) : strLe a b = true ∨ strLe b a = true := by
  have := strLt_asymm a b
  have := strLt_asymm b a
  unfold strLe
  grind

theorem strLe_trans (a b c : Str) (h1 : strLe a b = true) (h2 : strLe b c = true) : strLe a c = true := by
  have := strLt_negtrans c b a
  unfold strLe at *
  grind

theorem strLe_antisymm (a b : Str) (h1 : strLe a b = true) (h2 : strLe b a = true) : a = b := by
  have := strLt_trichotomy a b
  unfold strLe at *
  grind

theorem keyLe_total (a b : TokKey) : keyLe a b = true ∨ keyLe b a = true := by
  have := strLe_total a.2.2 b.2.2
  unfold keyLe
  grind

theorem keyLe_trans (a b c : TokKey) (h1 : keyLe a b = true) (h2 : keyLe b c = true) : keyLe a c = true := by
  have := strLe_trans a.2.2 b.2.2 c.2.2
  unfold keyLe at *
  grind

theorem keyLe_antisymm (a b : TokKey) (h1 : keyLe a b = true) (h2 : keyLe b a = true) : a = b := by
  have := strLe_antisymm a.2.2 b.2.2
  obtain ⟨a1, a2, a3⟩ := a
  obtain ⟨b1, b2, b3⟩ := b
  unfold keyLe at *
  simp only at *
  grind

theorem tokLe_total (a b : Str) : tokLe a b = true ∨ tokLe b a = true := keyLe_total _ _
theorem tokLe_trans (a b c : Str) : tokLe a b = true → tokLe b c = true → tokLe a c = true := keyLe_trans _ _ _
/-- the key ends in the token itself: equal keys ⇒ equal tokens -/
theorem tokLe_antisymm (a b : Str) (h1 : tokLe a b = true) (h2 : tokLe b a = true) : a = b := by
  have := keyLe_antisymm _ _ h1 h2
  simp only [tokKey, Prod.mk.injEq] at this
  exact this.2.2

/-! ## the stable descending insertion sort -/

section SortLemmas
variable {α : Type} (le : α → α → Bool)

/-- descending: every earlier element is `≥` every later one -/
def SortedDesc (l : List α) : Prop := l.Pairwise (fun a b => le b a = true)

theorem insertDescBy_perm (x : α) (l : List α) : (insertDescBy le x l).Perm (x :: l) := by
  induction l with
  | nil => simp [insertDescBy]
  | cons y ys ih =>
    simp only [insertDescBy]
    split
    · exact (List.Perm.cons y ih).trans (List.Perm.swap x y ys)
    · exact List.Perm.refl _

theorem foldl_insertDescBy_perm (l acc : List α) :
    (l.foldl (fun acc x => insertDescBy le x acc) acc).Perm (l ++ acc) := by
  induction l generalizing acc with
  | nil => simp
  | cons x xs ih =>
    simp only [List.foldl_cons, List.cons_append]
    refine (ih _).trans ?_
    exact (List.Perm.append_left xs (insertDescBy_perm le x acc)).trans List.perm_middle

theorem sortDescBy_perm (l : List α) : (sortDescBy le l).Perm l := by
  simpa [sortDescBy] using foldl_insertDescBy_perm le l []

theorem mem_insertDescBy (x y : α) (l : List α) : y ∈ insertDescBy le x l ↔ y = x ∨ y ∈ l := by
  simpa using (insertDescBy_perm le x l).mem_iff (a := y)

variable (total : ∀ a b, le a b = true ∨ le b a = true)
variable (trans : ∀ a b c, le a b = true → le b c = true → le a c = true)
include total trans

theorem insertDescBy_sorted (x : α) (l : List α) (h : SortedDesc le l) : SortedDesc le (insertDescBy le x l) := by
  induction l with
  | nil => simp [insertDescBy, SortedDesc]
  | cons y ys ih =>
    unfold SortedDesc at *
    simp only [insertDescBy]
    rw [List.pairwise_cons] at h
    split
    · rename_i hxy
      rw [List.pairwise_cons]
      refine ⟨?_, ih h.2⟩
      intro z hz
      rcases (mem_insertDescBy le x z ys).mp hz with rfl | hz
      · exact hxy
      · exact h.1 z hz
    · rename_i hxy
      have hyx : le y x = true := by
        rcases total x y with h' | h'
        · exact absurd h' hxy
        · exact h'
      rw [List.pairwise_cons]
      refine ⟨?_, List.pairwise_cons.mpr h⟩
      intro z hz
      rcases List.mem_cons.mp hz with rfl | hz
      · exact hyx
      · exact trans _ _ _ (h.1 z hz) hyx

theorem foldl_insertDescBy_sorted (l acc : List α) (h : SortedDesc le acc) :
    SortedDesc le (l.foldl (fun acc x => insertDescBy le x acc) acc) := by
  induction l generalizing acc with
  | nil => simpa
  | cons x xs ih => exact ih _ (insertDescBy_sorted le total trans x acc h)

theorem sortDescBy_sorted (l : List α) : SortedDesc le (sortDescBy le l) :=
  foldl_insertDescBy_sorted le total trans l [] (by simp [SortedDesc])

variable (antisymm : ∀ a b, le a b = true → le b a = true → a = b)
include antisymm

/-- when the order is antisymmetric on the elements themselves, the sorted list is a function of the multiset -/
theorem sortDescBy_perm_invariant {l₁ l₂ : List α} (h : l₁.Perm l₂) : sortDescBy le l₁ = sortDescBy le l₂ := by
  apply List.Perm.eq_of_pairwise (le := fun a b => le b a = true)
  · intro a b _ _ h1 h2
    exact antisymm a b h2 h1
  · exact sortDescBy_sorted le total trans l₁
  · exact sortDescBy_sorted le total trans l₂
  · exact ((sortDescBy_perm le l₁).trans h).trans (sortDescBy_perm le l₂).symm

theorem sortDescBy_idem (l : List α) : sortDescBy le (sortDescBy le l) = sortDescBy le l :=
  sortDescBy_perm_invariant le total trans antisymm (sortDescBy_perm le l)

end SortLemmas

/-! ## `mapOpt` -/

/-- both raise, or both return and the results are permutations of each other -/
def OptPerm {β} : Option (List β) → Option (List β) → Prop
  | some a, some b => a.Perm b
  | none, none => True
  | _, _ => False

theorem OptPerm.trans {β} {a b c : Option (List β)} (h1 : OptPerm a b) (h2 : OptPerm b c) : OptPerm a c := by
  cases a <;> cases b <;> cases c <;> simp_all [OptPerm]
  exact h1.trans h2

theorem mapOpt_perm {α β} (f : α → Option β) {l₁ l₂ : List α} (h : l₁.Perm l₂) :
    OptPerm (mapOpt f l₁) (mapOpt f l₂) := by
  induction h with
  | nil => simp [mapOpt, OptPerm]
  | @cons x l₁ l₂ _ ih =>
    simp only [mapOpt]
    cases f x <;> cases h1 : mapOpt f l₁ <;> cases h2 : mapOpt f l₂ <;> simp_all [OptPerm]
  | swap x y l =>
    simp only [mapOpt]
    cases f x <;> cases f y <;> cases mapOpt f l <;> simp [OptPerm]
    exact List.Perm.swap ..
  | trans _ _ ih1 ih2 => exact ih1.trans ih2

/-- element-wise relation of two lists of the same length -/
inductive Forall2 {α β} (R : α → β → Prop) : List α → List β → Prop
  | nil : Forall2 R [] []
  | cons {a b as bs} : R a b → Forall2 R as bs → Forall2 R (a :: as) (b :: bs)

theorem mapOpt_congr {α β} (f g : α → Option β) (l : List α) (h : ∀ x ∈ l, f x = g x) :
    mapOpt f l = mapOpt g l := by
  induction l with
  | nil => rfl
  | cons x xs ih =>
    simp only [mapOpt]
    rw [h x (by simp), ih (fun y hy => h y (by simp [hy]))]

theorem mapOpt_id {α} (f : α → Option α) (l : List α) (h : ∀ x ∈ l, f x = some x) : mapOpt f l = some l := by
  induction l with
  | nil => rfl
  | cons x xs ih =>
    simp only [mapOpt]
    rw [h x (by simp), ih (fun y hy => h y (by simp [hy]))]

theorem mapOpt_forall₂ {α β} (f : α → Option β) {l l' : List α} (h : Forall2 (fun a b => f a = f b) l l') :
    mapOpt f l = mapOpt f l' := by
  induction h with
  | nil => rfl
  | cons hab _ ih => simp only [mapOpt]; rw [hab, ih]

theorem mapOpt_some {α β} (f : α → Option β) : ∀ (l : List α) (ys : List β), mapOpt f l = some ys →
    ys.length = l.length ∧ ∀ y ∈ ys, ∃ x ∈ l, f x = some y := by
  intro l
  induction l with
  | nil => intro ys h; simp [mapOpt] at h; subst h; simp
  | cons x xs ih =>
    intro ys h
    simp only [mapOpt] at h
    cases hx : f x <;> cases hxs : mapOpt f xs <;> simp_all
    rename_i y ys'
    subst h
    have := ih
    constructor
    · simp [this.1]
    · intro z hz
      rcases List.mem_cons.mp hz with rfl | hz
      · exact Or.inl rfl
      · exact Or.inr (this.2 z hz)

theorem sortTokens_perm (ts : List Str) : (sortTokens ts).Perm ts := sortDescBy_perm tokLe ts

theorem sortTokens_perm_invariant {ts ts' : List Str} (h : ts.Perm ts') : sortTokens ts = sortTokens ts' :=
  sortDescBy_perm_invariant tokLe tokLe_total tokLe_trans tokLe_antisymm h

theorem sortTokens_idem (ts : List Str) : sortTokens (sortTokens ts) = sortTokens ts :=
  sortDescBy_idem tokLe tokLe_total tokLe_trans tokLe_antisymm ts

/-! ## `split` / `join` -/

theorem splitOn_nosep (c : Char) (t : Str) (h : c ∉ t) : splitOn c t = [t] := by
  induction t with
  | nil => rfl
  | cons x xs ih =>
    have hx : x ≠ c := fun e => h (by simp [e])
    have := ih (fun m => h (by simp [m]))
    simp [splitOn, hx, this]

theorem splitOn_append_sep (c : Char) (t r : Str) (h : c ∉ t) :
    splitOn c (t ++ c :: r) = t :: splitOn c r := by
  induction t with
  | nil => simp [splitOn]
  | cons x xs ih =>
    have hx : x ≠ c := fun e => h (by simp [e])
    have := ih (fun m => h (by simp [m]))
    simp [splitOn, hx, this]

theorem splitOn_joinWith (c : Char) (ts : List Str) (hne : ts ≠ []) (h : ∀ t ∈ ts, c ∉ t) :
    splitOn c (joinWith c ts) = ts := by
  induction ts with
  | nil => exact absurd rfl hne
  | cons t rest ih =>
    cases rest with
    | nil => simpa [joinWith] using splitOn_nosep c t (h t (by simp))
    | cons t' rest' =>
      simp only [joinWith]
      rw [splitOn_append_sep c t _ (h t (by simp)), ih (by simp) (fun u hu => h u (by simp [hu]))]

theorem mem_joinWith (c x : Char) (ts : List Str) (h : x ∈ joinWith c ts) : x = c ∨ ∃ t ∈ ts, x ∈ t := by
  induction ts with
  | nil => simp [joinWith] at h
  | cons t rest ih =>
    cases rest with
    | nil => exact Or.inr ⟨t, by simp, by simpa [joinWith] using h⟩
    | cons t' rest' =>
      simp only [joinWith, List.mem_append, List.mem_cons] at h
      rcases h with h | h | h
      · exact Or.inr ⟨t, by simp, h⟩
      · exact Or.inl h
      · rcases ih h with h | ⟨u, hu, hx⟩
        · exact Or.inl h
        · exact Or.inr ⟨u, by simp [hu], hx⟩

theorem sep_mem_joinWith (c : Char) (t t' : Str) (ts : List Str) : c ∈ joinWith c (t :: t' :: ts) := by
  simp [joinWith]

theorem length_splitOn_pos (c : Char) (s : Str) : 1 ≤ (splitOn c s).length := by
  induction s with
  | nil => simp [splitOn]
  | cons x xs ih =>
    simp only [splitOn]
    split
    · simp
    · split <;> simp

theorem length_splitOn_of_mem (c : Char) (s : Str) (h : c ∈ s) : 2 ≤ (splitOn c s).length := by
  induction s with
  | nil => simp at h
  | cons x xs ih =>
    simp only [splitOn]
    split
    · have := length_splitOn_pos c xs
      simp only [List.length_cons]; omega
    · rename_i hx
      have hm : c ∈ xs := by
        rcases List.mem_cons.mp h with e | m
        · exact absurd e.symm hx
        · exact m
      have := ih hm
      split <;> simp_all

theorem splitArrow_nosep (t : Str) (h : '>' ∉ t) : splitArrow t = [t] := by
  induction t with
  | nil => rfl
  | cons x xs ih =>
    have hx : x ≠ '>' := fun e => h (by simp [e])
    have := ih (fun m => h (by simp [m]))
    rw [splitArrow.eq_3 _ _ (fun ys e _ => hx e)]
    simp [this]

theorem splitArrow_append_sep (t r : Str) (h : '>' ∉ t) :
    splitArrow (t ++ '>' :: '>' :: r) = t :: splitArrow r := by
  induction t with
  | nil => simp [splitArrow]
  | cons x xs ih =>
    have hx : x ≠ '>' := fun e => h (by simp [e])
    have := ih (fun m => h (by simp [m]))
    rw [List.cons_append, splitArrow.eq_3 _ _ (fun ys e _ => hx e)]
    simp [this]

theorem splitArrow_joinArrow (ts : List Str) (hne : ts ≠ []) (h : ∀ t ∈ ts, '>' ∉ t) :
    splitArrow (joinArrow ts) = ts := by
  induction ts with
  | nil => exact absurd rfl hne
  | cons t rest ih =>
    cases rest with
    | nil => simpa [joinArrow] using splitArrow_nosep t (h t (by simp))
    | cons t' rest' =>
      simp only [joinArrow]
      rw [splitArrow_append_sep t _ (h t (by simp)), ih (by simp) (fun u hu => h u (by simp [hu]))]

theorem mem_joinArrow (x : Char) (ts : List Str) (h : x ∈ joinArrow ts) : x = '>' ∨ ∃ t ∈ ts, x ∈ t := by
  induction ts with
  | nil => simp [joinArrow] at h
  | cons t rest ih =>
    cases rest with
    | nil => exact Or.inr ⟨t, by simp, by simpa [joinArrow] using h⟩
    | cons t' rest' =>
      simp only [joinArrow, List.mem_append, List.mem_cons] at h
      rcases h with h | h | h | h
      · exact Or.inr ⟨t, by simp, h⟩
      · exact Or.inl h
      · exact Or.inl h
      · rcases ih h with h | ⟨u, hu, hx⟩
        · exact Or.inl h
        · exact Or.inr ⟨u, by simp [hu], hx⟩

theorem hasInfix_arrow_of_not_mem (s : Str) (h : '>' ∉ s) : hasInfix ['>', '>'] s = false := by
  induction s with
  | nil => rfl
  | cons x xs ih =>
    have hx : x ≠ '>' := fun e => h (by simp [e])
    have := ih (fun m => h (by simp [m]))
    simp [hasInfix, List.isPrefixOf, this]
    intro e; exact absurd e.symm hx

theorem hasInfix_arrow_append (t r : Str) : hasInfix ['>', '>'] (t ++ '>' :: '>' :: r) = true := by
  induction t with
  | nil => simp [hasInfix, List.isPrefixOf]
  | cons x xs ih => simp [hasInfix, ih]

theorem length_splitArrow_pos (s : Str) : 1 ≤ (splitArrow s).length := by
  induction s using splitArrow.induct with
  | case1 => simp [splitArrow]
  | case2 xs ih => simp [splitArrow]
  | case3 x xs hne hnil ih => rw [splitArrow.eq_3 _ _ hne, hnil]; simp
  | case4 x xs hne t ts hts ih => rw [splitArrow.eq_3 _ _ hne, hts]; simp

theorem length_splitArrow_of_hasInfix (s : Str) (h : hasInfix ['>', '>'] s = true) :
    2 ≤ (splitArrow s).length := by
  induction s using splitArrow.induct with
  | case1 => simp [hasInfix] at h
  | case2 xs ih =>
    have := length_splitArrow_pos xs
    simp only [splitArrow, List.length_cons]; omega
  | case3 x xs hne hnil ih =>
    have := length_splitArrow_pos xs
    rw [hnil] at this; simp at this
  | case4 x xs hne t ts hts ih =>
    rw [splitArrow.eq_3 _ _ hne, hts]
    have hh : hasInfix ['>', '>'] xs = true := by
      simp only [hasInfix, Bool.or_eq_true] at h
      rcases h with h | h
      · exfalso
        cases xs with
        | nil => simp [List.isPrefixOf] at h
        | cons y ys =>
          simp [List.isPrefixOf] at h
          exact hne ys h.1.symm (by rw [h.2])
      · exact h
    have := ih hh
    rw [hts] at this
    simpa using this

/-! ## `remove_stereo_chemistry` on stereo-free text -/

theorem stereoMatch_none (xs : Str) (h : '@' ∉ xs) : stereoMatch xs = none := by
  have hats : List.takeWhile (· == '@') (xs.dropWhile isWordChar) = [] := by
    cases hr : xs.dropWhile isWordChar with
    | nil => rfl
    | cons y ys =>
      have hy : y ∈ xs := (List.dropWhile_sublist isWordChar).subset (by rw [hr]; simp)
      have : y ≠ '@' := fun e => h (e ▸ hy)
      have hb : (y == '@') = false := by simpa using this
      simp [List.takeWhile, hb]
  simp [stereoMatch, hats]

theorem rmStereo_of_no_at (s : Str) (h : '@' ∉ s) : rmStereo s = s := by
  unfold rmStereo
  induction s with
  | nil => rfl
  | cons x xs ih =>
    have hx : '@' ∉ xs := fun m => h (by simp [m])
    simp only [rmStereoGo, stereoMatch_none xs hx, ih hx]
    split <;> rfl

/-! ## normalisation of reactions written from clean tokens -/

/-- one molecule token as the property quantifies over them: no `.`, no `>`, stereo-free (no `@`) -/
def Clean (t : Str) : Prop := '.' ∉ t ∧ '>' ∉ t ∧ '@' ∉ t

instance (t : Str) : Decidable (Clean t) := by unfold Clean; infer_instance

/-- the laws of the per-molecule oracle that idempotence needs, each about an answer `c` RDKit gave for some token -/
structure CanonLaws (O : NormOracle) : Prop where
  /-- canonicalising a canonical SMILES returns it unchanged -/
  idem : ∀ x c, O.canon x = some c → O.canon c = some c
  /-- the canonical SMILES of one molecule token is one clean token again -/
  clean : ∀ x c, O.canon x = some c → Clean c

/-- a side written from molecule tokens -/
def mkSide (ts : List Str) : Str := joinWith '.' ts
/-- a reaction written from the molecule tokens of its two sides -/
def mkRxn (rs ps : List Str) : Str := mkSide rs ++ '>' :: '>' :: mkSide ps

theorem mkSide_no_gt (ts : List Str) (h : ∀ t ∈ ts, Clean t) : '>' ∉ mkSide ts := by
  intro m
  rcases mem_joinWith '.' '>' ts m with e | ⟨t, ht, hx⟩
  · simp at e
  · exact (h t ht).2.1 hx

theorem mkSide_no_at (ts : List Str) (h : ∀ t ∈ ts, Clean t) : '@' ∉ mkSide ts := by
  intro m
  rcases mem_joinWith '.' '@' ts m with e | ⟨t, ht, hx⟩
  · simp at e
  · exact (h t ht).2.2 hx

theorem normMol_clean (O : NormOracle) (t : Str) (h : Clean t) : normMol O t = O.canon t := by
  simp [normMol, molBody, rmStereo_of_no_at t h.2.2]

theorem normSide_single (O : NormOracle) (t : Str) (h : Clean t) : normSide O t = O.canon t := by
  simp [normSide, sideBody, molBody, rmStereo_of_no_at t h.2.2, h.1]

theorem normSide_nil (O : NormOracle) : normSide O [] = O.canon [] := by
  simp [normSide, sideBody, molBody, rmStereo, rmStereoGo]

theorem normSide_mkSide (O : NormOracle) (t t' : Str) (rest : List Str) (h : ∀ u ∈ t :: t' :: rest, Clean u) :
    normSide O (mkSide (t :: t' :: rest)) =
      (mapOpt O.canon (t :: t' :: rest)).map fun cs => joinWith '.' (sortTokens cs) := by
  have hat := rmStereo_of_no_at _ (mkSide_no_at _ h)
  have hdot : (mkSide (t :: t' :: rest)).contains '.' = true := by
    simpa [mkSide] using sep_mem_joinWith '.' t t' rest
  have hsplit : splitOn '.' (mkSide (t :: t' :: rest)) = t :: t' :: rest :=
    splitOn_joinWith '.' _ (by simp) (fun u hu => (h u hu).1)
  unfold normSide sideBody
  rw [hat, if_pos hdot, hsplit, mapOpt_congr (normMol O) O.canon _ (fun u hu => normMol_clean O u (h u hu))]

theorem normSide_perm (O : NormOracle) {ts ts' : List Str} (hp : ts.Perm ts') (h : ∀ t ∈ ts, Clean t) :
    normSide O (mkSide ts) = normSide O (mkSide ts') := by
  have h' : ∀ t ∈ ts', Clean t := fun t ht => h t (hp.mem_iff.mpr ht)
  match ts, ts', hp with
  | [], ts', hp => rw [List.Perm.eq_nil hp.symm]
  | [t], ts', hp => rw [List.perm_singleton.mp hp.symm]
  | t :: t' :: rest, [], hp => simp at hp
  | t :: t' :: rest, [u], hp => have := hp.length_eq; simp at this
  | t :: t' :: rest, u :: u' :: rest', hp =>
    rw [normSide_mkSide O _ _ _ h, normSide_mkSide O _ _ _ h']
    have := mapOpt_perm O.canon hp
    cases h1 : mapOpt O.canon (t :: t' :: rest) <;> cases h2 : mapOpt O.canon (u :: u' :: rest') <;>
      simp_all [OptPerm]
    exact congrArg _ (sortTokens_perm_invariant this)

theorem normSide_spelling (O : NormOracle) {ts ts' : List Str}
    (hs : Forall2 (fun a b => O.canon a = O.canon b) ts ts')
    (h : ∀ t ∈ ts, Clean t) (h' : ∀ t ∈ ts', Clean t) :
    normSide O (mkSide ts) = normSide O (mkSide ts') := by
  match ts, ts', hs with
  | [], [], _ => rfl
  | [a], [b], .cons hab .nil =>
    simp only [mkSide, joinWith]
    rw [normSide_single O a (h a (by simp)), normSide_single O b (h' b (by simp)), hab]
  | a :: a' :: as, b :: b' :: bs, hs =>
    rw [normSide_mkSide O _ _ _ h, normSide_mkSide O _ _ _ h', mapOpt_forall₂ O.canon hs]

theorem normalize_mkRxn (O : NormOracle) (rs ps : List Str) (hr : ∀ t ∈ rs, Clean t) (hp : ∀ t ∈ ps, Clean t) :
    normalize O (mkRxn rs ps) =
      match normSide O (mkSide rs), normSide O (mkSide ps) with
      | some a, some b => some (a ++ '>' :: '>' :: b)
      | _, _ => none := by
  have hat : '@' ∉ mkRxn rs ps := by
    simp only [mkRxn, List.mem_append, List.mem_cons]
    intro m
    rcases m with m | m | m | m
    · exact mkSide_no_at rs hr m
    · simp at m
    · simp at m
    · exact mkSide_no_at ps hp m
  unfold normalize
  simp only [rmStereo_of_no_at _ hat]
  rw [mkRxn, if_pos (hasInfix_arrow_append _ _), splitArrow_append_sep _ _ (mkSide_no_gt rs hr),
    splitArrow_nosep _ (mkSide_no_gt ps hp)]
  simp only [mapOpt]
  cases normSide O (mkSide rs) <;> cases normSide O (mkSide ps) <;> simp [joinArrow]

/-- `ts'` is `ts` with the molecules reordered and every molecule possibly respelled (same canonical SMILES) -/
def Variant (O : NormOracle) (ts ts' : List Str) : Prop :=
  ∃ mid, ts.Perm mid ∧ Forall2 (fun a b => O.canon a = O.canon b) mid ts'

/-- a toy oracle for non-vacuity examples: `OCC` is a spelling of `CCO`, every other clean token is canonical;
similarity 1 / 0 -/
def demoOracle : NormOracle where
  canon x := if x = str "OCC" then some (str "CCO") else if Clean x then some x else none
  fpSim _ a b := some (if a = b then 1 else 0)

/-- the answers the repository's kernel gives today for the tokens of `CCO.[H]Cl>>CCCl.O` / `CCO.Cl>>CCCl.O`
(recorded by `harness/props/C17.py`, which re-checks them on every run): `canon_smiles` parses with `sanitize=False`, so
an explicitly written hydrogen atom survives canonicalisation; the fingerprints of `[H]Cl` and `Cl` are equal; two
empty molecules have similarity 0 -/
def explicitHOracle : NormOracle where
  canon x :=
    if x = str "[H]Cl" ∨ x = str "Cl" ∨ x = str "CCO" ∨ x = str "CCCl" ∨ x = str "O" then some x else none
  fpSim _ a b := if a = str "[H]Cl" ∧ b = str "Cl" then some 1 else if a = [] ∧ b = [] then some 0 else none

/-! ## idempotence -/

theorem sideBody_idem (O : NormOracle) (L : CanonLaws O) (s1 n : Str) (h : sideBody O s1 = some n) :
    sideBody O n = some n ∧ '>' ∉ n ∧ '@' ∉ n := by
  unfold sideBody at h
  split at h
  · rename_i hdot
    cases hm : mapOpt (normMol O) (splitOn '.' s1) with
    | none => simp [hm] at h
    | some cs =>
      simp only [hm, Option.map_some, Option.some.injEq] at h
      have hlen := (mapOpt_some _ _ _ hm).1
      have hsrc := (mapOpt_some _ _ _ hm).2
      have h2 : 2 ≤ (sortTokens cs).length := by
        rw [(sortTokens_perm cs).length_eq, hlen]
        exact length_splitOn_of_mem '.' s1 (by simpa using hdot)
      have hcanon : ∀ c ∈ sortTokens cs, Clean c ∧ O.canon c = some c := by
        intro c hc
        obtain ⟨t, _, ht⟩ := hsrc c ((sortTokens_perm cs).mem_iff.mp hc)
        exact ⟨L.clean _ _ ht, L.idem _ _ ht⟩
      subst h
      match hst : sortTokens cs, h2 with
      | a :: b :: rest, _ =>
        rw [hst] at hcanon
        have hc : ∀ u ∈ a :: b :: rest, Clean u := fun u hu => (hcanon u hu).1
        refine ⟨?_, mkSide_no_gt _ hc, mkSide_no_at _ hc⟩
        have := normSide_mkSide O a b rest hc
        unfold normSide at this
        rw [rmStereo_of_no_at _ (mkSide_no_at _ hc)] at this
        rw [show joinWith '.' (a :: b :: rest) = mkSide (a :: b :: rest) from rfl, this,
          mapOpt_id O.canon _ (fun u hu => (hcanon u hu).2), ← hst]
        simp [sortTokens_idem, mkSide]
  · simp only [molBody] at h
    have hc := L.clean _ _ h
    refine ⟨?_, hc.2.1, hc.2.2⟩
    have := normSide_single O n hc
    unfold normSide at this
    rw [rmStereo_of_no_at _ hc.2.2] at this
    rw [this]
    exact L.idem _ _ h

theorem normSide_idem (O : NormOracle) (L : CanonLaws O) (t n : Str) (h : normSide O t = some n) :
    normSide O n = some n ∧ '>' ∉ n ∧ '@' ∉ n := by
  have := sideBody_idem O L _ n h
  refine ⟨?_, this.2⟩
  unfold normSide
  rw [rmStereo_of_no_at _ this.2.2]
  exact this.1

theorem normalize_idem (O : NormOracle) (L : CanonLaws O) (s n : Str) (h : normalize O s = some n) :
    normalize O n = some n := by
  unfold normalize at h
  simp only at h
  split at h
  · rename_i harrow
    cases hm : mapOpt (normSide O) (splitArrow (rmStereo s)) with
    | none => simp [hm] at h
    | some ns =>
      simp only [hm, Option.map_some, Option.some.injEq] at h
      have hlen := (mapOpt_some _ _ _ hm).1
      have hsrc := (mapOpt_some _ _ _ hm).2
      have h2 : 2 ≤ ns.length := by rw [hlen]; exact length_splitArrow_of_hasInfix _ harrow
      have hside : ∀ x ∈ ns, normSide O x = some x ∧ '>' ∉ x ∧ '@' ∉ x := by
        intro x hx
        obtain ⟨t, _, ht⟩ := hsrc x hx
        exact normSide_idem O L t x ht
      subst h
      have hat : '@' ∉ joinArrow ns := by
        intro m
        rcases mem_joinArrow '@' ns m with e | ⟨x, hx, hm⟩
        · simp at e
        · exact (hside x hx).2.2 hm
      have hinfix : hasInfix ['>', '>'] (joinArrow ns) = true := by
        match ns, h2 with
        | a :: b :: rest, _ => simp only [joinArrow]; exact hasInfix_arrow_append _ _
      unfold normalize
      simp only [rmStereo_of_no_at _ hat]
      rw [if_pos hinfix, splitArrow_joinArrow ns (by intro e; simp [e] at h2) (fun x hx => (hside x hx).2.1),
        mapOpt_id _ _ (fun x hx => (hside x hx).1)]
      rfl
  · have := sideBody_idem O L _ n h
    unfold normalize
    simp only [rmStereo_of_no_at _ this.2.2]
    rw [if_neg (by simp [hasInfix_arrow_of_not_mem n this.2.1])]
    exact this.1

/-! ## worst-case similarity -/

/-- what the property assumes of RDKit's Tanimoto / Dice similarity -/
structure FpLaws (O : NormOracle) : Prop where
  symm : ∀ m a b, O.fpSim m a b = O.fpSim m b a
  range : ∀ m a b v, O.fpSim m a b = some v → 0 ≤ v ∧ v ≤ 1

theorem diffPairs_swap (a b : List Str) : diffPairs b a = (diffPairs a b).map Prod.swap := by
  unfold diffPairs
  induction a generalizing b with
  | nil => cases b <;> simp
  | cons x xs ih =>
    cases b with
    | nil => simp
    | cons y ys =>
      simp only [List.zip_cons_cons, List.filter_cons]
      by_cases hxy : x = y
      · subst hxy; simp [ih ys]
      · have hyx : ¬ y = x := fun e => hxy e.symm
        simp [hxy, hyx, ih ys]

theorem diffMol_swap (O : NormOracle) (s1 s2 : Str) : diffMol O s2 s1 = (diffMol O s1 s2).map Prod.swap := by
  unfold diffMol
  cases normalize O s1 <;> cases normalize O s2 <;> simp
  rw [diffPairs_swap]
  simp [List.map_map, Function.comp_def]

theorem fp_symm (O : NormOracle) (L : FpLaws O) (m : Method) (a b : Str) : fp O m a b = fp O m b a := by
  unfold fp
  cases m <;> simp [L.symm]

theorem fp_range (O : NormOracle) (L : FpLaws O) (m : Method) (a b : Str) (v : Rat) (h : fp O m a b = some v) :
    0 ≤ v ∧ v ≤ 1 := by
  unfold fp at h
  cases m <;> first | exact L.range _ _ _ _ h | simp at h

theorem wcSimilarity_of_eq (O : NormOracle) (m : Method) (a b n : Str) (ha : normalize O a = some n)
    (hb : normalize O b = some n) : wcSimilarity O m a b = some 1 := by
  simp [wcSimilarity, ha, hb]

theorem wcSimilarity_symm (O : NormOracle) (L : FpLaws O) (m : Method) (a b : Str) :
    wcSimilarity O m a b = wcSimilarity O m b a := by
  unfold wcSimilarity
  cases normalize O a <;> cases normalize O b <;> simp only
  rename_i x y
  by_cases hxy : x = y
  · simp [hxy]
  · have hyx : ¬ y = x := fun e => hxy e.symm
    rw [if_neg hxy, if_neg hyx]
    match splitArrow x, splitArrow y with
    | [xe, xp], [ye, yp] =>
      simp only
      rw [diffMol_swap O xe ye, diffMol_swap O xp yp]
      cases diffMol O xe ye <;> cases diffMol O xp yp <;> simp only [Option.map_none, Option.map_some]
      rename_i d1 d2
      obtain ⟨e1, e2⟩ := d1
      obtain ⟨p1, p2⟩ := d2
      simp only [Prod.swap]
      rw [fp_symm O L m e2 e1, fp_symm O L m p2 p1]
    | [], _ => simp
    | [_], _ => cases splitArrow y <;> simp
    | _ :: _ :: _ :: _, _ => cases splitArrow y <;> simp
    | [_, _], [] => simp
    | [_, _], [_] => simp
    | [_, _], _ :: _ :: _ :: _ => simp

theorem wcSimilarity_range (O : NormOracle) (L : FpLaws O) (m : Method) (a b : Str) (v : Rat)
    (h : wcSimilarity O m a b = some v) : 0 ≤ v ∧ v ≤ 1 := by
  unfold wcSimilarity at h
  cases hx : normalize O a <;> cases hy : normalize O b <;> simp only [hx, hy] at h <;> try cases h
  rename_i x y
  split at h
  · cases h; constructor <;> decide
  · split at h
    · split at h
      · split at h
        · rename_i e1 e2 p1 p2 _ u w hu hw
          cases h
          have := fp_range O L m _ _ u hu
          have := fp_range O L m _ _ w hw
          grind
        · cases h
      · cases h
    · cases h

end SynRBL.Norm
