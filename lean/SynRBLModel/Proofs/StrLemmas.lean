import SynRBLModel.Model.RuleBased
/-!
# String lemmas for the containment property: `>>`-splitting, `.`-splitting, character preservation
-/
namespace SynRBL
open Str

/-- the string contains no `>` (every SMILES side of a valid reaction) -/
def NoGt (s : Str) : Prop := '>' ∉ s

instance (s : Str) : Decidable (NoGt s) := inferInstanceAs (Decidable (¬ _))

theorem NoGt.append {a b : Str} (ha : NoGt a) (hb : NoGt b) : NoGt (a ++ b) := by
  unfold NoGt at *; simp [ha, hb]

theorem NoGt.cons {c : Char} {s : Str} (hc : c ≠ '>') (hs : NoGt s) : NoGt (c :: s) := by
  unfold NoGt at *; simp [hs]; exact fun h => hc h.symm

theorem NoGt.left {a b : Str} (h : NoGt (a ++ b)) : NoGt a := by
  unfold NoGt at *; intro hh; exact h (List.mem_append_left _ hh)

theorem NoGt.right {a b : Str} (h : NoGt (a ++ b)) : NoGt b := by
  unfold NoGt at *; intro hh; exact h (List.mem_append_right _ hh)

theorem noGt_rep (x : Str) (hx : NoGt x) (n : Nat) : NoGt (rep x n) := by
  induction n with
  | zero => simp [rep, NoGt]
  | succ k ih => exact NoGt.append hx ih

/-- put a character in front of the first token -/
def consHead (x : Char) : List Str → List Str
  | [] => [[x]]
  | t :: ts => (x :: t) :: ts

theorem splitOn_cons_ne (c x : Char) (xs : Str) (h : x ≠ c) : splitOn c (x :: xs) = consHead x (splitOn c xs) := by
  rw [splitOn]
  simp only [h, if_false]
  cases splitOn c xs <;> rfl

theorem splitOn_cons_eq (c : Char) (xs : Str) : splitOn c (c :: xs) = [] :: splitOn c xs := by
  rw [splitOn]; simp

theorem splitArrow_cons_ne (x : Char) (xs : Str) (hx : x ≠ '>') :
    splitArrow (x :: xs) = consHead x (splitArrow xs) := by
  rw [splitArrow.eq_def]
  split
  · rename_i heq; cases heq
  · rename_i heq; cases heq; exact absurd rfl hx
  · rename_i heq
    cases heq
    cases splitArrow xs <;> rfl

theorem splitArrow_arrow (rest : Str) : splitArrow ('>' :: '>' :: rest) = [] :: splitArrow rest := by
  rw [splitArrow]

theorem splitArrow_noGt (s : Str) (h : NoGt s) : splitArrow s = [s] := by
  induction s with
  | nil => rfl
  | cons x xs ih =>
    have hx : x ≠ '>' := fun e => h (by rw [e]; exact List.mem_cons_self ..)
    have hxs : NoGt xs := fun hh => h (List.mem_cons_of_mem _ hh)
    rw [splitArrow_cons_ne x xs hx, ih hxs]; rfl

theorem splitArrow_append_arrow (a rest : Str) (h : NoGt a) :
    splitArrow (a ++ '>' :: '>' :: rest) = a :: splitArrow rest := by
  induction a with
  | nil => exact splitArrow_arrow rest
  | cons x xs ih =>
    have hx : x ≠ '>' := fun e => h (by rw [e]; exact List.mem_cons_self ..)
    have hxs : NoGt xs := fun hh => h (List.mem_cons_of_mem _ hh)
    simp only [List.cons_append]
    rw [splitArrow_cons_ne x _ hx, ih hxs]; rfl

/-- a reaction string built from two `>`-free sides splits back into them -/
theorem splitArrow_mk (a b : Str) (ha : NoGt a) (hb : NoGt b) : splitArrow (a ++ str ">>" ++ b) = [a, b] := by
  have : a ++ str ">>" ++ b = a ++ '>' :: '>' :: b := by simp [str]
  rw [this, splitArrow_append_arrow a b ha, splitArrow_noGt b hb]

/-! ### `removeAll` only deletes characters -/

theorem removeAllGo_mem (sub : Str) : ∀ (s : Str) (n : Nat) (c : Char), c ∈ removeAllGo sub n s → c ∈ s := by
  intro s
  induction s with
  | nil => intro n c h; cases n <;> simp [removeAllGo] at h
  | cons x xs ih =>
    intro n c h
    cases n with
    | succ k => simp only [removeAllGo] at h; exact List.mem_cons_of_mem _ (ih k c h)
    | zero =>
      simp only [removeAllGo] at h
      split at h
      · exact List.mem_cons_of_mem _ (ih _ c h)
      · rcases List.mem_cons.1 h with h | h
        · rw [h]; exact List.mem_cons_self ..
        · exact List.mem_cons_of_mem _ (ih 0 c h)

theorem noGt_removeAll (sub s : Str) (h : NoGt s) : NoGt (removeAll sub s) := by
  unfold NoGt removeAll at *
  intro hh; exact h (removeAllGo_mem sub s 0 '>' hh)

/-! ### `.`-splitting -/

theorem splitOn_ne_nil (c : Char) (s : Str) : splitOn c s ≠ [] := by
  induction s with
  | nil => simp [splitOn]
  | cons x xs ih =>
    by_cases hx : x = c
    · subst hx; rw [splitOn_cons_eq]; simp
    · rw [splitOn_cons_ne c x xs hx]
      cases splitOn c xs <;> simp [consHead]

/-- appending a dot-led suffix appends tokens: the tokens of the old string are kept, in order, at the front -/
theorem splitOn_append_dot (a x : Str) : splitOn '.' (a ++ '.' :: x) = splitOn '.' a ++ splitOn '.' x := by
  induction a with
  | nil => rw [List.nil_append, splitOn_cons_eq]; rfl
  | cons y ys ih =>
    simp only [List.cons_append]
    by_cases hy : y = '.'
    · subst hy
      rw [splitOn_cons_eq, splitOn_cons_eq, ih]; rfl
    · rw [splitOn_cons_ne '.' y _ hy, splitOn_cons_ne '.' y ys hy, ih]
      cases hs : splitOn '.' ys with
      | nil => exact absurd hs (splitOn_ne_nil _ _)
      | cons t ts => rfl

end SynRBL
