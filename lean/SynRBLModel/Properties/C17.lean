import SynRBLModel.Proofs.Normalize
/-!
# C17 — benchmark comparison ignores molecule order and SMILES spelling

Model: `Model/Normalize.lean` (`normalize_smiles`, `_get_diff_mol`, `wc_similarity` of
`synrbl/SynUtils/chem_utils.py:155-250`). RDKit enters through `NormOracle` (`canon`: canonical SMILES of one molecule
token after atom-map removal; `fpSim`: fingerprint similarity); its laws (`CanonLaws`, `FpLaws`, `Proofs/Normalize.lean`)
are explicit hypotheses and are monitored on every recorded answer by `harness/props/C17.py`.

Vocabulary: a *clean* token has no `.`, no `>` and no `@` (one stereo-free molecule); `mkRxn rs ps` is the reaction
written from the token lists of its two sides; `Variant O ts ts'` = `ts'` is `ts` reordered and respelled;
`demoOracle` is a toy oracle for the examples; `none` = the Python raises.
-/
namespace SynRBL
open Norm Str

/-- **C17 (sort).** With the key `(count_atoms(x), sum(ord(c) for c in x), x)` the sorted token list is the same for
every reordering of the tokens — all lists, duplicates and key-prefix ties (anagram isomers) included. No hypothesis:
the key ends in the token itself, so the order is total and antisymmetric on tokens. -/
theorem C17_sort_perm_invariant (ts ts' : List Str) (h : ts.Perm ts') : sortTokens ts = sortTokens ts' :=
  sortTokens_perm_invariant h

/-- sorting loses and invents nothing -/
theorem C17_sort_is_permutation (ts : List Str) : (sortTokens ts).Perm ts := sortTokens_perm ts

/-- **Why the third key component matters.** With the two-component key `(count_atoms(x), sum(ord(c) for c in x))`
(the code before commit "break ties of the normalisation sort key by the SMILES itself") the invariance is false:
`CCCO` and `CCOC` have 4 atoms and the same character sum, the stable sort keeps the input order. -/
theorem C17_witness_two_component_key :
    ¬ ∀ ts ts' : List Str, ts.Perm ts' → sortDescBy tokLe2 ts = sortDescBy tokLe2 ts' := by
  intro h
  have := h [str "CCCO", str "CCOC"] [str "CCOC", str "CCCO"] (List.Perm.swap ..)
  revert this
  decide

/-- **C17 (order).** Normalising any reordering of the molecules within each side gives the same string (or raises
in both cases). -/
theorem C17_normalize_perm (O : NormOracle) (rs rs' ps ps' : List Str)
    (hr : ∀ t ∈ rs, Clean t) (hp : ∀ t ∈ ps, Clean t) (hrp : rs.Perm rs') (hpp : ps.Perm ps') :
    normalize O (mkRxn rs ps) = normalize O (mkRxn rs' ps') := by
  have hr' : ∀ t ∈ rs', Clean t := fun t ht => hr t (hrp.mem_iff.mpr ht)
  have hp' : ∀ t ∈ ps', Clean t := fun t ht => hp t (hpp.mem_iff.mpr ht)
  rw [normalize_mkRxn O rs ps hr hp, normalize_mkRxn O rs' ps' hr' hp',
    normSide_perm O hrp hr, normSide_perm O hpp hp]

/-- **C17 (spelling).** Replacing each molecule by an equivalent spelling (same canonical SMILES according to the
oracle, position by position) gives the same normal form. -/
theorem C17_normalize_spelling (O : NormOracle) (rs rs' ps ps' : List Str)
    (hr : ∀ t ∈ rs, Clean t) (hp : ∀ t ∈ ps, Clean t) (hr' : ∀ t ∈ rs', Clean t) (hp' : ∀ t ∈ ps', Clean t)
    (hrs : Forall2 (fun a b => O.canon a = O.canon b) rs rs')
    (hps : Forall2 (fun a b => O.canon a = O.canon b) ps ps') :
    normalize O (mkRxn rs ps) = normalize O (mkRxn rs' ps') := by
  rw [normalize_mkRxn O rs ps hr hp, normalize_mkRxn O rs' ps' hr' hp',
    normSide_spelling O hrs hr hr', normSide_spelling O hps hp hp']

/-- the hypothesis of `C17_normalize_spelling` is sharp: two spellings on which the code's canonicalisation disagrees
give different normal forms (so the pair is compared through fingerprints, see `C17_witness_explicit_hydrogen`) -/
theorem C17_spelling_hypothesis_sharp (O : NormOracle) (a b ca cb : Str) (ps : List Str)
    (ha : Clean a) (hb : Clean b) (hp : ∀ t ∈ ps, Clean t)
    (hca : O.canon a = some ca) (hcb : O.canon b = some cb) (hne : ca ≠ cb)
    (hvalid : (normSide O (mkSide ps)).isSome) :
    normalize O (mkRxn [a] ps) ≠ normalize O (mkRxn [b] ps) := by
  rw [normalize_mkRxn O [a] ps (by simpa using ha) hp, normalize_mkRxn O [b] ps (by simpa using hb) hp]
  obtain ⟨p, hp'⟩ := Option.isSome_iff_exists.mp hvalid
  simp only [mkSide, joinWith] at *
  rw [normSide_single O a ha, normSide_single O b hb, hca, hcb, hp']
  simp only [ne_eq, Option.some.injEq]
  intro h
  exact hne (List.append_cancel_right h)

/-- **Known finding (false of the current code): explicit hydrogens.** `canon_smiles` keeps an explicitly written
hydrogen atom (`[H]Cl` stays `[H]Cl`, while `Cl` stays `Cl`), so the oracle disagrees on two spellings of one
molecule; with the answers the real kernel gives (`explicitHOracle`) the identical reactions `CCO.[H]Cl>>CCCl.O` and
`CCO.Cl>>CCCl.O` score 0: the educt sides differ in `[H]Cl` / `Cl` (fingerprint similarity 1) but the product sides are
equal, and the similarity of the two *empty* difference molecules is 0. -/
theorem C17_witness_explicit_hydrogen :
    wcSimilarity explicitHOracle .pathway (str "CCO.[H]Cl>>CCCl.O") (str "CCO.Cl>>CCCl.O") = some 0 := by
  decide +kernel

/-- order and spelling together -/
theorem C17_variant_same_normal_form (O : NormOracle) (rs rs' ps ps' : List Str)
    (hr : ∀ t ∈ rs, Clean t) (hp : ∀ t ∈ ps, Clean t) (hr' : ∀ t ∈ rs', Clean t) (hp' : ∀ t ∈ ps', Clean t)
    (hrv : Variant O rs rs') (hpv : Variant O ps ps') :
    normalize O (mkRxn rs ps) = normalize O (mkRxn rs' ps') := by
  obtain ⟨mr, hrp, hrs⟩ := hrv
  obtain ⟨mp, hpp, hps⟩ := hpv
  have hmr : ∀ t ∈ mr, Clean t := fun t ht => hr t (hrp.mem_iff.mpr ht)
  have hmp : ∀ t ∈ mp, Clean t := fun t ht => hp t (hpp.mem_iff.mpr ht)
  rw [C17_normalize_perm O rs mr ps mp hr hp hrp hpp]
  exact C17_normalize_spelling O mr rs' mp ps' hmr hmp hr' hp' hrs hps

/-- **C17 (idempotence).** For *every* input string on which `normalize_smiles` returns, normalising the result
returns it unchanged — provided every canonical SMILES RDKit handed out is one clean token that canonicalises to
itself (`CanonLaws`). The benchmark relies on this three times per row (`cmd_benchmark.py:147-149`,
`wc_similarity`, `_get_diff_mol` each normalise again). -/
theorem C17_normalize_idem (O : NormOracle) (L : CanonLaws O) (s n : Str) (h : normalize O s = some n) :
    normalize O n = some n :=
  normalize_idem O L s n h

/-- **C17 (identical ⇒ exactly 1).** A valid reaction and any reordered / respelled variant of it compare with
similarity exactly 1, whatever the method argument. -/
theorem C17_identical_is_one (O : NormOracle) (m : Method) (rs rs' ps ps' : List Str)
    (hr : ∀ t ∈ rs, Clean t) (hp : ∀ t ∈ ps, Clean t) (hr' : ∀ t ∈ rs', Clean t) (hp' : ∀ t ∈ ps', Clean t)
    (hrv : Variant O rs rs') (hpv : Variant O ps ps') (hvalid : (normalize O (mkRxn rs ps)).isSome) :
    wcSimilarity O m (mkRxn rs ps) (mkRxn rs' ps') = some 1 := by
  have heq := C17_variant_same_normal_form O rs rs' ps ps' hr hp hr' hp' hrv hpv
  obtain ⟨n, hn⟩ := Option.isSome_iff_exists.mp hvalid
  exact wcSimilarity_of_eq O m _ _ n hn (heq ▸ hn)

/-- **C17 (symmetry).** `wc_similarity(a, b, m) = wc_similarity(b, a, m)` for all strings (including "both raise"),
all methods and any numbers of molecules, given that the fingerprint similarity itself is symmetric. -/
theorem C17_wc_symmetric (O : NormOracle) (L : FpLaws O) (m : Method) (a b : Str) :
    wcSimilarity O m a b = wcSimilarity O m b a :=
  wcSimilarity_symm O L m a b

/-- **C17 (range).** Every value `wc_similarity` returns lies in `[0, 1]`, given that the fingerprint similarity does. -/
theorem C17_wc_range (O : NormOracle) (L : FpLaws O) (m : Method) (a b : Str) (v : Rat)
    (h : wcSimilarity O m a b = some v) : 0 ≤ v ∧ v ≤ 1 :=
  wcSimilarity_range O L m a b v h

/-- the benchmark hands *normalised* strings to `wc_similarity` (`cmd_benchmark.py:147-149`); by idempotence that is
the same as comparing the raw strings -/
theorem C17_benchmark_prenormalisation_harmless (O : NormOracle) (L : CanonLaws O) (m : Method) (e r ne nr : Str)
    (he : normalize O e = some ne) (hr : normalize O r = some nr) :
    wcSimilarity O m ne nr = wcSimilarity O m e r := by
  unfold wcSimilarity
  rw [he, hr, normalize_idem O L e ne he, normalize_idem O L r nr hr]

/-! ### non-vacuity and regression cases -/

example : CanonLaws demoOracle := by
  constructor
  · intro x c h
    simp only [demoOracle] at h ⊢
    split at h
    · cases h; decide
    · split at h
      · cases h
        rename_i hne hc
        simp [hne, hc]
      · cases h
  · intro x c h
    simp only [demoOracle] at h
    split at h
    · cases h; decide
    · split at h
      · cases h; assumption
      · cases h

example : FpLaws demoOracle := by
  constructor
  · intro m a b; simp only [demoOracle]; by_cases h : a = b <;> simp [h, eq_comm]
  · intro m a b v h
    simp only [demoOracle, Option.some.injEq] at h
    subst h
    split <;> constructor <;> decide

/-- the old witness `CCCO.CCOC>>CCCO` vs `CCOC.CCCO>>CCCO` now has one normal form … -/
example : normalize demoOracle (str "CCCO.CCOC>>CCCO") = normalize demoOracle (str "CCOC.CCCO>>CCCO") := by
  decide +kernel
example : normalize demoOracle (str "CCCO.CCOC>>CCCO") = some (str "CCOC.CCCO>>CCCO") := by decide +kernel
/-- … and similarity exactly 1 -/
example : wcSimilarity demoOracle .pathway (str "CCCO.CCOC>>CCCO") (str "CCOC.CCCO>>CCCO") = some 1 := by
  decide +kernel
/-- order and spelling together -/
example : normalize demoOracle (str "OCC.CCCO.CC>>CCOC") = normalize demoOracle (str "CC.CCCO.CCO>>CCOC") := by
  decide +kernel
/-- the hypotheses of `C17_identical_is_one` are satisfiable on a non-trivial reaction -/
example : Variant demoOracle [str "OCC", str "CCCO"] [str "CCCO", str "CCO"] :=
  ⟨[str "CCCO", str "OCC"], List.Perm.swap .., .cons (by decide) (.cons (by decide) .nil)⟩
/-- a non-trivial value below 1 (min of the educt-side and product-side similarity) -/
example : wcSimilarity demoOracle .ecfp (str "CCO.CC>>CCOCC") (str "CCO.CC>>CCOCCC") = some 0 := by decide +kernel

end SynRBL
