import SynRBLModel.Proofs.McsSelect
/-!
# C10 — MCS search reports genuine, correctly attributed, largest common substructures

The chemistry (what the common substructure of two molecules is) is RDKit's and is monitored on real results by the
check (`harness/props/C10.py`); the theorems are about everything around it: which of the search conditions is
retained (`ExtractMCS.get_largest_condition`), how results find their way back to their reaction (`MCSSearch.find`) and
how the list of patterns stays aligned with the list of molecules (`IterativeMCSReactionPairs`, `single_mcs`).
-/
namespace SynRBL
open Mcs

/-! ## selection among the search conditions -/

/-- **C10 (largest).** If `get_largest_condition` retains condition `c` for row `idx`, then `c` is one of the conditions,
the row exists in every condition table, no condition has a larger total atom count for that row, and — as soon as
there are two conditions — the retained total is positive. -/
theorem C10_largest_is_max (conds : List (List (List Nat))) (res : List (Option CondIdx)) (idx c : Nat)
    (h : getLargest conds = some res) (hc : res[idx]? = some (some c)) :
    c < conds.length ∧ (∀ cond ∈ conds, idx < cond.length) ∧
    (∀ c' < conds.length, total (sizesAt conds c' idx) ≤ total (sizesAt conds c idx)) ∧
    (2 ≤ conds.length → 0 < total (sizesAt conds c idx)) := by
  obtain ⟨_, hle, _, hrow⟩ := getLargest_spec conds res h
  have hidx : idx < res.length := by
    rcases Nat.lt_or_ge idx res.length with h | h
    · exact h
    · rw [List.getElem?_eq_none h] at hc; cases hc
  rw [hrow idx hidx] at hc
  obtain ⟨h1, h2, _, h4⟩ := selectRow_some _ c (Option.some.inj hc)
  have hlen : (cellsAt conds idx).length = conds.length := by simp [cellsAt]
  refine ⟨by omega, fun cond hcond => by have := hle cond hcond; omega, ?_, ?_⟩
  · intro c' hc'
    have := h2 c' (by omega)
    rwa [totAt_cellsAt, totAt_cellsAt] at this
  · intro h2c
    have := h4 (by omega)
    rw [totAt_cellsAt, firstAt_cellsAt] at this
    have := first_le_total (sizesAt conds c idx)
    omega

/-- **C10 (ties).** Among the conditions with the same (maximal) total the retained one has the largest first pattern,
and among those with the same first pattern as well it is the one with the lowest index (a complete tie goes to the
earliest condition). -/
theorem C10_tie_break (conds : List (List (List Nat))) (res : List (Option CondIdx)) (idx c : Nat)
    (h : getLargest conds = some res) (hc : res[idx]? = some (some c)) :
    ∀ c' < conds.length, total (sizesAt conds c' idx) = total (sizesAt conds c idx) →
      first (sizesAt conds c' idx) ≤ first (sizesAt conds c idx) ∧
      (first (sizesAt conds c' idx) = first (sizesAt conds c idx) → c ≤ c') := by
  obtain ⟨_, _, _, hrow⟩ := getLargest_spec conds res h
  have hidx : idx < res.length := by
    rcases Nat.lt_or_ge idx res.length with h | h
    · exact h
    · rw [List.getElem?_eq_none h] at hc; cases hc
  rw [hrow idx hidx] at hc
  obtain ⟨_, _, h3, _⟩ := selectRow_some _ c (Option.some.inj hc)
  have hlen : (cellsAt conds idx).length = conds.length := by simp [cellsAt]
  intro c' hc' he
  have := h3 c' (by omega) (by rw [totAt_cellsAt, totAt_cellsAt]; exact he)
  rwa [firstAt_cellsAt, firstAt_cellsAt] at this

/-- **C10 (skips).** A row is left out of the result exactly when the maximal total is attained by at least two
conditions and every condition that attains it has a first pattern without atoms (an empty `mcs_results`, `""`, or an
unparsable SMARTS). -/
theorem C10_skips_iff (conds : List (List (List Nat))) (res : List (Option CondIdx)) (idx : Nat)
    (h : getLargest conds = some res) (hidx : idx < res.length) :
    res[idx]? = some none ↔
      ∃ c₁ c₂, c₁ < c₂ ∧ c₂ < conds.length ∧
        (∀ c' < conds.length, total (sizesAt conds c' idx) ≤ total (sizesAt conds c₁ idx)) ∧
        total (sizesAt conds c₂ idx) = total (sizesAt conds c₁ idx) ∧
        (∀ c' < conds.length, total (sizesAt conds c' idx) = total (sizesAt conds c₁ idx) →
          first (sizesAt conds c' idx) = 0) := by
  obtain ⟨hne, _, _, hrow⟩ := getLargest_spec conds res h
  rw [hrow idx hidx]
  simp only [Option.some.injEq]
  rw [selectRow_none]
  have hlen : (cellsAt conds idx).length = conds.length := by simp [cellsAt]
  simp only [hlen, totAt_cellsAt, firstAt_cellsAt]
  constructor
  · rintro (h0 | h1)
    · exfalso; apply hne; simpa [cellsAt] using h0
    · exact h1
  · intro h1; exact Or.inr h1

/-- the same for records in which an empty first pattern means that nothing was found at all (true of real search
results, where the first pattern belongs to the reactant with the largest overlap; monitored by the check): with two
or more conditions a row is skipped iff no condition found anything; with one condition no row is ever skipped -/
theorem C10_skips_iff_all_zero (conds : List (List (List Nat))) (res : List (Option CondIdx)) (idx : Nat)
    (h : getLargest conds = some res) (hidx : idx < res.length)
    (hlaw : ∀ c < conds.length, first (sizesAt conds c idx) = 0 → total (sizesAt conds c idx) = 0) :
    res[idx]? = some none ↔ 2 ≤ conds.length ∧ ∀ c < conds.length, total (sizesAt conds c idx) = 0 := by
  rw [C10_skips_iff conds res idx h hidx]
  constructor
  · rintro ⟨c₁, c₂, h12, h2, hmax, _, hz⟩
    refine ⟨by omega, ?_⟩
    intro c hc
    have h1 := hlaw c₁ (by omega) (hz c₁ (by omega) rfl)
    have := hmax c hc
    omega
  · rintro ⟨h2, hz⟩
    refine ⟨0, 1, by omega, by omega, ?_, ?_, ?_⟩
    · intro c' hc'; rw [hz c' hc', hz 0 (by omega)]; exact Nat.le_refl _
    · rw [hz 1 (by omega), hz 0 (by omega)]
    · intro c' hc' _
      have := first_le_total (sizesAt conds c' idx)
      have := hz c' hc'
      omega

/-- without that law the rule does skip rows in which something was found: two conditions that both report
`["", "[#6]-[#6]"]` (total 2, first pattern empty) -/
theorem C10_witness_skip_with_positive_total : getLargest [[[0, 2]], [[0, 2]]] = some [none] := by decide

/-- the shape of the result: one decision per row index below the length of the shortest condition table
(`min_length`); no conditions at all is the only way to raise (`min()` of an empty sequence) -/
theorem C10_result_rows (conds : List (List (List Nat))) :
    (getLargest conds = none ↔ conds = []) ∧
    ∀ res, getLargest conds = some res →
      (∀ cond ∈ conds, res.length ≤ cond.length) ∧ ∃ cond ∈ conds, res.length = cond.length := by
  refine ⟨getLargest_none conds, ?_⟩
  intro res h
  obtain ⟨_, h1, h2, _⟩ := getLargest_spec conds res h
  exact ⟨h1, h2⟩

/-! ## re-attachment through the id → index map -/

/-- **C10 (attach by id).** Ids of the unsolved rows pairwise distinct; results carrying pairwise distinct ids of
unsolved rows. Then `attach` succeeds, returns as many rows as it got, leaves every solved row and every row without a
result exactly as it was, and writes every result — payload and issue — to the row whose id it carries. Since that row
exists and is unique, no result is lost or lands twice. -/
theorem C10_attach_by_id {α P : Type} (rows : List (Mcs.Row α P))
    (hn : ((rows.filter (!·.solved)).map (·.id)).Nodup)
    (results : List (Id × P × String))
    (hids : ∀ x ∈ results, ∃ i, ∃ h : i < rows.length, rows[i].solved = false ∧ rows[i].id = x.1)
    (hres : (results.map (·.1)).Nodup) :
    ∃ out, attach (idMap rows) rows results = some out ∧ out.length = rows.length ∧
      (∀ i, ∀ h : i < rows.length, rows[i].solved = true → out[i]? = some rows[i]) ∧
      (∀ i, ∀ h : i < rows.length, (∀ x ∈ results, x.1 ≠ rows[i].id) → out[i]? = some rows[i]) ∧
      (∀ x ∈ results, ∀ i, ∀ h : i < rows.length, rows[i].solved = false → rows[i].id = x.1 →
        out[i]? = some (writeBack rows[i] x.2.1 x.2.2)) :=
  attach_by_id rows hn results hids hres

/-- **C10 (no mixing).** With at least one search condition and pairwise distinct ids among the unsolved rows,
`MCSSearch.find` is a map: what it does to a row is what `findOne` does to that row alone — a solved row is returned
as it is; an unsolved row gets the record of the condition retained *for its own reaction*, searched on *its own*
input and carrying *its own* id, or, if no condition is retained, `mcs = None` and `"No MCS identified."`.
Holds for every search oracle, every fragment-analysis oracle, every batch composition and order. -/
theorem C10_find_row_local {α G D : Type} (nc : Nat) (hnc : 0 < nc) (search : CondIdx → α → Found D)
    (graph : Mcs.Entry D → G) (rows : List (Mcs.Row α (Payload G D)))
    (hn : ((rows.filter (!·.solved)).map (·.id)).Nodup) :
    Mcs.find nc search graph rows = some (rows.map (findOne nc search graph)) :=
  find_eq_map nc hnc search graph rows hn

/-- what a row with search data says, read off `C10_find_row_local`: the record is the search of the row's own
reaction under the retained condition, it carries the row's id, and no other condition has a larger total -/
theorem C10_find_retains_largest {α G D : Type} (nc : Nat) (hnc : 0 < nc) (search : CondIdx → α → Found D)
    (graph : Mcs.Entry D → G) (rows out : List (Mcs.Row α (Payload G D)))
    (hn : ((rows.filter (!·.solved)).map (·.id)).Nodup) (hf : Mcs.find nc search graph rows = some out)
    (i : Nat) (r : Mcs.Row α (Payload G D)) (hr : rows[i]? = some r) (hs : r.solved = false) :
    (∃ c g, c < nc ∧ out[i]? = some { r with mcs := .data (g, ⟨r.id, search c r.inp⟩),
                                              issue := some (search c r.inp).issue } ∧
        g = graph ⟨r.id, search c r.inp⟩ ∧
        ∀ c' < nc, total (search c' r.inp).sizes ≤ total (search c r.inp).sizes) ∨
    (out[i]? = some { r with mcs := .null, issue := some Mcs.noMcsIssue }) := by
  rw [C10_find_row_local nc hnc search graph rows hn] at hf
  cases hf
  rw [List.getElem?_map, hr]
  simp only [Option.map_some, findOne, hs]
  cases hch : choose nc search r.inp with
  | none => right; rfl
  | some c =>
    left
    refine ⟨c, _, choose_lt nc search r.inp c hch, rfl, rfl, ?_⟩
    intro c' hc'
    obtain ⟨h1, h2, _, _⟩ := selectRow_some _ c hch
    have := h2 c' (by simpa using hc')
    simp only [totAt, List.getD_eq_getElem?_getD, List.getElem?_map] at this
    rw [List.getElem?_range hc', List.getElem?_range (by simpa using h1)] at this
    simpa using this

/-- the hypothesis is needed: with a duplicated id both results go to the *later* row (the dictionary keeps the last
index) and the earlier row stays without search data -/
theorem C10_witness_duplicate_ids :
    Mcs.find 1 dupSearch (fun _ => ()) dupRows ≠ some (dupRows.map (findOne 1 dupSearch (fun _ => ()))) ∧
    (Mcs.find 1 dupSearch (fun _ => ()) dupRows).map (·.map (·.mcs)) =
      some [.null, .data ((), ⟨"0", ⟨[2], (), ""⟩⟩)] := by
  decide

/-! ## alignment of patterns and molecules inside one search -/

/-- **C10 (alignment, loop level).** As long as no removal step raises after its pattern was appended, the second loop
of `IterativeMCSReactionPairs` returns one entry per sorted reactant, and entry `i` is what the search of reactant `i`
produced: its pattern, or the `None` placeholder if that search was cancelled or raised — for every pattern of
cancellations and exceptions. -/
theorem C10_alignment {M Pr Pat : Type} (step : M → Pr → Mcs.Outcome Pat × Pr) (cur : Pr) (sorted : List M)
    (hclean : ∀ o ∈ outcomes step cur sorted, o.clean = true) :
    (mcsList step cur sorted).length = sorted.length ∧
    ∀ i, ∀ h : i < sorted.length, ∃ pr, (mcsList step cur sorted)[i]? = some (toOpt (step sorted[i] pr).1) := by
  unfold mcsList
  rw [flatMap_emit_clean _ hclean]
  refine ⟨by simp [outcomes_length], ?_⟩
  intro i h
  obtain ⟨pr, hp⟩ := outcomes_get step sorted cur i h
  exact ⟨pr, by simp [List.getElem?_map, hp]⟩

/-- **C10 (alignment, record level).** Whatever happens in the two loops — any subset of first-loop searches cancelled,
any pattern of cancellations and exceptions (before or after the append) in the second loop — the record `single_mcs`
hands on is aligned: it has as many patterns as molecules, the `i`-th pattern was found by searching the `i`-th molecule,
a record without issue lists exactly the molecules of the carbon-richer side (as a multiset), and a record with an
issue has both lists empty. -/
theorem C10_entry_aligned {M Pr Pat : Type} (pre : M → Option Nat) (step : M → Pr → Mcs.Outcome Pat × Pr)
    (reactants : List M) (prod : Pr) :
    (searchEntry pre step reactants prod).mcsResults.length = (searchEntry pre step reactants prod).sortedReactants.length ∧
    (∀ (i : Nat) r p, (searchEntry pre step reactants prod).sortedReactants[i]? = some r →
      (searchEntry pre step reactants prod).mcsResults[i]? = some p → ∃ pr, (step r pr).1 = .found p) ∧
    ((searchEntry pre step reactants prod).issue = "" →
      (searchEntry pre step reactants prod).sortedReactants.Perm reactants) ∧
    ((searchEntry pre step reactants prod).issue ≠ "" →
      (searchEntry pre step reactants prod).mcsResults = [] ∧ (searchEntry pre step reactants prod).sortedReactants = []) :=
  searchEntry_aligned pre step reactants prod

/-- the loop before the repair (`e7d2494`): the search of the second of three molecules is cancelled, nothing is
appended, and the pattern of molecule 3 is recorded — without any issue — at the position of molecule 2 -/
theorem C10_witness_cancel_without_placeholder :
    searchEntryOld (M := Nat) (Pr := Unit) (Pat := Nat) (fun r => some (10 - r))
        (fun r _ => (if r = 2 then .cancelled else .found (100 * r), ())) [1, 2, 3] () =
      ⟨[100, 300], [1, 2, 3], ""⟩ ∧
    searchEntry (M := Nat) (Pr := Unit) (Pat := Nat) (fun r => some (10 - r))
        (fun r _ => (if r = 2 then .cancelled else .found (100 * r), ())) [1, 2, 3] () =
      ⟨[], [], failedIssue⟩ := by decide

/-- the hypothesis of `C10_alignment` is needed in the current code: a removal step that raises after the append leaves
the pattern *and* a placeholder, so `mcs_list` is one longer than the molecule list; `single_mcs` turns this into an
error record (`C10_entry_aligned`) -/
theorem C10_witness_raise_after_append :
    mcsList (M := Nat) (Pr := Unit) (Pat := Nat)
        (fun r _ => (if r = 2 then .raisedAfter 200 else .found (100 * r), ())) () [1, 2, 3] =
      [some 100, some 200, none, some 300] ∧
    searchEntry (M := Nat) (Pr := Unit) (Pat := Nat) (fun r => some (10 - r))
        (fun r _ => (if r = 2 then .raisedAfter 200 else .found (100 * r), ())) [1, 2, 3] () =
      ⟨[], [], failedIssue⟩ := by decide

/-- a search cancelled in the *first* loop drops the molecule, the length comparison of `single_mcs` notices -/
theorem C10_uncertain_when_first_loop_drops {M Pr Pat : Type} (pre : M → Option Nat) (step : M → Pr → Mcs.Outcome Pat × Pr)
    (reactants : List M) (prod : Pr) (r : M) (hr : r ∈ reactants) (hc : pre r = none) :
    searchEntry pre step reactants prod = ⟨[], [], uncertainIssue⟩ := by
  unfold searchEntry singleMcs
  simp only
  have hlt : (firstLoop pre reactants).length < reactants.length := by
    unfold firstLoop
    rw [(Norm.sortDescBy_perm _ _).length_eq]
    rcases Nat.lt_or_ge (reactants.filter fun r => (pre r).isSome).length reactants.length with h | h
    · exact h
    · have he := Nat.le_antisymm (List.length_filter_le _ _) h
      have := List.length_filter_eq_length_iff.1 he r hr
      rw [hc] at this; cases this
  rw [if_pos (by simp; omega)]

/-! ## the hypotheses are satisfiable, the functions do something -/

/-- three conditions, four rows: a clear winner; a tie on the total decided by the first pattern; a complete tie (lowest
index); nothing found anywhere (skipped) -/
example : getLargest
    [[[2, 1], [1, 2], [2, 1], []],
     [[3, 1], [2, 1], [2, 1], [0]],
     [[1],    [3],    [1, 1], []]] = some [some 1, some 2, some 0, none] := by decide

/-- `min_length` truncation and the single-condition edge case (a row with nothing found is *not* skipped) -/
example : getLargest [[[1], [2], [3]], [[2], [1]]] = some [some 1, some 0] ∧
    getLargest [[[], [1]]] = some [some 0, some 0] ∧ getLargest [] = none := by decide

/-- ids as `preprocess` assigns them (`str(i)` of the row position) are pairwise distinct -/
example : ((List.range 12).map fun i => toString i).Nodup := by decide

/-- a mixed batch: solved rows in between, one row where nothing is found; every result sits on its own row -/
example :
    ((exRows.filter (!·.solved)).map (·.id)).Nodup ∧
    (Mcs.find 3 exSearch (fun e => e.found.sizes.sum) exRows).map (·.map fun r => (r.id, r.mcs)) =
      some [("0", .data (5, ⟨"0", ⟨[4, 1], (), ""⟩⟩)), ("1", .absent), ("2", .null),
            ("3", .data (7, ⟨"3", ⟨[6, 1], (), ""⟩⟩))] ∧
    (Mcs.find 3 exSearch (fun e => e.found.sizes.sum) exRows).map (·.map (·.issue)) =
      some [some "", none, some Mcs.noMcsIssue, some ""] := by decide

/-- a well-behaved search: three molecules, all found, the record lists them in the order of the overlap -/
example :
    searchEntry (M := Nat) (Pr := Unit) (Pat := Nat) (fun r => some r) (fun r _ => (.found (100 * r), ())) [1, 3, 2] () =
      ⟨[300, 200, 100], [3, 2, 1], ""⟩ := by decide

end SynRBL
