import SynRBLModel.Proofs.Pipeline4
/-!
# C13 — the confidence threshold only demotes low-confidence MCS results
-/
namespace SynRBL
open Str

theorem preConf_mcs_solved (O : Oracle) (cfg : Config) (s : Str) (h : (preConf O cfg s).solvedBy = some .mcs) :
    (preConf O cfg s).solved = true := by
  rw [preConf_eq] at h ⊢
  rw [(revertStage_fields _).2.1]
  rw [(revertStage_fields _).2.2.1] at h
  rw [← pc9_sb, h]; rfl

/-- **C13 (independence).** Everything before the confidence filter, and the confidence value itself, do not depend
on the threshold. -/
theorem C13_threshold_only_in_last_stage (O : Oracle) (cfg : Config) (t : Nat) (s : Str) :
    runRow O { cfg with threshold := t } s = confStage O t (preConf O cfg s) :=
  runRow_threshold O cfg t s

theorem C13_confidence_independent (O : Oracle) (cfg : Config) (t1 t2 : Nat) (s : Str) :
    (runRow O { cfg with threshold := t1 } s).conf = (runRow O { cfg with threshold := t2 } s).conf := by
  rw [runRow_threshold, runRow_threshold]
  unfold confStage
  split
  · split <;> split <;> rfl
  · rfl

/-- **C13 (boundary).** An MCS-based result is reported solved exactly when its confidence is at least the
threshold (`>=`), and a demoted row is flagged unsolved with an issue. -/
theorem C13_solved_iff_ge (O : Oracle) (cfg : Config) (t : Nat) (s : Str)
    (h : (preConf O cfg s).solvedBy = some .mcs) :
    ((runRow O { cfg with threshold := t } s).solved = true ↔ O.conf ≥ t) ∧
    (O.conf < t → (runRow O { cfg with threshold := t } s).issue = some belowThreshold) ∧
    (runRow O { cfg with threshold := t } s).conf = some O.conf := by
  rw [runRow_threshold]
  have hs := preConf_mcs_solved O cfg s h
  unfold confStage
  by_cases hc : O.conf ≥ t
  · rw [if_pos h, if_pos hc]
    refine ⟨⟨fun _ => hc, fun _ => hs⟩, fun hlt => absurd hc (by omega), rfl⟩
  · rw [if_pos h, if_neg hc]
    refine ⟨⟨fun hh => ?_, fun hh => absurd hh hc⟩, fun _ => rfl, rfl⟩
    simp at hh

/-- **C13 (other rows).** Rows solved by the other methods and declined rows are identical for every threshold. -/
theorem C13_other_rows_unchanged (O : Oracle) (cfg : Config) (t1 t2 : Nat) (s : Str)
    (h : (preConf O cfg s).solvedBy ≠ some .mcs) :
    runRow O { cfg with threshold := t1 } s = runRow O { cfg with threshold := t2 } s := by
  rw [runRow_threshold, runRow_threshold]
  unfold confStage; simp [h]

/-- **C13 (monotone).** Raising the threshold never turns an unsolved row into a solved one. -/
theorem C13_monotone (O : Oracle) (cfg : Config) (t1 t2 : Nat) (hle : t1 ≤ t2) (s : Str)
    (h : (runRow O { cfg with threshold := t2 } s).solved = true) :
    (runRow O { cfg with threshold := t1 } s).solved = true := by
  rw [runRow_threshold] at h ⊢
  unfold confStage at h ⊢
  by_cases hm : (preConf O cfg s).solvedBy = some .mcs
  · simp only [hm, if_true] at h ⊢
    by_cases hc : O.conf ≥ t2
    · have : O.conf ≥ t1 := by omega
      simp only [this, if_true]
      simpa [hc] using h
    · simp [hc] at h
  · simpa [hm] using h

end SynRBL
