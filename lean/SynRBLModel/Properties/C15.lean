import SynRBLModel.Proofs.Aam
import SynRBLModel.Properties.C05
import SynRBLModel.Generated.ValenceClasses
/-!
# C15 — atom-map removal keeps every molecule chemically identical

`Aam.remove` models `remove_atom_mapping` (synrbl/SynUtils/chem_utils.py:146-153) as it is today (after the repair
`fix: atom-map removal must not change the molecule`).  A printed SMILES is seen as a list of tokens — bracket atoms
`[body]` and other characters; every string with balanced, un-nested brackets is the print of such a list
(`C15_tokenize_print`, `C15_print_tokenize`), in particular every valid SMILES.

The string half is proved here for *all* well-formed token lists: the function acts token by token, the only tokens it
changes are map classes and bracket atoms of one finite shape, and no map class survives.  The chemical half is finite:
for every body of that shape and every bond environment RDKit's verdicts are generated into
`Generated/ValenceClasses.lean` and `C15_unbracket_safe_classes_partial` checks that wherever the bracketed spelling is a
valid closed-shell atom and the function unbrackets it, the bare spelling is the same atom — except for one family
(`oxoHydride`), where the current code is wrong (`C15_witness_oxo_hydride`).  What is *assumed* (tested by the
harness against RDKit on generated molecules, not proved): RDKit reads a bracket atom without its class as the same atom
with map number 0, and what RDKit makes of a bare organic-subset atom depends only on its symbol, the orders of its bonds
and whether its multiple bonds go to O / N (the clean-up step of sanitization) — the 54 environments of the table.
-/
namespace SynRBL
open Aam

/-! ## the token view covers every string with balanced un-nested brackets -/

theorem C15_tokenize_print (ts : List Tok) (h : wfToks ts = true) : tokenize (print ts) = some ts :=
  (tokGo_print_aux ts h).1

theorem C15_print_tokenize (s : Str) (ts : List Tok) (h : tokenize s = some ts) :
    print ts = s ∧ wfToks ts = true :=
  (tokGo_sound s).1 ts h

/-! ## the string half -/

/-- **First substitution** (`re.sub(r":\d+\]", "]", s)`) acts token-wise: inside a bracket atom it removes exactly a
trailing `:digits`, every other character — in particular an aromatic bond `:` before a ring-closure digit — is copied.
No hypothesis beyond well-formedness of the tokens: the pattern requires the closing bracket. -/
theorem C15_dropMaps_print (ts : List Tok) (h : wfToks ts = true) :
    dropMaps (print ts) = print (ts.map dropMapTok) :=
  dropMapsGo_print ts h

/-- **Second substitution** acts token-wise: a match starts at `[`, ends at the first `]` and never straddles tokens;
a bracket atom is replaced by the captured group iff `matchBody` accepts its body, everything else is copied. -/
theorem C15_unbracket_print (ts : List Tok) (h : wfToks ts = true) :
    unbracket (print ts) = print (ts.flatMap rewriteTok) :=
  unbracketGo_print ts h

/-- `remove_atom_mapping` on tokens -/
theorem C15_remove_print (ts : List Tok) (h : wfToks ts = true) :
    remove (print ts) = print (removeToks ts) := by
  unfold remove removeToks
  rw [C15_dropMaps_print ts h, C15_unbracket_print _ (wfToks_map_dropMapTok ts h)]

/-- what `stripClass` does: a body that ends in `:digits` (a map class) loses exactly that suffix, any other body
is unchanged -/
theorem C15_stripClass_spec (b : Str) :
    (∃ pre ds, b = pre ++ ':' :: ds ∧ ds ≠ [] ∧ ds.all isDig = true ∧ stripClass b = pre) ∨
    (¬ hasClass b ∧ stripClass b = b) := by
  by_cases hc : hasClass b
  · obtain ⟨pre, ds, e, h1, h2⟩ := hc
    exact Or.inl ⟨pre, ds, e, h1, h2, by rw [e, stripClass_class pre ds h1 h2]⟩
  · exact Or.inr ⟨hc, stripClass_noClass b hc⟩

/-- which bodies are unbracketed — exactly the finite shape `X`, `XH`, `XHd` with `X` one or two organic symbols,
except `PHn`, `SHn`, `IHn` with `n = 2..9`; the replacement is `X` -/
theorem C15_matchBody_iff (b a : Str) :
    matchBody b = some a ↔
      a ∈ organic12 ∧ ∃ hs ∈ hSpellings, b = a ++ hs ∧ hyperHydride a hs = false := by
  constructor
  · exact matchBody_shape
  · rintro ⟨ha, hs, hh, rfl, hy⟩
    have := matchBody_table
    simp only [List.all_eq_true, beq_iff_eq] at this
    rw [this a ha hs hh, hy]
    rfl

/-- **Shape of every rewrite.**  For each token `t` of the input, what the function puts in its place is
* `t` itself, byte for byte, or
* the same bracket atom without its map class `:digits` (and nothing else changed), or
* the bare atom text `X`, where the body (after dropping a map class) is `X`, `XH` or `XHd` with `X` one or two symbols
  of `B C N O P S F Cl Br I` and is none of `PHn`, `SHn`, `IHn` (n = 2..9). -/
theorem C15_rewrite_shape (t : Tok) :
    rewriteTok (dropMapTok t) = [t] ∨
    (∃ pre ds, t = .bracket (pre ++ ':' :: ds) ∧ ds ≠ [] ∧ ds.all isDig = true ∧
        matchBody pre = none ∧ rewriteTok (dropMapTok t) = [.bracket pre]) ∨
    (∃ b x hs, t = .bracket b ∧ stripClass b = x ++ hs ∧ x ∈ organic12 ∧ hs ∈ hSpellings ∧
        hyperHydride x hs = false ∧ rewriteTok (dropMapTok t) = x.map Tok.plain) := by
  cases t with
  | plain c => exact Or.inl rfl
  | bracket b =>
    simp only [dropMapTok, rewriteTok]
    cases hm : matchBody (stripClass b) with
    | some a =>
      obtain ⟨ha, hs, hh, e, hy⟩ := matchBody_shape hm
      exact Or.inr (Or.inr ⟨b, a, hs, rfl, e, ha, hh, hy, rfl⟩)
    | none =>
      rcases C15_stripClass_spec b with ⟨pre, ds, e, h1, h2, h3⟩ | ⟨_, h⟩
      · subst e
        rw [h3] at hm
        exact Or.inr (Or.inl ⟨pre, ds, rfl, h1, h2, hm, by rw [h3]⟩)
      · exact Or.inl (by rw [h])

/-- **No map number survives.**  If every bracket atom of the input has at most one colon (in a SMILES bracket atom
the colon occurs only as the class separator), no bracket atom of the output ends in `:digits`.
(Without the hypothesis the statement is false of the code: `[C:1:2]` ↦ `[C:1]`, see `C15_witness_double_class`.) -/
theorem C15_no_map_survives (ts : List Tok) (hc : ∀ t ∈ ts, t.colonOnce = true) :
    ∀ b, Tok.bracket b ∈ removeToks ts → ¬ hasClass b := by
  intro b hb
  simp only [removeToks, List.mem_flatMap, List.mem_map] at hb
  obtain ⟨t', ⟨t, ht, rfl⟩, hb⟩ := hb
  cases t with
  | plain c => simp [dropMapTok, rewriteTok] at hb
  | bracket b0 =>
    simp only [dropMapTok, rewriteTok] at hb
    split at hb
    · simp at hb
    · simp only [List.mem_singleton, Tok.bracket.injEq] at hb
      subst hb
      exact not_hasClass_stripClass b0 (hc _ ht)

/-- the string form: the first pattern `:\d+\]` matches nowhere in the output, i.e. a second pass finds nothing -/
theorem C15_no_map_survives_string (ts : List Tok) (h : wfToks ts = true) (hc : ∀ t ∈ ts, t.colonOnce = true) :
    dropMaps (remove (print ts)) = remove (print ts) := by
  have hwf := wfToks_removeToks ts h
  rw [C15_remove_print ts h, C15_dropMaps_print _ hwf]
  congr 1
  have : ∀ t ∈ removeToks ts, dropMapTok t = t := by
    intro t ht
    cases t with
    | plain c => rfl
    | bracket b =>
      have := C15_no_map_survives ts hc b ht
      simp [dropMapTok, stripClass_noClass b this]
  exact (List.map_congr_left this).trans (List.map_id _)

/-- **Idempotence** on well-formed input. -/
theorem C15_idempotent (ts : List Tok) (h : wfToks ts = true) (hc : ∀ t ∈ ts, t.colonOnce = true) :
    remove (remove (print ts)) = remove (print ts) := by
  have h1 : dropMaps (remove (print ts)) = remove (print ts) := C15_no_map_survives_string ts h hc
  show unbracket (dropMaps (remove (print ts))) = _
  rw [h1, C15_remove_print ts h]
  -- every remaining bracket atom was already rejected by `matchBody`
  have hwf := wfToks_removeToks ts h
  rw [C15_unbracket_print _ hwf]
  congr 1
  have fix : ∀ t ∈ removeToks ts, rewriteTok t = [t] := by
    intro t ht
    cases t with
    | plain c => rfl
    | bracket b =>
      simp only [removeToks, List.mem_flatMap, List.mem_map] at ht
      obtain ⟨t', ⟨t0, _, rfl⟩, hb⟩ := ht
      cases t0 with
      | plain c => simp [dropMapTok, rewriteTok] at hb
      | bracket b0 =>
        simp only [dropMapTok, rewriteTok] at hb
        split at hb
        · simp at hb
        · rename_i hm
          simp only [List.mem_singleton, Tok.bracket.injEq] at hb
          subst hb
          simp [rewriteTok, hm]
  generalize removeToks ts = l at fix
  induction l with
  | nil => rfl
  | cons x xs ih =>
    simp only [List.flatMap_cons, fix x (List.mem_cons_self ..), List.singleton_append]
    rw [ih (fun t ht => fix t (List.mem_cons_of_mem _ ht))]

/-- the colon hypothesis of `C15_no_map_survives` cannot be dropped: one pass removes one class -/
theorem C15_witness_double_class :
    remove (str "[C:1:2]") = str "[C:1]" ∧ remove (remove (str "[C:1:2]")) ≠ remove (str "[C:1:2]") := by
  decide +kernel

/-! ## table obligations (regenerated from the source and from RDKit on every run) -/

def bracketStr (b : Str) : Str := '[' :: (b ++ [']'])

/-- the model agrees with the real `remove_atom_mapping` on `[body]` for every body of the finite shape
(1 320 bodies) and the near-miss probes -/
theorem C15_model_agrees_on_bodies :
    (Generated.codeBodies.all fun p => remove (bracketStr p.1) == p.2.getD (bracketStr p.1)) = true := by
  decide +kernel

/-- the generated table has one row for every one-symbol body of the shape, in order, each with a verdict for every
one of the 54 bond environments of order 0..7 -/
theorem C15_classes_cover :
    (Generated.valenceRows.map fun r => (r.1, r.2.1)) = (organic1.flatMap fun x => hSpellings.map fun hs => (x, hs)) ∧
    (Generated.valenceRows.all fun r => r.2.2.length == allEnvs.length) = true := by
  decide +kernel

/-- no two-symbol body of the shape (`[CN]`, `[ClBr]`, `[CCH2]`, …) is a bracket atom RDKit accepts: inputs
containing one are not valid SMILES and outside the property's domain -/
theorem C15_two_symbol_bodies_invalid : Generated.twoSymbolParseable = [] := by decide

/-- is the bracket atom rewritten by the function (map removal followed by unbracketing)? -/
def rewritten (b : Str) : Bool := removeToks [.bracket b] != [.bracket b]

/-- a hydride of N, Cl, Br or I (`[NH]`, `[NH2]`, `[ClH]`, … — at least one hydrogen) with a double bond to O or a triple
bond to N in its environment: pentavalent-nitrogen / hypervalent-halogen "oxo" notation.  RDKit's clean-up step turns
the bracketed spelling into a charge-separated form (`C[NH](C)=O` ↦ `C[NH+](C)[O-]`) but cannot do so for the bare
spelling, whose hydrogens are not known yet (`CN(C)=O` is rejected). -/
def oxoHydride (c : ValenceClass) : Bool :=
  [['N'], ['C', 'l'], ['B', 'r'], ['I']].contains c.sym && c.hspell != [] && c.hspell != ['H', '0'] &&
    !c.env.carbon && decide (1 ≤ c.env.double + c.env.triple)

/- **The chemical half — full strength (FALSE of the current code, see `C15_witness_oxo_hydride`):**

    ∀ c ∈ Generated.valenceClasses, c.valid → c.closedShell → rewritten c.body → c.same

In every class where the bracketed spelling is a valid closed-shell atom and the function unbrackets it, RDKit reads the
bare spelling as the same atom with the same hydrogens. -/

/-- **The chemical half (partial).**  The statement above holds for every class that is not an `oxoHydride`. -/
theorem C15_unbracket_safe_classes_partial :
    ∀ c ∈ Generated.valenceClasses, c.valid = true → c.closedShell = true → rewritten c.body = true →
      oxoHydride c = false → c.same = true := by
  have : (Generated.valenceClasses.all fun c =>
      !(c.valid && c.closedShell && rewritten c.body && !oxoHydride c) || c.same) = true := by
    decide +kernel
  intro c hc h1 h2 h3 h4
  have := List.all_eq_true.1 this c hc
  simpa [h1, h2, h3, h4] using this

/-- every unsafe class is one where RDKit's sanitization moved formal charges onto the bracketed spelling -/
theorem C15_unsafe_classes_are_normalized :
    ∀ c ∈ Generated.valenceClasses, c.valid = true → c.closedShell = true → rewritten c.body = true →
      c.same = false → c.normalized = true ∧ oxoHydride c = true := by
  have : (Generated.valenceClasses.all fun c =>
      !(c.valid && c.closedShell && rewritten c.body && !c.same) || (c.normalized && oxoHydride c)) = true := by
    decide +kernel
  intro c hc h1 h2 h3 h4
  have := List.all_eq_true.1 this c hc
  simpa [h1, h2, h3, h4] using this

/-- **Witness: the full-strength statement is false of the current code.**  `[NH](F)(F)=O` is a valid closed-shell
molecule for RDKit (`[O-][NH+](F)F`), the function rewrites it to `N(F)(F)=O`, which RDKit rejects.  Replayed on the real
function: `remove_atom_mapping("C[NH](C)=O") == "CN(C)=O"` (unparsable; the input is dimethylamine N-oxide),
`remove_atom_mapping("[NH3]=O") == "N=O"` (a different molecule). -/
theorem C15_witness_oxo_hydride :
    ¬ ∀ c ∈ Generated.valenceClasses, c.valid = true → c.closedShell = true → rewritten c.body = true →
      c.same = true := by
  intro h
  have hall : (Generated.valenceClasses.all fun c =>
      !(c.valid && c.closedShell && rewritten c.body) || c.same) = true := by
    rw [List.all_eq_true]
    intro c hc
    cases h1 : c.valid <;> cases h2 : c.closedShell <;> cases h3 : rewritten c.body <;> simp_all
  have : (Generated.valenceClasses.all fun c =>
      !(c.valid && c.closedShell && rewritten c.body) || c.same) = false := by decide +kernel
  rw [this] at hall
  cases hall

/-- the bracket atoms the function deliberately keeps — `[PHn]`, `[SHn]`, `[IHn]`, n ≥ 2 — are exactly the valid
closed-shell classes of the table it does not rewrite; most of them would change if unbracketed (regression guard for
the old behaviour `C[SH2]C ↦ CSC`, `[PH5] ↦ P`) -/
theorem C15_kept_classes_are_hypervalent_hydrides :
    ∀ c ∈ Generated.valenceClasses, c.valid = true → c.closedShell = true → rewritten c.body = false →
      hyperHydride c.sym c.hspell = true := by
  have : (Generated.valenceClasses.all fun c =>
      !(c.valid && c.closedShell && !rewritten c.body) || hyperHydride c.sym c.hspell) = true := by
    decide +kernel
  intro c hc h1 h2 h3
  have := List.all_eq_true.1 this c hc
  simpa [h1, h2, h3] using this

/-- … and unbracketing them would be wrong: at least one kept class differs from its bare spelling for each of P, S, I -/
theorem C15_kept_classes_needed :
    ([['P'], ['S'], ['I']].all fun x => Generated.valenceClasses.any fun c =>
      c.sym == x && c.valid && c.closedShell && c.bareValid && !c.same && !rewritten c.body) = true := by
  decide +kernel

/-! ## regression cases and non-vacuity -/

example : remove (str "C[SH2]C") = str "C[SH2]C" := by decide +kernel
example : remove (str "[PH5]") = str "[PH5]" := by decide +kernel
example : remove (str "c1:c:c:c:c:c:1") = str "c1:c:c:c:c:c:1" := by decide +kernel
example : remove (str "[CH3:1][C@H:2]([Cl:3])[NH2:4].[Na+:5].[13CH4:6]>>[cH:7]1:[n:8]:[SH:9]1")
    = str "C[C@H](Cl)N.[Na+].[13CH4]>>[cH]1:[n]:S1" := by decide +kernel
example : wfToks [.plain 'C', .bracket (str "SH2:7"), .plain 'c', .plain ':', .plain '1'] = true := by decide
/-- the hypotheses of `C15_unbracket_safe_classes_partial` are met by many classes (258 with RDKit 2026.03) -/
example : 100 ≤ (Generated.valenceClasses.filter fun c =>
    c.valid && c.closedShell && rewritten c.body && !oxoHydride c).length := by
  decide +kernel

/-- **C15 (pipeline).** The `input_reaction` reported for a valid row is the raw input with its atom maps removed, and no
map class survives in it: removing map classes once more changes nothing. (For every parser, oracle, configuration and
batch size; the raw input is any well-formed token string whose bracket bodies contain at most one colon.) -/
theorem C15_reported_input_has_no_map (parse : Str → Bool) (oracleOf : Str → Oracle) (cfg : Config) (ts : List Tok)
    (h : wfToks ts = true) (hc : ∀ t ∈ ts, t.colonOnce = true)
    (hv : validReaction parse (Aam.remove (print ts)) = true) :
    (runIn cfg (classify parse oracleOf (print ts))).input = Aam.remove (print ts) ∧
    dropMaps (runIn cfg (classify parse oracleOf (print ts))).input =
      (runIn cfg (classify parse oracleOf (print ts))).input := by
  have e : (runIn cfg (classify parse oracleOf (print ts))).input = Aam.remove (print ts) := by
    unfold classify
    simp only [hv, if_true, runIn]
    exact C05_row_describes_its_input _ cfg _
  exact ⟨e, by rw [e]; exact C15_no_map_survives_string ts h hc⟩

end SynRBL
