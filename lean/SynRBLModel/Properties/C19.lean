import SynRBLModel.Proofs.RuleDB2
import SynRBLModel.Properties.C07
import SynRBLModel.Generated.RulesManager
import SynRBLModel.Generated.AutomatedRules
/-!
# C19 — the rule database stays consistent under any sequence of edits

The state machine is `Model/RuleDB2.lean` (`RDB.step`, `RDB.run`: `RuleImputeManager.add_entry / add_entries /
remove_entry`), the invariant `RDB.Inv` and the helper lemmas are in `Proofs/RuleDB2.lean`.  RDKit is the oracle
`O : RDB.Oracle` (`valid`, `atoms`, `canon`); the decomposer's symbol table `T` is a parameter (the theorems hold for every
table; the table obligations use the one in `/repo` now).

`Inv T O s` says: every record's SMILES is valid, its composition is a proper dictionary equal *as a Python dict* (same
keys — among them the explicit `Q` — and same values) to `decompose(smiles)` with `Q: 0` forced, no two records share a
formula string, no two records share a SMILES string.  `C19_inv_composition_true` turns "equal to the derived
composition" into "equal to the true composition" with C07's theorems (oracle law: RDKit names the atoms of a valid SMILES
by the periodic table, which excludes the dummy atom `*`, see `C19_witness_dummy_atom_counted_as_charge`).
-/
namespace SynRBL
open Dict RDB

/-- **C19 (one step).** Every operation preserves the invariant. -/
theorem C19_step_preserves_inv (T : SymTable) (O : Oracle) (s : State) (op : Op) (h : RDB.Inv T O s) :
    RDB.Inv T O (step T O s op).1 := by
  cases op with
  | add f smi => exact addEntry_inv T O s f smi h
  | addEntries es => exact addEntries_inv T O es s h
  | remove f => exact removeEntry_inv T O s f h

/-- **C19 (histories).** From any consistent database, after any sequence of `add_entry`, `add_entries` and `remove_entry`
calls — whatever each of them reported — the database is consistent. -/
theorem C19_inv_reachable (T : SymTable) (O : Oracle) (s : State) (h : RDB.Inv T O s) (ops : List Op) :
    RDB.Inv T O (run T O s ops).1 := by
  induction ops generalizing s with
  | nil => exact h
  | cons op ops ih => rw [run_cons]; exact ih _ (C19_step_preserves_inv T O s op h)

/-- … in particular from the empty database of `RuleImputeManager()`. -/
theorem C19_inv_reachable_from_empty (T : SymTable) (O : Oracle) (ops : List Op) : RDB.Inv T O (run T O [] ops).1 :=
  C19_inv_reachable T O [] (inv_nil T O) ops

/-- **C19 (frame).** From *any* database, even an inconsistent one: the new database is `kept ++ new` where `kept` is the
old database with records only ever dropped (a sublist: none altered, none reordered; nothing dropped unless the operation
is a removal, nothing added by a removal); every record of `new` has a valid SMILES and exactly the derived composition;
and a new record shares its formula and its SMILES with no kept record and with no other new record. -/
theorem C19_step_frame (T : SymTable) (O : Oracle) (s : State) (op : Op) :
    ∃ kept new, (step T O s op).1 = kept ++ new ∧ kept.Sublist s ∧
      ((∀ f, op ≠ .remove f) → kept = s) ∧ ((∃ f, op = .remove f) → new = []) ∧
      (∀ e ∈ new, O.valid e.smiles = true ∧ e.comp = derive T O e.smiles) ∧
      (∀ e ∈ new, ∀ d ∈ kept, e.formula ≠ d.formula ∧ e.smiles ≠ d.smiles) ∧
      new.Pairwise (fun a b => a.formula ≠ b.formula ∧ a.smiles ≠ b.smiles) := by
  cases op with
  | add f smi =>
    rcases addEntry_frame T O s f smi with h | ⟨e, h, _, _, _, hd, hf⟩
    · exact ⟨s, [], by simp [step, h.1], List.Sublist.refl _, fun _ => rfl, fun _ => rfl, by simp, by simp, by simp⟩
    · refine ⟨s, [e], by simp [step, h], List.Sublist.refl _, fun _ => rfl, ?_, ?_, ?_, by simp⟩
      · rintro ⟨f', hf'⟩; cases hf'
      · intro x hx
        have : x = e := by simpa using hx
        subst this; exact hd
      · intro x hx
        have : x = e := by simpa using hx
        subst this; exact hf
  | addEntries es =>
    obtain ⟨new, hs, hder, hfr⟩ := addEntries_frame T O es s
    refine ⟨s, new, by simp [step, hs], List.Sublist.refl _, fun _ => rfl, ?_, hder, hfr.1, hfr.2⟩
    rintro ⟨f', hf'⟩; cases hf'
  | remove f =>
    refine ⟨(removeEntry s f).1, [], by simp [step], ?_, ?_, fun _ => rfl, by simp, by simp, by simp⟩
    · rw [removeEntry_eq]; exact List.eraseP_sublist ..
    · intro h; exact absurd rfl (h f)

/-- the derived composition always carries the explicit charge key, has unique keys, and has the decomposer's value at
every key (the forced `Q` is `0` exactly when the decomposer recorded no charge) -/
theorem C19_derived_has_explicit_charge (T : SymTable) (O : Oracle) (smi : String) :
    (derive T O smi).contains "Q" = true ∧ (derive T O smi).WF ∧
      ∀ k, (derive T O smi).val k = (decompose T (O.atoms smi)).val k :=
  ⟨deriveAtoms_hasQ _ _, deriveAtoms_wf _ _, deriveAtoms_val _ _⟩

/-- **C19 (rejections).** `add_entry` reports a duplicate formula exactly when some record has that formula, a duplicate
SMILES exactly when no record has the formula but some record has the SMILES, an invalid SMILES exactly when neither is the
case and RDKit does not parse it; whenever it reports anything but success the database is unchanged; on success exactly
the derived record is appended. -/
theorem C19_reject_no_change (T : SymTable) (O : Oracle) (s : State) (f smi : String) :
    ((step T O s (.add f smi)).2 = .add .dupFormula ↔ ∃ d ∈ s, d.formula = f) ∧
    ((step T O s (.add f smi)).2 = .add .dupSmiles ↔ (∀ d ∈ s, d.formula ≠ f) ∧ ∃ d ∈ s, d.smiles = smi) ∧
    ((step T O s (.add f smi)).2 = .add .invalid ↔
      (∀ d ∈ s, d.formula ≠ f) ∧ (∀ d ∈ s, d.smiles ≠ smi) ∧ O.valid smi = false) ∧
    ((step T O s (.add f smi)).2 ≠ .add .added → (step T O s (.add f smi)).1 = s) ∧
    ((step T O s (.add f smi)).2 = .add .added →
      (step T O s (.add f smi)).1 = s ++ [⟨f, smi, derive T O smi⟩]) := by
  have hF : ∀ b, s.any (fun d => d.formula == f) = b → (b = true ↔ ∃ d ∈ s, d.formula = f) := by
    intro b hb; rw [← hb, List.any_eq_true]; simp
  have hS : ∀ b, s.any (fun d => d.smiles == smi) = b → (b = true ↔ ∃ d ∈ s, d.smiles = smi) := by
    intro b hb; rw [← hb, List.any_eq_true]; simp
  simp only [step]
  rcases addEntry_spec T O s f smi with h | h | h | h
  · have := (hF _ h.1).1 rfl
    rw [h.2]
    simp only [Outcome.add.injEq, reduceCtorEq, false_iff, not_and, true_iff, ne_eq, not_false_eq_true,
      forall_const, false_imp_iff, and_true]
    refine ⟨this, ?_, ?_⟩
    · intro hn; obtain ⟨d, hd, e⟩ := this; exact absurd e (hn d hd)
    · intro hn; obtain ⟨d, hd, e⟩ := this; exact absurd e (hn d hd)
  · have h1 := any_formula_false h.1
    have h2 := (hS _ h.2.1).1 rfl
    rw [h.2.2]
    simp only [Outcome.add.injEq, reduceCtorEq, false_iff, not_and, true_iff, ne_eq, not_false_eq_true,
      forall_const, false_imp_iff, and_true, not_exists]
    refine ⟨fun d hd => h1 d hd, ⟨h1, h2⟩, ?_⟩
    intro _ hn; obtain ⟨d, hd, e⟩ := h2; exact absurd e (hn d hd)
  · have h1 := any_formula_false h.1
    have h2 := any_smiles_false h.2.1
    rw [h.2.2.2]
    simp only [Outcome.add.injEq, reduceCtorEq, false_iff, not_and, true_iff, ne_eq, not_false_eq_true,
      forall_const, false_imp_iff, and_true, not_exists]
    refine ⟨fun d hd => h1 d hd, ?_, h1, h2, h.2.2.1⟩
    intro _ d hd; exact h2 d hd
  · have h1 := any_formula_false h.1
    have h2 := any_smiles_false h.2.1
    rw [h.2.2.2]
    simp only [Outcome.add.injEq, reduceCtorEq, false_iff, not_and, ne_eq, not_true_eq_false, false_imp_iff,
      forall_const, and_true, not_exists]
    refine ⟨fun d hd => h1 d hd, ?_, ?_⟩
    · intro _ d hd; exact h2 d hd
    · intro _ _; simp [h.2.2.1]

/-- **C19 (bulk add).** `add_entries` is the sequence of the single `add_entry` calls in input order, and the list it
returns consists of exactly the items whose call did not succeed, in input order. -/
theorem C19_bulk_is_sequence_of_adds (T : SymTable) (O : Oracle) (s : State) (es : List (String × String)) :
    (step T O s (.addEntries es)).1 = (run T O s (es.map fun e => Op.add e.1 e.2)).1 ∧
    ∃ rs, rs.length = es.length ∧
      (run T O s (es.map fun e => Op.add e.1 e.2)).2 = rs.map Outcome.add ∧
      (step T O s (.addEntries es)).2 = .bulk rs (((es.zip rs).filter fun p => p.2 ≠ .added).map (·.1)) := by
  have h := addEntries_eq_run T O es s
  exact ⟨h.1.symm, (addEntries T O s es).2, addEntries_length T O es s, h.2, by
    simp only [step]; rw [rejectedOf_eq_filter]⟩

/-- **C19 (removal).** `remove_entry(f)` with no record of formula `f` changes nothing and says so; otherwise exactly one
record goes — the first one whose formula is `f` — and every other record stays, unaltered and in place. -/
theorem C19_remove_only_named (T : SymTable) (O : Oracle) (s : State) (f : String) :
    ((∀ d ∈ s, d.formula ≠ f) → step T O s (.remove f) = (s, .remove false)) ∧
    ((∃ d ∈ s, d.formula = f) → ∃ pre e post, s = pre ++ e :: post ∧ e.formula = f ∧ (∀ d ∈ pre, d.formula ≠ f) ∧
      step T O s (.remove f) = (pre ++ post, .remove true)) := by
  simp only [step, removeEntry_eq]
  constructor
  · intro h
    have : s.any (fun d => d.formula == f) = false := by
      rw [List.any_eq_false]; intro d hd; simpa using h d hd
    rw [eraseP_of_none s f this, this]
  · rintro ⟨d, hd, e⟩
    have : s.any (fun d => d.formula == f) = true := by
      rw [List.any_eq_true]; exact ⟨d, hd, by simp [e]⟩
    obtain ⟨pre, x, post, hs, hx, hpre, her⟩ := eraseP_formula_split s f this
    exact ⟨pre, x, post, hs, hx, hpre, by rw [her, this]⟩

/-- in a consistent database the named formula is gone after the removal (formulas are unique) -/
theorem C19_remove_named_is_gone (T : SymTable) (O : Oracle) (s : State) (f : String) (h : RDB.Inv T O s) :
    ∀ d ∈ (step T O s (.remove f)).1, d.formula ≠ f := by
  intro d hd
  by_cases hex : ∃ d ∈ s, d.formula = f
  · obtain ⟨pre, e, post, hs, he, hpre, hst⟩ := (C19_remove_only_named T O s f).2 hex
    rw [hst] at hd
    have hn := h.formulas
    rw [hs, List.map_append, List.map_cons, List.nodup_append] at hn
    rcases List.mem_append.1 hd with hd | hd
    · exact hpre d hd
    · have hnd := (List.nodup_cons.1 hn.2.1).1
      intro e'
      exact hnd (by rw [he, ← e']; exact List.mem_map.2 ⟨d, hd, rfl⟩)
  · have hall : ∀ d ∈ s, d.formula ≠ f := fun d hd e => hex ⟨d, hd, e⟩
    rw [(C19_remove_only_named T O s f).1 hall] at hd
    exact hall d hd

/-- **C19 (truth of the recorded composition).** Under C07's conditions on the symbol table, and the oracle law that RDKit
names every atom of a valid SMILES by the periodic table, every record of a consistent database carries the explicit key
`Q` holding the net formal charge of its SMILES and, under each element's symbol, the number of atoms of that element. -/
theorem C19_inv_composition_true (T : SymTable) (pt : List (Nat × String)) (hT : tableOK T pt = true)
    (O : Oracle) (hN : ∀ smi, O.valid smi = true → ∀ a ∈ O.atoms smi, Named pt a)
    (s : State) (h : RDB.Inv T O s) : ∀ e ∈ s,
      e.comp.contains "Q" = true ∧ e.comp.val "Q" = totalCharge (O.atoms e.smiles) ∧
      ∀ z sym, pt.lookup z = some sym →
        e.comp.val sym = (((O.atoms e.smiles).filter fun a => a.z == z).length : Int) := by
  intro e he
  have ok := h.entries e he
  have hn := hN e.smiles ok.valid
  refine ⟨?_, ?_, ?_⟩
  · rw [contains_of_get?_eq _ _ _ (ok.same "Q")]; exact deriveAtoms_hasQ _ _
  · rw [val_of_get?_eq _ _ _ (ok.same "Q")]
    exact (deriveAtoms_val _ _ _).trans (C07_decompose_charge T pt hT _ hn)
  · intro z sym hz
    rw [val_of_get?_eq _ _ _ (ok.same sym)]
    exact (deriveAtoms_val _ _ _).trans (C07_decompose_counts_every_element T pt hT _ hn z sym hz)

/-! ### table obligations (re-elaborated against the current JSON files on every run) -/

/-- a table that passes `invData` is a consistent database (for the oracle answering from the table's RDKit columns),
so `C19_inv_reachable` applies to every history that starts from it -/
theorem C19_invData_sound (T : SymTable) (recs : List DBRecord) (h : invData T recs = true) :
    RDB.Inv T (oracleOf recs) (recs.map entryOf) := invData_sound T recs h

/-- every record of either shipped database, taken alone, is consistent: parses, unique keys, explicit `Q`,
recorded composition == derived composition -/
theorem C19_shipped_records_ok :
    Generated.rulesManagerRecords.all (recOK shippedTable) = true ∧
    Generated.automatedRulesRecords.all (recOK shippedTable) = true := by decide +kernel

/-- `Data/Rules/automated_rules.json.gz` is a consistent database -/
theorem C19_automatedRules_inv : invData shippedTable Generated.automatedRulesRecords = true := by decide +kernel

/-- `rules_manager.json.gz` is a consistent database (since the data fix that removed the duplicate `Cl2/ClCl` and
`NH3/N` records): every SMILES parses, recorded = derived composition with explicit `Q`, formulas and SMILES pairwise
distinct. Any duplicate, unparsable SMILES, missing `Q` or wrong composition introduced into the file breaks this. -/
theorem C19_rulesManager_inv : invData shippedTable Generated.rulesManagerRecords = true := by decide +kernel

theorem C19_rulesManager_no_duplicates :
    dups (Generated.rulesManagerRecords.map (·.formula)) = [] ∧
    dups (Generated.rulesManagerRecords.map (·.rule.smiles)) = [] := by decide +kernel

/-- replaying the shipped file through an empty manager (`add_entries` of all its records, RDKit answering as recorded in
the table) keeps every record, in file order, and rejects nothing -/
theorem C19_rulesManager_replay :
    (step shippedTable (oracleOf Generated.rulesManagerRecords) []
        (.addEntries (Generated.rulesManagerRecords.map fun r => (r.formula, r.rule.smiles)))).1.map
        (fun e => (e.formula, e.smiles))
      = Generated.rulesManagerRecords.map (fun r => (r.formula, r.rule.smiles)) ∧
    (step shippedTable (oracleOf Generated.rulesManagerRecords) []
        (.addEntries (Generated.rulesManagerRecords.map fun r => (r.formula, r.rule.smiles)))).2.rejected
      = [] := by decide +kernel

/-! ### what does *not* hold, with witnesses -/

/-- a small oracle: ethanol in two spellings, water, ammonium, one unparsable string, a methyl radical with a dummy atom -/
def exO : Oracle where
  valid s := s != "xx"
  atoms s :=
    if s = "CCO" then [⟨6, "C", 0⟩, ⟨6, "C", 0⟩, ⟨8, "O", 0⟩] ++ List.replicate 6 ⟨1, "H", 0⟩
    else if s = "OCC" then [⟨8, "O", 0⟩, ⟨6, "C", 0⟩, ⟨6, "C", 0⟩] ++ List.replicate 6 ⟨1, "H", 0⟩
    else if s = "O" then [⟨8, "O", 0⟩, ⟨1, "H", 0⟩, ⟨1, "H", 0⟩]
    else if s = "[NH4+]" then [⟨7, "N", 1⟩] ++ List.replicate 4 ⟨1, "H", 0⟩
    else if s = "*C" then [⟨0, "*", 0⟩, ⟨6, "C", 0⟩] ++ List.replicate 3 ⟨1, "H", 0⟩
    else []
  canon s := if s = "OCC" then "CCO" else s

/-- The duplicate-SMILES check is a *string* comparison (`canonicalize_smiles` is never called): the same molecule can be
entered twice under two spellings.  "No two records denote the same molecule" is therefore not an invariant. -/
theorem C19_witness_same_molecule_two_spellings :
    ¬ ∀ (O : Oracle) (ops : List Op),
        ((run shippedTable O [] ops).1.map fun e => O.canon e.smiles).Nodup := by
  intro h
  have := h exO [.add "C2H6O" "CCO", .add "ethanol" "OCC"]
  revert this
  decide +kernel

/-- The hypothesis `Named` of `C19_inv_composition_true` is needed: for a SMILES with a dummy atom (`Z = 0`, which the
decomposer's table calls `Q`) the recorded "charge" counts the dummy atoms. -/
theorem C19_witness_dummy_atom_counted_as_charge :
    (run shippedTable exO [] [.add "CH3*" "*C"]).1 = [⟨"CH3*", "*C", [("Q", 1), ("C", 1), ("H", 3)]⟩] ∧
    totalCharge (exO.atoms "*C") = 0 := by decide +kernel

/-! ### non-vacuity -/

/-- a history that exercises every branch: success, duplicate formula, duplicate SMILES, invalid SMILES, bulk add with
rejections, removal of a present and of an absent formula -/
example :
    run shippedTable exO []
      [.add "H2O" "O", .add "H2O" "CCO", .add "water" "O", .add "bad" "xx",
       .addEntries [("C2H6O", "CCO"), ("H2O", "OCC"), ("NH4+", "[NH4+]"), ("bad", "xx")],
       .remove "H2O", .remove "nope"]
    = ([⟨"C2H6O", "CCO", [("C", 2), ("O", 1), ("H", 6), ("Q", 0)]⟩, ⟨"NH4+", "[NH4+]", [("N", 1), ("H", 4), ("Q", 1)]⟩],
       [.add .added, .add .dupFormula, .add .dupSmiles, .add .invalid,
        .bulk [.added, .dupFormula, .added, .invalid] [("H2O", "OCC"), ("bad", "xx")],
        .remove true, .remove false]) := by decide +kernel

/-- the oracle law of `C19_inv_composition_true` is satisfiable on the non-dummy compounds -/
example : ∀ smi ∈ ["CCO", "OCC", "O", "[NH4+]", "xx"], ∀ a ∈ exO.atoms smi, Named Generated.periodicTable a := by
  decide +kernel

/-- the shipped automated-rules database is a consistent start state, hence stays consistent under every history -/
example (ops : List Op) :
    RDB.Inv shippedTable (oracleOf Generated.automatedRulesRecords)
      (run shippedTable (oracleOf Generated.automatedRulesRecords)
        (Generated.automatedRulesRecords.map entryOf) ops).1 :=
  C19_inv_reachable _ _ _ (C19_invData_sound _ _ C19_automatedRules_inv) ops

/-- … and so is the shipped `rules_manager` database -/
example (ops : List Op) :
    RDB.Inv shippedTable (oracleOf Generated.rulesManagerRecords)
      (run shippedTable (oracleOf Generated.rulesManagerRecords)
        (Generated.rulesManagerRecords.map entryOf) ops).1 :=
  C19_inv_reachable _ _ _ (C19_invData_sound _ _ C19_rulesManager_inv) ops

end SynRBL
