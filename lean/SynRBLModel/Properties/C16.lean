import SynRBLModel.Proofs.FGMatch
import SynRBLModel.Proofs.FGSound
import SynRBLModel.Generated.FGConfig
/-!
# C16 — functional-group recognition depends only on the molecular graph

Model: `Model/FGMatch.lean` (`fitsM`, `patternMatchM`, `checkFunctionalGroupM`, `isFunctionalGroupM` follow
`synrbl/SynUtils/functional_group_utils.py:131-260` statement by statement). Table: `Generated/FGConfig.lean`.
-/
namespace SynRBL
open FG

/-- **C16 (invariance).** For every table of group definitions (hence for the shipped one, all of its groups, patterns,
group-atom graphs and anti-patterns), every molecule graph `g`, every injective renumbering `π` of its atoms and
**every** reordering of every neighbour list (`Renum`: this is what RDKit's `RenumberAtoms` does to `GetNeighbors()`),
`is_functional_group(mol', name, π a)` returns what `is_functional_group(mol, name, a)` returns — including the case
that the name is unknown (`none` = `NotImplementedError`). -/
theorem C16_renumber_invariant (π : Nat → Nat) (g g' : LG) (h : Renum π g g') (tbl : FGTable) (name : String)
    (a : Nat) : isFunctionalGroupM tbl g' name (π a) = isFunctionalGroupM tbl g name a := by
  rw [isFunctionalGroupM_eq, isFunctionalGroupM_eq]
  exact isFG_renumber π g g' h tbl name a

/-- the invariance theorem on exported graphs: `renumB perm g g'` is the executable form of `Renum` that the driver
evaluates on every `Chem.RenumberAtoms` instance of the correspondence run (`perm[i]` = new index of old atom `i`) -/
theorem C16_renumber_invariant_data (perm : List Nat) (g g' : GData) (h : renumB perm g g' = true) (tbl : FGTable)
    (name : String) (a : Nat) :
    isFunctionalGroupM tbl g'.toLG name (perm.getD a a) = isFunctionalGroupM tbl g.toLG name a :=
  C16_renumber_invariant (fun x => perm.getD x x) g.toLG g'.toLG (renum_of_renumB perm g g' h) tbl name a

/-- the same for `pattern_match(mol, anchor, pattern)[0]` with an arbitrary pattern graph, and for the variant with a
fixed `pattern_anchor` -/
theorem C16_pattern_match_renumber_invariant (π : Nat → Nat) (g g' : LG) (h : Renum π g g') (p : GData) (a : Nat)
    (panchor : Option Nat) : (patternMatchM g' p (π a) panchor).1 = (patternMatchM g p a panchor).1 := by
  cases panchor with
  | none => rw [patternMatchM_none_fst, patternMatchM_none_fst]; exact patternMatch_renumber π g g' h p a
  | some pa =>
    simp only [patternMatchM, fitsM_fst]
    exact fits_renumber π g g' p.toLG h p.n a pa [] []

/-- the permutation enumeration, the symbol pre-filter and the mapping loop of `_fits` (with both `break`s) compute:
"the symbols agree and the unvisited pattern neighbours can be assigned injectively to unvisited neighbours with the
same symbol and bond type that fit recursively" -/
theorem C16_matcher_computes_assignment_search (g p : LG) (fuel a pa : Nat) (va vp : List Nat) :
    (fitsM g p fuel a pa va vp).1 = fits g p fuel a pa va vp := fitsM_fst g p fuel a pa va vp

/-- **C16 (termination / fuel).** The Python recursion carries no counter; the model does. For a well-formed pattern
every fuel ≥ the number of pattern atoms gives the answer that `pattern_match` (fuel = number of pattern atoms)
computes — i.e. the model never runs out of fuel. -/
theorem C16_fuel_irrelevant (g : LG) (p : GData) (hp : p.wf = true) (fuel a pa : Nat) (hpa : pa < p.n)
    (hf : p.n ≤ fuel) :
    (fitsM g p.toLG fuel a pa [] []).1 = (fitsM g p.toLG p.n a pa [] []).1 := by
  rw [fitsM_fst, fitsM_fst]
  exact fits_fuel g p.toLG p.n (patWF_of_wf p hp).range fuel p.n a pa [] [] hpa (by simp)
    (by rw [unvisited_nil]; exact hf) (by rw [unvisited_nil]; exact Nat.le_refl _)

/-- **C16 (completeness).** Every occurrence of a well-formed pattern — an injective map of the pattern atoms that
preserves symbols and maps every pattern bond to a bond of the same type — is found from each of its atoms. -/
theorem C16_complete (g : LG) (p : GData) (hp : p.wf = true) (f : Nat → Nat) (he : Embedding g p.toLG p.n f)
    (pa : Nat) (hpa : pa < p.n) : (patternMatchM g p (f pa) none).1 = true := by
  rw [patternMatchM_none_fst]
  unfold patternMatch
  rw [List.any_eq_true]
  refine ⟨pa, List.mem_range.2 hpa, ?_⟩
  have := fits_complete g p.toLG p.n (patWF_of_wf p hp) f he p.n pa [] hpa (by simp) (by simp)
    (by rw [unvisited_nil]; exact Nat.le_refl _)
  simpa using this

/-- `check_functional_group` is "some pattern and its group-atom graph match, and no anti-pattern matches" -/
theorem C16_group_formula (g : LG) (cfg : FGConfig) (idx : Nat) :
    checkFunctionalGroupM g cfg idx =
      ((cfg.pattern.zip cfg.groups).any (fun pg => (patternMatchM g pg.1 idx none).1 && (patternMatchM g pg.2 idx none).1)
        && (sortDesc GData.n cfg.antiPattern).all (fun ap => !(patternMatchM g ap idx none).1)) := by
  unfold checkFunctionalGroupM checkWith
  rw [antiLoop_eq, patLoop_eq (fun p => (patternMatchM g p idx none).1), Bool.false_or]

/-! ### soundness is false of the current code

The full-strength statement would be
`∀ g p a, p.wf → g.wf → (patternMatchM g.toLG p a none).1 = true → ∃ f, Occurrence g p f a`.
It fails in two ways: the visited lists are per branch, so two branches of the pattern may use the same atom
(`C16_witness_overlap`), and a ring-closing bond of the pattern is never checked (`C16_witness_ring`). -/

open Generated (witnessMol patternsOf)

/-- 1,3-dioxetane `C1OCO1` (4 atoms): every atom "is an acetal" (`COCOC`, 5 atoms) although no occurrence exists -/
theorem C16_witness_overlap :
    isFunctionalGroupM Generated.fgConfig (witnessMol "C1OCO1").toLG "acetal" 1 = some true ∧
    ∃ p ∈ patternsOf "acetal", (patternMatchM (witnessMol "C1OCO1").toLG p 1 none).1 = true ∧
      ¬ ∃ f, Occurrence (witnessMol "C1OCO1") p f 1 := by
  refine ⟨by decide +kernel, (patternsOf "acetal").headD default, by decide +kernel, by decide +kernel, ?_⟩
  rintro ⟨f, hf⟩
  have h := occurs_of_occurrence _ _ (by decide +kernel) f 1 hf
  revert h
  decide +kernel

/-- pyridine-2,3-diol `Oc1ncccc1O`: the ring nitrogen (atom 2) "is a phenol" through the five-ring pattern
`Oc1ccc[nH]1`, which does not occur in a molecule whose only ring has six atoms -/
theorem C16_witness_ring :
    isFunctionalGroupM Generated.fgConfig (witnessMol "Oc1ncccc1O").toLG "phenol" 2 = some true ∧
    (patternMatchM (witnessMol "Oc1ncccc1O").toLG (witnessMol "Oc1ccc[nH]1") 2 none).1 = true ∧
    witnessMol "Oc1ccc[nH]1" ∈ patternsOf "phenol" ∧
    ¬ ∃ f, Occurrence (witnessMol "Oc1ncccc1O") (witnessMol "Oc1ccc[nH]1") f 2 := by
  refine ⟨by decide +kernel, by decide +kernel, by decide +kernel, ?_⟩
  rintro ⟨f, hf⟩
  have h := occurs_of_occurrence _ _ (by decide +kernel) f 2 hf
  revert h
  decide +kernel

/-- **C16 (soundness, partial).** What the proof needs, exactly:
* the pattern is a connected acyclic graph (`isTreePattern`: from every pattern atom the self-avoiding walks end in
  pairwise distinct atoms, cover the pattern, and every bond leads to the previous or to a new atom) — this fails for the
  ring patterns (`C16_witness_ring`);
* around the anchor the molecule has no cycle within reach of the pattern (`acyclicAround g p.n a`: the self-avoiding
  walks from `a` with fewer than `p.n` steps end in pairwise distinct atoms) — this fails for `C16_witness_overlap`;
* the molecule graph is well-formed (symmetric neighbour lists, bond type a function of the unordered pair).
Then a positive `pattern_match(mol, a, pattern)` comes with a real occurrence of the pattern that contains `a`. -/
theorem C16_sound_partial (g p : GData) (hg : g.wf = true) (hp : isTreePattern p = true) (a : Nat) (ha : a < g.n)
    (hcyc : acyclicAround g p.n a = true) (h : (patternMatchM g.toLG p a none).1 = true) :
    ∃ f, Occurrence g p f a := by
  rw [patternMatchM_none_fst] at h
  exact patternMatch_sound g p hg hp a ha hcyc h

/-! ### table obligations (re-elaborated against the current `functional_group_utils.py` on every run) -/

/-- group names are unique; every pattern / group / anti-pattern graph is well-formed and non-empty; `pattern` and
`groups` have the same length; the anti-patterns are stored largest first; `max_pattern_size` is the maximum size;
`group_atoms` are atoms of every pattern of their group and `groups` is the pattern restricted to them -/
theorem C16_table_ok : tableOK Generated.fgConfig Generated.fgGroupAtoms = true := by decide +kernel

/-- which structures of the table the partial soundness theorem covers: exactly those without an aromatic bond
(bond type 12), i.e. all but the ring patterns -/
theorem C16_table_tree_patterns :
    Generated.fgConfig.all (fun e => (allGraphs e.2).all (fun p =>
      isTreePattern p == !p.bonds.any (fun t => t.2.2 == 12))) = true := by decide +kernel

/-- the witness molecules are well-formed graphs -/
theorem C16_witness_graphs_wf : Generated.fgWitnessMols.all (fun m => m.2.wf) = true := by decide +kernel

/-! ### non-vacuity -/

/-- `Renum` is satisfiable for every graph and every relabelling that has a left inverse, with reversed neighbour
lists -/
example (π πinv : Nat → Nat) (hinv : ∀ x, πinv (π x) = x) (g : LG) (tbl : FGTable) (name : String) (a : Nat) :
    isFunctionalGroupM tbl (renumbered π πinv g) name (π a) = isFunctionalGroupM tbl g name a :=
  C16_renumber_invariant π g _ (renum_renumbered π πinv hinv g) tbl name a

/-- ethanol written backwards (`OCC`, neighbour list of the middle atom in the other order) is a renumbering of `CCO` -/
example : renumB [2, 1, 0] (witnessMol "CCO") ⟨["O", "C", "C"], [[1], [2, 0], [1]], [(2, 1, 1), (1, 0, 1)]⟩ = true := by
  decide +kernel

/-- a true acetal: `CC(C)OC(C)OC`, oxygen 3 — positive answer, and the reference search finds the occurrence -/
example : isFunctionalGroupM Generated.fgConfig (witnessMol "CC(C)OC(C)OC").toLG "acetal" 3 = some true ∧
    (patternsOf "acetal").all (fun p => occurs (witnessMol "CC(C)OC(C)OC") p 3) = true := by decide +kernel
/-- the hypotheses of `C16_sound_partial` hold for that oxygen and the acetal pattern, and fail for the two witnesses -/
example : (patternsOf "acetal").all (fun p => (witnessMol "CC(C)OC(C)OC").wf && isTreePattern p &&
      acyclicAround (witnessMol "CC(C)OC(C)OC") p.n 3 && (patternMatchM (witnessMol "CC(C)OC(C)OC").toLG p 3 none).1) = true ∧
    (patternsOf "acetal").all (fun p => isTreePattern p && !acyclicAround (witnessMol "C1OCO1") p.n 1) = true ∧
    isTreePattern (witnessMol "Oc1ccc[nH]1") = false := by decide +kernel
example : isFunctionalGroupM Generated.fgConfig (witnessMol "CCO").toLG "alcohol" 2 = some true ∧
    isFunctionalGroupM Generated.fgConfig (witnessMol "CCO").toLG "ether" 2 = some false ∧
    isFunctionalGroupM Generated.fgConfig (witnessMol "CCO").toLG "no-such-group" 2 = none := by decide +kernel

end SynRBL
