import SynRBLModel.Proofs.Stats
import SynRBLModel.Proofs.StatsDict
/-!
# C18 — run statistics agree with the returned rows
-/
namespace SynRBL
open Str

/-! ### per-row facts -/

theorem stats_row_balanced (cfg : Config) (x : InRow) :
    (statsIn cfg x).balancedCnt = b2n ((runIn cfg x).solvedBy == some .input) := by
  cases x with
  | invalid raw => simp [statsIn, runIn, RowStats.zero, b2n]
  | valid s O =>
    simp only [statsIn, runIn]
    rw [(rowStats_fields O cfg s).2.1]
    apply congrArg b2n
    rw [Bool.eq_iff_iff, counted_balanced_iff O cfg s, ← C04_iff O cfg s]; simp

theorem stats_row_confident (cfg : Config) (x : InRow) :
    (statsIn cfg x).confidentCnt = b2n ((runIn cfg x).solved && (runIn cfg x).solvedBy == some .mcs) := by
  cases x with
  | invalid raw => simp [statsIn, runIn, RowStats.zero, b2n]
  | valid s O =>
    simp only [statsIn, runIn]
    rw [(rowStats_fields O cfg s).2.2.2.2.2.2]
    apply congrArg b2n
    rw [Bool.eq_iff_iff]
    simp only [decide_eq_true_eq, Bool.and_eq_true, beq_iff_eq]
    have hsb : (runRow O cfg s).solvedBy = (preConf O cfg s).solvedBy := by
      unfold runRow; exact (confStage_fields O _ _).2.2.1
    constructor
    · rintro ⟨hm, hc⟩
      refine ⟨?_, by rw [hsb]; exact hm⟩
      have := (C13_solved_iff_ge O cfg cfg.threshold s hm).1
      exact this.2 hc
    · rintro ⟨hs, hm⟩
      rw [hsb] at hm
      refine ⟨hm, ?_⟩
      have := (C13_solved_iff_ge O cfg cfg.threshold s hm).1
      exact this.1 hs

/-- `mcs_applied` counts exactly the valid rows that were not solved before the MCS stage -/
def unsolvedBeforeMcs (cfg : Config) : InRow → Bool
  | .valid s O => !(pc3 O cfg s).solved
  | .invalid _ => false

theorem stats_row_mcs_applied (cfg : Config) (x : InRow) :
    (statsIn cfg x).mcsApplied = b2n (unsolvedBeforeMcs cfg x) := by
  cases x with
  | invalid raw => simp [statsIn, unsolvedBeforeMcs, RowStats.zero, b2n]
  | valid s O =>
    simp only [statsIn, unsolvedBeforeMcs]
    rw [(rowStats_fields O cfg s).2.2.2.2.1]
    apply congrArg b2n
    rw [Bool.eq_iff_iff, mcs_applied_iff O cfg s]; simp

theorem stats_row_le (cfg : Config) (x : InRow) :
    (statsIn cfg x).rbSolved ≤ (statsIn cfg x).rbApplied ∧
    (statsIn cfg x).mcsSolved ≤ (statsIn cfg x).mcsApplied := by
  cases x with
  | invalid raw => simp [statsIn, RowStats.zero]
  | valid s O =>
    simp only [statsIn]
    obtain ⟨_, _, f3, f4, f5, f6, _⟩ := rowStats_fields O cfg s
    rw [f3, f4, f5, f6]
    exact ⟨rb_solved_le_applied O cfg _, mcs_solved_le_applied O _⟩

/-- the laws the attribution inequalities need, for every valid row of the run -/
def RowLaws (cfg : Config) : InRow → Prop
  | .valid s O => WaterCarbonLaw O ∧ RbLaw O cfg s
  | .invalid _ => True

theorem stats_row_attribution (cfg : Config) (x : InRow) (hL : RowLaws cfg x) :
    b2n ((runIn cfg x).solvedBy == some .rule) ≤ (statsIn cfg x).rbSolved ∧
    b2n ((runIn cfg x).solvedBy == some .mcs) ≤ (statsIn cfg x).mcsSolved := by
  cases x with
  | invalid raw => simp [runIn, b2n]
  | valid s O =>
    simp only [statsIn, runIn]
    obtain ⟨_, _, _, f4, _, f6, _⟩ := rowStats_fields O cfg s
    rw [f4, f6]
    constructor
    · cases h : ((runRow O cfg s).solvedBy == some .rule) with
      | false => simp [b2n]
      | true =>
        rw [rule_row_was_solved O cfg s hL.2 (by simpa using h)]; simp [b2n]
    · cases h : ((runRow O cfg s).solvedBy == some .mcs) with
      | false => simp [b2n]
      | true =>
        rw [mcs_row_was_imputed O hL.1 cfg s (by simpa using h)]; simp [b2n]

/-! ### whole runs -/

/-- **C18.** For every run (any rows, valid or malformed; by `C06` any batching): the reaction count is the number
of input rows, the balanced count is the number of rows labelled `input-balanced`, the confident count is the number
of rows solved by the MCS method, the MCS-applied count is the number of rows not solved before the MCS stage, and
no solved count exceeds its applied count. -/
theorem C18_statistics_agree (cfg : Config) (rows : List InRow) :
    (batchStats cfg rows).reactionCnt = rows.length ∧
    (batchStats cfg rows).balancedCnt = (rows.map (runIn cfg)).countP (fun r => r.solvedBy == some .input) ∧
    (batchStats cfg rows).confidentCnt =
      (rows.map (runIn cfg)).countP (fun r => r.solved && r.solvedBy == some .mcs) ∧
    (batchStats cfg rows).mcsApplied = rows.countP (unsolvedBeforeMcs cfg) ∧
    (batchStats cfg rows).rbSolved ≤ (batchStats cfg rows).rbApplied ∧
    (batchStats cfg rows).mcsSolved ≤ (batchStats cfg rows).mcsApplied := by
  have hb : batchStats cfg rows = sumStats (rows.map (statsIn cfg)) := rfl
  rw [hb, sumStats_fields]
  simp only [List.map_map]
  refine ⟨?_, ?_, ?_, ?_, ?_, ?_⟩
  · have : ∀ l : List InRow, (l.map ((fun x => x.reactionCnt) ∘ statsIn cfg)).sum = l.length := by
      intro l
      induction l with
      | nil => rfl
      | cons a t ih =>
        simp only [List.map_cons, List.sum_cons, List.length_cons, ih, Function.comp]
        cases a with
        | valid s O => simp only [statsIn]; rw [(rowStats_fields O cfg s).1]; omega
        | invalid raw => simp [statsIn, RowStats.zero]; omega
    exact this rows
  · rw [List.countP_map, ← sum_b2n_eq_countP]
    congr 1; apply List.map_congr_left; intro x _; exact stats_row_balanced cfg x
  · rw [List.countP_map, ← sum_b2n_eq_countP]
    congr 1; apply List.map_congr_left; intro x _; exact stats_row_confident cfg x
  · rw [← sum_b2n_eq_countP]
    congr 1; apply List.map_congr_left; intro x _; exact stats_row_mcs_applied cfg x
  · exact sum_le_sum rows _ _ (fun x _ => (stats_row_le cfg x).1)
  · exact sum_le_sum rows _ _ (fun x _ => (stats_row_le cfg x).2)

/-- **C18 (attribution).** Given the monitored laws, no solved count falls below the number of rows finally
attributed to that method. -/
theorem C18_attribution (cfg : Config) (rows : List InRow) (hL : ∀ x ∈ rows, RowLaws cfg x) :
    (rows.map (runIn cfg)).countP (fun r => r.solvedBy == some .rule) ≤ (batchStats cfg rows).rbSolved ∧
    (rows.map (runIn cfg)).countP (fun r => r.solvedBy == some .mcs) ≤ (batchStats cfg rows).mcsSolved := by
  have hb : batchStats cfg rows = sumStats (rows.map (statsIn cfg)) := rfl
  rw [hb, sumStats_fields]
  simp only [List.map_map]
  constructor
  · rw [List.countP_map, ← sum_b2n_eq_countP]
    exact sum_le_sum rows _ _ (fun x hx => (stats_row_attribution cfg x (hL x hx)).1)
  · rw [List.countP_map, ← sum_b2n_eq_countP]
    exact sum_le_sum rows _ _ (fun x hx => (stats_row_attribution cfg x (hL x hx)).2)

/-! ### the statistics *dictionary* (`merge_stats`) -/

/-- **C18 (merge).** `merge_stats` adds the values of every key, a key absent on one side counting 0, whatever the two
key sets and orders are. -/
theorem C18_merge_adds (s n : Dict) (k : Key) : Dict.val (mergeStats s n) k = Dict.val s k + Dict.val n k :=
  mergeStats_val s n k

/-- **C18 (merge).** The merged dictionary has exactly the keys of both operands: a counter that only a later batch
reports is adopted, none is dropped. -/
theorem C18_merge_keys (s n : Dict) (k : Key) :
    k ∈ Dict.keys (mergeStats s n) ↔ k ∈ Dict.keys s ∨ k ∈ Dict.keys n :=
  mem_keys_mergeStats s n k

/-- **C18 (dictionary).** After `rebalance(..., batch_size=n)` the caller's dictionary — merged batch by batch, the
batches reporting different key sets (a batch without a valid row reports `reaction_cnt` only) — holds under every key
the count the property names. -/
theorem C18_dict_agrees (cfg : Config) (n : Nat) (hn : 1 ≤ n) (rows : List InRow) :
    Dict.val (rebalanceDict cfg n rows) "reaction_cnt" = rows.length ∧
    Dict.val (rebalanceDict cfg n rows) "balanced_cnt" =
      (rows.map (runIn cfg)).countP (fun r => r.solvedBy == some .input) ∧
    Dict.val (rebalanceDict cfg n rows) "confident_cnt" =
      (rows.map (runIn cfg)).countP (fun r => r.solved && r.solvedBy == some .mcs) ∧
    Dict.val (rebalanceDict cfg n rows) "mcs_applied" = rows.countP (unsolvedBeforeMcs cfg) ∧
    Dict.val (rebalanceDict cfg n rows) "rb_solved" ≤ Dict.val (rebalanceDict cfg n rows) "rb_applied" ∧
    Dict.val (rebalanceDict cfg n rows) "mcs_solved" ≤ Dict.val (rebalanceDict cfg n rows) "mcs_applied" := by
  obtain ⟨h1, h2, h3, h4, h5, h6⟩ := C18_statistics_agree cfg rows
  simp only [rebalanceDict_val, rebalance_eq cfg n hn rows]
  refine ⟨?_, ?_, ?_, ?_, ?_, ?_⟩
  · simp [RowStats.field, h1]
  · simp [RowStats.field, h2]
  · simp [RowStats.field, h3]
  · simp [RowStats.field, h4]
  · simp only [RowStats.field]; simp; exact h5
  · simp only [RowStats.field]; simp; exact h6

/-- **C18 (dictionary keys).** A counter is reported as soon as any batch wrote it, whichever batch came first; the
dictionary stays well formed. -/
theorem C18_dict_keys (cfg : Config) (n : Nat) (rows : List InRow) (k : Key) :
    (k ∈ Dict.keys (rebalanceDict cfg n rows) ↔ ∃ b ∈ batchesOf n rows, k ∈ Dict.keys (batchDict cfg b)) ∧
    Dict.WF (rebalanceDict cfg n rows) :=
  ⟨mem_keys_rebalanceDict cfg n rows k, rebalanceDict_wf cfg n rows⟩

/-- non-vacuity: a first dictionary with `reaction_cnt` only, then a full one — all seven keys come out, values added -/
example : mergeStats [("reaction_cnt", 1)] [("reaction_cnt", 2), ("balanced_cnt", 1), ("rb_applied", 1)]
    = [("reaction_cnt", 3), ("balanced_cnt", 1), ("rb_applied", 1)] := by decide

end SynRBL
