import SynRBLModel.Proofs.Compare
import SynRBLModel.Proofs.Decompose
import SynRBLModel.Generated.AtomicSymbols
/-!
# C07 — element, hydrogen and charge accounting of a SMILES is exact

Only property theorems, their table obligations and non-vacuity examples live here.
RDKit supplies the hydrogen-completed atom list of a side (`Atom = (Z, RDKit symbol, formal charge)`); the
oracle law `Named` says RDKit names an atom of element `Z` by the periodic table's symbol for `Z`.
-/
namespace SynRBL
open Dict

/-- oracle law: the atom's RDKit symbol is the periodic table's symbol of its atomic number (1 ≤ Z ≤ 118) -/
def Named (pt : List (Nat × String)) (a : Atom) : Prop := pt.lookup a.z = some a.sym

instance (pt : List (Nat × String)) (a : Atom) : Decidable (Named pt a) :=
  inferInstanceAs (Decidable (_ = _))

/-- decidable conditions on the decomposer's symbol table and the periodic table -/
def tableOK (t : SymTable) (pt : List (Nat × String)) : Bool :=
  t.fallback.isNone                                                     -- unknown Z ↦ the atom's own symbol
  && t.entries.all (fun e => match pt.lookup e.1 with | some s => s == e.2 | none => true) -- agrees with RDKit
  && (pt.map (·.2)).Nodup                                               -- distinct elements, distinct symbols
  && !(pt.map (·.2)).contains "Q"                                       -- no element is called like the charge key
  && (pt.lookup 0).isNone

theorem lookup_mem {α β} [BEq α] [LawfulBEq α] (l : List (α × β)) (k : α) (v : β)
    (h : l.lookup k = some v) : (k, v) ∈ l := by
  induction l with
  | nil => simp at h
  | cons a t ih =>
    obtain ⟨k', v'⟩ := a
    simp only [List.lookup_cons] at h
    by_cases hk : k == k'
    · simp only [hk] at h; cases h
      have : k = k' := by simpa using hk
      subst this; exact List.mem_cons_self ..
    · simp only [hk] at h; exact List.mem_cons_of_mem _ (ih h)

theorem symbol_injective (pt : List (Nat × String)) (hnd : (pt.map (·.2)).Nodup)
    (z z' : Nat) (s : String) (h : pt.lookup z = some s) (h' : pt.lookup z' = some s) : z = z' := by
  have m := lookup_mem pt z s h
  have m' := lookup_mem pt z' s h'
  clear h h'
  induction pt with
  | nil => simp at m
  | cons a t ih =>
    simp only [List.map_cons, List.nodup_cons] at hnd
    rcases List.mem_cons.1 m with e | e <;> rcases List.mem_cons.1 m' with e' | e'
    · have := e.trans e'.symm; exact (Prod.mk.inj this).1
    · subst e; exact absurd (List.mem_map.2 ⟨(z', s), e', rfl⟩) hnd.1
    · subst e'; exact absurd (List.mem_map.2 ⟨(z, s), e, rfl⟩) hnd.1
    · exact ih hnd.2 e e'

/-- under the table conditions a named atom is counted under its own element symbol -/
theorem symbolOf_named (t : SymTable) (pt : List (Nat × String)) (hT : tableOK t pt = true)
    (a : Atom) (ha : Named pt a) : symbolOf t a = a.sym := by
  simp only [tableOK, Bool.and_eq_true, List.all_eq_true] at hT
  obtain ⟨⟨⟨⟨hfb, hcons⟩, _⟩, _⟩, _⟩ := hT
  unfold symbolOf
  cases hl : t.entries.lookup a.z with
  | none =>
    cases hf : t.fallback with
    | none => simp
    | some c => simp [hf] at hfb
  | some s =>
    have := hcons _ (lookup_mem _ _ _ hl)
    unfold Named at ha
    simp only [ha] at this
    exact (by simpa using this : a.sym = s).symm

/-- **C07 (elements).** For a side whose atoms RDKit names by the periodic table, the value stored under the
symbol of element `z` is exactly the number of atoms with atomic number `z` (hydrogens are atoms of the list). -/
theorem C07_decompose_counts_every_element (t : SymTable) (pt : List (Nat × String))
    (hT : tableOK t pt = true) (atoms : List Atom) (hn : ∀ a ∈ atoms, Named pt a)
    (z : Nat) (s : String) (hz : pt.lookup z = some s) :
    (decompose t atoms).val s = ((atoms.filter fun a => a.z == z).length : Int) := by
  have hT' := hT
  simp only [tableOK, Bool.and_eq_true] at hT'
  obtain ⟨⟨⟨⟨_, _⟩, hnd⟩, hq⟩, _⟩ := hT'
  have hsQ : s ≠ "Q" := by
    intro e; subst e
    have := lookup_mem pt z "Q" hz
    have hm : "Q" ∈ pt.map (·.2) := List.mem_map.2 ⟨(z, "Q"), this, rfl⟩
    simp only [Bool.not_eq_true', List.contains_eq_mem, decide_eq_false_iff_not] at hq
    exact hq hm
  rw [decompose_val]
  simp only [hsQ, false_and, if_false]
  unfold symCount
  congr 2
  apply List.filter_congr
  intro a ha
  rw [symbolOf_named t pt hT a (hn a ha)]
  have hna := hn a ha
  by_cases hza : a.z = z
  · subst hza
    have : a.sym = s := Option.some.inj (hna.symm.trans hz)
    simp [this]
  · have : a.sym ≠ s := by
      intro e; subst e
      exact hza (symbol_injective pt (by simpa using hnd) a.z z a.sym hna hz)
    have h1 : (a.sym == s) = false := by simpa using this
    have h2 : (a.z == z) = false := by simpa using hza
    rw [h1, h2]

/-- **C07 (charge).** The value under `Q` is the net formal charge. -/
theorem C07_decompose_charge (t : SymTable) (pt : List (Nat × String))
    (hT : tableOK t pt = true) (atoms : List Atom) (hn : ∀ a ∈ atoms, Named pt a) :
    (decompose t atoms).val "Q" = totalCharge atoms := by
  rw [decompose_val]
  by_cases h : totalCharge atoms ≠ 0
  · simp [h]
  · simp only [ne_eq, Decidable.not_not] at h
    simp only [h, ne_eq, not_true_eq_false, and_false, if_false]
    unfold symCount
    have hT' := hT
    simp only [tableOK, Bool.and_eq_true] at hT'
    obtain ⟨⟨⟨⟨_, _⟩, _⟩, hq⟩, _⟩ := hT'
    have : (atoms.filter fun a => symbolOf t a == "Q") = [] := by
      rw [List.filter_eq_nil_iff]
      intro a ha
      rw [symbolOf_named t pt hT a (hn a ha)]
      intro e
      have e' : a.sym = "Q" := by simpa using e
      have hm : "Q" ∈ pt.map (·.2) :=
        List.mem_map.2 ⟨(a.z, a.sym), lookup_mem pt _ _ (hn a ha), e'⟩
      simp only [Bool.not_eq_true', List.contains_eq_mem, decide_eq_false_iff_not] at hq
      exact hq hm
    simp [this]

/-- **C07 (mixtures).** The composition is additive over the components of a mixture, at every key. -/
theorem C07_decompose_additive (t : SymTable) (pt : List (Nat × String))
    (hT : tableOK t pt = true) (as bs : List Atom)
    (ha : ∀ a ∈ as, Named pt a) (hb : ∀ a ∈ bs, Named pt a) (k : Key) :
    (decompose t (as ++ bs)).val k = (decompose t as).val k + (decompose t bs).val k := by
  have hab : ∀ a ∈ as ++ bs, Named pt a := by
    intro a h; rcases List.mem_append.1 h with h | h
    · exact ha a h
    · exact hb a h
  by_cases hk : k = "Q"
  · subst hk
    rw [C07_decompose_charge t pt hT _ hab, C07_decompose_charge t pt hT _ ha,
      C07_decompose_charge t pt hT _ hb, totalCharge_append]
  · simp only [decompose_val, hk, false_and, if_false, symCount_append]; omega

/-- **C07 (verdict, balanced).** The comparison says `Balance` exactly when both sides have the same number of
atoms of every element and the same net charge. -/
theorem C07_balance_iff_true_composition (t : SymTable) (pt : List (Nat × String))
    (hT : tableOK t pt = true) (ra pa : List Atom)
    (hr : ∀ a ∈ ra, Named pt a) (hp : ∀ a ∈ pa, Named pt a) :
    compareDicts (decompose t ra) (decompose t pa) = .balance ↔
      (∀ z s, pt.lookup z = some s →
        (ra.filter fun a => a.z == z).length = (pa.filter fun a => a.z == z).length) ∧
      totalCharge ra = totalCharge pa := by
  rw [compare_balance_iff_val _ _ (decompose_wf t ra) (decompose_wf t pa)
      (decompose_noZero t ra) (decompose_noZero t pa)]
  constructor
  · intro h
    refine ⟨?_, ?_⟩
    · intro z s hz
      have := h s
      rw [C07_decompose_counts_every_element t pt hT ra hr z s hz,
          C07_decompose_counts_every_element t pt hT pa hp z s hz] at this
      exact_mod_cast this
    · have := h "Q"
      rwa [C07_decompose_charge t pt hT ra hr, C07_decompose_charge t pt hT pa hp] at this
  · rintro ⟨he, hq⟩ k
    by_cases hk : k = "Q"
    · subst hk
      rw [C07_decompose_charge t pt hT ra hr, C07_decompose_charge t pt hT pa hp, hq]
    · -- a key that is no element symbol of any atom has count 0 on both sides; otherwise use `he`
      simp only [decompose_val, hk, false_and, if_false]
      unfold symCount
      by_cases hex : ∃ a ∈ ra ++ pa, a.sym = k
      · obtain ⟨a, ham, hak⟩ := hex
        have hna : Named pt a := by
          rcases List.mem_append.1 ham with h | h
          · exact hr a h
          · exact hp a h
        have hz : pt.lookup a.z = some k := by rw [← hak]; exact hna
        have e1 := C07_decompose_counts_every_element t pt hT ra hr a.z k hz
        have e2 := C07_decompose_counts_every_element t pt hT pa hp a.z k hz
        simp only [decompose_val, hk, false_and, if_false] at e1 e2
        unfold symCount at e1 e2
        rw [e1, e2, he a.z k hz]
      · have hnone : ∀ l : List Atom, (∀ a ∈ l, Named pt a) → (∀ a ∈ l, a.sym ≠ k) →
            (l.filter fun a => symbolOf t a == k) = [] := by
          intro l hl hne
          rw [List.filter_eq_nil_iff]
          intro a ha
          rw [symbolOf_named t pt hT a (hl a ha)]
          simpa using hne a ha
        rw [hnone ra hr (fun a ha e => hex ⟨a, List.mem_append_left _ ha, e⟩),
            hnone pa hp (fun a ha e => hex ⟨a, List.mem_append_right _ ha, e⟩)]

/-- **C07 (verdict, one-sided).** `Products` promises `products + difference = reactants` at every key,
`Reactants` promises `reactants + difference = products` — for arbitrary well-formed dictionaries, hence for
every pair of compositions, charge and one-sided keys included. -/
theorem C07_difference_formula_contract (r p : Dict) (hr : r.WF) (hp : p.WF) :
    (compareDicts r p = .products → ∀ k, p.val k + (diffDicts r p).val k = r.val k) ∧
    (compareDicts r p = .reactants → ∀ k, r.val k + (diffDicts r p).val k = p.val k) :=
  ⟨fun h k => compare_products_contract r p hr hp h k, fun h k => compare_reactants_contract r p hr hp h k⟩

/-- **C07 (carbon label).** -/
theorem C07_carbon_label_spec (rc pc : Nat) :
    (carbonLabel rc pc = .balanced ↔ rc = pc) ∧
    (carbonLabel rc pc = .products ↔ rc > pc) ∧
    (carbonLabel rc pc = .reactants ↔ rc < pc) ∧ carbonLabel rc pc ≠ .error := by
  unfold carbonLabel
  by_cases h1 : rc = pc
  · simp [h1]
  · by_cases h2 : rc > pc
    · simp [h1, h2]; omega
    · simp [h1, h2]; omega

/-- **Table obligation** (re-checked against `/repo`'s current `atomic_symbols` on every run):
the decomposer's table agrees with RDKit's element symbols, its fallback is the atom's own symbol, and element
symbols are pairwise distinct and different from the charge key. -/
theorem C07_symbol_table_ok :
    tableOK ⟨Generated.atomicSymbols, Generated.symbolFallback⟩ Generated.periodicTable = true := by
  decide +kernel

/-! ### non-vacuity: a concrete charged mixture meets every hypothesis -/
def exAtoms : List Atom := [⟨6, "C", 0⟩, ⟨8, "O", -1⟩, ⟨1, "H", 0⟩, ⟨1, "H", 0⟩, ⟨1, "H", 0⟩, ⟨92, "U", 0⟩]

example : ∀ a ∈ exAtoms, Named Generated.periodicTable a := by decide +kernel
example : (decompose ⟨Generated.atomicSymbols, Generated.symbolFallback⟩ exAtoms)
    = [("C", 1), ("O", 1), ("H", 3), ("U", 1), ("Q", -1)] := by decide +kernel
example : compareDicts [("Cl", 1), ("Q", -1)] [("Cl", 1)] = .products ∧
    diffDicts [("Cl", 1), ("Q", -1)] [("Cl", 1)] = [("Q", -1)] := by decide

end SynRBL
