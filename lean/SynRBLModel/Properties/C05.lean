import SynRBLModel.Proofs.Batching
import SynRBLModel.Proofs.Pipeline3
import SynRBLModel.Model.Preprocess
import SynRBLModel.Proofs.Cli
/-!
# C05 — one result row per input row, in input order, for every input form
-/
namespace SynRBL
open Str

/-- **C05.** For every list of input rows (valid or malformed, in any mixture) and every batch size ≥ 1, `rebalance`
returns exactly one row per input row, in input order, and row `i` describes input `i`: it is what the pipeline makes
of that row alone. -/
theorem C05_one_row_per_input (cfg : Config) (n : Nat) (hn : 1 ≤ n) (rows : List InRow) :
    (rebalance cfg n rows).1 = rows.map (runIn cfg) ∧ (rebalance cfg n rows).1.length = rows.length := by
  rw [rebalance_eq cfg n hn]; simp

/-- a malformed row never removes or shifts other rows: it comes back in its place, unsolved, with its text -/
theorem C05_malformed_row_in_place (cfg : Config) (n : Nat) (hn : 1 ≤ n) (rows : List InRow) (i : Nat) (raw : Str)
    (h : rows[i]? = some (.invalid raw)) :
    (rebalance cfg n rows).1[i]? =
      some { input := raw, reaction := raw, solved := false, issue := some invalidIssue } := by
  rw [rebalance_eq cfg n hn]
  simp only [List.getElem?_map, h, Option.map_some, runIn]

/-- every returned row reports the input it came from -/
theorem C05_row_describes_its_input (O : Oracle) (cfg : Config) (s : Str) : (runRow O cfg s).input = s := by
  unfold runRow
  rw [(confStage_fields O _ _).1, preConf_eq, (revertStage_fields _).1]
  exact (pc_input O cfg s).2.2.2.2.2.2.2.2

/-- the batches `DataLoader` produces concatenate to the input and none exceeds the batch size -/
theorem C05_dataloader (n : Nat) (hn : 1 ≤ n) (xs : List InRow) :
    (batchesOf n xs).flatten = xs ∧ ∀ b ∈ batchesOf n xs, b.length ≤ n ∧ b ≠ [] := by
  refine ⟨batchesOf_flatten n hn xs, ?_⟩
  intro b hb
  unfold batchesOf at hb
  obtain ⟨h1, h2⟩ := List.mem_filter.1 hb
  refine ⟨chunks_length_le n _ _ b h1, ?_⟩
  intro e; subst e; simp at h2

example : batchesOf 2 [1, 2, 3, 4] = [[1, 2], [3, 4]] ∧ chunks 2 5 [1, 2, 3, 4] = [[1, 2], [3, 4], []] := by decide

end SynRBL

namespace SynRBL
open Str

/-- **C05 (raw inputs).** For every list of raw reaction strings, every batch size ≥ 1, every parser and oracle: one
row per input, in order; the row of a valid input reports the input after atom-map removal as `input_reaction`, the
row of a malformed input reports the raw string, is unsolved and carries an issue. -/
theorem C05_raw_rows (parse : Str → Bool) (oracleOf : Str → Oracle) (cfg : Config) (n : Nat) (hn : 1 ≤ n)
    (raws : List Str) :
    (rebalanceRaw parse oracleOf cfg n raws).1.length = raws.length ∧
    ∀ i (h : i < raws.length), ∃ r, (rebalanceRaw parse oracleOf cfg n raws).1[i]? = some r ∧
      (if validReaction parse (Aam.remove raws[i]) then r.input = Aam.remove raws[i]
       else r.input = raws[i] ∧ r.reaction = raws[i] ∧ r.solved = false ∧ r.issue = some invalidIssue) := by
  unfold rebalanceRaw
  rw [rebalance_eq cfg n hn]
  refine ⟨by simp, ?_⟩
  intro i h
  refine ⟨runIn cfg (classify parse oracleOf raws[i]), by simp [h], ?_⟩
  unfold classify
  simp only []
  split
  · simp only [runIn]; exact C05_row_describes_its_input _ cfg _
  · simp [runIn]

end SynRBL

namespace SynRBL
open Cli

/-- **C05 (command line).** The CSV the command-line run writes has one record per input record as soon as `rebalance`
returned one row per input row (`C05_one_row_per_input`), and in record `i` every pass-through column that input record
`i` has holds the value of input record `i` — whatever the pipeline did to a column of the same name (`id`, `products`,
`reactants`, …) on the way. -/
theorem C05_cli_passthrough (cols : List String) (ins outs : List Rec) (h : outs.length = ins.length) :
    (passThrough cols ins outs).length = ins.length ∧
    ∀ (i : Nat) (hi : i < (passThrough cols ins outs).length) (c : String), c ∈ cols →
      ∀ v, getCol (ins[i]'(by rw [length_passThrough] at hi; omega)) c = some v →
        getCol ((passThrough cols ins outs)[i]) c = some v := by
  refine ⟨by rw [length_passThrough, h]; simp, ?_⟩
  intro i hi c hc v hv
  unfold passThrough at hi ⊢
  rw [List.getElem_zipWith, getCol_passRow]
  simp [hc, hv]

/-- the other columns of a result row are exactly what the pipeline returned -/
theorem C05_cli_other_columns_untouched (cols : List String) (ins outs : List Rec)
    (i : Nat) (hi : i < (passThrough cols ins outs).length) (c : String) (hc : c ∉ cols) :
    getCol ((passThrough cols ins outs)[i]) c
      = getCol (outs[i]'(by rw [length_passThrough] at hi; omega)) c := by
  unfold passThrough at hi ⊢
  rw [List.getElem_zipWith, getCol_passRow]
  simp [hc]

/-- non-vacuity: the caller's `id` column survives although the pipeline overwrote it -/
example : passThrough ["id", "tag"] [[("reaction", "C>>C"), ("id", "1001"), ("tag", "a")]]
    [[("input_reaction", "C>>C"), ("id", "0"), ("solved", "True")]]
    = [[("input_reaction", "C>>C"), ("id", "1001"), ("solved", "True"), ("tag", "a")]] := by decide

end SynRBL
