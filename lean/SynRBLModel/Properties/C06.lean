import SynRBLModel.Proofs.Batching
import SynRBLModel.Proofs.StatsDict
/-!
# C06 — a reaction's result does not depend on its batch context
-/
namespace SynRBL
open Str

/-- **C06 (rows).** The result row of a reaction is a function of that reaction (and of the kernel's answers about
it) alone: for any surrounding rows, any position and any batch size the row at its position is `runIn cfg row`.
Worker counts do not occur in the model at all; that the real id/index plumbing implements this map is what the
correspondence check establishes on every run. -/
theorem C06_row_independent_of_context (cfg : Config) (n : Nat) (hn : 1 ≤ n) (before after : List InRow) (x : InRow) :
    (rebalance cfg n (before ++ x :: after)).1[before.length]? = some (runIn cfg x) ∧
    (rebalance cfg 1 [x]).1 = [runIn cfg x] := by
  rw [rebalance_eq cfg n hn, rebalance_eq cfg 1 (Nat.le_refl 1)]
  simp

/-- **C06 (order).** Permuting the inputs permutes the outputs. -/
theorem C06_permutation (cfg : Config) (n : Nat) (hn : 1 ≤ n) (xs ys : List InRow) (h : xs.Perm ys) :
    (rebalance cfg n xs).1.Perm (rebalance cfg n ys).1 := by
  rw [rebalance_eq cfg n hn, rebalance_eq cfg n hn]
  exact h.map _

/-- **C06 (statistics).** The statistics of a batched run are the sum of the statistics of its batches, for *every*
partition into batches, and equal the statistics of the unbatched run. -/
theorem C06_stats_partition_independent (cfg : Config) (bs : List (List InRow)) :
    sumStats (bs.map (batchStats cfg)) = batchStats cfg bs.flatten :=
  stats_partition_independent cfg bs

theorem C06_stats_batch_size_independent (cfg : Config) (n m : Nat) (hn : 1 ≤ n) (hm : 1 ≤ m) (rows : List InRow) :
    (rebalance cfg n rows).2 = (rebalance cfg m rows).2 := by
  rw [rebalance_eq cfg n hn, rebalance_eq cfg m hm]

/-- statistics are order independent as well -/
theorem C06_stats_permutation (cfg : Config) (xs ys : List InRow) (h : xs.Perm ys) :
    batchStats cfg xs = batchStats cfg ys := by
  show sumStats (xs.map (statsIn cfg)) = sumStats (ys.map (statsIn cfg))
  have hp := h.map (statsIn cfg)
  generalize xs.map (statsIn cfg) = a at hp
  generalize ys.map (statsIn cfg) = b at hp
  induction hp with
  | nil => rfl
  | cons x _ ih =>
    rw [show ∀ l, sumStats (x :: l) = (sumStats [x]).add (sumStats l) from fun l => sumStats_append [x] l, ih,
      ← sumStats_append]; rfl
  | swap x y l =>
    have e : ∀ (u v : RowStats) (l : List RowStats), sumStats (u :: v :: l) = (u.add v).add (sumStats l) := by
      intro u v l
      rw [show u :: v :: l = [u, v] ++ l from rfl, sumStats_append]
      congr 1
      unfold sumStats; simp [RowStats.zero_add]
    rw [e, e, RowStats.add_comm y x]
  | trans _ _ ih1 ih2 => rw [ih1, ih2]

/-- **C06 (statistics dictionary).** Under every key the caller's statistics dictionary holds the same value for any two
batch sizes — although the batches report different key sets and `merge_stats` adopts keys in the order batches
introduce them. -/
theorem C06_stats_dict_batch_size_independent (cfg : Config) (n m : Nat) (hn : 1 ≤ n) (hm : 1 ≤ m) (rows : List InRow)
    (k : Key) : Dict.val (rebalanceDict cfg n rows) k = Dict.val (rebalanceDict cfg m rows) k := by
  rw [rebalanceDict_val, rebalanceDict_val, C06_stats_batch_size_independent cfg n m hn hm rows]

end SynRBL
