import SynRBLModel.Proofs.Pipeline4
import SynRBLModel.Proofs.Batching
import SynRBLModel.Properties.C07
/-!
# C01 — a reaction reported as solved is balanced in every element and in charge
-/
namespace SynRBL
open Str

/-- **C01 (row machine, every oracle).** Whatever the kernel answers — which search condition won, what was merged,
which reagent template was proposed, which confidence was predicted, whether anything timed out or failed — a row
that ends `solved` carries a reaction whose two sides the comparator calls `Balance`. -/
theorem C01_solved_row_is_balanced (O : Oracle) (cfg : Config) (input : Str)
    (h : (runRow O cfg input).solved = true) :
    verdictOf O (runRow O cfg input).reaction = .balance :=
  solved_is_balanced O cfg input h

/-- the oracle's composition function is the decomposer applied to RDKit's atom lists, and RDKit names atoms by the
periodic table (`Named`, the monitored law of C07) -/
structure Faithful (O : Oracle) (T : SymTable) (pt : List (Nat × String)) (atomsOf : Str → List Atom) : Prop where
  comp : ∀ side, O.comp side = decompose T (atomsOf side)
  named : ∀ side, ∀ a ∈ atomsOf side, Named pt a

/-- **C01 (true composition).** With a faithful composition oracle and a good symbol table, a solved row's
reaction has two sides with exactly the same number of atoms of every element (hydrogens are atoms of the list)
and the same net formal charge. -/
theorem C01_solved_balanced (O : Oracle) (T : SymTable) (pt : List (Nat × String)) (atomsOf : Str → List Atom)
    (hT : tableOK T pt = true) (hF : Faithful O T pt atomsOf) (cfg : Config) (input : Str)
    (h : (runRow O cfg input).solved = true) :
    ∃ lhs rhs, sidesOf (runRow O cfg input).reaction = some (lhs, rhs) ∧
      (∀ z s, pt.lookup z = some s →
        ((atomsOf lhs).filter fun a => a.z == z).length = ((atomsOf rhs).filter fun a => a.z == z).length) ∧
      totalCharge (atomsOf lhs) = totalCharge (atomsOf rhs) := by
  obtain ⟨a, b, hs, hc⟩ := verdictOf_balance_sides O _ (solved_is_balanced O cfg input h)
  refine ⟨a, b, hs, ?_⟩
  rw [hF.comp a, hF.comp b] at hc
  exact (C07_balance_iff_true_composition T pt hT _ _ (hF.named a) (hF.named b)).1 hc

/-- **C01 (batches, any batch size).** Every solved row returned by `rebalance` is balanced; malformed rows are never
solved. -/
theorem C01_rebalance (cfg : Config) (n : Nat) (hn : 1 ≤ n) (rows : List InRow) :
    ∀ r ∈ (rebalance cfg n rows).1, r.solved = true →
      ∃ s O, InRow.valid s O ∈ rows ∧ r = runRow O cfg s ∧ verdictOf O r.reaction = .balance := by
  rw [rebalance_eq cfg n hn]
  intro r hr hs
  obtain ⟨x, hx, rfl⟩ := List.mem_map.1 hr
  cases x with
  | valid s O => exact ⟨s, O, hx, rfl, solved_is_balanced O cfg s hs⟩
  | invalid raw => simp [runIn] at hs

/-! ### non-vacuity: a concrete oracle and input for which the hypotheses hold and a row is solved -/
def exOracle : Oracle where
  comp := fun s => if s = str "C" then [("C", 1), ("H", 4)] else if s = str "CC" then [("C", 2), ("H", 6)] else []
  carbonCnt := fun s => if s = str "C" then 1 else if s = str "CC" then 2 else 0
  searchFound := false
  searchIssue := []
  mergeErr := none
  stdErr := none
  merged := []
  mergeRules := []
  curate := fun _ => none
  conf := 0

def exCfg : Config := ⟨[], [], 0⟩

example : (runRow exOracle exCfg (str "C>>C")).solved = true := by decide +kernel
example : (runRow exOracle exCfg (str "CC>>C")).solved = false ∧
    (runRow exOracle exCfg (str "CC>>C")).reaction = str "CC>>C" := by decide +kernel

end SynRBL
