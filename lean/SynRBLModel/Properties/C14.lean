import SynRBLModel.Proofs.Spelling
import SynRBLModel.Proofs.Spelling2
import SynRBLModel.Proofs.Decompose
/-!
# C14 — composition-determined outcomes ignore how the SMILES is written
-/
namespace SynRBL
open Dict Str

theorem perm_sum_int {l l' : List Int} (h : l.Perm l') : l.sum = l'.sum := by
  induction h with
  | nil => rfl
  | cons x _ ih => simp [ih]
  | swap x y l => simp only [List.sum_cons]; omega
  | trans _ _ ih1 ih2 => rw [ih1, ih2]

/-- **C14 (atom order).** Any reordering of the atoms of a side (another atom numbering, another order of the
molecules within the side, a kekulised or aromatic spelling with the same atoms) gives an equivalent composition
dictionary: same keys, same values; only the key order may differ. -/
theorem C14_composition_ignores_atom_order (T : SymTable) (atoms atoms' : List Atom) (h : atoms.Perm atoms') :
    DictEquiv (decompose T atoms) (decompose T atoms') := by
  have hv : ∀ k, (decompose T atoms).val k = (decompose T atoms').val k := by
    intro k
    rw [decompose_val, decompose_val]
    have hc : totalCharge atoms = totalCharge atoms' := by
      unfold totalCharge; exact perm_sum_int (h.map _)
    have hs : symCount T k atoms = symCount T k atoms' := by
      unfold symCount; exact (h.filter _).length_eq
    rw [hc, hs]
  intro k
  refine ⟨?_, hv k⟩
  have a := Dict.contains_iff_val_ne_zero _ (decompose_wf T atoms) (decompose_noZero T atoms) k
  have b := Dict.contains_iff_val_ne_zero _ (decompose_wf T atoms') (decompose_noZero T atoms') k
  rw [hv k] at a
  cases h1 : (decompose T atoms).contains k <;> cases h2 : (decompose T atoms').contains k <;> simp_all

/-- **C14 (verdict).** The side-comparison verdict depends only on keys and values of the two compositions. -/
theorem C14_comparator_ignores_key_order (r r' p p' : Dict) (hr : DictEquiv r r') (hp : DictEquiv p p') :
    compareDicts r p = compareDicts r' p' :=
  compareDicts_equiv hr hp

/-- **C14 (input-balanced).** Two spellings of one reaction (side-wise equivalent compositions, equal carbon
label) are either both labelled input-balanced or neither — for every oracle; and then both are returned unchanged
(C04). -/
theorem C14_input_balanced_spelling_independent (O : Oracle) (cfg : Config) (s s' : Str) (h : SameReaction O s s') :
    ((runRow O cfg s).solvedBy = some .input ↔ (runRow O cfg s').solvedBy = some .input) :=
  input_balanced_spelling_independent O cfg s s' h

/-- **C14 (rule-based completion).** For every rule database: the verdict after the both-side fix and the water
step, the number of inserted waters and the list of compounds the solver appends are the same for any two key orders of
the same side compositions. (Atom order reaches the rule-based stage only through the key order of the composition
dictionaries; the remaining spelling-sensitive steps are the explicit marker tests on the reactant string.) -/
theorem C14_rule_based_completion_ignores_key_order (rules : List Rule) (r r' p p' : Dict)
    (hr : r.WF) (hr' : r'.WF) (hp : p.WF) (hp' : p'.WF) (er : DictEquiv r r') (ep : DictEquiv p p') :
    imputeTokens rules (analyse r p).formula = imputeTokens rules (analyse r' p').formula ∧
    (analyse r p).verdict = (analyse r' p').verdict ∧ (analyse r p).waters = (analyse r' p').waters :=
  rule_based_completion_ignores_key_order rules r r' p p' hr hr' hp hp' er ep

/-- the same, stated on atom lists: any renumbering / reordering of the atoms of either side -/
theorem C14_rule_based_completion_ignores_atom_order (rules : List Rule) (T : SymTable)
    (ra ra' pa pa' : List Atom) (h1 : ra.Perm ra') (h2 : pa.Perm pa') :
    imputeTokens rules (analyse (decompose T ra) (decompose T pa)).formula =
      imputeTokens rules (analyse (decompose T ra') (decompose T pa')).formula ∧
    (analyse (decompose T ra) (decompose T pa)).verdict = (analyse (decompose T ra') (decompose T pa')).verdict ∧
    (analyse (decompose T ra) (decompose T pa)).waters = (analyse (decompose T ra') (decompose T pa')).waters :=
  rule_based_completion_ignores_key_order rules _ _ _ _ (decompose_wf T ra) (decompose_wf T ra')
    (decompose_wf T pa) (decompose_wf T pa') (C14_composition_ignores_atom_order T ra ra' h1)
    (C14_composition_ignores_atom_order T pa pa' h2)

example : DictEquiv (decompose ⟨[], none⟩ [⟨6, "C", 0⟩, ⟨1, "H", 0⟩, ⟨8, "O", -1⟩])
    (decompose ⟨[], none⟩ [⟨8, "O", -1⟩, ⟨6, "C", 0⟩, ⟨1, "H", 0⟩]) :=
  C14_composition_ignores_atom_order _ _ _ (by decide)

end SynRBL
