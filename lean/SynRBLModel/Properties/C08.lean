import SynRBLModel.Proofs.Matcher
import SynRBLModel.Proofs.MatcherFuel
import SynRBLModel.Proofs.Decompose
import SynRBLModel.Model.RuleBased
import SynRBLModel.Model.RuleDB
import SynRBLModel.Generated.RulesManager
import SynRBLModel.Generated.AutomatedRules
import SynRBLModel.Generated.BanLists
import SynRBLModel.Generated.AtomicSymbols
/-!
# C08 — rule-based completions add up exactly to the imbalance they are asked to fill
-/
namespace SynRBL
open Dict

/-- **C08 (sum).** For every rule database that passes `goodDB` and every imbalance dictionary, each completion
returned by `SyntheticRuleMatcher(..., select="all", ranking="ion_priority").match()` uses only database
compounds, each with multiplicity ≥ 1, and the multiplicity-weighted sum of their recorded compositions equals
the imbalance at every key — every element and the charge `Q`. -/
theorem C08_solutions_sum (db : List Rule) (hdb : goodDB db = true) (imbalance : Dict) (hd : imbalance.WF) :
    ∀ sol ∈ matchAll db imbalance,
      (∀ st ∈ sol, st.rule ∈ db ∧ 1 ≤ st.ratio) ∧
      ∀ k, (sol.map fun st => (st.ratio : Int) * st.rule.comp.val k).sum = imbalance.val k := by
  intro sol hsol
  have := matchAll_sound db hdb imbalance hd sol hsol
  exact ⟨this.1, fun k => by simpa [pathVal] using this.2 k⟩

/-- **C08 (termination / the fuel is irrelevant).** The Python search has no recursion bound; on a good database it
terminates: every fuel above the number of atoms of the imbalance gives the same result, so the model's fuelled search
*is* the unbounded search, and no completion is longer than the number of atoms it has to supply. (For a rule with a
zero or negative count, or with only a charge key, this fails — `zeroRule_never_stabilises`, `ratioOf_onlyQ` — and the
real code recurses forever or raises; hence the `goodDB` table obligations.) -/
theorem C08_search_terminates (db : List Rule) (hdb : goodDB db = true) (imbalance : Dict) (hd : imbalance.WF) :
    (∀ F, elemWeight (prepData imbalance) + 1 ≤ F →
      matchAll db imbalance = rank (dedup (dfs (sortRules db) F (prepData imbalance) []))) ∧
    (∀ sol ∈ matchAll db imbalance, sol.length ≤ elemWeight (prepData imbalance)) :=
  ⟨matchAll_fuel_adequate db hdb imbalance hd, matchAll_depth_bound db hdb imbalance hd⟩

/-- what `single_impute` appends is the chosen completion written out: each compound `ratio` times -/
theorem C08_appended_tokens (db : List Rule) (diff : Dict) (toks : List String)
    (h : imputeTokens db diff = some toks) :
    ∃ sol ∈ matchAll db diff, toks = sol.flatMap fun st => List.replicate st.ratio st.rule.smiles := by
  unfold imputeTokens at h
  split at h
  · cases h
  · rename_i s t hs
    split at h
    · cases h
      exact ⟨s, by rw [hs]; exact List.mem_cons_self .., rfl⟩
    · cases h

/-- agreement of two dictionaries as functions `Key → Int`, checked on the keys of both -/
def compAgree (a b : Dict) : Bool :=
  a.keys.all (fun k => a.val k == b.val k) && b.keys.all (fun k => a.val k == b.val k)

theorem compAgree_val (a b : Dict) (h : compAgree a b = true) (k : Key) : a.val k = b.val k := by
  simp only [compAgree, Bool.and_eq_true, List.all_eq_true, beq_iff_eq] at h
  by_cases ha : k ∈ a.keys
  · exact h.1 k ha
  · by_cases hb : k ∈ b.keys
    · exact h.2 k hb
    · rw [val_not_mem a k ha, val_not_mem b k hb]

/-- a shipped record is sound: its SMILES parses and the recorded composition is the composition the decomposer
derives from RDKit's atom list of that SMILES (hence, by C07, the true one) -/
def recordOK (t : SymTable) (r : DBRecord) : Bool :=
  r.parses && compAgree (decompose t r.atoms) r.rule.comp

def symTable : SymTable := ⟨Generated.atomicSymbols, Generated.symbolFallback⟩

/-- is this composition an elemental dihalogen / interhalogen (two halogen atoms, no charge)? -/
def isDihalogen (hal : List String) (c : Dict) : Bool :=
  c.all (fun kv => kv.1 == "Q" && kv.2 == 0 || hal.contains kv.1 && decide (0 < kv.2)) &&
    ((c.filter fun kv => kv.1 != "Q").map (·.2)).sum == 2

/-- **Table obligations** (re-elaborated against the current JSON files on every run). -/
theorem C08_rulesManager_good : goodDB Generated.rulesManager = true := by decide +kernel
theorem C08_automatedRules_good : goodDB Generated.automatedRules = true := by decide +kernel
theorem C08_rulesManager_recorded_is_derived :
    Generated.rulesManagerRecords.all (recordOK symTable) = true := by decide +kernel
theorem C08_automatedRules_recorded_is_derived :
    Generated.automatedRulesRecords.all (recordOK symTable) = true := by decide +kernel
/-- every dihalogen / interhalogen of either database is spelled exactly like an entry of the ban list -/
theorem C08_dihalogens_banned :
    (Generated.rulesManager ++ Generated.automatedRules).all
      (fun r => !isDihalogen Generated.halogens r.comp || Generated.banList.contains r.smiles) = true := by
  decide +kernel

/-- **C08 (ban).** A completion is accepted (`certain`) only if no banned spelling occurs anywhere in the
product side of the new reaction. Together with `C08_dihalogens_banned` and `C08_solutions_sum` (completions use
database compounds only) no accepted completion adds a dihalogen or interhalogen to the products. -/
theorem C08_accepted_has_no_banned_substring (ban : List Str) (e : Entry) (h : (constraintFit ban e).2 = true) :
    ∀ b ∈ ban, Str.hasInfix b (modify e).2 = false := by
  intro b hb
  unfold constraintFit certain at h
  simp only [Bool.and_eq_true, Bool.not_eq_true', List.any_eq_false] at h
  have := h.1 b hb
  simpa using this

/-! ### non-vacuity -/
example : imputeTokens Generated.rulesManager [("H", 2), ("O", 1)] = some ["O"] := by decide +kernel
example : (matchAll Generated.rulesManager [("Na", 1), ("Cl", 1)]).map (·.map stepKey)
    = [[("[Na+]", 1), ("[Cl-]", 1)]] := by decide +kernel

end SynRBL
