import SynRBLModel.Proofs.Merge
import SynRBLModel.Generated.MergeRules
/-!
# C09 — fragment merging conserves atoms and its reported rules explain the result

Model: `Model/Graph.lean` (molecules as atom / bond lists, `mergeTwo`) and `Model/Merge.lean` (`merge(CompoundSet)` with the
rule tables of `Generated/MergeRules.lean`).  Everything RDKit / fgutils decide is an `Oracle`; the two laws the theorems
use (`Oracle.Laws`: sanitisation keeps the atom symbols in place, re-parsing a canonical SMILES keeps the atom counts) are
monitored by `harness/props/C09.py` on every recorded answer.
-/
namespace SynRBL
open Mol

/-! ## `merge_two_mols` + `_fix_Hs` on graphs -/

/-- forget the explicit-hydrogen count -/
def Mol.Atom.eraseH (x : Atom) : Atom := { x with explicitH := 0 }

/-- **C09 (atoms and bonds of a merged molecule).** The merged molecule has the atoms of the first molecule followed by
the atoms of the second one — identical except for the explicit-H count of the two bonded atoms —, the bonds of the
first, the bonds of the second with both ends offset by `|a|`, and (for a rule with a bond) the new bond
`(i, |a| + j, order)` last. -/
theorem C09_mergeTwo_atoms (a b : Graph) (i j : Nat) (o : Option Nat) :
    (mergeTwo a b i j o).atoms.map Atom.eraseH = (a.atoms ++ b.atoms).map Atom.eraseH ∧
    (∀ k, k ≠ i → k ≠ a.n + j → (mergeTwo a b i j o).atoms[k]? = (a.atoms ++ b.atoms)[k]?) ∧
    (mergeTwo a b i j o).bonds =
      a.bonds ++ b.bonds.map (shiftBond a.n) ++ (match o with | none => [] | some o => [⟨i, a.n + j, o⟩]) := by
  refine ⟨mergeTwo_map a b i j o Atom.eraseH ?_, mergeTwo_getElem? a b i j o, ?_⟩
  · intro n x; unfold fixH Atom.eraseH; split <;> rfl
  · cases o with
    | none => simp [mergeTwo_bonds_none]
    | some o => exact mergeTwo_bonds_some a b i j o

/-- **C09 (explicit hydrogens).** With a bond of order `o` the two bonded atoms lose `o` explicit hydrogens each — only if
they had any, never below zero; without a bond nothing changes. -/
theorem C09_mergeTwo_explicitH (a b : Graph) (i j o : Nat) :
    (mergeTwo a b i j (some o)).atoms = a.atoms.modify i (fixH o) ++ b.atoms.modify j (fixH o) ∧
    (mergeTwo a b i j none).atoms = a.atoms ++ b.atoms ∧
    ∀ x : Atom, (fixH o x).explicitH = x.explicitH - o ∧ (fixH o x).sym = x.sym ∧ (fixH o x).charge = x.charge :=
  ⟨rfl, rfl, fun x => ⟨fixH_explicitH o x, fixH_sym o x, fixH_charge o x⟩⟩

/-- **C09 (counts of any symbol are additive)** -/
theorem C09_count_additive (p : String → Bool) (a b : Graph) (i j : Nat) (o : Option Nat) :
    cntP p (mergeTwo a b i j o) = cntP p a + cntP p b := cntP_mergeTwo p a b i j o

theorem C09_heavy_additive (a b : Graph) (i j : Nat) (o : Option Nat) :
    heavy (mergeTwo a b i j o) = heavy a + heavy b := cntP_mergeTwo _ a b i j o

theorem C09_carbon_additive (a b : Graph) (i j : Nat) (o : Option Nat) :
    carbons (mergeTwo a b i j o) = carbons a + carbons b := cntP_mergeTwo _ a b i j o

/-! ## cut, then merge -/

/-- **C09 (round trip on graphs, connectivity).** Take a molecule in glued normal form — side `a`, side `b`, the bridge
bond `(i, |a| + j)` last.  Whatever hydrogen bookkeeping the cut and the SMILES round trip of the fragments applied
(`a'`, `b'` are the fragments as handed to the merge: same atoms up to explicit-H count / NoImplicit flag, same bonds),
merging them with a single bond at the boundary atoms restores atoms (symbols, charges, aromatic flags, order), all bonds
and the bond order of the molecule.  (The hydrogen count of the result is then RDKit's valence model, checked on the real
code by the canonical-SMILES comparison of `harness/props/C09.py`.) -/
theorem C09_cut_merge_roundtrip_connectivity (a b a' b' : Graph) (i j : Nat)
    (haa : a'.atoms.map Atom.core = a.atoms.map Atom.core) (hab : a'.bonds = a.bonds)
    (hba : b'.atoms.map Atom.core = b.atoms.map Atom.core) (hbb : b'.bonds = b.bonds) :
    (mergeTwo a' b' i j (some 1)).atoms.map Atom.core = (glue a b i j 1).atoms.map Atom.core ∧
    (mergeTwo a' b' i j (some 1)).bonds = (glue a b i j 1).bonds := by
  have hn : a'.n = a.n := by simpa [Graph.n] using congrArg List.length haa
  refine ⟨?_, ?_⟩
  · rw [mergeTwo_map a' b' i j (some 1) Atom.core (by intro n x; unfold fixH Atom.core; split <;> rfl)]
    simp [glue, Graph.addBond, haa, hba]
  · rw [mergeTwo_bonds_some, hab, hbb, hn]; simp [glue, Graph.addBond]

/-- **C09 (round trip on graphs, exact).** If in addition the hydrogen caps are well-behaved (`hOK`: the cap of a cut atom
is an explicit hydrogen, or the atom has no explicit hydrogens at all), cutting the glued molecule and merging the two
capped fragments at the recorded boundary atoms gives back *exactly* the molecule, explicit-H counts included: `_fix_Hs`
undoes the cap. -/
theorem C09_cut_merge_roundtrip (a b : Graph) (i j : Nat) (ea eb : Bool) (hwa : a.wf = true)
    (ha : ∀ x, a.atoms[i]? = some x → hOK ea x = true) (hb : ∀ x, b.atoms[j]? = some x → hOK eb x = true) :
    ∃ fa fb i' j', cutGlued (glue a b i j 1) a.n ea eb = some ((fa, i'), (fb, j')) ∧
      mergeTwo fa fb i' j' (some 1) = glue a b i j 1 :=
  ⟨cutSide a i ea, cutSide b j eb, i, j, cutGlued_glue a b i j 1 ea eb hwa, mergeTwo_cutSide a b i j ea eb ha hb⟩

/-- without the hydrogen hypothesis the exact round trip fails: an atom that keeps an explicit hydrogen while its cap is
implicit loses that hydrogen in the merge (`_fix_Hs` cannot tell a cap from a hydrogen that was always there) -/
theorem C09_witness_roundtrip_needs_hOK :
    ¬ ∀ (a b : Graph) (i j : Nat) (ea eb : Bool),
        mergeTwo (cutSide a i ea) (cutSide b j eb) i j (some 1) = glue a b i j 1 := by
  intro h
  have := h ⟨[⟨"C", 0, 1, false, false⟩], []⟩ ⟨[⟨"C", 0, 0, false, false⟩], []⟩ 0 0 false false
  revert this
  decide

/-- **C09 (round trip through `_merge_two_compounds`).** Two compounds that hold the capped sides of a bridge bond with
one boundary each, a first applicable rule that is a plain single-bond rule in the direct orientation (the shipped
`default single bond`), and a sanitisation that leaves the molecule alone: the result is the glued molecule, no
boundary is left, and the reported rules are those of the two compounds plus that rule. -/
theorem C09_cut_merge_roundtrip_flow (orc : Oracle) (tbl : Tables) (c1 c2 : Compound) (a b : Graph) (i j : Nat)
    (ea eb : Bool) (b1 b2 : Boundary) (ri : Nat) (r : MergeRule)
    (hg1 : c1.g = cutSide a i ea) (hb1 : c1.boundaries = [b1]) (hi1 : b1.index = i) (hi : i < a.n)
    (hg2 : c2.g = cutSide b j eb) (hb2 : c2.boundaries = [b2]) (hi2 : b2.index = j) (hj : j < b.n)
    (ha : ∀ x, a.atoms[i]? = some x → hOK ea x = true) (hb : ∀ x, b.atoms[j]? = some x → hOK eb x = true)
    (hfirst : firstMergeRule orc tbl.merge c1 b1 c2 b2 = some (ri, r))
    (hdirect : r.direct orc c1 b1 c2 b2 = some true)
    (hact1 : r.action1 = []) (hact2 : r.action2 = []) (hbond : r.bond = some "single")
    (hsan : orc.sanitize (glue a b i j 1) = some (glue a b i j 1)) :
    mergeTwoCompounds orc tbl c1 c2 =
      .ok { c1 with g := glue a b i j 1, boundaries := [], rules := c1.rules ++ c2.rules ++ [RuleRef.merge ri] } := by
  have hn1 : (cutSide a i ea).n = a.n := by simp [cutSide]
  have hn2 : (cutSide b j eb).n = b.n := by simp [cutSide]
  simp [mergeTwoCompounds, hb1, hb2, mergeBoundaries, hfirst, MergeRule.apply, hdirect, MergeRule.applyOriented,
    hact1, hact2, applyActions, hbond, parseBond, hg1, hg2, hi1, hi2, hn1, hn2, hi, hj,
    mergeTwo_cutSide a b i j ea eb ha hb, hsan, bind, Except.bind, pure, Except.pure, Except.map]

/-! ## the whole `merge` -/

/-- **C09 (no open attachment point).** Whatever `merge` returns has no boundary left. -/
theorem C09_merge_closes (orc : Oracle) (hl : orc.Laws) (tbl : Tables) (cs : List Compound) (r : Compound)
    (h : merge orc tbl cs = .ok r) : r.boundaries = [] := by
  obtain ⟨_, _, _, _, hb⟩ := merge_spec orc hl tbl (fun _ => false) (fun _ => 0) (by simp) (by simp [cntP]) cs r h
  exact hb

/-- **C09 (the completion loop terminates).** `len(boundaries)` turns are enough for `_merge_one_compound`. -/
theorem C09_expansion_terminates (orc : Oracle) (hl : orc.Laws) (tbl : Tables) (k : Nat) (c : Compound) :
    mergeOne orc tbl c.boundaries.length k c ≠ .error .outOfFuel :=
  mergeOne_fuel orc hl tbl _ k c (Nat.le_refl _)

/-- **C09 (completion of an open fragment).** If no rule of the table can fire with an expansion compound in role 1
(`noSwapOnExpansion`, a decidable condition on the generated table), then `_merge_one_compound` returns *the input
compound* (same identity, still a member of the set), every turn took exactly one boundary off it, and the rules it
reports are the input's rules followed by one (expand rule, merge rule) pair per completed boundary — at most one per
boundary. -/
theorem C09_expansion_keeps_compound (orc : Oracle) (hl : orc.Laws) (tbl : Tables)
    (hns : noSwapOnExpansion tbl = true) (k : Nat) (c : Compound) (k' : Nat) (m : Compound)
    (h : mergeOne orc tbl c.boundaries.length k c = .ok (k', m)) :
    m.boundaries = [] ∧ m.cid = c.cid ∧ m.inSet = c.inSet ∧
      ∃ steps : List (Nat × Nat), m.rules = c.rules ++ stepRules steps ∧ steps.length ≤ c.boundaries.length ∧
        ∀ p, cntP p m.g = cntP p c.g + (steps.map fun s => cntP p (tbl.expand.getD s.1 default).g).sum := by
  obtain ⟨h1, h2, -, -, steps, h5, -, h7⟩ := mergeOne_noSwap orc hl tbl hns _ _ _ _ _ h
  refine ⟨(mergeOne_spec orc hl tbl (fun _ => false) (fun _ => 0) (by simp) (by simp [cntP]) _ _ _ _ _ h).2, h1, h2,
    steps, h5, h7, fun p => ?_⟩
  have hphi := (mergeOne_spec orc hl tbl p (fun r => (explOf p tbl r : Int)) (by simp [explOf]) (by simp [explOf])
    _ _ _ _ _ h).1
  simp only [Phi, W_cast, h5] at hphi
  rw [expl_append, expl_stepRules] at hphi
  omega

/-- the table obligation of `C09_expansion_keeps_compound` cannot be dropped: with a rule whose first condition accepts
the expansion compound (`O`) but not the open atom, `MergeRule.apply` swaps the roles, the loop continues with the
one-atom expansion compound and the second boundary of the fragment is silently forgotten -/
theorem C09_witness_swap_drops_boundaries :
    ∃ (tbl : Tables) (orc : Oracle) (c m : Compound) (k' : Nat),
      mergeOne orc tbl c.boundaries.length 0 c = .ok (k', m) ∧ c.boundaries.length = 2 ∧ m.cid ≠ c.cid ∧
        m.rules = [RuleRef.expand 0, RuleRef.merge 0] :=
  ⟨⟨[{ name := "O first", cond1 := { atom := { pos := ["O"] } }, bond := some "single" }],
     [{ name := "add O", smiles := "O", index := 0, g := ⟨[⟨"O", 0, 0, false, false⟩], []⟩ }], []⟩,
   ⟨fun _ _ _ => false, fun _ _ _ => false, fun _ _ _ => false, fun _ _ _ => none, fun _ _ => none, some,
     fun _ => false, fun _ _ => false, fun _ _ => false, fun _ _ _ _ => none⟩,
   { cid := 0, g := ⟨[⟨"C", 0, 0, false, false⟩], []⟩, boundaries := [⟨0, "C", none, none⟩, ⟨0, "C", none, none⟩] },
   { cid := 1000, g := ⟨[⟨"O", 0, 0, false, false⟩, ⟨"C", 0, 0, false, false⟩], [⟨0, 1, 1⟩]⟩, hasSrc := false,
     boundaries := [], rules := [RuleRef.expand 0, RuleRef.merge 0], active := true, inSet := false },
   1, by decide⟩

/-- **C09 (the reported rules explain the result).** For every predicate on atom symbols — heavy atoms, carbons, any
single element —: the merged compound has the atoms of the active compounds of the set plus, for every *reported* expand
rule, the atoms of that rule's compound; nothing else appears and nothing is lost.  (`cs'` is the set after the compound
rules ran: same molecules, inactive ones flagged.) -/
theorem C09_rules_explain (orc : Oracle) (hl : orc.Laws) (tbl : Tables) (p : String → Bool) (cs : List Compound)
    (r : Compound) (h0 : ∀ c ∈ cs, c.rules = []) (h : merge orc tbl cs = .ok r) :
    ∃ cs', updateAll orc tbl.compound [] cs = .ok cs' ∧ cs'.map (·.g) = cs.map (·.g) ∧
      cntP p r.g = ((cs'.filter (·.active)).map fun c => cntP p c.g).sum + expl p tbl r.rules := by
  obtain ⟨cs', hu, hf, hphi, -⟩ :=
    merge_spec orc hl tbl p (fun r => (explOf p tbl r : Int)) (by simp [explOf]) (by simp [explOf]) cs r h
  refine ⟨cs', hu, (Forall2.map_eq (·.g) (·.g) (fun a b hab => hab.1.symm) hf).symm, ?_⟩
  have hw : ∀ c' ∈ cs', W (fun r => (explOf p tbl r : Int)) c'.rules = 0 := by
    intro c' hc'
    obtain ⟨c, hc, -, -, hr⟩ := hf.exists_left c' hc'
    rcases hr with ⟨hr, -⟩ | ⟨i, _, -, hr, -⟩
    · rw [hr, h0 c hc]; rfl
    · rw [hr, h0 c hc]; rfl
  have h1 : ((cs'.filter (·.active)).map (Phi p fun r => (explOf p tbl r : Int))).sum =
      ((cs'.filter (·.active)).map fun c => (cntP p c.g : Int)).sum := by
    congr 1
    apply List.map_congr_left
    intro c hc
    simp [Phi, hw c (List.mem_filter.1 hc).1]
  have h2 : ((cs'.filter fun c => !c.active).map fun c => W (fun r => (explOf p tbl r : Int)) c.rules).sum = 0 := by
    have : ((cs'.filter fun c => !c.active).map fun c => W (fun r => (explOf p tbl r : Int)) c.rules) =
        (cs'.filter fun c => !c.active).map fun _ => (0 : Int) := by
      apply List.map_congr_left
      intro c hc
      exact hw c (List.mem_filter.1 hc).1
    rw [this, sum_map_zero]
  rw [h1, h2] at hphi
  simp only [Phi, W_cast] at hphi
  have := sum_cast (fun c : Compound => cntP p c.g) (cs'.filter (·.active))
  omega

/-- no expansion compound contains carbon -/
def expansionsCarbonFree (tbl : Tables) : Bool := tbl.expand.all fun e => carbons e.g == 0

/-- **C09 (carbon count).** If no expansion compound contains carbon (a decidable condition on the generated table), the
merged compound has exactly the carbon atoms of the active compounds of the set. -/
theorem C09_carbon_conserved (orc : Oracle) (hl : orc.Laws) (tbl : Tables) (htab : expansionsCarbonFree tbl = true)
    (cs : List Compound) (r : Compound) (h0 : ∀ c ∈ cs, c.rules = []) (h : merge orc tbl cs = .ok r) :
    ∃ cs', updateAll orc tbl.compound [] cs = .ok cs' ∧ cs'.map (·.g) = cs.map (·.g) ∧
      carbons r.g = ((cs'.filter (·.active)).map fun c => carbons c.g).sum := by
  obtain ⟨cs', hu, hg, hc⟩ := C09_rules_explain orc hl tbl (· == "C") cs r h0 h
  refine ⟨cs', hu, hg, ?_⟩
  have hz : ∀ rs : List RuleRef, expl (· == "C") tbl rs = 0 := by
    intro rs
    induction rs with
    | nil => rfl
    | cons x xs ih =>
      have hx : explOf (· == "C") tbl x = 0 := by
        cases x with
        | expand i =>
          simp only [explOf]
          cases hi : tbl.expand[i]? with
          | none =>
            simp [List.getD_eq_getElem?_getD, hi, cntP]
            intro a ha; rw [default_expand_atoms] at ha; cases ha
          | some e =>
            have := List.all_eq_true.1 htab e (List.mem_of_getElem? hi)
            simp [List.getD_eq_getElem?_getD, hi]
            simpa [carbons] using this
        | merge i => rfl
        | compound i => rfl
      simp only [expl, List.map_cons, List.sum_cons] at ih ⊢
      rw [hx, ih]
  rw [hz] at hc
  simpa [carbons] using hc

/-- **C09 (inactive compounds are exactly the reported removals).** Starting from active compounds without rules, the
number of reported rules that deactivate a compound (`remove_water_catalyst`) equals the number of compounds of the set
that were put aside — whose atoms, by `C09_rules_explain`, are not in the result. -/
theorem C09_inactive_reported (orc : Oracle) (hl : orc.Laws) (tbl : Tables) (cs : List Compound) (r : Compound)
    (h0 : ∀ c ∈ cs, c.rules = [] ∧ c.active = true) (h : merge orc tbl cs = .ok r) :
    ∃ cs', updateAll orc tbl.compound [] cs = .ok cs' ∧
      r.rules.countP (removalRef tbl) = (cs'.filter fun c => !c.active).length := by
  obtain ⟨cs', hu, hf, hphi, -⟩ := merge_spec orc hl tbl (fun _ => false)
    (fun r => if removalRef tbl r then 1 else 0) (by simp [removalRef]) (by simp [removalRef, cntP]) cs r h
  refine ⟨cs', hu, ?_⟩
  have hw : ∀ c' ∈ cs', W (fun r => if removalRef tbl r then (1 : Int) else 0) c'.rules = if !c'.active then 1 else 0 := by
    intro c' hc'
    obtain ⟨c, hc, -, -, hr⟩ := hf.exists_left c' hc'
    obtain ⟨hr0, ha0⟩ := h0 c hc
    rcases hr with ⟨hr, ha⟩ | ⟨i, ru, hi, hr, ha⟩
    · rw [hr, hr0, ha, ha0]; rfl
    · rw [hr, hr0, ha, ha0]
      simp [removalRef, hi]
  have hzero : ∀ c : Compound, (cntP (fun _ => false) c.g : Int) = 0 := by intro c; simp [cntP]
  have h1 : ((cs'.filter (·.active)).map (Phi (fun _ => false) fun r => if removalRef tbl r then (1 : Int) else 0)).sum = 0 := by
    have : ((cs'.filter (·.active)).map (Phi (fun _ => false) fun r => if removalRef tbl r then (1 : Int) else 0)) =
        (cs'.filter (·.active)).map fun _ => (0 : Int) := by
      apply List.map_congr_left
      intro c hc
      have hm := List.mem_filter.1 hc
      simp [Phi, hzero, hw c hm.1, hm.2]
    rw [this, sum_map_zero]
  have h2 : ((cs'.filter fun c => !c.active).map fun c => W (fun r => if removalRef tbl r then (1 : Int) else 0) c.rules).sum =
      ((cs'.filter fun c => !c.active).length : Int) := by
    have : ((cs'.filter fun c => !c.active).map fun c => W (fun r => if removalRef tbl r then (1 : Int) else 0) c.rules) =
        (cs'.filter fun c => !c.active).map fun _ => (1 : Int) := by
      apply List.map_congr_left
      intro c hc
      have hm := List.mem_filter.1 hc
      rw [hw c hm.1]; simp at hm; simp [hm.2]
    rw [this, sum_map_one]
  rw [h1, h2] at hphi
  simp only [Phi, hzero, W_indicator] at hphi
  omega

/-! ## obligations on the generated tables -/

/-- no shipped rule can fire with the expansion compound in role 1 (hypothesis of `C09_expansion_keeps_compound`) -/
theorem C09_table_noSwapOnExpansion : noSwapOnExpansion Generated.mergeTables = true := by decide +kernel

/-- every expansion compound is a single atom which carries the boundary (index 0): a completed boundary adds exactly
one heavy atom -/
def expansionsSingleAtom (tbl : Tables) : Bool :=
  tbl.expand.all fun e => e.index == 0 && e.g.atoms.length == 1 && e.g.bonds.isEmpty && heavy e.g == 1 && carbons e.g == 0

theorem C09_table_expansions_single_atom : expansionsSingleAtom Generated.mergeTables = true := by decide +kernel

/-- hypothesis of `C09_carbon_conserved` on the shipped table -/
theorem C09_table_expansions_carbon_free : expansionsCarbonFree Generated.mergeTables = true := by decide +kernel

/-- every `bond` is one `parse_bond_type` knows (`MergeRule.apply` cannot raise `NotImplementedError`) -/
def bondsKnown (tbl : Tables) : Bool := tbl.merge.all fun r => (parseBond r.bond).toOption.isSome

theorem C09_table_bonds_known : bondsKnown Generated.mergeTables = true := by decide +kernel

/-- the last merge rule has no condition: `merge_boundaries` never returns `None` -/
def catchAllLast (tbl : Tables) : Bool :=
  match tbl.merge.getLast? with
  | some r => r.cond1 == {} && r.cond2 == {} && r.bond == some "single" && r.action1.isEmpty && r.action2.isEmpty
  | none => false

theorem C09_table_catch_all_last : catchAllLast Generated.mergeTables = true := by decide +kernel

/-- the rules in front of the catch-all that leave the fragments unbonded (the documented restrictions) only look at
the two boundary symbols: which bonds are refused is readable from the table -/
def restrictionsSymbolOnly (tbl : Tables) : Bool :=
  tbl.merge.all fun r => r.bond.isSome ||
    (r.cond1.neighbor.isEmpty && r.cond1.fg.isEmpty && r.cond1.pattern.isEmpty && r.cond1.srcPattern.isEmpty &&
     r.cond2.neighbor.isEmpty && r.cond2.fg.isEmpty && r.cond2.pattern.isEmpty && r.cond2.srcPattern.isEmpty &&
     r.action1.isEmpty && r.action2.isEmpty)

theorem C09_table_restrictions_symbol_only : restrictionsSymbolOnly Generated.mergeTables = true := by decide +kernel

/-- the documented restrictions (pairs of boundary symbols whose bond is refused), as shipped and described with the
property: S–halogen, and any pair out of N, O, F, Cl, Br, I -/
def documentedRestrictions : List (String × List String × List String) :=
  [("S bond restriction", ["S"], ["F", "Cl", "Br", "I"]),
   ("bond restriction", ["N", "O", "F", "Cl", "Br", "I"], ["N", "O", "F", "Cl", "Br", "I"])]

/-- the restrictions the rule table in force contains: rules without a bond, with the symbols they list -/
def restrictionsOf (tbl : Tables) : List (String × List String × List String) :=
  (tbl.merge.filter fun r => r.bond.isNone).map fun r => (r.name, r.cond1.atom.pos, r.cond2.atom.pos)

/-- the rule table refuses exactly the documented pairs (no exclusion lists on them): a bond outside this list that is
refused is a violation of the round-trip claim, whatever the data file says -/
theorem C09_table_restrictions_documented :
    restrictionsOf Generated.mergeTables = documentedRestrictions ∧
    ((Generated.mergeTables.merge.filter fun r => r.bond.isNone).all fun r => r.cond1.atom.neg.isEmpty && r.cond2.atom.neg.isEmpty) = true := by
  decide +kernel

/-- a rule without conditions applies to every pair of boundaries, in the direct orientation -/
theorem C09_catch_all_applies (orc : Oracle) (r : MergeRule) (h1 : r.cond1 = {}) (h2 : r.cond2 = {})
    (c1 c2 : Compound) (b1 b2 : Boundary) :
    r.direct orc c1 b1 c2 b2 = some true ∧ r.canApply orc c1 b1 c2 b2 = true := by
  have e : ∀ c b, BCond.eval orc {} c b = some true := by
    intro c b; simp [BCond.eval, PropCfg.eval, PropCfg.isEmpty]
  have hd : r.direct orc c1 b1 c2 b2 = some true := by simp [MergeRule.direct, h1, h2, e, Mol.andM]
  exact ⟨hd, by simp [MergeRule.canApply, hd]⟩

/-! ## non-vacuity -/

/-- an oracle that answers "no" everywhere and sanitises to the identity -/
def plainOracle : Oracle :=
  ⟨fun _ _ _ => false, fun _ _ _ => false, fun _ _ _ => false, fun _ _ _ => none, fun _ _ => none, some,
    fun _ => false, fun _ _ => false, fun _ _ => false, fun _ _ _ _ => none⟩

theorem C09_plainOracle_laws : plainOracle.Laws :=
  ⟨fun g g' h => by cases h; rfl, fun c b g' p h => by cases h⟩

def atomC : Atom := ⟨"C", 0, 0, false, false⟩
def atomO : Atom := ⟨"O", 0, 0, false, false⟩
/-- a bracket atom: `[SiH3]` as RDKit reads it (3 explicit hydrogens, no implicit ones) -/
def atomSiH3 : Atom := ⟨"Si", 0, 3, true, false⟩

/-- ethanol cut at C–C … -/
def fragMethyl : Graph := ⟨[atomC], []⟩
def fragCH2OH : Graph := ⟨[atomC, atomO], [⟨0, 1, 1⟩]⟩

/-- … the hypotheses of the round-trip theorems hold for it and for a silane with explicit hydrogens -/
example : fragCH2OH.wf = true ∧ (0 < fragCH2OH.n) ∧ (∀ x, fragCH2OH.atoms[0]? = some x → hOK false x = true) := by decide
example : ∀ x, (⟨[atomSiH3], []⟩ : Graph).atoms[0]? = some x → hOK true x = true := by decide

/-- the explicit-hydrogen bookkeeping is exercised: `[SiH3]` is capped to `[SiH4]` by the cut and comes back as `[SiH3]` -/
example : (cutSide ⟨[atomSiH3], []⟩ 0 true).atoms = [⟨"Si", 0, 4, true, false⟩] ∧
    mergeTwo (cutSide ⟨[atomSiH3], []⟩ 0 true) (cutSide fragMethyl 0 false) 0 0 (some 1)
      = glue ⟨[atomSiH3], []⟩ fragMethyl 0 0 1 := by
  decide

/-- a small fixed table in the shape of the shipped one (the examples below must not depend on the generated table: an
edit of the JSON files is not a defect): one restriction, the catch-all, two expansions, the water-catalyst rule -/
def demoTables : Tables :=
  ⟨[{ name := "bond restriction", cond1 := { atom := { pos := ["N", "O", "Cl"] } }, cond2 := { atom := { pos := ["N", "O", "Cl"] } } },
    { name := "default single bond", bond := some "single" }],
   [{ name := "C-O Ether break", cond := { atom := { pos := ["C"] }, neighbor := { pos := ["O"] }, fg := { pos := ["ether"] } },
      smiles := "I", index := 0, g := ⟨[⟨"I", 0, 0, false, false⟩], []⟩ },
    { name := "append O to C-C bond", cond := { atom := { pos := ["C"] }, neighbor := { pos := ["C"] } },
      smiles := "O", index := 0, g := ⟨[atomO], []⟩ }],
   [{ name := "remove_water_catalyst", cond := { isCatalyst := { pos := [true] }, smiles := { pos := ["O"] } },
      actions := [.setActive false] }]⟩

example : noSwapOnExpansion demoTables = true ∧ catchAllLast demoTables = true := by decide

/-- the two halves of ethanol (C–C): the catch-all fires, ethanol comes back -/
example :
    merge plainOracle demoTables
      [{ cid := 0, g := fragCH2OH, boundaries := [⟨0, "C", some 0, some "C"⟩] },
       { cid := 1, g := fragMethyl, boundaries := [⟨0, "C", some 1, some "C"⟩] }]
    = .ok { cid := 0, g := ⟨[atomC, atomO, atomC], [⟨0, 1, 1⟩, ⟨0, 2, 1⟩]⟩, boundaries := [], rules := [.merge 1] } := by
  decide +kernel

/-- hydroxylamine cut at N–O: the restriction (rule 0) fires, nothing is bonded, the rule is reported, no boundary is left -/
example :
    merge plainOracle demoTables
      [{ cid := 0, g := ⟨[⟨"N", 0, 0, false, false⟩], []⟩, boundaries := [⟨0, "N", some 1, some "O"⟩] },
       { cid := 1, g := ⟨[atomO], []⟩, boundaries := [⟨0, "O", some 0, some "N"⟩] }]
    = .ok { cid := 0, g := ⟨[⟨"N", 0, 0, false, false⟩, atomO], []⟩, boundaries := [], rules := [.merge 0] } := by
  decide +kernel

/-- a single open methyl whose lost neighbour was a carbon: expand rule 1 (`O`), then the catch-all; one heavy atom more,
the boundary is closed — the instance of `C09_rules_explain` is 2 = 1 + 1 -/
example :
    merge plainOracle demoTables [{ cid := 0, g := fragMethyl, boundaries := [⟨0, "C", some 1, some "C"⟩] }]
      = .ok { cid := 0, g := ⟨[atomC, atomO], [⟨0, 1, 1⟩]⟩, boundaries := [], rules := [.expand 1, .merge 1] } ∧
    heavy ⟨[atomC, atomO], [⟨0, 1, 1⟩]⟩ = heavy fragMethyl + expl (· != "H") demoTables [.expand 1, .merge 1] := by
  decide +kernel

/-- a water catalyst (oracle: its SMILES is `O` and equals its source) is put aside and its rule reported first: the
instance of `C09_inactive_reported` is 1 = 1 -/
example :
    let orc : Oracle := { plainOracle with sameAsSrc := fun c => c.cid == 1, smilesIs := fun c v => c.cid == 1 && v == "O" }
    merge orc demoTables
      [{ cid := 0, g := fragMethyl, boundaries := [⟨0, "C", some 1, some "C"⟩] }, { cid := 1, g := ⟨[atomO], []⟩ }]
      = .ok { cid := 0, g := ⟨[atomC, atomO], [⟨0, 1, 1⟩]⟩, boundaries := [],
              rules := [.compound 0, .expand 1, .merge 1] } ∧
    [RuleRef.compound 0, .expand 1, .merge 1].countP (removalRef demoTables) = 1 := by
  decide +kernel

end SynRBL
