import SynRBLModel.Proofs.Standardize
import SynRBLModel.Model.StandardizeWitness
/-!
# C20 — tautomer standardisation conserves atoms and returns valid SMILES

Model: `Model/Standardize.lean` (`enolRewrite`, `hemiketalRewrite`, `run` follow
`synrbl/SynChemImputer/molecule_standardizer.py:19-159` statement by statement; fgutils' group list, the renumbering by
`MolToSmiles`/`MolFromSmiles` after every rewrite and the final `CanonSmiles` are recorded oracle answers).
Witness data: `Model/StandardizeWitness.lean` (recorded RDKit/fgutils answers, compared with the live ones on every run).

**Full-strength statement (FALSE of the current code):**
`∀ O, O.Laws → ∀ g, ∃ r, run O g = .ok r ∧ SameComp r g ∧ run O r = .ok r`
— "for every valid molecule the standardiser returns a SMILES with the same composition and charge, and is idempotent".
It fails in every conjunct: `C20_witness_enolate`, `…_alkoxy_hemiketal`, `…_index_heuristic`, `…_gem_enol`,
`…_ortho_acid`, `C20_empty_raises` (an exception escapes `__call__`), `C20_witness_enediol_loses_H2` (composition),
`C20_witness_two_enols_not_idempotent`. What *is* provable is below; every `_partial` theorem names the hypothesis that
the proof forces.
-/
namespace SynRBL
open Standardize

/-- **C20 (enol → keto conserves).** If `standardize_enol` returns a SMILES for the indices `(c1, c2, o)` and
* the three indices are distinct, C1=C2 is a double bond and C2–O a single bond (i.e. the indices the `abs(i - o_idx) == 1`
  heuristic picked really are the enol's), and
* C1 is a plain carbon and O a plain oxygen (no bracket flags: their hydrogens follow `valence − Σ bond orders`),
then every element count (hydrogens included) and the net charge are unchanged — and O carried a hydrogen: the rewrite can
succeed *only* on an O–H (forced by the valence check of sanitisation; this is the hypothesis an enolate violates). -/
theorem C20_enol_conserves (g g' : Graph) (c1 c2 o : Nat) (h : enolEdit g c1 c2 o = .smiles g')
    (hyp : enolHypB g c1 c2 o = true) : SameComp g' g ∧ 1 ≤ g.hCount o :=
  ⟨enol_conserves g g' c1 c2 o h hyp, enol_smiles_hasH g g' c1 c2 o h hyp⟩

/-- **C20 (hemiketal → carbonyl + water conserves).** If `standardize_hemiketal` returns a SMILES for `(c, o1, o2)`
(after `SetNumExplicitHs(0)` on O1 and `SetNumExplicitHs(2)` on O2), the indices are distinct, C–O1 and C–O2 are single
bonds and O1, O2 are plain oxygens, then the composition and the charge are unchanged — and **both** oxygens carried a
hydrogen: the rewrite as coded can succeed only on a geminal diol, never on a hemiketal proper (O2 = alkoxy gets two
explicit hydrogens on top of its carbon: valence 3). -/
theorem C20_hemiketal_conserves (g g' : Graph) (c o1 o2 : Nat) (h : hemiketalApply g c o1 o2 = .smiles g')
    (hyp : hemiketalHypB g c o1 o2 = true) : SameComp g' g ∧ 1 ≤ g.hCount o1 ∧ 1 ≤ g.hCount o2 :=
  ⟨hemiketal_conserves g g' c o1 o2 h hyp, hemiketal_smiles_hasH g g' c o1 o2 h hyp⟩

/-- `standardize_hemiketal(smiles, idx)` is `hemiketalApply` for every index list made of one carbon and two oxygens, in
whatever position the carbon comes: "the first oxygen is O1" -/
theorem C20_hemiketal_first_oxygen_is_O1 (g : Graph) (c o1 o2 : Nat) (idx : List Nat)
    (hidx : idx = [c, o1, o2] ∨ idx = [o1, c, o2] ∨ idx = [o1, o2, c])
    (hc : g.sym c = "C") (h1 : g.sym o1 = "O") (h2 : g.sym o2 = "O") (lc : c < g.n) (l1 : o1 < g.n) (l2 : o2 < g.n) :
    hemiketalRewrite g idx = hemiketalApply g c o1 o2 :=
  hemiketalRewrite_eq g idx c o1 o2 _ (hemiketalScan_three g c o1 o2 idx hidx hc h1 h2 lc l1 l2) rfl

/-- **C20 (heavy atoms and charge), unconditional part of the statement.** Whatever fgutils reports and however stale
the indices are, a result returned by `__call__` has the same number of atoms of every element *that is an atom of the
graph* and the same net charge as the input: the rewrites only edit bonds and explicit-hydrogen counts. Only the
hydrogen total can change. (Oracle law: re-parsing a written SMILES keeps the composition.) -/
theorem C20_heavy_atoms_and_charge_conserved_partial (O : Oracle) (hO : O.Laws) (g r : Graph) (h : run O g = .ok r) :
    (∀ s, r.symCount s = g.symCount s) ∧ r.charge = g.charge := by
  unfold run at h
  split at h
  · cases h
  · split at h
    · rename_i st hl
      injection h with h
      have := loop_heavy O hO _ _ _ hl
      rw [← h]
      exact (hO.canon_comp st.2).heavy.trans this
    · cases h

/-- **C20 (conservation for the whole driver), partial.** Hypothesis forced by the proof: *every rewrite that the loop
performs* — on the molecule as renumbered by the previous rewrites, with the index list found for the unmodified
molecule — satisfies the hypotheses of its conservation theorem (`allStepsHyp`, evaluated by the driver on every traced
run). The full statement drops this hypothesis and is false (`C20_witness_enediol_loses_H2`). -/
theorem C20_run_conserves_partial (O : Oracle) (hO : O.Laws) (g r : Graph) (h : run O g = .ok r)
    (hyp : allStepsHyp O (O.findGroups g) (0, g) = true) : SameComp r g := by
  unfold run at h
  split at h
  · cases h
  · split at h
    · rename_i st hl
      injection h with h
      have := loop_conserves O hO _ _ _ hl hyp
      rw [← h]
      exact (hO.canon_comp st.2).trans this
    · cases h

/-- **C20 (fixed points).** If fgutils finds no enol and no hemiketal group in a non-empty molecule, `__call__` returns
`Chem.CanonSmiles` of the input: nothing is rewritten, nothing raises. -/
theorem C20_fixed_point (O : Oracle) (g : Graph) (hne : g.n ≠ 0)
    (h : ∀ grp ∈ O.findGroups g, isRewriteGroup grp = false) : run O g = .ok (O.canon g) := by
  unfold run
  rw [if_neg hne, loop_noGroups O _ _ h]

/-- **C20 (idempotence), partial.** Hypotheses forced by the proof: the oracle laws "fgutils finds no enol/hemiketal
group in the product" and "the canonical form of a canonical form is itself". Then the second application is the identity.
The full statement `run O g = .ok r → run O r = .ok r` is false: `C20_witness_two_enols_not_idempotent`. -/
theorem C20_idempotent_partial (O : Oracle) (g r : Graph) (_h : run O g = .ok r) (hne : r.n ≠ 0)
    (hfix : ∀ grp ∈ O.findGroups r, isRewriteGroup grp = false) (hcanon : O.canon r = r) : run O r = .ok r := by
  rw [C20_fixed_point O r hne hfix, hcanon]

/-- the empty molecule (`""` is a valid SMILES for RDKit) raises for every oracle: `FGQuery.get("")` -/
theorem C20_empty_raises (O : Oracle) (bonds : List Bond) : run O ⟨[], bonds⟩ = .error (.raises 0 .emptyMolecule) := rfl

/-- **An oxygen without hydrogen is never standardised.** If the only group that fgutils reports is an enol whose indices
satisfy the hypotheses of `C20_enol_conserves` but whose oxygen carries no hydrogen (an enolate: fgutils does not look at
charges), `__call__` returns nothing: the rewrite yields an error message, and the re-query raises on it. -/
theorem C20_enolate_never_returns (O : Oracle) (g : Graph) (idx : List Nat) (c1 c2 o : Nat) (hne : g.n ≠ 0)
    (hg : O.findGroups g = [("enol", idx)]) (hi : enolIndices? g idx = some (c1, c2, o))
    (hyp : enolHypB g c1 c2 o = true) (hH : g.hCount o = 0) : ∀ r, run O g ≠ .ok r := by
  intro r hr
  unfold run at hr
  rw [if_neg hne, hg] at hr
  unfold loop at hr
  have hs : stepGroup O (0, g) ("enol", idx) = applyRewrite O 0 (enolRewrite g idx) := by
    rw [stepGroup_rewrite O (0, g) ("enol", idx) (by simp [isRewriteGroup])]
    simp
  rw [hs, enolRewrite_eq g idx c1 c2 o hi] at hr
  cases he : enolEdit g c1 c2 o with
  | smiles g' =>
    have := (C20_enol_conserves g g' c1 c2 o he hyp).2
    omega
  | errorString e => rw [he] at hr; simp [applyRewrite] at hr
  | raises e => rw [he] at hr; simp [applyRewrite] at hr
  | unmodelled => rw [he] at hr; simp [applyRewrite] at hr

/-! ### the candidate fix ("Fix A" of NOTES.md) restores the full-strength statement at model level

`runF` models the patched `__call__` (canonicalise first; look the groups up again after every rewrite; accept a rewrite
only if it parses, keeps `CalcMolFormula` and changes the canonical SMILES; otherwise leave the molecule as it is). These
two theorems are about that patched loop, not about the code in /repo as long as the patch is not applied. -/

/-- with the guard, composition and charge are conserved for **every** molecule, whatever fgutils reports -/
theorem C20_fixA_conserves (O : OracleF) (hO : O.Laws) (g r : Graph) (ex : Bool) (h : runF O g = .ok (r, ex)) :
    SameComp r g := by
  unfold runF at h
  split at h
  · injection h with h
    injection h with h1 _
    rw [← h1]
    exact hO.canon_comp g
  · split at h
    · rename_i r' ex' hi
      injection h with h
      injection h with h1 _
      have := iterF_spec O hO _ _ _ _ hi (hO.canon_idem g)
      rw [← h1]
      exact (hO.canon_comp r').trans (this.1.trans (hO.canon_comp g))
    · cases h

/-- … and the patched standardiser is idempotent whenever the loop ended because no rewrite applied (flag `false`; the
bound `GetNumBonds() + 1` is never reached: every accepted rewrite removes at least one C–O single bond) -/
theorem C20_fixA_idempotent (O : OracleF) (hO : O.Laws) (g r : Graph) (h : runF O g = .ok (r, false)) :
    runF O r = .ok (r, false) := by
  unfold runF at h
  split at h
  · rename_i h0
    injection h with h
    injection h with h1 _
    have hc : O.canon r = r := by rw [← h1, hO.canon_idem]
    unfold runF
    rw [hc, if_pos (by rw [← h1]; exact h0)]
  · split at h
    · rename_i r' ex' hi
      injection h with h
      injection h with h1 h2
      subst h2
      have sp := iterF_spec O hO _ _ _ _ hi (hO.canon_idem g)
      have hr : r = r' := by rw [← h1, sp.2.1]
      subst hr
      unfold runF
      rw [sp.2.1]
      split
      · rfl
      · have : iterF O (r.bonds.length + 1) r = .ok (r, false) := by
          unfold iterF
          rw [sp.2.2 rfl]
        rw [this]
        simp only [sp.2.1]
    · cases h

/-! ### witnesses for the excluded points (recorded RDKit / fgutils answers, replayed on the real code by `./check C20`) -/

/-- `C=C[O-]`: fgutils reports an enol, C2=O⁻ would have explicit valence 2 > 1; the message reaches the re-query -/
theorem C20_witness_enolate :
    run Witness.enolate.oracle Witness.enolate.input =
      .error (.raises 0 (.requeryErrorString (.sanitizing 2 "O" 2))) := by decide +kernel

/-- `CC(O)(OC)C`, a hemiketal proper: O2 = OCH₃ gets `SetNumExplicitHs(2)` on top of its bond to CH₃ -/
theorem C20_witness_alkoxy_hemiketal :
    run Witness.alkoxyHemiketal.oracle Witness.alkoxyHemiketal.input =
      .error (.raises 0 (.requeryErrorString (.sanitizing 3 "O" 3))) := by decide +kernel

/-- `CC(OC)(O)C`, the same molecule with the alkoxy oxygen first: "the first oxygen is O1", so C=O⁽⁺⁾–CH₃ -/
theorem C20_witness_alkoxy_first :
    run Witness.alkoxyFirst.oracle Witness.alkoxyFirst.input =
      .error (.raises 0 (.requeryErrorString (.sanitizing 2 "O" 3))) := by decide +kernel

/-- `C(=C)O`, vinyl alcohol written with the hydroxyl carbon first: `abs(i - o_idx) == 1` takes atom 1 (the CH₂) for C2 -/
theorem C20_witness_index_heuristic :
    run Witness.heuristic.oracle Witness.heuristic.input =
      .error (.raises 0 (.requeryErrorString (.sanitizing 2 "O" 3))) := by decide +kernel

/-- `OC(O)=C`: the first enol is rewritten (acetic acid), the second index list is stale: two oxygens, no C2 -/
theorem C20_witness_gem_enol :
    run Witness.gemEnol.oracle Witness.gemEnol.input =
      .error (.raises 1 (.requeryErrorString .invalidIndices)) := by decide +kernel

/-- `OC(O)(O)O`: two rewrites with stale indices go through, the third finds no carbon -/
theorem C20_witness_ortho_acid :
    run Witness.orthoAcid.oracle Witness.orthoAcid.input =
      .error (.raises 2 (.requeryErrorString .invalidIndices)) := by decide +kernel

/-- `OC=CO` → `O=CC=O`: the second (stale) index list hits the already rewritten molecule and removes two hydrogens -/
theorem C20_witness_enediol_loses_H2 :
    (run Witness.enediol.oracle Witness.enediol.input).toOption.map Graph.hTotal = some 2 ∧
    Witness.enediol.input.hTotal = 4 ∧
    allStepsHyp Witness.enediol.oracle (Witness.enediol.oracle.findGroups Witness.enediol.input)
      (0, Witness.enediol.input) = false := by decide +kernel

/-- `C=CO.C=CO` → `C=CO.CC=O` → `CC=O.CC=O`: the stale indices of the second group point into the first molecule again -/
theorem C20_witness_two_enols_not_idempotent :
    run Witness.twoEnols.oracle Witness.twoEnols.input = .ok (Witness.twoEnols.result 0) ∧
    run Witness.twoEnols.oracle (Witness.twoEnols.result 0) = .ok (Witness.twoEnols.result 1) ∧
    Witness.twoEnols.result 1 ≠ Witness.twoEnols.result 0 := by decide +kernel

/-! ### the hypotheses are satisfiable (non-vacuity) -/

/-- vinyl alcohol `C=CO` → acetaldehyde: the rewrite succeeds, its hypotheses hold, the run conserves and is idempotent -/
example : enolHypB Witness.enol.input 0 1 2 = true ∧
    (∃ g', enolEdit Witness.enol.input 0 1 2 = .smiles g') ∧
    allStepsHyp Witness.enol.oracle (Witness.enol.oracle.findGroups Witness.enol.input) (0, Witness.enol.input) = true ∧
    run Witness.enol.oracle Witness.enol.input = .ok (Witness.enol.result 0) ∧
    run Witness.enol.oracle (Witness.enol.result 0) = .ok (Witness.enol.result 0) := by
  refine ⟨by decide +kernel, ⟨_, rfl⟩, by decide +kernel, by decide +kernel, by decide +kernel⟩

/-- propane-2,2-diol `CC(O)(O)C` → acetone + water -/
example : hemiketalHypB Witness.gemDiol.input 1 2 3 = true ∧
    (∃ g', hemiketalApply Witness.gemDiol.input 1 2 3 = .smiles g') ∧
    sameCompB (Witness.gemDiol.result 0) Witness.gemDiol.input = true ∧
    run Witness.gemDiol.oracle Witness.gemDiol.input = .ok (Witness.gemDiol.result 0) := by
  refine ⟨by decide +kernel, ⟨_, rfl⟩, by decide +kernel, by decide +kernel⟩

end SynRBL
