import SynRBLModel.Proofs.Cache
/-!
# C12 — result caching is transparent across runs, configurations and crashes

The cache directory is a state machine (`Model/Cache.lean`): `step : Disk → Op → Disk × Outcome`, where an operation
is a completed `rebalance` call, a call killed at any batch and at any point of `write_cache`
(`beforeWrite | tmpPrefix k | tmpComplete | afterRename`), a call during which `write_cache` raises, or something the
environment does to the directory (truncate a file to any prefix, put a stray file, delete).

Oracle laws (`Cache.Laws`, explicit hypotheses — never axioms):

* `KeySound` — two (configuration, batch) pairs with the same key have the same pipeline result. Follows from
  `KeyInjective` (`KeyInjective.sound`): SHA-256 over the canonical JSON of the batch **and** of
  `{reaction_col, id_col, confidence_threshold, remove_aam}` taken as injective (trusted base). This is the law commit
  `676bf5c` made true; `C12_witness_key_without_config` shows the theorem fails without it.
* `LoadEncode` — `json.load ∘ json.dump = id` on the documents the pipeline produces (checked on the real code by the
  harness: a hit is compared with the uncached run, rows and statistics).
* `PrefixGarbage` — a proper prefix of a JSON object document does not parse (checked on every prefix of real entries).

Structural facts the proofs use and the model states as definitions: the rename is a *single* `Disk` update
(`Disk.rename`; there is no state in which the entry holds part of the document); a temporary file name is never an
entry name (`tmpName_ne_entryName`); unreadable ⇒ miss (`Variant.tolerantLoad`).
-/
namespace SynRBL
open Cache

section
variable {Cfg Batch Rows Stats : Type} {S : Sys Cfg Batch Rows Stats}

/-- a fresh directory satisfies the invariant -/
theorem C12_inv_empty : CacheInv S Disk.empty := CacheInv_empty S

/-- the invariant in the shape sketched in DESIGN.md §C12 (`CacheInvDesign`: every file at the place of an entry is garbage
all of whose prefixes are garbage, or a prefix of the encoded pipeline result of a `(cfg, b)` with that key) implies the
invariant the proofs carry — `CacheInv` is weaker, so the theorems below are stronger -/
theorem C12_design_invariant (L : Laws S) (d : Disk) (h : CacheInvDesign S d) : CacheInv S d := by
  intro cfg b bytes hr k
  rcases h _ bytes hr ⟨_, rfl⟩ with hg | ⟨cfg', b', res, j, hf, hp, hb⟩
  · rw [hg]; simp
  · subst hb
    exact safe_encode_take L hp cfg b (entryName_inj hf) j k

/-- **C12 (invariant).** Every operation keeps the refinement invariant: completed runs, runs killed at any batch and
any crash point, runs with a failing cache write, truncation of any file to any prefix, deletions, stray files
(admissible = not a well-formed-but-wrong document at the place of an entry). -/
theorem C12_step_preserves_inv (L : Laws S) (d : Disk) (h : CacheInv S d) (op : Op Cfg Batch) (ha : op.Admissible S) :
    CacheInv S (step S .current d op).1 :=
  (step_spec L rfl h op ha).1

/-- … in particular for **every crash point** of **every batch** of a run, without side conditions -/
theorem C12_crash_preserves_inv (L : Laws S) (d : Disk) (h : CacheInv S d) (cfg : Cfg) (bs : List Batch) (atBatch : Nat)
    (point : CrashPoint) : CacheInv S (step S .current d (.crash cfg bs atBatch point)).1 :=
  (step_spec L rfl h (.crash cfg bs atBatch point) trivial).1

/-- **C12 (transparency of one run).** Over any directory satisfying the invariant a completed run with caching
returns, batch by batch, exactly what the run without caching returns — rows and statistics (a `Result` is the pair). -/
theorem C12_transparent (L : Laws S) (d : Disk) (h : CacheInv S d) (cfg : Cfg) (bs : List Batch) :
    (step S .current d (.run cfg bs)).2.merged? = some (uncached S cfg bs) :=
  (step_spec L rfl h (.run cfg bs) trivial).2

/-- whatever `rebalance` computes from the merged per-batch results (`results.extend`, `merge_stats`, the column
filter of `output_dict`) is therefore the same with and without the cache -/
theorem C12_transparent_rows_stats {α : Type} (agg : List (Result Rows Stats) → α) (L : Laws S) (d : Disk)
    (h : CacheInv S d) (cfg : Cfg) (bs : List Batch) :
    (step S .current d (.run cfg bs)).2.merged?.map agg = some (agg (uncached S cfg bs)) := by
  rw [C12_transparent L d h cfg bs]; rfl

/-- a run whose `write_cache` raises (disk full, unserialisable value) still returns the uncached result -/
theorem C12_ioerror_transparent (L : Laws S) (d : Disk) (h : CacheInv S d) (cfg : Cfg) (bs : List Batch) (i : Nat)
    (p : CrashPoint) : (step S .current d (.ioError cfg bs i p)).2.merged? = some (uncached S cfg bs) :=
  (step_spec L rfl h (.ioError cfg bs i p) trivial).2

/-- **C12 (histories).** From the empty directory, along every history of admissible operations, every operation has
the outcome the property demands (`Expected`: completed runs return the uncached result, killed runs return nothing). -/
theorem C12_history_transparent (L : Laws S) (ops : List (Op Cfg Batch)) (ha : ∀ op ∈ ops, op.Admissible S) :
    AllExpected S ops (runHistory S .current Disk.empty ops).2 :=
  (history_spec L rfl ops ha (CacheInv_empty S)).2

/-- the same, read off at a position: if the `i`-th operation of a history is a run of `(cfg, bs)`, its outcome is the
uncached result of `(cfg, bs)` — whatever ran, crashed or was truncated before -/
theorem C12_history_run_at (L : Laws S) (ops : List (Op Cfg Batch)) (ha : ∀ op ∈ ops, op.Admissible S) (i : Nat) (cfg : Cfg)
    (bs : List Batch) (hi : ops[i]? = some (.run cfg bs)) :
    ∃ o, (runHistory S .current Disk.empty ops).2[i]? = some o ∧ o.merged? = some (uncached S cfg bs) :=
  allExpected_getElem (C12_history_transparent L ops ha) i _ hi

/-- the proof does not need the atomic rename as long as `PrefixGarbage` holds and unreadable entries are misses: an
in-place writer (`atomicWrite = false`) is transparent as well. What the rename buys: without it the property rests
on "no prefix of a document parses"; with it a killed run never leaves anything at the place of an entry. -/
theorem C12_history_transparent_any_writer (L : Laws S) (v : Variant) (hv : v.tolerantLoad = true) (ops : List (Op Cfg Batch))
    (ha : ∀ op ∈ ops, op.Admissible S) : AllExpected S ops (runHistory S v Disk.empty ops).2 :=
  (history_spec L hv ops ha (CacheInv_empty S)).2

/-- **The cache is used.** Re-running a completed run computes nothing but the batches on which the pipeline fails
(`rerunHits`), leaves the directory untouched and returns the uncached result. -/
theorem C12_rerun_served_from_cache (L : Laws S) (hK : KeyShape S) (d : Disk) (h : CacheInv S d) (cfg : Cfg) (bs : List Batch) :
    let d₁ := (step S .current d (.run cfg bs)).1
    step S .current d₁ (.run cfg bs) = (d₁, .completed (uncached S cfg bs) (rerunHits S cfg bs)) := by
  intro d₁
  have hinv : CacheInv S d₁ := C12_step_preserves_inv L d h (.run cfg bs) trivial
  exact runBatches_rerun hK hinv cfg (fun _ => .ok) (fun _ _ => by simp) bs 0
    (runBatches_ok_stored L.loadEncode (scan d) cfg bs 0 d).2

end

/-- the scan registers `<key>.cache` … -/
theorem C12_scan_registers_entry (k : Str) (hk : k.any (· != '.') = true) : scanKey? (entryName k) = some k :=
  scanKey?_entryName k hk

/-- … nothing else under that key (so `__cache_refs[key]` is the path `write_cache` uses) … -/
theorem C12_scan_shape (f : FileName) (k : Str) (h : scanKey? f = some k) : f = entryName k := scanKey?_shape f k h

/-- … and never a leftover temporary file: `os.path.splitext("<key>.cache.tmp")[1] == ".tmp"` -/
theorem C12_tmp_never_registered (f : FileName) : scanKey? (tmpName f) = none := scanKey?_tmpName f

/-! ## A concrete system: the hypotheses are satisfiable, and each fix is necessary -/


section
open C12Toy
theorem C12_toy_keyInjective : KeyInjective (sys goodKey) := by
  intro c b c' b' h
  revert h; revert c b c' b'
  decide

theorem C12_toy_laws (keyOf : Bool → Fin 4 → Str) (hk : KeySound (sys keyOf)) : Laws (sys keyOf) where
  keySound := hk
  loadEncode := by rintro ⟨_ | _, _ | _⟩ <;> rfl
  prefixGarbage := by
    rintro ⟨r, s⟩ k hk
    have : k < 4 := hk
    match k, this with
    | 0, _ => rfl
    | 1, _ => rfl
    | 2, _ => rfl
    | 3, _ => cases r <;> cases s <;> rfl

theorem C12_toy_keyShape : KeyShape (sys goodKey) := by
  intro c b; revert c b; decide

end

open C12Toy in
/-- the hypotheses of the theorems hold on a system with two configurations, a failing batch and an empty batch -/
example : Laws (sys goodKey) ∧ KeyInjective (sys goodKey) ∧ KeyShape (sys goodKey) :=
  ⟨C12_toy_laws _ C12_toy_keyInjective.sound, C12_toy_keyInjective, C12_toy_keyShape⟩

open C12Toy in
/-- non-trivial instance of the history theorem: run, run killed mid-write, entry truncated, other configuration,
re-run, failing batch, empty batch -/
example :
    ((runHistory (sys goodKey) .current Disk.empty
      [.run false [1, 2, 0], .crash true [1, 2] 1 (.tmpPrefix 2), .env (.truncate (entryName (goodKey false 1)) 3),
       .run true [1, 3, 2], .run false [1, 2]]).2.map Outcome.hits?) =
      [some [false, false], none, none, some [true, false, false], some [false, true]] := by
  decide +kernel

/-- **Why the configuration must be in the key** (revert of `676bf5c`). With a key that depends on the batch only —
everything else as in the current code, `LoadEncode` and `PrefixGarbage` hold — the second of two runs over the same
batch under another configuration returns the first run's rows: the history theorem fails on a 2-step history. -/
theorem C12_witness_key_without_config :
    let S := C12Toy.sys C12Toy.batchOnlyKey
    (LoadEncode S ∧ PrefixGarbage S ∧ ¬ KeySound S) ∧
    ((runHistory S .current Disk.empty [.run false [1], .run true [1]]).2[1]?.bind Outcome.merged?)
      = some (uncached S false [1]) ∧
    uncached S false [1] ≠ uncached S true [1] := by
  refine ⟨⟨?_, ?_, ?_⟩, by decide +kernel, by decide⟩
  · rintro ⟨_ | _, _ | _⟩ <;> rfl
  · rintro ⟨r, s⟩ k hk
    have : k < 4 := hk
    match k, this with
    | 0, _ => rfl
    | 1, _ => rfl
    | 2, _ => rfl
    | 3, _ => cases r <;> cases s <;> rfl
  · intro h
    exact absurd (h false 1 true 1 rfl) (by decide)

/-- **Why writes must not leave a half-written entry that the next run trusts** (revert of `f8ec0af`: in-place write,
unguarded `json.load`). A run killed after two bytes of the entry, then the same run again: the second run raises
instead of returning the uncached result. Under the current code the same history is fine. -/
theorem C12_witness_inplace_write :
    let S := C12Toy.sys C12Toy.goodKey
    let ops : List (Op Bool (Fin 4)) := [.crash false [1] 0 (.tmpPrefix 2), .run false [1]]
    (runHistory S .beforeFix Disk.empty ops).2[1]? = some .raised ∧
    ((runHistory S .current Disk.empty ops).2[1]?.bind Outcome.merged?) = some (uncached S false [1]) := by
  decide +kernel

/-- **Why `Admissible` is needed, and what "only one member missing" does.** A foreign document with a `result` but no
`stats` at the place of the entry of a batch on which the pipeline raises: the stale rows are returned (the local
`result` of `__rebalance_batch` keeps them), the uncached run returns nothing for that batch. No operation of the
code produces such a file (`C12_step_preserves_inv`). -/
theorem C12_witness_result_without_stats :
    let S := C12Toy.sys C12Toy.goodKey
    let ops : List (Op Bool (Fin 4)) := [.env (.putFile (entryName (C12Toy.goodKey false 3)) "{1}".toList), .run false [3]]
    ((runHistory S .current Disk.empty ops).2[1]?.bind Outcome.merged?) = some [⟨true, false⟩] ∧
    uncached S false [3] = [] := by
  decide +kernel

end SynRBL
