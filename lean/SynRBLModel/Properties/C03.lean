import SynRBLModel.Proofs.Pipeline4
import SynRBLModel.Proofs.Batching
/-!
# C03 — a declined reaction is returned untouched and with a reason
-/
namespace SynRBL
open Str

/-- **C03 (declined).** With the default threshold 0, for every oracle: a row that is not solved returns exactly
its input reaction and carries a non-empty issue text. -/
theorem C03_declined_untouched (O : Oracle) (cfg : Config) (h0 : cfg.threshold = 0) (input : Str)
    (h : (runRow O cfg input).solved = false) :
    (runRow O cfg input).reaction = input ∧ (runRow O cfg input).input = input ∧
    (runRow O cfg input).issue.isSome = true ∧ (runRow O cfg input).issue ≠ some [] :=
  declined_untouched O cfg h0 input h

/-- **C03 (declined, whole runs).** The same for every row `rebalance` returns, malformed input rows included
(they come back as they were given, with the issue `Invalid reaction SMILES.`), for every batch size. -/
theorem C03_declined_untouched_rebalance (cfg : Config) (h0 : cfg.threshold = 0) (n : Nat) (hn : 1 ≤ n)
    (rows : List InRow) :
    ∀ r ∈ (rebalance cfg n rows).1, r.solved = false →
      r.reaction = r.input ∧ r.issue.isSome = true ∧ r.issue ≠ some [] := by
  rw [rebalance_eq cfg n hn]
  intro r hr hs
  obtain ⟨x, hx, rfl⟩ := List.mem_map.1 hr
  cases x with
  | valid s O =>
    have := declined_untouched O cfg h0 s hs
    exact ⟨by simp only [runIn]; rw [this.1, this.2.1], this.2.2.1, this.2.2.2⟩
  | invalid raw => exact ⟨rfl, rfl, by simp [runIn, invalidIssue, str]⟩

/-- **C03 (solved rows name a method).** Every solved row names one of the three methods. -/
theorem C03_solved_names_method (O : Oracle) (cfg : Config) (input : Str)
    (h : (runRow O cfg input).solved = true) :
    (runRow O cfg input).solvedBy = some .input ∨ (runRow O cfg input).solvedBy = some .rule ∨
    (runRow O cfg input).solvedBy = some .mcs := by
  have := solved_names_method O cfg input h
  cases hx : (runRow O cfg input).solvedBy with
  | none => rw [hx] at this; cases this
  | some m => cases m <;> simp

/-- **C03 (solved rows have no issue).** Given the monitored law that inserted water carries no carbon, every solved
row has an empty or absent issue — for every threshold. -/
theorem C03_solved_has_no_issue (O : Oracle) (hW : WaterCarbonLaw O) (cfg : Config) (input : Str)
    (h : (runRow O cfg input).solved = true) :
    (runRow O cfg input).issue = none ∨ (runRow O cfg input).issue = some [] :=
  solved_has_no_issue O hW cfg input h

/-- **C03 (carbon deficit).** A reaction whose products contain more carbon atoms than its reactants (label
`reactants`) is always declined — for every oracle satisfying the water law and every threshold. -/
theorem C03_carbon_deficit_declined (O : Oracle) (hW : WaterCarbonLaw O) (cfg : Config) (input : Str)
    (hc : labelOf O input = .reactants) : (runRow O cfg input).solved = false :=
  carbon_deficit_declined O hW cfg input hc

/-! ### non-vacuity -/
def exOracle3 : Oracle where
  comp := fun s => if s = str "C" then [("C", 1), ("H", 4)] else if s = str "CC" then [("C", 2), ("H", 6)] else []
  carbonCnt := fun s => if s = str "C" then 1 else if s = str "CC" then 2 else 0
  searchFound := true
  searchIssue := []
  mergeErr := some (str "Empty compound set.")
  stdErr := none
  merged := []
  mergeRules := []
  curate := fun _ => none
  conf := 0

example : labelOf exOracle3 (str "C>>CC") = .reactants := by decide +kernel
example : (runRow exOracle3 ⟨[], [], 0⟩ (str "C>>CC")).issue = some (str "Empty compound set.") := by
  decide +kernel

end SynRBL
