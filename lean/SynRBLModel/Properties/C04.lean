import SynRBLModel.Proofs.Pipeline4
/-!
# C04 — an already balanced reaction passes through unchanged as input-balanced
-/
namespace SynRBL
open Str

/-- **C04 (forward).** If the comparator and the carbon check call the input balanced, the row ends solved by
`input-balanced`, its reaction is the input, it has no issue and no confidence — for every oracle: no later stage
(rule-based, MCS, reagent templates, second rule-based run, confidence) touches it. -/
theorem C04_balanced_input_passes (O : Oracle) (cfg : Config) (input : Str)
    (hb : verdictOf O input = .balance) (hc : labelOf O input = .balanced) :
    (runRow O cfg input).solved = true ∧ (runRow O cfg input).solvedBy = some .input ∧
    (runRow O cfg input).reaction = input ∧ (runRow O cfg input).input = input ∧
    (runRow O cfg input).issue = none ∧ (runRow O cfg input).conf = none :=
  input_balanced_passes O cfg input hb hc

/-- **C04 (converse).** A row is labelled `input-balanced` only if its input was balanced, and then nothing was
added. -/
theorem C04_input_balanced_only_if_balanced (O : Oracle) (cfg : Config) (input : Str)
    (h : (runRow O cfg input).solvedBy = some .input) :
    verdictOf O input = .balance ∧ labelOf O input = .balanced ∧ (runRow O cfg input).reaction = input := by
  obtain ⟨hb, hc⟩ := input_label_only_from_input_check O cfg input h
  exact ⟨hb, hc, (input_balanced_passes O cfg input hb hc).2.2.1⟩

/-- the two directions as one equivalence -/
theorem C04_iff (O : Oracle) (cfg : Config) (input : Str) :
    (runRow O cfg input).solvedBy = some .input ↔ (verdictOf O input = .balance ∧ labelOf O input = .balanced) :=
  ⟨fun h => input_label_only_from_input_check O cfg input h,
   fun h => (input_balanced_passes O cfg input h.1 h.2).2.1⟩

end SynRBL
