import SynRBLModel.Proofs.Containment
import SynRBLModel.Properties.C05
import SynRBLModel.Generated.RulesManager
import SynRBLModel.Generated.AutomatedRules
/-!
# C02 — rebalancing only adds whole molecules; the given molecules are never altered
-/
namespace SynRBL
open Str

/-- **C02 (both sides only grow).** For every valid input `a>>b` (sides free of `>`), every rule database whose
SMILES are free of `>`, every oracle whose merged compound is `>`-free and whose curated reactions still extend the
input (`ContainLaws`, monitored on every traced row), every threshold and every fault pattern: the returned reaction is
`(a ++ ra) >> (b ++ pa)` — the given text of each side is kept verbatim at the front and only a suffix is appended.
This holds for solved rows; declined rows return exactly the input (C03). -/
theorem C02_sides_only_grow (O : Oracle) (cfg : Config) (hr : rulesNoGt cfg.rules = true) (a b : Str)
    (ha : NoGt a) (hb : NoGt b) (hL : ContainLaws O a b) :
    ∃ ra pa, (runRow O cfg (a ++ str ">>" ++ b)).reaction = (a ++ ra) ++ str ">>" ++ (b ++ pa) ∧
      sidesOf (runRow O cfg (a ++ str ">>" ++ b)).reaction = some (a ++ ra, b ++ pa) := by
  obtain ⟨ra, pa, _, _, e, hs⟩ := ext_sides ha hb (reaction_extends_input O cfg hr a b ha hb hL)
  exact ⟨ra, pa, e, hs⟩

/-- **C02 (whole molecules).** If the appended suffix is empty or starts with a `.` (what every stage appends;
evaluated on every traced row), the `.`-separated molecules of the given side are exactly the first molecules of the
returned side: every input molecule appears unchanged, in place, with its multiplicity. -/
theorem C02_given_molecules_kept (side suffix : Str) (h : suffix = [] ∨ ∃ x, suffix = '.' :: x) :
    ∃ added, splitOn '.' (side ++ suffix) = splitOn '.' side ++ added := by
  rcases h with h | ⟨x, h⟩
  · exact ⟨[], by rw [h]; simp⟩
  · exact ⟨splitOn '.' x, by rw [h, splitOn_append_dot]⟩

/-- the constraint step keeps the given part of the products and only appends to the reactants -/
theorem C02_constraint_keeps_given (e : Entry) (ht : NoGt (splitAdded e).2) :
    (∃ x, (modify e).1 = e.reactants ++ x) ∧ (∃ y, (modify e).2 = (splitAdded e).1 ++ y) := by
  obtain ⟨⟨x, ex, _⟩, ⟨y, ey, _⟩⟩ := modify_spec e ht
  exact ⟨⟨x, ex⟩, ⟨y, ey⟩⟩

/-- the reported `input_reaction` is the input the pipeline was given (after atom-map removal, C15) -/
theorem C02_input_reaction_is_input (O : Oracle) (cfg : Config) (s : Str) : (runRow O cfg s).input = s :=
  C05_row_describes_its_input O cfg s

/-- **Table obligations:** no SMILES of either shipped database contains `>`. -/
theorem C02_rulesManager_noGt : rulesNoGt Generated.rulesManager = true := by decide +kernel
theorem C02_automatedRules_noGt : rulesNoGt Generated.automatedRules = true := by decide +kernel

/-! ### non-vacuity: the hydroperoxide witness of the old defect, in the model -/
example : (modify ⟨str "c1ccccc1.OOC(C)(C)C.N", str "c1ccccc1.OOC(C)(C)C.N", some (str "N")⟩).2
    = str "c1ccccc1.OOC(C)(C)C.N" := by decide +kernel
example : (modify ⟨str "CC(=O)C", str "CC(O)C.[H].[H]", some (str "[H].[H]")⟩)
    = (str "CC(=O)C.[O]", str "CC(O)C.O") := by decide +kernel

end SynRBL
