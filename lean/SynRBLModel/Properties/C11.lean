import SynRBLModel.Properties.C01
import SynRBLModel.Properties.C03
/-!
# C11 — MCS-stage timeouts and failures are contained to the affected reaction

A fault pattern (which search / fragment-analysis jobs time out or raise, what a zombie thread writes into the
record afterwards) is just another `Oracle` for the affected rows: the search and merge answers are arbitrary
fields. The safety theorems of C01 and C03 hold for **every** oracle, so they hold under every fault pattern; what
remains is locality.
-/
namespace SynRBL
open Str

/-- **C11 (locality, no row lost).** Replacing the kernel's answers for the rows at some positions (any faults, any
subset) changes the result rows at those positions only; every other row is exactly what it is without faults, and
the number of rows is unchanged. -/
theorem C11_faults_are_local (cfg : Config) (n : Nat) (hn : 1 ≤ n) (rows faulty : List InRow)
    (hlen : rows.length = faulty.length) (i : Nat) (hsame : rows[i]? = faulty[i]?) :
    (rebalance cfg n rows).1[i]? = (rebalance cfg n faulty).1[i]? ∧
    (rebalance cfg n faulty).1.length = rows.length := by
  rw [rebalance_eq cfg n hn, rebalance_eq cfg n hn]
  simp [hsame, hlen]

/-- **C11 (affected rows stay safe).** Under every fault pattern (every oracle `O'` for the affected row) the
affected row is either solved and balanced, or — with the default threshold — declined unchanged with a reason. -/
theorem C11_faulted_row_safe (O' : Oracle) (cfg : Config) (h0 : cfg.threshold = 0) (s : Str) :
    ((runRow O' cfg s).solved = true ∧ verdictOf O' (runRow O' cfg s).reaction = .balance) ∨
    ((runRow O' cfg s).solved = false ∧ (runRow O' cfg s).reaction = s ∧
      (runRow O' cfg s).issue.isSome = true ∧ (runRow O' cfg s).issue ≠ some []) := by
  cases hs : (runRow O' cfg s).solved with
  | true => exact Or.inl ⟨rfl, solved_is_balanced O' cfg s hs⟩
  | false =>
    have := declined_untouched O' cfg h0 s hs
    exact Or.inr ⟨rfl, this.1, this.2.2.1, this.2.2.2⟩

end SynRBL
