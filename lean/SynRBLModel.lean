-- Root of the `SynRBLModel` library: executable model (Py/, Model/, Generated/) and proofs (Proofs/, Properties/).
import SynRBLModel.Properties.C01
import SynRBLModel.Properties.C03
import SynRBLModel.Properties.C04
import SynRBLModel.Properties.C05
import SynRBLModel.Properties.C06
import SynRBLModel.Properties.C07
import SynRBLModel.Properties.C08
import SynRBLModel.Properties.C11
import SynRBLModel.Properties.C13
import SynRBLModel.Properties.C18
import SynRBLModel.Properties.C15
import SynRBLModel.Properties.C16
import SynRBLModel.Properties.C17
import SynRBLModel.Properties.C19
import SynRBLModel.Properties.C02
import SynRBLModel.Properties.C14
