-- Root of the `SynRBLModel` library: executable model (Py/, Model/, Generated/) and proofs (Proofs/, Properties/).
import SynRBLModel.Py.Dict
import SynRBLModel.Model.Compare
import SynRBLModel.Model.Decompose
import SynRBLModel.Proofs.Compare
