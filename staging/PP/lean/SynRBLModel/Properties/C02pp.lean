import SynRBLModel.Proofs.PostProcess
import SynRBLModel.Generated.Templates
import SynRBLModel.Generated.AtomicSymbols
/-!
# C02 (reagent post-processing) — the curation step only removes free placeholder tokens and appends template compounds

`Proofs/Containment.lean` proves `reaction_extends_input` under the oracle law `ContainLaws.curate` ("a curated reaction
still extends the input").  This file replaces that assumption by theorems about `Model/PostProcess.lean`, the model of
`PostProcess.fit` / `CurationOxidation` / `CurationReduction` / `Balancer.__post_process`; the only kernel answers left
are `find_functional_reactivity` and `count_radical_atoms` (`PPOracle`), and the theorems hold for every such oracle.
-/
namespace SynRBL
open Str PP

/-- **C02 (a) — what curation does to the tokens.** Whatever `__post_process` writes back for `r>>p` is either the
reaction itself (no pattern, pattern without template, odd hydrogen count, …) or
`'.'.join(R) >> '.'.join(P')` where `R` = the `.`-tokens of `r` without the tokens **equal** to the placeholder (`[O]` for
an oxidation, `[H]` for a reduction) followed by `n ≥ 1` copies of one template's reactants, and `P'` = the `.`-tokens of `p`
followed by `n` copies of that template's products; `n` is the oracle's `[O]` count (or 1 for
primary_alcohol>>carboxylic_acid), resp. half the oracle's `[H]` count. -/
theorem C02_curate_tokens (T : Tables) (P : PPOracle) (r p c : Str) (hr : NoGt r) (hp : NoGt p)
    (h : curate T P (r ++ str ">>" ++ p) = some c) :
    c = r ++ str ">>" ++ p ∨
    ∃ ph name t n,
      ((ph = phO ∧ (name, t) ∈ T.oxTemplates ∧ (P.count 8 r = some n ∨ n = 1)) ∨
       (ph = phH ∧ (name, t) ∈ T.redTemplates ∧ P.count 1 r = some (2 * n))) ∧ 1 ≤ n ∧
      c = mkReaction ((splitOn '.' r).filter (fun x => decide (x ≠ ph)) ++ (List.replicate n (toks t.reactants)).flatten)
        (splitOn '.' p ++ (List.replicate n (toks t.products)).flatten) :=
  curate_written T P r p c hr hp h

/-- **C02 (a, continued) — the joined sides split back into exactly those tokens**: for non-empty token lists free of `.`
and `>` (tokens of a `split(".")` are `.`-free; template tokens by the table obligations below) the curated string has the
two sides `'.'.join(R)`, `'.'.join(P')`, whose `.`-tokens are `R` and `P'`. -/
theorem C02_curate_tokens_roundtrip (R P' : List Str) (hR : R ≠ []) (hP : P' ≠ [])
    (hRd : ∀ t ∈ R, '.' ∉ t) (hPd : ∀ t ∈ P', '.' ∉ t) (hRg : ∀ t ∈ R, NoGt t) (hPg : ∀ t ∈ P', NoGt t) :
    sidesOf (mkReaction R P') = some (joinWith '.' R, joinWith '.' P') ∧
    splitOn '.' (joinWith '.' R) = R ∧ splitOn '.' (joinWith '.' P') = P' := by
  refine ⟨?_, splitOn_joinWith '.' R hR hRd, splitOn_joinWith '.' P' hP hPd⟩
  unfold sidesOf mkReaction
  rw [splitArrow_mk _ _ (noGt_joinWith_dot R hRg) (noGt_joinWith_dot P' hPg)]

/-- **C02 (b) — a curated reaction still extends the input.** Let the reaction before curation be
`(a ++ ra) >> (b ++ pa)` (`Ext a b s`: the given sides `a`, `b`, each followed by a `>`-free suffix — what every earlier stage
produces).  If the given reactant side is *safe* — no `.`-token of `a` equals `[O]` or `[H]` (the property's precondition: no
free atomic placeholders in the input) and the last token of `a` is not a prefix of a placeholder (true of every
parsable side: `""`, `"["`, `"[O"`, `"[H"` do not parse), so that every placeholder token lies in the appended suffix —
and no template token contains `>`, then whatever `__post_process` writes back satisfies `Ext a b` again: the given
text of both sides is kept verbatim in front. No hypothesis on the oracle answers. -/
theorem C02_curate_extends (T : Tables) (hT : T.noGt = true) (P : PPOracle) (a b : Str) (ha : NoGt a) (hb : NoGt b)
    (hs : safeSide a = true) (s c : Str) (hE : Ext a b s) (h : curate T P s = some c) : Ext a b c :=
  curate_ext T hT P a b ha hb hs s c hE h

/-- **C02 (c) — the oracle law of the containment theorem is discharged.** For the refined oracle whose `curate` field is
the model of the curation code, `ContainLaws` holds (the remaining field `merged` is the MCS stage's law). -/
theorem C02_curate_laws (O : Oracle) (T : Tables) (hT : T.noGt = true) (P : PPOracle) (a b : Str)
    (ha : NoGt a) (hb : NoGt b) (hs : safeSide a = true) (hm : NoGt O.merged) :
    ContainLaws { O with curate := curate T P } a b :=
  ⟨hm, fun s c hE h => curate_ext T hT P a b ha hb hs s c hE h⟩

/-- **C02 without an assumption about curation**: for every input `a>>b` with `>`-free sides and a safe reactant side, every
`>`-free rule database and template table, every functional-group / radical-count oracle and every other oracle whose merged
compound is `>`-free, the returned reaction is `(a ++ ra) >> (b ++ pa)`. -/
theorem C02_curate_sides_only_grow (O : Oracle) (cfg : Config) (hr : rulesNoGt cfg.rules = true)
    (T : Tables) (hT : T.noGt = true) (P : PPOracle) (a b : Str) (ha : NoGt a) (hb : NoGt b)
    (hs : safeSide a = true) (hm : NoGt O.merged) :
    ∃ ra pa, (runRow { O with curate := curate T P } cfg (a ++ str ">>" ++ b)).reaction
        = (a ++ ra) ++ str ">>" ++ (b ++ pa) ∧ NoGt ra ∧ NoGt pa := by
  obtain ⟨ra, pa, e, h1, h2⟩ :=
    reaction_extends_input { O with curate := curate T P } cfg hr a b ha hb (C02_curate_laws O T hT P a b ha hb hs hm)
  exact ⟨ra, pa, e, h1, h2⟩

/-- a reaction without the substring `.[O]` / `.[H]` in its reactant side is never touched -/
theorem C02_curate_unlabelled_untouched (T : Tables) (P : PPOracle) (s : Str) (h : PP.labelOf s = .unspecified) :
    curate T P s = none := by
  unfold curate curateR; rw [h]

/-- the label is decided by substring, `.[O]` first: both markers present → oxidation (the `[H]` tokens stay) -/
theorem C02_curate_label_order (r p : Str) (hr : NoGt r) (hp : NoGt p) (h : hasInfix markerO r = true) :
    PP.labelOf (r ++ str ">>" ++ p) = .oxidation := by
  unfold PP.labelOf; rw [splitArrow_mk r p hr hp]; simp [h]

/-- **C02 (exceptions).** With well-formed tables (`"other"` exists, every named template exists, at most one template per
oxidation pattern), a reaction with two `>`-free sides, and oracle calls that return, the curation raises **only** in
the case excluded here: label `Oxidation` with an `[O]` count of 0 (see the witness below). -/
theorem C02_curate_no_raise (T : Tables) (hw : T.wellFormed = true) (P : PPOracle) (r p : Str) (hr : NoGt r) (hp : NoGt p)
    (hfg : (P.fg (r ++ str ">>" ++ p)).isSome = true) (hc1 : (P.count 1 r).isSome = true)
    (hc8 : PP.labelOf (r ++ str ">>" ++ p) = .oxidation → ∃ n, P.count 8 r = some n ∧ n ≠ 0) (why : String) :
    curateR T P (r ++ str ">>" ++ p) ≠ .raises why := by
  unfold curateR
  split
  · simp
  · rename_i hl
    obtain ⟨n, hn, hn0⟩ := hc8 hl
    exact curateOx_no_raise T hw P r p hr hp hfg n hn hn0 why
  · exact curateRed_no_raise T hw P r p hr hp hfg hc1 why

/-! ### Table obligations over `Generated/Templates.lean` (re-generated from the JSON files on every run) -/

/-- no template compound contains `>` (hypothesis `hT` of the theorems above, for the shipped tables) -/
theorem C02_curate_templates_noGt : Generated.templates.noGt = true := by decide +kernel
/-- no template compound contains `.` (so curated sides split back into the listed tokens) -/
theorem C02_curate_templates_noDot : Generated.templates.noDot = true := by decide +kernel
/-- every template compound is listed with its composition, parses, and contains neither `>` nor `.` -/
theorem C02_curate_templates_compoundsOk : Generated.templates.compoundsOk = true := by decide +kernel
/-- `"other"` exists for both kinds, every named template exists, no oxidation pattern names two templates (the
re-binding of `reactant`/`product` to strings inside `for temp in temps` would raise AttributeError on a second one) -/
theorem C02_curate_templates_wellFormed : Generated.templates.wellFormed = true := by decide +kernel

/-- **Which templates are balanced as written?** None: with the model's `decompose` / `compareDicts` (the comparator the
pipeline itself uses) every shipped template has a non-`Balance` verdict for `reactants >> products` — the reductions
because they carry the hydrogen that replaces `[H].[H]`, the oxidations for other reasons (next theorem). -/
theorem C02_curate_templates_unbalanced_as_written :
    Generated.templates.unbalancedAsWritten ⟨Generated.atomicSymbols, Generated.symbolFallback⟩ =
      [("oxidation/template_1", .reactants), ("oxidation/template_2", .both), ("oxidation/template_3", .products),
       ("reduction/template_1/ion", .products), ("reduction/template_2/ion", .products),
       ("reduction/template_3/ion", .products), ("reduction/template_4/ion", .products),
       ("reduction/template_1/neutral", .products), ("reduction/template_2/neutral", .products),
       ("reduction/template_3/neutral", .products), ("reduction/template_4/neutral", .products)] := by decide +kernel

/-- **Which templates are exact replacements of the placeholders they consume?** (`reactants` vs `products + k·[O]`, resp.
`products + 2·[H]`): all eight reduction variants are; **none of the three oxidation templates is**, for one or two `[O]`
(PCC lacks H₂O on the reactant side, KMnO₄/H₂SO₄ — the primary_alcohol>>carboxylic_acid template — is off in K, S, H and O:
it is only balanced with the coefficients of its `stoichiometric` field, KMnO₄/H₂O leaves H resp. O and H over).  A
balanced row therefore never stays balanced through an oxidation curation by itself; the second rule-based pass may
repair it (PCC: one water), otherwise `Balancer.__revert_unbalanced_curation` restores the uncurated reaction. -/
theorem C02_curate_templates_replacement_vector :
    Generated.templates.replacementVector ⟨Generated.atomicSymbols, Generated.symbolFallback⟩ =
      [("oxidation/template_1", 1, .reactants), ("oxidation/template_1", 2, .reactants),
       ("oxidation/template_2", 1, .both), ("oxidation/template_2", 2, .both),
       ("oxidation/template_3", 1, .products), ("oxidation/template_3", 2, .products),
       ("reduction/template_1/ion", 2, .balance), ("reduction/template_2/ion", 2, .balance),
       ("reduction/template_3/ion", 2, .balance), ("reduction/template_4/ion", 2, .balance),
       ("reduction/template_1/neutral", 2, .balance), ("reduction/template_2/neutral", 2, .balance),
       ("reduction/template_3/neutral", 2, .balance), ("reduction/template_4/neutral", 2, .balance)] := by decide +kernel

/-- the containment theorem for the shipped tables: no hypothesis about templates or curation is left -/
theorem C02_curate_shipped (O : Oracle) (cfg : Config) (hr : rulesNoGt cfg.rules = true) (P : PPOracle) (a b : Str)
    (ha : NoGt a) (hb : NoGt b) (hs : safeSide a = true) (hm : NoGt O.merged) :
    ∃ ra pa, (runRow { O with curate := curate Generated.templates P } cfg (a ++ str ">>" ++ b)).reaction
        = (a ++ ra) ++ str ">>" ++ (b ++ pa) ∧ NoGt ra ∧ NoGt pa :=
  C02_curate_sides_only_grow O cfg hr Generated.templates C02_curate_templates_noGt P a b ha hb hs hm

/-! ### witnesses: what happens outside the hypotheses (replayed on the real code by `harness/pp_layer.py`) -/

def oracleConst (fg : List String × List String) (n8 n1 : Nat) : PPOracle :=
  { fg := fun _ => some fg, count := fun z _ => if z = 8 then some n8 else some n1 }

/-- the safe-side hypothesis is needed: a free `[O]` token that is part of the *input* is removed by the curation,
so the returned reactant side no longer starts with the given one (`CCO.[O].CC>>CC=O.O.CC`) -/
theorem C02_curate_witness_input_placeholder_removed :
    safeSide (str "CCO.[O].CC") = false ∧
    curate Generated.templates (oracleConst (["primary_alcohol"], ["aldehyde"]) 1 0) (str "CCO.[O].CC>>CC=O.O.CC")
      = some (str "CCO.CC.O=[Cr](Cl)(-[O-])=O.c1cc[nH+]cc1>>CC=O.O.CC.O=[Cr](O)O.c1cc[nH+]cc1.[Cl-]") ∧
    ¬ (str "CCO.[O].CC").isPrefixOf
      (str "CCO.CC.O=[Cr](Cl)(-[O-])=O.c1cc[nH+]cc1>>CC=O.O.CC.O=[Cr](O)O.c1cc[nH+]cc1.[Cl-]") = true := by
  decide +kernel

/-- the label is a substring test but the count is RDKit's: `.[O][O]` (dioxygen written with brackets) is labelled
`Oxidation`, has no isolated oxygen atom, and `process_ox_template` raises UnboundLocalError (`stoichiometry`) -/
theorem C02_curate_witness_unbound_local :
    curateR Generated.templates (oracleConst (["primary_alcohol"], ["aldehyde"]) 0 0) (str "CCO.[O][O]>>CC=O")
      = .raises "UnboundLocalError: stoichiometry" := by decide +kernel

/-- counted but not filtered: `[OH]` is an isolated oxygen radical for `count_radical_atoms`, yet only tokens equal to
`[O]` are removed — two template copies for one removed token -/
theorem C02_curate_witness_count_vs_filter :
    curate Generated.templates (oracleConst (["primary_alcohol"], ["aldehyde"]) 2 0) (str "CCO.[OH].[O]>>CC=O.O")
      = some (str ("CCO.[OH].O=[Cr](Cl)(-[O-])=O.c1cc[nH+]cc1.O=[Cr](Cl)(-[O-])=O.c1cc[nH+]cc1>>" ++
          "CC=O.O.O=[Cr](O)O.c1cc[nH+]cc1.[Cl-].O=[Cr](O)O.c1cc[nH+]cc1.[Cl-]")) := by decide +kernel

/-- explicit dihydrogen `[H][H]` is labelled `Reduction` (substring `.[H]`), has hydrogen count 0, and the result carries no
`curated_reaction`: nothing is written -/
theorem C02_curate_witness_h2_skipped :
    PP.labelOf (str "CC=O.[H][H]>>CCO") = .reduction ∧
    curateR Generated.templates (oracleConst (["aldehyde"], ["primary_alcohol"]) 0 0) (str "CC=O.[H][H]>>CCO") = .skipped := by
  decide +kernel

/-! ### non-vacuity: the hypotheses hold on real pipeline strings -/
example : safeSide (str "CCO") = true ∧ safeSide (str "CC(=O)C.[H][H]") = true ∧ safeSide (str "C[O].CCO") = true := by
  decide +kernel
example : Ext (str "CCO") (str "CC=O") (str "CCO.[O]>>CC=O.O") :=
  ⟨str ".[O]", str ".O", by decide +kernel, by decide +kernel, by decide +kernel⟩
example : curate Generated.templates (oracleConst (["primary_alcohol"], ["aldehyde"]) 1 0) (str "CCO.[O]>>CC=O.O")
    = some (str "CCO.O=[Cr](Cl)(-[O-])=O.c1cc[nH+]cc1>>CC=O.O.O=[Cr](O)O.c1cc[nH+]cc1.[Cl-]") := by decide +kernel
example : curate Generated.templates (oracleConst (["ester"], ["primary_alcohol", "alcohol"]) 0 4)
    (str "CC(=O)OC.[H].[H].[H].[H]>>CCO.CO")
    = some (str "CC(=O)OC.[BH4-].[Na+].[H+].[BH4-].[Na+].[H+]>>CCO.CO.[BH3].[Na+].[BH3].[Na+]") := by decide +kernel
example : curate Generated.templates (oracleConst (["primary_alcohol", "ether"], ["carboxylic_acid"]) 2 0)
    (str "CCO.[O].[O]>>CC(=O)O.O")
    = some (str "CCO.[K][O][Mn](=O)(=O)=O.OS(=O)(=O)O>>CC(=O)O.O.[K][O]S(=O)(=O)[O][K].[Mn]1[O]S(=O)(=O)[O]1") := by
  decide +kernel

end SynRBL
