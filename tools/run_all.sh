#!/bin/bash
# tools/run_all.sh [tier] — run every registered check on the current tree, summarise
TIER=${1:-quick}
cd "$(dirname "$0")/.."
for c in $(python3 -c "import json;print(' '.join(x['property_id'] for x in json.load(open('MANIFEST.json'))['checks']))"); do
  s=$(date +%s)
  out=$(./check $c --tier $TIER 2>&1 | grep -E "^OK|^FAIL|VIOLATION|KNOWN-FINDING|ERROR" | cut -c1-160)
  rc=$?
  echo "[$c $(( $(date +%s) - s ))s] $out"
done
