#!/bin/bash
# tools/seeded_scratch.sh <dir-with-patch.diff> <check> [check ...] — like seeded.sh but never touches /repo: the patch is
# applied to a scratch worktree and the harness is pointed at it with SYNRBL_REPO (safe while a `vp run` uses /repo).
D=$(readlink -f "$1"); shift
W=/tmp/seedrun_$$
git -C /repo worktree add -q --detach $W HEAD || exit 3
trap 'git -C /repo worktree remove --force $W' EXIT
git -C $W apply $D/patch.diff || exit 3
for c in "$@"; do
  s=$(date +%s)
  out=$(cd /verif && PYTHONPATH=/verif/harness:$W SYNRBL_REPO=$W SYNRBL_VERIF_EVIDENCE_DIR=$W/.evidence SYNRBL_VERIF=1 PYTHONWARNINGS=ignore /venv/bin/python harness/run_check.py $c 2>&1 | grep -E "^OK|^FAIL|VIOLATION|ERROR" | tr '\n' ' ' | cut -c1-220)
  echo "[$(basename $D) $c $(( $(date +%s) - s ))s] $out"
done
