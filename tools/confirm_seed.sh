#!/bin/bash
# tools/confirm_seed.sh <dir with patch.diff + demo.py>  — confirm a seeded defect in a scratch worktree:
#   demo passes on the clean tree, fails with the patch, and the repository's test suite still gives the baseline.
D=$(readlink -f "$1"); W=/tmp/seedconfirm_$$
set -e
git -C /repo worktree add -q --detach $W HEAD
trap 'git -C /repo worktree remove --force $W' EXIT
cd $W
echo "== demo on clean tree"; PYTHONPATH=$W timeout 900 /venv/bin/python $D/demo.py > $W/.demo_clean.log 2>&1 && echo "clean: exit 0" || { echo "clean: exit $? (BAD)"; tail -5 $W/.demo_clean.log; }
git apply $D/patch.diff
echo "== demo with patch"; set +e; PYTHONPATH=$W timeout 900 /venv/bin/python $D/demo.py > $W/.demo_patched.log 2>&1; rc=$?; set -e
echo "patched: exit $rc"; tail -3 $W/.demo_patched.log | grep -v WARNING || true
if [ "$2" != "--no-suite" ]; then
echo "== test suite with patch"
PYTHONPATH=$W /venv/bin/python -m pytest -q -p no:cacheprovider --timeout=900 -q 2>&1 | tail -5 | grep -v "^$"
fi
