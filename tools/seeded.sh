#!/bin/bash
# tools/seeded.sh <seed-id> [check ...] — apply /verif/seeded/<id>/patch.diff to /repo, run the given checks (default: the
# property it breaks, from meta.json), undo. Prints one line per check.
ID=$1; shift
D=/verif/seeded/$ID
CHECKS="$@"
[ -z "$CHECKS" ] && CHECKS=$(python3 -c "import json;m=json.load(open('$D/meta.json'));print(' '.join(m.get('checks',[m['property']])))")
git -C /repo diff --quiet || { echo "/repo is dirty"; exit 3; }
git -C /repo apply $D/patch.diff || exit 3
for c in $CHECKS; do
  s=$(date +%s)
  out=$(cd /verif && ./check $c 2>&1 | grep -E "^OK|^FAIL|VIOLATION|ERROR" | tr '\n' ' ' | cut -c1-200)
  echo "[$ID $c $(( $(date +%s) - s ))s] $out"
done
git -C /repo checkout -- . 
