#!/bin/bash
# tools/mut.sh <Cxx> <file-relative-to-/repo> <sed-expression>  — apply a mutation, run the quick check, revert
P=$1; F=$2; E=$3
cd /repo && sed -i "$E" "$F" && git diff --stat | tail -1
if git diff --quiet; then echo "MUTATION DID NOT APPLY"; exit 3; fi
cd /verif && ./check $P 2>&1 | grep -v WARNING | grep -E "VIOLATION|KNOWN|^OK|^FAIL|ERROR" 
cd /repo && git checkout -- . 
