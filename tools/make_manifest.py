#!/usr/bin/env python3
"""Writes MANIFEST.json from the table below (kept in one place so that the manifest stays valid and current)."""
import json
import os

HERE = os.path.dirname(os.path.dirname(os.path.abspath(__file__)))

TB = (
    "Lean 4.33.0 kernel (axioms propext, Classical.choice, Quot.sound only; no sorry/native_decide/bv_decide); "
    "harness/gen_tables.py; the correspondence harness and driver JSON glue; "
)

CHECKS = {
    "C07": dict(
        text="Theorems over the executable Lean model of decompose / compare_dicts / diff_dicts / carbon label: exact "
        "per-element counts and net charge, additivity over mixtures, Balance iff equal true composition, and the "
        "Products/Reactants contract (p+diff=r, r+diff=p) for all well-formed dictionaries; the symbol table is regenerated "
        "from the source and re-checked (decide +kernel) on every run; model tied to the code by differential runs.",
        note=TB + "RDKit parsing/AddHs/atom symbols (oracle law Named, monitored); Python dict semantics as in Py/Dict.lean.",
        technique="Lean 4 theorems (induction over dictionaries/atom lists) + generated-table obligation + differential correspondence",
        ref="§5 C07",
    ),
    "C08": dict(
        text="Theorem C08_solutions_sum: for every rule database passing goodDB and every imbalance dictionary, every "
        "completion returned by the matcher uses database compounds with multiplicity >= 1 whose compositions sum to the "
        "imbalance at every key (charge included) — by induction over the depth-first search, any fuel, any database. Table "
        "obligations re-checked against the current JSON files: both shipped databases are good, every recorded composition "
        "equals the one derived from RDKit's atom list of its SMILES, every dihalogen spelling is in the ban list; accepted "
        "reactions contain no banned spelling. Matcher, ranking, constraint and the whole rule-based row function are tied to "
        "the code differentially (solution lists compared including order).",
        note=TB + "RDKit atom lists embedded in the generated tables; Python str/dict/sort semantics (Py/*.lean, tested against "
        "CPython each run); termination of the Python recursion is not proved (the model search is fuel-bounded by the element count).",
        technique="Lean 4 theorems (induction on DFS fuel, dictionary algebra) + decide +kernel table obligations + differential correspondence",
        ref="§5 C08",
    ),
}

ROW = ("Row state machine of Balancer.__run_pipeline modelled in Lean with every kernel answer (RDKit, MCS search, merge, "
       "reagent templates, confidence model) as a field of an arbitrary Oracle; ")
ROWNOTE = (TB + "RDKit/fgutils/xgboost answers are oracle fields (theorems hold for every oracle); pandas/joblib row and id "
           "plumbing is tied by the stage-by-stage correspondence (11 snapshots per row + statistics) on every run; ")
CHECKS.update({
    "C01": dict(
        text=ROW + "theorem solved_is_balanced: for EVERY oracle, configuration and input a row that ends solved carries a reaction "
        "the comparator calls Balance (invariants over the 11 stages incl. post-processing and the revert of unbalanced curations); "
        "composed with C07 (C01_solved_balanced) this is equality of every element count and of the net charge; lifted to any batch "
        "size (C01_rebalance). The model is tied to the code by comparing every traced row after each stage; the executable "
        "statement (RDKit balance by atomic number) is evaluated on every returned row.",
        note=ROWNOTE + "truth = RDKit AddHs atom list by atomic number and formal charge.",
        technique="Lean 4 invariant proof over the stage machine (any oracle) + differential stage-by-stage correspondence",
        ref="§5 C01"),
    "C03": dict(
        text=ROW + "theorems: declined rows (threshold 0) return exactly the input with a non-empty issue, for every oracle and for "
        "malformed rows and every batch size; solved rows name one of three methods; with the monitored law that inserted water "
        "carries no carbon, solved rows have an empty/absent issue and a reaction with product-side carbon surplus is always declined "
        "(no_late_solve).",
        note=ROWNOTE + "WaterCarbonLaw is an explicit hypothesis, evaluated on every traced row with inserted water.",
        technique="Lean 4 invariant proof over the stage machine (any oracle) + differential correspondence",
        ref="§5 C03"),
    "C04": dict(
        text=ROW + "C04_iff: a row is labelled input-balanced iff the comparator and the carbon check call its input balanced, and then the "
        "reaction is the input, no issue, no confidence — no later stage touches it, for every oracle. Checked on curated balanced "
        "reactions, reversals, multiples, unions, ionic/heavy cases and near misses against an independent RDKit balance.",
        note=ROWNOTE + "balance of the input is judged after atom-map removal (C15 links the two for closed-shell molecules).",
        technique="Lean 4 proof (settled-row invariant, provenance of solved_by) + differential correspondence",
        ref="§5 C04"),
    "C05": dict(
        text="rebalance_eq: for every list of valid/malformed rows and every batch size >= 1, rebalance is the row-wise map (one row per "
        "input row, in order, each reporting its own input; malformed rows in place, unsolved, with an issue); DataLoader slicing "
        "modelled incl. the trailing empty batch (chunks_flatten). Real code exercised with every malformed kind at every position as "
        "list / dict / caller-chosen column names / CSV and JSON datasets (incl. ragged CSV records), ordered pairs of rejected kinds and "
        "mixed lists. The copy loop of the command-line entry point is modelled (Cli.passThrough): C05_cli_passthrough / "
        "C05_cli_other_columns_untouched (record i of the output carries the pass-through values of input record i whatever the "
        "pipeline did to a column of the same name); tied to the real impute run (rows handed to / returned by rebalance and the CSV "
        "written, with pass-through columns named like the pipeline's working columns).",
        note=ROWNOTE + "exceptions inside a pipeline stage (which would discard a batch) are outside the model and show up as a "
        "correspondence break.",
        technique="Lean 4 proof (list algebra of batching) + exhaustive small-scope differential runs",
        ref="§5 C05"),
    "C18": dict(
        text="C18_statistics_agree / C18_attribution: reaction count = input rows, balanced count = #input-balanced, confident count = "
        "#solved by MCS, mcs_applied = #unsolved before the MCS stage, solved <= applied, and (under the two monitored laws) no solved "
        "count below the rows attributed to the method — per row and summed over any batch partition; model statistics compared with "
        "the real stats dict of every traced batch. Dictionary level: merge_stats itself is modelled (mergeStats over ordered key/value "
        "lists) together with the key set each batch writes (a batch without a valid row reports reaction_cnt only); C18_merge_adds "
        "(value-wise sum for ANY two dictionaries), C18_merge_keys (key union), C18_dict_agrees (the caller's dictionary after any "
        "batch size holds the named counts under every key), C18_dict_keys; every real merge_stats call of every traced run and "
        "seeded dictionary pairs are compared with the Lean function as ordered pairs.",
        note=ROWNOTE + "laws WaterCarbonLaw and RbLaw are hypotheses of C18_attribution only, monitored on every traced row.",
        technique="Lean 4 proof (per-row lemmas lifted to sums) + differential correspondence of statistics",
        ref="§5 C18"),
    "C15": dict(
        text="Both regular expressions of remove_atom_mapping modelled as left-to-right scanners over List Char; theorems: the removal acts "
        "token-wise on well-formed bracket tokens, no map class survives, idempotence, and the only tokens that change are map classes and "
        "bracket atoms of the finite shape [X]/[XH]/[XHd]; the chemical half is a table regenerated from RDKit (6 480 valence classes) "
        "proved safe by decide +kernel except the listed oxo-hydride classes (known finding). Scanners tested against CPython re "
        "exhaustively on small alphabets; statement = RDKit identity of every molecule before/after.",
        note=TB + "RDKit valence perception in the generated table; ASCII-only digits (Python \\d also accepts non-ASCII digits).",
        technique="Lean 4 proofs over scanner models + decide +kernel over a regenerated valence table + differential vs CPython re",
        ref="§5 C15"),
    "C16": dict(
        text="Recursive functional-group matcher modelled statement by statement; C16_renumber_invariant proved for every injective "
        "relabelling and every neighbour-list reordering, every config table; fuel irrelevance, completeness (every embedding is found), "
        "soundness for tree patterns without nearby cycles (C16_sound_partial) with kernel-decided witnesses that full soundness is false "
        "(known finding); config table regenerated from the source and checked by decide +kernel.",
        note=TB + "RDKit substructure match is the reference of the executable statement; pattern graphs come from the repo's own config.",
        technique="Lean 4 proofs (induction on fuel / pattern) + generated-table obligations + differential correspondence",
        ref="§5 C16"),
    "C17": dict(
        text="normalize_smiles / wc_similarity control flow modelled with canonicalisation and fingerprints as oracles; "
        "C17_sort_perm_invariant (all token lists, duplicates included), normal form invariant under reordering and respelling, "
        "idempotence, identical variants score 1, symmetry and range from the monitored fingerprint laws; witness that the two-component "
        "key is not invariant. Explicit-hydrogen spellings are a known finding.",
        note=TB + "RDKit canonical SMILES and fingerprints are oracles with laws evaluated on every recorded answer.",
        technique="Lean 4 proofs (sorting/permutation) + differential correspondence + metamorphic statement on the real code",
        ref="§5 C17"),
    "C19": dict(
        text="RuleImputeManager modelled as a state machine; Inv preserved by every step and reachable from empty by any history; frame "
        "theorem for any start state; rejections leave the state unchanged; removal removes only the named entry; recorded composition is "
        "the true one (via C07). Data obligations over the regenerated shipped databases (automated rules satisfy Inv; rules_manager does "
        "so modulo the two listed duplicates = known finding).",
        note=TB + "RDKit validity/atom lists are oracle parameters recorded per SMILES.",
        technique="Lean 4 invariant proof over operation histories + decide +kernel data obligations + exhaustive small-scope correspondence",
        ref="§5 C19"),
})

CHECKS.update({
    "C06": dict(
        text="rebalance_eq + C06 theorems: the result row of a reaction is runIn of that row alone for any surrounding rows, position "
        "and batch size; permuting inputs permutes outputs; statistics of ANY partition into batches sum to the unbatched statistics "
        "and are order independent. Worker counts do not occur in the model; the real id/index plumbing is tied by tracing the same "
        "reactions alone, in one batch and under seeded permutations x batch sizes x worker counts 1..16, with one worker in both "
        "orders, with a rejected row alone in the first batch, as the second and third call on one long-lived object, under "
        "caller-chosen column names, and (rows that never reach the MCS stage) under a fast-running clock, comparing every row and the "
        "stats dict (C06_stats_dict_batch_size_independent at dictionary level).",
        note=ROWNOTE + "load-dependent MCS timeouts are oracle non-determinism (theorems hold for every oracle).",
        technique="Lean 4 proof (list/statistics algebra) + differential layout runs with stage-by-stage correspondence",
        ref="§5 C06"),
    "C11": dict(
        text="A fault pattern is another Oracle: C11_faults_are_local (rows at other positions are exactly their fault-free results, no row "
        "lost) and C11_faulted_row_safe (affected row solved-and-balanced or declined unchanged with a reason) hold for every oracle, "
        "i.e. every subset of timed-out / failed search and fragment-analysis jobs incl. zombie writes. Real faults are injected at the "
        "two guarded functions (raise, or sleep past the 2 s wait then finish) and each faulted run is compared with the model and with "
        "the fault-free run.",
        note=ROWNOTE + "real preemption under CPU load cannot be exhibited by the model; injection only in-process (n_jobs=1).",
        technique="Lean 4 proof (for-all-oracles safety + locality) + fault-injection correspondence",
        ref="§5 C11"),
    "C13": dict(
        text="Threshold occurs only in the last stage (C13_threshold_only_in_last_stage): confidence independent of t, MCS rows solved iff "
        "confidence >= t (exact comparison), demoted rows flagged with an issue, all other rows identical for every t, monotone. "
        "Confidences/thresholds enter the model as exact binary fractions; runs under {0,0.5,1,c-0.001,c,c+0.001} are traced and "
        "compared, each with a fresh object, on one long-lived object whose threshold attribute is changed between calls, and under "
        "caller-chosen column names.",
        note=ROWNOTE + "float32-vs-float comparison is exact comparison of dyadic rationals (NumPy 1.26 compares in float64).",
        technique="Lean 4 proof (structural independence, case analysis) + differential threshold runs",
        ref="§5 C13"),
})

CHECKS.update({
    "C02": dict(
        text="reaction_extends_input: for every oracle satisfying the monitored ContainLaws, every rule database without '>' and every "
        "valid input a>>b the returned reaction is (a++ra)>>(b++pa): the given text of each side is kept verbatim and only suffixes "
        "are appended (rule constraint incl. the added_products split, water insertion, MCS append, curation, reverts); with a "
        "dot-led suffix the '.'-tokens of the input side are exactly the first tokens of the returned side (splitOn_append_dot). "
        "Checked on marker-bearing inputs ([H][H], [H]Br, hydroperoxides, peracids, H2O2) through the real pipeline. The curation "
        "stage (PostProcess.fit, curate_oxidation / curate_reduction, reagent templates regenerated from compounds_template.json) is "
        "itself modelled (Model/PostProcess.lean): C02_curate_laws / C02_curate_shipped discharge the curation half of ContainLaws for "
        "ANY functional-group and radical-count answers under safeSide (no free [O]/[H] token among the given reactants = the "
        "property's precondition), C02_curate_tokens gives the exact token form of a curated reaction, C02_curate_no_raise says when "
        "the stage cannot raise; real fit/__post_process vs the model on traced rows and mutated marker strings.",
        note=ROWNOTE + "ContainLaws.merged (merged compound is '>'-free and appended) and the dot-led suffix are oracle laws "
        "evaluated on every returned row; fgutils' functional-group answer and count_radical_atoms are PPOracle fields (theorems hold "
        "for every answer); RDKit decides 'same molecules' for input_reaction vs raw input.",
        technique="Lean 4 proof (string algebra over List Char + stage invariant, any oracle) + differential correspondence",
        ref="§5 C02"),
    "C14": dict(
        text="Atom order reaches the rule-based path only through the key order of the composition dictionaries: "
        "C14_composition_ignores_atom_order (decompose of permuted atom lists is DictEquiv), comparator verdict, both-side fix, water "
        "step and the whole matcher (dfs_equiv, matchAll_equiv) are invariant under DictEquiv for EVERY rule database, hence the "
        "appended compounds are identical; input-balanced verdict is spelling independent for every oracle. Metamorphic runs "
        "(random SMILES, kekulised, atom maps, shuffled molecules) through the real pipeline compared before post-processing.",
        note=ROWNOTE + "RDKit respellings are trusted to denote the same molecule; the marker tests on the reactant string "
        "([Na]/[K]/[Li]/[H-] tokens, '.[H]' parity) are spelling-sensitive by design and covered by the correspondence.",
        technique="Lean 4 proof (permutation invariance of dictionary algorithms) + metamorphic differential runs",
        ref="§5 C14"),
})

CHECKS.update({
    "C09": dict(
        text="merge / _merge_two_compounds / expansion loop / rule application modelled on explicit graphs; proved: atom list of a merge is "
        "a ++ b (explicit-H of the two bonded atoms adjusted), bonds shifted by |a| plus the new bond, every symbol count additive, "
        "cut-merge round trip (connectivity unconditionally; exact under hOK), merge leaves no boundary, expansion terminates and keeps "
        "the compound (under the decide +kernel table obligation noSwapOnExpansion), reported rules explain the heavy atoms, carbon "
        "conserved; rule tables regenerated from the three JSON files. Real merge on RDKit-cut fragments compared with the model and "
        "against RDKit (sanitises, no boundary, counts, canonical SMILES round trip unless a DOCUMENTED restriction fired: the refused "
        "symbol pairs are pinned in Properties/C09.lean and decided against the regenerated table, C09_table_restrictions_documented); "
        "cores with 2-3 open points (also on one atom) completed in every boundary order and compared with their points one at a time; "
        "isotope-labelled molecules; completions next to identical spectators.",
        note=TB + "rule applicability (functional-group / pattern tests), ReplaceAction, SanitizeMol are oracle answers recorded from the "
        "real run with two monitored laws; valence/sanitisation is RDKit's.",
        technique="Lean 4 proofs over graph/merge model + decide +kernel table obligations + differential correspondence",
        ref="§5 C09"),
    "C10": dict(
        text="get_largest_condition, the id->index re-attachment of MCSSearch.find and the alignment bookkeeping of "
        "IterativeMCSReactionPairs/single_mcs modelled; proved: the retained condition has the maximal total (ties: larger first "
        "pattern, then lowest index), exact skip rule, results land on the row whose id they carry (distinct ids), find is row-local, "
        "mcs_list stays aligned with the sorted reactants for every cancellation pattern (witness: without the placeholder it shifts). "
        "Statement on real searches: sorted_reactants = molecules of the carbon-richer side, every SMARTS matches its molecule, retained "
        "condition maximal, no mixing under reordering and under injected faults / cancelled FindMCS.",
        note=TB + "'genuine MCS' is RDKit's (FindMCS/RascalMCES); substructure containment is monitored with RDKit on every record.",
        technique="Lean 4 proofs (table selection, id plumbing, alignment) + exhaustive small-table correspondence + fault injection",
        ref="§5 C10"),
    "C12": dict(
        text="CacheManager + __try_cache/__rebalance_batch modelled as a state machine over a disk (scan, hit/miss, write = tmp file + one "
        "rename, crash points, external truncation, stray files) with pipeline/key/encode as parameters; C12_history_transparent: from "
        "the empty directory every history of runs, crashes at any point and disk corruptions leaves every completed run equal to the "
        "uncached run (rows and stats), given KeyInjective, load(encode)=id and prefix=garbage; witnesses that a key without the "
        "configuration or an in-place truncating write break it. Real Balancer(cache=True) histories incl. simulated kills at every byte "
        "compared with the model (directory listing, hit pattern) and with cache=False.",
        note=TB + "SHA-256 over canonical JSON treated as injective; os.replace atomic; JSON round trip exact (monitored).",
        technique="Lean 4 refinement/invariant proof over histories + differential history runs with crash injection",
        ref="§5 C12"),
    "C20": dict(
        text="enol / hemiketal rewrites and the (repaired) driver loop modelled on graphs with C/O valence arithmetic; proved: each rewrite "
        "conserves every element count incl. H and the charge when it succeeds, the repaired loop conserves composition and is "
        "idempotent for every oracle satisfying the monitored laws (C20_fixA_conserves, C20_fixA_idempotent), fixed points, and "
        "kernel-decided witnesses of what the pre-fix loop did. Real MoleculeStandardizer compared with the model and against RDKit "
        "(parses, same composition, idempotent, never an error text) on enols, enolates, gem-diols, hemiketals, alkoxides, mixtures, "
        "random atom orders and corpus molecules.",
        note=TB + "functional-group detection (fgutils) and canonical atom order are oracle answers recorded per molecule; fgutils' "
        "answers depend on PYTHONHASHSEED, which the check pins.",
        technique="Lean 4 proofs over a valence-arithmetic graph model + differential correspondence",
        ref="§5 C20"),
})

NOT_YET = "check not built yet in this session (model layer pending); see DESIGN.md §11 build order"


def main():
    checks = []
    for pid in sorted(CHECKS):
        c = CHECKS[pid]
        checks.append(
            {
                "property_id": pid,
                "quick_cmd": "./check %s --tier quick" % pid,
                "thorough_cmd": "./check %s --tier thorough" % pid,
                "evidence_file": "evidence/%s.json" % pid,
                "replay_cmd_template": "./check %s --replay {path}" % pid,
                "engine": "lean-model+correspondence",
                "level_claimed": {"category": "proof", "text": c["text"], "design_ref": c["ref"]},
                "level_note": c["note"],
                "technique": c["technique"],
            }
        )
    allp = ["C%02d" % i for i in range(1, 21)]
    na = [{"property_id": p, "reason": NOT_YET} for p in allp if p not in CHECKS]
    man = {
        "version": 1,
        "setup_cmd": "./setup.sh",
        "hooks": {
            "guard": "SYNRBL_VERIF",
            "enable": "no source hooks: tracing and fault injection wrap public classes from the harness process",
            "baseline_off_cmd": "cd /repo && /venv/bin/python -m pytest -ra -q -p no:cacheprovider --timeout=900 --continue-on-collection-errors",
            "source_commits": [],
            "add_only": True,
        },
        "engines": [
            {
                "name": "lean-model+correspondence",
                "path": "lean/ (model, proofs, driver) + harness/ (translator, correspondence, search)",
                "serves_properties": sorted(CHECKS),
                "kind_free_text": "machine-checked Lean 4 theorems over an executable model; model tied to /repo by regenerated "
                "tables and a differential correspondence check on every run",
            }
        ],
        "checks": checks,
        "not_applicable": na,
        "notes": "See DESIGN.md. fix: commits in /repo are listed in known_findings.json under 'fixed'.",
    }
    with open(os.path.join(HERE, "MANIFEST.json"), "w") as f:
        json.dump(man, f, indent=1)
    print("wrote MANIFEST.json with %d checks, %d not_applicable" % (len(checks), len(na)))


if __name__ == "__main__":
    main()
