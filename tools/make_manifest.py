#!/usr/bin/env python3
"""Writes MANIFEST.json from the table below (kept in one place so that the manifest stays valid and current)."""
import json
import os

HERE = os.path.dirname(os.path.dirname(os.path.abspath(__file__)))

TB = (
    "Lean 4.33.0 kernel (axioms propext, Classical.choice, Quot.sound only; no sorry/native_decide/bv_decide); "
    "harness/gen_tables.py; the correspondence harness and driver JSON glue; "
)

CHECKS = {
    "C07": dict(
        text="Theorems over the executable Lean model of decompose / compare_dicts / diff_dicts / carbon label: exact "
        "per-element counts and net charge, additivity over mixtures, Balance iff equal true composition, and the "
        "Products/Reactants contract (p+diff=r, r+diff=p) for all well-formed dictionaries; the symbol table is regenerated "
        "from the source and re-checked (decide +kernel) on every run; model tied to the code by differential runs.",
        note=TB + "RDKit parsing/AddHs/atom symbols (oracle law Named, monitored); Python dict semantics as in Py/Dict.lean.",
        technique="Lean 4 theorems (induction over dictionaries/atom lists) + generated-table obligation + differential correspondence",
        ref="§5 C07",
    ),
    "C08": dict(
        text="Theorem C08_solutions_sum: for every rule database passing goodDB and every imbalance dictionary, every "
        "completion returned by the matcher uses database compounds with multiplicity >= 1 whose compositions sum to the "
        "imbalance at every key (charge included) — by induction over the depth-first search, any fuel, any database. Table "
        "obligations re-checked against the current JSON files: both shipped databases are good, every recorded composition "
        "equals the one derived from RDKit's atom list of its SMILES, every dihalogen spelling is in the ban list; accepted "
        "reactions contain no banned spelling. Matcher, ranking, constraint and the whole rule-based row function are tied to "
        "the code differentially (solution lists compared including order).",
        note=TB + "RDKit atom lists embedded in the generated tables; Python str/dict/sort semantics (Py/*.lean, tested against "
        "CPython each run); termination of the Python recursion is not proved (the model search is fuel-bounded by the element count).",
        technique="Lean 4 theorems (induction on DFS fuel, dictionary algebra) + decide +kernel table obligations + differential correspondence",
        ref="§5 C08",
    ),
}

NOT_YET = "check not built yet in this session (model layer pending); see DESIGN.md §11 build order"


def main():
    checks = []
    for pid in sorted(CHECKS):
        c = CHECKS[pid]
        checks.append(
            {
                "property_id": pid,
                "quick_cmd": "./check %s --tier quick" % pid,
                "thorough_cmd": "./check %s --tier thorough" % pid,
                "evidence_file": "evidence/%s.json" % pid,
                "replay_cmd_template": "./check %s --replay {path}" % pid,
                "engine": "lean-model+correspondence",
                "level_claimed": {"category": "proof", "text": c["text"], "design_ref": c["ref"]},
                "level_note": c["note"],
                "technique": c["technique"],
            }
        )
    allp = ["C%02d" % i for i in range(1, 21)]
    na = [{"property_id": p, "reason": NOT_YET} for p in allp if p not in CHECKS]
    man = {
        "version": 1,
        "setup_cmd": "./setup.sh",
        "hooks": {
            "guard": "SYNRBL_VERIF",
            "enable": "no source hooks: tracing and fault injection wrap public classes from the harness process",
            "baseline_off_cmd": "cd /repo && /venv/bin/python -m pytest -ra -q -p no:cacheprovider --timeout=900 --continue-on-collection-errors",
            "source_commits": [],
            "add_only": True,
        },
        "engines": [
            {
                "name": "lean-model+correspondence",
                "path": "lean/ (model, proofs, driver) + harness/ (translator, correspondence, search)",
                "serves_properties": sorted(CHECKS),
                "kind_free_text": "machine-checked Lean 4 theorems over an executable model; model tied to /repo by regenerated "
                "tables and a differential correspondence check on every run",
            }
        ],
        "checks": checks,
        "not_applicable": na,
        "notes": "See DESIGN.md. fix: commits in /repo are listed in known_findings.json under 'fixed'.",
    }
    with open(os.path.join(HERE, "MANIFEST.json"), "w") as f:
        json.dump(man, f, indent=1)
    print("wrote MANIFEST.json with %d checks, %d not_applicable" % (len(checks), len(na)))


if __name__ == "__main__":
    main()
