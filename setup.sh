#!/bin/bash
# MANIFEST.setup_cmd: regenerate the data tables from /repo, build the Lean package and the driver. Offline.
set -e
HERE="$(cd "$(dirname "${BASH_SOURCE[0]}")" && pwd)"
cd "$HERE"
export PYTHONPATH="$HERE/harness:/repo"
/venv/bin/python harness/gen_tables.py > /dev/null
cd lean
lake build SynRBLModel driver 2>&1 | grep -v "^✔\|Replayed\|unusedSimpArgs\|Hint: Omit\|\[apply\]\|^$\|^warning\|^  " || true
test -x .lake/build/bin/driver
echo "setup ok"
