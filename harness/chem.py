"""RDKit-side helpers: the *independent* notion of truth used by property statements (composition by atomic number
and formal charge, never through SynRBL's symbol table), corpus access and seeded generators."""
import csv
import os
from collections import Counter

from rdkit import Chem

REPO = os.environ.get("SYNRBL_REPO", "/repo")
_PT = Chem.GetPeriodicTable()


def atoms_of(smiles):
    """[(Z, RDKit symbol, formal charge)] of the hydrogen-completed molecule, None if unparsable"""
    m = Chem.MolFromSmiles(smiles)
    if m is None:
        return None
    m = Chem.AddHs(m)
    return [[a.GetAtomicNum(), a.GetSymbol(), a.GetFormalCharge()] for a in m.GetAtoms()]


def true_comp(smiles):
    """Counter {Z: n, 'Q': charge} (zeros dropped) or None"""
    at = atoms_of(smiles)
    if at is None:
        return None
    c = Counter()
    q = 0
    for z, _, ch in at:
        c[z] += 1
        q += ch
    if q:
        c["Q"] = q
    return dict(c)


def truly_balanced(rxn):
    try:
        r, p = rxn.split(">>")
    except Exception:
        return None
    a, b = true_comp(r), true_comp(p)
    if a is None or b is None:
        return None
    return a == b


def carbon_count(smiles):
    m = Chem.MolFromSmiles(smiles)
    if m is None:
        return None
    return sum(1 for a in m.GetAtoms() if a.GetAtomicNum() == 6)


def element_symbol(z):
    return _PT.GetElementSymbol(z)


_corpus = {}


def validation_rows():
    if "val" not in _corpus:
        path = os.path.join(REPO, "Data/Validation_set/validation_set.csv")
        with open(path) as f:
            _corpus["val"] = list(csv.DictReader(f))
    return _corpus["val"]


def corpus_reactions():
    """the 5 032 validation reactions (atom-mapped SMILES)"""
    return [r["reaction"] for r in validation_rows()]


def expected_reactions():
    """curated balanced reactions shipped with the validation set"""
    return [r["expected_reaction"] for r in validation_rows() if r.get("expected_reaction")]


def corpus_molecules(limit=None):
    if "mols" not in _corpus:
        seen = {}
        for rx in corpus_reactions():
            for side in rx.split(">>"):
                for t in side.split("."):
                    if t and t not in seen:
                        seen[t] = 1
        _corpus["mols"] = list(seen)
    m = _corpus["mols"]
    return m if limit is None else m[:limit]


def strip_maps(smiles):
    """RDKit's own atom-map removal (reference for C15)"""
    m = Chem.MolFromSmiles(smiles)
    if m is None:
        return None
    for a in m.GetAtoms():
        a.SetAtomMapNum(0)
    return Chem.MolToSmiles(m)


def unmapped_corpus_molecules(limit=None):
    key = "umols"
    if key not in _corpus:
        out = {}
        for s in corpus_molecules():
            u = strip_maps(s)
            if u and u not in out:
                out[u] = 1
        _corpus[key] = list(out)
    m = _corpus[key]
    return m if limit is None else m[:limit]


def special_molecules():
    """one molecule per element, ions, isotopes, zwitterions, explicit hydrogens, dot-closures"""
    out = []
    for z in range(1, 119):
        out.append("[%s]" % element_symbol(z))
    out += [
        "[Na+]", "[Cl-]", "[NH4+]", "[OH-]", "[O-]S(=O)(=O)[O-]", "[N+](=O)([O-])c1ccccc1", "C[N+](C)(C)CC([O-])=O",
        "[2H]O[2H]", "[13CH4]", "[H][H]", "[H]Cl", "[H]O[H]", "C([H])([H])([H])[H]", "[U+6]", "[Th+4]", "[UH3]",
        "O=[U]=O", "C1.C1", "C1CC1.O", "[Fe+2].[Cl-].[Cl-]", "[Og]", "[Ts-]", "CC(=O)[O-].[Na+]", "c1ccccc1",
        "c1cc[nH]c1", "OO", "[O][O]", "C#N", "[C-]#[O+]", "N#N", "[N-]=[N+]=[N-]", "[SH2]", "C[SH2]C", "[PH5]",
        "B(O)(O)O", "[Si](C)(C)(C)C", "[Se]=C", "[te]1cccc1", "[As](C)(C)C", "Cl[Sn](Cl)(Cl)Cl", "[Mg+2]", "[Al+3]",
    ]
    return out
