"""Correspondence runners for the pure model layers: each runs the real SynRBL code and the Lean driver on the
same inputs and records disagreements through ctx.corr_break.  Shared by several properties."""
import itertools
import json

from core import quiet

quiet()


# ------------------------------------------------------------------------------------------------ helpers
def dict_pairs(d):
    return [[k, int(v)] for k, v in d.items()]


def real_rule_based_analysis(pairs, n_jobs=1):
    """Run the *real* RuleBasedMethod.run on arbitrary composition-dictionary pairs.

    The decomposer is replaced by one that returns the given dictionaries and filter_data is wrapped to capture
    the records (Unbalance, Diff_formula, products) the method computes; everything between — RSMIComparator,
    BothSideReact, the water-insertion loop — is the repository's own code.
    Returns per pair: verdict/diff of the comparator and (verdict, formula, waters) after the water step."""
    import copy

    import synrbl.rule_based as rb
    from synrbl.SynProcessor import RSMIComparator

    first = []
    for r, p in pairs:
        first.append((RSMIComparator.compare_dicts(r, p), RSMIComparator.diff_dicts(r, p)))

    class FakeDecomposer:
        def __init__(self, *a, **k):
            pass

        def data_decomposer(self):
            return [copy.deepcopy(r) for r, _ in pairs], [copy.deepcopy(p) for _, p in pairs]

    captured = {}
    orig_filter = rb.filter_data

    def cap_filter(data, *a, **k):
        if "all" not in captured:
            captured["all"] = copy.deepcopy(data)
        return orig_filter(data, *a, **k)

    class FakeImputer:
        def __init__(self, *a, **k):
            pass

        def parallel_impute(self, data, n_jobs=1):
            return []

    reactions = [
        {"reaction": "A>>B", "id": str(i), "carbon_balance_check": "balanced"} for i in range(len(pairs))
    ]
    saved = (rb.RSMIDecomposer, rb.filter_data, rb.SyntheticRuleImputer)
    try:
        rb.RSMIDecomposer = FakeDecomposer
        rb.filter_data = cap_filter
        rb.SyntheticRuleImputer = FakeImputer
        m = rb.RuleBasedMethod("id", "reaction", "reaction", n_jobs=n_jobs)
        m.run(reactions)
    finally:
        rb.RSMIDecomposer, rb.filter_data, rb.SyntheticRuleImputer = saved
    out = []
    recs = captured.get("all", [])
    assert len(recs) == len(pairs), (len(recs), len(pairs))
    for (v, d), rec in zip(first, recs):
        out.append(
            {
                "verdict": v,
                "diff": dict_pairs(d),
                "verdict3": rec["Unbalance"],
                "formula": dict_pairs(rec["Diff_formula"]),
                "waters": rec["products"].count(".O"),
                "reaction": rec["reaction"],
            }
        )
    return out


def corr_analyse(ctx, pairs, layer="Compare/BothSide/Water"):
    """model `analyse` vs the real comparator + both-side fix + water step"""
    real = real_rule_based_analysis(pairs)
    ops = [{"op": "analyse", "r": dict_pairs(r), "p": dict_pairs(p)} for r, p in pairs]
    model = ctx.driver(ops)
    bad = 0
    for (r, p), a, b in zip(pairs, real, model):
        key = (json.dumps(dict_pairs(r)), json.dumps(dict_pairs(p)))
        ctx.case(key, nontrivial=(a["verdict"] != "Balance"))
        ctx.count("verdict:" + a["verdict"])
        ctx.count("after-fix:" + a["verdict3"])
        same = (
            a["verdict"] == b.get("verdict")
            and a["diff"] == b.get("diff")
            and a["verdict3"] == b.get("verdict3")
            and a["formula"] == b.get("formula")
            and a["waters"] == b.get("waters")
        )
        if not same:
            bad += 1
            if bad <= 3:
                ctx.corr_break(layer, {"r": r, "p": p}, b, a)
    ctx.traces += len(pairs)
    return real, model


def small_dicts(keys, values, qvalues):
    """all dictionaries over `keys` (each absent or one of `values`) with Q absent or one of `qvalues`, in
    both key orders of Q (first / last)"""
    out = []
    for combo in itertools.product([None] + list(values), repeat=len(keys)):
        base = [(k, v) for k, v in zip(keys, combo) if v is not None]
        out.append(dict(base))
        for q in qvalues:
            out.append(dict(base + [("Q", q)]))
            if base:
                out.append(dict([("Q", q)] + base))
    return out


def real_decompose(smiles_list):
    from synrbl.SynProcessor import RSMIDecomposer

    return [RSMIDecomposer.decompose(s) for s in smiles_list]
