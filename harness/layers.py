"""Correspondence runners for the pure model layers: each runs the real SynRBL code and the Lean driver on the
same inputs and records disagreements through ctx.corr_break.  Shared by several properties."""
import itertools
import json

from core import quiet

quiet()


# ------------------------------------------------------------------------------------------------ helpers
def dict_pairs(d):
    return [[k, int(v)] for k, v in d.items()]


def real_rule_based_analysis(pairs, n_jobs=1):
    """Run the *real* RuleBasedMethod.run on arbitrary composition-dictionary pairs.

    The decomposer is replaced by one that returns the given dictionaries and filter_data is wrapped to capture
    the records (Unbalance, Diff_formula, products) the method computes; everything between — RSMIComparator,
    BothSideReact, the water-insertion loop — is the repository's own code.
    Returns per pair: verdict/diff of the comparator and (verdict, formula, waters) after the water step."""
    import copy

    import synrbl.rule_based as rb
    from synrbl.SynProcessor import RSMIComparator

    first = []
    for r, p in pairs:
        first.append((RSMIComparator.compare_dicts(r, p), RSMIComparator.diff_dicts(r, p)))

    class FakeDecomposer:
        def __init__(self, *a, **k):
            pass

        def data_decomposer(self):
            return [copy.deepcopy(r) for r, _ in pairs], [copy.deepcopy(p) for _, p in pairs]

    captured = {}
    orig_filter = rb.filter_data

    def cap_filter(data, *a, **k):
        if "all" not in captured:
            captured["all"] = copy.deepcopy(data)
        return orig_filter(data, *a, **k)

    class FakeImputer:
        def __init__(self, *a, **k):
            pass

        def parallel_impute(self, data, n_jobs=1):
            return []

    reactions = [
        {"reaction": "A>>B", "id": str(i), "carbon_balance_check": "balanced"} for i in range(len(pairs))
    ]
    saved = (rb.RSMIDecomposer, rb.filter_data, rb.SyntheticRuleImputer)
    try:
        rb.RSMIDecomposer = FakeDecomposer
        rb.filter_data = cap_filter
        rb.SyntheticRuleImputer = FakeImputer
        m = rb.RuleBasedMethod("id", "reaction", "reaction", n_jobs=n_jobs)
        m.run(reactions)
    finally:
        rb.RSMIDecomposer, rb.filter_data, rb.SyntheticRuleImputer = saved
    out = []
    recs = captured.get("all", [])
    assert len(recs) == len(pairs), (len(recs), len(pairs))
    for (v, d), rec in zip(first, recs):
        out.append(
            {
                "verdict": v,
                "diff": dict_pairs(d),
                "verdict3": rec["Unbalance"],
                "formula": dict_pairs(rec["Diff_formula"]),
                "waters": rec["products"].count(".O"),
                "reaction": rec["reaction"],
            }
        )
    return out


def corr_analyse(ctx, pairs, layer="Compare/BothSide/Water"):
    """model `analyse` vs the real comparator + both-side fix + water step"""
    real = real_rule_based_analysis(pairs)
    ops = [{"op": "analyse", "r": dict_pairs(r), "p": dict_pairs(p)} for r, p in pairs]
    model = ctx.driver(ops)
    bad = 0
    for (r, p), a, b in zip(pairs, real, model):
        key = (json.dumps(dict_pairs(r)), json.dumps(dict_pairs(p)))
        ctx.case(key, nontrivial=(a["verdict"] != "Balance"))
        ctx.count("verdict:" + a["verdict"])
        ctx.count("after-fix:" + a["verdict3"])
        same = (
            a["verdict"] == b.get("verdict")
            and a["diff"] == b.get("diff")
            and a["verdict3"] == b.get("verdict3")
            and a["formula"] == b.get("formula")
            and a["waters"] == b.get("waters")
        )
        if not same:
            bad += 1
            if bad <= 3:
                ctx.corr_break(layer, {"r": r, "p": p}, b, a)
    ctx.traces += len(pairs)
    return real, model


def small_dicts(keys, values, qvalues):
    """all dictionaries over `keys` (each absent or one of `values`) with Q absent or one of `qvalues`, in
    both key orders of Q (first / last)"""
    out = []
    for combo in itertools.product([None] + list(values), repeat=len(keys)):
        base = [(k, v) for k, v in zip(keys, combo) if v is not None]
        out.append(dict(base))
        for q in qvalues:
            out.append(dict(base + [("Q", q)]))
            if base:
                out.append(dict([("Q", q)] + base))
    return out


def real_decompose(smiles_list):
    from synrbl.SynProcessor import RSMIDecomposer

    return [RSMIDecomposer.decompose(s) for s in smiles_list]


# ------------------------------------------------------------------------------------------------ strings
def corr_str(ctx, cases):
    """Py/Str.lean vs CPython on (s, sub) pairs"""
    import re

    ops = [{"op": "str", "s": s, "sub": sub} for s, sub in cases]
    model = ctx.driver(ops)
    bad = 0
    for (s, sub), m in zip(cases, model):
        real = {
            "split": s.split("."),
            "join": ".".join(s.split(".")),
            "has": sub in s,
            "count": s.count(sub),
            "remove": s.replace(sub, ""),
            "ends": s.endswith(sub),
            "arrow": s.split(">>"),
            "dropmaps": re.sub(r":\d+", "", s),
        }
        ctx.case(("str", s, sub), nontrivial=(sub in s))
        if m != real:
            bad += 1
            if bad <= 3:
                ctx.corr_break("Py/Str", {"s": s, "sub": sub}, m, real)
    ctx.traces += len(cases)


def gen_strings(rng, n, alphabet=".[]HO:>1C", subs=(".[H]", ".[O]", ".OO", ">>", ".", ":1")):
    out = []
    for _ in range(n):
        k = rng.randint(0, 12)
        s = "".join(rng.choice(alphabet) for _ in range(k))
        if rng.random() < 0.5:
            # plant occurrences, possibly overlapping
            sub = rng.choice(subs)
            pos = rng.randint(0, len(s))
            s = s[:pos] + sub * rng.randint(1, 3) + s[pos:]
        out.append((s, rng.choice(subs)))
    return out


# ------------------------------------------------------------------------------------------------ rule databases
_DB = {}


def load_db(name):
    """the shipped rule databases exactly as the code loads them"""
    import os

    from gen_tables import load_json_maybe_gz
    from core import REPO

    if name not in _DB:
        rel = {
            "rulesManager": "synrbl/SynRuleImputer/rules_manager.json.gz",
            "automatedRules": "Data/Rules/automated_rules.json.gz",
        }[name]
        _DB[name] = load_json_maybe_gz(os.path.join(REPO, rel))
    return _DB[name]


def corr_tables(ctx):
    """round trip of the translator: the driver echoes the generated tables, compare with what Python loads"""
    t = ctx.driver([{"op": "tables"}])[0]
    for name in ("rulesManager", "automatedRules"):
        db = load_db(name)
        want = [{"smiles": e["smiles"], "comp": dict_pairs(e["Composition"])} for e in db]
        got = [{"smiles": e["smiles"], "comp": e["comp"]} for e in t.get(name, [])]
        ctx.case("table:" + name)
        if want != got:
            ctx.corr_break("gen_tables:" + name, name, got[:3], want[:3])
    from synrbl.SynProcessor import RSMIDecomposer

    want = [[int(k), v] for k, v in RSMIDecomposer.atomic_symbols.items()]
    ctx.case("table:atomicSymbols")
    if want != t.get("atomicSymbols"):
        ctx.corr_break("gen_tables:atomicSymbols", "atomicSymbols", t.get("atomicSymbols"), want)
    return t


def real_match(db, data):
    import copy

    from synrbl.SynRuleImputer.synthetic_rule_matcher import SyntheticRuleMatcher

    m = SyntheticRuleMatcher(copy.deepcopy(db), dict(data), select="all", ranking="ion_priority")
    return [[[st["smiles"], st["Ratio"]] for st in sol] for sol in m.match()]


class _Timeout(Exception):
    pass


def with_alarm(seconds, fn, *a):
    """run fn(*a) under a wall-clock budget (the real depth-first search is exponential on large vectors)"""
    import signal

    def h(*_):
        raise _Timeout()

    old = signal.signal(signal.SIGALRM, h)
    signal.setitimer(signal.ITIMER_REAL, seconds)
    try:
        return fn(*a)
    finally:
        signal.setitimer(signal.ITIMER_REAL, 0)
        signal.signal(signal.SIGALRM, old)


def corr_match(ctx, vectors, dbname="rulesManager", budget=1.0):
    db = load_db(dbname)
    real = []
    kept = []
    for d in vectors:
        try:
            real.append(with_alarm(budget, real_match, db, d))
            kept.append(d)
        except RecursionError:
            real.append("recursion")
            kept.append(d)
        except _Timeout:
            ctx.count("match:%s:skipped-over-budget" % dbname)
    vectors[:] = kept
    ops = [{"op": "match", "db": dbname, "data": dict_pairs(d)} for d in vectors]
    model = ctx.driver(ops)
    bad = 0
    for d, r, m in zip(vectors, real, model):
        ctx.case(("match", dbname, json.dumps(dict_pairs(d))), nontrivial=bool(r))
        ctx.count("match:%s:solutions=%s" % (dbname, min(len(r), 5) if isinstance(r, list) else r))
        if m.get("solutions") != r:
            bad += 1
            if bad <= 3:
                ctx.corr_break("Matcher(" + dbname + ")", d, m, r)
    ctx.traces += len(vectors)
    return real


def real_constraint(entries, ban):
    from synrbl.SynRuleImputer.synthetic_rule_constraint import RuleConstraint

    out = []
    for e in entries:
        c, u = RuleConstraint([dict(e)], ban_atoms=list(ban)).fit()
        rec = (c + u)[0]
        out.append({"new_reaction": rec["new_reaction"], "certain": len(c) == 1})
    return out


def corr_constraint(ctx, entries, ban_source):
    real = real_constraint(entries, ban_source)
    ops = []
    for e in entries:
        o = {"op": "constraint", "reactants": e["reactants"], "products": e["products"]}
        if "added_products" in e:
            o["added"] = e["added_products"]
        ops.append(o)
    model = ctx.driver(ops)
    bad = 0
    for e, r, m in zip(entries, real, model):
        ctx.case(("constraint", json.dumps(e, sort_keys=True)), nontrivial=r["new_reaction"] != e["reactants"] + ">>" + e["products"])
        ctx.count("constraint:certain=%s" % r["certain"])
        if m != r:
            bad += 1
            if bad <= 3:
                ctx.corr_break("Constraint", e, m, r)
    ctx.traces += len(entries)
    return real


def real_rule_based_rows(rows, n_jobs=1):
    """the real RuleBasedMethod.run on rows {reaction, id, carbon_balance_check}; returns (rows after, stats)"""
    import copy

    from synrbl.rule_based import RuleBasedMethod

    rows = copy.deepcopy(rows)
    stats = {}
    RuleBasedMethod("id", "reaction", "reaction", n_jobs=n_jobs).run(rows, stats=stats)
    return rows, stats


def corr_rbrows(ctx, rxns, labels):
    """model rbRow (fed with the real decomposer's dictionaries) vs the real rule-based stage"""
    from synrbl.SynProcessor import RSMIDecomposer

    rows = [{"reaction": r, "id": str(i), "carbon_balance_check": l} for i, (r, l) in enumerate(zip(rxns, labels))]
    after, stats = real_rule_based_rows(rows)
    ops = []
    for r, l in zip(rxns, labels):
        rs, ps = r.split(">>")
        ops.append(
            {
                "op": "rbRow",
                "reaction": r,
                "carbon": l,
                "r": dict_pairs(RSMIDecomposer.decompose(rs)),
                "p": dict_pairs(RSMIDecomposer.decompose(ps)),
            }
        )
    model = ctx.driver(ops)
    bad = 0
    for r, a, m in zip(rxns, after, model):
        ctx.case(("rbrow", r), nontrivial=a["reaction"] != r)
        ctx.count("rbrow:%s" % ("edited" if a["reaction"] != r else "unchanged"))
        if m.get("reaction") != a["reaction"]:
            bad += 1
            if bad <= 3:
                ctx.corr_break("RuleBased.rbRow", r, m, a["reaction"])
    mstats = {
        "balanced_cnt": sum(1 for m in model if m.get("countedBalanced")),
        "rb_applied": sum(1 for m in model if m.get("applied")),
        "rb_solved": sum(1 for m in model if m.get("solved")),
    }
    if mstats != stats:
        ctx.corr_break("RuleBased.stats", {"n": len(rxns)}, mstats, stats)
    ctx.traces += len(rxns)
    return after, stats, model


def corr_impute_two_databases(ctx, vectors):
    """`SyntheticRuleImputer.single_impute` with BOTH shipped databases interleaved in one process (a result may not
    depend on which database was used before) vs the model's imputeTokens; returns the real appended tokens"""
    import copy

    from synrbl.SynRuleImputer.synthetic_rule_imputer import SyntheticRuleImputer

    out = []
    order = ["rulesManager", "automatedRules", "rulesManager", "automatedRules"]
    for d in vectors:
        for dbname in order:
            db = load_db(dbname)
            entry = {"Diff_formula": dict(d), "Unbalance": "Products", "reactants": "A", "products": "B"}
            try:
                res = with_alarm(1.5, SyntheticRuleImputer.single_impute, entry, copy.deepcopy(db), "all", "ion_priority")
            except _Timeout:
                ctx.count("impute:skipped-over-budget")
                continue
            toks = res["products"].split(".")[1:] if "new_reaction" in res else None
            out.append((dbname, d, toks))
    ops = [{"op": "impute", "db": dbname, "data": dict_pairs(d)} for dbname, d, _ in out]
    model = ctx.driver(ops)
    bad = 0
    for (dbname, d, toks), m in zip(out, model):
        ctx.case(("impute", dbname, json.dumps(dict_pairs(d))), nontrivial=toks is not None)
        ctx.count("impute:%s:%s" % (dbname, "tokens" if toks else "none"))
        if m.get("tokens") != toks:
            bad += 1
            if bad <= 3:
                ctx.corr_break("Imputer(" + dbname + ")", d, m, toks)
    ctx.traces += len(out)
    return out
