"""Shared pipeline workloads for the row-machine properties (C01-C06, C11, C13, C14, C18): traced runs of the
real Balancer, cached under /verif/.cache keyed by the hash of /repo's working tree, tier, seed and workload name
(so still a function of the current tree), and the model-vs-implementation comparison of every traced batch."""
import fcntl
import hashlib
import json
import os
import pickle
import time

import chem
import trace
from core import VERIF, quiet, repo_tree_hash

quiet()
CACHE = os.path.join(VERIF, ".cache")
HARNESS_VERSION = "9"

SPECIALS = [
    # redox pairs that reach the reagent templates, halide losses, ions, heavy elements, markers, peroxides
    "CC(=O)C>>CC(O)C", "CCO>>CC=O", "CCO>>CC(=O)O", "CCCCO>>CCCC(=O)O", "CC=O>>CC(=O)O", "CC(=O)O>>CCO", "CC(=O)OC>>CCO",
    "CC(C)=O>>CC(C)O", "OCc1ccccc1>>O=Cc1ccccc1", "OCc1ccccc1>>OC(=O)c1ccccc1", "CC(O)CC>>CC(=O)CC",
    "C(CC(C=1C=C2C(N(C)C(=N2)CO)=CC=1OC)=O)C.O>>O=C(O)C=1N(C)C=2C(=CC(=C(OC)C=2)C(CCC)=O)N=1",
    "[U]>>[Th]", "[U+6].[O-2].[O-2].[O-2]>>O=[U](=O)=O", "C>>C", "CC>>CC", "[Na+].[Cl-]>>[Na+].[Cl-]",
    "CC(=O)OCC.O>>CC(=O)O", "CC(=O)OCC>>CC(=O)O", "CCBr.[Na+].[OH-]>>CCO", "CCCl>>CC", "ClCCl>>C", "CCI.CCBr>>CCCC",
    "c1ccccc1.OOC(C)(C)C.N>>c1ccccc1.OOC(C)(C)C", "CC(=O)C.O>>CC(=O)C.OO", "CC(O)C.[H][H]>>CC(C)=O",
    "O=CC1=CC=CC=C1.C=CCBr>>OC(CC=C)C1=CC=CC=C1.[H]Br", "CC(=O)Cl.OCC>>CC(=O)OCC", "CC(=O)Cl.NCC>>CC(=O)NCC",
    "CC(=O)O.OCC>>CC(=O)OCC", "CCO>>CCOCC", "C>>CC", "CC>>C", "CCO>>CCCO", "CC(=O)OCC.CCN.CCCCBr>>CC(=O)NCC",
    "[CH3:1][CH2:2][OH:3]>>[CH3:1][CH:2]=[O:3]", "[CH3:1][C:2](=[O:3])[OH:4].[CH3:5][OH:6]>>[CH3:1][C:2](=[O:3])[O:6][CH3:5]",
    "C[SH2]C>>CSC", "CS(=O)(=O)Cl.CN>>CNS(C)(=O)=O", "C[Mg]Br.CC=O>>CC(C)O", "CC[N+](C)(C)C>>CCN(C)C", "C1.C1>>CC",
    "OC(=O)c1ccccc1>>OCc1ccccc1", "O=Cc1ccccc1>>OCc1ccccc1", "CC#N>>CCN", "CC(=O)N>>CCN", "c1ccccc1[N+](=O)[O-]>>Nc1ccccc1",
    "CCOC(C)=O.[Li+].[OH-]>>CC(=O)[O-]", "COc1ccccc1>>Oc1ccccc1", "CC(C)(C)OC(=O)NCC>>NCC",
    # placeholder atoms already present in the input, on rows that go to the MCS stage and stay unbalanced (charge):
    # whatever post-processing does with the placeholders must not leak into a declined row
    "O=S(=O)(Cl)c1ccc(Br)cc1.[H].[H]>>O=S([O-])c1ccc(Br)cc1", "CCOC(=O)c1ccccc1.[H]>>[O-]Cc1ccccc1",
    "CC(=O)OCC.[H].[H].[H]>>CC[O-]", "CCCCBr.[O]>>CCCC[O-]", "CC(C)Cl.[O].[O]>>CC(C)[O-]", "CCOC(C)=O.[H].[H]>>CC(=O)[O-]",
    "c1ccccc1COC(C)=O.[H].[H]>>[O-]Cc1ccccc1", "CCBr.[H]>>CC[NH3+]", "ClCc1ccccc1.[H].[H].[H]>>[O-]Cc1ccccc1",
    # spectator-heavy reactions the scoring model gives a confidence of (almost) exactly 0 — the boundary of `>= threshold`
    # at the default threshold 0
    "C1CCNCC1.O=CC.CC(C)(C)OOC(C)(C)C.CC#N>>CC(=O)N1CCCCC1", "NCc1ccccc1.O=Cc1ccc(Cl)cc1.CC(C)(C)OO>>O=C(NCc1ccccc1)c1ccc(Cl)cc1",
    "CCCCN.O=Cc1ccncc1.CC(C)(C)OOC(C)(C)C.c1ccccc1>>CCCCNC(=O)c1ccncc1", "NCCO.O=Cc1ccco1.CC(C)(C)OO.ClCCl>>O=C(NCCO)c1ccco1",
    "CCNCC.O=Cc1ccccc1.CC(C)(C)OOC(C)(C)C.CC#N>>CCN(CC)C(=O)c1ccccc1",
    # isotope-labelled hydrogen: explicit graph atoms bonded to heavy atoms (D2 addition, deuterated reagents, D/H exchange)
    "C=C.[2H][2H]>>[2H]CC[2H]", "[2H]O[2H].CC(=O)Cl>>CC(=O)O[2H]", "CC(=O)C.[2H][2H]>>CC(O[2H])([2H])C", "[2H]C([2H])([2H])O>>[2H]C([2H])=O",
    "C#C.[3H][3H]>>[3H]C=C[3H]", "CC=O.[2H][2H]>>CC([2H])O",
    # one reduction / oxidation per functional group the group matcher knows, whether or not a reagent template is mapped to
    # the group today (nitrile, imine, alkene, alkyne, nitro, azide, ester, acid, amide; sulfide, alkene, amine, diol, aldehyde)
    "CC#N>>CCN", "N#Cc1ccccc1>>NCc1ccccc1", "CC=NC>>CCNC", "C=CC>>CCC", "C#CC>>C=CC", "O=[N+]([O-])c1ccccc1>>Nc1ccccc1", "CN=[N+]=[N-]>>CN",
    "CC(=O)OC>>CCO.CO", "CC(=O)O>>CCO", "CC(=O)N>>CCN", "CC=O>>CC(=O)O", "CSC>>CS(C)=O", "C=C>>C1CO1", "CN(C)C>>C[N+](C)(C)[O-]",
    "CC(O)CO>>CC(=O)C=O", "CCO>>CC(=O)O", "Cc1ccccc1>>O=C(O)c1ccccc1",
]


def tree_key(name, tier, seed, extra=""):
    h = hashlib.sha256()
    h.update(repo_tree_hash().encode())
    h.update(("|%s|%s|%s|%s|%s" % (HARNESS_VERSION, name, tier, seed, extra)).encode())
    return h.hexdigest()[:24]


def cached(name, tier, seed, fn, extra=""):
    """compute-once per (tree, tier, seed, workload); concurrent checks wait on a lock"""
    os.makedirs(CACHE, exist_ok=True)
    key = tree_key(name, tier, seed, extra)
    path = os.path.join(CACHE, "%s-%s.pkl" % (name, key))
    lock = open(os.path.join(CACHE, "%s.lock" % name), "w")
    fcntl.flock(lock, fcntl.LOCK_EX)
    try:
        if os.path.exists(path):
            try:
                with open(path, "rb") as f:
                    return pickle.load(f)
            except Exception:
                pass
        # drop stale entries of this workload
        old = sorted((fn_ for fn_ in os.listdir(CACHE) if fn_.startswith(name + "-") and fn_.endswith(".pkl")),
                     key=lambda f: os.path.getmtime(os.path.join(CACHE, f)), reverse=True)
        for fn_ in old[3:]:  # keep the three most recent trees (several trees may be checked side by side)
            try:
                os.remove(os.path.join(CACHE, fn_))
            except OSError:
                pass
        val = fn()
        tmp = path + ".tmp"
        with open(tmp, "wb") as f:
            pickle.dump(val, f)
        os.replace(tmp, path)
        return val
    finally:
        fcntl.flock(lock, fcntl.LOCK_UN)
        lock.close()


def traced_run(reactions, n_jobs=8, batch_size=None, threshold=0, stats=True, balancer=None):
    """run the real Balancer under the tracer; returns dict(out, stats, batches, error, wall); `balancer`: reuse this
    object (a long-lived service object called again) instead of constructing one"""
    import copy

    from synrbl import Balancer

    b = balancer if balancer is not None else Balancer(n_jobs=n_jobs, batch_size=batch_size, confidence_threshold=threshold)
    st = {} if stats else None
    t0 = time.time()
    err = None
    out = None
    with trace.Tracer() as T:
        try:
            out = b.rebalance(copy.deepcopy(reactions), output_dict=True, stats=st)
        except Exception as e:  # the public API raised
            err = "%s: %s" % (type(e).__name__, e)
    batches = []
    for bt in T.batches:
        batches.append({k: v for k, v in bt.items()})
    return {"inputs": reactions, "out": out, "stats": st, "batches": batches, "error": err, "wall": time.time() - t0,
            "threshold": threshold, "batch_size": batch_size, "n_jobs": n_jobs, "merges": list(T.merges)}


def mix_inputs(ctx_seed, tier):
    import random

    rng = random.Random(ctx_seed * 7919 + 13)
    n = 150 if tier == "quick" else 5032
    rx = chem.corpus_reactions()
    pick = rx if n >= len(rx) else rng.sample(rx, n)
    return list(pick) + list(SPECIALS)


def workload_mix(ctx):
    """the shared trace: corpus sample + specials, threshold 0, two batches"""

    def compute():
        inputs = mix_inputs(ctx.seed, ctx.tier)
        bs = (len(inputs) + 1) // 2 if ctx.tier == "quick" else 600
        return traced_run(inputs, n_jobs=12, batch_size=bs, threshold=0)

    return cached("mix", ctx.tier, ctx.seed, compute)


def add_maps(rxn):
    """the reaction with an atom-map number on every atom (RDKit), or None"""
    from rdkit import Chem

    out, n = [], 1
    for side in rxn.split(">>"):
        m = Chem.MolFromSmiles(side)
        if m is None or m.GetNumAtoms() == 0:
            return None
        for a in m.GetAtoms():
            a.SetAtomMapNum(n)
            n += 1
        out.append(Chem.MolToSmiles(m))
    return ">>".join(out) if len(out) == 2 else None


CONFIGS = {
    # name: (constructor arguments, attributes set afterwards, row form)
    "default": ({"n_jobs": 4}, {}, "str"),
    "columns-rxn-rid": ({"n_jobs": 4, "reaction_col": "rxn", "id_col": "rid", "batch_size": 9}, {}, "dict"),
    "one-worker-batches-of-3": ({"n_jobs": 1, "batch_size": 3}, {}, "str"),
    "threshold-0.5": ({"n_jobs": 4, "confidence_threshold": 0.5}, {}, "str"),
    "columns-rxn-rid-threshold-0.9": ({"n_jobs": 2, "reaction_col": "rxn", "id_col": "rid", "confidence_threshold": 0.9, "batch_size": 11}, {}, "dict"),
    "keep-atom-maps": ({"n_jobs": 4}, {"remove_aam": False}, "mapped"),
}


def workload_configs(ctx):
    """untraced runs of one seeded set of small reactions under several configurations (the properties quantify over
    configurations); rows are renamed to the default column names; cached per tree like the shared trace"""

    def compute():
        import copy
        import random

        from synrbl import Balancer

        rng = random.Random(ctx.seed * 31 + 5)
        n = 40 if ctx.tier == "quick" else 400
        pool = [r for r in mix_inputs(ctx.seed, ctx.tier) if is_small(r, 40)]
        pool = pool if len(pool) <= n else rng.sample(pool, n)
        pool += ["xx>>C", "CC>>CC", "[Na+].[Cl-]>>[Na+].[Cl-]"]
        res = {}
        for name, (kw, attrs, form) in CONFIGS.items():
            rc = kw.get("reaction_col", "reaction")
            ins = list(pool)
            if form == "mapped":
                ins = [add_maps(r) or r for r in pool]
            rows = ins if form != "dict" else [{rc: r, kw.get("id_col", "id"): 100 + 7 * i, "note": i} for i, r in enumerate(ins)]
            st = {}
            try:
                b = Balancer(**kw)
                for k, v in attrs.items():
                    setattr(b, k, v)
                out = b.rebalance(copy.deepcopy(rows), output_dict=True, stats=st)
                out = [dict({k: v for k, v in r.items() if k != rc}, reaction=r.get(rc)) for r in out]
                err = None
            except Exception as e:
                out, err = None, "%s: %s" % (type(e).__name__, e)
            res[name] = {"inputs": ins, "out": out, "stats": st, "error": err, "threshold": kw.get("confidence_threshold", 0),
                         "batch_size": kw.get("batch_size"), "n_jobs": kw.get("n_jobs"), "keep_maps": attrs.get("remove_aam") is False}
        return res

    return cached("configs", ctx.tier, ctx.seed, compute)


def each_config(ctx, fn, with_kept_maps=True):
    """apply an executable statement to the run of every configuration; a configuration under which the public API raises
    is a violation of every row-level property (no row comes back); `with_kept_maps=False` leaves out the run that keeps
    the atom maps (for statements that speak about the map-free text)"""
    for name, tr in workload_configs(ctx).items():
        if tr.get("keep_maps") and not with_kept_maps:
            continue
        ctx.count("configuration:" + name)
        if tr["out"] is None:
            ctx.violation("run-raises-under-configuration", {"configuration": name, "arguments": CONFIGS[name][0], "attributes": CONFIGS[name][1]},
                          str(tr["error"]), "synrbl/balancing.py:Balancer.rebalance")
            continue
        if len(tr["out"]) != len(tr["inputs"]):
            # rows (a whole batch, typically) silently dropped: no statement about rows can be evaluated on what is missing
            ctx.violation("rows-lost-under-configuration", {"configuration": name, "arguments": CONFIGS[name][0], "attributes": CONFIGS[name][1]},
                          "%d rows returned for %d inputs" % (len(tr["out"]), len(tr["inputs"])), "synrbl/balancing.py:__rebalance_batch")
            continue
        fn(name, tr)


def is_small(rxn, max_heavy=45):
    """reactions whose MCS searches are far from the 1 s / 2 s wall-clock budgets (used wherever two real runs are compared,
    so that a load-dependent timeout cannot masquerade as a difference)"""
    from rdkit import Chem

    try:
        a, b = rxn.split(">>")
    except ValueError:
        return False
    ma, mb = Chem.MolFromSmiles(a), Chem.MolFromSmiles(b)
    return ma is not None and mb is not None and ma.GetNumHeavyAtoms() <= max_heavy and mb.GetNumHeavyAtoms() <= max_heavy


def hit_by_real_timeout(row):
    """the row's own search or fragment analysis ran into a wall-clock timeout (an oracle answer that depends on load)"""
    i = row.get("issue")
    return isinstance(i, str) and "terminated by timeout" in i


def compare_trace(ctx, tr, layer="Pipeline"):
    """model vs implementation on every batch of a traced run; also monitors the oracle laws"""
    n = 0
    if tr.get("out") is not None and len(tr["out"]) != len(tr["inputs"]):
        # the model returns one row per input; rows (whole batches, typically) are missing from the real result
        ctx.corr_break(layer + ":rows-lost", {"inputs": len(tr["inputs"]), "batch_size": tr.get("batch_size")},
                       "%d rows" % len(tr["inputs"]), "%d rows" % len(tr["out"]))
    for bt in tr["batches"]:
        if bt.get("error"):
            ctx.corr_break(layer + ":batch-raised", {"n": bt.get("n_in")}, "model never raises", bt["error"])
            continue
        ans = trace.compare_batch(ctx, bt, layer)
        if ans is not None:
            n += len(ans)
            monitor_laws(ctx, bt, ans)
    compare_merges(ctx, tr, layer)
    return n


def compare_merges(ctx, tr, layer="Pipeline"):
    """every real `merge_stats` call of the run against the Lean `mergeStats` (ordered key/value pairs), and the caller's
    final dictionary against the fold over the batch dictionaries"""
    merges = [m for m in tr.get("merges") or [] if m["before"] is not None and m["new"] is not None]
    if not merges:
        return
    as_pairs = lambda items: [[k, int(v)] for k, v in items]
    try:
        ops = [{"op": "mergeStats", "s": as_pairs(m["before"]), "n": as_pairs(m["new"])} for m in merges]
        ops.append({"op": "mergeStats", "fold": [as_pairs(m["new"]) for m in merges]})
    except (TypeError, ValueError) as e:
        ctx.corr_break(layer + ":merge_stats", {"merges": len(merges)}, "integer counters", "non-integer statistics value: %s" % e)
        return
    answers = ctx.driver(ops)
    for m, a in zip(merges, answers):
        ctx.count("merge_stats-call-compared")
        if a.get("merged") != as_pairs(m["after"]):
            ctx.corr_break(layer + ":merge_stats", {"stats": m["before"], "new_stats": m["new"]}, a.get("merged", a), as_pairs(m["after"]))
            return
    final = tr.get("stats")
    if final is not None and merges[0]["before"] == []:
        if answers[-1].get("merged") != as_pairs(list(final.items())):
            ctx.corr_break(layer + ":merge_stats-fold", {"batches": [m["new"] for m in merges]}, answers[-1].get("merged"),
                           as_pairs(list(final.items())))


def monitor_laws(ctx, bt, ans):
    """oracle laws that appear as hypotheses of theorems, evaluated on recorded answers"""
    from synrbl.SynProcessor import CheckCarbonBalance, RSMIComparator, RSMIDecomposer

    st = bt["stages"]

    def label(rxn):
        parts = rxn.split(">>")
        if len(parts) != 2:
            return "error"
        a = CheckCarbonBalance.count_atoms(parts[0], "C", {})
        b = CheckCarbonBalance.count_atoms(parts[1], "C", {})
        return "balanced" if a == b else ("products" if a > b else "reactants")

    def verdict(rxn):
        a, b = rxn.split(">>")[:2]
        return RSMIComparator.compare_dicts(RSMIDecomposer.decompose(a), RSMIDecomposer.decompose(b))

    for i, r1 in enumerate(st["v_input"]):
        before = r1["reaction"]
        after = st["rb1"][i]["reaction"]
        # WaterCarbonLaw: inserted water does not change the carbon label
        if after != before and after.startswith(before) and set(after[len(before):]) <= set(".O"):
            ctx.count("law:water-carbon-checked")
            if label(after) != label(before):
                ctx.violation("oracle-law-water-carbon", before, "label changes when water is appended: %s" % after,
                              "CheckCarbonBalance.count_atoms")
        # RbLaw: a rule-based result that was not completed is not balanced unless the input was
        if ans and i < len(ans) and "stats" in ans[i] and ans[i]["stats"].get("rb_solved") == 0:
            if verdict(after) == "Balance" and verdict(before) != "Balance":
                ctx.violation("oracle-law-rb-unapplied-balanced", before, "uncompleted rule-based result balances: %s" % after,
                              "rule_based.py water insertion")
    # carbon counts used by the labels are the true ones (atoms with Z = 6)
    for r in st.get("v_final", []):
        for side in r["reaction"].split(">>"):
            want = chem.carbon_count(side)
            if want is not None:
                ctx.count("law:carbon-count-checked")
                if CheckCarbonBalance.count_atoms(side, "C", {}) != want:
                    ctx.violation("oracle-law-carbon-count", side, "count_atoms != number of Z=6 atoms", "check_carbon_balance.py:count_atoms")
    for r in st.get("conf", []):
        c = r.get("confidence")
        if c is not None:
            ctx.count("law:confidence-range-checked")
            if not (0.0 <= c <= 1.0):
                ctx.violation("confidence-out-of-range", r["input_reaction"], "confidence=%r" % c, "confidence_prediction.py")


# ------------------------------------------------------------------------------------------------ statements
METHODS = ("input-balanced", "rule-based", "mcs-based")


def stmt_c01(ctx, out):
    for r in out:
        if r.get("solved"):
            ctx.case(("c01", r["reaction"]), nontrivial=r.get("solved_by") != "input-balanced")
            ctx.count("solved:" + str(r.get("solved_by")))
            if chem.truly_balanced(r["reaction"]) is not True:
                ctx.violation(
                    "solved-row-not-balanced:" + str(r.get("solved_by")),
                    r.get("input_reaction"),
                    "returned %s" % r["reaction"],
                    "synrbl/balancing.py:__run_pipeline",
                )
        else:
            ctx.count("unsolved")


def stmt_c03(ctx, out, threshold=0, inputs=None, keep_maps=False):
    """`inputs`: the raw inputs of the run (same order) — a declined row must carry the text it was given (after atom-map
    removal unless the configuration keeps the maps), not merely agree with the row's own `input_reaction` column"""
    from synrbl.SynUtils.chem_utils import remove_atom_mapping

    for pos, r in enumerate(out):
        ctx.case(("c03", r.get("input_reaction")), nontrivial=not r.get("solved"))
        if not r.get("solved"):
            issue = r.get("issue")
            demoted = r.get("solved_by") == "mcs-based" and threshold != 0  # kept MCS result below the threshold (C13)
            if not isinstance(issue, str) or issue == "" or (not demoted and r["reaction"] != r["input_reaction"]):
                ctx.violation("declined-row-altered-or-without-reason", r.get("input_reaction"),
                              "reaction=%s issue=%r" % (r["reaction"], issue), "synrbl/postprocess.py:Validator.check")
            raw = inputs[pos] if inputs is not None and pos < len(inputs) else None
            if isinstance(raw, dict):
                raw = raw.get("reaction")
            if isinstance(raw, str) and not demoted:
                given = raw if keep_maps or issue == "Invalid reaction SMILES." else remove_atom_mapping(raw)
                ctx.count("declined-row-compared-with-given-text")
                if r["reaction"] != given:
                    ctx.violation("declined-row-differs-from-given-input", raw,
                                  "returned %s, given %s (atom maps %s)" % (r["reaction"], given, "kept" if keep_maps else "removed"),
                                  "synrbl/preprocess.py / synrbl/postprocess.py:Validator.check")
        else:
            if r.get("solved_by") not in METHODS or r.get("issue") not in (None, ""):
                ctx.violation("solved-row-without-method-or-with-issue", r.get("input_reaction"),
                              "solved_by=%r issue=%r" % (r.get("solved_by"), r.get("issue")), "synrbl/balancing.py")
        # more carbon in the products than in the reactants: always declined
        try:
            a, b = r["input_reaction"].split(">>")
            ca, cb = chem.carbon_count(a), chem.carbon_count(b)
        except Exception:
            ca = cb = None
        if ca is not None and cb is not None and cb > ca:
            ctx.count("carbon-deficit-rows")
            if r.get("solved"):
                ctx.violation("carbon-deficit-row-solved", r["input_reaction"], "returned %s" % r["reaction"],
                              "synrbl/SynMCSImputer/mcs_based_method.py:impute_reaction")


def stmt_c18(ctx, tr):
    out, st = tr["out"], tr["stats"]
    if out is None or st is None:
        return
    n_in = len(tr["inputs"])
    cnt = lambda f: sum(1 for r in out if f(r))
    n_input = cnt(lambda r: r.get("solved_by") == "input-balanced")
    n_rule = cnt(lambda r: r.get("solved_by") == "rule-based")
    n_mcs_by = cnt(lambda r: r.get("solved_by") == "mcs-based")
    n_mcs_solved = cnt(lambda r: r.get("solved") and r.get("solved_by") == "mcs-based")
    n_invalid = cnt(lambda r: r.get("issue") == "Invalid reaction SMILES.")
    want = {
        "reaction_cnt == input rows": (st.get("reaction_cnt"), n_in),
        "balanced_cnt == #input-balanced": (st.get("balanced_cnt", 0), n_input),
        "confident_cnt == #solved by mcs": (st.get("confident_cnt", 0), n_mcs_solved),
        "mcs_applied == #not solved before MCS": (st.get("mcs_applied", 0), len(out) - n_invalid - n_input - n_rule),
    }
    bad = {k: v for k, v in want.items() if v[0] != v[1]}
    ineq = {
        "rb_solved <= rb_applied": st.get("rb_solved", 0) <= st.get("rb_applied", 0),
        "mcs_solved <= mcs_applied": st.get("mcs_solved", 0) <= st.get("mcs_applied", 0),
        "#rule-based <= rb_solved": n_rule <= st.get("rb_solved", 0),
        "#mcs-based <= mcs_solved": n_mcs_by <= st.get("mcs_solved", 0),
    }
    bad.update({k: v for k, v in ineq.items() if not v})
    ctx.case(("c18", json.dumps(st, sort_keys=True), n_in), nontrivial=st.get("mcs_applied", 0) > 0)
    if bad:
        ctx.violation("statistics-disagree-with-rows", {"n_inputs": n_in, "batch_size": tr["batch_size"], "threshold": tr["threshold"]},
                      "stats=%s mismatches=%s" % (st, bad), "synrbl/balancing.py:merge_stats")
